#!/usr/bin/env python3
"""import_seed.py <ID> <k> <detection-log> : copy an independently produced mutant from /tmp/seed/<ID>/out/<k> into
/verif/seeded/<ID>-seed<k>/ with a meta.json that records the author's description, our own confirmation
(tools/confirm_seed.sh) and what our checks reported (tools/mutant.py run)."""
import json, re, shutil, sys
from pathlib import Path
pid, k, log = sys.argv[1], sys.argv[2], Path(sys.argv[3]).read_text()
base = sys.argv[4] if len(sys.argv) > 4 else "/tmp/seed"
tag = {"/tmp/seed": "seed", "/tmp/seed2": "r2seed", "/tmp/seed3": "r3seed", "/tmp/seed4": "r4seed", "/tmp/seed5": "r5seed"}.get(base.rstrip("/"), "xseed")
extra = json.loads(sys.argv[5]) if len(sys.argv) > 5 else {}
src = Path(f"{base}/{pid}/out/{k}")
dst = Path(f"/verif/seeded/{pid}-{tag}{k}")
dst.mkdir(parents=True, exist_ok=True)
for f in src.iterdir():
    if f.is_file() and f.stat().st_size < 200_000 and f.name not in ("meta.json", "confirm.json"):
        shutil.copy(f, dst / f.name)
author = json.loads((src / "meta.json").read_text()) if (src / "meta.json").exists() else {}
confirm = json.loads((src / "confirm.json").read_text()) if (src / "confirm.json").exists() else None
# detection: section of the log for this seed
m = re.search(rf"=== {pid}/{k}\n(.*?)(?:\n=== |\Z)", log, flags=re.S)
sec = m.group(1) if m else ""
caught = re.search(r"CAUGHT BY: (\[.*?\])", sec)
rep = re.search(r"replay: (\{.*)", sec)
meta = {
    "property": pid,
    "origin": "independent sub-agent given only the property text and a scratch worktree of /repo (nothing from /verif)",
    "summary": author.get("summary"),
    "what_it_needs_to_manifest": author.get("what_it_needs_to_manifest"),
    "files_touched": author.get("files_touched"),
    "author_verification": author.get("how_verified"),
    "confirmed_by_integrator": confirm,
    "what_was_run": f"tools/confirm_seed.sh {base}/{pid}/out/{k}  (scratch worktree: build, demo on unmodified and changed tree, baseline tests); "
                    f"tools/mutant.py run seeded/{pid}-{tag}{k}/patch.diff {pid}  (./check {pid} quick in a copy of /verif against a worktree with the patch applied)",
    "caught_by": json.loads(caught.group(1).replace("'", '"')) if caught else None,
    "replay_excerpt": rep.group(1)[:900] if rep else None,
}
meta.update(extra)
(dst / "meta.json").write_text(json.dumps(meta, indent=1) + "\n")
print(dst, "caught_by", meta["caught_by"], "confirmed", bool(confirm))
