#!/usr/bin/env python3
"""Prints the per-property status table for DESIGN.md from locks/, evidence/, KNOWN_FINDINGS.txt and seeded/*/meta.json."""
import json, re, glob, os
from pathlib import Path
R = Path("/verif")
props = [json.loads(l) for l in (R / "properties.jsonl").read_text().splitlines() if l.strip()]
kf = (R / "KNOWN_FINDINGS.txt").read_text().splitlines()
print("| ID | theorems (pinned) | quick: evaluations / non-trivial | fixed in /repo | known findings | independent seeds reported (final run; by this or a neighbouring check) |")
print("|---|---|---|---|---|---|")
for p in props:
    pid = p["id"]
    lock = json.loads((R / "locks" / f"{pid}.json").read_text()) if (R / "locks" / f"{pid}.json").exists() else {}
    ev = json.loads((R / "evidence" / f"{pid}.json").read_text()) if (R / "evidence" / f"{pid}.json").exists() else {}
    cov = ev.get("coverage", {})
    fixed = [re.search(r"fixed:\s+property=\w+\s+(\w+)", l).group(1) for l in kf if l.startswith("fixed:") and f"property={pid} " in l and re.search(r"fixed:\s+property=\w+\s+(\w+)", l)]
    known = [re.search(r"key=(\S+)", l).group(1) for l in kf if l.startswith("known:") and f"property={pid} " in l]
    seeds = []
    for m in sorted(glob.glob(str(R / "seeded" / f"{pid}-*seed*" / "meta.json"))):
        d = json.load(open(m))
        seeds.append((os.path.basename(os.path.dirname(m)).split("-", 1)[1], bool(d.get("caught_by_final", d.get("caught_by")))))
    sc = f"{sum(1 for _, c in seeds if c)}/{len(seeds)}" if seeds else "-"
    print(f"| {pid} | {len(lock)} | {cov.get('evaluations', '?')} / {cov.get('distinct_nontrivial', '?')} | {', '.join(fixed) or '-'} | {', '.join(known) or '-'} | {sc} |")
