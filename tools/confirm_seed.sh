#!/bin/bash
# usage: confirm_seed.sh <seed-dir-with-patch.diff-and-demo> ...
# For each seed: in a scratch worktree /tmp/confirm/repo (own target dir) build the unmodified tree, run the demo
# (must print demo.expected), apply the patch, rebuild, run the demo (must differ / crash), run the baseline test
# suite (passing set must not shrink), undo. Writes <seed-dir>/confirm.json.
set -u
W=/tmp/confirm/repo
mkdir -p /tmp/confirm
if [ ! -d $W ]; then git -C /repo worktree add --detach $W HEAD >/dev/null 2>&1; fi
cd $W && git checkout -q -- . && git checkout -q --detach $(git -C /repo rev-parse HEAD)
cargo build --offline >/dev/null 2>&1
cp target/debug/noulith /tmp/confirm/noulith.base
if [ ! -f /tmp/confirm/base_tests.txt ] || [ "$(cat /tmp/confirm/base_head 2>/dev/null)" != "$(git rev-parse HEAD)" ]; then
  cargo nextest run --workspace --no-fail-fast --test-threads 8 --offline 2>&1 | grep -E "^\s+PASS" | sed 's/.*\] *//' | awk '{print $NF}' | sort > /tmp/confirm/base_tests.txt
  git rev-parse HEAD > /tmp/confirm/base_head
fi
for S in "$@"; do
  S=$(realpath $S)
  cd $W && git checkout -q -- .
  demo=$S/demo.noul
  base_ok=null; mut_differs=null
  if [ -f $demo ]; then
    timeout 60 /tmp/confirm/noulith.base $demo > /tmp/confirm/base.out 2>/dev/null
    if [ -f $S/demo.expected ]; then if diff -q /tmp/confirm/base.out $S/demo.expected >/dev/null; then base_ok=true; else base_ok=false; fi; fi
  fi
  if ! git apply --whitespace=nowarn $S/patch.diff 2>/tmp/confirm/apply.err; then
    echo "{\"applies\": false, \"err\": \"$(head -c 200 /tmp/confirm/apply.err | tr '\"\n' ' ')\"}" > $S/confirm.json; continue; fi
  if cargo build --offline >/tmp/confirm/build.log 2>&1; then compiles=true; else compiles=false; fi
  if [ -f $demo ] && [ $compiles = true ]; then
    timeout 60 target/debug/noulith $demo > /tmp/confirm/mut.out 2>/dev/null; rc=$?
    if diff -q /tmp/confirm/base.out /tmp/confirm/mut.out >/dev/null && [ $rc -eq 0 ]; then mut_differs=false; else mut_differs=true; fi
  fi
  # a Rust demo test (tests/seed_demo_test.rs): must pass on the unmodified tree and fail with the change
  if [ -f $S/demo_test.rs ]; then
    git stash -q; cp $S/demo_test.rs tests/seed_demo_test.rs
    if timeout 1200 cargo test --offline --test seed_demo_test >/tmp/confirm/dt_base.log 2>&1; then dt_base=true; else dt_base=false; fi
    rm -f tests/seed_demo_test.rs; git stash pop -q; cp $S/demo_test.rs tests/seed_demo_test.rs
    if timeout 1200 cargo test --offline --test seed_demo_test >/tmp/confirm/dt_mut.log 2>&1; then dt_mut=false; else dt_mut=true; fi
    rm -f tests/seed_demo_test.rs
    if [ "$base_ok" = null ]; then base_ok=$dt_base; fi
    if [ "$mut_differs" = null ]; then mut_differs=$dt_mut; fi
  fi
  cargo nextest run --workspace --no-fail-fast --test-threads 8 --offline 2>&1 | grep -E "^\s+PASS" | awk '{print $NF}' | sort > /tmp/confirm/mut_tests.txt
  lost=$(comm -23 /tmp/confirm/base_tests.txt /tmp/confirm/mut_tests.txt | tr '\n' ' ')
  echo "{\"applies\": true, \"compiles\": $compiles, \"demo_matches_expected_on_unmodified\": $base_ok, \"demo_differs_with_change\": $mut_differs, \"baseline_tests_passing\": $(wc -l < /tmp/confirm/base_tests.txt), \"tests_passing_with_change\": $(wc -l < /tmp/confirm/mut_tests.txt), \"tests_lost\": \"$lost\", \"repo_head\": \"$(git rev-parse --short HEAD)\"}" > $S/confirm.json
  echo "$S: $(cat $S/confirm.json)"
  git checkout -q -- .
done
