(* C17 model runner.  One case per line: a list of statements as an S-expression
     ( stmt stmt ... )
   run in order in one fresh scope (a child frame of the global frame); one result per statement,
   joined by " || ".  Statements:
     (decl x E) (asg x E) (expr E) (fdecl x E)   -- x := freeze E
     (setprec x n) (swap x y)
   Expressions E:
     (null) (int n) (str s) (var x) (und) (seq E..) (decl x E) (asg x E) (if C T F) (while C B)
     (for x E (CL..) y|n B)  CL = (iter x E) | (let x E) | (guard E)
     (switch E (arm P B)..)  P = (pw) | (pl n) | (pv x)
     (try B x H) (throw E) (lam (x..) B) (call F A..) (chain A (OP D)..) (list E..) (import E)
   Result: ok <val> | err <val> | ferr name|syntax | unsupp | fuel | trap, then a tab, then the
   printed output with newlines written as \n. *)
open Model
open Conv

(* ---- Coq strings are OCaml strings (ExtrOcamlNativeString) *)
let cs (s : string) : string = s
let os (s : string) : string = s

(* ---- S-expressions *)
type sx = A of string | L of sx list
let tokenize (s : string) : string list =
  let b = Buffer.create 16 and out = ref [] in
  let flush () = if Buffer.length b > 0 then (out := Buffer.contents b :: !out; Buffer.clear b) in
  String.iter (fun c -> match c with
    | '(' | ')' -> flush (); out := String.make 1 c :: !out
    | ' ' | '\t' | '\n' | '\r' -> flush ()
    | c -> Buffer.add_char b c) s;
  flush (); List.rev !out
let rec parse_sx (ts : string list) : sx * string list =
  match ts with
  | "(" :: r -> let (items, r') = parse_list r in (L items, r')
  | ")" :: _ -> failwith "unexpected )"
  | t :: r -> (A t, r)
  | [] -> failwith "eof"
and parse_list ts =
  match ts with
  | ")" :: r -> ([], r)
  | [] -> failwith "eof in list"
  | _ -> let (x, r) = parse_sx ts in let (xs, r') = parse_list r in (x :: xs, r')

let atom = function A s -> s | L _ -> failwith "atom expected"
let rec expr_of (s : sx) : expr =
  match s with
  | L [A "null"] -> ENull
  | L [A "int"; A n] -> EInt (coqz_of_string n)
  | L [A "str"] -> EStr (cs "")
  | L [A "str"; A t] -> EStr (cs t)
  | L [A "var"; A x] -> EVar (cs x)
  | L [A "und"] -> EUnderscore
  | L (A "seq" :: es) -> ESeq (List.map expr_of es)
  | L [A "decl"; A x; e] -> EDecl (cs x, expr_of e)
  | L [A "asg"; A x; e] -> EAssign (cs x, expr_of e)
  | L [A "if"; c; t; f] -> EIf (expr_of c, expr_of t, expr_of f)
  | L [A "while"; c; b] -> EWhile (expr_of c, expr_of b)
  | L [A "for"; A x; e; L cls; A y; b] ->
    EFor (cs x, expr_of e, List.map clause_of cls, (y = "y"), expr_of b)
  | L (A "switch" :: e :: arms) -> ESwitch (expr_of e, List.map arm_of arms)
  | L [A "try"; b; A x; h] -> ETry (expr_of b, cs x, expr_of h)
  | L [A "throw"; e] -> EThrow (expr_of e)
  | L [A "lam"; L ps; b] -> ELam (List.map (fun p -> cs (atom p)) ps, expr_of b)
  | L (A "call" :: f :: args) -> ECall (expr_of f, List.map expr_of args)
  | L (A "chain" :: a :: ops) ->
    EChain (expr_of a, List.map (function L [o; d] -> (expr_of o, expr_of d) | _ -> failwith "op") ops)
  | L (A "list" :: es) -> EList (List.map expr_of es)
  | L [A "import"; e] -> EImport (expr_of e)
  | _ -> failwith "bad expr"
and clause_of = function
  | L [A "iter"; A x; e] -> ((KIter, cs x), expr_of e)
  | L [A "let"; A x; e] -> ((KLet, cs x), expr_of e)
  | L [A "guard"; e] -> ((KGuard, cs ""), expr_of e)
  | _ -> failwith "bad clause"
and arm_of = function
  | L [A "arm"; p; b] ->
    ((match p with
      | L [A "pw"] -> PWild
      | L [A "pl"; A n] -> PLit (coqz_of_string n)
      | L [A "pv"; A x] -> PVar (cs x)
      | _ -> failwith "bad pat"), expr_of b)
  | _ -> failwith "bad arm"

(* ---- rendering *)
let rec canon (v : val0) : string =
  match v with
  | VNull -> "N"
  | VInt z -> "I" ^ string_of_coqz z
  | VStr s -> "S\"" ^ os s ^ "\""
  | VList l -> "L[" ^ String.concat "," (List.map canon l) ^ "]"
  | VPrim _ | VClos _ -> "Fn"
  | VErr -> "E"
let rec display (v : val0) : string =
  match v with
  | VNull -> "null"
  | VInt z -> string_of_coqz z
  | VStr s -> os s
  | VList l -> "[" ^ String.concat ", " (List.map display l) ^ "]"
  | VPrim _ | VClos _ -> "<fn>"
  | VErr -> "<err>"
let render_out (o : val0 list list) : string =
  String.concat "" (List.map (fun vs -> String.concat " " (List.map display vs) ^ "\\n") o)

let fuel = nat_of_int 300

let show (r : val0 res) : string =
  match r with
  | Val v -> "ok " ^ canon v
  | Sig (SThrow v) -> "err " ^ canon v
  | Sig SUnsupp -> "unsupp"
  | Sig STrap -> "trap"
  | OutOfFuel0 -> "fuel"   (* res.OutOfFuel: renamed by extraction, outcome.OutOfFuel comes first *)

let set_prec (v : val0) (p : Model.z) : val0 option =
  match v with
  | VPrim (q, _) -> Some (VPrim (q, p))
  | VClos (ps, b, env, _) -> Some (VClos (ps, b, env, p))
  | _ -> None

let run_case (line : string) : string =
  let (sx, _) = parse_sx (tokenize line) in
  let stmts = match sx with L l -> l | _ -> failwith "case" in
  let (st0, cur) = push_frame init_state O [] in
  let st = ref st0 in
  let clear () = st := { frames = !st.frames; out = [] } in
  let finish (s1 : state) (txt : string) =
    let o = render_out s1.out in
    st := { frames = s1.frames; out = [] }; txt ^ "\t" ^ o in
  let ev e = let (s1, r) = eval noprot fuel !st cur e in finish s1 (show r) in
  let do_stmt (s : sx) : string =
    clear ();
    match s with
    | L [A "decl"; A x; e] -> ev (EDecl (cs x, expr_of e))
    | L [A "asg"; A x; e] -> ev (EAssign (cs x, expr_of e))
    | L [A "expr"; e] -> ev (expr_of e)
    | L [A "fdecl"; A x; e] ->
      (match freeze (look_in !st.frames cur) [] (expr_of e) with
       | Ok (e', _) -> ev (EDecl (cs x, e'))
       | Err EName -> "ferr name\t"
       | Err ESyntax -> "ferr syntax\t"
       | Err _ -> "ferr other\t"
       | Panic -> "panic\t"
       | OutOfFuel -> "fuel\t")
    | L [A "setprec"; A x; A n] ->
      (match lookup !st.frames cur (cs x) with
       | Some v ->
         (match set_prec v (coqz_of_string n) with
          | Some v' ->
            (match assign noprot !st cur (cs x) v' with
             | UOk s1 -> st := s1; "ok N\t"
             | _ -> "err E\t")
          | None -> "err E\t")
       | None -> "err E\t")
    | L [A "swap"; A x; A y] ->
      (match lookup !st.frames cur (cs x), lookup !st.frames cur (cs y) with
       | Some vx, Some vy ->
         (match assign noprot !st cur (cs x) vy with
          | UOk s1 ->
            (match assign noprot s1 cur (cs y) vx with
             | UOk s2 -> st := s2; "ok N\t"
             | _ -> "err E\t")
          | _ -> "err E\t")
       | _ -> "err E\t")
    | _ -> failwith "bad stmt" in
  String.concat " || " (List.map do_stmt stmts)

let () = serve run_case
