(* C11 model runner.  One case per line:
     <stream> ; <k> ; <observation>
   <stream> (prefix notation, base lists are 10,11,...):
     range A B|_ C | wvec N | perm N | comb N K | subs N | cart M K |
     repeat X | cycle N | iterate X | map S | filter S | zip K S1..SK
   <k>: the number of elements dropped first (`s drop k`)
   <observation>: len | list | idx I | slice A|_ B|_ | reverse | last | in ELT | truthy |
                  unpack K | take N | shared N
   Answers are the harness's canonical value texts: "ok I3", "ok L[I1,I2]", "ok T[..]",
   "ok inf", "err", "panic", "fuel". *)
open Model
open Conv

type elt = EI of Model.z | EL of elt list | EBad | EErr   (* EErr: an item that is a raised error *)

(* a stream value: its state is captured in the closures (extracted step/len functions) *)
type strm = {
  step : unit -> elt option * strm;
  len : unit -> Model.z option outcome;
  index_ovr : (Model.z -> elt outcome) option;   (* Repeat/Cycle::pythonic_index_isize *)
  rev_ovr : (unit -> strm) option;               (* Repeat/Cycle::reversed *)
  slice_ovr : (Model.z option -> Model.z option -> elt rsliced outcome) option;  (* Repeat::pythonic_slice *)
  infinite : bool;
}

let zi i = coqz_of_z (BZ.of_int i)
let rec show_elt = function
  | EI z -> "I" ^ string_of_coqz z
  | EL l -> "L[" ^ String.concat "," (List.map show_elt l) ^ "]"
  | EBad -> "!panic"
  | EErr -> "!err"
let show_list tag l = tag ^ "[" ^ String.concat "," (List.map show_elt l) ^ "]"
let show (f : 'a -> string) (o : 'a outcome) = match o with
  | Ok a -> "ok " ^ f a | Err _ -> "err" | Panic -> "panic" | OutOfFuel -> "fuel"

let big_fuel = nat_of_int 40000
let inf_fuel = nat_of_int 300

let base n = List.init n (fun i -> EI (zi (10 + i)))
let of_pick (o : elt list outcome) : elt = match o with Ok l -> EL l | _ -> EBad

let rec mk_range r = { step = (fun () -> let (o, r') = range_step r in
                                  ((match o with Some z -> Some (EI z) | None -> None), mk_range r'));
                       len = (fun () -> Ok (range_len r)); index_ovr = None; rev_ovr = None; slice_ovr = None;
                       infinite = (match range_len r with None -> true
                                   | Some n -> BZ.gt (z_of_coqz n) (BZ.of_int 5000)) (* too long to list: prefixes only *) }
let rec mk_wvec w = { step = (fun () -> let (o, w') = wvec_step w in (o, mk_wvec w'));
                      len = (fun () -> Ok (wvec_len w)); index_ovr = None; rev_ovr = None; slice_ovr = None; infinite = false }
let rec mk_perm b s = { step = (fun () -> let (o, s') = perm_step s in
                                  ((match o with Some v -> Some (of_pick (pick b v)) | None -> None), mk_perm b s'));
                        len = (fun () -> perm_len s); index_ovr = None; rev_ovr = None; slice_ovr = None; infinite = false }
let rec mk_comb b s =
  let n = Model.length b in
  let self_step st = comb_step n st in
  { step = (fun () -> let (o, s') = comb_step n s in
               ((match o with Some v -> Some (of_pick (pick b v)) | None -> None), mk_comb b s'));
    len = (fun () -> default_len self_step big_fuel s); index_ovr = None; rev_ovr = None; slice_ovr = None; infinite = false }
let rec mk_subs b s = { step = (fun () -> let (o, s') = sub_step s in
                                  ((match o with Some v -> Some (EL (mask_select v b)) | None -> None), mk_subs b s'));
                        len = (fun () -> sub_len s); index_ovr = None; rev_ovr = None; slice_ovr = None; infinite = false }
let rec mk_cart b s =
  let m = Model.length b in
  { step = (fun () -> let (o, s') = cart_step m s in
               ((match o with Some v -> Some (of_pick (pick b v)) | None -> None), mk_cart b s'));
    len = (fun () -> cart_len m s); index_ovr = None; rev_ovr = None; slice_ovr = None; infinite = false }
let rec mk_repeat x = { step = (fun () -> let (o, x') = repeat_step x in (o, mk_repeat x'));
                        len = (fun () -> infinite_len); index_ovr = Some (fun i -> repeat_index x i);
                        rev_ovr = Some (fun () -> mk_repeat x);
                        slice_ovr = Some (fun lo hi -> repeat_slice (coqz_of_string "1099511627776") x lo hi);
                        infinite = true }
let rec mk_cycle c = { step = (fun () -> let (o, c') = cycle_step c in (o, mk_cycle c'));
                       len = (fun () -> infinite_len); index_ovr = Some (fun i -> cycle_index c i);
                       rev_ovr = Some (fun () -> mk_cycle (cycle_reversed c)); slice_ovr = None;
                       infinite = true }
let dbl = function EI z -> EI (Z.add (Z.mul z (zi 2)) (zi 1)) | e -> e
let rec mk_iterate x = { step = (fun () -> let (o, x') = iterate_step dbl x in (o, mk_iterate x'));
                         len = (fun () -> infinite_len); index_ovr = None; rev_ovr = None; slice_ovr = None; infinite = true }

let sstep (s : strm) = s.step ()
let even = function EI z -> (match Z.modulo z (zi 2) with Z0 -> true | _ -> false) | _ -> false
(* adaptors over a dynamic inner stream; len is the default (count by iterating a clone) *)
let rec mk_map (a : strm adapted) inf =
  let st x = map_step sstep dbl x in
  { step = (fun () -> let (o, a') = st a in (o, mk_map a' inf));
    len = (fun () -> if inf then OutOfFuel else default_len st big_fuel a); index_ovr = None; rev_ovr = None; slice_ovr = None; infinite = inf }
let filter_fuel = nat_of_int 2000
let rec mk_filter (a : strm adapted) inf =
  let st x = match filter_step sstep even filter_fuel x with
    | Ok r -> r | _ -> (None, AStopped) in
  { step = (fun () -> let (o, a') = st a in (o, mk_filter a' inf));
    len = (fun () -> if inf then OutOfFuel else default_len st big_fuel a); index_ovr = None; rev_ovr = None; slice_ovr = None; infinite = inf }
let rec mk_zip (a : strm list adapted) inf =
  let st x = match zip_step sstep x with (Some es, a') -> (Some (EL es), a') | (None, a') -> (None, a') in
  { step = (fun () -> let (o, a') = st a in (o, mk_zip a' inf));
    len = (fun () -> if inf then OutOfFuel else default_len st big_fuel a); index_ovr = None; rev_ovr = None; slice_ovr = None; infinite = inf }

(* lazy_zip with a function: g folds the heads as ((a * 100 + b) * 100 + c) ... *)
let gfold (es : elt list) : elt =
  List.fold_left (fun acc e -> match acc, e with EI a, EI b -> EI (Z.add (Z.mul a (zi 100)) b) | _ -> EBad) (EI (zi 0)) es
let rec mk_zipf (a : strm list adapted) inf =
  let st x = zipf_step sstep gfold x in
  { step = (fun () -> let (o, a') = st a in (o, mk_zipf a' inf));
    len = (fun () -> if inf then OutOfFuel else default_len st big_fuel a); index_ovr = None; rev_ovr = None; slice_ovr = None; infinite = inf }
(* callbacks that raise on the element k *)
let item = function Ok y -> y | _ -> EErr
let rec mk_emap k (a : strm adapted) inf =
  let f e = if e = EI k then Err EValue else Ok (dbl e) in
  let st x = let (o, a') = emap_step sstep f x in ((match o with Some r -> Some (item r) | None -> None), a') in
  { step = (fun () -> let (o, a') = st a in (o, mk_emap k a' inf));
    len = (fun () -> if inf then OutOfFuel else default_len st big_fuel a); index_ovr = None; rev_ovr = None; slice_ovr = None; infinite = inf }
let rec mk_efilter k (a : strm adapted) inf =
  let p e = if e = EI k then Err EValue else Ok (even e) in
  let st x = match x with
    | AStopped -> (None, AStopped)
    | AOk s -> (match efilter_loop sstep p filter_fuel s with
                | Ok (o, a') -> ((match o with Some r -> Some (item r) | None -> None), a')
                | _ -> (None, AStopped)) in
  { step = (fun () -> let (o, a') = st a in (o, mk_efilter k a' inf));
    len = (fun () -> if inf then OutOfFuel else default_len st big_fuel a); index_ovr = None; rev_ovr = None; slice_ovr = None; infinite = inf }

exception Ctor_err
(* parse a stream expression from a token list *)
let rec parse toks : strm * string list =
  let int s = int_of_string s in
  match toks with
  | "range" :: a :: b :: c :: r ->
    let e = if b = "_" then None else Some (coqz_of_string b) in
    (mk_range { r_start = coqz_of_string a; r_end = e; r_step = coqz_of_string c }, r)
  | "to" :: a :: b :: c :: r -> (mk_range (to0 (coqz_of_string a) (coqz_of_string b) (coqz_of_string c)), r)
  | "wvec" :: n :: r -> (mk_wvec (stream_of_list (base (int n))), r)
  | "perm" :: n :: r -> (mk_perm (base (int n)) (perm_init (nat_of_int (int n))), r)
  | "comb" :: n :: k :: r -> (mk_comb (base (int n)) (comb_init (nat_of_int (int k))), r)
  | "subs" :: n :: r -> (mk_subs (base (int n)) (sub_init (nat_of_int (int n))), r)
  | "cart" :: m :: k :: r -> (mk_cart (base (int m)) (cart_init (nat_of_int (int m)) (nat_of_int (int k))), r)
  | "repeat" :: x :: r -> (mk_repeat (EI (coqz_of_string x)), r)
  | "cycle" :: n :: r ->
    (match cycle_init (base (int n)) with Ok c -> (mk_cycle c, r) | _ -> raise Ctor_err)
  | "iterate" :: x :: r -> (mk_iterate (EI (coqz_of_string x)), r)
  | "map" :: r -> let (s, r') = parse r in (mk_map (AOk s) s.infinite, r')
  | "filter" :: r -> let (s, r') = parse r in (mk_filter (AOk s) s.infinite, r')
  | "zip" :: k :: r ->
    let rec go k r acc = if k = 0 then (List.rev acc, r) else let (s, r') = parse r in go (k - 1) r' (s :: acc) in
    let (ss, r') = go (int k) r [] in
    (mk_zip (AOk ss) (List.for_all (fun s -> s.infinite) ss), r')
  | "zipf" :: k :: r ->
    let rec go k r acc = if k = 0 then (List.rev acc, r) else let (s, r') = parse r in go (k - 1) r' (s :: acc) in
    let (ss, r') = go (int k) r [] in
    (mk_zipf (AOk ss) (List.for_all (fun s -> s.infinite) ss), r')
  (* (the driver only builds raising adaptors that end: finite inner stream, or the raising element occurs) *)
  | "emap" :: k :: r -> let (s, r') = parse r in (mk_emap (coqz_of_string k) (AOk s) false, r')
  | "efilter" :: k :: r -> let (s, r') = parse r in (mk_efilter (coqz_of_string k) (AOk s) false, r')
  | _ -> failwith "bad stream"

(* I<int> | L[e,e,...] (nested) *)
let parse_elt (s : string) : elt =
  let n = String.length s in
  let pos = ref 0 in
  let rec elt () =
    if !pos < n && s.[!pos] = 'I' then begin
      let st = !pos + 1 in
      pos := st;
      while !pos < n && (s.[!pos] = '-' || (s.[!pos] >= '0' && s.[!pos] <= '9')) do incr pos done;
      EI (coqz_of_string (String.sub s st (!pos - st)))
    end else if !pos + 1 < n && s.[!pos] = 'L' && s.[!pos + 1] = '[' then begin
      pos := !pos + 2;
      let acc = ref [] in
      if s.[!pos] = ']' then incr pos
      else begin
        let fin = ref false in
        while not !fin do
          acc := elt () :: !acc;
          if s.[!pos] = ',' then incr pos else (incr pos; fin := true)
        done
      end;
      EL (List.rev !acc)
    end else failwith "bad elt" in
  elt ()

let idx_of s = match s with "f" -> INonInt | "x" -> INonNum | _ -> IInt (coqz_of_string s)
let oidx_of s = if s = "_" then None else Some (idx_of s)

let show_stream l =
  (* the harness forces at most 64 elements of a stream value and marks a longer one *)
  let rec take n l = match n, l with 0, _ | _, [] -> [] | n, x :: r -> x :: take (n - 1) r in
  if List.length l > 64 then "T[" ^ String.concat "," (List.map show_elt (take 64 l)) ^ ",...]"
  else show_list "T" l

let observe (s : strm) (obs : string list) : string =
  let fuel = if s.infinite then inf_fuel else big_fuel in
  let len x = x.len () in
  match obs with
  | ["len"] -> show (function None -> "F7ff0000000000000" | Some n -> "I" ^ string_of_coqz n) (obs_len len s)
  | ["truthy"] -> show (fun b -> if b then "I1" else "I0") (obs_truthy len s)
  | ["list"] -> show_list "ok L" (force sstep fuel s)
  | ["idx"; i] ->
    (match s.index_ovr, to_isize (idx_of i) with
     | Some f, Some n -> show show_elt (f n)
     | Some _, None -> "err"
     | None, _ -> show show_elt (obs_index sstep fuel s (idx_of i)))
  | ["slice"; a; b] when s.slice_ovr <> None ->
    let f = match s.slice_ovr with Some f -> f | None -> assert false in
    (match obj_to_isize_slice_index (oidx_of a), obj_to_isize_slice_index (oidx_of b) with
     | Ok lo, Ok hi ->
       show (fun r -> match r with RSelf -> show_stream (force sstep fuel s) | RList l -> show_list "L" l) (f lo hi)
     | _ -> "err")
  | ["slice"; a; b] ->
    show (fun r -> match r with SStream l -> show_stream l | SList l -> show_list "L" l)
      (obs_slice sstep fuel s (oidx_of a) (oidx_of b))
  | ["reverse"] -> show (show_list "L") (obs_reverse sstep fuel s)
  | ["revtake"; k] ->
    (match s.rev_ovr with
     | Some f -> show_list "ok L" (unfold sstep (nat_of_int (int_of_string k)) (f ()))
     | None -> "badobs")
  | ["last"] -> show show_elt (obs_last sstep fuel s)
  | ["in"; e] -> show (fun b -> if b then "I1" else "I0") (obs_in sstep (fun a b -> a = b) fuel (parse_elt e) s)
  | ["unpack"; k] -> show (show_list "L") (obs_unpack sstep len fuel (nat_of_int (int_of_string k)) s)
  | ["shared"; k] ->
    (* a consumer iterating k times through a handle to a cell that a variable also owns:
       prints the elements the consumer saw and what the variable lists afterwards *)
    (match handle_run sstep (nat_of_int (int_of_string k)) [(s, nat_of_int 2)] O with
     | Some ((es, h), _) ->
       let seen = List.filter_map (fun x -> x) es in
       let var = match h with (v, _) :: _ -> v | [] -> s in
       "ok " ^ show_list "L" [EL seen; EL (force sstep fuel var)]
     | None -> "badheap")
  | _ -> "badobs"

(* an answer that contains a raised error is that error; a stream value prints it as its last item *)
let contains s sub =
  let n = String.length s and m = String.length sub in
  let rec go i = i + m <= n && (String.sub s i m = sub || go (i + 1)) in go 0
let with_errors (obs : string list) (ans : string) : string =
  if contains ans "!err" && not (String.length ans > 4 && String.sub ans 0 4 = "ok T") then "err" else ans
(* `x in s` stops with the error when it reaches the error item before finding x *)
let observe_e (s : strm) (obs : string list) : string =
  let fuel = if s.infinite then inf_fuel else big_fuel in
  match obs with
  | ["in"; e] when List.mem EErr (force sstep fuel s) ->
    let x = parse_elt e in
    let rec go = function [] -> "ok I0" | EErr :: _ -> "err" | y :: r -> if y = x then "ok I1" else go r in
    go (force sstep fuel s)
  | _ -> with_errors obs (observe s obs)

let split_on_semicolon toks =
  let rec go cur acc = function
    | [] -> List.rev (List.rev cur :: acc)
    | ";" :: r -> go [] (List.rev cur :: acc) r
    | t :: r -> go (t :: cur) acc r in
  go [] [] toks

let () = serve (fun line ->
  match split_on_semicolon (split_ws line) with
  | [st; [k]; obs] ->
    (try
       let (s, rest) = parse st in
       if rest <> [] then "badcase"
       else observe_e (drop_prefix sstep (nat_of_int (int_of_string k)) s) obs
     with Ctor_err -> "ctor-err")
  | _ -> "badcase")
