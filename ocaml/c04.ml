(* C04 model runner.  One case per line, written as s-expressions:

     (let NAME E) ... (eval E)            evaluate E after binding NAMEs to the values of Es
     (let NAME E) ... (opassign X F E)    new value of the variable X after  X F= E  (E may mention X)

   E ::= NAME                      a bound name, or else an opaque data atom called NAME
       | (B name (k ...) (k ...))  opaque builtin; a one-argument call on an argument whose key is in
                                   the first list returns PartialApp2(self, arg), in the second list
                                   PartialAppLast(self, arg); the key of an atom is its name, of a
                                   function `fn`, of a list `list`, and `*` matches everything
       | (C id)                    opaque closure
       | (K then|calll|apply|of|const|compr|compl|id|flip|on)   transcribed builtin
       | (Q parallel|fanout|lift)  transcribed function-building combinator ( *** &&& lift )
       | (callhole A ...)          _(A ...): call section whose callee is the hole
       | (call E A ...) | (chain O E O) | (list A ...)
   A ::= E | (splat E) | _ | (splat _)          O ::= E | _

   Opaque builtins and closures answer symbolically: the result of the run is the normal form of
   the expression, e.g. `ok (B f a b)` = "the vector call of builtin f on [a, b]".  The driver
   renders that normal form back to Noulith (plain calls only) to obtain the reference value. *)
open Model
open Conv

type bi = { name : string; p2 : string list; pl : string list }
type d = Atom of string | BApp of string * v list | CApp of int * v list
and v = (bi, int, d) val0
type f = (bi, int, d) func

let key_of (x : v) = match x with VData (Atom s) -> s | VData _ -> "data" | VList _ -> "list" | VFunc _ -> "fn"
let has l k = List.mem "*" l || List.mem k l
let brun (b : bi) (args : v list) : v outcome =
  match args with
  | [x] when has b.p2 (key_of x) -> Ok (VFunc (FPartialApp2 (FBuiltin b, x)))
  | [x] when has b.pl (key_of x) -> Ok (VFunc (FPartialAppLast (FBuiltin b, x)))
  | _ -> Ok (VData (BApp (b.name, args)))
let crun (c : int) (args : v list) : v outcome = Ok (VData (CApp (c, args)))
let diter (_ : d) : v list outcome = Err EType

(* ---- s-expressions *)
type sx = A of string | L of sx list
let tokenize (s : string) : string list =
  let toks = ref [] and cur = Buffer.create 16 in
  let flush () = if Buffer.length cur > 0 then (toks := Buffer.contents cur :: !toks; Buffer.clear cur) in
  String.iter (fun c -> match c with
    | '(' | ')' -> flush (); toks := String.make 1 c :: !toks
    | ' ' | '\t' | '\r' | '\n' -> flush ()
    | c -> Buffer.add_char cur c) s;
  flush (); List.rev !toks
let rec parse_one = function
  | "(" :: rest -> let items, rest' = parse_many rest in (L items, rest')
  | ")" :: _ -> failwith "unexpected )"
  | t :: rest -> (A t, rest)
  | [] -> failwith "eof"
and parse_many = function
  | ")" :: rest -> ([], rest)
  | [] -> failwith "missing )"
  | toks -> let x, rest = parse_one toks in let xs, rest' = parse_many rest in (x :: xs, rest')
let rec parse_all toks = match toks with [] -> [] | _ -> let x, rest = parse_one toks in x :: parse_all rest

let known_of = function
  | "then" -> KThen | "calll" -> KCallL | "apply" -> KApply | "of" -> KOf | "const" -> KConst
  | "compr" -> KCompR | "compl" -> KCompL | "id" -> KId | "flip" -> KFlip | "on" -> KOn
  | s -> failwith ("unknown K " ^ s)
let name_of_known = function
  | KThen -> "then" | KCallL -> "calll" | KApply -> "apply" | KOf -> "of" | KConst -> "const"
  | KCompR -> "compr" | KCompL -> "compl" | KId -> "id" | KFlip -> "flip" | KOn -> "on"
let atoms l = List.map (function A s -> s | _ -> failwith "flag list") l

let rec expr_of (env : (string * v) list) (s : sx) : (bi, int, d) expr =
  match s with
  | A name -> (match List.assoc_opt name env with Some v -> EVal v | None -> EVal (VData (Atom name)))
  | L [A "B"; A name; L p2; L pl] -> EVal (VFunc (FBuiltin { name; p2 = atoms p2; pl = atoms pl }))
  | L [A "C"; A id] -> EVal (VFunc (FClosure (int_of_string id)))
  | L [A "K"; A k] -> EVal (VFunc (FKnown (known_of k)))
  | L [A "Q"; A "parallel"] -> EVal (VFunc (FCombinator CParallel))
  | L [A "Q"; A "fanout"] -> EVal (VFunc (FCombinator CFanout))
  | L [A "Q"; A "lift"] -> EVal (VFunc (FCombinator CLift))
  | L (A "callhole" :: args) -> ECallHole (List.map (arg_of env) args)
  | L (A "call" :: f :: args) -> ECall (expr_of env f, List.map (arg_of env) args)
  | L [A "chain"; a; op; b] -> EChain (opd_of env a, expr_of env op, opd_of env b)
  | L (A "list" :: xs) -> EList (List.map (arg_of env) xs)
  | _ -> failwith "bad expr"
and arg_of env = function
  | A "_" -> AHole
  | L [A "splat"; A "_"] -> ASplatHole
  | L [A "splat"; e] -> ASplat (expr_of env e)
  | e -> ANorm (expr_of env e)
and opd_of env = function A "_" -> None | e -> Some (expr_of env e)

(* ---- printing normal forms *)
let rec show_v (x : v) : string = match x with
  | VData (Atom s) -> s
  | VData (BApp (n, args)) -> "(B " ^ String.concat " " (n :: List.map show_v args) ^ ")"
  | VData (CApp (c, args)) -> "(C " ^ String.concat " " (string_of_int c :: List.map show_v args) ^ ")"
  | VList l -> "(list" ^ String.concat "" (List.map (fun e -> " " ^ show_v e) l) ^ ")"
  | VFunc f -> "(fn " ^ show_f f ^ ")"
and show_f (f : f) : string = match f with
  | FBuiltin b -> "(B " ^ b.name ^ ")"
  | FKnown k -> "(K " ^ name_of_known k ^ ")"
  | FClosure c -> "(C " ^ string_of_int c ^ ")"
  | FPartialApp1 (g, x) -> "(P1 " ^ show_f g ^ " " ^ show_v x ^ ")"
  | FPartialApp2 (g, x) -> "(P2 " ^ show_f g ^ " " ^ show_v x ^ ")"
  | FPartialAppLast (g, x) -> "(PL " ^ show_f g ^ " " ^ show_v x ^ ")"
  | FComposition (g, h) -> "(comp " ^ show_f g ^ " " ^ show_f h ^ ")"
  | FFlip g -> "(flip " ^ show_f g ^ ")"
  | FListSection sl -> "(listsect" ^ show_slots sl ^ ")"
  | FChainSection (s, op, o) ->
    "(chainsect " ^ (match s with Some x -> show_v x | None -> "_") ^ " " ^ show_f op ^ " " ^
    (match o with Some x -> show_v x | None -> "_") ^ ")"
  | FCallSection (c, sl) -> "(callsect " ^ show_v c ^ show_slots sl ^ ")"
  | FOnComposition (g, h) -> "(oncomp " ^ show_f g ^ " " ^ show_f h ^ ")"
  | FParallel fs -> "(parallel" ^ String.concat "" (List.map (fun g -> " " ^ show_f g) fs) ^ ")"
  | FFanout fs -> "(fanout" ^ String.concat "" (List.map (fun g -> " " ^ show_f g) fs) ^ ")"
  | FOnFanoutConst (g, gs) -> "(onfanoutconst " ^ show_f g ^ String.concat "" (List.map (fun x -> " " ^ show_v x) gs) ^ ")"
  | FCombinator CParallel -> "(Q parallel)" | FCombinator CFanout -> "(Q fanout)" | FCombinator CLift -> "(Q lift)"
  | FCallSectionHole sl -> "(callsecthole" ^ show_slots sl ^ ")"
and show_slots sl = String.concat "" (List.map (function
  | SVal x -> " " ^ show_v x | SHole false -> " _" | SHole true -> " ..._") sl)

let show_out (o : v outcome) = match o with
  | Ok x -> "ok " ^ show_v x | Err _ -> "err" | Panic -> "panic" | OutOfFuel -> "fuel"

let fuel = nat_of_int 40

let () = serve (fun line ->
  let items = parse_all (tokenize line) in
  let rec go env = function
    | L [A "let"; A name; e] :: rest ->
      (match eval brun crun diter fuel (expr_of env e) with
       | Ok x -> go ((name, x) :: env) rest
       | o -> "binding-" ^ show_out o)
    | [L [A "eval"; e]] -> show_out (eval brun crun diter fuel (expr_of env e))
    | [L [A "opassign"; A x; op; rhs]] ->
      (* op and rhs are read in the store they are evaluated in: the name x means the CURRENT value of the variable *)
      (match List.assoc_opt x env with
       | Some xv ->
         let at (e : sx) (s : v) = expr_of ((x, s) :: env) e in
         (match op_assign_store brun crun diter fuel var_get var_set (VData (Atom "null")) xv (at op) (at rhs) with
          | (s2, Ok _) -> "ok " ^ show_v s2
          | (_, Err _) -> "err" | (_, Panic) -> "panic" | (_, OutOfFuel) -> "fuel")
       | None -> "badcase")
    | _ -> "badcase" in
  go [] items)
