(* C13 spec runner: one case per line, tokens separated by blanks:
     <call> <params...> <val>*          (the trailing values are the sequence arguments)
   val  ::= N | I <int> | F <int> | S <n> <code point>*n | Q <l|v|b|d|t> <n> <val>*n
   fn1  ::= id even lt2 neg const7 fst eq1 eqa geb dup numkey
   fn2  ::= pair add max fst2 snd2 eq le | cmpon <fn1> <0|1>
   output: "ok <canonical text as printed by the harness>" | "raise" *)
open Model
open Conv

exception Bad of string
let toks = ref []
let next () = match !toks with [] -> raise (Bad "eol") | t :: r -> toks := r; t
let nat () = nat_of_int (int_of_string (next ()))
let rec times n f = if n <= 0 then [] else let x = f () in x :: times (n - 1) f

let rec pval () : val0 =
  match next () with
  | "N" -> VNull
  | "I" -> VInt (coqz_of_string (next ()))
  | "F" -> VFlt (coqz_of_string (next ()))
  | "S" -> let n = int_of_string (next ()) in VStr (times n (fun () -> coqn_of_string (next ())))
  | "Q" ->
    let k = (match next () with "l" -> SList | "v" -> SVec | "b" -> SBytes | "d" -> SDict | "t" -> SStream
                               | s -> raise (Bad ("kind " ^ s))) in
    let n = int_of_string (next ()) in
    VSeq (k, times n pval)
  | s -> raise (Bad ("val " ^ s))

let pstr () = let n = int_of_string (next ()) in times n (fun () -> coqn_of_string (next ()))

let pfn1 () = match next () with
  | "id" -> FId | "even" -> FEven | "lt2" -> FLt2 | "neg" -> FNeg | "const7" -> FConst7 | "fst" -> FFst
  | "eq1" -> FEq1 | "eqa" -> FEqA | "geb" -> FGeB | "dup" -> FDup | "numkey" -> FNumKey
  | s -> raise (Bad ("fn1 " ^ s))
let pfn2 () = match next () with
  | "pair" -> GPair | "add" -> GAdd | "max" -> GMax | "fst2" -> GFst | "snd2" -> GSnd | "eq" -> GEq | "le" -> GLe
  | "cmpon" -> let k = pfn1 () in let r = next () = "1" in GCmpOn (k, r)
  | s -> raise (Bad ("fn2 " ^ s))

let pcall () : call = match next () with
  | "map" -> CMap (pfn1 ()) | "filter" -> CFilter (pfn1 ()) | "reject" -> CReject (pfn1 ())
  | "partition" -> CPartition (pfn1 ()) | "flat_map" -> CFlatMap (pfn1 ()) | "flatten" -> CFlatten | "each" -> CEach
  | "count" -> CCount (pfn1 ()) | "count_truthy" -> CCountTruthy | "count_eq" -> CCountEq (pval ())
  | "any" -> CAny (pfn1 ()) | "all" -> CAll (pfn1 ()) | "any_truthy" -> CAnyTruthy | "all_truthy" -> CAllTruthy
  | "find" -> CFind (pfn1 ()) | "findq" -> CFindQ (pfn1 ()) | "find_eq" -> CFindEq (pval ())
  | "locate" -> CLocate (pfn1 ()) | "locateq" -> CLocateQ (pfn1 ()) | "locate_eq" -> CLocateEq (pval ())
  | "take_while" -> CTakeWhile (pfn1 ()) | "drop_while" -> CDropWhile (pfn1 ())
  | "zip" -> CZip | "zip_with" -> CZipWith (pfn2 ()) | "ziplongest" -> CZipLongest
  | "ziplongest_with" -> CZipLongestWith (pfn2 ()) | "pairwise" -> CPairwise (pfn2 ())
  | "transpose" -> CTranspose | "enumerate" -> CEnumerate
  | "fold" -> CFold (pfn2 ()) | "fold_from" -> let g = pfn2 () in CFoldFrom (g, pval ())
  | "scan" -> CScan (pfn2 ()) | "scan_from" -> let g = pfn2 () in CScanFrom (g, pval ())
  | "sum" -> CSum | "sum_f" -> CSumF (pfn1 ()) | "product" -> CProduct | "product_f" -> CProductF (pfn1 ())
  | "min" -> CMin | "max" -> CMax
  | "sort" -> CSort | "sort_by" -> CSortBy (pfn2 ()) | "sort_on" -> CSortOn (pfn1 ())
  | "reverse" -> CReverse | "unique" -> CUnique
  | "group_eq" -> CGroupEq | "group_n" -> CGroupN (nat ()) | "group_strict" -> CGroupStrict (nat ())
  | "group_by" -> CGroupBy (pfn2 ()) | "group_all" -> CGroupAll (pfn1 ())
  | "window" -> CWindow (nat ()) | "prefixes" -> CPrefixes | "suffixes" -> CSuffixes | "frequencies" -> CFrequencies
  | "concat" -> CConcat | "prepend" -> CPrepend (pval ()) | "append" -> CAppend (pval ())
  | "pair" -> let a = pval () in CPair (a, pval ()) | "replicate" -> let v = pval () in CReplicate (v, nat ())
  | "cartesian" -> CCartesian | "repeat_concat" -> CRepeatConcat (nat ()) | "power" -> CPower (nat ())
  | "join" -> CJoin (pstr ()) | "split" -> CSplit (pstr ()) | "words" -> CWords | "lines" -> CLines
  | "unwords" -> CUnwords | "unlines" -> CUnlines
  | "splitn" -> let sep = pstr () in CSplitN (sep, nat ()) | "str_repeat" -> CStrRepeat (nat ())
  | "take_n" -> CTakeN (nat ()) | "drop_n" -> CDropN (nat ())
  | "permutations" -> CPermutations | "combinations" -> CCombinations (nat ()) | "subsequences" -> CSubsequences
  | s -> raise (Bad ("call " ^ s))

let esc (cs : int list) : string =
  let b = Buffer.create 16 in
  List.iter (fun c ->
    if c = 92 then Buffer.add_string b "\\\\"
    else if c = 34 then Buffer.add_string b "\\\""
    else if c = 10 then Buffer.add_string b "\\n"
    else if c < 32 || c = 127 then Buffer.add_string b (Printf.sprintf "\\u{%x}" c)
    else if c < 128 then Buffer.add_char b (Char.chr c)
    else if c < 0x800 then (Buffer.add_char b (Char.chr (0xC0 lor (c lsr 6))); Buffer.add_char b (Char.chr (0x80 lor (c land 0x3F))))
    else if c < 0x10000 then (Buffer.add_char b (Char.chr (0xE0 lor (c lsr 12)));
                              Buffer.add_char b (Char.chr (0x80 lor ((c lsr 6) land 0x3F)));
                              Buffer.add_char b (Char.chr (0x80 lor (c land 0x3F))))
    else (Buffer.add_char b (Char.chr (0xF0 lor (c lsr 18)));
          Buffer.add_char b (Char.chr (0x80 lor ((c lsr 12) land 0x3F)));
          Buffer.add_char b (Char.chr (0x80 lor ((c lsr 6) land 0x3F)));
          Buffer.add_char b (Char.chr (0x80 lor (c land 0x3F))))) cs;
  Buffer.contents b

let fbits (z : BZ.t) = Printf.sprintf "F%016Lx" (Int64.bits_of_float (BZ.to_float z))

let rec show (v : val0) : string = match v with
  | VNull -> "N"
  | VInt z -> "I" ^ string_of_coqz z
  | VFlt z -> fbits (z_of_coqz z)
  | VStr s -> "S\"" ^ esc (List.map (fun c -> BZ.to_int (z_of_coqn c)) s) ^ "\""
  | VSeq (k, l) ->
    (match k with
     | SList | SDict -> "L[" ^ String.concat "," (List.map show l) ^ "]"
     | SVec -> "V[" ^ String.concat "," (List.map show l) ^ "]"
     | SBytes -> "B[" ^ String.concat "," (List.map (function VInt z -> string_of_coqz z | _ -> raise (Bad "byte")) l) ^ "]"
     | SStream -> "T[" ^ String.concat "," (List.map show l) ^ "]"
     | SFreq ->
       let es = List.map (function VSeq (_, [k; c]) -> show k ^ ":" ^ show c | _ -> raise (Bad "freq")) l in
       "D{" ^ String.concat "," (List.sort compare es) ^ "|I0}")

let () = serve (fun line ->
  toks := split_ws line;
  let c = pcall () in
  let rec args () = if !toks = [] then [] else let v = pval () in v :: args () in
  let a = args () in
  match run c a with
  | Some v -> "ok " ^ show v
  | None -> "raise")
