(* C09 model runner.
   Keys (prefix form, blank separated):
     N | I <z> | Q <num> <den> | F <bits> | C <rebits> <imbits> | S <n> <byte>*n | B <n> <byte>*n
     | L <n> key*n | V <n> num*n | D <n> (key key)*n
   Values of histories: n (null) | <integer>.
   Commands:
     hash <key>                      -> tokens  u8:1 i64:5 usize:2 isize:2 u64:7 b:0a0b
     eq <key> <key>                  -> 0 | 1
     hist <default: _|value> <nops> <op>*   -> per step  <obs> <contents> <bucket-model contents>, steps joined by " ; "
         ops: get k | sget k | in k | len | set k v | mod k v | rm k | addk k | disc k | ins k v
              | union n (k v)*n | uadd n (k v)*n | inter n (k v)*n | diff n (k v)*n | deq n (k v)*n
     unique n key*n | setof n key*n | count n key*n | freq n key*n | group n key*n
     dictop <set|dict|keys|values|items|unique|count|freq|group> <_ | d key> n (key key)*n    (the argument is a dictionary)
     memo <ncalls> (<nargs> key*nargs)*ncalls
   Output values use the harness's canonical text (I5, R1/2, F<16 hex>, Fnan, C<re>,<im>, S"..", L[..], V[..],
   B[..], D{k:v,..} with entries sorted as strings, N). *)
open Model
open Conv

exception Bad of string

let bits_of_f64 (f : f64) : BZ.t =
  BZ.add (BZ.add (if f.fsign then BZ.shift_left BZ.one 63 else BZ.zero)
            (BZ.shift_left (z_of_coqn f.fexp) 52)) (z_of_coqn f.ffrac)
let f64_of_bits (b : BZ.t) : f64 =
  { fsign = BZ.testbit b 63;
    fexp = coqn_of_z (BZ.logand (BZ.shift_right b 52) (BZ.of_int 2047));
    ffrac = coqn_of_z (BZ.logand b (BZ.pred (BZ.shift_left BZ.one 52))) }

(* ---- parsing *)
let toks = ref []
let next () = match !toks with [] -> raise (Bad "eof") | t :: r -> toks := r; t
let next_int () = int_of_string (next ())
let rec times n f = if n <= 0 then [] else let x = f () in x :: times (n - 1) f
let byte () = coqn_of_string (next ())

let parse_num_tag t : num = match t with
  | "I" -> NInt (coqz_of_string (next ()))
  | "Q" -> let a = coqz_of_string (next ()) in let d = BZ.of_string (next ()) in NRat { qnum = a; qden = pos_of_z d }
  | "F" -> NFloat (f64_of_bits (BZ.of_string (next ())))
  | "C" -> let re = f64_of_bits (BZ.of_string (next ())) in let im = f64_of_bits (BZ.of_string (next ())) in NComplex (re, im)
  | _ -> raise (Bad ("num tag " ^ t))
let parse_num () = parse_num_tag (next ())

let rec parse_key () : key = match next () with
  | "N" -> KNull
  | ("I" | "Q" | "F" | "C") as t -> KNum (parse_num_tag t)
  | "S" -> let n = next_int () in KStr (times n byte)
  | "B" -> let n = next_int () in KBytes (times n byte)
  | "L" -> let n = next_int () in KList (times n parse_key)
  | "V" -> let n = next_int () in KVec (times n parse_num)
  | "D" -> let n = next_int () in KDict (times n (fun () -> let k = parse_key () in let v = parse_key () in (k, v)))
  | t -> raise (Bad ("key tag " ^ t))

let parse_val () : BZ.t option = match next () with "n" -> None | s -> Some (BZ.of_string s)
let cv (v : BZ.t option) : z option = match v with None -> None | Some x -> Some (coqz_of_z x)
let parse_pairs () = let n = next_int () in times n (fun () -> let k = parse_key () in let v = cv (parse_val ()) in (k, v))

(* ---- printing (the harness's canonical text) *)
let show_f64 (f : f64) = let b = bits_of_f64 f in
  let nan = BZ.equal (z_of_coqn f.fexp) (BZ.of_int 2047) && not (BZ.equal (z_of_coqn f.ffrac) BZ.zero) in
  if nan then "nan" else BZ.format "%016x" b
let show_num (n : num) = match n with
  | NInt z -> "I" ^ string_of_coqz z
  | NRat q -> "R" ^ string_of_coqz q.qnum ^ "/" ^ BZ.to_string (z_of_pos q.qden)
  | NFloat f -> "F" ^ show_f64 f
  | NComplex (re, im) -> "C" ^ show_f64 re ^ "," ^ show_f64 im
let bytes_str l = String.concat "" (List.map (fun b -> String.make 1 (Char.chr (BZ.to_int (z_of_coqn b)))) l)
let rec show_key (k : key) = match k with
  | KNull -> "N"
  | KNum n -> show_num n
  | KStr s -> "S\"" ^ bytes_str s ^ "\""
  | KBytes b -> "B[" ^ String.concat "," (List.map string_of_coqn b) ^ "]"
  | KList l -> "L[" ^ String.concat "," (List.map show_key l) ^ "]"
  | KVec v -> "V[" ^ String.concat "," (List.map show_num v) ^ "]"
  | KDict d -> "D{" ^ String.concat "," (List.sort compare (List.map (fun (k, v) -> show_key k ^ ":" ^ show_key v) d)) ^ "}"
let show_val (v : z option) = match v with None -> "N" | Some x -> "I" ^ string_of_coqz x
let show_store (sv : 'a -> string) (s : (key * 'a) list) (def : string option) =
  "D{" ^ String.concat "," (List.sort compare (List.map (fun (k, v) -> show_key k ^ ":" ^ sv v) s))
  ^ (match def with None -> "" | Some d -> "|" ^ d) ^ "}"

let show_token (t : token) = match t with
  | TU8 n -> "u8:" ^ string_of_coqn n
  | TI64 z -> "i64:" ^ string_of_coqz z
  | TU64 n -> "u64:" ^ string_of_coqn n
  | TUsize n -> "usize:" ^ string_of_coqn n
  | TIsize z -> "isize:" ^ string_of_coqz z
  | TBytes l -> "b:" ^ String.concat "" (List.map (fun b -> Printf.sprintf "%02x" (BZ.to_int (z_of_coqn b))) l)

let show_obs (o : z option obs) = match o with
  | OVal v -> "val " ^ show_val v
  | OBool b -> if b then "val I1" else "val I0"
  | ONat n -> "val I" ^ string_of_int (int_of_nat n)
  | ODone -> "done"
  | OErr _ -> "err"

let slot = hm_slot key_hash_real

let parse_op () : z option op = match next () with
  | "get" -> OGet (parse_key ())
  | "sget" -> OSafeGet (parse_key ())
  | "in" -> OIn (parse_key ())
  | "len" -> OLen
  | "set" -> let k = parse_key () in OSet (k, cv (parse_val ()))
  | "mod" -> let k = parse_key () in OModify (k, cv (parse_val ()))
  | "rm" -> ORemove (parse_key ())
  | "addk" -> OAddKey (parse_key ())
  | "disc" -> ODiscard (parse_key ())
  | "ins" -> let k = parse_key () in OInsert (k, cv (parse_val ()))
  | "union" -> OUnion (parse_pairs ())
  | "uadd" -> OUnionAdd (parse_pairs ())
  | "inter" -> OInter (parse_pairs ())
  | "diff" -> ODiff (parse_pairs ())
  | "deq" -> OEq (parse_pairs ())
  | t -> raise (Bad ("op " ^ t))

(* the literal bucket structure, driven through the primitive operations only: the same reads and writes the
   flat model makes for set/insert/remove; contents must agree with the flat model after these steps *)
let bucket_step (m : z option bmap) (o : z option op) : z option bmap option = match o with
  | OSet (k, v) | OInsert (k, v) -> Some (bset key_hash_real k v m)
  | OAddKey k -> Some (bset key_hash_real k None m)
  | ODiscard k -> Some (bremove key_hash_real k m)
  | ORemove k -> Some (bremove key_hash_real k m)
  | OModify (k, v) ->
      (match bfind key_hash_real k m with
       | Some (_, old) -> (match zadd old v with Ok nv -> Some (bset key_hash_real k nv m) | _ -> Some m)
       | None -> None)
  | OGet _ | OSafeGet _ | OIn _ | OLen | OEq _ -> Some m
  | _ -> None

let () = serve (fun line ->
  toks := split_ws line;
  try
    match next () with
    | "hash" -> String.concat " " (List.map show_token (key_hash_real (parse_key ())))
    | "eq" -> let a = parse_key () in let b = parse_key () in
        let r = key_eq a b in
        (* Eq as written (hashed nested lookup) must agree with key_eq; a disagreement shows as "1!"/"0!" *)
        (if r then "1" else "0") ^ (if key_eq_hm key_hash_real a b = r then "" else "!")
    | "hist" ->
        let def : z option option =
          match next () with "_" -> None | "n" -> Some None | v -> Some (Some (coqz_of_string v)) in
        let has_def = def <> None in
        let n = next_int () in
        let ops = times n parse_op in
        let d = ref (([] : (key * z option) list), def) in
        let bm = ref (Some ([] : z option bmap)) in
        let out = List.map (fun o ->
          let (x, d') = step None zadd zeq slot !d o in
          (* the bucket structure follows only while every op so far was a primitive one, and defaults are off *)
          (bm := match !bm with Some m when not has_def -> bucket_step m o | _ -> None);
          d := d';
          let cont = show_store show_val (fst d') (match snd d' with None -> None | Some v -> Some (show_val v)) in
          let bcont = match !bm with Some m -> show_store show_val (bentries m) None | None -> "-" in
          show_obs x ^ " " ^ cont ^ " " ^ bcont) ops in
        String.concat " ; " out
    | "unique" -> let n = next_int () in "L[" ^ String.concat "," (List.map show_key (uniqued slot (times n parse_key))) ^ "]"
    | "setof" -> let n = next_int () in
        let (st, def) = set_dict slot KNull (times n parse_key) in
        show_store show_key st (match def with None -> None | Some v -> Some (show_key v))
    | "dictop" ->
        (* a dictionary argument {k: v, ...} (values are keys here) with an optional default *)
        let o = next () in
        let def = (match next () with "_" -> None | "d" -> Some (parse_key ()) | t -> raise (Bad ("default " ^ t))) in
        let n = next_int () in
        let pairs = times n (fun () -> let k = parse_key () in let v = parse_key () in (k, v)) in
        let st = from_pairs slot pairs in
        let ks = dict_keys st in
        let lst l = "L[" ^ String.concat "," l ^ "]" in
        (match o with
         | "set" -> let (s2, d2) = set_dict slot KNull ks in
                    show_store show_key s2 (match d2 with None -> None | Some v -> Some (show_key v))
         | "dict" -> show_store show_key st (match def with None -> None | Some v -> Some (show_key v))
         | "keys" -> lst (List.map show_key ks)
         | "values" -> lst (List.map show_key (dict_values st))
         | "items" -> lst (List.map (fun (k, v) -> lst [show_key k; show_key v]) st)
         | "unique" -> lst (List.map show_key (uniqued slot ks))
         | "count" -> "I" ^ string_of_int (int_of_nat (count_distinct slot ks))
         | "freq" -> show_store (fun c -> "I" ^ string_of_coqn c) (frequencies slot ks) (Some "I0")
         | "group" -> lst (List.map (fun g -> lst (List.map show_key g)) (group_all slot (fun k -> k) ks))
         | _ -> raise (Bad ("dictop " ^ o)))
    | "count" -> let n = next_int () in "I" ^ string_of_int (int_of_nat (count_distinct slot (times n parse_key)))
    | "freq" -> let n = next_int () in show_store (fun c -> "I" ^ string_of_coqn c) (frequencies slot (times n parse_key)) (Some "I0")
    | "group" -> let n = next_int () in
        let gs = group_all slot (fun k -> k) (times n parse_key) in
        "L[" ^ String.concat "," (List.sort compare (List.map (fun g -> "L[" ^ String.concat "," (List.map show_key g) ^ "]") gs)) ^ "]"
    | "memo" -> let n = next_int () in
        let calls = times n (fun () -> let a = next_int () in times a parse_key) in
        let rs = memo_calls slot (fun args -> args) calls [] in
        String.concat " " (List.map (fun r -> "L[" ^ String.concat "," (List.map show_key r) ^ "]") rs)
    | c -> "badcase " ^ c
  with Bad m -> "badcase " ^ m)
