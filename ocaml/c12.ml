(* C12 model runner.  One case per line, whitespace separated prefix notation.
   value   V ::= null | int Z | rat Z P | flt BITS | cpx BITS BITS | str k c1..ck | list k V.. | dict k K.. V..
               | vec k NUM.. | bytes k b.. | stream k V.. | inst SID k V.. | func ID | type T
   type    T ::= nulltype|int|rational|float|complex|number|str|list|dict|vector|bytes|stream|func|type|anything
               | struct_instance | struct SID | sat PID
   pattern P ::= wild | var X | ann P none | ann P some V | def P V | seq D k P.. | splat P | or P P | and P P
               | lit V | destr B k P.. | pstruct SID k P..
   builtin B ::= plus|minus|times|divide|append|prepend|other | cmp OP k OP..       OP ::= lt|gt|le|ge|eq|ne
   commands: switch k P.. V | catch P V | call k P.. k V.. | decl P V | istype T V | isold T V | typeof V
             | hist ...  (see hist_cmd)
   output: ok ... | err | panic | fuel  ; stores are printed as  x=<canonical>;...  sorted by x *)
open Model
open Conv

exception Bad of string

(* ---------------------------------------------------------------- reading *)
let toks : string list ref = ref []
let next () = match !toks with [] -> raise (Bad "eof") | t :: r -> toks := r; t
let nat () = int_of_string (next ())
let zz () = coqz_of_string (next ())
let nn () = coqn_of_string (next ())
let pp () = match coqz_of_string (next ()) with Zpos p -> p | _ -> raise (Bad "positive")
let rec times k f = if k <= 0 then [] else let x = f () in x :: times (k - 1) f

let rd_ty_of = function
  | "nulltype" -> TNull | "int" -> TInt | "rational" -> TRational | "float" -> TFloat
  | "complex" -> TComplex | "number" -> TNumber | "str" -> TString | "list" -> TList
  | "dict" -> TDict | "vector" -> TVector | "bytes" -> TBytes | "stream" -> TStream
  | "func" -> TFunc | "type" -> TType | "anything" -> TAny | "struct_instance" -> TStructInstance
  | "struct" -> TStruct (nn ()) | "sat" -> TSat (nn ())
  | s -> raise (Bad ("type " ^ s))
let rd_ty () = rd_ty_of (next ())

let rd_num_of = function
  | "int" -> NInt (zz ())
  | "rat" -> let n = zz () in let d = pp () in NRat (n, d)
  | "flt" -> NFloat (nn ())
  | "cpx" -> let a = nn () in let b = nn () in NComplex (a, b)
  | s -> raise (Bad ("num " ^ s))

let rec rd_val () : val0 =
  match next () with
  | "null" -> VNull
  | ("int" | "rat" | "flt" | "cpx") as t -> VNum (rd_num_of t)
  | "str" -> let k = nat () in VStr (times k nn)
  | "list" -> let k = nat () in VList (times k rd_val)
  | "dict" -> let k = nat () in let ks = times k rd_val in let vs = times k rd_val in VDict (ks, vs)
  | "vec" -> let k = nat () in VVec (times k (fun () -> rd_num_of (next ())))
  | "bytes" -> let k = nat () in VBytes (times k nn)
  | "stream" -> let k = nat () in VStream (times k rd_val)
  | "inst" -> let s = nn () in let k = nat () in VInst (s, times k rd_val)
  | "func" -> VFunc (nn ())
  | "type" -> VType (rd_ty ())
  | s -> raise (Bad ("val " ^ s))

let rd_op () = match next () with
  | "lt" -> CLt | "gt" -> CGt | "le" -> CLe | "ge" -> CGe | "eq" -> CEq | "ne" -> CNe
  | s -> raise (Bad ("op " ^ s))
let rd_builtin () = match next () with
  | "plus" -> BPlus | "minus" -> BMinus | "times" -> BTimes | "divide" -> BDivide
  | "append" -> BAppend | "prepend" -> BPrepend | "other" -> BOther
  | "cmp" -> let o = rd_op () in let k = nat () in BCmp (o, times k rd_op)
  | s -> raise (Bad ("builtin " ^ s))

let rec rd_pat () : pat =
  match next () with
  | "wild" -> PWild
  | "var" -> PVar (nn ())
  | "ann" -> let p = rd_pat () in
    (match next () with "none" -> PAnn (p, None) | "some" -> PAnn (p, Some (rd_val ())) | s -> raise (Bad s))
  | "def" -> let p = rd_pat () in PDefault (p, rd_val ())
  | "seq" -> let d = next () = "1" in let k = nat () in PSeq (times k rd_pat, d)
  | "splat" -> PSplat (rd_pat ())
  | "or" -> let a = rd_pat () in POr (a, rd_pat ())
  | "and" -> let a = rd_pat () in PAnd (a, rd_pat ())
  | "lit" -> PLit (rd_val ())
  | "destr" -> let b = rd_builtin () in let k = nat () in PDestr (b, times k rd_pat)
  | "pstruct" -> let s = nn () in let k = nat () in PStruct (s, times k rd_pat)
  | s -> raise (Bad ("pat " ^ s))

(* ---------------------------------------------------------------- printing (harness canonical form) *)
let hex16 (b : Model.n) = BZ.format "%016x" (z_of_coqn b)
let is_nan_bits (b : Model.n) =
  let z = z_of_coqn b in
  let e = BZ.to_int (BZ.logand (BZ.shift_right z 52) (BZ.of_int 2047)) in
  e = 2047 && not (BZ.equal (BZ.logand z (BZ.pred (BZ.shift_left BZ.one 52))) BZ.zero)
let fpart b = if is_nan_bits b then "nan" else hex16 b
let show_num = function
  | NInt z -> "I" ^ string_of_coqz z
  | NRat (n, d) -> "R" ^ string_of_coqz n ^ "/" ^ string_of_coqz (Zpos d)
  | NFloat b -> if is_nan_bits b then "Fnan" else "F" ^ hex16 b
  | NComplex (a, b) -> "C" ^ fpart a ^ "," ^ fpart b
let utf8 (cp : int) : string =
  let b = Buffer.create 4 in
  Buffer.add_utf_8_uchar b (Uchar.of_int cp); Buffer.contents b
let esc_cp cp =
  if cp = 92 then "\\\\" else if cp = 34 then "\\\"" else if cp = 10 then "\\n"
  else if cp < 32 || cp = 127 then Printf.sprintf "\\u{%x}" cp else utf8 cp
let struct_name s = match BZ.to_int (z_of_coqn s) with 0 -> "Foo" | 1 -> "Bar" | k -> "S" ^ string_of_int k
let rec show_val (v : val0) : string =
  match v with
  | VNull -> "N"
  | VNum x -> show_num x
  | VStr s -> "S\"" ^ String.concat "" (List.map (fun c -> esc_cp (BZ.to_int (z_of_coqn c))) s) ^ "\""
  | VList l -> "L[" ^ String.concat "," (List.map show_val l) ^ "]"
  | VDict (ks, vs) ->
    let es = List.map2 (fun k w -> show_val k ^ ":" ^ show_val w) ks vs in
    "D{" ^ String.concat "," (List.sort compare es) ^ "}"
  | VVec l -> "V[" ^ String.concat "," (List.map show_num l) ^ "]"
  | VBytes l -> "B[" ^ String.concat "," (List.map string_of_coqn l) ^ "]"
  | VStream l -> "T[" ^ String.concat "," (List.map show_val l) ^ "]"
  | VInst (s, fs) -> "X" ^ struct_name s ^ "(" ^ String.concat "," (List.map show_val fs) ^ ")"
  | VFunc _ | VType _ -> "Fn"

let show_ty = function
  | TNull -> "nulltype" | TInt -> "int" | TRational -> "rational" | TFloat -> "float"
  | TComplex -> "complex" | TNumber -> "number" | TString -> "str" | TList -> "list" | TDict -> "dict"
  | TVector -> "vector" | TBytes -> "bytes" | TStream -> "stream" | TFunc -> "func" | TType -> "type"
  | TAny -> "anything" | TStructInstance -> "struct_instance"
  | TStruct s -> "struct:" ^ string_of_coqn s | TSat p -> "sat:" ^ string_of_coqn p

let show_store (s : (Model.n * (ty * val0)) list) =
  let es = List.map (fun (x, (_, v)) -> (BZ.to_int (z_of_coqn x), show_val v)) s in
  let es = List.sort compare es in
  String.concat ";" (List.map (fun (x, v) -> string_of_int x ^ "=" ^ v) es)

let show (f : 'a -> string) (o : 'a outcome) = match o with
  | Ok a -> "ok " ^ f a | Err _ -> "err" | Panic -> "panic" | OutOfFuel -> "fuel"
let show_res ((s, o) : (Model.n * (ty * val0)) list * unit outcome) =
  match o with Ok () -> "ok " ^ show_store s | Err _ -> "err " ^ show_store s | Panic -> "panic" | OutOfFuel -> "fuel"

(* ---------------------------------------------------------------- the abstract float arithmetic, by OCaml doubles *)
let two64 = BZ.shift_left BZ.one 64
let i64_of_u (z : BZ.t) : int64 = BZ.to_int64 (if BZ.geq z (BZ.shift_left BZ.one 63) then BZ.sub z two64 else z)
let u_of_i64 (i : int64) : BZ.t = let z = BZ.of_int64 i in if BZ.sign z < 0 then BZ.add z two64 else z
let to_float (x : num) : float option = match x with
  | NInt z -> Some (BZ.to_float (z_of_coqz z))
  | NRat (n, d) -> Some (Q.to_float (Q.make (z_of_coqz n) (z_of_pos d)))
  | NFloat b -> Some (Int64.float_of_bits (i64_of_u (z_of_coqn b)))
  | NComplex _ -> None
let of_float (f : float) : num = NFloat (coqn_of_z (u_of_i64 (Int64.bits_of_float f)))
let div_euclid a b =
  let q = Float.trunc (a /. b) in
  if Float.rem a b < 0.0 then (if b > 0.0 then q -. 1.0 else q +. 1.0) else q
let inexact (op : iop) (x : num) (y : num) : num =
  match to_float x, to_float y with
  | Some a, Some b ->
    of_float (match op with
      | ISub -> a -. b | IAdd -> a +. b | IMul -> a *. b | IDiv -> a /. b
      | IRem -> Float.rem a b | IDivFloor -> div_euclid a b)
  | _ -> of_float Float.nan   (* complex arithmetic is not exercised by the runs *)

let sat = sat_std

let rd_stmt () : stmt =
  match next () with
  | "assign" -> let p = rd_pat () in SAssign (p, rd_val ())
  | "declare" -> let p = rd_pat () in SDeclare (p, rd_val ())
  | "opassign" -> let x = nn () in let op = nn () in SOpAssign (x, op, rd_val ())
  | "every" -> let k = nat () in let xs = times k nn in SEvery (xs, rd_val ())
  | "everyop" -> let x = nn () in let op = nn () in SEveryOp (x, op, rd_val ())
  | "swap" -> let x = nn () in SSwap (x, nn ())
  | "setindex" -> let x = nn () in let i = zz () in SSetIndex (x, i, rd_val ())
  | "setslice" ->
    let x = nn () in
    let ob () = match next () with "_" -> None | t -> Some (coqz_of_string t) in
    let lo = ob () in let hi = ob () in let ev = next () = "1" in SSetSlice (x, lo, hi, ev, rd_val ())
  | "opindex" -> let x = nn () in let i = zz () in let op = nn () in SOpIndex (x, i, op, rd_val ())
  | "everyopindex" -> let x = nn () in let i = zz () in let op = nn () in SEveryOpIndex (x, i, op, rd_val ())
  | "everyopslice" ->
    let x = nn () in
    let ob () = match next () with "_" -> None | t -> Some (coqz_of_string t) in
    let lo = ob () in let hi = ob () in let op = nn () in SEveryOpSlice (x, lo, hi, op, rd_val ())
  | s -> raise (Bad ("stmt " ^ s))

(* x=<value>:<does the value satisfy the declared type: 1 / 0 / e> *)
let show_typed_store (s : (Model.n * (ty * val0)) list) =
  let es = List.map (fun (x, (t, v)) ->
    (BZ.to_int (z_of_coqn x),
     show_val v ^ ":" ^ (match is_type sat t v with Ok true -> "1" | Ok false -> "0" | _ -> "e"))) s in
  String.concat ";" (List.map (fun (x, v) -> string_of_int x ^ "=" ^ v) (List.sort compare es))

(* ---------------------------------------------------------------- commands *)
let run_line (line : string) : string =
  toks := split_ws line;
  match next () with
  | "switch" ->
    let k = nat () in let ps = times k rd_pat in let v = rd_val () in
    show (fun (i, s) -> string_of_int (int_of_nat i) ^ " " ^ show_store s) (switch sat inexact ps v)
  | "catch" ->
    let p = rd_pat () in let v = rd_val () in show show_store (catch_bind sat inexact p v)
  | "call" ->
    let k = nat () in let ps = times k rd_pat in let m = nat () in let vs = times m rd_val in
    show show_store (call_bind sat inexact ps vs)
  | "decl" ->
    (* `P = V` / `P := V` at statement level in a fresh scope: rt = None at the top *)
    let p = rd_pat () in let v = rd_val () in
    show_res (assign_top sat inexact p None v [])
  | "istype" -> let t = rd_ty () in let v = rd_val () in
    show (fun b -> if b then "1" else "0") (is_type sat t v)
  | "isold" -> let t = rd_ty () in let v = rd_val () in
    show (fun b -> if b then "1" else "0") (is_type_old sat t v)
  | "is" -> let v = rd_val () in let a = rd_val () in
    show (fun b -> if b then "1" else "0") (is_builtin sat v a)
  | "typeof" -> show_ty (type_of (rd_val ()))
  | "conv" -> let t = rd_ty () in let v = rd_val () in
    (match convert fields_std t v with None -> "none" | Some o -> show show_val o)
  | "veq" -> let a = rd_val () in let b = rd_val () in if veq a b then "1" else "0"
  | "show" -> show_val (rd_val ())
  | "hist" ->
    let k = nat () in
    let sts = times k rd_stmt in
    let steps = run_hist sat inexact (binop_std inexact) sts [] in
    String.concat " | " (List.map (fun ((_, s), o) ->
      (match o with Ok () -> "ok" | Err _ -> "err" | Panic -> "panic" | OutOfFuel -> "fuel") ^ " " ^ show_typed_store s) steps)
  | s -> "badcase " ^ s

let () = serve (fun line -> try run_line line with Bad m -> "badcase " ^ m)
