(* Conversions between decimal text and the extracted Coq number types (kept as the
   extracted inductives: no Extract Inductive for numbers). Zarith is used only to parse
   and print decimal strings. *)
module BZ = Z
open Model

let rec pos_of_z (n : BZ.t) : positive =
  if BZ.equal n BZ.one then XH
  else if BZ.is_even n then XO (pos_of_z (BZ.shift_right n 1))
  else XI (pos_of_z (BZ.shift_right n 1))

let rec z_of_pos (p : positive) : BZ.t =
  match p with
  | XH -> BZ.one
  | XO q -> BZ.shift_left (z_of_pos q) 1
  | XI q -> BZ.succ (BZ.shift_left (z_of_pos q) 1)

let coqz_of_z (n : BZ.t) : Model.z =
  if BZ.equal n BZ.zero then Z0
  else if BZ.sign n > 0 then Zpos (pos_of_z n)
  else Zneg (pos_of_z (BZ.neg n))

let z_of_coqz (c : Model.z) : BZ.t =
  match c with Z0 -> BZ.zero | Zpos p -> z_of_pos p | Zneg p -> BZ.neg (z_of_pos p)

let coqn_of_z (n : BZ.t) : Model.n = if BZ.equal n BZ.zero then N0 else Npos (pos_of_z n)
let z_of_coqn (c : Model.n) : BZ.t = match c with N0 -> BZ.zero | Npos p -> z_of_pos p

let rec nat_of_int (i : int) : Model.nat = if i <= 0 then O else S (nat_of_int (i - 1))
let rec int_of_nat (n : Model.nat) : int = match n with O -> 0 | S m -> 1 + int_of_nat m

let coqz_of_string s = coqz_of_z (BZ.of_string s)
let string_of_coqz c = BZ.to_string (z_of_coqz c)
let coqn_of_string s = coqn_of_z (BZ.of_string s)
let string_of_coqn c = BZ.to_string (z_of_coqn c)

let split_ws (s : string) : string list =
  List.filter (fun x -> x <> "") (String.split_on_char ' ' (String.trim s))

(* main loop: one case per line, one result per line *)
let serve (f : string -> string) : unit =
  try
    while true do
      let line = input_line stdin in
      let r = try f line with e -> "exn " ^ Printexc.to_string e in
      print_string r; print_newline ()
    done
  with End_of_file -> ()
