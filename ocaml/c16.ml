(* C16 model runner.  line: <op> <args...>
   integers: decimal; strings / byte lists: comma-separated code points or bytes, "_" for empty.
   results: "ok <payload>" | "err" | "panic" | "fuel" *)
open Model
open Conv

let list_of s = if s = "_" then [] else List.map coqn_of_string (String.split_on_char ',' s)
let show_ns l = if l = [] then "_" else String.concat "," (List.map string_of_coqn l)
let show (f : 'a -> string) (o : 'a outcome) = match o with
  | Ok a -> "ok " ^ f a | Err _ -> "err" | Panic -> "panic" | OutOfFuel -> "fuel"
let show_q (q : q) = string_of_coqz q.qnum ^ "/" ^ BZ.to_string (z_of_pos q.qden)
let base_of = function
  | "d" -> Decimal | "b" -> Binary | "o" -> Octal | "x" -> LowerHex | "X" -> UpperHex
  | _ -> failwith "base"
let align_of = function "<" -> ALeft | ">" -> ARight | "^" -> ACenter | _ -> failwith "align"

let () = serve (fun line ->
  match split_ws line with
  | ["str_radix"; n; b] -> show show_ns (str_radix (coqz_of_string n) (coqz_of_string b))
  | ["int_radix"; s; b] -> show string_of_coqz (int_radix (list_of s) (coqz_of_string b))
  | ["show_int"; n] -> "ok " ^ show_ns (show_int (coqz_of_string n))
  | ["int"; s] -> show string_of_coqz (int_of_str (list_of s))
  | ["number"; s] ->
    (match number_of_str (fun _ -> Some ()) (list_of s) with
     | Ok (Inl z) -> "ok " ^ string_of_coqz z | Ok (Inr ()) -> "float" | _ -> "err")
  | ["rational"; s] -> show show_q (parse_rational_exactly (list_of s))
  | ["hex_encode"; s] -> "ok " ^ show_ns (hex_encode (list_of s))
  | ["hex_decode"; s] -> show show_ns (hex_decode (list_of s))
  | ["hex_decode_str"; s] -> show show_ns (hex_decode (utf8_encode (list_of s)))
  | ["utf8_encode"; s] -> "ok " ^ show_ns (utf8_encode (list_of s))
  | ["utf8_decode"; s] -> show show_ns (utf8_decode (list_of s))
  | ["chr"; n] -> show show_ns (chr (coqz_of_string n))
  | ["ord"; s] -> show string_of_coqz (ord (list_of s))
  | ["fmt"; b; r; n] ->
    let z = coqz_of_string n in
    let x = (match r with "S" -> Small z | "B" -> Big z | _ -> nint_of_bigint z) in
    "ok " ^ show_ns (fmt_nint (base_of b) x)
  | ["fmtpad"; b; r; n; pad; len; al] ->
    let z = coqz_of_string n in
    let x = (match r with "S" -> Small z | "B" -> Big z | _ -> nint_of_bigint z) in
    "ok " ^ show_ns (pad_str (coqn_of_string pad) (nat_of_int (int_of_string len)) (align_of al) (fmt_nint (base_of b) x))
  | _ -> "badcase")
