(* C02 machine runner: one history per line (same s-expressions as ocaml/c01.ml), one JSON line:
   for every statement {"ok", "copied", "roots": [hv..], "cells": {loc: {"k","c","len","items"|"s"}}} - the model's
   Rc graph (cells reachable from the variables) in the format harness/src/bin/c02.rs dumps the real one. *)
open Model
open Conv

(* ---------------------------------------------------------------- s-expressions *)
type sx = A of string | L of sx list

let tokenize (s : string) : string list =
  let toks = ref [] and buf = Buffer.create 16 in
  let flush () = if Buffer.length buf > 0 then (toks := Buffer.contents buf :: !toks; Buffer.clear buf) in
  String.iter (fun c -> match c with
    | '(' | ')' -> flush (); toks := String.make 1 c :: !toks
    | ' ' | '\t' | '\n' | '\r' -> flush ()
    | c -> Buffer.add_char buf c) s;
  flush (); List.rev !toks

let parse_sx (s : string) : sx =
  let rec one toks = match toks with
    | "(" :: rest -> let (items, rest') = many rest [] in (L items, rest')
    | ")" :: _ -> failwith "unexpected )"
    | a :: rest -> (A a, rest)
    | [] -> failwith "eof"
  and many toks acc = match toks with
    | ")" :: rest -> (List.rev acc, rest)
    | [] -> failwith "missing )"
    | _ -> let (x, rest) = one toks in many rest (x :: acc) in
  match one (tokenize s) with (x, []) -> x | _ -> failwith "trailing tokens"

let bad what = failwith ("bad " ^ what)
let zof = function A a -> coqz_of_string a | _ -> bad "int"
let natof = function A a -> nat_of_int (int_of_string a) | _ -> bad "nat"
let ozof = function A "_" -> None | x -> Some (zof x)

let unl vs = List.map (fun v -> (KI Z0, v)) vs
let ints zs = unl (List.map (fun z -> VInt (zof z)) zs)

let rec val_of (x : sx) : val0 = match x with
  | A "N" -> VNull
  | L [A "I"; z] -> VInt (zof z)
  | L (A "L" :: vs) -> VSeq (KList, unl (List.map val_of vs), None)
  | L (A "S" :: bs) -> VSeq (KStr, ints bs, None)
  | L (A "V" :: zs) -> VSeq (KVec, ints zs, None)
  | L (A "B" :: zs) -> VSeq (KBytes, ints zs, None)
  | L (A "D" :: d :: kvs) ->
    let dv = (match d with A "_" -> None | d -> Some (val_of d)) in
    VSeq (KDict, List.map (function L [k; v] -> (key_of k, val_of v) | _ -> bad "dict entry") kvs, dv)
  | L (A "X" :: sid :: vs) -> VInst (natof sid, List.map val_of vs)
  | _ -> bad "val"
and key_of (x : sx) : key = match x with
  | L [A "i"; z] -> KI (zof z)
  | L (A "s" :: bs) -> KB (List.map zof bs)
  | _ -> bad "key"

let pelem_of (x : sx) : pelem = match x with
  | L [A "i"; z] -> PI (zof z)
  | L (A "s" :: bs) -> PS (List.map zof bs)
  | L [A "f"; sid; k] -> PF (natof sid, natof k)
  | L [A "sl"; lo; hi] -> PSl (ozof lo, ozof hi)
  | _ -> bad "pelem"
let path_of = function L (A "p" :: pes) -> List.map pelem_of pes | _ -> bad "path"

let bop_of = function
  | A "append" -> BAppend | A "concat" -> BConcat | A "plus" -> BPlus | A "addkey" -> BAddKey
  | A "delkey" -> BDelKey | A "union" -> BUnion | A "update" -> BUpdate | _ -> bad "bop"

let lop_of = function
  | L [A "lset"; p; v] -> LSet (path_of p, val_of v)
  | L [A "levery"; p; v] -> LEvery (path_of p, val_of v)
  | L [A "lop"; p; f; v] -> LOp (path_of p, bop_of f, val_of v)
  | L [A "lpop"; p] -> LPop (path_of p)
  | L [A "lremove"; p; i] -> LRemove (path_of p, pelem_of i)
  | L [A "lconsume"; p] -> LConsume (path_of p)
  | _ -> bad "lop"

let rec expr_of = function
  | L [A "lit"; v] -> ELit (val_of v)
  | L [A "read"; x; p] -> ERead (natof x, path_of p)
  | L [A "get"; x] -> EGet (natof x)
  | L (A "list" :: es) -> EList (List.map expr_of es)
  | L [A "upd"; e; k; e2] -> EUpd (expr_of e, pelem_of k, expr_of e2)
  | L [A "call"; m; e] -> ECall (lop_of m, expr_of e)
  | _ -> bad "expr"

let sstmt_of = function
  | L [A "assign"; x; p; e] -> SAssign (natof x, path_of p, expr_of e)
  | L [A "every"; x; p; e] -> SEvery (natof x, path_of p, expr_of e)
  | L [A "op"; x; p; f; e] -> SOp (natof x, path_of p, bop_of f, expr_of e)
  | L [A "mod"; dst; x; m] ->
    let d = (match dst with A "_" -> None | L [y; q] -> Some (natof y, path_of q) | _ -> bad "dst") in
    SMod (d, natof x, lop_of m)
  | L [A "swap"; x; p; y; q] -> SSwap (natof x, path_of p, natof y, path_of q)
  | L [A "opmod"; x; p; f; A wrap; y; m] -> SOpMod (natof x, path_of p, bop_of f, (wrap = "1"), natof y, lop_of m)
  | L [A "opdef"; x; p; d; f; e] -> SOpDef (natof x, path_of p, val_of d, bop_of f, expr_of e)
  | L [A "everyop"; x; p; f; e] -> SEveryOp (natof x, path_of p, bop_of f, expr_of e)
  | L [A "andop"; L ts; f; e] ->
    SAndOp (List.map (function L [x; p] -> (natof x, path_of p) | _ -> bad "target") ts, bop_of f, expr_of e)
  | _ -> bad "sstmt"

let stmt_of = function
  | L (A "for" :: x :: p :: body) -> SFor (natof x, path_of p, List.map sstmt_of body)
  | s -> Simple (sstmt_of s)


(* ---------------------------------------------------------------- graph dump *)
let esc_byte (b : int) : string =
  if b = 92 then "\\\\" else if b = 34 then "\\\"" else if b = 10 then "\\n"
  else if b < 32 || b = 127 then Printf.sprintf "\\u{%x}" b
  else String.make 1 (Char.chr b)

let jstr (s : string) : string =
  let b = Buffer.create (String.length s + 2) in
  Buffer.add_char b '"';
  String.iter (fun c -> match c with
    | '"' -> Buffer.add_string b "\\\"" | '\\' -> Buffer.add_string b "\\\\"
    | c when Char.code c < 32 -> Buffer.add_string b (Printf.sprintf "\\u%04x" (Char.code c))
    | c -> Buffer.add_char b c) s;
  Buffer.add_char b '"'; Buffer.contents b

let canon_key (k : key) : string = match k with
  | KI z -> "I" ^ string_of_coqz z
  | KB bs -> "S\"" ^ String.concat "" (List.map (fun z -> esc_byte (BZ.to_int (z_of_coqz z))) bs) ^ "\""

let scalar (e : hval) : string = match e with HInt z -> string_of_coqz z | _ -> "?"

let leaf_text (k : kind) (items : (key * hval) list) : string = match k with
  | KStr -> "S\"" ^ String.concat "" (List.map (fun (_, e) -> match e with HInt z -> esc_byte (BZ.to_int (z_of_coqz z)) | _ -> "?") items) ^ "\""
  | KVec -> "V[" ^ String.concat "," (List.map (fun (_, e) -> "I" ^ scalar e) items) ^ "]"
  | KBytes -> "B[" ^ String.concat "," (List.map (fun (_, e) -> scalar e) items) ^ "]"
  | _ -> "?"

let dump_state (st : mstate) (ok : bool) : string =
  let h = st.mheap in
  let cells = Array.of_list h.cells in
  let seen = Hashtbl.create 64 in
  let out = Buffer.create 256 in
  let first = ref true in
  let rec hv (v : hval) : string = match v with
    | HNull -> "\"N\""
    | HInt z -> jstr ("I" ^ string_of_coqz z)
    | HInst (sid, fs) -> "{\"x\":\"S" ^ string_of_int (int_of_nat sid) ^ "\",\"f\":[" ^ String.concat "," (List.map hv fs) ^ "]}"
    | HRef (l, d) ->
      let li = int_of_nat l in
      visit li;
      "{\"r\":\"" ^ string_of_int li ^ "\",\"d\":" ^ (match d with None -> "null" | Some dv -> hv dv) ^ "}"
  and visit (li : int) : unit =
    if not (Hashtbl.mem seen li) then begin
      Hashtbl.add seen li ();
      if li < Array.length cells then begin
        let c = cells.(li) in
        let body = match c.ckind with
          | KList -> "\"k\":\"L\",\"items\":[" ^ String.concat "," (List.map (fun (_, e) -> hv e) c.citems) ^ "]"
          | KDict ->
            let es = List.sort compare (List.map (fun (k, e) -> (canon_key k, hv e)) c.citems) in
            "\"k\":\"D\",\"items\":[" ^ String.concat "," (List.map (fun (k, e) -> "[" ^ jstr k ^ "," ^ e ^ "]") es) ^ "]"
          | KStr -> "\"k\":\"S\",\"s\":" ^ jstr (leaf_text KStr c.citems)
          | KVec -> "\"k\":\"V\",\"s\":" ^ jstr (leaf_text KVec c.citems)
          | KBytes -> "\"k\":\"B\",\"s\":" ^ jstr (leaf_text KBytes c.citems) in
        if not !first then Buffer.add_char out ',';
        first := false;
        Buffer.add_string out ("\"" ^ string_of_int li ^ "\":{" ^ body ^ ",\"c\":" ^ string_of_int (int_of_nat c.cnt)
                               ^ ",\"len\":" ^ string_of_int (List.length c.citems) ^ "}")
      end
    end in
  let roots = String.concat "," (List.map hv st.roots) in
  "{\"ok\":" ^ (if ok then "true" else "false") ^ ",\"copied\":" ^ string_of_int (int_of_nat h.copied)
  ^ ",\"ncells\":" ^ string_of_int (Array.length cells)
  ^ ",\"roots\":[" ^ roots ^ "],\"cells\":{" ^ Buffer.contents out ^ "}}"

let () = serve (fun line ->
  match parse_sx line with
  | L (A "hist" :: A n :: stmts) ->
    let st0 = init_state (nat_of_int (int_of_string n)) in
    let trace = run_cow st0 (List.map stmt_of stmts) in
    "[" ^ String.concat "," (List.map (fun (st, ok) -> dump_state st ok) trace) ^ "]"
  | _ -> "badcase")
