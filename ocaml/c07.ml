(* C07 model runner.  One case per line:
     b <orig|fix> <op> <arg> <arg>      op: add sub mul rem divfloor modfloor div pow
     u <op> <arg>                       op: neg abs floor ceil round numerator denominator
     c <orig|fix> <conv> <arg>          conv: int rational float
   arg:  I<dec>:<hex16>   integer with its f64 image (nint_to_f64_or_inf, supplied by the driver)
         R<n>/<d>:<hex16> rational (lowest terms) with its f64 image
         F<hex16>         float bit pattern        C<hex16>,<hex16>  complex
         V[a;b;...]       vector of the scalars above        X  a non-number
   answer: ok <canonical value> | err | panic | deleg   (deleg: float-level `^`, not modelled concretely)
   The abstract record float_ops of the Coq model is instantiated with OCaml doubles (IEEE binary64,
   same as Rust f64) and the formulas of num-complex; the exact->float conversions come from the driver. *)
open Model
open Conv

let bits_of_hex (h : string) : bits = coqn_of_z (BZ.of_string ("0x" ^ h))
let i64_of_bits (b : bits) : int64 = Int64.of_string ("0x" ^ BZ.format "%x" (z_of_coqn b))
let fl (b : bits) : float = Int64.float_of_bits (i64_of_bits b)
let bt (f : float) : bits = bits_of_hex (Printf.sprintf "%016Lx" (Int64.bits_of_float f))
let lift2 f a b = bt (f (fl a) (fl b))

(* Rust f64::div_euclid / rem_euclid *)
let div_euclid a b =
  let q = Float.trunc (a /. b) in
  if Float.rem a b < 0.0 then (if b > 0.0 then q -. 1.0 else q +. 1.0) else q
let rem_euclid a b = let r = Float.rem a b in if r < 0.0 then r +. Float.abs b else r

(* num-complex 0.4 *)
let cx (c : cplx) = (fl c.cre, fl c.cim)
let xc (re, im) : cplx = { cre = bt re; cim = bt im }
let c_add (a, b) (c, d) = (a +. c, b +. d)
let c_sub (a, b) (c, d) = (a -. c, b -. d)
let c_mul (a, b) (c, d) = (a *. c -. b *. d, a *. d +. b *. c)
let c_div (a, b) (c, d) =
  let ns = c *. c +. d *. d in
  ((a *. c +. b *. d) /. ns, (b *. c -. a *. d) /. ns)
let c_rem x m =
  let (re, im) = c_div x m in
  let g = (re -. Float.rem re 1.0, im -. Float.rem im 1.0) in
  c_sub x (c_mul m g)
let c_div_floor x y = let (re, im) = c_div x y in (Float.floor re, Float.floor im)
let c_div_f (a, b) f = (a /. f, b /. f)
let f_div_c f (c, d) = let ns = c *. c +. d *. d in (f *. c /. ns, 0.0 -. f *. d /. ns)
let lc f a b = xc (f (cx a) (cx b))

let two53 = BZ.shift_left BZ.one 53
let small z = BZ.leq (BZ.abs z) two53
let ztab : (string * bits) list ref = ref []
let qtab : (string * bits) list ref = ref []
let z2f (z : Model.z) : bits =
  let v = z_of_coqz z in
  match List.assoc_opt (BZ.to_string v) !ztab with
  | Some b -> b
  | None -> if small v then bt (BZ.to_float v) else failwith ("no f64 image for " ^ BZ.to_string v)
let q2f (q : Model.q) : bits =
  let n = z_of_coqz q.qnum and d = z_of_pos q.qden in
  match List.assoc_opt (BZ.to_string n ^ "/" ^ BZ.to_string d) !qtab with
  | Some b -> b
  | None -> if small n && small d then bt (BZ.to_float n /. BZ.to_float d)
            else failwith "no f64 image for rational"

let nanb = bt Float.nan
let fops : float_ops = {
  z2f = z2f; q2f = q2f;
  fadd = lift2 ( +. ); fsub = lift2 ( -. ); fmul = lift2 ( *. ); fdiv = lift2 ( /. );
  frem = lift2 Float.rem; fdiv_euclid = lift2 div_euclid; frem_euclid = lift2 rem_euclid;
  cadd = lc c_add; csub = lc c_sub; cmul = lc c_mul; cdiv = lc c_div; crem = lc c_rem;
  cdiv_floor = lc c_div_floor;
  c_div_f = (fun c f -> xc (c_div_f (cx c) (fl f)));
  f_div_c = (fun f c -> xc (f_div_c (fl f) (cx c)));
  cnorm = (fun c -> let (a, b) = cx c in bt (Float.hypot a b));
  (* never reached: the runner answers `deleg` for these cases before calling the model *)
  powf_pd = (fun _ _ -> NF nanb); powif_pd = (fun _ _ -> NF nanb);
  cpowf = (fun c _ -> c); cpowif = (fun c _ -> c); cpowc = (fun c _ -> c);
}

let split_at c s = match String.index_opt s c with
  | Some i -> (String.sub s 0 i, String.sub s (i + 1) (String.length s - i - 1))
  | None -> failwith ("bad token " ^ s)

let scalar (t : string) : nnum =
  let body = String.sub t 1 (String.length t - 1) in
  match t.[0] with
  | 'I' -> let (v, h) = split_at ':' body in
    ztab := (BZ.to_string (BZ.of_string v), bits_of_hex h) :: !ztab; NI (coqz_of_string v)
  | 'R' -> let (v, h) = split_at ':' body in
    let (n, d) = split_at '/' v in
    qtab := (BZ.to_string (BZ.of_string n) ^ "/" ^ BZ.to_string (BZ.of_string d), bits_of_hex h) :: !qtab;
    NR { qnum = coqz_of_string n; qden = pos_of_z (BZ.of_string d) }
  | 'F' -> NF (bits_of_hex body)
  | 'C' -> let (a, b) = split_at ',' body in NC { cre = bits_of_hex a; cim = bits_of_hex b }
  | _ -> failwith ("bad scalar " ^ t)

let arg (t : string) : obj =
  if t = "X" then OOther
  else if t.[0] = 'V' then
    let inner = String.sub t 2 (String.length t - 3) in
    OVec (if inner = "" then [] else List.map scalar (String.split_on_char ';' inner))
  else ONum (scalar t)

let show_f (b : bits) = let f = fl b in if Float.is_nan f then "nan" else BZ.format "%016x" (z_of_coqn b)
let show_num = function
  | NI z -> "I" ^ string_of_coqz z
  | NR q -> "R" ^ string_of_coqz q.qnum ^ "/" ^ BZ.to_string (z_of_pos q.qden)
  | NF b -> "F" ^ show_f b
  | NC c -> "C" ^ show_f c.cre ^ "," ^ show_f c.cim
let show_obj = function
  | ONum n -> show_num n
  | OVec l -> "V[" ^ String.concat "," (List.map show_num l) ^ "]"
  | OOther -> "X"
let show (o : obj outcome) = match o with
  | Ok v -> "ok " ^ show_obj v | Err _ -> "err" | Panic -> "panic" | OutOfFuel -> "fuel"

let binop_of = function
  | "add" -> OAdd | "sub" -> OSub | "mul" -> OMul | "rem" -> ORem | "divfloor" -> ODivFloor
  | "modfloor" -> OModFloor | "div" -> ODiv | "pow" -> OPow | s -> failwith ("bad op " ^ s)
let unop_of = function
  | "neg" -> UNeg | "abs" -> UAbs | "floor" -> UFloor | "ceil" -> UCeil | "round" -> URound
  | "numerator" -> UNumerator | "denominator" -> UDenominator | s -> failwith ("bad op " ^ s)
let conv_of = function
  | "int" -> CInt | "rational" -> CRational | "float" -> CFloat | s -> failwith ("bad conv " ^ s)

let exact = function NI _ | NR _ -> true | _ -> false
let isint = function NI _ -> true | _ -> false
let nums = function ONum n -> [n] | OVec l -> l | OOther -> []
(* `^` is modelled concretely only for an exact base and an integer exponent *)
let pow_delegated a b =
  (match a, b with OOther, _ | _, OOther -> false | _ -> true)
  && not (List.for_all exact (nums a) && List.for_all isint (nums b))

let () = serve (fun line ->
  ztab := []; qtab := [];
  match split_ws line with
  | ["b"; variant; op; a; b] ->
    let a = arg a and b = arg b in
    let op = binop_of op in
    if op = OPow && pow_delegated a b then "deleg"
    else show ((if variant = "orig" then builtin2_original else builtin2) fops op a b)
  | ["u"; op; a] -> show (builtin1 fops (unop_of op) (arg a))
  | ["c"; variant; cv; a] ->
    show ((if variant = "orig" then builtin_conv_original else builtin_conv) fops (conv_of cv) (arg a))
  | _ -> "badcase")
