(* C06 model runner.
   pair <ra> <a> <rb> <b> <pow:0|1> <shift:0|1>   -> key=result;key=result;...
   un <ra> <a> <is_prime:0|1> <factorize:0|1> <fuel> <e1,e2,...|->           -> key=result;...
   results: "<S|B> <dec>" for an NInt, b0/b1, lt/eq/gt, "panic", "fuel", "none";
   builtin-level (keys starting with bi_): "ok <S|B> <dec>" | "ok R <S|B> <dec>" (reciprocal) | "ok nan" | "err" | "panic" | "fuel" *)
open Model
open Conv

let nat_tr n = let rec go acc i = if i <= 0 then acc else go (S acc) (i - 1) in go O n
let mk rep s = let z = coqz_of_string s in if rep = "S" then Small z else Big z
let show n = match n with Small z -> "S " ^ string_of_coqz z | Big z -> "B " ^ string_of_coqz z
let showb b = if b then "b1" else "b0"
let showc c = match c with Lt -> "lt" | Eq -> "eq" | Gt -> "gt"
let showo f o = match o with Ok a -> f a | Err _ -> "err" | Panic -> "panic" | OutOfFuel -> "fuel"
let shownum o = match o with
  | Ok (NI n) -> "ok " ^ show n | Ok (NRecip n) -> "ok R " ^ show n | Ok NNaN -> "ok nan"
  | Err _ -> "err" | Panic -> "panic" | OutOfFuel -> "fuel"
let showopt o = match o with Some z -> string_of_coqz z | None -> "none"
let showsign s = match s with Minus -> "Minus" | NoSign -> "NoSign" | Plus -> "Plus"
let showhash l = String.concat "," (List.map (function WriteI64 z -> "i64:" ^ string_of_coqz z | WriteBig z -> "big:" ^ string_of_coqz z) l)
let join kvs = String.concat ";" (List.map (fun (k, v) -> k ^ "=" ^ v) kvs)

let () = serve (fun line ->
  match split_ws line with
  | ["pair"; ra; a; rb; b; pw; sh] ->
    let a = mk ra a and b = mk rb b in
    let base = [
      "add", show (m_add a b); "sub", show (m_sub a b); "mul", show (m_mul a b);
      "div", showo show (m_div a b); "rem", showo show (m_rem a b);
      "and", show (m_bitand a b); "or", show (m_bitor a b); "xor", show (m_bitxor a b);
      "eq", showb (m_eqb a b); "cmp", showc (m_cmp a b); "lt", showb (m_ltb a b); "gt", showb (m_gtb a b);
      "le", showb (m_leb a b); "ge", showb (m_geb a b);
      "div_floor", showo show (m_div_floor a b); "mod_floor", showo show (m_mod_floor a b);
      "gcd", show (m_gcd a b); "lcm", show (m_lcm a b);
      "bi_add", shownum (m_bi_add a b); "bi_sub", shownum (m_bi_sub a b); "bi_mul", shownum (m_bi_mul a b);
      "bi_rem", shownum (m_bi_rem a b); "bi_div_floor", shownum (m_bi_div_floor a b);
      "bi_mod_floor", shownum (m_bi_mod_floor a b); "bi_div_exact", shownum (m_bi_div_exact a b);
      "bi_and", shownum (m_bi_and a b); "bi_or", shownum (m_bi_or a b); "bi_xor", shownum (m_bi_xor a b);
      "bi_gcd", shownum (m_bi_gcd a b); "bi_lcm", shownum (m_bi_lcm a b) ] in
    let p = if pw = "1" then
        [ "powr", (let (f, r) = m_pow_maybe_recip a b in (if f then "1 " else "0 ") ^ show r);
          "bi_pow", shownum (m_bi_pow a b) ] else [] in
    let s = if sh = "1" then
        (match m_to_usize b with
         | Some k -> [ "shl", show (m_shl a k); "shr", show (m_shr a k) ]
         | None -> []) @ [ "bi_shl", shownum (m_bi_shl a b); "bi_shr", shownum (m_bi_shr a b) ] else [] in
    join (base @ p @ s)
  | ["un"; ra; a; pr; fz; fuel; es] ->
    let a = mk ra a in
    let fuel = nat_tr (int_of_string fuel) in
    let base = [
      "neg", show (m_neg a); "not", show (m_not a); "abs", show (m_abs a); "signum", show (m_signum a);
      "sign", showsign (m_sign_of a); "is_zero", showb (m_is_zero a); "is_positive", showb (m_is_positive a);
      "is_negative", showb (m_is_negative a); "to_i64", showopt (m_to_i64 a); "to_usize", showopt (m_to_usize a);
      "lte1", showb (m_lte a (coqz_of_string "1")); "lte3", showb (m_lte a (coqz_of_string "3"));
      "of_big", show (m_of_big (m_val a)); "hash", showhash (m_hash a);
      "sqrt", showo show (m_sqrt a);
      "bi_neg", shownum (m_bi_neg a); "bi_not", shownum (m_bi_not a); "bi_abs", shownum (m_bi_abs a);
      "bi_signum", shownum (m_bi_signum a); "bi_even", shownum (m_bi_even a); "bi_odd", shownum (m_bi_odd a) ] in
    let p = (if pr = "1" then
        [ "is_prime", showo showb (m_lazy_is_prime fuel a);
          "bi_is_prime", shownum (m_bi_is_prime fuel a) ] else []) @
      (if fz = "1" then
        [ "factorize", showo (fun l -> String.concat " " (List.map (fun (p, e) -> string_of_coqz p ^ "^" ^ string_of_coqz e) l))
            (m_lazy_factorize fuel (m_val a)) ] else []) in
    let e = if es = "-" then [] else
        List.map (fun e -> "pow" ^ e, show (m_pow a (coqz_of_string e))) (String.split_on_char ',' es) in
    join (base @ p @ e)
  | _ -> "badcase")
