(* C01 spec runner: one history per line (an s-expression), one result line.
   (hist <nvars> <stmt> ...)  ->  "<ok|err> <dump>" joined by " ;; ", dump = canonical text of
   the list of all variables, in the harness' canonical format (harness/src/lib.rs canon). *)
open Model
open Conv

(* ---------------------------------------------------------------- s-expressions *)
type sx = A of string | L of sx list

let tokenize (s : string) : string list =
  let toks = ref [] and buf = Buffer.create 16 in
  let flush () = if Buffer.length buf > 0 then (toks := Buffer.contents buf :: !toks; Buffer.clear buf) in
  String.iter (fun c -> match c with
    | '(' | ')' -> flush (); toks := String.make 1 c :: !toks
    | ' ' | '\t' | '\n' | '\r' -> flush ()
    | c -> Buffer.add_char buf c) s;
  flush (); List.rev !toks

let parse_sx (s : string) : sx =
  let rec one toks = match toks with
    | "(" :: rest -> let (items, rest') = many rest [] in (L items, rest')
    | ")" :: _ -> failwith "unexpected )"
    | a :: rest -> (A a, rest)
    | [] -> failwith "eof"
  and many toks acc = match toks with
    | ")" :: rest -> (List.rev acc, rest)
    | [] -> failwith "missing )"
    | _ -> let (x, rest) = one toks in many rest (x :: acc) in
  match one (tokenize s) with (x, []) -> x | _ -> failwith "trailing tokens"

let bad what = failwith ("bad " ^ what)
let zof = function A a -> coqz_of_string a | _ -> bad "int"
let natof = function A a -> nat_of_int (int_of_string a) | _ -> bad "nat"
let ozof = function A "_" -> None | x -> Some (zof x)

let unl vs = List.map (fun v -> (KI Z0, v)) vs
let ints zs = unl (List.map (fun z -> VInt (zof z)) zs)

let rec val_of (x : sx) : val0 = match x with
  | A "N" -> VNull
  | L [A "I"; z] -> VInt (zof z)
  | L (A "L" :: vs) -> VSeq (KList, unl (List.map val_of vs), None)
  | L (A "S" :: bs) -> VSeq (KStr, ints bs, None)
  | L (A "V" :: zs) -> VSeq (KVec, ints zs, None)
  | L (A "B" :: zs) -> VSeq (KBytes, ints zs, None)
  | L (A "D" :: d :: kvs) ->
    let dv = (match d with A "_" -> None | d -> Some (val_of d)) in
    VSeq (KDict, List.map (function L [k; v] -> (key_of k, val_of v) | _ -> bad "dict entry") kvs, dv)
  | L (A "X" :: sid :: vs) -> VInst (natof sid, List.map val_of vs)
  | _ -> bad "val"
and key_of (x : sx) : key = match x with
  | L [A "i"; z] -> KI (zof z)
  | L (A "s" :: bs) -> KB (List.map zof bs)
  | _ -> bad "key"

let pelem_of (x : sx) : pelem = match x with
  | L [A "i"; z] -> PI (zof z)
  | L (A "s" :: bs) -> PS (List.map zof bs)
  | L [A "f"; sid; k] -> PF (natof sid, natof k)
  | L [A "sl"; lo; hi] -> PSl (ozof lo, ozof hi)
  | _ -> bad "pelem"
let path_of = function L (A "p" :: pes) -> List.map pelem_of pes | _ -> bad "path"

let bop_of = function
  | A "append" -> BAppend | A "concat" -> BConcat | A "plus" -> BPlus | A "addkey" -> BAddKey
  | A "delkey" -> BDelKey | A "union" -> BUnion | A "update" -> BUpdate | _ -> bad "bop"

let lop_of = function
  | L [A "lset"; p; v] -> LSet (path_of p, val_of v)
  | L [A "levery"; p; v] -> LEvery (path_of p, val_of v)
  | L [A "lop"; p; f; v] -> LOp (path_of p, bop_of f, val_of v)
  | L [A "lpop"; p] -> LPop (path_of p)
  | L [A "lremove"; p; i] -> LRemove (path_of p, pelem_of i)
  | L [A "lconsume"; p] -> LConsume (path_of p)
  | _ -> bad "lop"

let rec expr_of = function
  | L [A "lit"; v] -> ELit (val_of v)
  | L [A "read"; x; p] -> ERead (natof x, path_of p)
  | L [A "get"; x] -> EGet (natof x)
  | L (A "list" :: es) -> EList (List.map expr_of es)
  | L [A "upd"; e; k; e2] -> EUpd (expr_of e, pelem_of k, expr_of e2)
  | L [A "call"; m; e] -> ECall (lop_of m, expr_of e)
  | _ -> bad "expr"

let sstmt_of = function
  | L [A "assign"; x; p; e] -> SAssign (natof x, path_of p, expr_of e)
  | L [A "every"; x; p; e] -> SEvery (natof x, path_of p, expr_of e)
  | L [A "op"; x; p; f; e] -> SOp (natof x, path_of p, bop_of f, expr_of e)
  | L [A "mod"; dst; x; m] ->
    let d = (match dst with A "_" -> None | L [y; q] -> Some (natof y, path_of q) | _ -> bad "dst") in
    SMod (d, natof x, lop_of m)
  | L [A "swap"; x; p; y; q] -> SSwap (natof x, path_of p, natof y, path_of q)
  | L [A "opmod"; x; p; f; A wrap; y; m] -> SOpMod (natof x, path_of p, bop_of f, (wrap = "1"), natof y, lop_of m)
  | L [A "opdef"; x; p; d; f; e] -> SOpDef (natof x, path_of p, val_of d, bop_of f, expr_of e)
  | L [A "everyop"; x; p; f; e] -> SEveryOp (natof x, path_of p, bop_of f, expr_of e)
  | L [A "andop"; L ts; f; e] ->
    SAndOp (List.map (function L [x; p] -> (natof x, path_of p) | _ -> bad "target") ts, bop_of f, expr_of e)
  | _ -> bad "sstmt"

let stmt_of = function
  | L (A "for" :: x :: p :: body) -> SFor (natof x, path_of p, List.map sstmt_of body)
  | s -> Simple (sstmt_of s)

(* ---------------------------------------------------------------- canonical printing *)
let esc_byte (b : int) : string =
  if b = 92 then "\\\\" else if b = 34 then "\\\"" else if b = 10 then "\\n"
  else if b < 32 || b = 127 then Printf.sprintf "\\u{%x}" b
  else String.make 1 (Char.chr b)

let byte_of (v : val0) : int option = match v with
  | VInt z -> let n = z_of_coqz z in if BZ.fits_int n then Some (BZ.to_int n) else None
  | _ -> None

let rec canon (v : val0) : string = match v with
  | VNull -> "N"
  | VInt z -> "I" ^ string_of_coqz z
  | VSeq (KList, items, _) -> "L[" ^ String.concat "," (List.map (fun (_, e) -> canon e) items) ^ "]"
  | VSeq (KVec, items, _) -> "V[" ^ String.concat "," (List.map (fun (_, e) -> canon e) items) ^ "]"
  | VSeq (KBytes, items, _) ->
    "B[" ^ String.concat "," (List.map (fun (_, e) -> match e with VInt z -> string_of_coqz z | _ -> "?") items) ^ "]"
  | VSeq (KStr, items, _) ->
    "S\"" ^ String.concat "" (List.map (fun (_, e) -> match byte_of e with Some b when b >= 0 && b < 128 -> esc_byte b | _ -> "?") items) ^ "\""
  | VSeq (KDict, items, d) ->
    let es = List.sort compare (List.map (fun (k, e) -> canon_key k ^ ":" ^ canon e) items) in
    "D{" ^ String.concat "," es ^ (match d with None -> "" | Some dv -> "|" ^ canon dv) ^ "}"
  | VInst (sid, fields) -> "XS" ^ string_of_int (int_of_nat sid) ^ "(" ^ String.concat "," (List.map canon fields) ^ ")"
and canon_key (k : key) : string = match k with
  | KI z -> "I" ^ string_of_coqz z
  | KB bs -> "S\"" ^ String.concat "" (List.map (fun z -> esc_byte (BZ.to_int (z_of_coqz z))) bs) ^ "\""

let dump (st : val0 list) : string = "L[" ^ String.concat "," (List.map canon st) ^ "]"

let rec nulls n = if n <= 0 then [] else VNull :: nulls (n - 1)

let () = serve (fun line ->
  match parse_sx line with
  | L (A "hist" :: A n :: stmts) ->
    let st0 = nulls (int_of_string n) in
    let trace = run_value st0 (List.map stmt_of stmts) in
    String.concat " ;; " (List.map (fun (st, ok) -> (if ok then "ok " else "err ") ^ dump st) trace)
  | _ -> "badcase")
