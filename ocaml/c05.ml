(* C05 model runner.  One case per line:  <fuel> <program as S-expression>   (see notes/C05.md)
   One result per line:  <outcome> TAB <printed output, newline as \n>
   outcome: ok <canon> | err <canon or ?> | sig break <n> <canon or -> | sig continue <n> |
            sig return <canon> | unsupported | fuel
   S-expression grammar:
     e  ::= (null) | (int Z) | (str "s") | (list A* ) | (var x) | (seq T e+) | (decl x e) | (asg x e)
          | (decll (x* ) e) | (asgl (x* ) e) | (if c t) | (if c t f) | (while c b) | (for (CL* ) FB)
          | (break N) | (break N e) | (cont N) | (ret) | (ret e) | (try b x h) | (throw e)
          | (and a b) | (or a b) | (coal a b) | (lam (P* ) b) | (call f A* ) | (prim OP e* ) | (eval e)
          | (tryp b CP h)            CP ::= (name x) | (int Z) | (str "s") | (wild) | (wild int|str|list) | (names x* )
          | (switch e ARM+)          ARM ::= ((lit Z) e) | ((bind x) e) | ((wild) e)
     A  ::= e | (splat e)            T ::= 0 | 1 (trailing semicolon)
     CL ::= (it x e) | (item i x e) | (let x e) | (guard e)
     FB ::= (do e) | (yield e) | (yieldkv k v) | (yieldinto e R)     R ::= first | last | count | sum | len | (fn e)
     P  ::= x | (def x e) | (splat x)
     OP ::= add sub mul lt eq len append not print *)
open Model
open Conv

type sx = A of string | Q of string | L of sx list

let tokenize (s : string) : sx list =
  (* returns the list of top-level S-expressions *)
  let n = String.length s in
  let pos = ref 0 in
  let rec skip () = if !pos < n && (s.[!pos] = ' ' || s.[!pos] = '\t') then (incr pos; skip ()) in
  let rec parse_one () : sx =
    skip ();
    if !pos >= n then failwith "eof"
    else if s.[!pos] = '(' then begin
      incr pos;
      let items = ref [] in
      let rec loop () =
        skip ();
        if !pos >= n then failwith "unclosed"
        else if s.[!pos] = ')' then incr pos
        else (items := parse_one () :: !items; loop ()) in
      loop ();
      L (List.rev !items)
    end else if s.[!pos] = '"' then begin
      let st = !pos + 1 in
      let e = String.index_from s st '"' in
      pos := e + 1;
      Q (String.sub s st (e - st))
    end else begin
      let st = !pos in
      while !pos < n && not (List.mem s.[!pos] [' '; '('; ')'; '\t']) do incr pos done;
      A (String.sub s st (!pos - st))
    end in
  let out = ref [] in
  skip ();
  while !pos < n do out := parse_one () :: !out; skip () done;
  List.rev !out

(* ExtrOcamlNativeString: Coq strings are OCaml strings *)
let cs (s : string) : string = s
let os (s : string) : string = s

let prim_of = function
  | "add" -> PAdd | "sub" -> PSub | "mul" -> PMul | "lt" -> PLt | "eq" -> PEq | "len" -> PLen
  | "append" -> PAppend | "not" -> PNot | "print" -> PPrint | s -> failwith ("prim " ^ s)

let atom = function A x -> cs x | _ -> failwith "atom expected"

let rec expr_of (x : sx) : expr =
  match x with
  | L [A "null"] -> ENull
  | L [A "int"; A z] -> EInt (coqz_of_string z)
  | L [A "str"; Q s] -> EStr (cs s)
  | L (A "list" :: items) -> EList (List.map item_of items)
  | L [A "var"; A v] -> EVar (cs v)
  | L (A "seq" :: A t :: es) -> ESeq (List.map expr_of es, t = "1")
  | L [A "decl"; A v; e] -> EDecl (cs v, expr_of e)
  | L [A "asg"; A v; e] -> EAssign (cs v, expr_of e)
  | L [A "decll"; L vs; e] -> EDeclL (List.map atom vs, expr_of e)
  | L [A "asgl"; L vs; e] -> EAssignL (List.map atom vs, expr_of e)
  | L [A "if"; c; t] -> EIf (expr_of c, expr_of t, None)
  | L [A "if"; c; t; f] -> EIf (expr_of c, expr_of t, Some (expr_of f))
  | L [A "while"; c; b] -> EWhile (expr_of c, expr_of b)
  | L [A "for"; L cls; fb] -> EFor (List.map clause_of cls, forbody_of fb)
  | L [A "break"; A n] -> EBreak (nat_of_int (int_of_string n), None)
  | L [A "break"; A n; e] -> EBreak (nat_of_int (int_of_string n), Some (expr_of e))
  | L [A "cont"; A n] -> EContinue (nat_of_int (int_of_string n))
  | L [A "ret"] -> EReturn None
  | L [A "ret"; e] -> EReturn (Some (expr_of e))
  | L [A "try"; b; A v; h] -> ETry (expr_of b, cs v, expr_of h)
  | L [A "tryp"; b; p; h] -> ETryP (expr_of b, cpat_of p, expr_of h)
  | L [A "throw"; e] -> EThrow (expr_of e)
  | L [A "and"; a; b] -> EAnd (expr_of a, expr_of b)
  | L [A "or"; a; b] -> EOr (expr_of a, expr_of b)
  | L [A "coal"; a; b] -> ECoalesce (expr_of a, expr_of b)
  | L [A "lam"; L ps; b] -> ELam (List.map param_of ps, expr_of b)
  | L (A "call" :: f :: args) -> ECall (expr_of f, List.map item_of args)
  | L (A "prim" :: A p :: args) -> EPrim (prim_of p, List.map expr_of args)
  | L [A "eval"; e] -> EEval (expr_of e)
  | L (A "switch" :: sc :: arms) -> ESwitch (expr_of sc, List.map arm_of arms)
  | _ -> failwith "bad expr"
and cpat_of = function
  | L [A "name"; A v] -> CName (cs v)
  | L [A "int"; A z] -> CInt (coqz_of_string z)
  | L [A "str"; Q s] -> CStr (cs s)
  | L [A "wild"] -> CWild None
  | L [A "wild"; A "int"] -> CWild (Some TInt)
  | L [A "wild"; A "str"] -> CWild (Some TStr)
  | L [A "wild"; A "list"] -> CWild (Some TList)
  | L (A "names" :: vs) -> CList (List.map atom vs)
  | _ -> failwith "bad catch pattern"
and arm_of = function
  | L [L [A "lit"; A z]; e] -> (PLit (coqz_of_string z), expr_of e)
  | L [L [A "bind"; A v]; e] -> (PBind (cs v), expr_of e)
  | L [L [A "wild"]; e] -> (PWild, expr_of e)
  | _ -> failwith "bad arm"
and item_of = function
  | L [A "splat"; e] -> (true, expr_of e)
  | e -> (false, expr_of e)
and clause_of = function
  | L [A "it"; A v; e] -> CIter (cs v, expr_of e)
  | L [A "item"; A i; A v; e] -> CItem (cs i, cs v, expr_of e)
  | L [A "let"; A v; e] -> CLet (cs v, expr_of e)
  | L [A "guard"; e] -> CGuard (expr_of e)
  | _ -> failwith "bad clause"
and forbody_of = function
  | L [A "do"; e] -> FDo (expr_of e)
  | L [A "yield"; e] -> FYield (expr_of e)
  | L [A "yieldkv"; k; v] -> FYieldKV (expr_of k, expr_of v)
  | L [A "yieldinto"; e; r] -> FYieldInto (expr_of e, reducer_of r)
  | _ -> failwith "bad for body"
and reducer_of = function
  | A "first" -> RFirst | A "last" -> RLast | A "count" -> RCount | A "sum" -> RSum | A "len" -> RLen
  | L [A "fn"; e] -> RFun (expr_of e)
  | _ -> failwith "bad reducer"
and param_of = function
  | A v -> ((KPlain, cs v), None)
  | L [A "def"; A v; e] -> ((KPlain, cs v), Some (expr_of e))
  | L [A "splat"; A v] -> ((KSplat, cs v), None)
  | _ -> failwith "bad param"

exception Opaque

(* canonical text of a value, as the Rust harness prints it *)
let rec canon (v : val0) : string =
  match v with
  | VNull -> "N"
  | VInt z -> "I" ^ string_of_coqz z
  | VStr s -> "S\"" ^ os s ^ "\""
  | VList l -> "L[" ^ String.concat "," (List.map canon l) ^ "]"
  | VDict kvs ->
    let es = List.sort compare (List.map (fun (k, v) -> canon k ^ ":" ^ canon v) kvs) in
    "D{" ^ String.concat "," es ^ "}"
  | VClos _ -> "Fn"
  | VErr -> raise Opaque

(* Display of a printed value; functions, dictionaries (hash order) and error strings have no
   comparable rendering *)
let rec display (top : bool) (v : val0) : string =
  match v with
  | VNull -> "null"
  | VInt z -> string_of_coqz z
  | VStr s -> if top then os s else "\"" ^ os s ^ "\""
  | VList l -> "[" ^ String.concat ", " (List.map (display false) l) ^ "]"
  | VDict _ | VClos _ | VErr -> raise Opaque

let show_out (o : val0 list list) : string =
  String.concat "" (List.map (fun vs -> String.concat " " (List.map (display true) vs) ^ "\\n") o)

let () = serve (fun line ->
  let sp = String.index line ' ' in
  let fuel = int_of_string (String.sub line 0 sp) in
  let prog = String.sub line (sp + 1) (String.length line - sp - 1) in
  let e = match tokenize prog with [x] -> expr_of x | _ -> failwith "one expression expected" in
  let (st, r) = run (nat_of_int fuel) e in
  try
    let head =
      match r with
      | Val v -> "ok " ^ canon v
      | Sig (SThrow v) -> "err " ^ (try canon v with Opaque -> "?")
      | Sig (SBreak (n, None)) -> "sig break " ^ string_of_int (int_of_nat n) ^ " -"
      | Sig (SBreak (n, Some v)) -> "sig break " ^ string_of_int (int_of_nat n) ^ " " ^ canon v
      | Sig (SContinue n) -> "sig continue " ^ string_of_int (int_of_nat n)
      | Sig (SReturn v) -> "sig return " ^ canon v
      | Sig SUnsupported -> "unsupported"
      | OutOfFuel -> "fuel" in
    head ^ "\t" ^ show_out st.out
  with Opaque -> "unsupported\t")
