(* C03 model runner.
   line: <mode> <n> then n operator descriptors  label^Brank^Bassoc^Bgroup^Bbase (fields separated by byte 0x02; rank: integer or nan; base: real builtin name or -)
         mode = chain | fast | section:<mask> (mask: string of n+1 chars, '_' = slot, 'x' = fixed operand) | spec (the climbing spec)
   first line of input: `pairs a b;c d;...` the chain relation among real builtins (base names, space separated pairs, ';' between)
   output: the result tree in the harness's canonical form: leaves I<k>, applications L[S"label,label",args...] *)
open Model
open Conv

type fn = { label : string; group : int; base : string }
let pairs : (string * string, unit) Hashtbl.t = Hashtbl.create 64

let chain (f : fn) (g : fn) : fn option =
  if f.base <> "-" && g.base <> "-" then
    (if Hashtbl.mem pairs (f.base, g.base) then Some { label = f.label ^ "," ^ g.label; group = 0; base = f.base } else None)
  else if f.base = "-" && g.base = "-" && f.group <> 0 && f.group = g.group then
    Some { label = f.label ^ "," ^ g.label; group = f.group; base = "-" }
  else None

let rec show (t : (fn, int) term) : string = match t with
  | Leaf v -> "I" ^ string_of_int v
  | App (f, _, args) -> "L[S\"" ^ f.label ^ "\"" ^ String.concat "" (List.map (fun a -> "," ^ show a) args) ^ "]"

let parse_op (i : int) (s : string) =
  match String.split_on_char '\002' s with
  | [label; rank; a; group; base] ->
    let r = if rank = "nan" then None else Some (coqz_of_string rank) in
    let asc = if a = "R" then ARight else ALeft in
    { o_fn = { label; group = int_of_string group; base }; o_prec = (r, asc); o_id = nat_of_int i }
  | _ -> failwith "bad op"

let () = serve (fun line ->
  match split_ws line with
  | "pairs" :: rest ->
    Hashtbl.reset pairs;
    List.iter (fun p -> match String.split_on_char '\001' p with
      | [a; b] -> Hashtbl.replace pairs (a, b) () | _ -> ()) rest;
    "ok"
  | mode :: n :: ops ->
    let n = int_of_string n in
    let ops = List.mapi (fun i s -> parse_op (i + 1) s) ops in
    if List.length ops <> n then "badcase" else
    let operands = List.mapi (fun i o -> (o, Leaf (i + 1))) ops in
    let e0 = Leaf 0 in
    if mode = "chain" then show (eval_chain tighter_rank chain e0 operands)
    else if mode = "spec" then
      (match climb_spec tighter_rank chain e0 operands with Some t -> show t | None -> "none")
    else if mode = "fast" then
      (match operands with [(o, x)] -> show (eval_chain_fast e0 o x) | _ -> "badcase")
    else if String.length mode > 8 && String.sub mode 0 8 = "section:" then begin
      let mask = String.sub mode 8 (String.length mode - 8) in
      let slot k = mask.[k] = '_' in
      let seed = if slot 0 then None else Some e0 in
      let slots = List.mapi (fun i (o, x) -> (o, if slot (i + 1) then None else Some x)) operands in
      let args = List.filter_map (fun x -> x)
          ((if slot 0 then Some e0 else None) :: List.mapi (fun i (_, x) -> if slot (i + 1) then Some x else None) operands) in
      match run_section tighter_rank chain seed slots args with Some t -> show t | None -> "none"
    end else "badcase"
  | _ -> "badcase")
