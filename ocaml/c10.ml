(* C10 model runner. Elements are their own positions 0..len-1.
   line: <op> <len> <args...>; index args: decimal integer | f (non-integer number) | x (non-number) | _ (omitted) *)
open Model
open Conv

let rec upto i n = if i >= n then [] else coqz_of_z (BZ.of_int i) :: upto (i + 1) n
let idx_of s = match s with "f" -> INonInt | "x" -> INonNum | _ -> IInt (coqz_of_string s)
let oidx_of s = if s = "_" then None else Some (idx_of s)
let show_list l = "[" ^ String.concat "," (List.map string_of_coqz l) ^ "]"
let show (f : 'a -> string) (o : 'a outcome) = match o with
  | Ok a -> "ok " ^ f a | Err _ -> "err" | Panic -> "panic" | OutOfFuel -> "fuel"

let show_sliced s = (match s with SStream _ -> "S " | SList _ -> "L ") ^ show_list (sliced_elems s)

let () = serve (fun line ->
  match split_ws line with
  | op :: len :: args ->
    let xs = upto 0 (int_of_string len) in
    (match op, args with
     | "index", [i] -> show string_of_coqz (index_list xs (idx_of i))
     | "lin", [i] -> show string_of_coqz (linear_index_isize xs (coqz_of_string i))
     | "safe", [i] -> show (function None -> "null" | Some a -> string_of_coqz a) (safe_index xs (idx_of i))
     | "cyc", [i] -> show string_of_coqz (cyclic_index xs (idx_of i))
     | "slice", [a; b] -> show show_list (slice_list xs (oidx_of a) (oidx_of b))
     | "sindex", [i] -> show string_of_coqz (stream_index xs (idx_of i))
     | "sslice", [a; b] -> show (fun s -> (match s with SStream _ -> "S " | SList _ -> "L ") ^ show_list (sliced_elems s)) (stream_slice xs (oidx_of a) (oidx_of b))
     | "set", [i] -> show show_list (set_index_list xs (idx_of i) (coqz_of_string "-1"))
     | "rm", [i] -> show (fun (a, l) -> string_of_coqz a ^ " " ^ show_list l) (remove_index_list xs (idx_of i))
     | "rmslice", [a; b] -> show (fun (m, l) -> show_list m ^ " " ^ show_list l) (remove_slice_list xs (oidx_of a) (oidx_of b))
     | "tail", [] -> show show_list (tail_list xs)
     | "butlast", [] -> show show_list (butlast_list xs)
     | "take", [i] -> show show_list (take_list xs (idx_of i))
     | "drop", [i] -> show show_list (drop_list xs (idx_of i))
     | "stail", [] -> show show_sliced (tail_stream xs)
     | "sbutlast", [] -> show show_sliced (butlast_stream xs)
     | "stake", [i] -> show show_sliced (take_stream xs (idx_of i))
     | "sdrop", [i] -> show show_sliced (drop_stream xs (idx_of i))
     | "uncons", [] -> show (fun (a, l) -> string_of_coqz a ^ " " ^ show_list l) (uncons_builtin xs)
     | "unsnoc", [] -> show (fun (l, a) -> show_list l ^ " " ^ string_of_coqz a) (unsnoc_builtin xs)
     | "suncons", [] -> show (fun (a, l) -> string_of_coqz a ^ " " ^ show_list l) (uncons_stream xs)
     | "sunsnoc", [] -> show (fun (l, a) -> show_list l ^ " " ^ string_of_coqz a) (unsnoc_stream xs)
     | "unconsq", [] -> show (function None -> "null" | Some (a, l) -> string_of_coqz a ^ " " ^ show_list l) (uncons_q xs)
     | "unsnocq", [] -> show (function None -> "null" | Some (l, a) -> show_list l ^ " " ^ string_of_coqz a) (unsnoc_q xs)
     | "only", [] -> show string_of_coqz (only_list xs)
     | "sonly", [] -> show string_of_coqz (only_stream xs)
     | _ -> "badcase")
  | _ -> "badcase")
