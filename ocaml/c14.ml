(* C14 model runner (Lang/Contain.v, operator table std_op).
   line:  <fuel> <nvars> <val_0> .. <val_{n-1}> <stmt>      (prefix notation, blank separated)
     val  : N | I<int> | L<k> v1 .. vk | U (variable not declared; only at top level)
     expr : c <val> | v <n> | b <op> <expr> <expr> | i <expr> <expr>
     op   : add sub mul fdiv cat app lt
     stmt : skip | expr e | asg x <k> e1..ek e | op x <k> e1..ek <op> e | seq s s | if e s s | while e s
            | try s c s | throw e | break n | cont n | ret e
   line:  alloc <sz> <avail> <n>    -> ok <count> | err | capov | abort     (Lang/HugeCount.v)
   answer: <status> | <v0> <v1> ...   status = done | throw <val> | break n | cont n | ret <val> | panic | fuel
           values in the harness' canonical form (N, I5, L[..]); an error message is E; undeclared is U *)
open Model
open Conv

exception Bad of string

let rec show_val v = match v with
  | VNull -> "N"
  | VInt z -> "I" ^ string_of_coqz z
  | VList l -> "L[" ^ String.concat "," (List.map show_val l) ^ "]"
  | VErr _ -> "E"

let parse_op = function
  | "add" -> OAdd | "sub" -> OSub | "mul" -> OMul | "fdiv" -> OFloorDiv
  | "cat" -> OConcat | "app" -> OAppend | "lt" -> OLt | s -> raise (Bad ("op " ^ s))

let rec parse_val toks = match toks with
  | "N" :: r -> (VNull, r)
  | t :: r when String.length t > 1 && t.[0] = 'I' -> (VInt (coqz_of_string (String.sub t 1 (String.length t - 1))), r)
  | t :: r when String.length t > 1 && t.[0] = 'L' ->
    let k = int_of_string (String.sub t 1 (String.length t - 1)) in
    let rec go k r acc = if k = 0 then (List.rev acc, r) else let (v, r') = parse_val r in go (k - 1) r' (v :: acc) in
    let (vs, r') = go k r [] in (VList vs, r')
  | t :: _ -> raise (Bad ("val " ^ t))
  | [] -> raise (Bad "val eof")

let rec parse_expr toks = match toks with
  | "c" :: r -> let (v, r') = parse_val r in (XConst v, r')
  | "v" :: n :: r -> (XVar (nat_of_int (int_of_string n)), r)
  | "b" :: o :: r -> let (a, r1) = parse_expr r in let (b, r2) = parse_expr r1 in (XBin (parse_op o, a, b), r2)
  | "i" :: r -> let (a, r1) = parse_expr r in let (b, r2) = parse_expr r1 in (XIdx (a, b), r2)
  | t :: _ -> raise (Bad ("expr " ^ t))
  | [] -> raise (Bad "expr eof")

let parse_exprs toks = match toks with
  | k :: r ->
    let rec go k r acc = if k = 0 then (List.rev acc, r) else let (e, r') = parse_expr r in go (k - 1) r' (e :: acc) in
    go (int_of_string k) r []
  | [] -> raise (Bad "exprs eof")

let rec parse_stmt toks = match toks with
  | "skip" :: r -> (SSkip, r)
  | "expr" :: r -> let (e, r') = parse_expr r in (SExpr e, r')
  | "asg" :: x :: r -> let (p, r1) = parse_exprs r in let (e, r2) = parse_expr r1 in (SAssign (nat_of_int (int_of_string x), p, e), r2)
  | "op" :: x :: r ->
    let (p, r1) = parse_exprs r in
    (match r1 with
     | o :: r2 -> let (e, r3) = parse_expr r2 in (SOpAssign (nat_of_int (int_of_string x), p, parse_op o, e), r3)
     | [] -> raise (Bad "op eof"))
  | "seq" :: r -> let (a, r1) = parse_stmt r in let (b, r2) = parse_stmt r1 in (SSeq (a, b), r2)
  | "if" :: r -> let (c, r0) = parse_expr r in let (a, r1) = parse_stmt r0 in let (b, r2) = parse_stmt r1 in (SIf (c, a, b), r2)
  | "while" :: r -> let (c, r0) = parse_expr r in let (a, r1) = parse_stmt r0 in (SWhile (c, a), r1)
  | "try" :: r ->
    let (a, r1) = parse_stmt r in
    (match r1 with
     | c :: r2 -> let (h, r3) = parse_stmt r2 in (STry (a, nat_of_int (int_of_string c), h), r3)
     | [] -> raise (Bad "try eof"))
  | "throw" :: r -> let (e, r') = parse_expr r in (SThrow e, r')
  | "break" :: n :: r -> (SBreak (nat_of_int (int_of_string n)), r)
  | "cont" :: n :: r -> (SContinue (nat_of_int (int_of_string n)), r)
  | "ret" :: r -> let (e, r') = parse_expr r in (SReturn e, r')
  | t :: _ -> raise (Bad ("stmt " ^ t))
  | [] -> raise (Bad "stmt eof")

let () = serve (fun line ->
  match split_ws line with
  | ["alloc"; sz; avail; n] ->
    (* Lang/HugeCount.v: the allocation of `x .* n` *)
    (match clamp_count (coqz_of_string n) with
     | Ok c ->
       (match vec_alloc (coqz_of_string sz) (coqz_of_string avail) c with
        | AllocOk -> "ok " ^ string_of_coqz c
        | CapacityOverflow -> "capov"
        | AllocAbort -> "abort")
     | Err _ -> "err"
     | _ -> "badmodel")
  | fuel :: nvars :: rest ->
    let n = int_of_string nvars in
    let rec init k toks st =
      if k = n then (st, toks) else
      match toks with
      | "U" :: r -> init (k + 1) r st
      | _ -> let (v, r) = parse_val toks in init (k + 1) r (upd st (nat_of_int k) v) in
    let (s0, toks) = init 0 rest empty_store in
    let (st, left) = parse_stmt toks in
    if left <> [] then "badcase trailing" else
    let dump s = String.concat " " (List.init n (fun k -> match s (nat_of_int k) with None -> "U" | Some v -> show_val v)) in
    (match exec_std (nat_of_int (int_of_string fuel)) st s0 with
     | Done s -> "done | " ^ dump s
     | Raise (s, g) ->
       (match g with
        | GThrow v -> "throw " ^ show_val v
        | GBreak k -> "break " ^ string_of_int (int_of_nat k)
        | GContinue k -> "cont " ^ string_of_int (int_of_nat k)
        | GReturn v -> "ret " ^ show_val v) ^ " | " ^ dump s
     | RPanic -> "panic"
     | RFuel -> "fuel")
  | _ -> "badcase")
