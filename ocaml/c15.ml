(* C15 model runner.  One case per line:
     lex <cp> <cp> ...          -> tokens of Text/Lexer.lex, space separated (same text as harness bin/c15)
     fmt <cp> ...               -> ok <seg> <seg> ... | err <FmtErr>      (parse_expr := accept everything)
     rr <b> <n> | rru <b> <n> | r64 <n>   -> code points of render_radix / render_radix_upper / render_base64
   Code points are decimal.  The Unicode tables for code points >= 128 (alphabetic, numeric,
   uppercase) are read from the file named by $C15_CLASSES (dumped from the implementation's own
   char methods by harness bin/c15): one line per class, "<name> lo hi lo hi ...". *)
open Model
open Conv

let load_classes () : (string * (int * int) array) list =
  match Sys.getenv_opt "C15_CLASSES" with
  | None -> []
  | Some path ->
    let ic = open_in path in
    let rec go acc =
      match input_line ic with
      | line ->
        (match split_ws line with
         | name :: nums ->
           let a = Array.of_list (List.map int_of_string nums) in
           let n = Array.length a / 2 in
           go ((name, Array.init n (fun i -> (a.(2 * i), a.(2 * i + 1)))) :: acc)
         | [] -> go acc)
      | exception End_of_file -> close_in ic; acc
    in
    go []

let classes = load_classes ()

let in_table (name : string) : Model.n -> bool =
  let tbl = try List.assoc name classes with Not_found -> [||] in
  fun c ->
    let x = BZ.to_int (z_of_coqn c) in
    let lo = ref 0 and hi = ref (Array.length tbl - 1) and found = ref false in
    while not !found && !lo <= !hi do
      let mid = (!lo + !hi) / 2 in
      let (a, b) = tbl.(mid) in
      if x < a then hi := mid - 1 else if x > b then lo := mid + 1 else found := true
    done;
    !found

let u : uclass = { uc_alphabetic = in_table "alphabetic"; uc_numeric = in_table "numeric"; uc_uppercase = in_table "uppercase" }

let cps_of_args (args : string list) : Model.n list = List.map coqn_of_string args
let show_cps (l : Model.n list) : string = String.concat "," (List.map string_of_coqn l)

let fixed_name (f : fixed) : string = match f with
  | LeftParen -> "LeftParen" | RightParen -> "RightParen" | LeftBracket -> "LeftBracket"
  | BLeftBracket -> "BLeftBracket" | RightBracket -> "RightBracket" | LeftBrace -> "LeftBrace"
  | RightBrace -> "RightBrace" | Backtick -> "Backtick" | Null -> "Null" | And -> "And" | Or -> "Or"
  | Coalesce -> "Coalesce" | While -> "While" | For -> "For" | Yield -> "Yield" | Into -> "Into"
  | If -> "If" | Else -> "Else" | Switch -> "Switch" | Case -> "Case" | Try -> "Try" | Catch -> "Catch"
  | Break -> "Break" | Continue -> "Continue" | Return -> "Return" | Throw -> "Throw" | Bang -> "Bang"
  | QuestionMark -> "QuestionMark" | Colon -> "Colon" | LeftArrow -> "LeftArrow" | RightArrow -> "RightArrow"
  | DoubleLeftArrow -> "DoubleLeftArrow" | DoubleColon -> "DoubleColon" | Semicolon -> "Semicolon"
  | Ellipsis -> "Ellipsis" | Lambda -> "Lambda" | LambdaEnd -> "LambdaEnd" | Comma -> "Comma"
  | Assign -> "Assign" | Consume -> "Consume" | Pop -> "Pop" | Remove -> "Remove" | Swap -> "Swap"
  | Every -> "Every" | Struct -> "Struct" | Freeze -> "Freeze" | Import -> "Import"
  | Literally -> "Literally" | Underscore -> "Underscore" | InternalFrame -> "InternalFrame"
  | InternalPush -> "InternalPush" | InternalPop -> "InternalPop" | InternalPeek -> "InternalPeek"
  | InternalWhile -> "InternalWhile" | InternalFor -> "InternalFor" | InternalCall -> "InternalCall"
  | InternalLambda -> "InternalLambda"

let show_token (t : token) : string = match t with
  | TInvalid _ -> "Invalid"
  | TInt n -> "Int:" ^ string_of_coqn n
  | TRat n -> "Rat:" ^ string_of_coqn n
  | TFloat l -> "FloatT:" ^ show_cps l
  | TImag l -> "ImagT:" ^ show_cps l
  | TStr l -> "Str:" ^ show_cps l
  | TBytes l -> "Bytes:" ^ show_cps l
  | TFmt l -> "Fmt:" ^ show_cps l
  | TIdent l -> "Ident:" ^ show_cps l
  | TFix f -> fixed_name f
  | TPeekN n -> "InternalPeekN:" ^ string_of_coqn n
  | TComment l -> "Comment:" ^ show_cps l

let show_tokens (l : token list) : string = String.concat " " (List.map show_token l)

let show_outcome (f : 'a -> string) (o : 'a outcome) : string = match o with
  | Ok a -> "ok " ^ f a | Err _ -> "err" | Panic -> "panic" | OutOfFuel -> "fuel"

let base_name = function BDecimal -> "Decimal" | BBinary -> "Binary" | BOctal -> "Octal"
  | BLowerHex -> "LowerHex" | BUpperHex -> "UpperHex"
let align_name = function ALeft -> "Left" | ARight -> "Right" | ACenter -> "Center"
let err_name = function FUnmatchedRight -> "UnmatchedRight" | FUnmatchedLeft -> "UnmatchedLeft"
  | FEmptyExpr -> "EmptyExpr" | FPadLength -> "PadLength" | FExprParse -> "ExprParse"
  | FExprUnfinished -> "ExprUnfinished"
let show_seg = function
  | SegChar c -> "c" ^ string_of_coqn c
  | SegExpr (toks, fl) ->
    "e" ^ base_name fl.f_base ^ "," ^ string_of_coqn fl.f_pad ^ "," ^ string_of_coqn fl.f_padlen ^ ","
    ^ align_name fl.f_align ^ "|" ^ String.concat "|" (List.map show_token toks)

let () = serve (fun line ->
  match split_ws line with
  | "lex" :: args -> show_outcome show_tokens (lex u (cps_of_args args))
  | "fmt" :: args ->
    (match parse_format_string u accept_all (cps_of_args args) with
     | Ok (Inl e) -> "err " ^ err_name e
     | Ok (Inr segs) -> "ok " ^ String.concat " " (List.map show_seg segs)
     | Err _ -> "err?" | Panic -> "panic" | OutOfFuel -> "fuel")
  | ["rr"; b; n] -> show_cps (render_radix (coqn_of_string b) (coqn_of_string n))
  | ["rru"; b; n] -> show_cps (render_radix_upper (coqn_of_string b) (coqn_of_string n))
  | ["r64"; n] -> show_cps (render_base64 (coqn_of_string n))
  | _ -> "badcase")
