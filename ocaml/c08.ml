(* C08 model runner.  Values in prefix form:
   n | i <z> (Small) | I <z> (Big) | r <num> <den> | f <bits> | c <re> <im>
   | l <k> v*k | s <k> byte*k | v <k> num*k | y <k> byte*k | d <id> | o <id> | @name (bound by an earlier `def @name <val>` line)
   lines: op <eq|ne|lt|gt|le|ge> a b | cmp a b | rcmp a b | min k v*k | max k v*k | sort k v*k
          | sorton k v*k | chain a m (op b)*m | dec <bits> | pcmp a b | oeq a b
          | num <num> <num>  (Rust API level: partial_cmp, ==, NNum::min, NNum::max, total_eq) *)
open Model
open Conv

let pos_of_string s = match coqz_of_string s with Zpos p -> p | _ -> failwith "positive expected"

let rec take_n f k toks = if k = 0 then ([], toks) else
  let (x, toks) = f toks in let (xs, toks) = take_n f (k - 1) toks in (x :: xs, toks)

let parse_n toks = match toks with t :: r -> (coqn_of_string t, r) | [] -> failwith "eof"

let parse_num toks = match toks with
  | "i" :: z :: r -> (NInt (Small (coqz_of_string z)), r)
  | "I" :: z :: r -> (NInt (Big (coqz_of_string z)), r)
  | "r" :: n :: d :: r -> (NRational { qnum = coqz_of_string n; qden = pos_of_string d }, r)
  | "f" :: b :: r -> (NFloat (coqn_of_string b), r)
  | "c" :: a :: b :: r -> (NComplex (coqn_of_string a, coqn_of_string b), r)
  | _ -> failwith "num expected"

let defs : (string, obj) Hashtbl.t = Hashtbl.create 256

let rec parse_val toks = match toks with
  | "n" :: r -> (ONull, r)
  | t :: r when String.length t > 1 && t.[0] = '@' -> (Hashtbl.find defs t, r)
  | "l" :: k :: r -> let (xs, r) = take_n parse_val (int_of_string k) r in (OList xs, r)
  | "s" :: k :: r -> let (xs, r) = take_n parse_n (int_of_string k) r in (OString xs, r)
  | "v" :: k :: r -> let (xs, r) = take_n parse_num (int_of_string k) r in (OVector xs, r)
  | "y" :: k :: r -> let (xs, r) = take_n parse_n (int_of_string k) r in (OBytes xs, r)
  | "d" :: k :: r -> (ODict (coqn_of_string k), r)
  | "o" :: k :: r -> (OOther (coqn_of_string k), r)
  | _ -> let (x, r) = parse_num toks in (ONum x, r)

let op_of = function "eq" -> OpEq | "ne" -> OpNe | "lt" -> OpLt | "gt" -> OpGt | "le" -> OpLe | "ge" -> OpGe
  | _ -> failwith "op"

let show (f : 'a -> string) (o : 'a outcome) = match o with
  | Ok a -> "ok " ^ f a | Err _ -> "err" | Panic -> "panic" | OutOfFuel -> "fuel"
let show_bool b = if b then "1" else "0"
let show_cmp = function Lt -> "-1" | Eq -> "0" | Gt -> "1"
let show_nats l = String.concat "," (List.map (fun n -> string_of_int (int_of_nat n)) l)
let rec parse_links m toks = if m = 0 then [] else match toks with
  | op :: r -> let (v, r) = parse_val r in (op_of op, v) :: parse_links (m - 1) r
  | [] -> failwith "eof"
let vals k r = fst (take_n parse_val (int_of_string k) r)

let () = serve (fun line ->
  match split_ws line with
  | "def" :: name :: r -> let (a, _) = parse_val r in Hashtbl.replace defs name a; "ok"
  | "op" :: op :: r -> let (a, r) = parse_val r in let (b, _) = parse_val r in show show_bool (accept (op_of op) a b)
  | "cmp" :: r -> let (a, r) = parse_val r in let (b, _) = parse_val r in show string_of_coqz (spaceship a b)
  | "rcmp" :: r -> let (a, r) = parse_val r in let (b, _) = parse_val r in show string_of_coqz (rev_spaceship a b)
  | "pcmp" :: r -> let (a, r) = parse_val r in let (b, _) = parse_val r in
    (match obj_partial_cmp a b with Some c -> "some " ^ show_cmp c | None -> "none")
  | "oeq" :: r -> let (a, r) = parse_val r in let (b, _) = parse_val r in show_bool (obj_eq a b)
  | "min" :: k :: r -> show (fun n -> string_of_int (int_of_nat n)) (extremum_position Lt (vals k r))
  | "max" :: k :: r -> show (fun n -> string_of_int (int_of_nat n)) (extremum_position Gt (vals k r))
  | "sort" :: k :: r -> show show_nats (sort_positions (vals k r))
  | "sorton" :: k :: r -> show show_nats (sort_on_positions (vals k r))
  | "chain" :: r -> let (a, r) = parse_val r in
    (match r with m :: r -> show show_bool (chain_run a (parse_links (int_of_string m) r)) | [] -> "badcase")
  | "num" :: r -> let (a, r) = parse_num r in let (b, _) = parse_num r in
    let pc = (match nnum_partial_cmp a b with Some c -> show_cmp c | None -> "n") in
    Printf.sprintf "%s %s %s %s %s" pc (show_bool (nnum_eq a b))
      (if nnum_min a b == a then "a" else "b") (if nnum_max a b == a then "a" else "b") (show_bool (nnum_total_eq a b))
  | ["dec"; b] -> (match decode (coqn_of_string b) with
      | NaN -> "nan" | Inf s -> if s then "inf -" else "inf +"
      | Fin q -> "fin " ^ string_of_coqz q.qnum ^ " " ^ BZ.to_string (z_of_pos q.qden))
  | _ -> "badcase")
