From Coq Require Import ZArith NArith List.
From NV Require Import Common.Outcome Common.Conv Text.Chars Text.LexLit Text.Lexer Text.FormatScan.
Require Extraction.
Require Import ExtrOcamlBasic.
Extraction "model.ml" conv_anchor lex strip_comments parse_format_string accept_all
  render_radix render_radix_upper render_base64 render_escaped lex_string utf8_encode.
