From Coq Require Import ZArith List.
From NV Require Import Common.Outcome Common.Conv Seq.Index Seq.Accessors.
Require Extraction.
Require Import ExtrOcamlBasic.
Extraction "model.ml" conv_anchor index_list slice_list linear_index_isize safe_index cyclic_index
  stream_index stream_slice sliced_elems set_index_list remove_index_list remove_slice_list
  tail_list butlast_list take_list drop_list uncons_builtin unsnoc_builtin uncons_q unsnoc_q only_list
  tail_stream butlast_stream take_stream drop_stream uncons_stream unsnoc_stream only_stream.
