From Coq Require Import ZArith List.
From NV Require Import Common.Outcome Common.Conv Seq.Index.
Require Extraction.
Require Import ExtrOcamlBasic.
Extraction "model.ml" conv_anchor index_list slice_list linear_index_isize safe_index cyclic_index
  stream_index stream_slice sliced_elems set_index_list remove_index_list remove_slice_list.
