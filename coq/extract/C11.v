From Coq Require Import ZArith List.
From NV Require Import Common.Outcome Common.Conv Seq.Index Seq.Streams.
Require Extraction.
Require Import ExtrOcamlBasic.
Extraction "model.ml" conv_anchor unfold drop_prefix default_len
  range_step range_len til to iota
  wvec_step wvec_len stream_of_list pick
  perm_step perm_len perm_init comb_step comb_init
  sub_step sub_len sub_init mask_select cart_step cart_len cart_init
  repeat_step repeat_index cycle_step cycle_index cycle_reversed cycle_init iterate_step infinite_len
  map_step filter_step zip_step
  force obs_len obs_truthy obs_index obs_slice obs_reverse obs_last obs_in obs_unpack sliced_elems
  handle_run zipf_step repeat_slice emap_step efilter_loop collect.
