From Coq Require Import ZArith QArith List.
From NV Require Import Common.Outcome Common.Conv Num.Tower.
Require Extraction.
Require Import ExtrOcamlBasic.
Extraction "model.ml" conv_anchor builtin2 builtin2_original builtin1 builtin_conv builtin_conv_original.
