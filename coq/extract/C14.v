From Coq Require Import ZArith List.
From NV Require Import Common.Outcome Common.Conv Lang.Contain.
Require Extraction.
Require Import ExtrOcamlBasic.
Extraction "model.ml" conv_anchor exec_std upd empty_store names.
