From Coq Require Import ZArith List.
From NV Require Import Common.Outcome Common.Conv Lang.Contain Lang.HugeCount.
Require Extraction.
Require Import ExtrOcamlBasic.
Extraction "model.ml" conv_anchor exec_std upd empty_store names vec_alloc clamp_count.
