From Coq Require Import ZArith List.
From NV Require Import Common.Conv Chain.ChainEval Chain.Climb.
Require Extraction.
Require Import ExtrOcamlBasic.
Extraction "model.ml" conv_anchor eval_chain eval_chain_fast run_section climb_spec tighter_rank.
