From Coq Require Import ZArith List.
From NV Require Import Common.Conv Rc.ValueSem.
Require Extraction.
Require Import ExtrOcamlBasic.
Extraction "model.ml" conv_anchor run_value exec final_value.
