From Coq Require Import ZArith NArith QArith List.
From NV Require Import Common.Outcome Common.Conv Dict.KeyEq Dict.KeyHash Dict.DictMap.
Require Extraction.
Require Import ExtrOcamlBasic.
Extraction "model.ml" conv_anchor key_eq key_eq_hm key_hash_real hm_slot step run zadd zeq from_pairs
  uniqued set_of set_dict dict_keys dict_values count_distinct frequencies classify group_all memo_calls
  bfind bset bremove bentries.
