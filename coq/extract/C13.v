From Coq Require Import ZArith NArith List.
From NV Require Import Common.Conv Seq.SeqLib Seq.SeqVal.
Require Extraction.
Require Import ExtrOcamlBasic.
Extraction "model.ml" conv_anchor run.
