From Coq Require Import ZArith List.
From NV Require Import Common.Conv Rc.ValueSem Rc.Heap Rc.Cow.
Require Extraction.
Require Import ExtrOcamlBasic.
Extraction "model.ml" conv_anchor run_cow init_state run_value abs_val.
