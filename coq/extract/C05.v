From Coq Require Import ZArith List String.
From NV Require Import Common.Conv Lang.Syntax Lang.Eval.
Require Extraction.
Require Import ExtrOcamlBasic.
(* Coq strings (variable names, string values) become OCaml strings: the shared ocaml/conv.ml
   uses OCaml's own `string` type after `open Model`, so Model must not define a type of that name. *)
Require Import ExtrOcamlNativeString.
Extraction "model.ml" conv_anchor run eval init_state.
