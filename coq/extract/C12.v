From Coq Require Import ZArith List.
From NV Require Import Common.Outcome Common.Conv Lang.Types Lang.Pattern Lang.SatStd Lang.Store Lang.Convert.
Require Extraction.
Require Import ExtrOcamlBasic.
Extraction "model.ml" conv_anchor type_of is_type is_type_old is_builtin to_type veq truthy elements
  assign assign_top switch catch_bind call_bind lookup pat_size sat_std destructure run_stmt run_hist binop_std convert fields_std.
