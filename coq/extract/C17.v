From Coq Require Import ZArith List String.
From NV Require Import Common.Outcome Common.Conv Lang.FreezeLang Lang.Freeze.
Require Extraction.
Require Import ExtrOcamlBasic.
(* Coq strings (names, string values) become OCaml strings: the shared ocaml/conv.ml uses OCaml's own
   `string` type after `open Model`, so Model must not define a type of that name. *)
Require Import ExtrOcamlNativeString.
Extraction "model.ml" conv_anchor eval eval_freeze freeze look_in apply init_state push_frame
  lookup assign declare noprot.
