From Coq Require Import ZArith NArith QArith List.
From NV Require Import Common.Outcome Common.Conv Text.CodecChars Text.IntText Text.Radix Text.Decimal
  Text.Hex Text.Utf8 Text.IntFmt.
Require Extraction.
Require Import ExtrOcamlBasic.
Extraction "model.ml" conv_anchor str_radix int_radix show_int int_of_str number_of_str parse_i32
  parse_decimal_exactly parse_rational_exactly hex_encode hex_decode utf8_encode utf8_decode chr ord
  fmt_nint fmt_i64 fmt_bigint pad_str nint_of_bigint is_scalar.
