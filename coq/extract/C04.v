From Coq Require Import ZArith List.
From NV Require Import Common.Outcome Common.Conv Dispatch.Apply.
Require Extraction.
Require Import ExtrOcamlBasic.
Extraction "model.ml" conv_anchor eval op_assign op_assign_store var_get var_set run run1 run2 call_or_part_apply.
