(* Extraction for the C06 model runner. The m_* aliases give every extracted function a name that
   cannot collide with the standard library's (add, sub, abs, ... would be renamed add0, ...). *)
From Coq Require Import ZArith List.
From NV Require Import Common.Outcome Common.Conv Num.NInt.
Require Extraction.
Require Import ExtrOcamlBasic.
Definition m_val := val.
Definition m_add := add.
Definition m_sub := sub.
Definition m_mul := mul.
Definition m_div := div.
Definition m_rem := rem.
Definition m_bitand := bitand.
Definition m_bitor := bitor.
Definition m_bitxor := bitxor.
Definition m_neg := neg.
Definition m_not := not.
Definition m_eqb := eqb.
Definition m_cmp := cmp.
Definition m_ltb := ltb.
Definition m_gtb := gtb.
Definition m_leb := leb.
Definition m_geb := geb.
Definition m_hash := hash.
Definition m_div_floor := div_floor.
Definition m_mod_floor := mod_floor.
Definition m_abs := abs.
Definition m_sign_of := sign_of.
Definition m_pow := pow.
Definition m_pow_maybe_recip := pow_maybe_recip.
Definition m_signum := signum.
Definition m_gcd := gcd.
Definition m_lcm := lcm.
Definition m_sqrt := sqrt.
Definition m_lte := lte.
Definition m_shl := shl.
Definition m_shr := shr.
Definition m_to_i64 := to_i64.
Definition m_to_usize := to_usize.
Definition m_is_zero := is_zero.
Definition m_is_positive := is_positive.
Definition m_is_negative := is_negative.
Definition m_of_big := of_big.
Definition m_lazy_is_prime := lazy_is_prime.
Definition m_lazy_factorize := lazy_factorize.
Definition m_bi_add := bi_add.
Definition m_bi_sub := bi_sub.
Definition m_bi_mul := bi_mul.
Definition m_bi_rem := bi_rem.
Definition m_bi_div_floor := bi_div_floor.
Definition m_bi_mod_floor := bi_mod_floor.
Definition m_bi_div_exact := bi_div_exact.
Definition m_bi_pow := bi_pow.
Definition m_bi_and := bi_and.
Definition m_bi_or := bi_or.
Definition m_bi_xor := bi_xor.
Definition m_bi_shl := bi_shl.
Definition m_bi_shr := bi_shr.
Definition m_bi_gcd := bi_gcd.
Definition m_bi_lcm := bi_lcm.
Definition m_bi_neg := bi_neg.
Definition m_bi_not := bi_not.
Definition m_bi_abs := bi_abs.
Definition m_bi_signum := bi_signum.
Definition m_bi_even := bi_even.
Definition m_bi_odd := bi_odd.
Definition m_bi_is_prime := bi_is_prime.
Extraction "model.ml" conv_anchor m_val m_add m_sub m_mul m_div m_rem m_bitand m_bitor m_bitxor m_neg m_not m_eqb m_cmp m_ltb m_gtb m_leb m_geb m_hash m_div_floor m_mod_floor m_abs m_sign_of m_pow m_pow_maybe_recip m_signum m_gcd m_lcm m_sqrt m_lte m_shl m_shr m_to_i64 m_to_usize m_is_zero m_is_positive m_is_negative m_of_big m_lazy_is_prime m_lazy_factorize m_bi_add m_bi_sub m_bi_mul m_bi_rem m_bi_div_floor m_bi_mod_floor m_bi_div_exact m_bi_pow m_bi_and m_bi_or m_bi_xor m_bi_shl m_bi_shr m_bi_gcd m_bi_lcm m_bi_neg m_bi_not m_bi_abs m_bi_signum m_bi_even m_bi_odd m_bi_is_prime.
