From Coq Require Import ZArith NArith QArith List.
From NV Require Import Common.Outcome Common.Conv Num.FloatBits Num.Cmp.
Require Extraction.
Require Import ExtrOcamlBasic.
Extraction "model.ml" conv_anchor decode accept chain_run spaceship rev_spaceship
  extremum_position sort_positions sort_on_positions builtin_sort obj_partial_cmp obj_eq
  nnum_min nnum_max nnum_total_eq nnum_partial_cmp nnum_eq.
