From Coq Require Import ZArith List Bool Lia.
From NV Require Import Common.Outcome Lang.HugeCount.
Import ListNotations.
Open Scope Z_scope.

(* outside the known class, with room for 2^31 elements, replication never panics ... *)
Lemma dot_star_no_panic_unless_known : forall (A : Type) (sz avail : Z) (x : A) (n : Z),
  0 < sz -> 2 ^ 31 * sz <= avail -> avail <= isize_max -> ~ Known n ->
  dot_star sz avail x n <> Panic.
Proof.
  intros A sz avail x n Hsz Hav Hmax Hk. unfold Known in Hk. unfold dot_star, clamp_count.
  destruct (Z.ltb_spec n 0).
  - cbn [bind]. unfold vec_alloc. cbn [Z.mul].
    destruct (Z.gtb_spec 0 isize_max); [unfold isize_max in *; lia|].
    destruct (Z.gtb_spec 0 avail); [lia|]. discriminate.
  - destruct (Z.leb_spec n usize_max); cbn [bind]; [|discriminate].
    unfold vec_alloc.
    assert (n * sz <= avail) by nia.
    destruct (Z.gtb_spec (n * sz) isize_max); [lia|].
    destruct (Z.gtb_spec (n * sz) avail); [lia|]. discriminate.
Qed.

(* ... and a count of the bounded stratum (|n| <= 2^16) needs only 2^16 elements of room *)
Lemma dot_star_bounded_ok : forall (A : Type) (sz avail : Z) (x : A) (n : Z),
  0 < sz -> 2 ^ 16 * sz <= avail -> avail <= isize_max -> n <= 2 ^ 16 ->
  exists l, dot_star sz avail x n = Ok l /\ Z.of_nat (length l) = Z.max 0 n.
Proof.
  intros A sz avail x n Hsz Hav Hmax Hn. unfold dot_star, clamp_count.
  destruct (Z.ltb_spec n 0).
  - cbn [bind]. unfold vec_alloc. cbn [Z.mul].
    destruct (Z.gtb_spec 0 isize_max); [unfold isize_max in *; lia|].
    destruct (Z.gtb_spec 0 avail); [lia|].
    eexists. split; [reflexivity|]. rewrite repeat_length. cbn. lia.
  - assert (n <= usize_max) by (unfold usize_max; lia).
    destruct (Z.leb_spec n usize_max); [|lia]. cbn [bind]. unfold vec_alloc.
    assert (n * sz <= avail) by nia.
    destruct (Z.gtb_spec (n * sz) isize_max); [lia|].
    destruct (Z.gtb_spec (n * sz) avail); [lia|].
    eexists. split; [reflexivity|]. rewrite repeat_length. lia.
Qed.

(* the full statement "replication never panics" is false: the known class *)
Lemma dot_star_refuted : forall (A : Type) (sz : Z) (x : A), 2 <= sz ->
  exists n, Known n /\ forall avail, dot_star sz avail x n = Panic.
Proof.
  intros A sz x Hsz. exists (2 ^ 63 - 1). split; [unfold Known; lia|].
  intros avail. unfold dot_star, clamp_count.
  destruct (Z.ltb_spec (2 ^ 63 - 1) 0); [lia|].
  destruct (Z.leb_spec (2 ^ 63 - 1) usize_max); [|unfold usize_max in *; lia].
  cbn [bind]. unfold vec_alloc.
  destruct (Z.gtb_spec ((2 ^ 63 - 1) * sz) isize_max); [reflexivity|unfold isize_max in *; nia].
Qed.

(* and with less memory than the count needs, the smallest member of the class already aborts *)
Lemma dot_star_refuted_by_allocation : forall (A : Type) (sz avail : Z) (x : A),
  0 < sz -> avail < 2 ^ 31 * sz -> dot_star sz avail x (2 ^ 31) = Panic.
Proof.
  intros A sz avail x Hsz Hav. unfold dot_star, clamp_count.
  destruct (Z.ltb_spec (2 ^ 31) 0); [lia|].
  destruct (Z.leb_spec (2 ^ 31) usize_max); [|unfold usize_max in *; lia].
  cbn [bind]. unfold vec_alloc.
  destruct (Z.gtb_spec (2 ^ 31 * sz) isize_max); [reflexivity|].
  destruct (Z.gtb_spec (2 ^ 31 * sz) avail); [reflexivity|lia].
Qed.
