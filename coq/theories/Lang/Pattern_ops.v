(* C12: the operator patterns, continued: comparison chains match iff every link holds; `n + k`
   and `k * n` invert on every exact number (integers and rationals); `.+` / `+.` invert on
   vectors and bytes, and take strings apart by character. *)
From Coq Require Import ZArith NArith List Bool Lia PeanoNat.
From NV Require Import Common.Outcome Lang.Types Lang.Pattern Lang.PatternSpec Lang.Pattern_inverts.
Import ListNotations.
Open Scope Z_scope.

Lemma cmp_chain_true_iff : forall ops args, cmp_chain ops args = Ok true <-> links_hold ops args.
Proof.
  induction ops as [|op ops IH]; intros args; cbn [cmp_chain links_hold]; [tauto|].
  destruct args as [|a [|b rest]]; try tauto.
  destruct (cmp_accept op a b) as [[|]|c| |]; cbn [bind].
  - split; [intros H; split; [reflexivity|apply IH; exact H]|intros [_ H]; apply IH; exact H].
  - split; [discriminate|intros [H _]; discriminate H].
  - split; [discriminate|intros [H _]; discriminate H].
  - split; [discriminate|intros [H _]; discriminate H].
  - split; [discriminate|intros [H _]; discriminate H].
Qed.

Lemma fill_slots_spec : forall known rv ret,
  fill_slots known rv = Ok ret <-> lits_agree known ret /\ slot_values known ret = rv.
Proof.
  induction known as [|[l|] k IH]; intros rv ret; cbn [fill_slots].
  - destruct rv; destruct ret; cbn; split; intros H; try discriminate H;
      try (destruct H as [H1 H2]; try contradiction; try discriminate H2); auto.
  - destruct (fill_slots k rv) as [r| | |] eqn:E; cbn [bind].
    + split.
      * intros [= <-]. cbn. apply IH in E. tauto.
      * destruct ret as [|v r']; cbn; [tauto|]. intros [[-> H1] H2].
        assert (E' : fill_slots k rv = Ok r') by (apply IH; auto). congruence.
    + split; [discriminate|]. destruct ret as [|v r']; cbn; [tauto|]. intros [[-> H1] H2].
      assert (E' : fill_slots k rv = Ok r') by (apply IH; auto). congruence.
    + split; [discriminate|]. destruct ret as [|v r']; cbn; [tauto|]. intros [[-> H1] H2].
      assert (E' : fill_slots k rv = Ok r') by (apply IH; auto). congruence.
    + split; [discriminate|]. destruct ret as [|v r']; cbn; [tauto|]. intros [[-> H1] H2].
      assert (E' : fill_slots k rv = Ok r') by (apply IH; auto). congruence.
  - destruct rv as [|v rv].
    + split; [discriminate|]. destruct ret as [|w r']; cbn; [tauto|]. intros [_ H]. discriminate.
    + destruct (fill_slots k rv) as [r| | |] eqn:E; cbn [bind].
      * split.
        -- intros [= <-]. cbn. apply IH in E. destruct E as [E1 E2]. split; [exact E1|]. f_equal. exact E2.
        -- destruct ret as [|w r']; cbn; [tauto|]. intros [H1 H2]. injection H2 as -> H2.
           assert (E' : fill_slots k rv = Ok r') by (apply IH; auto). congruence.
      * split; [discriminate|]. destruct ret as [|w r']; cbn; [tauto|]. intros [H1 H2]. injection H2 as -> H2.
        assert (E' : fill_slots k rv = Ok r') by (apply IH; auto). congruence.
      * split; [discriminate|]. destruct ret as [|w r']; cbn; [tauto|]. intros [H1 H2]. injection H2 as -> H2.
        assert (E' : fill_slots k rv = Ok r') by (apply IH; auto). congruence.
      * split; [discriminate|]. destruct ret as [|w r']; cbn; [tauto|]. intros [H1 H2]. injection H2 as -> H2.
        assert (E' : fill_slots k rv = Ok r') by (apply IH; auto). congruence.
Qed.

Section Cmp.
  Variable inexact : iop -> num -> num -> num.

  (* a comparison pattern (`1 < x < 9`, `a <= b`, ...) matches iff the arity fits, there is a slot,
     the value(s) fill exactly the non-literal positions and EVERY link of the chain accepts; the
     result is the full operand list (literals kept, slots filled) *)
  Theorem cmp_pattern_iff : forall op chained v known ret,
    destructure inexact (BCmp op chained) v known = Ok ret <->
    (length chained + 2 = length known)%nat /\ nslots known <> 0%nat /\
    (exists rv, (if Nat.eqb (nslots known) 1 then rv = [v] else elements v = Some rv) /\
                lits_agree known ret /\ slot_values known ret = rv) /\
    links_hold (op :: chained) ret.
  Proof.
    intros op chained v known ret. cbn [destructure]. fold (nslots known).
    destruct (Nat.eqb_spec (length chained + 2) (length known)) as [Hl|Hl]; cbn [negb].
    2:{ split; [discriminate|]. intros [H _]. contradiction. }
    destruct (Nat.eqb_spec (nslots known) 0) as [H0|H0].
    { split; [discriminate|]. intros (_ & H & _). contradiction. }
    split.
    - intros H. split; [exact Hl|]. split; [exact H0|].
      destruct (Nat.eqb (nslots known) 1) eqn:E1.
      + cbn [bind] in H. destruct (fill_slots known [v]) as [r| | |] eqn:Ef; cbn [bind] in H; try discriminate.
        destruct (cmp_chain (op :: chained) r) as [[|]| | |] eqn:Ec; cbn [bind] in H; try discriminate.
        injection H as <-. split; [|apply cmp_chain_true_iff; exact Ec].
        exists [v]. split; [reflexivity|]. apply fill_slots_spec. exact Ef.
      + destruct (elements v) as [es|] eqn:Ee; cbn [bind] in H; [|discriminate].
        destruct (fill_slots known es) as [r| | |] eqn:Ef; cbn [bind] in H; try discriminate.
        destruct (cmp_chain (op :: chained) r) as [[|]| | |] eqn:Ec; cbn [bind] in H; try discriminate.
        injection H as <-. split; [|apply cmp_chain_true_iff; exact Ec].
        exists es. split; [reflexivity|]. apply fill_slots_spec. exact Ef.
    - intros (_ & _ & (rv & Hrv & Hf) & Hlinks). apply fill_slots_spec in Hf.
      apply cmp_chain_true_iff in Hlinks.
      destruct (Nat.eqb (nslots known) 1).
      + subst rv. cbn [bind]. rewrite Hf. cbn [bind]. rewrite Hlinks. reflexivity.
      + rewrite Hrv. cbn [bind]. rewrite Hf. cbn [bind]. rewrite Hlinks. reflexivity.
  Qed.

  Lemma num_cmp_int : forall a b, num_cmp (NInt a) (NInt b) = Some (a ?= b).
  Proof. intros. unfold num_cmp. cbn. rewrite !Z.mul_1_r. destruct (a ?= b); reflexivity. Qed.

  (* the README's `1 < x < 9` on integers: matches exactly the integers strictly between *)
  Theorem cmp_between_int : forall a z b,
    destructure inexact (BCmp CLt [CLt]) (vint z) [Some (vint a); None; Some (vint b)] =
    if (a <? z) && (z <? b) then Ok [vint a; vint z; vint b] else Err EValue.
  Proof.
    intros a z b. cbn -[Z.compare Z.ltb num_cmp]. rewrite !num_cmp_int. cbn -[Z.compare Z.ltb num_cmp].
    rewrite (Z.ltb_compare a z), (Z.ltb_compare z b).
    destruct (a ?= z); cbn -[Z.compare Z.ltb num_cmp]; try reflexivity. destruct (z ?= b); reflexivity.
  Qed.
End Cmp.

(* ------------------------------------------------------------------ .+ / +. on vectors, bytes, strings *)
Lemma prepend_inverts_vec : forall l h t, uncons (VVec l) = Ok (Some (h, t)) -> prepend h t = Ok (VVec l).
Proof. intros [|x l] h t H; cbn in H; [discriminate|]. injection H as <- <-. reflexivity. Qed.
Lemma append_inverts_vec : forall l i x, unsnoc (VVec l) = Ok (Some (i, x)) -> append i x = Ok (VVec l).
Proof.
  intros l i x H. cbn [unsnoc] in H. destruct (rev l) as [|y r] eqn:E; [discriminate|].
  injection H as <- <-. cbn [append]. f_equal. f_equal.
  rewrite <- (rev_involutive l), E. cbn [rev]. reflexivity.
Qed.
Lemma prepend_inverts_bytes : forall l h t, bytes_ok l ->
  uncons (VBytes l) = Ok (Some (h, t)) -> prepend h t = Ok (VBytes l).
Proof.
  intros [|b l] h t Hb H; cbn in H; [discriminate|]. injection H as <- <-.
  inversion Hb as [|? ? Hlt _]; subst. cbn [prepend vint].
  destruct (Z.leb_spec 0 (Z.of_N b)); [|lia]. destruct (Z.ltb_spec (Z.of_N b) 256); [|lia].
  cbn [andb]. rewrite N2Z.id. reflexivity.
Qed.
Lemma append_inverts_bytes : forall l i x, bytes_ok l ->
  unsnoc (VBytes l) = Ok (Some (i, x)) -> append i x = Ok (VBytes l).
Proof.
  intros l i x Hb H. cbn [unsnoc] in H. destruct (rev l) as [|b r] eqn:E; [discriminate|].
  injection H as <- <-.
  assert (Hin : In b l) by (apply in_rev; rewrite E; left; reflexivity).
  unfold bytes_ok in Hb. rewrite Forall_forall in Hb. specialize (Hb b Hin).
  cbn [append vint]. destruct (Z.leb_spec 0 (Z.of_N b)); [|lia]. destruct (Z.ltb_spec (Z.of_N b) 256); [|lia].
  cbn [andb]. rewrite N2Z.id. f_equal. f_equal.
  rewrite <- (rev_involutive l), E. cbn [rev]. reflexivity.
Qed.
(* strings come apart by CHARACTER (the operators `.+` / `+.` themselves raise on strings, so
   the inverse is stated on the characters) *)
Lemma uncons_string : forall s h t, uncons (VStr s) = Ok (Some (h, t)) ->
  exists c r, h = VStr [c] /\ t = VStr r /\ s = c :: r.
Proof. intros [|c r] h t H; cbn in H; [discriminate|]. injection H as <- <-. eauto. Qed.
Lemma unsnoc_string : forall s i x, unsnoc (VStr s) = Ok (Some (i, x)) ->
  exists c r, i = VStr r /\ x = VStr [c] /\ s = r ++ [c].
Proof.
  intros s i x H. cbn [unsnoc] in H. destruct (rev s) as [|c r] eqn:E; [discriminate|].
  injection H as <- <-. exists c, (rev r). repeat split.
  rewrite <- (rev_involutive s), E. reflexivity.
Qed.

(* ------------------------------------------------------------------ n + k on all exact numbers *)
Section Exact.
  Variable inexact : iop -> num -> num -> num.

  Lemma to_q_reals : forall x n d, to_q x = Some (n, d) -> reals x = (XQ n d, XQ 0 1).
  Proof. intros x n d H. destruct x; try discriminate; injection H as <- <-; reflexivity. Qed.
  Lemma num_eq_q : forall x y n1 d1 n2 d2, to_q x = Some (n1, d1) -> to_q y = Some (n2, d2) ->
    (num_eq x y = true <-> n1 * Zpos d2 = n2 * Zpos d1).
  Proof.
    intros x y n1 d1 n2 d2 Hx Hy. unfold num_eq. rewrite (to_q_reals _ _ _ Hx), (to_q_reals _ _ _ Hy).
    unfold xeq, xcmp. cbn [Z.mul Z.compare andb].
    destruct (Z.compare_spec (n1 * Zpos d2) (n2 * Zpos d1)); cbn [andb]; split; intros; try lia; try discriminate; reflexivity.
  Qed.
  Lemma rat_norm_q : forall n d, 0 < d -> exists p q, rat_norm n d = NRat p q /\ p * d = n * Zpos q.
  Proof.
    intros n d Hd. destruct (rat_norm n d) as [|p q| |] eqn:E; try (unfold rat_norm in E; discriminate).
    exists p, q. split; [reflexivity|]. eapply rat_norm_val; eauto.
  Qed.
  Lemma num_sub_q : forall x y n1 d1 n2 d2, to_q x = Some (n1, d1) -> to_q y = Some (n2, d2) ->
    exists p q, to_q (num_sub inexact x y) = Some (p, q) /\
                p * (Zpos d1 * Zpos d2) = (n1 * Zpos d2 - n2 * Zpos d1) * Zpos q.
  Proof.
    intros x y n1 d1 n2 d2 Hx Hy.
    assert (Hgen : exists p q, to_q (rat_norm (n1 * Zpos d2 - n2 * Zpos d1) (Zpos d1 * Zpos d2)) = Some (p, q) /\
                     p * (Zpos d1 * Zpos d2) = (n1 * Zpos d2 - n2 * Zpos d1) * Zpos q).
    { destruct (rat_norm_q (n1 * Zpos d2 - n2 * Zpos d1) (Zpos d1 * Zpos d2) ltac:(lia)) as (p & q & -> & H).
      exists p, q. split; [reflexivity|exact H]. }
    destruct x; try discriminate Hx; destruct y; try discriminate Hy; cbn [to_q] in Hx, Hy;
      injection Hx as <- <-; injection Hy as <- <-; cbn [num_sub to_q]; try exact Hgen.
    do 2 eexists. split; [reflexivity|]. ring.
  Qed.
  Lemma num_add_q : forall x y n1 d1 n2 d2, to_q x = Some (n1, d1) -> to_q y = Some (n2, d2) ->
    exists p q, to_q (num_add inexact x y) = Some (p, q) /\
                p * (Zpos d1 * Zpos d2) = (n1 * Zpos d2 + n2 * Zpos d1) * Zpos q.
  Proof.
    intros x y n1 d1 n2 d2 Hx Hy.
    assert (Hgen : exists p q, to_q (rat_norm (n1 * Zpos d2 + n2 * Zpos d1) (Zpos d1 * Zpos d2)) = Some (p, q) /\
                     p * (Zpos d1 * Zpos d2) = (n1 * Zpos d2 + n2 * Zpos d1) * Zpos q).
    { destruct (rat_norm_q (n1 * Zpos d2 + n2 * Zpos d1) (Zpos d1 * Zpos d2) ltac:(lia)) as (p & q & -> & H).
      exists p, q. split; [reflexivity|exact H]. }
    destruct x; try discriminate Hx; destruct y; try discriminate Hy; cbn [to_q] in Hx, Hy;
      injection Hx as <- <-; injection Hy as <- <-; cbn [num_add to_q]; try exact Hgen.
    do 2 eexists. split; [reflexivity|]. ring.
  Qed.

  (* `n + k` against any exact number (integer or rational, k integer or rational): the part bound
     to n is not negative and k + n == the matched number *)
  Theorem plus_inverts_exact : forall r a d, is_exact r = true -> is_exact a = true ->
    plus_inv inexact r a = Ok d ->
    is_exact d = true /\ num_ge0 d = true /\
    num_eq (num_add inexact a d) r = true /\ num_eq (num_add inexact d a) r = true.
  Proof.
    intros r a d Hr Ha H. unfold plus_inv in H.
    destruct (num_ge0 (num_sub inexact r a)) eqn:Eg; [|discriminate]. injection H as <-.
    assert (Hqr : exists n1 d1, to_q r = Some (n1, d1)) by (destruct r; try discriminate Hr; cbn; eauto).
    assert (Hqa : exists n2 d2, to_q a = Some (n2, d2)) by (destruct a; try discriminate Ha; cbn; eauto).
    destruct Hqr as (n1 & d1 & Hqr). destruct Hqa as (n2 & d2 & Hqa).
    destruct (num_sub_q r a _ _ _ _ Hqr Hqa) as (p & q & Hqd & H1).
    split; [destruct (num_sub inexact r a); try discriminate Hqd; reflexivity|]. split; [exact Eg|].
    split.
    - destruct (num_add_q a (num_sub inexact r a) _ _ _ _ Hqa Hqd) as (p' & q' & Hqs & H2).
      apply (num_eq_q _ _ _ _ _ _ Hqs Hqr).
      apply Z.mul_reg_r with (p := Zpos d2 * Zpos q); [lia|].
      replace (p' * Zpos d1 * (Zpos d2 * Zpos q)) with (p' * (Zpos d2 * Zpos q) * Zpos d1) by ring.
      rewrite H2.
      replace ((n2 * Zpos q + p * Zpos d2) * Zpos q' * Zpos d1)
        with (n2 * Zpos q * Zpos q' * Zpos d1 + (p * (Zpos d1 * Zpos d2)) * Zpos q') by ring.
      rewrite H1. ring.
    - destruct (num_add_q (num_sub inexact r a) a _ _ _ _ Hqd Hqa) as (p' & q' & Hqs & H2).
      apply (num_eq_q _ _ _ _ _ _ Hqs Hqr).
      apply Z.mul_reg_r with (p := Zpos q * Zpos d2); [lia|].
      replace (p' * Zpos d1 * (Zpos q * Zpos d2)) with (p' * (Zpos q * Zpos d2) * Zpos d1) by ring.
      rewrite H2.
      replace ((p * Zpos d2 + n2 * Zpos q) * Zpos q' * Zpos d1)
        with (n2 * Zpos q * Zpos q' * Zpos d1 + (p * (Zpos d1 * Zpos d2)) * Zpos q') by ring.
      rewrite H1. ring.
  Qed.

  Lemma num_mul_q : forall x y n1 d1 n2 d2, to_q x = Some (n1, d1) -> to_q y = Some (n2, d2) ->
    exists p q, to_q (num_mul inexact x y) = Some (p, q) /\
                p * (Zpos d1 * Zpos d2) = (n1 * n2) * Zpos q.
  Proof.
    intros x y n1 d1 n2 d2 Hx Hy.
    assert (Hgen : exists p q, to_q (rat_norm (n1 * n2) (Zpos d1 * Zpos d2)) = Some (p, q) /\
                     p * (Zpos d1 * Zpos d2) = (n1 * n2) * Zpos q).
    { destruct (rat_norm_q (n1 * n2) (Zpos d1 * Zpos d2) ltac:(lia)) as (p & q & -> & H).
      exists p, q. split; [reflexivity|exact H]. }
    destruct x; try discriminate Hx; destruct y; try discriminate Hy; cbn [to_q] in Hx, Hy;
      injection Hx as <- <-; injection Hy as <- <-; cbn [num_mul to_q]; try exact Hgen.
    do 2 eexists. split; [reflexivity|]. ring.
  Qed.

  (* `k * n` against any exact number: k * n == the matched number *)
  Theorem times_inverts_exact : forall r a k, is_exact r = true -> is_exact a = true ->
    times_inv inexact r a = Ok k ->
    is_exact k = true /\ num_eq (num_mul inexact a k) r = true /\ num_eq (num_mul inexact k a) r = true.
  Proof.
    intros r a k Hr Ha H.
    assert (Hqr : exists n1 d1, to_q r = Some (n1, d1)) by (destruct r; try discriminate Hr; cbn; eauto).
    assert (Hqa : exists n2 d2, to_q a = Some (n2, d2)) by (destruct a; try discriminate Ha; cbn; eauto).
    destruct Hqr as (n1 & d1 & Hqr). destruct Hqa as (n2 & d2 & Hqa).
    (* in every case k is exact, with value m such that n1 * d2 = (d1 * n2) * m *)
    assert (Hk : exists m dk, to_q k = Some (m, dk) /\ n1 * Zpos d2 * Zpos dk = Zpos d1 * n2 * m).
    { destruct r as [x|rn rd| |]; try discriminate Hr; destruct a as [y|an ad| |]; try discriminate Ha;
        cbn [to_q] in Hqr, Hqa; injection Hqr as <- <-; injection Hqa as <- <-; cbn [times_inv to_q] in H.
      - destruct (Z.eqb_spec y 0); [discriminate|].
        destruct (Z.eqb_spec (Z.rem x y) 0) as [e|]; [|discriminate]. cbn [negb] in H. injection H as <-.
        exists (x / y), 1%positive. split; [reflexivity|].
        apply Z.rem_divide in e; [|assumption]. destruct e as [c ->]. rewrite Z.div_mul by assumption. ring.
      - destruct (Z.eqb_spec an 0); [discriminate|].
        destruct (Z.eqb_spec ((x * Zpos ad) mod (1 * an)) 0) as [e|]; [|discriminate]. cbn [negb] in H. injection H as <-.
        exists (x * Zpos ad / (1 * an)), 1%positive. split; [reflexivity|].
        apply Z.mod_divide in e; [|lia]. destruct e as [c Hc]. rewrite Hc. rewrite Z.div_mul by lia. ring.
      - destruct (Z.eqb_spec y 0); [discriminate|].
        destruct (Z.eqb_spec ((rn * 1) mod (Zpos rd * y)) 0) as [e|]; [|discriminate]. cbn [negb] in H. injection H as <-.
        exists (rn * 1 / (Zpos rd * y)), 1%positive. split; [reflexivity|].
        apply Z.mod_divide in e; [|lia]. destruct e as [c Hc]. rewrite Hc. rewrite Z.div_mul by lia. ring.
      - destruct (Z.eqb_spec an 0); [discriminate|].
        destruct (Z.eqb_spec ((rn * Zpos ad) mod (Zpos rd * an)) 0) as [e|]; [|discriminate]. cbn [negb] in H. injection H as <-.
        exists (rn * Zpos ad / (Zpos rd * an)), 1%positive. split; [reflexivity|].
        apply Z.mod_divide in e; [|lia]. destruct e as [c Hc]. rewrite Hc. rewrite Z.div_mul by lia. ring. }
    destruct Hk as (m & dk & Hqk & Hm).
    split; [destruct k; try discriminate Hqk; reflexivity|]. split.
    - destruct (num_mul_q a k _ _ _ _ Hqa Hqk) as (p' & q' & Hqs & H2).
      apply (num_eq_q _ _ _ _ _ _ Hqs Hqr).
      apply Z.mul_reg_r with (p := Zpos d2 * Zpos dk); [lia|].
      replace (p' * Zpos d1 * (Zpos d2 * Zpos dk)) with (p' * (Zpos d2 * Zpos dk) * Zpos d1) by ring.
      rewrite H2. replace (n2 * m * Zpos q' * Zpos d1) with (Zpos d1 * n2 * m * Zpos q') by ring.
      rewrite <- Hm. ring.
    - destruct (num_mul_q k a _ _ _ _ Hqk Hqa) as (p' & q' & Hqs & H2).
      apply (num_eq_q _ _ _ _ _ _ Hqs Hqr).
      apply Z.mul_reg_r with (p := Zpos dk * Zpos d2); [lia|].
      replace (p' * Zpos d1 * (Zpos dk * Zpos d2)) with (p' * (Zpos dk * Zpos d2) * Zpos d1) by ring.
      rewrite H2. replace (m * n2 * Zpos q' * Zpos d1) with (Zpos d1 * n2 * m * Zpos q') by ring.
      rewrite <- Hm. ring.
  Qed.
End Exact.
