(* Lang/FreezeDbc_proofs.v - the output of `freeze` on an expression that satisfies the static
   hypothesis dbc is freeze-related (fzr) to the expression, with P any set containing the names
   freeze resolves in it. *)
From Coq Require Import ZArith String List Bool.
From NV Require Import Common.Outcome Lang.FreezeLang Lang.Freeze Lang.FreezeSpec Lang.Freeze_proofs
  Lang.FreezeRel Lang.FreezeDbc.
Import ListNotations.
Open Scope string_scope.
Open Scope list_scope.

Lemma rn_seq : forall B es, rn B (ESeq es) = rnL B es.
Proof. reflexivity. Qed.
Lemma rn_list : forall B es, rn B (EList es) = rnL B es.
Proof. reflexivity. Qed.
Lemma rn_call : forall B f args, rn B (ECall f args) = rn B f ++ rnL (bnd B f) args.
Proof. reflexivity. Qed.
Lemma rn_chain : forall B a ops, rn B (EChain a ops) = rn B a ++ rnOps (bnd B a) ops.
Proof. reflexivity. Qed.
Lemma rn_for : forall B x e1 cls y body,
  rn B (EFor x e1 cls y body) = rn B e1 ++ rnC body (x :: bnd B e1) cls.
Proof. reflexivity. Qed.
Lemma rn_switch : forall B e1 arms, rn B (ESwitch e1 arms) = rn B e1 ++ rnArms (bnd B e1) arms.
Proof. reflexivity. Qed.

Lemma rnC_nil : forall body B, rnC body B [] = rn B body.
Proof. reflexivity. Qed.
Lemma rnC_cons : forall body B k z e2 r,
  rnC body B ((k, z, e2) :: r) = rn B e2 ++ rnC body (match k with KGuard => bnd B e2 | _ => z :: bnd B e2 end) r.
Proof. reflexivity. Qed.
Lemma rnArms_cons : forall B p b r, rnArms B ((p, b) :: r) = rn (pat_names p ++ B) b ++ rnArms B r.
Proof. reflexivity. Qed.

Section Static.
  Variable look : name -> option val.
  Variable mutl : list name.
  Notation dbc := (dbc mutl).
  Notation dbcL := (dbcL mutl).
  Notation dbcOps := (dbcOps mutl).
  Notation dbcC := (dbcC mutl).
  Notation dbcArms := (dbcArms mutl).
  Notation fzr := (fzr look mutl).
  Notation fzrL := (fzrL look mutl).
  Notation fzrOps := (fzrOps look mutl).
  Notation fzrC := (fzrC look mutl).
  Notation fzrArms := (fzrArms look mutl).
  Notation freeze := (freeze look).

  Definition stat (e : expr) : Prop :=
    forall (P D : name -> Prop) B e' B',
      freeze B e = Ok (e', B') -> dbc D B e -> (forall x, In x (rn B e) -> P x) -> fzr P D B e e'.

  Lemma freeze_bnd : forall B e e' B', freeze B e = Ok (e', B') -> B' = bnd B e.
  Proof. intros B e e' B' H. apply (freeze_resolves_eagerly look B e e' B' H). Qed.

  Ltac inv H := inversion H; subst; clear H.

  Lemma fzU_fzr : forall e, stat e -> forall (P D : name -> Prop) B e' B',
    fzU look B e = Ok (e', B') -> dbc D B e -> (forall x, In x (rn B e) -> P x) ->
    fzr P D B e e' /\ B' = bnd B e.
  Proof.
    intros e He P D B e' B' H Hd HP. unfold fzU in H.
    destruct e; try (split; [eapply He; eauto|eapply freeze_bnd; eauto]; fail).
    inversion H; subst. split; [constructor|reflexivity].
  Qed.

  Lemma fzL_fzr : forall es, Forall stat es -> forall (P D : name -> Prop) B es' B',
    fzL look B es = Ok (es', B') -> dbcL D B es -> (forall x, In x (rnL B es) -> P x) -> fzrL P D B es es'.
  Proof.
    induction 1 as [|e r He Hr IH]; intros P D B es' B' H Hd HP; cbn [fzL] in H.
    - inversion H; subst. constructor.
    - inv Hd. cbn [rnL] in HP.
      destruct (freeze B e) as [[e1 B1]|c| |] eqn:E; cbn [bind fst snd] in H; try discriminate.
      pose proof (freeze_bnd _ _ _ _ E); subst B1.
      destruct (fzL look (bnd B e) r) as [[r1 B2]|c| |] eqn:E2; cbn [bind fst snd] in H; try discriminate.
      inversion H; subst. constructor.
      + eapply He; eauto. intros x Hx. apply HP. apply in_or_app; auto.
      + eapply IH; eauto. intros x Hx. apply HP. apply in_or_app; auto.
  Qed.

  Lemma fzUL_fzr : forall es, Forall stat es -> forall (P D : name -> Prop) B es' B',
    fzUL look B es = Ok (es', B') -> dbcL D B es -> (forall x, In x (rnL B es) -> P x) -> fzrL P D B es es'.
  Proof.
    induction 1 as [|e r He Hr IH]; intros P D B es' B' H Hd HP; cbn [fzUL] in H.
    - inversion H; subst. constructor.
    - inv Hd. cbn [rnL] in HP.
      destruct (fzU look B e) as [[e1 B1]|c| |] eqn:E; cbn [bind fst snd] in H; try discriminate.
      destruct (fzU_fzr e He P D B e1 B1 E ltac:(eassumption)) as [F1 EB]; [intros x Hx; apply HP; apply in_or_app; auto|]. subst B1.
      destruct (fzUL look (bnd B e) r) as [[r1 B2]|c| |] eqn:E2; cbn [bind fst snd] in H; try discriminate.
      inversion H; subst. constructor; auto.
      eapply IH; eauto. intros x Hx. apply HP. apply in_or_app; auto.
  Qed.

  Lemma fzOps_fzr : forall ops, Forall (fun o : expr * expr => stat (fst o) /\ stat (snd o)) ops ->
    forall (P D : name -> Prop) B ops' B',
      fzOps look B ops = Ok (ops', B') -> dbcOps D B ops -> (forall x, In x (rnOps B ops) -> P x) ->
      fzrOps P D B ops ops'.
  Proof.
    induction 1 as [|[o d] r [Ho Hd] Hr IH]; intros P D B ops' B' H Hdb HP; cbn [fzOps] in H.
    - inversion H; subst. constructor.
    - cbn [fst snd] in *. inv Hdb. cbn [rnOps] in HP.
      destruct (freeze B o) as [[o1 B1]|c| |] eqn:E; cbn [bind fst snd] in H; try discriminate.
      pose proof (freeze_bnd _ _ _ _ E); subst B1.
      destruct (fzU look (bnd B o) d) as [[d1 B2]|c| |] eqn:E2; cbn [bind fst snd] in H; try discriminate.
      destruct (fzU_fzr d Hd P D (bnd B o) d1 B2 E2 ltac:(eassumption)) as [F2 EB].
      { intros x Hx. apply HP. apply in_or_app. right. apply in_or_app; auto. }
      subst B2.
      destruct (fzOps look (bnd (bnd B o) d) r) as [[r1 B3]|c| |] eqn:E3; cbn [bind fst snd] in H; try discriminate.
      inversion H; subst. constructor; auto.
      + eapply Ho; eauto. intros x Hx. apply HP. apply in_or_app; auto.
      + eapply IH; eauto. intros x Hx. apply HP. apply in_or_app. right. apply in_or_app; auto.
  Qed.

  Lemma fzC_fzr : forall body cls, Forall (fun c : clause => stat (snd c)) cls ->
    forall (P D : name -> Prop) B cls' B',
      fzC look B cls = Ok (cls', B') -> dbcC D B cls -> (forall x, In x (rnC body B cls) -> P x) ->
      fzrC P D B cls cls' /\ B' = bndC B cls /\ (forall x, In x (rn B' body) -> P x).
  Proof.
    intros body. induction 1 as [|[[k z] e] r He Hr IH]; intros P D B cls' B' H Hd HP; cbn [fzC] in H.
    - inversion H; subst. rewrite rnC_nil in HP. split; [constructor|split; auto].
    - cbn [snd] in He. inv Hd. rewrite rnC_cons in HP.
      destruct (freeze B e) as [[e1 B1]|c| |] eqn:E; cbn [bind fst snd] in H; try discriminate.
      pose proof (freeze_bnd _ _ _ _ E); subst B1.
      destruct (fzC look (match k with KGuard => bnd B e | _ => z :: bnd B e end) r) as [[r1 B2]|c| |] eqn:E2;
        cbn [bind fst snd] in H; try discriminate.
      inversion H; subst.
      destruct (IH P D _ r1 B' E2 ltac:(eassumption)) as (F1 & EB & HB).
      { intros x Hx. apply HP. apply in_or_app; auto. }
      split; [|split; auto].
      constructor; auto. eapply He; eauto. intros x Hx. apply HP. apply in_or_app; auto.
  Qed.

  Lemma fzArms_fzr : forall arms, Forall (fun a : pat * expr => stat (snd a)) arms ->
    forall (P D : name -> Prop) B arms',
      fzArms look B arms = Ok arms' -> dbcArms D B arms -> (forall x, In x (rnArms B arms) -> P x) ->
      fzrArms P D B arms arms'.
  Proof.
    induction 1 as [|[p b] r He Hr IH]; intros P D B arms' H Hd HP.
    - cbn in H. inversion H; subst. constructor.
    - rewrite fzArms_cons in H. cbn [snd] in He. inv Hd. rewrite rnArms_cons in HP.
      destruct (freeze (pat_names p ++ B) b) as [[b1 B1]|c| |] eqn:E; cbn [bind fst snd] in H; try discriminate.
      destruct (fzArms look B r) as [r1|c| |] eqn:E2; cbn [bind] in H; try discriminate.
      inversion H; subst. constructor.
      + eapply He; eauto. intros x Hx. apply HP. apply in_or_app; auto.
      + eapply IH; eauto. intros x Hx. apply HP. apply in_or_app; auto.
  Qed.

  (* the folded forms *)
  Lemma fold_call_fzr : forall (P D : name -> Prop) B f f' args args',
    fzr P D B f f' -> fzrL P D (bnd B f) args args' -> fzr P D B (ECall f args) (fold_call f' args').
  Proof.
    intros P D B f f' args args' Hf Ha.
    assert (G : fzr P D B (ECall f args) (ECall f' args')) by (constructor; auto).
    unfold fold_call. destruct f'; auto. destruct v; auto. destruct p; auto.
    destruct args' as [|a' [|b' r']]; auto.
    destruct (constant_value a') as [w|] eqn:C; auto. destruct w; auto.
    inversion Ha as [|? ? ? e0 ? r0 ? Hhd Htl]; subst. inversion Htl; subst. eapply FNegFold; eauto.
  Qed.

  Lemma fold_list_fzr : forall (P D : name -> Prop) B es es',
    fzrL P D B es es' -> fzr P D B (EList es) (fold_list es').
  Proof.
    intros P D B es es' H. unfold fold_list. destruct (constant_values es') eqn:C.
    - eapply FListFold; eauto.
    - constructor; auto.
  Qed.

  Theorem freeze_fzr : forall e, stat e.
  Proof.
    induction e using expr_ind'; intros P D B e' B' HF Hd HP.
    - cbn in HF. inversion HF; subst. constructor.
    - cbn in HF. inversion HF; subst. constructor.
    - cbn in HF. inversion HF; subst. constructor.
    - (* EVar *) cbn in HF, HP. destruct (mem x B) eqn:M.
      + inversion HF; subst. inv Hd. constructor. auto.
      + destruct (look x) eqn:L; inversion HF; subst. apply FVarRepl; auto. apply HP. left; auto.
    - cbn in HF. discriminate.
    - cbn in HF. inversion HF; subst. inv Hd. constructor; auto.
    - (* ESeq *) rewrite freeze_seq in HF. rewrite rn_seq in HP. inv Hd.
      destruct (fzL look B es) as [[es1 B1]|c| |] eqn:E; cbn [bind fst snd] in HF; try discriminate.
      inversion HF; subst. constructor. eapply fzL_fzr; eauto.
    - (* EDecl *) cbn [Freeze.freeze] in HF. inv Hd.
      destruct (freeze (x :: B) e) as [[e1 B1]|c| |] eqn:E; cbn [bind fst snd] in HF; try discriminate.
      inversion HF; subst. constructor. eapply IHe; eauto.
    - (* EAssign *) cbn [Freeze.freeze] in HF. inv Hd. destruct (mem x B); try discriminate.
      destruct (freeze B e) as [[e1 B1]|c| |] eqn:E; cbn [bind fst snd] in HF; try discriminate.
      inversion HF; subst. constructor. eapply IHe; eauto.
    - (* EIf *) cbn [Freeze.freeze] in HF. inv Hd.
      change (rn B (EIf e1 e2 e3)) with (rn B e1 ++ rn (bnd B e1) e2 ++ rn (bnd (bnd B e1) e2) e3) in HP.
      destruct (freeze B e1) as [[c1 B1]|c| |] eqn:E1; cbn [bind fst snd] in HF; try discriminate.
      pose proof (freeze_bnd _ _ _ _ E1); subst B1.
      destruct (freeze (bnd B e1) e2) as [[t1 B2]|c| |] eqn:E2; cbn [bind fst snd] in HF; try discriminate.
      pose proof (freeze_bnd _ _ _ _ E2); subst B2.
      destruct (freeze (bnd (bnd B e1) e2) e3) as [[f1 B3]|c| |] eqn:E3; cbn [bind fst snd] in HF; try discriminate.
      inversion HF; subst. constructor.
      + eapply IHe1; eauto. intros x Hx. apply HP. apply in_or_app; auto.
      + eapply IHe2; eauto. intros x Hx. apply HP. apply in_or_app. right. apply in_or_app; auto.
      + eapply IHe3; eauto. intros x Hx. apply HP. apply in_or_app. right. apply in_or_app; auto.
    - (* EWhile *) cbn [Freeze.freeze] in HF. inv Hd.
      change (rn B (EWhile e1 e2)) with (rn B e1 ++ rn (bnd B e1) e2) in HP.
      destruct (freeze B e1) as [[c1 B1]|c| |] eqn:E1; cbn [bind fst snd] in HF; try discriminate.
      pose proof (freeze_bnd _ _ _ _ E1); subst B1.
      destruct (freeze (bnd B e1) e2) as [[b1 B2]|c| |] eqn:E2; cbn [bind fst snd] in HF; try discriminate.
      inversion HF; subst. constructor.
      + eapply IHe1; eauto. intros x Hx. apply HP. apply in_or_app; auto.
      + eapply IHe2; eauto. intros x Hx. apply HP. apply in_or_app; auto.
    - (* EFor *) rewrite freeze_for in HF. rewrite rn_for in HP. inv Hd.
      destruct (freeze B e1) as [[i1 B1]|c| |] eqn:E1; cbn [bind fst snd] in HF; try discriminate.
      pose proof (freeze_bnd _ _ _ _ E1); subst B1.
      destruct (fzC look (x :: bnd B e1) cls) as [[cls1 B2]|c| |] eqn:E2; cbn [bind fst snd] in HF; try discriminate.
      destruct (fzC_fzr e2 cls H P (DU D (for_budget x cls e2)) _ cls1 B2 E2 ltac:(eassumption)) as (F1 & EB & HB).
      { intros z Hz. apply HP. apply in_or_app; auto. }
      subst B2.
      destruct (freeze (bndC (x :: bnd B e1) cls) e2) as [[b1 B3]|c| |] eqn:E3; cbn [bind fst snd] in HF; try discriminate.
      inversion HF; subst. constructor; auto.
      + eapply IHe1; eauto. intros z Hz. apply HP. apply in_or_app; auto.
      + eapply IHe2; eauto.
    - (* ESwitch *) rewrite freeze_switch in HF. rewrite rn_switch in HP. inv Hd.
      destruct (freeze B e) as [[s1 B1]|c| |] eqn:E1; cbn [bind fst snd] in HF; try discriminate.
      pose proof (freeze_bnd _ _ _ _ E1); subst B1.
      destruct (fzArms look (bnd B e) arms) as [arms1|c| |] eqn:E2; cbn [bind fst snd] in HF; try discriminate.
      inversion HF; subst. constructor.
      + eapply IHe; eauto. intros x Hx. apply HP. apply in_or_app; auto.
      + eapply fzArms_fzr; eauto. intros x Hx. apply HP. apply in_or_app; auto.
    - (* ETry *) cbn [Freeze.freeze] in HF. inv Hd.
      change (rn B (ETry e1 x e2)) with (rn B e1 ++ rn (x :: bnd B e1) e2) in HP.
      destruct (freeze B e1) as [[c1 B1]|c| |] eqn:E1; cbn [bind fst snd] in HF; try discriminate.
      pose proof (freeze_bnd _ _ _ _ E1); subst B1.
      destruct (freeze (x :: bnd B e1) e2) as [[b1 B2]|c| |] eqn:E2; cbn [bind fst snd] in HF; try discriminate.
      inversion HF; subst. constructor.
      + eapply IHe1; eauto. intros z Hz. apply HP. apply in_or_app; auto.
      + eapply IHe2; eauto. intros z Hz. apply HP. apply in_or_app; auto.
    - (* EThrow *) cbn [Freeze.freeze] in HF. inv Hd.
      destruct (freeze B e) as [[e1 B1]|c| |] eqn:E; cbn [bind fst snd] in HF; try discriminate.
      inversion HF; subst. constructor. eapply IHe; eauto.
    - (* ELam *) cbn [Freeze.freeze] in HF. inv Hd.
      change (rn B (ELam ps e)) with (rn (ps ++ B) e) in HP.
      destruct (freeze (ps ++ B) e) as [[e1 B1]|c| |] eqn:E; cbn [bind fst snd] in HF; try discriminate.
      inversion HF; subst.
      apply FLam with (P' := fun x => In x (rn (ps ++ B') e)); auto.
      eapply IHe; eauto.
    - (* ECall *) rewrite freeze_call in HF. rewrite rn_call in HP. inv Hd.
      destruct (fzU look B e) as [[f1 B1]|c| |] eqn:E1; cbn [bind fst snd] in HF; try discriminate.
      destruct (fzU_fzr e IHe P D B f1 B1 E1 ltac:(eassumption)) as [F1 EB]; [intros x Hx; apply HP; apply in_or_app; auto|]. subst B1.
      destruct (fzUL look (bnd B e) args) as [[args1 B2]|c| |] eqn:E2; cbn [bind fst snd] in HF; try discriminate.
      inversion HF; subst. apply fold_call_fzr; auto.
      eapply fzUL_fzr; eauto. intros x Hx. apply HP. apply in_or_app; auto.
    - (* EChain *) rewrite freeze_chain in HF. rewrite rn_chain in HP. inv Hd.
      destruct (fzU look B e) as [[a1 B1]|c| |] eqn:E1; cbn [bind fst snd] in HF; try discriminate.
      destruct (fzU_fzr e IHe P D B a1 B1 E1 ltac:(eassumption)) as [F1 EB]; [intros x Hx; apply HP; apply in_or_app; auto|]. subst B1.
      destruct (fzOps look (bnd B e) ops) as [[ops1 B2]|c| |] eqn:E2; cbn [bind fst snd] in HF; try discriminate.
      inversion HF; subst. constructor; auto.
      eapply fzOps_fzr; eauto. intros x Hx. apply HP. apply in_or_app; auto.
    - (* EList *) rewrite freeze_list in HF. rewrite rn_list in HP. inv Hd.
      destruct (fzUL look B es) as [[es1 B1]|c| |] eqn:E; cbn [bind fst snd] in HF; try discriminate.
      inversion HF; subst. apply fold_list_fzr. eapply fzUL_fzr; eauto.
    - cbn in HF. discriminate.
  Qed.
End Static.
