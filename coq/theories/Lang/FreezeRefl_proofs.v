(* Lang/FreezeRefl_proofs.v - a store is related to itself (srel st st) as soon as the bodies of the
   closures it holds are ordinary source code: no identifier named in mutl, no frozen closure, no
   declaration in the first iteratee of a for loop.  This is what makes the preservation theorem
   applicable to stores that contain user-defined functions (e.g. operator closures). *)
From Coq Require Import ZArith String List Bool Arith Lia.
From NV Require Import Common.Outcome Lang.FreezeLang Lang.Freeze Lang.FreezeSpec Lang.Freeze_proofs
  Lang.FreezeRel Lang.FreezeSim_store Lang.FreezeSim_rel.
Import ListNotations.
Open Scope string_scope.
Open Scope list_scope.

Section Refl.
  Variable mutl : list name.

  Fixpoint selfok (e : expr) : bool :=
    match e with
    | ENull | EInt _ | EStr _ | EUnderscore | EImport _ => true
    | EVar x => negb (mem x mutl)
    | EFrozen v => noclos v
    | ESeq es => forallb selfok es
    | EDecl _ e1 | EAssign _ e1 | EThrow e1 => selfok e1
    | EIf c t f => selfok c && selfok t && selfok f
    | EWhile c b => selfok c && selfok b
    | EFor _ e1 cls _ body =>
        selfok e1 &&
        forallb (fun c : clause => match c with (_, e2) => selfok e2 end) cls && selfok body
    | ESwitch e1 arms => selfok e1 && forallb (fun a : pat * expr => match a with (_, b) => selfok b end) arms
    | ETry b _ h => selfok b && selfok h
    | ELam _ b => selfok b
    | ECall f args => selfok f && forallb selfok args
    | EChain a ops => selfok a && forallb (fun o : expr * expr => match o with (o1, d) => selfok o1 && selfok d end) ops
    | EList es => forallb selfok es
    end.

  Variable FV : name -> option val.
  Notation fzr := (fzr FV mutl).
  Notation fzrL := (fzrL FV mutl).
  Notation fzrOps := (fzrOps FV mutl).
  Notation fzrC := (fzrC FV mutl).
  Notation fzrArms := (fzrArms FV mutl).
  Implicit Types P D : name -> Prop.

  Definition refl_ok (e : expr) : Prop := selfok e = true -> forall P D B, fzr P D B e e.

  Lemma fzrL_refl : forall es, Forall refl_ok es -> forallb selfok es = true -> forall P D B, fzrL P D B es es.
  Proof.
    induction 1 as [|e r He Hr IH]; intros S P D B; [constructor|].
    cbn in S. apply andb_true_iff in S. destruct S. constructor; auto.
  Qed.

  Lemma fzr_refl : forall e, refl_ok e.
  Proof.
    induction e using expr_ind'; intros S P D B; cbn [selfok] in S;
      repeat match goal with H : _ && _ = true |- _ => apply andb_true_iff in H; destruct H end.
    - constructor.
    - constructor.
    - constructor.
    - constructor. destruct (mem x mutl); [discriminate|reflexivity].
    - constructor.
    - constructor. auto.
    - constructor. apply fzrL_refl; auto.
    - constructor. auto.
    - constructor. auto.
    - constructor; auto.
    - constructor; auto.
    - (* for *) constructor; auto.
      + clear - H H2. generalize (x :: bnd B e1). generalize (DU D (for_budget x cls e2)).
        induction H as [|[[k z] e] r He Hr IH]; intros D0 B0; [constructor|].
        cbn in H2. apply andb_true_iff in H2. destruct H2. constructor; auto; apply He; auto.
    - (* switch *) constructor; auto.
      clear - H H1. generalize (bnd B e).
      induction H as [|[p b] r He Hr IH]; intros B0; [constructor|].
      cbn in H1. apply andb_true_iff in H1. destruct H1. constructor; auto; apply He; auto.
    - constructor; auto.
    - constructor; auto.
    - (* lambda *) apply FLam with (P' := fun _ => False); auto; try contradiction; intros x [].
    - constructor; auto. apply fzrL_refl; auto.
    - (* chain *) constructor; auto.
      clear - H H1. generalize (bnd B e).
      induction H as [|[o d] r [Ho Hd] Hr IH]; intros B0; [constructor|].
      cbn in H1. apply andb_true_iff in H1. destruct H1 as [H1 H2]. apply andb_true_iff in H1. destruct H1.
      constructor; auto; try (apply Ho; auto); try (apply Hd; auto).
    - constructor. apply fzrL_refl; auto.
    - constructor.
  Qed.

  (* values whose closures have such bodies and live in the store *)
  Fixpoint valok (len : nat) (v : val) : bool :=
    match v with
    | VClos _ body env _ => selfok body && Nat.ltb env len
    | VList l => forallb (valok len) l
    | _ => true
    end.

  Variable n0 cur0 : nat.
  Variable resl : list name.

  Lemma vrel_refl : forall fs v, valok (length fs) v = true -> vrel n0 cur0 FV resl mutl fs v v.
  Proof.
    intros fs. fix IH 1. intros v H. destruct v; try (constructor; fail).
    - constructor. cbn in H. induction l as [|a l IHl]; constructor.
      + apply IH. cbn in H. apply andb_true_iff in H. tauto.
      + apply IHl. cbn in H. apply andb_true_iff in H. tauto.
    - cbn in H. apply andb_true_iff in H. destruct H as [H1 H2]. apply Nat.ltb_lt in H2.
      apply VRClos with (P := fun _ => False) (D := fun _ => True) (B := []).
      + apply fzr_refl; auto.
      + intros x [].
      + intros x [].
      + intros h A Hh x Hx. exact I.
      + intros x [].
      + auto.
  Qed.

  Definition frame_ok (len : nat) (fr : frame) : Prop := forall x v, In (x, v) (vars fr) -> valok len v = true.

  Lemma vars_rel_refl_ok : forall fs l,
    (forall x v, In (x, v) l -> valok (length fs) v = true) -> vars_rel n0 cur0 FV resl mutl fs l l.
  Proof.
    intros fs l. induction l as [|[x v] l IH]; intros H; constructor.
    - split; auto. cbn. right. apply vrel_refl. apply (H x v). left; auto.
    - apply IH. intros y w Hy. apply (H y w). right; auto.
  Qed.

  Lemma frames_rel_refl_ok : forall fs0 l,
    Forall (frame_ok (length fs0)) l -> Forall2 (frame_rel n0 cur0 FV resl mutl fs0) l l.
  Proof.
    intros fs0 l H. induction H; constructor; auto. split; auto. apply vars_rel_refl_ok. auto.
  Qed.

  Theorem srel_refl_ok : forall st,
    cur0 < n0 -> n0 <= length (frames st) -> wf_frames (frames st) ->
    Forall (frame_ok (length (frames st))) (frames st) ->
    srel n0 cur0 FV resl mutl st st.
  Proof.
    intros st H1 H2 H3 H4. constructor; auto. apply frames_rel_refl_ok; auto.
  Qed.

End Refl.

Theorem agree_refl_ok : forall mutl n0 cur0 resl fs,
    Forall (frame_ok mutl (length fs)) fs ->
    agree n0 cur0 (lookup fs cur0) resl mutl fs.
  Proof.
    intros mutl n0 cur0 resl fs HN x v0 M F. exists v0. split; auto.
    apply vrel_refl. unfold lookup in F.
    destruct (resolve fs cur0 x) as [g|]; [|discriminate]. unfold cell in F.
    destruct (nth_error fs g) as [fr|] eqn:E; [|discriminate].
    assert (NF : frame_ok mutl (length fs) fr).
    { clear - HN E. generalize dependent (length fs). intros len HN. revert g E.
      induction HN; intros [|g] E; cbn in E; try discriminate.
      - inversion E; subst; auto.
      - eauto. }
    clear - F NF. unfold frame_ok in NF. revert NF F. generalize (vars fr).
    induction l as [|[y w] l IH]; cbn; intros NF F; [discriminate|].
    destruct (String.eqb x y).
    - inversion F; subst. apply (NF y v0). left; auto.
    - apply IH; auto. intros z u Hz. apply (NF z u). right; auto.
  Qed.
