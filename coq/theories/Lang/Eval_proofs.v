(* Lang/Eval_proofs.v - proofs about the reference interpreter Lang/Eval.v (property C05). *)
From Coq Require Import ZArith String List Bool Lia.
From NV Require Import Lang.Syntax Lang.Eval.
Import ListNotations.
Open Scope string_scope.
Open Scope list_scope.

(* ================================================================ 1. fuel monotonicity *)
Definition rec_t := state -> nat -> expr -> result val.

(* r2 agrees with r1 wherever r1 finishes *)
Definition rec_le (r1 r2 : rec_t) : Prop :=
  forall st cur e, snd (r1 st cur e) <> OutOfFuel -> r2 st cur e = r1 st cur e.

Lemma rec_le_val r1 r2 st cur e st1 (v : val) :
  rec_le r1 r2 -> r1 st cur e = (st1, Val v) -> r2 st cur e = (st1, Val v).
Proof. intros H E. rewrite <- E. apply H. rewrite E. discriminate. Qed.

Lemma rec_le_sig r1 r2 st cur e st1 s :
  rec_le r1 r2 -> r1 st cur e = (st1, Sig s) -> r2 st cur e = (st1, Sig s).
Proof. intros H E. rewrite <- E. apply H. rewrite E. discriminate. Qed.

(* destruct one call of r1 in the goal `snd (.. r1 ..) <> OutOfFuel -> (.. r2 ..) = (.. r1 ..)` *)
Tactic Notation "rec_step" "as" ident(st1) ident(v) ident(sg) :=
  match goal with
  | Hle : rec_le ?r1 ?r2 |- context [?r1 ?st ?cur ?e] =>
      let E := fresh "E" in
      destruct (r1 st cur e) as [st1 [v|sg|]] eqn:E;
      [ rewrite (rec_le_val _ _ _ _ _ _ _ Hle E)
      | rewrite (rec_le_sig _ _ _ _ _ _ _ Hle E)
      | try (cbn; intros; congruence) ]
  end.

Section Mono.
  Variables r1 r2 : rec_t.
  Hypothesis Hle : rec_le r1 r2.

  Lemma eval_items_mono : forall items st cur,
    snd (eval_items r1 st cur items) <> OutOfFuel ->
    eval_items r2 st cur items = eval_items r1 st cur items.
  Proof.
    induction items as [|[sp e] rest IH]; intros st cur; cbn [eval_items]; [reflexivity|].
    rec_step as st1 v sg; cbn [bindR]; try reflexivity.
    destruct sp.
    - destruct (iter_elems v); try reflexivity.
      intros H. rewrite IH; [reflexivity|].
      intro C. apply H. destruct (eval_items r1 st1 cur rest) as [? [?|?|]]; cbn in *; congruence.
    - intros H. rewrite IH; [reflexivity|].
      intro C. apply H. destruct (eval_items r1 st1 cur rest) as [? [?|?|]]; cbn in *; congruence.
  Qed.

  Lemma eval_exprs_mono : forall es st cur,
    snd (eval_exprs r1 st cur es) <> OutOfFuel ->
    eval_exprs r2 st cur es = eval_exprs r1 st cur es.
  Proof. intros. apply eval_items_mono. assumption. Qed.

  Lemma eval_seq_mono : forall es st cur,
    snd (eval_seq r1 st cur es) <> OutOfFuel ->
    eval_seq r2 st cur es = eval_seq r1 st cur es.
  Proof.
    induction es as [|e rest IH]; intros st cur; cbn [eval_seq]; [reflexivity|].
    rec_step as st1 v sg; cbn [bindR]; try reflexivity.
    destruct rest; [reflexivity|]. apply IH.
  Qed.

  Lemma for_each_mono (k1 k2 : state -> nat -> list val -> fres) :
    (forall st fr acc, snd (k1 st fr acc) <> OutOfFuel -> k2 st fr acc = k1 st fr acc) ->
    forall bss cur st acc,
      snd (for_each k1 cur bss st acc) <> OutOfFuel ->
      for_each k2 cur bss st acc = for_each k1 cur bss st acc.
  Proof.
    intros Hk. induction bss as [|bs bss IH]; intros cur st acc; cbn [for_each]; [reflexivity|].
    destruct (push_frame st cur) as [st1 fr].
    destruct (declare_all st1 fr bs) as [st2 [?|?|]]; try reflexivity.
    destruct (k1 st2 fr acc) as [[st3 acc'] [?|?|]] eqn:E.
    - rewrite Hk by (rewrite E; discriminate). rewrite E. apply IH.
    - rewrite Hk by (rewrite E; discriminate). rewrite E. reflexivity.
    - cbn. congruence.
  Qed.

  Lemma eval_for_mono (cb1 cb2 : state -> nat -> list val -> fres) :
    (forall st fr acc, snd (cb1 st fr acc) <> OutOfFuel -> cb2 st fr acc = cb1 st fr acc) ->
    forall cls st cur acc,
      snd (eval_for r1 cls cb1 st cur acc) <> OutOfFuel ->
      eval_for r2 cls cb2 st cur acc = eval_for r1 cls cb1 st cur acc.
  Proof.
    intros Hcb. induction cls as [|c rest IH]; intros st cur acc; cbn [eval_for].
    - destruct (cb1 st cur acc) as [[st1 acc1] [?|?|]] eqn:E.
      + rewrite Hcb by (rewrite E; discriminate). rewrite E. reflexivity.
      + rewrite Hcb by (rewrite E; discriminate). rewrite E. reflexivity.
      + cbn. congruence.
    - rec_step as st1 v sg; try reflexivity.
      destruct c; try (destruct (clause_bindings _ v); try reflexivity; apply for_each_mono; intros; apply IH; assumption).
      destruct (truthy v); [apply IH | reflexivity].
  Qed.

  Lemma for_body_mono body : forall st fr acc,
    snd (for_body r1 body st fr acc) <> OutOfFuel ->
    for_body r2 body st fr acc = for_body r1 body st fr acc.
  Proof.
    intros st fr acc. destruct body; cbn [for_body].
    - rec_step as st1 v sg; reflexivity.
    - rec_step as st1 v sg; reflexivity.
    - rec_step as st1 kv sg; try reflexivity. destruct (key_check kv); try reflexivity.
      rec_step as st2 v2 sg2; reflexivity.
  Qed.

  Lemma for_result_oof body r : snd (for_result body r) <> OutOfFuel -> snd r <> OutOfFuel.
  Proof.
    destruct r as [[st acc] [?|?|]]; cbn; try congruence.
  Qed.

  Lemma bind_params_mono : forall st fr ps args,
    snd (bind_params r1 st fr ps args) <> OutOfFuel ->
    bind_params r2 st fr ps args = bind_params r1 st fr ps args.
  Proof.
    intros st fr ps args. unfold bind_params.
    destruct (negb (params_ok ps)); [reflexivity|].
    destruct (scan_params ps 0 None [] (List.length args)) as [[[si|] dip]|]; try reflexivity.
    - intros H. rewrite eval_exprs_mono; [reflexivity|].
      intro C. apply H. destruct (eval_exprs r1 st fr dip) as [? [?|?|]]; cbn in *; congruence.
    - destruct (Nat.eqb _ _); [|reflexivity].
      intros H. rewrite eval_exprs_mono; [reflexivity|].
      intro C. apply H. destruct (eval_exprs r1 st fr dip) as [? [?|?|]]; cbn in *; congruence.
  Qed.

  Lemma apply_val_mono : forall st fv args,
    snd (apply_val r1 st fv args) <> OutOfFuel ->
    apply_val r2 st fv args = apply_val r1 st fv args.
  Proof.
    intros st fv args. destruct fv; cbn [apply_val]; try reflexivity.
    destruct (push_frame st env) as [st1 fr].
    intros H.
    assert (Hb : snd (bind_params r1 st1 fr ps args) <> OutOfFuel).
    { intro C. apply H. destruct (bind_params r1 st1 fr ps args) as [? [?|?|]]; cbn in *; congruence. }
    rewrite (bind_params_mono _ _ _ _ Hb).
    destruct (bind_params r1 st1 fr ps args) as [st2 [u|s|]]; cbn [bindR] in *; try reflexivity.
    revert H. rec_step as st3 v sg; try reflexivity.
  Qed.

  Lemma evalF_mono : rec_le (evalF r1) (evalF r2).
  Proof.
    intros st cur e. destruct e; cbn [evalF]; try reflexivity.
    - (* EList *) intros H. rewrite eval_items_mono; [reflexivity|].
      intro C. apply H. destruct (eval_items r1 st cur items) as [? [?|?|]]; cbn in *; congruence.
    - (* ESeq *) intros H. rewrite eval_seq_mono; [reflexivity|].
      intro C. apply H. destruct (eval_seq r1 st cur es) as [? [?|?|]]; cbn in *; congruence.
    - (* EDecl *) unfold eval_decl. rec_step as st1 v sg; reflexivity.
    - (* EAssign *) unfold eval_assign. rec_step as st1 v sg; reflexivity.
    - (* EDeclL *) unfold eval_unpack. rec_step as st1 v sg; reflexivity.
    - (* EAssignL *) unfold eval_unpack. rec_step as st1 v sg; reflexivity.
    - (* EIf *) unfold eval_if. rec_step as st1 v sg; cbn [bindR]; try reflexivity.
      destruct (truthy v); [apply Hle|]. destruct f; [apply Hle | reflexivity].
    - (* EWhile *) unfold eval_while. destruct (push_frame st cur) as [st1 fr].
      rec_step as st2 v sg; cbn [bindR]; try reflexivity.
      destruct (truthy v); [|reflexivity].
      rec_step as st3 v3 sg3; cbn [while_body_result]; try reflexivity.
      + apply Hle.
      + destruct sg3 as [[|n] vo|[|n]| | |]; try reflexivity; apply Hle.
    - (* EFor *) unfold eval_for_expr. intros H. apply for_result_oof in H.
      rewrite (eval_for_mono (for_body r1 body) (for_body r2 body) (for_body_mono body)); [reflexivity|assumption].
    - (* EBreak *) destruct e; [|reflexivity]. rec_step as st1 v sg; reflexivity.
    - (* EReturn *) destruct e; [|reflexivity]. rec_step as st1 v sg; reflexivity.
    - (* ETry *) unfold eval_try. rec_step as st1 v0 sg; try reflexivity.
      destruct sg; try reflexivity.
      destruct (push_frame st1 cur) as [st2 fr].
      destruct (declare_all st2 fr [(x, v)]) as [st3 [?|?|]]; cbn [bindR]; try reflexivity.
      apply Hle.
    - (* EThrow *) rec_step as st1 v sg; reflexivity.
    - (* EAnd *) unfold eval_shortcut. rec_step as st1 v sg; cbn [bindR]; try reflexivity.
      destruct (truthy v); [apply Hle | reflexivity].
    - (* EOr *) unfold eval_shortcut. rec_step as st1 v sg; cbn [bindR]; try reflexivity.
      destruct (negb (truthy v)); [apply Hle | reflexivity].
    - (* ECoalesce *) unfold eval_shortcut. rec_step as st1 v sg; cbn [bindR]; try reflexivity.
      destruct v; try reflexivity; apply Hle.
    - (* ECall *) unfold eval_call. rec_step as st1 fv sg; cbn [bindR]; try reflexivity.
      intros H.
      assert (Hi : snd (eval_items r1 st1 cur args) <> OutOfFuel).
      { intro C. apply H. destruct (eval_items r1 st1 cur args) as [? [?|?|]]; cbn in *; congruence. }
      rewrite (eval_items_mono _ _ _ Hi).
      destruct (eval_items r1 st1 cur args) as [st2 [vs|sg2|]]; cbn [bindR] in *; try reflexivity.
      apply apply_val_mono. assumption.
    - (* EPrim *) intros H. rewrite eval_exprs_mono; [reflexivity|].
      intro C. apply H. destruct (eval_exprs r1 st cur args) as [? [?|?|]]; cbn in *; congruence.
    - (* EEval *) rec_step as st1 v sg; try reflexivity.
  Qed.
End Mono.

Lemma eval_step_le : forall n, rec_le (eval n) (eval (S n)).
Proof.
  induction n as [|n IH].
  - intros st cur e H. cbn in H. congruence.
  - change (eval (S (S n))) with (evalF (eval (S n))). change (eval (S n)) with (evalF (eval n)) at 1.
    apply evalF_mono. exact IH.
Qed.

Lemma fuel_monotone : forall n m st cur e,
  n <= m -> snd (eval n st cur e) <> OutOfFuel -> eval m st cur e = eval n st cur e.
Proof.
  intros n m st cur e Hnm. induction Hnm as [|m Hnm IH]; intros H; [reflexivity|].
  rewrite <- (IH H). apply eval_step_le. rewrite (IH H). exact H.
Qed.

(* the interpreter defines a partial function: two finished runs agree whatever their fuel *)
Lemma fuel_deterministic : forall n m st cur e,
  snd (eval n st cur e) <> OutOfFuel -> snd (eval m st cur e) <> OutOfFuel ->
  eval n st cur e = eval m st cur e.
Proof.
  intros n m st cur e Hn Hm. destruct (Nat.le_ge_cases n m) as [L|L].
  - symmetry. apply fuel_monotone; assumption.
  - apply fuel_monotone; assumption.
Qed.

(* ================================================================ 2. a generic store invariant
   Any relation P cur st st' ("what evaluating in frame cur may do to the state") that is a
   preorder, is established by the primitive store operations on the current frame, and can be
   forgotten when the work happened in a freshly pushed frame, holds of every evaluation. *)
Section Inv.
  Variable P : nat -> state -> state -> Prop.
  Hypothesis P_refl : forall cur st, P cur st st.
  Hypothesis P_trans : forall cur a b c, P cur a b -> P cur b c -> P cur a c.
  Hypothesis P_declare : forall cur st x v st', declare st cur x v = Some st' -> P cur st st'.
  Hypothesis P_assign : forall cur st x v st', assign st cur x v = Some st' -> P cur st st'.
  Hypothesis P_print : forall cur st vs, P cur st (mkState (frames st) (out st ++ [vs])).
  Hypothesis P_scope : forall cur p st st',
    P (List.length (frames st)) (fst (push_frame st p)) st' -> P cur st st'.

  Ltac chain :=
    first [ eassumption | apply P_refl | (eapply P_trans; [eassumption | chain]) ].
  Ltac fin := let Heq := fresh "Heq" in intros Heq; inversion Heq; subst; clear Heq; chain.

  Definition inv_rec (rec : rec_t) : Prop :=
    forall st cur e st' r, rec st cur e = (st', r) -> P cur st st'.

  Lemma declare_all_inv : forall bs st f st' r,
    declare_all st f bs = (st', r) -> P f st st'.
  Proof.
    induction bs as [|[x v] bs IH]; intros st f st' r; cbn [declare_all].
    - fin.
    - destruct (declare st f x v) as [st1|] eqn:E.
      + intros H. apply IH in H. apply P_declare in E. chain.
      + fin.
  Qed.

  Lemma assign_all_inv : forall bs st f st' r,
    assign_all st f bs = (st', r) -> P f st st'.
  Proof.
    induction bs as [|[x v] bs IH]; intros st f st' r; cbn [assign_all].
    - fin.
    - destruct (assign st f x v) as [st1|] eqn:E.
      + intros H. apply IH in H. apply P_assign in E. chain.
      + fin.
  Qed.

  Lemma prim_apply_inv : forall p vs st cur st' r, prim_apply p vs st = (st', r) -> P cur st st'.
  Proof.
    intros p vs st cur st' r H.
    assert (st' = st \/ st' = mkState (frames st) (out st ++ [vs])) as [->| ->]; [|apply P_refl|apply P_print].
    unfold prim_apply, ret, unsupported in H.
    repeat match type of H with
           | (match ?x with _ => _ end) = _ => destruct x
           | (if ?x then _ else _) = _ => destruct x
           end; inversion H; auto.
  Qed.

  Section WithRecInv.
    Variable rec : rec_t.
    Hypothesis Hrec : inv_rec rec.

    Ltac dr :=
      match goal with
      | |- context [rec ?st ?cur ?e] =>
          let E := fresh "E" in
          destruct (rec st cur e) as [? [?|?|]] eqn:E; apply Hrec in E
      end.

    Lemma eval_items_inv : forall items st cur st' r,
      eval_items rec st cur items = (st', r) -> P cur st st'.
    Proof.
      induction items as [|[sp e] rest IH]; intros st cur st' r; cbn [eval_items]; [fin|].
      dr; cbn [bindR]; try fin.
      destruct sp; [destruct (iter_elems _); try fin|];
        (destruct (eval_items rec _ cur rest) as [? [?|?|]] eqn:E2; apply IH in E2; cbn [bindR]; fin).
    Qed.

    Lemma eval_exprs_inv : forall es st cur st' r,
      eval_exprs rec st cur es = (st', r) -> P cur st st'.
    Proof. intros es st cur st' r. apply eval_items_inv. Qed.

    Lemma eval_seq_inv : forall es st cur st' r,
      eval_seq rec st cur es = (st', r) -> P cur st st'.
    Proof.
      induction es as [|e rest IH]; intros st cur st' r; cbn [eval_seq]; [fin|].
      dr; cbn [bindR]; try fin.
      destruct rest; [fin|]. intros H. apply IH in H. chain.
    Qed.

    Lemma for_each_inv (k : state -> nat -> list val -> fres) :
      (forall st fr acc st' acc' r, k st fr acc = (st', acc', r) -> P fr st st') ->
      forall bss cur st acc st' acc' r,
        for_each k cur bss st acc = (st', acc', r) -> P cur st st'.
    Proof.
      intros Hk. induction bss as [|bs bss IH]; intros cur st acc st' acc' r; cbn [for_each]; [fin|].
      destruct (push_frame st cur) as [st1 fr] eqn:Ep.
      assert (Hfr : fr = List.length (frames st)) by (unfold push_frame in Ep; inversion Ep; reflexivity).
      assert (Hst1 : st1 = fst (push_frame st cur)) by (rewrite Ep; reflexivity).
      destruct (declare_all st1 fr bs) as [st2 [?|?|]] eqn:Ed; apply declare_all_inv in Ed.
      - destruct (k st2 fr acc) as [[st3 acc3] [?|?|]] eqn:Ek; apply Hk in Ek.
        + intros H. apply IH in H.
          assert (P cur st st3) by (apply (P_scope cur cur); subst; chain). chain.
        + intros H; inversion H; subst st' fr st1. apply (P_scope cur cur). chain.
        + intros H; inversion H; subst st' fr st1. apply (P_scope cur cur). chain.
      - intros H; inversion H; subst st' fr st1. apply (P_scope cur cur). chain.
      - intros H; inversion H; subst st' fr st1. apply (P_scope cur cur). chain.
    Qed.

    Lemma eval_for_inv (cb : state -> nat -> list val -> fres) :
      (forall st fr acc st' acc' r, cb st fr acc = (st', acc', r) -> P fr st st') ->
      forall cls st cur acc st' acc' r,
        eval_for rec cls cb st cur acc = (st', acc', r) -> P cur st st'.
    Proof.
      intros Hcb. induction cls as [|c rest IH]; intros st cur acc st' acc' r; cbn [eval_for].
      - destruct (cb st cur acc) as [[st1 acc1] [?|?|]] eqn:E; apply Hcb in E; try fin.
        destruct s as [? ?|[|?]| | |]; fin.
      - dr; try fin.
        assert (Hb : forall bss, for_each (eval_for rec rest cb) cur bss s acc = (st', acc', r) -> P cur st st').
        { intros bss H. apply for_each_inv in H; [chain|]. intros; eapply IH; eassumption. }
        destruct c; try (destruct (clause_bindings _ _); [apply Hb|fin|fin]).
        destruct (truthy _); [|fin]. intros H. apply IH in H. chain.
    Qed.

    Lemma for_body_inv body : forall st fr acc st' acc' r,
      for_body rec body st fr acc = (st', acc', r) -> P fr st st'.
    Proof.
      intros st fr acc st' acc' r. destruct body; cbn [for_body].
      - dr; fin.
      - dr; fin.
      - dr; try fin. destruct (key_check _); try fin. dr; fin.
    Qed.

    Lemma bind_params_inv : forall st fr ps args st' r,
      bind_params rec st fr ps args = (st', r) -> P fr st st'.
    Proof.
      intros st fr ps args st' r. unfold bind_params.
      destruct (negb (params_ok ps)); [fin|].
      destruct (scan_params ps 0 None [] (List.length args)) as [[[si|] dip]|]; try fin.
      - destruct (eval_exprs rec st fr dip) as [st1 [dvs|?|]] eqn:E; apply eval_exprs_inv in E; cbn [bindR]; try fin.
        destruct (Nat.ltb _ _); [fin|]. intros H. apply declare_all_inv in H. chain.
      - destruct (Nat.eqb _ _); [|fin].
        destruct (eval_exprs rec st fr dip) as [st1 [dvs|?|]] eqn:E; apply eval_exprs_inv in E; cbn [bindR]; try fin.
        intros H. apply declare_all_inv in H. chain.
    Qed.

    Lemma apply_val_inv : forall st cur fv args st' r,
      apply_val rec st fv args = (st', r) -> P cur st st'.
    Proof.
      intros st cur fv args st' r. destruct fv; cbn [apply_val];
        try (destruct args as [|[] [|]]; fin).
      destruct (push_frame st env) as [st1 fr] eqn:Ep.
      assert (Hfr : fr = List.length (frames st)) by (unfold push_frame in Ep; inversion Ep; reflexivity).
      assert (Hst1 : st1 = fst (push_frame st env)) by (rewrite Ep; reflexivity).
      destruct (bind_params rec st1 fr ps args) as [st2 [u|?|]] eqn:Eb; apply bind_params_inv in Eb; cbn [bindR].
      - dr; cbn [call_result].
        + intros H; inversion H; subst. apply (P_scope cur env). chain.
        + destruct s0; intros H; inversion H; subst; apply (P_scope cur env); chain.
        + intros H; inversion H; subst. apply (P_scope cur env). chain.
      - destruct s; cbn [call_result]; intros H; inversion H; subst; apply (P_scope cur env); chain.
      - cbn [call_result]. intros H; inversion H; subst. apply (P_scope cur env). chain.
    Qed.

    Lemma evalF_inv : inv_rec (evalF rec).
    Proof.
      intros st cur e st' r. destruct e; cbn [evalF]; try fin.
      - (* EList *) destruct (eval_items rec st cur items) as [? [?|?|]] eqn:E; apply eval_items_inv in E; cbn [bindR]; fin.
      - (* EVar *) destruct (lookup _ _ _); fin.
      - (* ESeq *) destruct (eval_seq rec st cur es) as [? [?|?|]] eqn:E; apply eval_seq_inv in E; cbn [bindR]; fin.
      - (* EDecl *) unfold eval_decl. dr; cbn [bindR]; try fin.
        destruct (declare _ _ _ _) eqn:Ed; [apply P_declare in Ed|]; fin.
      - (* EAssign *) unfold eval_assign. dr; cbn [bindR]; try fin.
        destruct (assign _ _ _ _) eqn:Ed; [apply P_assign in Ed|]; fin.
      - (* EDeclL *) unfold eval_unpack. dr; cbn [bindR]; try fin.
        destruct (unpack _ _); try fin.
        destruct (declare_all _ _ _) as [? [?|?|]] eqn:Ed; apply declare_all_inv in Ed; cbn [bindR]; fin.
      - (* EAssignL *) unfold eval_unpack. dr; cbn [bindR]; try fin.
        destruct (unpack _ _); try fin.
        destruct (assign_all _ _ _) as [? [?|?|]] eqn:Ed; apply assign_all_inv in Ed; cbn [bindR]; fin.
      - (* EIf *) unfold eval_if. dr; cbn [bindR]; try fin.
        destruct (truthy _); [intros H; apply Hrec in H; chain|].
        destruct f; [intros H; apply Hrec in H; chain|fin].
      - (* EWhile *) unfold eval_while.
        destruct (push_frame st cur) as [st1 fr] eqn:Ep.
        assert (Hfr : fr = List.length (frames st)) by (unfold push_frame in Ep; inversion Ep; reflexivity).
        assert (Hst1 : st1 = fst (push_frame st cur)) by (rewrite Ep; reflexivity).
        dr; cbn [bindR]; try (intros H; inversion H; subst; apply (P_scope cur cur); chain).
        destruct (truthy _); [|intros H; inversion H; subst; apply (P_scope cur cur); chain].
        dr; cbn [while_body_result].
        + intros H; apply Hrec in H.
          assert (P cur st s0) by (subst; apply (P_scope cur cur); chain). chain.
        + assert (P cur st s0) by (subst; apply (P_scope cur cur); chain).
          destruct s1 as [[|?] ?|[|?]| | |]; try fin; intros H1; apply Hrec in H1; chain.
        + intros H; inversion H; subst; apply (P_scope cur cur); chain.
      - (* EFor *) unfold eval_for_expr.
        destruct (eval_for rec cls (for_body rec body) st cur []) as [[st1 acc1] r1] eqn:E.
        apply eval_for_inv in E; [|apply for_body_inv].
        unfold for_result. destruct r1 as [?|[[|?] [?|]|[|?]| | |]|]; fin.
      - (* EBreak *) destruct e; [|fin]. dr; fin.
      - (* EReturn *) destruct e; [|fin]. dr; fin.
      - (* ETry *) unfold eval_try. dr; try fin.
        destruct s0; try fin.
        destruct (push_frame s cur) as [st2 fr] eqn:Ep.
        assert (Hfr : fr = List.length (frames s)) by (unfold push_frame in Ep; inversion Ep; reflexivity).
        assert (Hst1 : st2 = fst (push_frame s cur)) by (rewrite Ep; reflexivity).
        destruct (declare_all st2 fr [(x, v)]) as [st3 [?|?|]] eqn:Ed; apply declare_all_inv in Ed; cbn [bindR].
        + intros H; apply Hrec in H. assert (P cur s st') by (subst; apply (P_scope cur cur); chain). chain.
        + intros H; inversion H; subst. assert (P cur s st') by (apply (P_scope cur cur); chain). chain.
        + intros H; inversion H; subst. assert (P cur s st') by (apply (P_scope cur cur); chain). chain.
      - (* EThrow *) dr; fin.
      - (* EAnd *) unfold eval_shortcut. dr; cbn [bindR]; try fin.
        destruct (truthy _); [intros H; apply Hrec in H; chain|fin].
      - (* EOr *) unfold eval_shortcut. dr; cbn [bindR]; try fin.
        destruct (negb _); [intros H; apply Hrec in H; chain|fin].
      - (* ECoalesce *) unfold eval_shortcut. dr; cbn [bindR]; try fin.
        match goal with |- (if match ?x with VNull => _ | _ => _ end then _ else _) = _ -> _ => destruct x end;
          try fin; intros H; apply Hrec in H; chain.
      - (* ECall *) unfold eval_call. dr; cbn [bindR]; try fin.
        destruct (eval_items rec s cur args) as [? [?|?|]] eqn:E2; apply eval_items_inv in E2; cbn [bindR]; try fin.
        intros H. apply (apply_val_inv _ cur) in H. chain.
      - (* EPrim *) destruct (eval_exprs rec st cur args) as [? [?|?|]] eqn:E; apply eval_exprs_inv in E; cbn [bindR]; try fin.
        intros H. apply (prim_apply_inv _ _ _ cur) in H. chain.
      - (* EEval *) dr; unfold eval_result; try fin. destruct s0; fin.
    Qed.
  End WithRecInv.

  Theorem eval_inv : forall n, inv_rec (eval n).
  Proof.
    induction n as [|n IH].
    - intros st cur e st' r H. cbn in H. inversion H. apply P_refl.
    - change (eval (S n)) with (evalF (eval n)). apply evalF_inv. exact IH.
  Qed.
End Inv.

(* ================================================================ 3. store lemmas *)
Lemma nth_error_set_nth_eq {A} : forall (l : list A) n a b,
  nth_error l n = Some b -> nth_error (set_nth n a l) n = Some a.
Proof. induction l as [|c l IH]; intros [|n] a b H; cbn in *; try discriminate; eauto. Qed.

Lemma nth_error_set_nth_neq {A} : forall (l : list A) n m a,
  n <> m -> nth_error (set_nth n a l) m = nth_error l m.
Proof.
  induction l as [|c l IH]; intros [|n] [|m] a H; cbn; try reflexivity; try congruence.
  apply IH. congruence.
Qed.

Lemma length_set_nth {A} : forall (l : list A) n a, List.length (set_nth n a l) = List.length l.
Proof. induction l as [|c l IH]; intros [|n] a; cbn; auto. Qed.

Lemma names_assoc_set : forall x v l, map fst (assoc_set x v l) = map fst l.
Proof.
  induction l as [|[y w] l IH]; cbn; [reflexivity|].
  destruct (String.eqb x y); cbn; congruence.
Qed.

Lemma in_dom_spec : forall x fr, in_dom x fr = true <-> In x (names fr).
Proof.
  intros x fr. unfold in_dom. rewrite existsb_exists. split.
  - intros [y [Hy E]]. apply String.eqb_eq in E. subst. assumption.
  - intros H. exists x. split; [assumption|apply String.eqb_refl].
Qed.

Lemma assoc_in_dom : forall x l, (exists v, assoc x l = Some v) <-> In x (map fst l).
Proof.
  induction l as [|[y w] l IH]; cbn.
  - split; [intros [v H]; discriminate | tauto].
  - destruct (String.eqb x y) eqn:E.
    + apply String.eqb_eq in E. subst. split; eauto.
    + apply String.eqb_neq in E. rewrite IH. split; [tauto|]. intros [C|C]; [congruence|assumption].
Qed.

Lemma assoc_set_same : forall x v l, In x (map fst l) -> assoc x (assoc_set x v l) = Some v.
Proof.
  induction l as [|[y w] l IH]; cbn; [tauto|].
  destruct (String.eqb x y) eqn:E; cbn; rewrite E; [reflexivity|].
  apply String.eqb_neq in E. intros [C|C]; [congruence|auto].
Qed.

Lemma assoc_set_other : forall x y v l, x <> y -> assoc y (assoc_set x v l) = assoc y l.
Proof.
  induction l as [|[z w] l IH]; cbn; [reflexivity|]. intros Hxy.
  destruct (String.eqb x z) eqn:E; cbn.
  - apply String.eqb_eq in E. subst z.
    assert (N : String.eqb y x = false) by (apply String.eqb_neq; congruence). rewrite N. reflexivity.
  - rewrite IH by assumption. reflexivity.
Qed.

(* ================================================================ 4. scope discipline *)
(* what evaluating in frame cur may do to the frames that already exist: nothing to their
   parent links, nothing to the domain of any frame other than cur, and cur only grows *)
Definition preserves (cur : nat) (st st' : state) : Prop :=
  forall f fr, nth_error (frames st) f = Some fr ->
    exists fr', nth_error (frames st') f = Some fr' /\ parent fr' = parent fr /\
      (if Nat.eqb f cur then exists news, names fr' = news ++ names fr else names fr' = names fr).

(* ... and when the work happened in a fresh scope: every existing frame keeps its domain *)
Definition preserves_all (st st' : state) : Prop :=
  forall f fr, nth_error (frames st) f = Some fr ->
    exists fr', nth_error (frames st') f = Some fr' /\ parent fr' = parent fr /\ names fr' = names fr.

Lemma preserves_refl : forall cur st, preserves cur st st.
Proof.
  intros cur st f fr H. exists fr. repeat split; try assumption.
  destruct (Nat.eqb f cur); [exists []|]; reflexivity.
Qed.

Lemma preserves_trans : forall cur a b c, preserves cur a b -> preserves cur b c -> preserves cur a c.
Proof.
  intros cur a b c H1 H2 f fr Hf.
  destruct (H1 f fr Hf) as [fr1 [Hf1 [Hp1 Hn1]]].
  destruct (H2 f fr1 Hf1) as [fr2 [Hf2 [Hp2 Hn2]]].
  exists fr2. repeat split; [assumption|congruence|].
  destruct (Nat.eqb f cur).
  - destruct Hn1 as [n1 Hn1]. destruct Hn2 as [n2 Hn2]. exists (n2 ++ n1). rewrite Hn2, Hn1, app_assoc. reflexivity.
  - congruence.
Qed.

Lemma preserves_declare : forall cur st x v st', declare st cur x v = Some st' -> preserves cur st st'.
Proof.
  intros cur st x v st' H. unfold declare in H.
  destruct (nth_error (frames st) cur) as [frc|] eqn:Ec; [|discriminate].
  destruct (in_dom x frc); inversion H; subst st'; clear H.
  intros f fr Hf. cbn [frames].
  destruct (Nat.eqb f cur) eqn:E.
  - apply Nat.eqb_eq in E. subst f. rewrite Hf in Ec. inversion Ec; subst frc.
    eexists. split; [eapply nth_error_set_nth_eq; eassumption|]. split; [reflexivity|].
    exists [x]. reflexivity.
  - apply Nat.eqb_neq in E. exists fr. rewrite nth_error_set_nth_neq by congruence. auto.
Qed.

Lemma preserves_assign : forall cur st x v st', assign st cur x v = Some st' -> preserves cur st st'.
Proof.
  intros cur st x v st' H. unfold assign in H.
  destruct (resolve (frames st) cur x) as [g|]; [|discriminate].
  destruct (nth_error (frames st) g) as [frg|] eqn:Eg; inversion H; subst st'; clear H.
  intros f fr Hf. cbn [frames].
  destruct (Nat.eq_dec f g) as [->|Hne].
  - rewrite Hf in Eg. inversion Eg; subst frg.
    eexists. split; [eapply nth_error_set_nth_eq; eassumption|]. split; [reflexivity|].
    unfold names. cbn [vars]. rewrite names_assoc_set.
    destruct (Nat.eqb g cur); [exists []|]; reflexivity.
  - exists fr. rewrite nth_error_set_nth_neq by congruence. repeat split; try assumption.
    destruct (Nat.eqb f cur); [exists []|]; reflexivity.
Qed.

Lemma preserves_print : forall cur st vs, preserves cur st (mkState (frames st) (out st ++ [vs])).
Proof.
  intros cur st vs f fr H. exists fr. repeat split; try assumption.
  destruct (Nat.eqb f cur); [exists []|]; reflexivity.
Qed.

Lemma preserves_fresh_all : forall p st st',
  preserves (List.length (frames st)) (fst (push_frame st p)) st' -> preserves_all st st'.
Proof.
  intros p st st' H f fr Hf.
  assert (Hlt : f < List.length (frames st)) by (apply nth_error_Some; congruence).
  destruct (H f fr) as [fr' [Hf' [Hp Hn]]].
  - cbn. rewrite nth_error_app1 by assumption. assumption.
  - exists fr'. repeat split; try assumption.
    destruct (Nat.eqb f (List.length (frames st))) eqn:E; [apply Nat.eqb_eq in E; lia|assumption].
Qed.

Lemma preserves_all_weaken : forall cur st st', preserves_all st st' -> preserves cur st st'.
Proof.
  intros cur st st' H f fr Hf. destruct (H f fr Hf) as [fr' [Hf' [Hp Hn]]].
  exists fr'. repeat split; try assumption.
  destruct (Nat.eqb f cur); [exists []|]; assumption.
Qed.

Lemma preserves_scope : forall cur p st st',
  preserves (List.length (frames st)) (fst (push_frame st p)) st' -> preserves cur st st'.
Proof. intros. apply preserves_all_weaken. eapply preserves_fresh_all. eassumption. Qed.

Lemma preserves_all_trans : forall a b c, preserves_all a b -> preserves_all b c -> preserves_all a c.
Proof.
  intros a b c H1 H2 f fr Hf.
  destruct (H1 f fr Hf) as [fr1 [Hf1 [Hp1 Hn1]]].
  destruct (H2 f fr1 Hf1) as [fr2 [Hf2 [Hp2 Hn2]]].
  exists fr2. repeat split; congruence.
Qed.

Theorem scope_discipline : forall n st cur e st' r,
  eval n st cur e = (st', r) -> preserves cur st st'.
Proof.
  apply (eval_inv preserves preserves_refl preserves_trans preserves_declare preserves_assign
                  preserves_print preserves_scope).
Qed.

(* name resolution from an existing frame only looks at existing frames *)
Lemma resolve_aux_preserved : forall st st', preserves_all st st' ->
  forall d f x, f < List.length (frames st) ->
    resolve_aux d (frames st') f x = resolve_aux d (frames st) f x.
Proof.
  intros st st' H. induction d as [|d IH]; intros f x Hf; cbn [resolve_aux]; [reflexivity|].
  destruct (nth_error (frames st) f) as [fr|] eqn:E; [|apply nth_error_None in E; lia].
  destruct (H f fr E) as [fr' [E' [Hp Hn]]]. rewrite E'.
  unfold in_dom. rewrite Hn, Hp.
  destruct (existsb _ _); [reflexivity|].
  destruct (parent fr) as [p|]; [|reflexivity].
  destruct (Nat.ltb p f) eqn:L; [|reflexivity].
  apply Nat.ltb_lt in L. apply IH. lia.
Qed.

Lemma resolve_preserved : forall st st' f x,
  preserves_all st st' -> f < List.length (frames st) ->
  resolve (frames st') f x = resolve (frames st) f x.
Proof. intros. unfold resolve. apply resolve_aux_preserved; assumption. Qed.

(* the scope-opening constructs: call, while, one pass of a for clause, catch *)
Lemma call_scope : forall n st fv args st' r,
  apply_val (eval n) st fv args = (st', r) -> preserves_all st st'.
Proof.
  intros n st fv args st' r. destruct fv; cbn [apply_val];
    try solve [destruct args as [|[] [|]]; intros H; inversion H; subst; intros f fr Hf; exists fr; auto].
  destruct (push_frame st env) as [st1 fr] eqn:Ep.
  assert (Hfr : fr = List.length (frames st)) by (unfold push_frame in Ep; inversion Ep; reflexivity).
  assert (Hst1 : st1 = fst (push_frame st env)) by (rewrite Ep; reflexivity).
  intros H. apply (preserves_fresh_all env). rewrite <- Hfr, <- Hst1.
  destruct (bind_params (eval n) st1 fr ps args) as [st2 [u|sg|]] eqn:Eb;
    apply (bind_params_inv preserves preserves_refl preserves_trans preserves_declare (eval n) (scope_discipline n)) in Eb;
    cbn [bindR] in H.
  - destruct (eval n st2 fr body) as [st3 r3] eqn:Ebody. apply scope_discipline in Ebody.
    assert (st' = st3) by (destruct r3 as [?|[]|]; cbn in H; inversion H; reflexivity). subst.
    eapply preserves_trans; eassumption.
  - assert (st' = st2) by (destruct sg; cbn in H; inversion H; reflexivity). subst. assumption.
  - cbn in H. inversion H; subst. assumption.
Qed.

Lemma while_scope : forall n st cur c b st' r,
  eval n st cur (EWhile c b) = (st', r) -> preserves_all st st'.
Proof.
  induction n as [|n IH]; intros st cur c b st' r H.
  - cbn in H. inversion H; subst. intros f fr Hf. exists fr. auto.
  - change (eval (S n)) with (evalF (eval n)) in H. cbn [evalF] in H. unfold eval_while in H.
    destruct (push_frame st cur) as [st1 fr] eqn:Ep.
    assert (Hfr : fr = List.length (frames st)) by (unfold push_frame in Ep; inversion Ep; reflexivity).
    assert (Hst1 : st1 = fst (push_frame st cur)) by (rewrite Ep; reflexivity).
    destruct (eval n st1 fr c) as [st2 rc] eqn:Ec. apply scope_discipline in Ec.
    assert (A2 : preserves_all st st2) by (apply (preserves_fresh_all cur); rewrite <- Hfr, <- Hst1; assumption).
    destruct rc as [vc|sg|]; cbn [bindR] in H; try (inversion H; subst; assumption).
    destruct (truthy vc); [|inversion H; subst; assumption].
    destruct (eval n st2 fr b) as [st3 rb] eqn:Eb. apply scope_discipline in Eb.
    assert (A3 : preserves_all st st3).
    { apply (preserves_fresh_all cur). rewrite <- Hfr, <- Hst1. eapply preserves_trans; eassumption. }
    destruct (while_body_result rb).
    + apply IH in H. eapply preserves_all_trans; eassumption.
    + inversion H; subst. assumption.
Qed.

Lemma for_each_scope (k : state -> nat -> list val -> fres) :
  (forall st fr acc st' acc' r, k st fr acc = (st', acc', r) -> preserves fr st st') ->
  forall bss cur st acc st' acc' r,
    for_each k cur bss st acc = (st', acc', r) -> preserves_all st st'.
Proof.
  intros Hk. induction bss as [|bs bss IH]; intros cur st acc st' acc' r; cbn [for_each].
  - intros H; inversion H; subst. intros f fr Hf. exists fr. auto.
  - destruct (push_frame st cur) as [st1 fr] eqn:Ep.
    assert (Hfr : fr = List.length (frames st)) by (unfold push_frame in Ep; inversion Ep; reflexivity).
    assert (Hst1 : st1 = fst (push_frame st cur)) by (rewrite Ep; reflexivity).
    destruct (declare_all st1 fr bs) as [st2 rd] eqn:Ed.
    apply (declare_all_inv preserves preserves_refl preserves_trans preserves_declare) in Ed.
    assert (A2 : preserves_all st st2) by (apply (preserves_fresh_all cur); rewrite <- Hfr, <- Hst1; assumption).
    destruct rd as [u|sg|]; try (intros H; inversion H; subst; assumption).
    destruct (k st2 fr acc) as [[st3 acc3] rk] eqn:Ek. apply Hk in Ek.
    assert (A3 : preserves_all st st3).
    { apply (preserves_fresh_all cur). rewrite <- Hfr, <- Hst1. eapply preserves_trans; eassumption. }
    destruct rk as [u'|sg|]; try (intros H; inversion H; subst; assumption).
    intros H. apply IH in H. eapply preserves_all_trans; eassumption.
Qed.

(* every pass of a for clause (the rest of the clauses and the body) *)
Lemma for_pass_scope : forall n rest body bss cur st acc st' acc' r,
  for_each (eval_for (eval n) rest (for_body (eval n) body)) cur bss st acc = (st', acc', r) ->
  preserves_all st st'.
Proof.
  intros n rest body. apply for_each_scope.
  intros st fr acc st' acc' r H.
  eapply (eval_for_inv preserves preserves_refl preserves_trans preserves_declare preserves_scope
                       (eval n) (scope_discipline n)); [|eassumption].
  apply (for_body_inv preserves preserves_trans (eval n) (scope_discipline n)).
Qed.

Lemma catch_scope : forall n st cur b x h st1 v st' r,
  eval n st cur b = (st1, Sig (SThrow v)) ->
  eval (S n) st cur (ETry b x h) = (st', r) ->
  preserves_all st1 st'.
Proof.
  intros n st cur b x h st1 v st' r Eb H.
  change (eval (S n)) with (evalF (eval n)) in H. cbn [evalF] in H. unfold eval_try in H. rewrite Eb in H.
  destruct (push_frame st1 cur) as [st2 fr] eqn:Ep.
  assert (Hfr : fr = List.length (frames st1)) by (unfold push_frame in Ep; inversion Ep; reflexivity).
  assert (Hst1 : st2 = fst (push_frame st1 cur)) by (rewrite Ep; reflexivity).
  apply (preserves_fresh_all cur). rewrite <- Hfr, <- Hst1.
  destruct (declare_all st2 fr [(x, v)]) as [st3 rd] eqn:Ed.
  apply (declare_all_inv preserves preserves_refl preserves_trans preserves_declare) in Ed.
  destruct rd as [u|sg|]; cbn [bindR] in H; try (inversion H; subst; assumption).
  apply scope_discipline in H. eapply preserves_trans; eassumption.
Qed.
