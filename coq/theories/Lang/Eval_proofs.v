(* Lang/Eval_proofs.v - proofs about the reference interpreter Lang/Eval.v (property C05). *)
From Coq Require Import ZArith String List Bool Lia.
From NV Require Import Lang.Syntax Lang.Eval.
Import ListNotations.
Open Scope string_scope.
Open Scope list_scope.

(* ================================================================ 1. fuel monotonicity *)
Definition rec_t := state -> nat -> expr -> result val.

(* r2 agrees with r1 wherever r1 finishes *)
Definition rec_le (r1 r2 : rec_t) : Prop :=
  forall st cur e, snd (r1 st cur e) <> OutOfFuel -> r2 st cur e = r1 st cur e.

Lemma rec_le_val r1 r2 st cur e st1 (v : val) :
  rec_le r1 r2 -> r1 st cur e = (st1, Val v) -> r2 st cur e = (st1, Val v).
Proof. intros H E. rewrite <- E. apply H. rewrite E. discriminate. Qed.

Lemma rec_le_sig r1 r2 st cur e st1 s :
  rec_le r1 r2 -> r1 st cur e = (st1, Sig s) -> r2 st cur e = (st1, Sig s).
Proof. intros H E. rewrite <- E. apply H. rewrite E. discriminate. Qed.

(* destruct one call of r1 in the goal `snd (.. r1 ..) <> OutOfFuel -> (.. r2 ..) = (.. r1 ..)` *)
Tactic Notation "rec_step" "as" ident(st1) ident(v) ident(sg) :=
  match goal with
  | Hle : rec_le ?r1 ?r2 |- context [?r1 ?st ?cur ?e] =>
      let E := fresh "E" in
      destruct (r1 st cur e) as [st1 [v|sg|]] eqn:E;
      [ rewrite (rec_le_val _ _ _ _ _ _ _ Hle E)
      | rewrite (rec_le_sig _ _ _ _ _ _ _ Hle E)
      | try (cbn; intros; congruence) ]
  end.

Section Mono.
  Variables r1 r2 : rec_t.
  Hypothesis Hle : rec_le r1 r2.

  Lemma eval_items_mono : forall items st cur,
    snd (eval_items r1 st cur items) <> OutOfFuel ->
    eval_items r2 st cur items = eval_items r1 st cur items.
  Proof.
    induction items as [|[sp e] rest IH]; intros st cur; cbn [eval_items]; [reflexivity|].
    rec_step as st1 v sg; cbn [bindR]; try reflexivity.
    destruct sp.
    - destruct (iter_elems v); try reflexivity.
      intros H. rewrite IH; [reflexivity|].
      intro C. apply H. destruct (eval_items r1 st1 cur rest) as [? [?|?|]]; cbn in *; congruence.
    - intros H. rewrite IH; [reflexivity|].
      intro C. apply H. destruct (eval_items r1 st1 cur rest) as [? [?|?|]]; cbn in *; congruence.
  Qed.

  Lemma eval_exprs_mono : forall es st cur,
    snd (eval_exprs r1 st cur es) <> OutOfFuel ->
    eval_exprs r2 st cur es = eval_exprs r1 st cur es.
  Proof. intros. apply eval_items_mono. assumption. Qed.

  Lemma eval_seq_mono : forall es st cur,
    snd (eval_seq r1 st cur es) <> OutOfFuel ->
    eval_seq r2 st cur es = eval_seq r1 st cur es.
  Proof.
    induction es as [|e rest IH]; intros st cur; cbn [eval_seq]; [reflexivity|].
    rec_step as st1 v sg; cbn [bindR]; try reflexivity.
    destruct rest; [reflexivity|]. apply IH.
  Qed.

  Lemma for_each_mono (k1 k2 : state -> nat -> list val -> fres) :
    (forall st fr acc, snd (k1 st fr acc) <> OutOfFuel -> k2 st fr acc = k1 st fr acc) ->
    forall bss cur st acc,
      snd (for_each k1 cur bss st acc) <> OutOfFuel ->
      for_each k2 cur bss st acc = for_each k1 cur bss st acc.
  Proof.
    intros Hk. induction bss as [|bs bss IH]; intros cur st acc; cbn [for_each]; [reflexivity|].
    destruct (push_frame st cur) as [st1 fr].
    destruct (declare_all st1 fr bs) as [st2 [?|?|]]; try reflexivity.
    destruct (k1 st2 fr acc) as [[st3 acc'] [?|?|]] eqn:E.
    - rewrite Hk by (rewrite E; discriminate). rewrite E. apply IH.
    - rewrite Hk by (rewrite E; discriminate). rewrite E. reflexivity.
    - cbn. congruence.
  Qed.

  Lemma eval_for_mono (cb1 cb2 : state -> nat -> list val -> fres) :
    (forall st fr acc, snd (cb1 st fr acc) <> OutOfFuel -> cb2 st fr acc = cb1 st fr acc) ->
    forall cls st cur acc,
      snd (eval_for r1 cls cb1 st cur acc) <> OutOfFuel ->
      eval_for r2 cls cb2 st cur acc = eval_for r1 cls cb1 st cur acc.
  Proof.
    intros Hcb. induction cls as [|c rest IH]; intros st cur acc; cbn [eval_for].
    - destruct (cb1 st cur acc) as [[st1 acc1] [?|?|]] eqn:E.
      + rewrite Hcb by (rewrite E; discriminate). rewrite E. reflexivity.
      + rewrite Hcb by (rewrite E; discriminate). rewrite E. reflexivity.
      + cbn. congruence.
    - rec_step as st1 v sg; try reflexivity.
      destruct c; try (destruct (clause_bindings _ v); try reflexivity; apply for_each_mono; intros; apply IH; assumption).
      destruct (truthy v); [apply IH | reflexivity].
  Qed.

  Lemma for_body_mono body : forall st fr acc,
    snd (for_body r1 body st fr acc) <> OutOfFuel ->
    for_body r2 body st fr acc = for_body r1 body st fr acc.
  Proof.
    intros st fr acc. destruct body; cbn [for_body].
    - rec_step as st1 v sg; reflexivity.
    - rec_step as st1 v sg; reflexivity.
    - rec_step as st1 kv sg; try reflexivity. destruct (key_check kv); try reflexivity.
      rec_step as st2 v2 sg2; reflexivity.
    - rec_step as st1 v1 sg; reflexivity.
  Qed.

  Lemma for_result_oof body r : snd (for_result body r) <> OutOfFuel -> snd r <> OutOfFuel.
  Proof.
    destruct r as [[st acc] [?|?|]]; cbn; try congruence.
  Qed.

  Lemma bind_params_mono : forall st fr ps args,
    snd (bind_params r1 st fr ps args) <> OutOfFuel ->
    bind_params r2 st fr ps args = bind_params r1 st fr ps args.
  Proof.
    intros st fr ps args. unfold bind_params.
    destruct (negb (params_ok ps)); [reflexivity|].
    destruct (scan_params ps 0 None [] (List.length args)) as [[[si|] dip]|]; try reflexivity.
    - intros H. rewrite eval_exprs_mono; [reflexivity|].
      intro C. apply H. destruct (eval_exprs r1 st fr dip) as [? [?|?|]]; cbn in *; congruence.
    - destruct (Nat.eqb _ _); [|reflexivity].
      intros H. rewrite eval_exprs_mono; [reflexivity|].
      intro C. apply H. destruct (eval_exprs r1 st fr dip) as [? [?|?|]]; cbn in *; congruence.
  Qed.

  Lemma apply_val_mono : forall st fv args,
    snd (apply_val r1 st fv args) <> OutOfFuel ->
    apply_val r2 st fv args = apply_val r1 st fv args.
  Proof.
    intros st fv args. destruct fv; cbn [apply_val]; try reflexivity.
    destruct (push_frame st env) as [st1 fr].
    intros H.
    assert (Hb : snd (bind_params r1 st1 fr ps args) <> OutOfFuel).
    { intro C. apply H. destruct (bind_params r1 st1 fr ps args) as [? [?|?|]]; cbn in *; congruence. }
    rewrite (bind_params_mono _ _ _ _ Hb).
    destruct (bind_params r1 st1 fr ps args) as [st2 [u|s|]]; cbn [bindR] in *; try reflexivity.
    revert H. rec_step as st3 v sg; try reflexivity.
  Qed.

  Lemma switch_arms_mono : forall arms st cur v,
    snd (switch_arms r1 st cur v arms) <> OutOfFuel ->
    switch_arms r2 st cur v arms = switch_arms r1 st cur v arms.
  Proof.
    induction arms as [|[p body] rest IH]; intros st cur v; cbn [switch_arms]; [reflexivity|].
    destruct (push_frame st cur) as [st1 fr]. destruct p.
    - destruct v; try apply IH. destruct (Z.eqb z z0); [apply Hle|apply IH].
    - destruct (declare_all st1 fr [(x, v)]) as [st2 [?|?|]]; cbn [bindR]; try reflexivity. apply Hle.
    - apply Hle.
  Qed.

  Lemma evalF_mono : rec_le (evalF r1) (evalF r2).
  Proof.
    intros st cur e. destruct e; cbn [evalF]; try reflexivity.
    - (* EList *) intros H. rewrite eval_items_mono; [reflexivity|].
      intro C. apply H. destruct (eval_items r1 st cur items) as [? [?|?|]]; cbn in *; congruence.
    - (* ESeq *) intros H. rewrite eval_seq_mono; [reflexivity|].
      intro C. apply H. destruct (eval_seq r1 st cur es) as [? [?|?|]]; cbn in *; congruence.
    - (* EDecl *) unfold eval_decl. rec_step as st1 v sg; reflexivity.
    - (* EAssign *) unfold eval_assign. rec_step as st1 v sg; reflexivity.
    - (* EDeclL *) unfold eval_unpack. rec_step as st1 v sg; reflexivity.
    - (* EAssignL *) unfold eval_unpack. rec_step as st1 v sg; reflexivity.
    - (* EIf *) unfold eval_if. rec_step as st1 v sg; cbn [bindR]; try reflexivity.
      destruct (truthy v); [apply Hle|]. destruct f; [apply Hle | reflexivity].
    - (* EWhile *) unfold eval_while. destruct (push_frame st cur) as [st1 fr].
      rec_step as st2 v sg; cbn [bindR]; try reflexivity.
      destruct (truthy v); [|reflexivity].
      rec_step as st3 v3 sg3; cbn [while_body_result]; try reflexivity.
      + apply Hle.
      + destruct sg3 as [[|n] vo|[|n]| | |]; try reflexivity; apply Hle.
    - (* EFor *) unfold eval_for_expr.
      assert (Hfor : forall st0, snd (for_result body (eval_for r1 cls (for_body r1 body) st0 cur [])) <> OutOfFuel ->
                for_result body (eval_for r2 cls (for_body r2 body) st0 cur []) =
                for_result body (eval_for r1 cls (for_body r1 body) st0 cur [])).
      { intros st0 H. apply for_result_oof in H.
        rewrite (eval_for_mono (for_body r1 body) (for_body r2 body) (for_body_mono body)); [reflexivity|assumption]. }
      destruct body as [b|b|kb vb|b [| | | | |fe]]; try apply Hfor.
      + (* into len *) intros H. rewrite Hfor; [reflexivity|].
        intro C. apply H. destruct (for_result _ _) as [? [?|?|]]; cbn in *; congruence.
      + (* into f *) rec_step as st0 fv sg; cbn [bindR]; try reflexivity.
        intros H.
        assert (Hf : snd (for_result (FYieldInto b (RFun fe)) (eval_for r1 cls (for_body r1 (FYieldInto b (RFun fe))) st0 cur [])) <> OutOfFuel).
        { intro C. apply H. destruct (for_result _ _) as [? [?|?|]]; cbn in *; congruence. }
        rewrite (Hfor _ Hf).
        destruct (for_result _ _) as [st2 [v|sg2|]]; cbn [bindR] in *; try reflexivity.
        apply apply_val_mono. assumption.
    - (* EBreak *) destruct e; [|reflexivity]. rec_step as st1 v sg; reflexivity.
    - (* EReturn *) destruct e; [|reflexivity]. rec_step as st1 v sg; reflexivity.
    - (* ETry *) unfold eval_try. rec_step as st1 v0 sg; try reflexivity.
      destruct sg; try reflexivity.
      destruct (push_frame st1 cur) as [st2 fr].
      destruct (declare_all st2 fr [(x, v)]) as [st3 [?|?|]]; cbn [bindR]; try reflexivity.
      apply Hle.
    - (* ETryP *) unfold eval_tryp. rec_step as st1 v0 sg; try reflexivity.
      destruct sg; try reflexivity.
      destruct (match_cpat p v); try reflexivity.
      destruct (push_frame st1 cur) as [st2 fr].
      destruct (declare_all st2 fr a) as [st3 [?|?|]]; cbn [bindR]; try reflexivity.
      apply Hle.
    - (* EThrow *) rec_step as st1 v sg; reflexivity.
    - (* EAnd *) unfold eval_shortcut. rec_step as st1 v sg; cbn [bindR]; try reflexivity.
      destruct (truthy v); [apply Hle | reflexivity].
    - (* EOr *) unfold eval_shortcut. rec_step as st1 v sg; cbn [bindR]; try reflexivity.
      destruct (negb (truthy v)); [apply Hle | reflexivity].
    - (* ECoalesce *) unfold eval_shortcut. rec_step as st1 v sg; cbn [bindR]; try reflexivity.
      destruct v; try reflexivity; apply Hle.
    - (* ECall *) unfold eval_call. rec_step as st1 fv sg; cbn [bindR]; try reflexivity.
      intros H.
      assert (Hi : snd (eval_items r1 st1 cur args) <> OutOfFuel).
      { intro C. apply H. destruct (eval_items r1 st1 cur args) as [? [?|?|]]; cbn in *; congruence. }
      rewrite (eval_items_mono _ _ _ Hi).
      destruct (eval_items r1 st1 cur args) as [st2 [vs|sg2|]]; cbn [bindR] in *; try reflexivity.
      apply apply_val_mono. assumption.
    - (* EPrim *) intros H. rewrite eval_exprs_mono; [reflexivity|].
      intro C. apply H. destruct (eval_exprs r1 st cur args) as [? [?|?|]]; cbn in *; congruence.
    - (* EEval *) rec_step as st1 v sg; try reflexivity.
    - (* ESwitch *) unfold eval_switch. rec_step as st1 v sg; cbn [bindR]; try reflexivity.
      apply switch_arms_mono.
  Qed.
End Mono.

Lemma eval_step_le : forall n, rec_le (eval n) (eval (S n)).
Proof.
  induction n as [|n IH].
  - intros st cur e H. cbn in H. congruence.
  - change (eval (S (S n))) with (evalF (eval (S n))). change (eval (S n)) with (evalF (eval n)) at 1.
    apply evalF_mono. exact IH.
Qed.

Lemma fuel_monotone : forall n m st cur e,
  n <= m -> snd (eval n st cur e) <> OutOfFuel -> eval m st cur e = eval n st cur e.
Proof.
  intros n m st cur e Hnm. induction Hnm as [|m Hnm IH]; intros H; [reflexivity|].
  rewrite <- (IH H). apply eval_step_le. rewrite (IH H). exact H.
Qed.

(* the interpreter defines a partial function: two finished runs agree whatever their fuel *)
Lemma fuel_deterministic : forall n m st cur e,
  snd (eval n st cur e) <> OutOfFuel -> snd (eval m st cur e) <> OutOfFuel ->
  eval n st cur e = eval m st cur e.
Proof.
  intros n m st cur e Hn Hm. destruct (Nat.le_ge_cases n m) as [L|L].
  - symmetry. apply fuel_monotone; assumption.
  - apply fuel_monotone; assumption.
Qed.

(* ================================================================ 2. a generic store invariant
   Any relation P cur st st' ("what evaluating in frame cur may do to the state") that is a
   preorder, is established by the primitive store operations on the current frame, and can be
   forgotten when the work happened in a freshly pushed frame, holds of every evaluation. *)
Section Inv.
  Variable P : nat -> state -> state -> Prop.
  Hypothesis P_refl : forall cur st, P cur st st.
  Hypothesis P_trans : forall cur a b c, P cur a b -> P cur b c -> P cur a c.
  Hypothesis P_declare : forall cur st x v st', declare st cur x v = Some st' -> P cur st st'.
  Hypothesis P_assign : forall cur st x v st', assign st cur x v = Some st' -> P cur st st'.
  Hypothesis P_print : forall cur st vs, P cur st (mkState (frames st) (out st ++ [vs])).
  Hypothesis P_scope : forall cur p st st',
    P (List.length (frames st)) (fst (push_frame st p)) st' -> P cur st st'.

  Ltac chain :=
    first [ eassumption | apply P_refl | (eapply P_trans; [eassumption | chain]) ].
  Ltac fin := let Heq := fresh "Heq" in intros Heq; inversion Heq; subst; clear Heq; chain.

  Definition inv_rec (rec : rec_t) : Prop :=
    forall st cur e st' r, rec st cur e = (st', r) -> P cur st st'.

  Lemma declare_all_inv : forall bs st f st' r,
    declare_all st f bs = (st', r) -> P f st st'.
  Proof.
    induction bs as [|[x v] bs IH]; intros st f st' r; cbn [declare_all].
    - fin.
    - destruct (declare st f x v) as [st1|] eqn:E.
      + intros H. apply IH in H. apply P_declare in E. chain.
      + fin.
  Qed.

  Lemma assign_all_inv : forall bs st f st' r,
    assign_all st f bs = (st', r) -> P f st st'.
  Proof.
    induction bs as [|[x v] bs IH]; intros st f st' r; cbn [assign_all].
    - fin.
    - destruct (assign st f x v) as [st1|] eqn:E.
      + intros H. apply IH in H. apply P_assign in E. chain.
      + fin.
  Qed.

  Lemma prim_apply_inv : forall p vs st cur st' r, prim_apply p vs st = (st', r) -> P cur st st'.
  Proof.
    intros p vs st cur st' r H.
    assert (st' = st \/ st' = mkState (frames st) (out st ++ [vs])) as [->| ->]; [|apply P_refl|apply P_print].
    unfold prim_apply, ret, unsupported in H.
    repeat match type of H with
           | (match ?x with _ => _ end) = _ => destruct x
           | (if ?x then _ else _) = _ => destruct x
           end; inversion H; auto.
  Qed.

  Section WithRecInv.
    Variable rec : rec_t.
    Hypothesis Hrec : inv_rec rec.

    Ltac dr :=
      match goal with
      | |- context [rec ?st ?cur ?e] =>
          let E := fresh "E" in
          destruct (rec st cur e) as [? [?|?|]] eqn:E; apply Hrec in E
      end.

    Lemma eval_items_inv : forall items st cur st' r,
      eval_items rec st cur items = (st', r) -> P cur st st'.
    Proof.
      induction items as [|[sp e] rest IH]; intros st cur st' r; cbn [eval_items]; [fin|].
      dr; cbn [bindR]; try fin.
      destruct sp; [destruct (iter_elems _); try fin|];
        (destruct (eval_items rec _ cur rest) as [? [?|?|]] eqn:E2; apply IH in E2; cbn [bindR]; fin).
    Qed.

    Lemma eval_exprs_inv : forall es st cur st' r,
      eval_exprs rec st cur es = (st', r) -> P cur st st'.
    Proof. intros es st cur st' r. apply eval_items_inv. Qed.

    Lemma eval_seq_inv : forall es st cur st' r,
      eval_seq rec st cur es = (st', r) -> P cur st st'.
    Proof.
      induction es as [|e rest IH]; intros st cur st' r; cbn [eval_seq]; [fin|].
      dr; cbn [bindR]; try fin.
      destruct rest; [fin|]. intros H. apply IH in H. chain.
    Qed.

    Lemma for_each_inv (k : state -> nat -> list val -> fres) :
      (forall st fr acc st' acc' r, k st fr acc = (st', acc', r) -> P fr st st') ->
      forall bss cur st acc st' acc' r,
        for_each k cur bss st acc = (st', acc', r) -> P cur st st'.
    Proof.
      intros Hk. induction bss as [|bs bss IH]; intros cur st acc st' acc' r; cbn [for_each]; [fin|].
      destruct (push_frame st cur) as [st1 fr] eqn:Ep.
      assert (Hfr : fr = List.length (frames st)) by (unfold push_frame in Ep; inversion Ep; reflexivity).
      assert (Hst1 : st1 = fst (push_frame st cur)) by (rewrite Ep; reflexivity).
      destruct (declare_all st1 fr bs) as [st2 [?|?|]] eqn:Ed; apply declare_all_inv in Ed.
      - destruct (k st2 fr acc) as [[st3 acc3] [?|?|]] eqn:Ek; apply Hk in Ek.
        + intros H. apply IH in H.
          assert (P cur st st3) by (apply (P_scope cur cur); subst; chain). chain.
        + intros H; inversion H; subst st' fr st1. apply (P_scope cur cur). chain.
        + intros H; inversion H; subst st' fr st1. apply (P_scope cur cur). chain.
      - intros H; inversion H; subst st' fr st1. apply (P_scope cur cur). chain.
      - intros H; inversion H; subst st' fr st1. apply (P_scope cur cur). chain.
    Qed.

    Lemma eval_for_inv (cb : state -> nat -> list val -> fres) :
      (forall st fr acc st' acc' r, cb st fr acc = (st', acc', r) -> P fr st st') ->
      forall cls st cur acc st' acc' r,
        eval_for rec cls cb st cur acc = (st', acc', r) -> P cur st st'.
    Proof.
      intros Hcb. induction cls as [|c rest IH]; intros st cur acc st' acc' r; cbn [eval_for].
      - destruct (cb st cur acc) as [[st1 acc1] [?|?|]] eqn:E; apply Hcb in E; try fin.
        destruct s as [? ?|[|?]| | |]; fin.
      - dr; try fin.
        assert (Hb : forall bss, for_each (eval_for rec rest cb) cur bss s acc = (st', acc', r) -> P cur st st').
        { intros bss H. apply for_each_inv in H; [chain|]. intros; eapply IH; eassumption. }
        destruct c; try (destruct (clause_bindings _ _); [apply Hb|fin|fin]).
        destruct (truthy _); [|fin]. intros H. apply IH in H. chain.
    Qed.

    Lemma for_body_inv body : forall st fr acc st' acc' r,
      for_body rec body st fr acc = (st', acc', r) -> P fr st st'.
    Proof.
      intros st fr acc st' acc' r. destruct body; cbn [for_body].
      - dr; fin.
      - dr; fin.
      - dr; try fin. destruct (key_check _); try fin. dr; fin.
      - dr; try fin.
        match goal with |- context [match ?rd with RFirst => _ | _ => _ end] => destruct rd end; try fin.
        match goal with |- context [match ?v with VInt _ => _ | _ => _ end] => destruct v end; fin.
    Qed.

    Lemma bind_params_inv : forall st fr ps args st' r,
      bind_params rec st fr ps args = (st', r) -> P fr st st'.
    Proof.
      intros st fr ps args st' r. unfold bind_params.
      destruct (negb (params_ok ps)); [fin|].
      destruct (scan_params ps 0 None [] (List.length args)) as [[[si|] dip]|]; try fin.
      - destruct (eval_exprs rec st fr dip) as [st1 [dvs|?|]] eqn:E; apply eval_exprs_inv in E; cbn [bindR]; try fin.
        destruct (Nat.ltb _ _); [fin|]. intros H. apply declare_all_inv in H. chain.
      - destruct (Nat.eqb _ _); [|fin].
        destruct (eval_exprs rec st fr dip) as [st1 [dvs|?|]] eqn:E; apply eval_exprs_inv in E; cbn [bindR]; try fin.
        intros H. apply declare_all_inv in H. chain.
    Qed.

    Lemma apply_val_inv : forall st cur fv args st' r,
      apply_val rec st fv args = (st', r) -> P cur st st'.
    Proof.
      intros st cur fv args st' r. destruct fv; cbn [apply_val];
        try (destruct args as [|[] [|]]; fin).
      destruct (push_frame st env) as [st1 fr] eqn:Ep.
      assert (Hfr : fr = List.length (frames st)) by (unfold push_frame in Ep; inversion Ep; reflexivity).
      assert (Hst1 : st1 = fst (push_frame st env)) by (rewrite Ep; reflexivity).
      destruct (bind_params rec st1 fr ps args) as [st2 [u|?|]] eqn:Eb; apply bind_params_inv in Eb; cbn [bindR].
      - dr; cbn [call_result].
        + intros H; inversion H; subst. apply (P_scope cur env). chain.
        + destruct s0; intros H; inversion H; subst; apply (P_scope cur env); chain.
        + intros H; inversion H; subst. apply (P_scope cur env). chain.
      - destruct s; cbn [call_result]; intros H; inversion H; subst; apply (P_scope cur env); chain.
      - cbn [call_result]. intros H; inversion H; subst. apply (P_scope cur env). chain.
    Qed.

    Lemma switch_arms_inv : forall arms st cur v st' r,
      switch_arms rec st cur v arms = (st', r) -> P cur st st'.
    Proof.
      induction arms as [|[p body] rest IH]; intros st cur v st' r; cbn [switch_arms]; [fin|].
      destruct (push_frame st cur) as [st1 fr] eqn:Ep.
      assert (Hfr : fr = List.length (frames st)) by (unfold push_frame in Ep; inversion Ep; reflexivity).
      assert (Hst1 : st1 = fst (push_frame st cur)) by (rewrite Ep; reflexivity).
      assert (Hpush : P cur st st1) by (subst; apply (P_scope cur cur); apply P_refl).
      assert (Hbody : forall b, rec st1 fr b = (st', r) -> P cur st st').
      { intros b H. apply Hrec in H. subst. apply (P_scope cur cur). assumption. }
      assert (Hrest : switch_arms rec st1 cur v rest = (st', r) -> P cur st st').
      { intros H. apply IH in H. chain. }
      destruct p.
      - destruct v; try exact Hrest. destruct (Z.eqb _ _); [apply Hbody|exact Hrest].
      - destruct (declare_all st1 fr [(x, v)]) as [st2 [?|?|]] eqn:Ed; apply declare_all_inv in Ed; cbn [bindR].
        + intros H. apply Hrec in H. subst. apply (P_scope cur cur). chain.
        + intros H; inversion H; subst. apply (P_scope cur cur). chain.
        + intros H; inversion H; subst. apply (P_scope cur cur). chain.
      - apply Hbody.
    Qed.

    Lemma evalF_inv : inv_rec (evalF rec).
    Proof.
      intros st cur e st' r. destruct e; cbn [evalF]; try fin.
      - (* EList *) destruct (eval_items rec st cur items) as [? [?|?|]] eqn:E; apply eval_items_inv in E; cbn [bindR]; fin.
      - (* EVar *) destruct (lookup _ _ _); fin.
      - (* ESeq *) destruct (eval_seq rec st cur es) as [? [?|?|]] eqn:E; apply eval_seq_inv in E; cbn [bindR]; fin.
      - (* EDecl *) unfold eval_decl. dr; cbn [bindR]; try fin.
        destruct (declare _ _ _ _) eqn:Ed; [apply P_declare in Ed|]; fin.
      - (* EAssign *) unfold eval_assign. dr; cbn [bindR]; try fin.
        destruct (assign _ _ _ _) eqn:Ed; [apply P_assign in Ed|]; fin.
      - (* EDeclL *) unfold eval_unpack. dr; cbn [bindR]; try fin.
        destruct (unpack _ _); try fin.
        destruct (declare_all _ _ _) as [? [?|?|]] eqn:Ed; apply declare_all_inv in Ed; cbn [bindR]; fin.
      - (* EAssignL *) unfold eval_unpack. dr; cbn [bindR]; try fin.
        destruct (unpack _ _); try fin.
        destruct (assign_all _ _ _) as [? [?|?|]] eqn:Ed; apply assign_all_inv in Ed; cbn [bindR]; fin.
      - (* EIf *) unfold eval_if. dr; cbn [bindR]; try fin.
        destruct (truthy _); [intros H; apply Hrec in H; chain|].
        destruct f; [intros H; apply Hrec in H; chain|fin].
      - (* EWhile *) unfold eval_while.
        destruct (push_frame st cur) as [st1 fr] eqn:Ep.
        assert (Hfr : fr = List.length (frames st)) by (unfold push_frame in Ep; inversion Ep; reflexivity).
        assert (Hst1 : st1 = fst (push_frame st cur)) by (rewrite Ep; reflexivity).
        dr; cbn [bindR]; try (intros H; inversion H; subst; apply (P_scope cur cur); chain).
        destruct (truthy _); [|intros H; inversion H; subst; apply (P_scope cur cur); chain].
        dr; cbn [while_body_result].
        + intros H; apply Hrec in H.
          assert (P cur st s0) by (subst; apply (P_scope cur cur); chain). chain.
        + assert (P cur st s0) by (subst; apply (P_scope cur cur); chain).
          destruct s1 as [[|?] ?|[|?]| | |]; try fin; intros H1; apply Hrec in H1; chain.
        + intros H; inversion H; subst; apply (P_scope cur cur); chain.
      - (* EFor *) unfold eval_for_expr.
        assert (Hfor : forall st0 st2 r2,
                  for_result body (eval_for rec cls (for_body rec body) st0 cur []) = (st2, r2) -> P cur st0 st2).
        { intros st0 st2 r2.
          destruct (eval_for rec cls (for_body rec body) st0 cur []) as [[st1 acc1] r1] eqn:E.
          apply eval_for_inv in E; [|apply for_body_inv].
          unfold for_result, finish_res.
          destruct r1 as [?|[[|?] [?|]|[|?]| | |]|]; try fin;
            (destruct body as [?|?|? ?|? []]; try fin; destruct acc1; fin). }
        destruct body as [b|b|kb vb|b [| | | | |fe]]; try (intros H; eapply Hfor; eassumption).
        + destruct (for_result _ _) as [st2 [v|?|]] eqn:E; apply Hfor in E; cbn [bindR]; try fin.
          intros H. apply (prim_apply_inv _ _ _ cur) in H. chain.
        + dr; cbn [bindR]; try fin.
          destruct (for_result _ _) as [st2 [v2|?|]] eqn:E2; apply Hfor in E2; cbn [bindR]; try fin.
          intros H. apply (apply_val_inv _ cur) in H. chain.
      - (* EBreak *) destruct e; [|fin]. dr; fin.
      - (* EReturn *) destruct e; [|fin]. dr; fin.
      - (* ETry *) unfold eval_try. dr; try fin.
        destruct s0; try fin.
        destruct (push_frame s cur) as [st2 fr] eqn:Ep.
        assert (Hfr : fr = List.length (frames s)) by (unfold push_frame in Ep; inversion Ep; reflexivity).
        assert (Hst1 : st2 = fst (push_frame s cur)) by (rewrite Ep; reflexivity).
        destruct (declare_all st2 fr [(x, v)]) as [st3 [?|?|]] eqn:Ed; apply declare_all_inv in Ed; cbn [bindR].
        + intros H; apply Hrec in H. assert (P cur s st') by (subst; apply (P_scope cur cur); chain). chain.
        + intros H; inversion H; subst. assert (P cur s st') by (apply (P_scope cur cur); chain). chain.
        + intros H; inversion H; subst. assert (P cur s st') by (apply (P_scope cur cur); chain). chain.
      - (* ETryP *) unfold eval_tryp. dr; try fin.
        destruct s0; try fin.
        destruct (match_cpat p v) as [bs| |]; try fin.
        destruct (push_frame s cur) as [st2 fr] eqn:Ep.
        assert (Hfr : fr = List.length (frames s)) by (unfold push_frame in Ep; inversion Ep; reflexivity).
        assert (Hst1 : st2 = fst (push_frame s cur)) by (rewrite Ep; reflexivity).
        destruct (declare_all st2 fr bs) as [st3 [?|?|]] eqn:Ed; apply declare_all_inv in Ed; cbn [bindR].
        + intros H; apply Hrec in H. assert (P cur s st') by (subst; apply (P_scope cur cur); chain). chain.
        + intros H; inversion H; subst. assert (P cur s st') by (apply (P_scope cur cur); chain). chain.
        + intros H; inversion H; subst. assert (P cur s st') by (apply (P_scope cur cur); chain). chain.
      - (* EThrow *) dr; fin.
      - (* EAnd *) unfold eval_shortcut. dr; cbn [bindR]; try fin.
        destruct (truthy _); [intros H; apply Hrec in H; chain|fin].
      - (* EOr *) unfold eval_shortcut. dr; cbn [bindR]; try fin.
        destruct (negb _); [intros H; apply Hrec in H; chain|fin].
      - (* ECoalesce *) unfold eval_shortcut. dr; cbn [bindR]; try fin.
        match goal with |- (if match ?x with VNull => _ | _ => _ end then _ else _) = _ -> _ => destruct x end;
          try fin; intros H; apply Hrec in H; chain.
      - (* ECall *) unfold eval_call. dr; cbn [bindR]; try fin.
        destruct (eval_items rec s cur args) as [? [?|?|]] eqn:E2; apply eval_items_inv in E2; cbn [bindR]; try fin.
        intros H. apply (apply_val_inv _ cur) in H. chain.
      - (* EPrim *) destruct (eval_exprs rec st cur args) as [? [?|?|]] eqn:E; apply eval_exprs_inv in E; cbn [bindR]; try fin.
        intros H. apply (prim_apply_inv _ _ _ cur) in H. chain.
      - (* EEval *) dr; unfold eval_result; try fin. destruct s0; fin.
      - (* ESwitch *) unfold eval_switch. dr; cbn [bindR]; try fin.
        intros H. apply switch_arms_inv in H. chain.
    Qed.
  End WithRecInv.

  Theorem eval_inv : forall n, inv_rec (eval n).
  Proof.
    induction n as [|n IH].
    - intros st cur e st' r H. cbn in H. inversion H. apply P_refl.
    - change (eval (S n)) with (evalF (eval n)). apply evalF_inv. exact IH.
  Qed.
End Inv.

(* ================================================================ 3. store lemmas *)
Lemma nth_error_set_nth_eq {A} : forall (l : list A) n a b,
  nth_error l n = Some b -> nth_error (set_nth n a l) n = Some a.
Proof. induction l as [|c l IH]; intros [|n] a b H; cbn in *; try discriminate; eauto. Qed.

Lemma nth_error_set_nth_neq {A} : forall (l : list A) n m a,
  n <> m -> nth_error (set_nth n a l) m = nth_error l m.
Proof.
  induction l as [|c l IH]; intros [|n] [|m] a H; cbn; try reflexivity; try congruence.
  apply IH. congruence.
Qed.

Lemma length_set_nth {A} : forall (l : list A) n a, List.length (set_nth n a l) = List.length l.
Proof. induction l as [|c l IH]; intros [|n] a; cbn; auto. Qed.

Lemma names_assoc_set : forall x v l, map fst (assoc_set x v l) = map fst l.
Proof.
  induction l as [|[y w] l IH]; cbn; [reflexivity|].
  destruct (String.eqb x y); cbn; congruence.
Qed.

Lemma in_dom_spec : forall x fr, in_dom x fr = true <-> In x (names fr).
Proof.
  intros x fr. unfold in_dom. rewrite existsb_exists. split.
  - intros [y [Hy E]]. apply String.eqb_eq in E. subst. assumption.
  - intros H. exists x. split; [assumption|apply String.eqb_refl].
Qed.

Lemma assoc_in_dom : forall x l, (exists v, assoc x l = Some v) <-> In x (map fst l).
Proof.
  induction l as [|[y w] l IH]; cbn.
  - split; [intros [v H]; discriminate | tauto].
  - destruct (String.eqb x y) eqn:E.
    + apply String.eqb_eq in E. subst. split; eauto.
    + apply String.eqb_neq in E. rewrite IH. split; [tauto|]. intros [C|C]; [congruence|assumption].
Qed.

Lemma assoc_set_same : forall x v l, In x (map fst l) -> assoc x (assoc_set x v l) = Some v.
Proof.
  induction l as [|[y w] l IH]; cbn; [tauto|].
  destruct (String.eqb x y) eqn:E; cbn; rewrite E; [reflexivity|].
  apply String.eqb_neq in E. intros [C|C]; [congruence|auto].
Qed.

Lemma assoc_set_other : forall x y v l, x <> y -> assoc y (assoc_set x v l) = assoc y l.
Proof.
  induction l as [|[z w] l IH]; cbn; [reflexivity|]. intros Hxy.
  destruct (String.eqb x z) eqn:E; cbn.
  - apply String.eqb_eq in E. subst z.
    assert (N : String.eqb y x = false) by (apply String.eqb_neq; congruence). rewrite N. reflexivity.
  - rewrite IH by assumption. reflexivity.
Qed.

(* ================================================================ 4. scope discipline *)
(* what evaluating in frame cur may do to the frames that already exist: nothing to their
   parent links, nothing to the domain of any frame other than cur, and cur only grows *)
Definition preserves (cur : nat) (st st' : state) : Prop :=
  forall f fr, nth_error (frames st) f = Some fr ->
    exists fr', nth_error (frames st') f = Some fr' /\ parent fr' = parent fr /\
      (if Nat.eqb f cur then exists news, names fr' = news ++ names fr else names fr' = names fr).

(* ... and when the work happened in a fresh scope: every existing frame keeps its domain *)
Definition preserves_all (st st' : state) : Prop :=
  forall f fr, nth_error (frames st) f = Some fr ->
    exists fr', nth_error (frames st') f = Some fr' /\ parent fr' = parent fr /\ names fr' = names fr.

Lemma preserves_refl : forall cur st, preserves cur st st.
Proof.
  intros cur st f fr H. exists fr. repeat split; try assumption.
  destruct (Nat.eqb f cur); [exists []|]; reflexivity.
Qed.

Lemma preserves_trans : forall cur a b c, preserves cur a b -> preserves cur b c -> preserves cur a c.
Proof.
  intros cur a b c H1 H2 f fr Hf.
  destruct (H1 f fr Hf) as [fr1 [Hf1 [Hp1 Hn1]]].
  destruct (H2 f fr1 Hf1) as [fr2 [Hf2 [Hp2 Hn2]]].
  exists fr2. repeat split; [assumption|congruence|].
  destruct (Nat.eqb f cur).
  - destruct Hn1 as [n1 Hn1]. destruct Hn2 as [n2 Hn2]. exists (n2 ++ n1). rewrite Hn2, Hn1, app_assoc. reflexivity.
  - congruence.
Qed.

Lemma preserves_declare : forall cur st x v st', declare st cur x v = Some st' -> preserves cur st st'.
Proof.
  intros cur st x v st' H. unfold declare in H.
  destruct (nth_error (frames st) cur) as [frc|] eqn:Ec; [|discriminate].
  destruct (in_dom x frc); inversion H; subst st'; clear H.
  intros f fr Hf. cbn [frames].
  destruct (Nat.eqb f cur) eqn:E.
  - apply Nat.eqb_eq in E. subst f. rewrite Hf in Ec. inversion Ec; subst frc.
    eexists. split; [eapply nth_error_set_nth_eq; eassumption|]. split; [reflexivity|].
    exists [x]. reflexivity.
  - apply Nat.eqb_neq in E. exists fr. rewrite nth_error_set_nth_neq by congruence. auto.
Qed.

Lemma preserves_assign : forall cur st x v st', assign st cur x v = Some st' -> preserves cur st st'.
Proof.
  intros cur st x v st' H. unfold assign in H.
  destruct (resolve (frames st) cur x) as [g|]; [|discriminate].
  destruct (nth_error (frames st) g) as [frg|] eqn:Eg; inversion H; subst st'; clear H.
  intros f fr Hf. cbn [frames].
  destruct (Nat.eq_dec f g) as [->|Hne].
  - rewrite Hf in Eg. inversion Eg; subst frg.
    eexists. split; [eapply nth_error_set_nth_eq; eassumption|]. split; [reflexivity|].
    unfold names. cbn [vars]. rewrite names_assoc_set.
    destruct (Nat.eqb g cur); [exists []|]; reflexivity.
  - exists fr. rewrite nth_error_set_nth_neq by congruence. repeat split; try assumption.
    destruct (Nat.eqb f cur); [exists []|]; reflexivity.
Qed.

Lemma preserves_print : forall cur st vs, preserves cur st (mkState (frames st) (out st ++ [vs])).
Proof.
  intros cur st vs f fr H. exists fr. repeat split; try assumption.
  destruct (Nat.eqb f cur); [exists []|]; reflexivity.
Qed.

Lemma preserves_fresh_all : forall p st st',
  preserves (List.length (frames st)) (fst (push_frame st p)) st' -> preserves_all st st'.
Proof.
  intros p st st' H f fr Hf.
  assert (Hlt : f < List.length (frames st)) by (apply nth_error_Some; congruence).
  destruct (H f fr) as [fr' [Hf' [Hp Hn]]].
  - cbn. rewrite nth_error_app1 by assumption. assumption.
  - exists fr'. repeat split; try assumption.
    destruct (Nat.eqb f (List.length (frames st))) eqn:E; [apply Nat.eqb_eq in E; lia|assumption].
Qed.

Lemma preserves_all_weaken : forall cur st st', preserves_all st st' -> preserves cur st st'.
Proof.
  intros cur st st' H f fr Hf. destruct (H f fr Hf) as [fr' [Hf' [Hp Hn]]].
  exists fr'. repeat split; try assumption.
  destruct (Nat.eqb f cur); [exists []|]; assumption.
Qed.

Lemma preserves_scope : forall cur p st st',
  preserves (List.length (frames st)) (fst (push_frame st p)) st' -> preserves cur st st'.
Proof. intros. apply preserves_all_weaken. eapply preserves_fresh_all. eassumption. Qed.

Lemma preserves_all_trans : forall a b c, preserves_all a b -> preserves_all b c -> preserves_all a c.
Proof.
  intros a b c H1 H2 f fr Hf.
  destruct (H1 f fr Hf) as [fr1 [Hf1 [Hp1 Hn1]]].
  destruct (H2 f fr1 Hf1) as [fr2 [Hf2 [Hp2 Hn2]]].
  exists fr2. repeat split; congruence.
Qed.

Lemma push_preserves_all : forall st p, preserves_all st (fst (push_frame st p)).
Proof.
  intros st p f fr Hf. exists fr. cbn [push_frame fst frames].
  rewrite nth_error_app1 by (apply nth_error_Some; congruence). auto.
Qed.

Theorem scope_discipline : forall n st cur e st' r,
  eval n st cur e = (st', r) -> preserves cur st st'.
Proof.
  apply (eval_inv preserves preserves_refl preserves_trans preserves_declare preserves_assign
                  preserves_print preserves_scope).
Qed.

(* name resolution from an existing frame only looks at existing frames *)
Lemma resolve_aux_preserved : forall st st', preserves_all st st' ->
  forall d f x, f < List.length (frames st) ->
    resolve_aux d (frames st') f x = resolve_aux d (frames st) f x.
Proof.
  intros st st' H. induction d as [|d IH]; intros f x Hf; cbn [resolve_aux]; [reflexivity|].
  destruct (nth_error (frames st) f) as [fr|] eqn:E; [|apply nth_error_None in E; lia].
  destruct (H f fr E) as [fr' [E' [Hp Hn]]]. rewrite E'.
  unfold in_dom. rewrite Hn, Hp.
  destruct (existsb _ _); [reflexivity|].
  destruct (parent fr) as [p|]; [|reflexivity].
  destruct (Nat.ltb p f) eqn:L; [|reflexivity].
  apply Nat.ltb_lt in L. apply IH. lia.
Qed.

Lemma resolve_preserved : forall st st' f x,
  preserves_all st st' -> f < List.length (frames st) ->
  resolve (frames st') f x = resolve (frames st) f x.
Proof. intros. unfold resolve. apply resolve_aux_preserved; assumption. Qed.

(* the scope-opening constructs: call, while, one pass of a for clause, catch *)
Lemma call_scope : forall n st fv args st' r,
  apply_val (eval n) st fv args = (st', r) -> preserves_all st st'.
Proof.
  intros n st fv args st' r. destruct fv; cbn [apply_val];
    try solve [destruct args as [|[] [|]]; intros H; inversion H; subst; intros f fr Hf; exists fr; auto].
  destruct (push_frame st env) as [st1 fr] eqn:Ep.
  assert (Hfr : fr = List.length (frames st)) by (unfold push_frame in Ep; inversion Ep; reflexivity).
  assert (Hst1 : st1 = fst (push_frame st env)) by (rewrite Ep; reflexivity).
  intros H. apply (preserves_fresh_all env). rewrite <- Hfr, <- Hst1.
  destruct (bind_params (eval n) st1 fr ps args) as [st2 [u|sg|]] eqn:Eb;
    apply (bind_params_inv preserves preserves_refl preserves_trans preserves_declare (eval n) (scope_discipline n)) in Eb;
    cbn [bindR] in H.
  - destruct (eval n st2 fr body) as [st3 r3] eqn:Ebody. apply scope_discipline in Ebody.
    assert (st' = st3) by (destruct r3 as [?|[]|]; cbn in H; inversion H; reflexivity). subst.
    eapply preserves_trans; eassumption.
  - assert (st' = st2) by (destruct sg; cbn in H; inversion H; reflexivity). subst. assumption.
  - cbn in H. inversion H; subst. assumption.
Qed.

Lemma while_scope : forall n st cur c b st' r,
  eval n st cur (EWhile c b) = (st', r) -> preserves_all st st'.
Proof.
  induction n as [|n IH]; intros st cur c b st' r H.
  - cbn in H. inversion H; subst. intros f fr Hf. exists fr. auto.
  - change (eval (S n)) with (evalF (eval n)) in H. cbn [evalF] in H. unfold eval_while in H.
    destruct (push_frame st cur) as [st1 fr] eqn:Ep.
    assert (Hfr : fr = List.length (frames st)) by (unfold push_frame in Ep; inversion Ep; reflexivity).
    assert (Hst1 : st1 = fst (push_frame st cur)) by (rewrite Ep; reflexivity).
    destruct (eval n st1 fr c) as [st2 rc] eqn:Ec. apply scope_discipline in Ec.
    assert (A2 : preserves_all st st2) by (apply (preserves_fresh_all cur); rewrite <- Hfr, <- Hst1; assumption).
    destruct rc as [vc|sg|]; cbn [bindR] in H; try (inversion H; subst; assumption).
    destruct (truthy vc); [|inversion H; subst; assumption].
    destruct (eval n st2 fr b) as [st3 rb] eqn:Eb. apply scope_discipline in Eb.
    assert (A3 : preserves_all st st3).
    { apply (preserves_fresh_all cur). rewrite <- Hfr, <- Hst1. eapply preserves_trans; eassumption. }
    destruct (while_body_result rb).
    + apply IH in H. eapply preserves_all_trans; eassumption.
    + inversion H; subst. assumption.
Qed.

Lemma for_each_scope (k : state -> nat -> list val -> fres) :
  (forall st fr acc st' acc' r, k st fr acc = (st', acc', r) -> preserves fr st st') ->
  forall bss cur st acc st' acc' r,
    for_each k cur bss st acc = (st', acc', r) -> preserves_all st st'.
Proof.
  intros Hk. induction bss as [|bs bss IH]; intros cur st acc st' acc' r; cbn [for_each].
  - intros H; inversion H; subst. intros f fr Hf. exists fr. auto.
  - destruct (push_frame st cur) as [st1 fr] eqn:Ep.
    assert (Hfr : fr = List.length (frames st)) by (unfold push_frame in Ep; inversion Ep; reflexivity).
    assert (Hst1 : st1 = fst (push_frame st cur)) by (rewrite Ep; reflexivity).
    destruct (declare_all st1 fr bs) as [st2 rd] eqn:Ed.
    apply (declare_all_inv preserves preserves_refl preserves_trans preserves_declare) in Ed.
    assert (A2 : preserves_all st st2) by (apply (preserves_fresh_all cur); rewrite <- Hfr, <- Hst1; assumption).
    destruct rd as [u|sg|]; try (intros H; inversion H; subst; assumption).
    destruct (k st2 fr acc) as [[st3 acc3] rk] eqn:Ek. apply Hk in Ek.
    assert (A3 : preserves_all st st3).
    { apply (preserves_fresh_all cur). rewrite <- Hfr, <- Hst1. eapply preserves_trans; eassumption. }
    destruct rk as [u'|sg|]; try (intros H; inversion H; subst; assumption).
    intros H. apply IH in H. eapply preserves_all_trans; eassumption.
Qed.

(* every pass of a for clause (the rest of the clauses and the body) *)
Lemma for_pass_scope : forall n rest body bss cur st acc st' acc' r,
  for_each (eval_for (eval n) rest (for_body (eval n) body)) cur bss st acc = (st', acc', r) ->
  preserves_all st st'.
Proof.
  intros n rest body. apply for_each_scope.
  intros st fr acc st' acc' r H.
  eapply (eval_for_inv preserves preserves_refl preserves_trans preserves_declare preserves_scope
                       (eval n) (scope_discipline n)); [|eassumption].
  apply (for_body_inv preserves preserves_trans (eval n) (scope_discipline n)).
Qed.

(* all the arms of a switch, tried in turn *)
Lemma switch_scope : forall n arms st cur v st' r,
  switch_arms (eval n) st cur v arms = (st', r) -> preserves_all st st'.
Proof.
  intros n. induction arms as [|[p body] rest IH]; intros st cur v st' r; cbn [switch_arms].
  - intros H; inversion H; subst. intros f fr Hf. exists fr. auto.
  - destruct (push_frame st cur) as [st1 fr] eqn:Ep.
    assert (Hfr : fr = List.length (frames st)) by (unfold push_frame in Ep; inversion Ep; reflexivity).
    assert (Hst1 : st1 = fst (push_frame st cur)) by (rewrite Ep; reflexivity).
    assert (Hpush : preserves_all st st1) by (subst; apply push_preserves_all).
    assert (Hbody : forall b, eval n st1 fr b = (st', r) -> preserves_all st st').
    { intros b H. apply scope_discipline in H. apply (preserves_fresh_all cur). rewrite <- Hfr, <- Hst1. assumption. }
    assert (Hrest : switch_arms (eval n) st1 cur v rest = (st', r) -> preserves_all st st').
    { intros H. apply IH in H. eapply preserves_all_trans; eassumption. }
    destruct p.
    + destruct v; try exact Hrest. destruct (Z.eqb _ _); [apply Hbody|exact Hrest].
    + destruct (declare_all st1 fr [(x, v)]) as [st2 rd] eqn:Ed.
      apply (declare_all_inv preserves preserves_refl preserves_trans preserves_declare) in Ed.
      intros H. apply (preserves_fresh_all cur). rewrite <- Hfr, <- Hst1.
      destruct rd as [u|sg|]; cbn [bindR] in H; try (inversion H; subst; assumption).
      apply scope_discipline in H. eapply preserves_trans; eassumption.
    + apply Hbody.
Qed.

Lemma catch_scope : forall n st cur b x h st1 v st' r,
  eval n st cur b = (st1, Sig (SThrow v)) ->
  eval (S n) st cur (ETry b x h) = (st', r) ->
  preserves_all st1 st'.
Proof.
  intros n st cur b x h st1 v st' r Eb H.
  change (eval (S n)) with (evalF (eval n)) in H. cbn [evalF] in H. unfold eval_try in H. rewrite Eb in H.
  destruct (push_frame st1 cur) as [st2 fr] eqn:Ep.
  assert (Hfr : fr = List.length (frames st1)) by (unfold push_frame in Ep; inversion Ep; reflexivity).
  assert (Hst1 : st2 = fst (push_frame st1 cur)) by (rewrite Ep; reflexivity).
  apply (preserves_fresh_all cur). rewrite <- Hfr, <- Hst1.
  destruct (declare_all st2 fr [(x, v)]) as [st3 rd] eqn:Ed.
  apply (declare_all_inv preserves preserves_refl preserves_trans preserves_declare) in Ed.
  destruct rd as [u|sg|]; cbn [bindR] in H; try (inversion H; subst; assumption).
  apply scope_discipline in H. eapply preserves_trans; eassumption.
Qed.

(* ================================================================ 5. resolution: nearest enclosing declaration *)
(* walking up from frame f, g is the first frame that declares x *)
Inductive nearest (fs : list frame) (x : name) : nat -> nat -> Prop :=
| nearest_here f fr : nth_error fs f = Some fr -> in_dom x fr = true -> nearest fs x f f
| nearest_up f fr p g :
    nth_error fs f = Some fr -> in_dom x fr = false -> parent fr = Some p -> p < f ->
    nearest fs x p g -> nearest fs x f g.

Lemma resolve_aux_nearest : forall fs x d f g, resolve_aux d fs f x = Some g -> nearest fs x f g.
Proof.
  intros fs x. induction d as [|d IH]; intros f g; cbn [resolve_aux]; [discriminate|].
  destruct (nth_error fs f) as [fr|] eqn:E; [|discriminate].
  destruct (in_dom x fr) eqn:D.
  - intros H; inversion H; subst. eapply nearest_here; eassumption.
  - destruct (parent fr) as [p|] eqn:Ep; [|discriminate].
    destruct (Nat.ltb p f) eqn:L; [|discriminate]. apply Nat.ltb_lt in L.
    intros H. eapply nearest_up; eauto.
Qed.

Lemma nearest_resolve_aux : forall fs x f g, nearest fs x f g -> forall d, f < d -> resolve_aux d fs f x = Some g.
Proof.
  intros fs x f g H. induction H as [f fr E D | f fr p g E D Ep L H IH]; intros d Hd;
    (destruct d as [|d]; [lia|]); cbn [resolve_aux]; rewrite E, D.
  - reflexivity.
  - rewrite Ep. assert (Lb : Nat.ltb p f = true) by (apply Nat.ltb_lt; assumption). rewrite Lb. apply IH. lia.
Qed.

Theorem resolve_nearest : forall fs f x g, resolve fs f x = Some g <-> nearest fs x f g.
Proof.
  intros fs f x g. unfold resolve. split.
  - apply resolve_aux_nearest.
  - intros H. apply (nearest_resolve_aux _ _ _ _ H). lia.
Qed.

Lemma nearest_fun : forall fs x f g1 g2, nearest fs x f g1 -> nearest fs x f g2 -> g1 = g2.
Proof.
  intros fs x f g1 g2 H. revert g2. induction H as [f fr E D | f fr p g E D Ep L H IH]; intros g2 H2.
  - inversion H2; subst; [reflexivity|congruence].
  - inversion H2; subst; [congruence|]. apply IH. congruence.
Qed.

Lemma resolve_aux_depth : forall fs x f d, f < d -> resolve_aux d fs f x = resolve fs f x.
Proof.
  intros fs x f d Hd. unfold resolve.
  destruct (resolve_aux (S f) fs f x) as [g|] eqn:E.
  - apply resolve_aux_nearest in E. apply (nearest_resolve_aux _ _ _ _ E). assumption.
  - destruct (resolve_aux d fs f x) as [g|] eqn:E2; [|reflexivity].
    apply resolve_aux_nearest in E2. rewrite (nearest_resolve_aux _ _ _ _ E2 (S f)) in E by lia. discriminate.
Qed.

Lemma resolve_some_frame : forall fs f x g,
  resolve fs f x = Some g -> exists fr, nth_error fs g = Some fr /\ In x (names fr) /\ g <= f.
Proof.
  intros fs f x g H. apply resolve_nearest in H.
  induction H as [f fr E D | f fr p g E D Ep L H IH].
  - exists fr. repeat split; [assumption|apply in_dom_spec; assumption|lia].
  - destruct IH as [fr' [A [B C]]]. exists fr'. repeat split; [assumption|assumption|lia].
Qed.

(* ================================================================ 6. `:=` and `=` *)
Lemma declare_spec : forall st cur x v fr,
  nth_error (frames st) cur = Some fr ->
  (In x (names fr) -> declare st cur x v = None) /\
  (~ In x (names fr) ->
     declare st cur x v = Some (mkState (set_nth cur (mkFrame (parent fr) ((x, v) :: vars fr)) (frames st)) (out st))).
Proof.
  intros st cur x v fr E. unfold declare. rewrite E.
  destruct (in_dom x fr) eqn:D.
  - split; [reflexivity|]. intros N. apply in_dom_spec in D. contradiction.
  - split; [|reflexivity]. intros I. apply in_dom_spec in I. congruence.
Qed.

(* x := e, once e has produced v: it fails iff x is already declared in the CURRENT frame
   (outer declarations do not matter); otherwise the current frame, and only it, gets x = v *)
Theorem declare_rule : forall n st cur x e st1 v fr,
  eval n st cur e = (st1, Val v) ->
  nth_error (frames st1) cur = Some fr ->
  (In x (names fr) -> eval (S n) st cur (EDecl x e) = (st1, Sig (SThrow VErr))) /\
  (~ In x (names fr) ->
     exists st2, eval (S n) st cur (EDecl x e) = (st2, Val VNull) /\
       out st2 = out st1 /\
       nth_error (frames st2) cur = Some (mkFrame (parent fr) ((x, v) :: vars fr)) /\
       (forall f, f <> cur -> nth_error (frames st2) f = nth_error (frames st1) f) /\
       lookup (frames st2) cur x = Some v).
Proof.
  intros n st cur x e st1 v fr E Efr.
  change (eval (S n)) with (evalF (eval n)). cbn [evalF]. unfold eval_decl. rewrite E. cbn [bindR].
  destruct (declare_spec st1 cur x v fr Efr) as [A B]. split.
  - intros I. rewrite (A I). reflexivity.
  - intros N. rewrite (B N). eexists. split; [reflexivity|]. cbn [frames out].
    assert (Hn : nth_error (set_nth cur (mkFrame (parent fr) ((x, v) :: vars fr)) (frames st1)) cur
                 = Some (mkFrame (parent fr) ((x, v) :: vars fr)))
      by (eapply nth_error_set_nth_eq; eassumption).
    repeat split.
    + assumption.
    + intros f Hf. apply nth_error_set_nth_neq. congruence.
    + unfold lookup, resolve. cbn [resolve_aux]. rewrite Hn.
      unfold in_dom, names. cbn [vars map fst existsb]. rewrite String.eqb_refl. cbn [orb].
      rewrite Hn. cbn [vars assoc]. rewrite String.eqb_refl. reflexivity.
Qed.

Lemma assign_preserves_all : forall st cur x v st', assign st cur x v = Some st' -> preserves_all st st'.
Proof.
  intros st cur x v st' H. unfold assign in H.
  destruct (resolve (frames st) cur x) as [g|]; [|discriminate].
  destruct (nth_error (frames st) g) as [frg|] eqn:Eg; inversion H; subst st'; clear H.
  intros f fr Hf. cbn [frames].
  destruct (Nat.eq_dec f g) as [->|Hne].
  - rewrite Hf in Eg. inversion Eg; subst frg.
    eexists. split; [eapply nth_error_set_nth_eq; eassumption|]. split; [reflexivity|].
    unfold names. cbn [vars]. apply names_assoc_set.
  - exists fr. rewrite nth_error_set_nth_neq by congruence. auto.
Qed.

Lemma resolve_out_of_range : forall fs f x, List.length fs <= f -> resolve fs f x = None.
Proof.
  intros fs f x H. unfold resolve. cbn [resolve_aux].
  destruct (nth_error fs f) eqn:E; [|reflexivity].
  assert (f < List.length fs) by (apply nth_error_Some; congruence). lia.
Qed.

(* x = e, once e has produced v: it fails iff no enclosing frame declares x; otherwise it
   rewrites x in the NEAREST enclosing declaring frame g and nothing else: no other frame, no
   other variable, no domain *)
Theorem assign_rule : forall n st cur x e st1 v,
  eval n st cur e = (st1, Val v) ->
  (resolve (frames st1) cur x = None -> eval (S n) st cur (EAssign x e) = (st1, Sig (SThrow VErr))) /\
  (forall g, resolve (frames st1) cur x = Some g ->
     exists fr st2, nth_error (frames st1) g = Some fr /\ nearest (frames st1) x cur g /\
       eval (S n) st cur (EAssign x e) = (st2, Val VNull) /\ out st2 = out st1 /\
       nth_error (frames st2) g = Some (mkFrame (parent fr) (assoc_set x v (vars fr))) /\
       (forall f, f <> g -> nth_error (frames st2) f = nth_error (frames st1) f) /\
       lookup (frames st2) cur x = Some v /\
       (forall f y, y <> x -> lookup (frames st2) f y = lookup (frames st1) f y)).
Proof.
  intros n st cur x e st1 v E.
  change (eval (S n)) with (evalF (eval n)). cbn [evalF]. unfold eval_assign. rewrite E. cbn [bindR].
  split.
  - intros R. unfold assign. rewrite R. reflexivity.
  - intros g R. destruct (resolve_some_frame _ _ _ _ R) as [fr [Eg [Ix Hle]]].
    assert (Ha : assign st1 cur x v = Some (mkState (set_nth g (mkFrame (parent fr) (assoc_set x v (vars fr))) (frames st1)) (out st1)))
      by (unfold assign; rewrite R, Eg; reflexivity).
    pose proof (assign_preserves_all _ _ _ _ _ Ha) as Hall.
    exists fr, (mkState (set_nth g (mkFrame (parent fr) (assoc_set x v (vars fr))) (frames st1)) (out st1)).
    rewrite Ha. cbn [frames out].
    assert (Hn : nth_error (set_nth g (mkFrame (parent fr) (assoc_set x v (vars fr))) (frames st1)) g
                 = Some (mkFrame (parent fr) (assoc_set x v (vars fr))))
      by (eapply nth_error_set_nth_eq; eassumption).
    assert (Hlen : forall f, f < List.length (frames st1) ->
              forall y, resolve (set_nth g (mkFrame (parent fr) (assoc_set x v (vars fr))) (frames st1)) f y
                        = resolve (frames st1) f y).
    { intros f Hf y. apply (resolve_preserved st1 _ f y Hall Hf). }
    repeat split; try assumption; try reflexivity.
    + apply resolve_nearest. assumption.
    + intros f Hf. apply nth_error_set_nth_neq. congruence.
    + unfold lookup. rewrite Hlen.
      * rewrite R, Hn. cbn [vars]. apply assoc_set_same. assumption.
      * destruct (Nat.lt_ge_cases cur (List.length (frames st1))) as [L|L]; [assumption|].
        rewrite resolve_out_of_range in R by assumption. discriminate.
    + intros f y Hy. unfold lookup.
      destruct (Nat.lt_ge_cases f (List.length (frames st1))) as [L|L].
      * rewrite Hlen by assumption.
        destruct (resolve (frames st1) f y) as [h|]; [|reflexivity].
        destruct (Nat.eq_dec h g) as [->|Hne].
        -- rewrite Hn, Eg. cbn [vars]. apply assoc_set_other. congruence.
        -- rewrite nth_error_set_nth_neq by congruence. reflexivity.
      * rewrite !resolve_out_of_range; [reflexivity|assumption|rewrite length_set_nth; assumption].
Qed.

(* ================================================================ 7. signals: who absorbs what *)
(* While: with a true condition, the body's outcome decides *)
Theorem while_absorbs_one_level : forall n st cur c b st2 vc st3 r,
  eval n (fst (push_frame st cur)) (List.length (frames st)) c = (st2, Val vc) -> truthy vc = true ->
  eval n st2 (List.length (frames st)) b = (st3, r) ->
  eval (S n) st cur (EWhile c b) =
    match r with
    | Val _ => eval n st3 cur (EWhile c b)
    | Sig (SContinue O) => eval n st3 cur (EWhile c b)
    | Sig (SBreak O v) => (st3, Val (match v with Some w => w | None => VNull end))
    | Sig (SBreak (S k) v) => (st3, Sig (SBreak k v))
    | Sig (SContinue (S k)) => (st3, Sig (SContinue k))
    | _ => (st3, r)
    end.
Proof.
  intros n st cur c b st2 vc st3 r Ec Ht Eb.
  change (eval (S n)) with (evalF (eval n)). cbn [evalF]. unfold eval_while.
  cbn [push_frame fst] in *. rewrite Ec. cbn [bindR]. rewrite Ht, Eb.
  destruct r as [?|[[|?] ?|[|?]| | |]|]; reflexivity.
Qed.

(* a false condition ends the loop with null; a signal from the condition is not absorbed *)
Theorem while_condition : forall n st cur c b st2 rc,
  eval n (fst (push_frame st cur)) (List.length (frames st)) c = (st2, rc) ->
  (forall vc, rc = Val vc -> truthy vc = false -> eval (S n) st cur (EWhile c b) = (st2, Val VNull)) /\
  (forall s, rc = Sig s -> eval (S n) st cur (EWhile c b) = (st2, Sig s)).
Proof.
  intros n st cur c b st2 rc Ec.
  change (eval (S n)) with (evalF (eval n)). cbn [evalF]. unfold eval_while.
  cbn [push_frame fst] in *. rewrite Ec. split.
  - intros vc -> Ht. cbn [bindR]. rewrite Ht. reflexivity.
  - intros s ->. reflexivity.
Qed.

(* For: the loop as a whole absorbs one level; the innermost pass absorbs `continue` *)
Theorem for_absorbs_one_level : forall n st cur cls body,
  match body with
  | FYieldInto _ (RFun _) | FYieldInto _ RLen => True     (* these post-process the outcome *)
  | _ => eval (S n) st cur (EFor cls body) = for_result body (eval_for (eval n) cls (for_body (eval n) body) st cur [])
  end /\
  (forall st' acc k v, for_result body (st', acc, Sig (SBreak (S k) v)) = (st', Sig (SBreak k v))) /\
  (forall st' acc k, for_result body (st', acc, Sig (SContinue (S k))) = (st', Sig (SContinue k))) /\
  (forall st' acc v, for_result body (st', acc, Sig (SBreak O (Some v))) = (st', Val v)) /\
  (forall st' acc, for_result body (st', acc, Sig (SBreak O None)) = finish_res st' body acc) /\
  (forall st' acc v, for_result body (st', acc, Sig (SReturn v)) = (st', Sig (SReturn v))) /\
  (forall st' acc v, for_result body (st', acc, Sig (SThrow v)) = (st', Sig (SThrow v))) /\
  (forall cb st' fr acc st'' acc',
     cb st' fr acc = (st'', acc', Sig (SContinue O)) ->
     eval_for (eval n) [] cb st' fr acc = (st'', acc', Val tt)).
Proof.
  intros n st cur cls body. repeat split; try reflexivity.
  { destruct body as [b|b|kb vb|b [| | | | |fe]]; try reflexivity; exact I. }
  intros cb st' fr acc st'' acc' H. cbn [eval_for]. rewrite H. reflexivity.
Qed.

(* Closure::run: once the arguments are bound, only Return is turned into a value *)
Theorem call_absorbs_only_return : forall n st ps body env args st2 st3 r,
  bind_params (eval n) (fst (push_frame st env)) (List.length (frames st)) ps args = (st2, Val tt) ->
  eval n st2 (List.length (frames st)) body = (st3, r) ->
  apply_val (eval n) st (VClos ps body env) args =
    (st3, match r with Sig (SReturn v) => Val v | _ => r end).
Proof.
  intros n st ps body env args st2 st3 r Eb Ebody.
  cbn [apply_val push_frame fst] in *. rewrite Eb. cbn [bindR]. rewrite Ebody.
  destruct r as [?|[]|]; reflexivity.
Qed.

Lemma set_nth_app_length {A} : forall (l : list A) a b, set_nth (List.length l) a (l ++ [b]) = l ++ [a].
Proof. induction l as [|c l IH]; intros a b; cbn; [reflexivity|]. rewrite IH. reflexivity. Qed.

Lemma nth_error_app_length {A} : forall (l : list A) a, nth_error (l ++ [a]) (List.length l) = Some a.
Proof. intros. rewrite nth_error_app2 by lia. rewrite Nat.sub_diag. reflexivity. Qed.

(* declaring into a just-pushed frame always succeeds *)
Lemma declare_fresh : forall st p x v,
  declare (fst (push_frame st p)) (List.length (frames st)) x v =
  Some (mkState (frames st ++ [mkFrame (Some p) [(x, v)]]) (out st)).
Proof.
  intros st p x v. unfold declare. cbn [push_frame fst frames out].
  rewrite nth_error_app_length. cbn [in_dom names vars map existsb parent].
  rewrite set_nth_app_length. reflexivity.
Qed.

(* Try: everything but a Throw passes through untouched; a Throw runs the handler in a fresh
   frame that holds the thrown value *)
Theorem try_catches_only_throw : forall n st cur b x h st1 r,
  eval n st cur b = (st1, r) ->
  ((forall v, r <> Sig (SThrow v)) -> eval (S n) st cur (ETry b x h) = (st1, r)) /\
  (forall v, r = Sig (SThrow v) ->
     eval (S n) st cur (ETry b x h) =
     eval n (mkState (frames st1 ++ [mkFrame (Some cur) [(x, v)]]) (out st1)) (List.length (frames st1)) h).
Proof.
  intros n st cur b x h st1 r E.
  change (eval (S n)) with (evalF (eval n)). cbn [evalF]. unfold eval_try. rewrite E. split.
  - intros H. destruct r as [?|[]|]; try reflexivity. exfalso. eapply H. reflexivity.
  - intros v ->. cbn [declare_all].
    change (fst (push_frame st1 cur)) with (fst (push_frame st1 cur)).
    pose proof (declare_fresh st1 cur x v) as D. cbn [push_frame fst] in D |- *. rewrite D. reflexivity.
Qed.

(* and / or / coalesce: when the left operand decides, the result is exactly the left
   operand's result - same value, same store, same output: the right operand is not evaluated *)
Theorem short_circuit : forall n st cur a b st1 v,
  eval n st cur a = (st1, Val v) ->
  (truthy v = false -> eval (S n) st cur (EAnd a b) = (st1, Val v)) /\
  (truthy v = true -> eval (S n) st cur (EOr a b) = (st1, Val v)) /\
  (v <> VNull -> eval (S n) st cur (ECoalesce a b) = (st1, Val v)) /\
  (truthy v = true -> eval (S n) st cur (EAnd a b) = eval n st1 cur b) /\
  (truthy v = false -> eval (S n) st cur (EOr a b) = eval n st1 cur b) /\
  (v = VNull -> eval (S n) st cur (ECoalesce a b) = eval n st1 cur b).
Proof.
  intros n st cur a b st1 v E.
  change (eval (S n)) with (evalF (eval n)). cbn [evalF]. unfold eval_shortcut. rewrite E. cbn [bindR].
  repeat split; intros H; try rewrite H; try reflexivity.
  destruct v; try reflexivity. congruence.
Qed.

(* a signal raised by the left operand is the result, whatever the right operand is *)
Theorem short_circuit_signal : forall n st cur a b st1 s,
  eval n st cur a = (st1, Sig s) ->
  eval (S n) st cur (EAnd a b) = (st1, Sig s) /\ eval (S n) st cur (EOr a b) = (st1, Sig s) /\
  eval (S n) st cur (ECoalesce a b) = (st1, Sig s).
Proof.
  intros n st cur a b st1 s E.
  change (eval (S n)) with (evalF (eval n)). cbn [evalF]. unfold eval_shortcut. rewrite E. auto.
Qed.

(* ================================================================ 8. lexical scoping *)
(* the outcome of a call depends on the store, the callee and the arguments: if the callee
   and argument expressions evaluate alike from two frames, so does the call *)
Theorem lexical_scoping : forall n st cur1 cur2 fe args st1 fv st2 vs,
  eval n st cur1 fe = (st1, Val fv) -> eval n st cur2 fe = (st1, Val fv) ->
  eval_items (eval n) st1 cur1 args = (st2, Val vs) -> eval_items (eval n) st1 cur2 args = (st2, Val vs) ->
  eval (S n) st cur1 (ECall fe args) = apply_val (eval n) st2 fv vs /\
  eval (S n) st cur2 (ECall fe args) = apply_val (eval n) st2 fv vs.
Proof.
  intros n st cur1 cur2 fe args st1 fv st2 vs E1 E2 A1 A2.
  change (eval (S n)) with (evalF (eval n)). cbn [evalF]. unfold eval_call.
  rewrite E1, E2. cbn [bindR]. rewrite A1, A2. auto.
Qed.

(* a free variable of a closure body is looked up along the DEFINING frame's chain *)
Lemma lookup_from_fresh : forall st env y,
  env < List.length (frames st) ->
  lookup (frames (fst (push_frame st env))) (List.length (frames st)) y = lookup (frames st) env y.
Proof.
  intros st env y Henv. unfold lookup.
  assert (R : resolve (frames (fst (push_frame st env))) (List.length (frames st)) y = resolve (frames st) env y).
  { unfold resolve at 1. cbn [resolve_aux push_frame fst frames].
    rewrite nth_error_app_length. cbn [in_dom names vars map existsb parent].
    assert (L : Nat.ltb env (List.length (frames st)) = true) by (apply Nat.ltb_lt; assumption). rewrite L.
    rewrite resolve_aux_depth by assumption.
    apply (resolve_preserved st (fst (push_frame st env)) env y (push_preserves_all st env) Henv). }
  rewrite R. destruct (resolve (frames st) env y) as [g|] eqn:Eg; [|reflexivity].
  destruct (resolve_some_frame _ _ _ _ Eg) as [fr [Efr [_ Hle]]].
  cbn [push_frame fst frames]. rewrite nth_error_app1 by lia. reflexivity.
Qed.

(* the body `y` of a parameterless closure evaluates to y's value in the DEFINING scope,
   from whichever frame it is called (even one that binds y differently) *)
Theorem closure_reads_defining_scope : forall n st env y v,
  env < List.length (frames st) -> lookup (frames st) env y = Some v ->
  apply_val (eval (S n)) st (VClos [] (EVar y) env) [] = (fst (push_frame st env), Val v).
Proof.
  intros n st env y v Henv Hl.
  cbn [apply_val push_frame bind_params params_ok forallb negb scan_params List.length rev Nat.eqb Nat.add
       eval_exprs map eval_items ret bindR combine declare_all app].
  change (eval (S n)) with (evalF (eval n)). cbn [evalF].
  pose proof (lookup_from_fresh st env y Henv) as L. cbn [push_frame fst] in L. rewrite L, Hl. reflexivity.
Qed.

(* ================================================================ 9. closures capture variables *)
Lemma assign_lookup : forall st cur x v st' env,
  assign st cur x v = Some st' ->
  resolve (frames st) env x = resolve (frames st) cur x ->
  lookup (frames st') env x = Some v.
Proof.
  intros st cur x v st' env Ha Hr.
  pose proof (assign_preserves_all _ _ _ _ _ Ha) as Hall.
  unfold assign in Ha.
  destruct (resolve (frames st) cur x) as [g|] eqn:R; [|discriminate].
  destruct (resolve_some_frame _ _ _ _ R) as [fr [Eg [Ix _]]]. rewrite Eg in Ha. inversion Ha; subst st'; clear Ha.
  unfold lookup.
  assert (Henv : env < List.length (frames st)).
  { destruct (Nat.lt_ge_cases env (List.length (frames st))) as [L|L]; [assumption|].
    rewrite resolve_out_of_range in Hr by assumption. discriminate. }
  rewrite (resolve_preserved st _ env x Hall Henv), Hr. cbn [frames].
  erewrite nth_error_set_nth_eq by eassumption. cbn [vars]. apply assoc_set_same. assumption.
Qed.

(* a write to a captured variable, made after the closure was built, from anywhere the same
   variable is visible, is what the next call of the closure reads *)
Theorem capture_by_variable : forall n st cur x v st' env,
  assign st cur x v = Some st' ->
  resolve (frames st) env x = resolve (frames st) cur x ->
  apply_val (eval (S n)) st' (VClos [] (EVar x) env) [] = (fst (push_frame st' env), Val v).
Proof.
  intros n st cur x v st' env Ha Hr.
  apply closure_reads_defining_scope.
  - assert (Henv : env < List.length (frames st)).
    { destruct (Nat.lt_ge_cases env (List.length (frames st))) as [L|L]; [assumption|].
      rewrite resolve_out_of_range in Hr by assumption.
      unfold assign in Ha. rewrite <- Hr in Ha. discriminate. }
    unfold assign in Ha. destruct (resolve (frames st) cur x); [|discriminate].
    destruct (nth_error (frames st) n0); inversion Ha. cbn [frames]. rewrite length_set_nth. assumption.
  - eapply assign_lookup; eassumption.
Qed.

(* ================================================================ 10. one fresh variable per iteration *)
Fixpoint clos_from (x : name) (base : nat) (xs : list val) : list val :=
  match xs with
  | [] => []
  | _ :: r => VClos [] (EVar x) base :: clos_from x (S base) r
  end.

Definition iter_frames (cur : nat) (x : name) (xs : list val) : list frame :=
  map (fun el => mkFrame (Some cur) [(x, el)]) xs.

Lemma declare_all_fresh1 : forall st p x v,
  declare_all (fst (push_frame st p)) (List.length (frames st)) [(x, v)] =
  (mkState (frames st ++ [mkFrame (Some p) [(x, v)]]) (out st), Val tt).
Proof. intros. cbn [declare_all]. rewrite declare_fresh. reflexivity. Qed.

Lemma for_each_closures : forall n x cur xs st acc,
  for_each (eval_for (eval (S n)) [] (for_body (eval (S n)) (FYield (ELam [] (EVar x))))) cur
           (map (fun el => [(x, el)]) xs) st acc
  = (mkState (frames st ++ iter_frames cur x xs) (out st), acc ++ clos_from x (List.length (frames st)) xs, Val tt).
Proof.
  intros n x cur. induction xs as [|el xs IH]; intros st acc.
  - cbn. rewrite !app_nil_r. destruct st; reflexivity.
  - cbn [map for_each].
    pose proof (declare_all_fresh1 st cur x el) as D. cbn [push_frame fst] in D |- *. rewrite D.
    cbn [eval_for for_body]. change (eval (S n)) with (evalF (eval n)) at 1. cbn [evalF ret].
    rewrite IH. cbn [frames out iter_frames map clos_from].
    rewrite app_length. cbn [List.length]. rewrite Nat.add_1_r, <- !app_assoc. reflexivity.
Qed.

Lemma clos_from_nth : forall x xs base i el,
  nth_error xs i = Some el -> nth_error (clos_from x base xs) i = Some (VClos [] (EVar x) (base + i)).
Proof.
  intros x. induction xs as [|a xs IH]; intros base [|i] el H; cbn in *; try discriminate.
  - rewrite Nat.add_0_r. reflexivity.
  - rewrite (IH (S base) i el H). f_equal. f_equal. lia.
Qed.

Lemma eval_for_iter : forall rec x le rest cb st cur acc st1 xs,
  rec st cur le = (st1, Val (VList xs)) ->
  eval_for rec (CIter x le :: rest) cb st cur acc =
  for_each (eval_for rec rest cb) cur (map (fun el => [(x, el)]) xs) st1 acc.
Proof. intros. cbn [eval_for clause_expr]. rewrite H. reflexivity. Qed.

(* `for (x <- le) yield \ -> x`: one closure per element, each over its own frame (its own
   variable x), and calling the i-th one - later, from anywhere - gives the i-th element *)
Theorem per_iteration_closures : forall n st cur x le xs,
  eval (S n) st cur le = (st, Val (VList xs)) ->
  let st' := mkState (frames st ++ iter_frames cur x xs) (out st) in
  let base := List.length (frames st) in
  eval (S (S n)) st cur (EFor [CIter x le] (FYield (ELam [] (EVar x)))) = (st', Val (VList (clos_from x base xs))) /\
  (forall i el, nth_error xs i = Some el ->
     nth_error (clos_from x base xs) i = Some (VClos [] (EVar x) (base + i)) /\
     forall m, apply_val (eval (S m)) st' (VClos [] (EVar x) (base + i)) [] = (fst (push_frame st' (base + i)), Val el)).
Proof.
  intros n st cur x le xs E st' base. split.
  - change (eval (S (S n))) with (evalF (eval (S n))). cbn [evalF]. unfold eval_for_expr. cbv iota.
    rewrite (eval_for_iter _ _ _ _ _ _ _ _ _ _ E).
    rewrite for_each_closures. reflexivity.
  - intros i el Hi. split; [eapply clos_from_nth; eassumption|].
    intros m. apply closure_reads_defining_scope.
    + subst st' base. cbn [frames]. rewrite app_length. unfold iter_frames. rewrite map_length.
      assert (i < List.length xs) by (apply nth_error_Some; congruence). lia.
    + assert (Hf : nth_error (frames st') (base + i) = Some (mkFrame (Some cur) [(x, el)])).
      { subst st' base. cbn [frames]. rewrite nth_error_app2 by lia.
        replace (List.length (frames st) + i - List.length (frames st)) with i by lia.
        unfold iter_frames. apply (map_nth_error (fun el => mkFrame (Some cur) [(x, el)]) i xs Hi). }
      unfold lookup, resolve. cbn [resolve_aux]. rewrite Hf.
      cbn [in_dom names vars map fst existsb]. rewrite String.eqb_refl. cbn [orb].
      rewrite Hf. cbn [vars assoc]. rewrite String.eqb_refl. reflexivity.
Qed.

(* ================================================================ 11. for-yield with a guard is map/filter *)
Lemma for_each_map_filter : forall n cur x g e (gf : val -> bool) (ef : val -> val) xs,
  (forall st' fr el, In el xs -> nth_error (frames st') fr = Some (mkFrame (Some cur) [(x, el)]) ->
     exists gv, eval n st' fr g = (st', Val gv) /\ truthy gv = gf el) ->
  (forall st' fr el, In el xs -> nth_error (frames st') fr = Some (mkFrame (Some cur) [(x, el)]) ->
     eval n st' fr e = (st', Val (ef el))) ->
  forall st acc,
  for_each (eval_for (eval n) [CGuard g] (for_body (eval n) (FYield e))) cur (map (fun el => [(x, el)]) xs) st acc
  = (mkState (frames st ++ iter_frames cur x xs) (out st), acc ++ map ef (filter gf xs), Val tt).
Proof.
  intros n cur x g e gf ef. induction xs as [|el xs IH]; intros Hg He st acc.
  - cbn. rewrite !app_nil_r. destruct st; reflexivity.
  - cbn [map for_each].
    pose proof (declare_all_fresh1 st cur x el) as D. cbn [push_frame fst] in D |- *. rewrite D.
    set (st2 := mkState (frames st ++ [mkFrame (Some cur) [(x, el)]]) (out st)).
    assert (Hf : nth_error (frames st2) (List.length (frames st)) = Some (mkFrame (Some cur) [(x, el)]))
      by (subst st2; cbn [frames]; apply nth_error_app_length).
    destruct (Hg st2 _ el (or_introl eq_refl) Hf) as [gv [Eg Tg]].
    pose proof (He st2 _ el (or_introl eq_refl) Hf) as Ee.
    cbn [eval_for clause_expr]. rewrite Eg, Tg. cbn [filter].
    assert (IH' : forall st acc,
      for_each (eval_for (eval n) [CGuard g] (for_body (eval n) (FYield e))) cur (map (fun el => [(x, el)]) xs) st acc
      = (mkState (frames st ++ iter_frames cur x xs) (out st), acc ++ map ef (filter gf xs), Val tt)).
    { apply IH; intros; [apply Hg|apply He]; try assumption; right; assumption. }
    destruct (gf el).
    + cbn [eval_for for_body]. rewrite Ee. rewrite IH'. subst st2. cbn [frames out iter_frames map].
      rewrite <- !app_assoc. reflexivity.
    + rewrite IH'. subst st2. cbn [frames out iter_frames map]. rewrite <- !app_assoc. reflexivity.
Qed.

(* `for (x <- le; if g) yield e`, when g and e are expressions without effects whose value is a
   function of the element: the list  map ef (filter gf xs)  *)
Theorem yield_is_map_filter : forall n st cur x le g e xs (gf : val -> bool) (ef : val -> val),
  eval n st cur le = (st, Val (VList xs)) ->
  (forall st' fr el, In el xs -> nth_error (frames st') fr = Some (mkFrame (Some cur) [(x, el)]) ->
     exists gv, eval n st' fr g = (st', Val gv) /\ truthy gv = gf el) ->
  (forall st' fr el, In el xs -> nth_error (frames st') fr = Some (mkFrame (Some cur) [(x, el)]) ->
     eval n st' fr e = (st', Val (ef el))) ->
  eval (S n) st cur (EFor [CIter x le; CGuard g] (FYield e)) =
    (mkState (frames st ++ iter_frames cur x xs) (out st), Val (VList (map ef (filter gf xs)))).
Proof.
  intros n st cur x le g e xs gf ef E Hg He.
  change (eval (S n)) with (evalF (eval n)). cbn [evalF]. unfold eval_for_expr. cbv iota.
  rewrite (eval_for_iter _ _ _ _ _ _ _ _ _ _ E).
  rewrite (for_each_map_filter n cur x g e gf ef xs Hg He). reflexivity.
Qed.

(* ================================================================ 12. selective catch patterns *)
(* Try with a pattern: everything but a Throw passes through untouched *)
Theorem tryp_catches_only_throw : forall n st cur b p h st1 r,
  eval n st cur b = (st1, r) -> (forall v, r <> Sig (SThrow v)) ->
  eval (S n) st cur (ETryP b p h) = (st1, r).
Proof.
  intros n st cur b p h st1 r E H.
  change (eval (S n)) with (evalF (eval n)). cbn [evalF]. unfold eval_tryp. rewrite E.
  destruct r as [?|[]|]; try reflexivity. exfalso. eapply H. reflexivity.
Qed.

(* a pattern that refuses the thrown value: the SAME value keeps travelling, and store and
   output are exactly those the body left - the handler did nothing *)
Theorem catch_mismatch_rethrows_original : forall n st cur b p h st1 v,
  eval n st cur b = (st1, Sig (SThrow v)) -> match_cpat p v = TThrow ->
  eval (S n) st cur (ETryP b p h) = (st1, Sig (SThrow v)).
Proof.
  intros n st cur b p h st1 v E M.
  change (eval (S n)) with (evalF (eval n)). cbn [evalF]. unfold eval_tryp. rewrite E, M. reflexivity.
Qed.

(* a pattern that accepts: the handler runs in a fresh frame holding what the pattern binds *)
Theorem catch_match_runs_handler : forall n st cur b p h st1 v bs,
  eval n st cur b = (st1, Sig (SThrow v)) -> match_cpat p v = TOk bs ->
  eval (S n) st cur (ETryP b p h) =
  bindR (declare_all (fst (push_frame st1 cur)) (List.length (frames st1)) bs)
        (fun st3 _ => eval n st3 (List.length (frames st1)) h).
Proof.
  intros n st cur b p h st1 v bs E M.
  change (eval (S n)) with (evalF (eval n)). cbn [evalF]. unfold eval_tryp. rewrite E, M. reflexivity.
Qed.

(* when each kind of pattern refuses *)
Theorem cpat_refusal : forall v,
  (forall x, match_cpat (CName x) v = TOk [(x, v)]) /\
  (forall z, v <> VInt z -> match_cpat (CInt z) v = TThrow) /\
  (forall z, match_cpat (CInt z) (VInt z) = TOk []) /\
  (forall s, v <> VStr s -> v <> VErr -> match_cpat (CStr s) v = TThrow) /\
  ((forall z, v <> VInt z) -> match_cpat (CWild (Some TInt)) v = TThrow) /\
  ((forall l, v <> VList l) -> match_cpat (CWild (Some TList)) v = TThrow) /\
  ((forall s, v <> VStr s) -> v <> VErr -> match_cpat (CWild (Some TStr)) v = TThrow) /\
  (forall xs l, v = VList l -> List.length l <> List.length xs -> match_cpat (CList xs) v = TThrow) /\
  (forall xs l, v = VList l -> List.length l = List.length xs -> nodupb xs = true ->
     match_cpat (CList xs) v = TOk (combine xs l)).
Proof.
  intros v. repeat split.
  - intros z H. destruct v; try reflexivity. cbn. destruct (Z.eqb_spec z z0); [congruence|reflexivity].
  - intros z. cbn. rewrite Z.eqb_refl. reflexivity.
  - intros s H1 H2. destruct v; try reflexivity; try congruence.
    cbn. destruct (String.eqb_spec s s0); [congruence|reflexivity].
  - intros H. destruct v; try reflexivity. exfalso. eapply H. reflexivity.
  - intros H. destruct v; try reflexivity. exfalso. eapply H. reflexivity.
  - intros H1 H2. destruct v; try reflexivity; try congruence; try (exfalso; eapply H1; reflexivity).
  - intros xs l -> H. cbn. apply Nat.eqb_neq in H. rewrite H. reflexivity.
  - intros xs l -> H N. cbn. apply Nat.eqb_eq in H. rewrite H, N. reflexivity.
Qed.

(* names bound by a catch pattern, and whatever the handler declares, are dropped *)
Lemma catchp_scope : forall n st cur b p h st1 v st' r,
  eval n st cur b = (st1, Sig (SThrow v)) ->
  eval (S n) st cur (ETryP b p h) = (st', r) ->
  preserves_all st1 st'.
Proof.
  intros n st cur b p h st1 v st' r Eb H.
  change (eval (S n)) with (evalF (eval n)) in H. cbn [evalF] in H. unfold eval_tryp in H. rewrite Eb in H.
  destruct (match_cpat p v) as [bs| |];
    try solve [inversion H; subst; intros f fr0 Hf; exists fr0; auto].
  destruct (push_frame st1 cur) as [st2 fr] eqn:Ep.
  assert (Hfr : fr = List.length (frames st1)) by (unfold push_frame in Ep; inversion Ep; reflexivity).
  assert (Hst1 : st2 = fst (push_frame st1 cur)) by (rewrite Ep; reflexivity).
  apply (preserves_fresh_all cur). rewrite <- Hfr, <- Hst1.
  destruct (declare_all st2 fr bs) as [st3 rd] eqn:Ed.
  apply (declare_all_inv preserves preserves_refl preserves_trans preserves_declare) in Ed.
  destruct rd as [u|sg|]; cbn [bindR] in H; try (inversion H; subst; assumption).
  apply scope_discipline in H. eapply preserves_trans; eassumption.
Qed.
