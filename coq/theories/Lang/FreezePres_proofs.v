(* Lang/FreezePres_proofs.v - the preservation theorems for `freeze`, assembled from the static
   lemma (Lang/FreezeDbc_proofs.v: freeze + declared_before_captured => fzr) and the simulation
   (Lang/FreezeSim.v), plus the refutation of the unrestricted statement (F21) and the facts that make
   the hypotheses checkable on concrete stores. *)
From Coq Require Import ZArith String List Bool Arith Lia.
From NV Require Import Common.Outcome Lang.FreezeLang Lang.Freeze Lang.FreezeSpec Lang.Freeze_proofs
  Lang.FreezeRel Lang.FreezeSim_store Lang.FreezeSim_rel Lang.FreezeSim_ops Lang.FreezeSim_scope
  Lang.FreezeSim_lists Lang.FreezeSim Lang.FreezeDbc Lang.FreezeDbc_proofs Lang.FreezeProt_proofs.
Import ListNotations.
Open Scope string_scope.
Open Scope list_scope.

Section Pres.
  Variable n0 cur0 : nat.
  Variable look : name -> option val.
  Variable mutl : list name.
  Hypothesis Hcur0 : cur0 < n0.

  (* the general form: e is evaluated in the frame in which it was frozen *)
  Theorem freeze_preserves_post : forall B e e' B' st st' fuel,
    freeze look B e = Ok (e', B') ->
    declared_before_captured mutl B e ->
    srel n0 cur0 look (rn B e) mutl st st' ->
    agree n0 cur0 look (rn B e) mutl (frames st) ->
    post n0 cur0 look (rn B e) mutl (vrel n0 cur0 look (rn B e) mutl) st cur0 (ddecl e)
         (eval (prot0 n0 (rn B e)) fuel st cur0 e) (eval (prot0 n0 (rn B e)) fuel st' cur0 e').
  Proof.
    intros B e e' B' st st' fuel HF HD S Ag.
    assert (N0 : n0 <= length (frames st)) by (destruct S; auto).
    apply (eval_sim n0 cur0 look (rn B e) mutl Hcur0 fuel (fun x => In x (rn B e)) (fun _ => False) B e e' st st' cur0); auto.
    - eapply freeze_fzr; eauto.
    - intros x Hx. apply mem_spec. auto.
    - intros x _ _. reflexivity.
    - intros h A Hh. apply anc_le in A. lia.
    - lia.
    - intros G. lia.
  Qed.

  (* the same, spelled out *)
  Theorem freeze_preserves : forall B e e' B' st st' fuel st1 r,
    freeze look B e = Ok (e', B') ->
    declared_before_captured mutl B e ->
    srel n0 cur0 look (rn B e) mutl st st' ->
    agree n0 cur0 look (rn B e) mutl (frames st) ->
    eval (prot0 n0 (rn B e)) fuel st cur0 e = (st1, r) ->
    r <> OutOfFuel -> r <> Sig STrap ->
    exists st1' r',
      eval (prot0 n0 (rn B e)) fuel st' cur0 e' = (st1', r') /\
      srel n0 cur0 look (rn B e) mutl st1 st1' /\
      out st1 = out st1' /\
      rres n0 cur0 look (rn B e) mutl (vrel n0 cur0 look (rn B e) mutl) (frames st1) r r'.
  Proof.
    intros B e e' B' st st' fuel st1 r HF HD S Ag HE N1 N2.
    pose proof (freeze_preserves_post B e e' B' st st' fuel HF HD S Ag) as HP.
    rewrite HE in HP. destruct (eval (prot0 n0 (rn B e)) fuel st' cur0 e') as [st1' r'].
    destruct HP as [[A|A]|(_ & _ & S1 & _ & RR)]; cbn [fst snd] in *; try congruence.
    exists st1', r'. split; [reflexivity|]. split; [exact S1|]. split; [destruct S1; auto|exact RR].
  Qed.

  (* the same about the plain evaluator: when the protected original run does not trap it is the
     plain run, and so is the frozen run *)
  Theorem freeze_preserves_plain : forall B e e' B' st st' fuel st1 r,
    freeze look B e = Ok (e', B') ->
    declared_before_captured mutl B e ->
    srel n0 cur0 look (rn B e) mutl st st' ->
    agree n0 cur0 look (rn B e) mutl (frames st) ->
    eval (prot0 n0 (rn B e)) fuel st cur0 e = (st1, r) ->
    r <> OutOfFuel -> r <> Sig STrap ->
    eval noprot fuel st cur0 e = (st1, r) /\
    exists st1' r',
      eval noprot fuel st' cur0 e' = (st1', r') /\
      srel n0 cur0 look (rn B e) mutl st1 st1' /\
      out st1 = out st1' /\
      rres n0 cur0 look (rn B e) mutl (vrel n0 cur0 look (rn B e) mutl) (frames st1) r r'.
  Proof.
    intros B e e' B' st st' fuel st1 r HF HD S Ag HE N1 N2.
    split; [eapply eval_prot_noprot; eauto|].
    destruct (freeze_preserves B e e' B' st st' fuel st1 r HF HD S Ag HE N1 N2) as (st1' & r' & E' & S1 & O1 & RR).
    exists st1', r'. split; [|auto].
    eapply eval_prot_noprot; eauto.
    intro C. subst r'. destruct r as [v|[v| |]|]; cbn in RR; auto.
  Qed.

  (* using the frozen value later: related functions applied to related arguments in related stores *)
  Theorem frozen_call_preserves : forall resl fuel st st' cur fv fv' args args',
    srel n0 cur0 look resl mutl st st' -> agree n0 cur0 look resl mutl (frames st) ->
    vrel n0 cur0 look resl mutl (frames st) fv fv' -> vrels n0 cur0 look resl mutl (frames st) args args' ->
    post n0 cur0 look resl mutl (vrel n0 cur0 look resl mutl) st cur []
         (apply (prot0 n0 resl) fuel st fv args) (apply (prot0 n0 resl) fuel st' fv' args').
  Proof.
    intros resl fuel st st' cur fv fv' args args' S Ag Rf Ra. unfold apply.
    eapply apply_val_sim; eauto. apply eval_sim; auto.
  Qed.

  (* related data are equal: the relation only has slack in closure bodies *)
  Theorem vrel_data_eq : forall resl fs v v', vrel n0 cur0 look resl mutl fs v v' -> simple v = true -> v = v'.
  Proof. intros resl fs v v' H S. apply (vrel_simple n0 cur0 look resl mutl fs v v' H); auto. Qed.
End Pres.

(* ---------------------------------------------------------------- a store without closures is related to itself *)
Definition frame_noclos (fr : frame) : Prop := forall x v, In (x, v) (vars fr) -> noclos v = true.

Lemma vars_rel_refl : forall n0 cur0 look resl mutl fs l,
  (forall x v, In (x, v) l -> noclos v = true) -> vars_rel n0 cur0 look resl mutl fs l l.
Proof.
  intros n0 cur0 look resl mutl fs l. induction l as [|[x v] l IH]; intros H; constructor.
  - split; auto. cbn. right. apply noclos_refl_both. apply (H x v). left; auto.
  - apply IH. intros y w Hy. apply (H y w). right; auto.
Qed.

Lemma frames_rel_refl : forall n0 cur0 look resl mutl fs0 l,
  Forall frame_noclos l -> Forall2 (frame_rel n0 cur0 look resl mutl fs0) l l.
Proof.
  intros n0 cur0 look resl mutl fs0 l H. induction H; constructor; auto.
  split; auto. apply vars_rel_refl. auto.
Qed.

Lemma srel_refl : forall n0 cur0 look resl mutl st,
  cur0 < n0 -> n0 <= length (frames st) -> wf_frames (frames st) -> Forall frame_noclos (frames st) ->
  srel n0 cur0 look resl mutl st st.
Proof.
  intros n0 cur0 look resl mutl st H1 H2 H3 H4. constructor; auto.
  apply frames_rel_refl; auto.
Qed.

Lemma agree_refl : forall n0 cur0 resl mutl fs,
  Forall frame_noclos fs ->
  (forall x, mem x resl = true -> lookup fs cur0 x <> None) ->
  agree n0 cur0 (lookup fs cur0) resl mutl fs.
Proof.
  intros n0 cur0 resl mutl fs HN HL x v0 M F. exists v0. split; auto.
  apply noclos_refl_both. unfold lookup in F.
  destruct (resolve fs cur0 x) as [g|]; [|discriminate]. unfold cell in F.
  destruct (nth_error fs g) as [fr|] eqn:E; [|discriminate].
  assert (NF : frame_noclos fr).
  { clear - HN E. revert g E. induction HN; intros [|g] E; cbn in E; try discriminate.
    - inversion E; subst; auto.
    - eauto. }
  clear - F NF. unfold frame_noclos in NF. revert NF F. generalize (vars fr). induction l as [|[y w] l IH]; cbn; intros NF F; [discriminate|].
  destruct (String.eqb x y).
  - inversion F; subst. apply (NF y v0). left; auto.
  - apply IH; auto. intros z u Hz. apply (NF z u). right; auto.
Qed.

(* ---------------------------------------------------------------- reassigning an outer variable of mutl *)
Lemma vars_rel_assoc_set_mut : forall n0 cur0 look resl mutl fs l l' x w,
  vars_rel n0 cur0 look resl mutl fs l l' -> mem x mutl = true ->
  vars_rel n0 cur0 look resl mutl fs l (assoc_set x w l').
Proof.
  intros n0 cur0 look resl mutl fs l l' x w H M.
  induction H as [|[y v] [y' v'] l l' [H1 H2] H IH]; cbn; [constructor|].
  cbn in H1, H2. subst y'. destruct (String.eqb x y) eqn:Q.
  - apply String.eqb_eq in Q. subst y. constructor; auto.
  - constructor; auto.
Qed.

Lemma Forall2_set_nth_r : forall {A B} (R : A -> B -> Prop) l l' g a b,
  Forall2 R l l' -> nth_error l g = Some a -> R a b -> Forall2 R l (set_nth g b l').
Proof.
  intros A B R l l' g a b H. revert g. induction H; intros [|g] E Hab; cbn in *; try discriminate.
  - inversion E; subst. constructor; auto.
  - constructor; eauto.
Qed.

(* the frozen-side store may be changed arbitrarily at the variables of mutl *)
Theorem srel_reassign : forall n0 cur0 look resl mutl st st' f x w st'',
  srel n0 cur0 look resl mutl st st' -> mem x mutl = true ->
  assign noprot st' f x w = UOk st'' -> srel n0 cur0 look resl mutl st st''.
Proof.
  intros n0 cur0 look resl mutl st st' f x w st'' [F O W N C] M A. unfold assign in A.
  destruct (resolve (frames st') f x) as [g|]; [|discriminate].
  destruct (nth_error (frames st') g) as [fr'|] eqn:E'; [|discriminate]. cbn [noprot] in A.
  inversion A; subst st''; clear A. constructor; cbn [frames out]; auto.
  destruct (nth_error (frames st) g) as [fr|] eqn:E.
  - destruct (Forall2_nth _ _ _ _ _ F E) as (fr2 & E2 & [FP FVs]). rewrite E' in E2. inversion E2; subst fr2.
    eapply Forall2_set_nth_r; eauto. split; cbn; auto. apply vars_rel_assoc_set_mut; auto.
  - rewrite (Forall2_nth_none _ _ _ _ F E) in E'. discriminate.
Qed.

(* ---------------------------------------------------------------- the unrestricted statement is false (F21) *)
Theorem freeze_preserves_refuted :
  exists (st : state) (e e' : expr) (B' : list name),
    freeze (look_in (frames st) 0) [] e = Ok (e', B') /\
    ~ declared_before_captured [] [] e /\
    srel 1 0 (look_in (frames st) 0) (rn [] e) [] st st /\
    agree 1 0 (look_in (frames st) 0) (rn [] e) [] (frames st) /\
    eval (prot0 1 (rn [] e)) 12 st 0 e = (fst (eval (prot0 1 (rn [] e)) 12 st 0 e), Val (VInt 8)) /\
    snd (eval (prot0 1 (rn [] e)) 12 st 0 e') = Val (VInt 3).
Proof.
  exists f21_state, (ECall f21_body [EInt 8]).
  destruct (freeze (look_in (frames f21_state) 0) [] (ECall f21_body [EInt 8])) as [[e' B']|c| |] eqn:E;
    try (vm_compute in E; discriminate).
  exists e', B'. split; [reflexivity|]. split; [exact (f21_not_dbc [])|].
  assert (NC : Forall frame_noclos (frames f21_state)).
  { constructor; [|constructor]. intros x v H. cbn in H.
    repeat (destruct H as [H|H]; [inversion H; subst; reflexivity|]). destruct H. }
  split; [|split; [|split]].
  - apply srel_refl; auto. intros g fr p Hg Hp. destruct g as [|[|g]]; cbn in Hg; try discriminate.
    inversion Hg; subst. discriminate.
  - apply agree_refl; auto. intros x M. apply mem_spec in M. vm_compute in M.
    destruct M as [<-|[]]. vm_compute. discriminate.
  - vm_compute in E. inversion E; subst. vm_compute. reflexivity.
  - vm_compute in E. inversion E; subst. vm_compute. reflexivity.
Qed.

