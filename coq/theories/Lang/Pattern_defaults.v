(* C12: match_inverts for sequence patterns with trailing defaults: read backwards, the pattern
   denotes the matched sequence EXTENDED by the defaults that filled the missing trailing items. *)
From Coq Require Import ZArith NArith List Bool Lia PeanoNat.
From NV Require Import Common.Outcome Lang.Types Lang.Pattern Lang.PatternSpec
  Lang.Pattern_proofs Lang.Pattern_proofs2 Lang.Pattern_proofs3 Lang.Pattern_inverts.
Import ListNotations.

Section D.
  Variable sat : N -> val -> outcome bool.
  Variable inexact : iop -> num -> num -> num.
  Let A := assign sat inexact.

  Lemma chain_recon_gen : forall g t ps vs s s', chain (A g) (Some t) ps vs s s' ->
    forallb nosplat ps = true ->
    (forall p v s1 s2, In p ps -> A g p (Some t) v s1 = (s2, Ok tt) ->
       forall s'', extends s2 s'' -> recon inexact g s'' p v) ->
    forall s'', extends s' s'' -> recon_items (recon inexact g s'') ps vs.
  Proof.
    induction 1 as [|p ps v vs s s1 s' H1 Hc IHc]; intros Hns Hel s'' Hext; [reflexivity|].
    cbn [forallb] in Hns. apply andb_prop in Hns as [Hp Hns].
    unfold nosplat in Hp. apply negb_true_iff in Hp. cbn [recon_items]. rewrite Hp.
    exists v, vs. split; [reflexivity|]. split.
    - eapply Hel; [left; reflexivity|exact H1|].
      eapply extends_trans; [eapply chain_extends; eauto|exact Hext].
    - apply IHc; auto. intros q w a b Hin. apply Hel. right. exact Hin.
  Qed.

  Lemma plain_nosplat : forall p, plain p = true -> nosplat p = true.
  Proof. intros p H. destruct p; try reflexivity; try discriminate H. destruct p; try reflexivity; discriminate H. Qed.

  Theorem seq_defaults_inverts : forall f req ods dl t v s s',
    forallb plain req = true -> forallb nodef req = true -> forallb nodef (map fst ods) = true ->
    A (S (S f)) (PSeq (req ++ map mkdef ods) dl) (Some t) v s = (s', Ok tt) ->
    exists es, elements v = Some es /\
      (length req <= length es <= length req + length ods)%nat /\
      forall s'', extends s' s'' ->
        recon_items (recon inexact (S f) s'') (req ++ map mkdef ods)
                    (es ++ skipn (length es - length req) (map snd ods)).
  Proof.
    intros f req ods dl t v s s' Hpl Hnr Hno H.
    unfold A in H. cbn [assign] in H.
    assert (Hgo : exists t', match elements v with
                  | Some es => assign_all (A (S f)) (req ++ map mkdef ods) (Some t') es s
                  | None => (s, Err EType) end = (s', Ok tt)).
    { cbv zeta in H. destruct dl; [|eauto].
      apply andthen_ok in H as (s1 & H1 & H2). apply check_type_ok in H1. subst s1. eauto. }
    destruct Hgo as (t' & Hgo). destruct (elements v) as [es|]; [|discriminate].
    exists es. split; [reflexivity|].
    rewrite seq_defaults in Hgo by exact Hpl. cbv zeta in Hgo.
    destruct (Nat.leb_spec (length req) (length es)); destruct (Nat.leb_spec (length es) (length req + length ods));
      cbn [andb] in Hgo; try discriminate.
    split; [lia|]. intros s'' Hext.
    apply zip_assign_chain in Hgo.
    2:{ rewrite !app_length, map_length, skipn_length, map_length. lia. }
    eapply chain_recon_gen; eauto.
    - rewrite forallb_app. apply andb_true_intro. split.
      + apply forallb_forall. intros p Hp. apply plain_nosplat. rewrite forallb_forall in Hpl. auto.
      + apply forallb_forall. intros p Hp. apply in_map_iff in Hp as (pd & <- & _). reflexivity.
    - intros p w s1 s2 Hin Hp s3 He. apply in_app_or in Hin as [Hin|Hin].
      + eapply (match_inverts sat inexact (S f) p t' w s1 s2 Hp); [|exact He].
        rewrite forallb_forall in Hnr. auto.
      + apply in_map_iff in Hin as (pd & <- & Hpd). unfold mkdef in *. unfold A in Hp. cbn [assign] in Hp.
        cbn [recon].
        eapply (match_inverts sat inexact f (fst pd) t' w s1 s2 Hp); [|exact He].
        rewrite forallb_forall in Hno. apply Hno. apply in_map. exact Hpd.
  Qed.
End D.
