(* Lang/Eval_rules2.v - more rules of the reference interpreter (property C05): switch arms,
   the eval builtin, destructuring declaration / assignment. *)
From Coq Require Import ZArith String List Bool Lia.
From NV Require Import Lang.Syntax Lang.Eval Lang.Eval_proofs.
Import ListNotations.
Open Scope string_scope.
Open Scope list_scope.

(* does a switch pattern accept a value *)
Definition pat_accepts (p : pat) (v : val) : bool :=
  match p with
  | PLit z => match v with VInt z' => Z.eqb z z' | _ => false end
  | PBind _ | PWild => true
  end.

Lemma switch_skip : forall rec q b rest st cur v, pat_accepts q v = false ->
  switch_arms rec st cur v ((q, b) :: rest) =
  switch_arms rec (mkState (frames st ++ [mkFrame (Some cur) []]) (out st)) cur v rest.
Proof.
  intros rec q b rest st cur v H. cbn [switch_arms push_frame].
  destruct q; cbn [pat_accepts] in H; try discriminate.
  destruct v; try reflexivity. rewrite H. reflexivity.
Qed.

(* arms whose pattern refuses the scrutinee are skipped (each costs one discarded frame); the
   first accepting arm runs its body in a fresh frame that holds the binding, if any *)
Theorem switch_first_match : forall rec skipped p body rest st cur v,
  forallb (fun arm => negb (pat_accepts (fst arm) v)) skipped = true ->
  pat_accepts p v = true ->
  let st1 := mkState (frames st ++ map (fun _ => mkFrame (Some cur) []) skipped) (out st) in
  switch_arms rec st cur v (skipped ++ (p, body) :: rest) =
  match p with
  | PBind x => rec (mkState (frames st1 ++ [mkFrame (Some cur) [(x, v)]]) (out st)) (List.length (frames st1)) body
  | _ => rec (fst (push_frame st1 cur)) (List.length (frames st1)) body
  end.
Proof.
  intros rec. induction skipped as [|[q b] skipped IH]; intros p body rest st cur v Hs Hp st1; subst st1.
  - cbn [app map switch_arms]. rewrite app_nil_r.
    replace (mkState (frames st) (out st)) with st by (destruct st; reflexivity).
    destruct p; cbn [pat_accepts] in Hp.
    + destruct v; try discriminate. cbn [push_frame fst]. rewrite Hp. reflexivity.
    + pose proof (declare_all_fresh1 st cur x v) as D. cbn [push_frame fst] in D |- *. rewrite D. reflexivity.
    + reflexivity.
  - cbn [forallb fst] in Hs. apply andb_true_iff in Hs. destruct Hs as [Hq Hs]. apply negb_true_iff in Hq.
    cbn [app]. rewrite (switch_skip rec q b _ st cur v Hq).
    rewrite (IH p body rest _ cur v Hs Hp). cbn [frames out map]. rewrite <- !app_assoc. reflexivity.
Qed.

(* no arm accepts: an error, after one discarded frame per arm *)
Theorem switch_no_match : forall rec arms st cur v,
  forallb (fun arm => negb (pat_accepts (fst arm) v)) arms = true ->
  switch_arms rec st cur v arms =
  (mkState (frames st ++ map (fun _ => mkFrame (Some cur) []) arms) (out st), Sig (SThrow VErr)).
Proof.
  intros rec. induction arms as [|[q b] arms IH]; intros st cur v Hs.
  - cbn. rewrite app_nil_r. destruct st; reflexivity.
  - cbn [forallb fst] in Hs. apply andb_true_iff in Hs. destruct Hs as [Hq Hs]. apply negb_true_iff in Hq.
    rewrite (switch_skip rec q b _ st cur v Hq). rewrite (IH _ cur v Hs).
    cbn [frames out map]. rewrite <- !app_assoc. reflexivity.
Qed.

(* eval("<text of e>") is e evaluated in place - same frame, signals included - except that a
   value thrown through the builtin comes out as an (opaque) error string *)
Theorem eval_builtin_rule : forall n st cur e st1 r,
  eval n st cur e = (st1, r) ->
  eval (S n) st cur (EEval e) = (st1, match r with Sig (SThrow _) => Sig (SThrow VErr) | _ => r end).
Proof.
  intros n st cur e st1 r E. change (eval (S n)) with (evalF (eval n)). cbn [evalF]. rewrite E.
  destruct r as [v|[]|]; reflexivity.
Qed.

(* a, b := e / a, b = e: the value must be a list of exactly as many elements; the names are
   then declared / assigned left to right (an error half-way leaves the earlier ones done) *)
Theorem unpack_rule : forall n st cur xs e st1 l (decl : bool),
  eval n st cur e = (st1, Val (VList l)) ->
  eval (S n) st cur (if decl then EDeclL xs e else EAssignL xs e) =
  if Nat.eqb (List.length l) (List.length xs)
  then bindR ((if decl then declare_all else assign_all) st1 cur (combine xs l)) (fun st2 _ => (st2, Val VNull))
  else (st1, Sig (SThrow VErr)).
Proof.
  intros n st cur xs e st1 l decl E. change (eval (S n)) with (evalF (eval n)).
  destruct decl; cbn [evalF]; unfold eval_unpack; rewrite E; cbn [bindR unpack];
    destruct (Nat.eqb _ _); reflexivity.
Qed.
