(* C12 model, part 3: statements that write annotated variables.  Definitions only.
   Transcribes (src/eval.rs): Expr::Assign (~815) through assign / assign_every (~2709) for
   identifiers, Expr::OpAssign (~902: read, drop_lhs, apply, assign), modify_every (~2811) for
   identifiers, Expr::Swap (~893), assign_respecting_type with one index or slice (~2477: the late
   type check happens after the write, for every declared type), set_index (~2120) for lists,
   streams (forced into a list in the variable first), vectors, bytes, dictionaries, with
   pythonic_index / pythonic_slice; x[i] op= v through eval_lvalue_as_obj / drop_lhs / assign.
   The operator of an op-assignment is an arbitrary function `val -> val -> outcome val`;
   the theorems quantify over it (a small table, `binop_std`, instantiates the extracted runner). *)
From Coq Require Import ZArith NArith List Bool Lia.
From NV Require Import Common.Outcome Lang.Types Lang.Pattern.
Import ListNotations.
Open Scope Z_scope.

Inductive stmt :=
| SAssign (p : pat) (v : val)              (* p = v            (destructuring included) *)
| SDeclare (p : pat) (v : val)             (* p := v, (p: T) = v: p carries its annotations *)
| SOpAssign (x : N) (op : N) (v : val)     (* x op= v *)
| SEvery (xs : list N) (v : val)           (* every x, y = v *)
| SEveryOp (x : N) (op : N) (v : val)      (* every x op= v *)
| SSwap (x y : N)                          (* swap x, y *)
| SSetIndex (x : N) (i : Z) (v : val)      (* x[i] = v   (also: every x[i] = v) *)
| SSetSlice (x : N) (lo hi : option Z) (every : bool) (v : val)   (* [every] x[lo:hi] = v *)
| SOpIndex (x : N) (i : Z) (op : N) (v : val)                     (* x[i] op= v *)
| SEveryOpIndex (x : N) (i : Z) (op : N) (v : val)                (* every x[i] op= v *)
| SEveryOpSlice (x : N) (lo hi : option Z) (op : N) (v : val).    (* every x[lo:hi] op= v *)

Section Stmt.
  Variable sat : N -> val -> outcome bool.
  Variable inexact : iop -> num -> num -> num.
  Variable binop : N -> val -> val -> outcome val.

  Definition lift {A} (s : store) (o : outcome A) (k : A -> res) : res :=
    match o with
    | Ok a => k a
    | Err c => (s, Err c)
    | Panic => (s, Panic)
    | OutOfFuel => (s, OutOfFuel)
    end.

  (* Expr::OpAssign, identifier on the left: the old value is read, the variable is set to null
     WITHOUT a type check (drop_lhs), the operator runs, the result is assigned with the check.
     If the operator or the check raises, the variable stays null. *)
  Definition op_assign (s : store) (x : N) (op : N) (v : val) : res :=
    match lookup s x with
    | None => (s, Err EName)
    | Some (_, old) =>
      let s1 := set_val s x VNull in
      lift s1 (binop op old v) (fun r => assign_var sat s1 x r)
    end.

  (* assign_every on a comma sequence of identifiers: each in turn, stopping at the first error *)
  Fixpoint every_assign (s : store) (xs : list N) (v : val) : res :=
    match xs with
    | [] => (s, Ok tt)
    | x :: r => andthen (assign_var sat s x v) (fun s1 => every_assign s1 r v)
    end.

  (* modify_every on an identifier: compute first, then check, then write; nothing is dropped *)
  Definition every_op (s : store) (x : N) (op : N) (v : val) : res :=
    match lookup s x with
    | None => (s, Err EName)
    | Some (t, old) =>
      lift s (binop op old v) (fun r =>
        match is_type sat t r with
        | Ok true => (set_val s x r, Ok tt)
        | Ok false => (s, Err EName)
        | Err c => (s, Err c)
        | Panic => (s, Panic)
        | OutOfFuel => (s, OutOfFuel)
        end)
    end.

  (* Expr::Swap on two identifiers *)
  Definition swap (s : store) (x y : N) : res :=
    match lookup s x, lookup s y with
    | Some (_, a), Some (_, b) => andthen (assign_var sat s x b) (fun s1 => assign_var sat s1 y a)
    | _, _ => (s, Err EName)
    end.

  (* pythonic_index on a sequence of length n *)
  Definition py_pos (n : nat) (i : Z) : option nat :=
    if (0 <=? i) && (i <? Z.of_nat n) then Some (Z.to_nat i)
    else if (i <? 0) && (- Z.of_nat n <=? i) then Some (Z.to_nat (Z.of_nat n + i))
    else None.
  Fixpoint set_nth {A} (l : list A) (k : nat) (v : A) : list A :=
    match l, k with
    | [], _ => []
    | _ :: r, O => v :: r
    | h :: r, S k' => h :: set_nth r k' v
    end.
  (* set_index / modify_existing_index begin with: a stream that is indexed is replaced, in the
     variable, by the list of its elements *)
  Definition force_seq (v : val) : val := match v with VStream l => VList l | _ => v end.

  Fixpoint dict_put (ks vs : list val) (k v : val) : list val * list val :=
    match ks, vs with
    | k0 :: ks', v0 :: vs' =>
      if veq k0 k then (k0 :: ks', v :: vs')
      else let (a, b) := dict_put ks' vs' k v in (k0 :: a, v0 :: b)
    | _, _ => ([k], [v])
    end.
  Fixpoint dict_get (ks vs : list val) (k : val) : option val :=
    match ks, vs with
    | k0 :: ks', v0 :: vs' => if veq k0 k then Some v0 else dict_get ks' vs' k
    | _, _ => None
    end.

  (* set_index with one Index, on the (already forced) container *)
  Definition set_elem (c : val) (i : Z) (v : val) : outcome val :=
    match c with
    | VList l =>
      match py_pos (length l) i with Some k => Ok (VList (set_nth l k v)) | None => Err EIndex end
    | VVec l =>
      match v with
      | VNum n => match py_pos (length l) i with Some k => Ok (VVec (set_nth l k n)) | None => Err EIndex end
      | _ => Err EType
      end
    | VBytes l =>
      match v with
      | VNum n =>
        match py_pos (length l) i with
        | Some k =>
          match n with
          | NInt z => if (0 <=? z) && (z <? 256) then Ok (VBytes (set_nth l k (Z.to_N z))) else Err EValue
          | _ => Err EValue
          end
        | None => Err EIndex
        end
      | _ => Err EType
      end
    | VDict ks vs => let (a, b) := dict_put ks vs (vint i) v in Ok (VDict a b)
    | VStr _ => Err EValue                     (* byte surgery on strings is not modelled *)
    | _ => Err EIndex
    end.

  (* clamped_pythonic_index / pythonic_slice *)
  Definition clamp (n : nat) (i : Z) : nat :=
    if 0 <=? i then Nat.min (Z.to_nat i) n else Z.to_nat (Z.max 0 (i + Z.of_nat n)).
  Definition slice_bounds (n : nat) (lo hi : option Z) : nat * nat :=
    let a := match lo with Some i => clamp n i | None => O end in
    let b := match hi with Some i => clamp n i | None => n end in
    (a, Nat.max b a).
  (* set_index with one Slice *)
  Definition set_slice (c : val) (lo hi : option Z) (every : bool) (v : val) : outcome val :=
    match c with
    | VList l =>
      if every then
        let (a, b) := slice_bounds (length l) lo hi in
        Ok (VList (firstn a l ++ repeat v (b - a) ++ skipn b l))
      else Err EType
    | VDict ks vs =>
      match lo, hi with
      | None, None => if every then Ok (VDict ks (map (fun _ => v) vs)) else Err EType
      | _, _ => Err EType
      end
    | VStr _ | VVec _ | VBytes _ => Err EType
    | _ => Err EIndex
    end.

  (* assign_respecting_type with a non-empty index list: no eager check; the stream forcing and
     the write happen in the variable; the declared type - whatever it is - is checked afterwards,
     and a failure of that late check raises but leaves the new value in place *)
  Definition write_indexed (s : store) (x : N) (f : val -> outcome val) : res :=
    match lookup s x with
    | None => (s, Err EName)
    | Some (t, old) =>
      let c := force_seq old in
      let s0 := set_val s x c in
      match f c with
      | Ok nv =>
        let s1 := set_val s0 x nv in
        match is_type sat t nv with
        | Ok true => (s1, Ok tt)
        | Ok false => (s1, Err EType)
        | Err e => (s1, Err e)
        | Panic => (s1, Panic)
        | OutOfFuel => (s1, OutOfFuel)
        end
      | Err e => (s0, Err e)
      | Panic => (s0, Panic)
      | OutOfFuel => (s0, OutOfFuel)
      end
    end.
  Definition set_index (s : store) (x : N) (i : Z) (v : val) : res :=
    write_indexed s x (fun c => set_elem c i v).

  (* x[i] op= v: read the element (index_or_slice, no forcing), drop it (set_index with None and
     every: a list or dict slot becomes null, vectors and bytes are left alone; a stream is forced),
     apply, then assign through the index with the late check *)
  Definition read_elem (c : val) (i : Z) : outcome val :=
    match c with
    | VList l | VStream l =>
      match py_pos (length l) i with Some k => Ok (nth k l VNull) | None => Err EIndex end
    | VVec l =>
      match py_pos (length l) i with Some k => Ok (VNum (nth k l (NInt 0))) | None => Err EIndex end
    | VBytes l =>
      match py_pos (length l) i with Some k => Ok (vint (Z.of_N (nth k l 0%N))) | None => Err EIndex end
    | VDict ks vs => match dict_get ks vs (vint i) with Some w => Ok w | None => Err EKey end
    | _ => Err EType
    end.
  Definition drop_elem (c : val) (i : Z) : outcome val :=
    match c with
    | VList _ | VDict _ _ => set_elem c i VNull
    | VVec _ | VBytes _ => Ok c
    | _ => Err EIndex
    end.
  Definition op_index (s : store) (x : N) (i : Z) (op : N) (v : val) : res :=
    match lookup s x with
    | None => (s, Err EName)
    | Some (_, old) =>
      lift s (read_elem old i) (fun e =>
        let c := force_seq old in
        let s0 := set_val s x c in
        lift s0 (drop_elem c i) (fun d =>
          let s1 := set_val s0 x d in
          lift s1 (binop op e v) (fun r => write_indexed s1 x (fun c' => set_elem c' i r))))
    end.

  (* modify_every with indices: modify_every_existing_index works on a COPY of the value (a stream
     is forced in the copy), applying the operator to every addressed element, left to right, and
     stopping at the first error; the copy is then written back by assign_respecting_type with no
     index, i.e. with the eager type check - on any failure the variable is unchanged *)
  Definition modify_range (l : list val) (a b : nat) (f : val -> outcome val) : outcome (list val) :=
    mid <- mapM f (firstn (b - a) (skipn a l)) ;; Ok (firstn a l ++ mid ++ skipn b l).
  Definition modify_index (c : val) (i : Z) (f : val -> outcome val) : outcome val :=
    match c with
    | VList l =>
      match py_pos (length l) i with
      | Some k => r <- modify_range l k (S k) f ;; Ok (VList r)
      | None => Err EIndex
      end
    | VDict ks vs =>
      match dict_get ks vs (vint i) with
      | Some w => r <- f w ;; let (a, b) := dict_put ks vs (vint i) r in Ok (VDict a b)
      | None => Err EKey
      end
    | _ => Err EType
    end.
  Definition modify_slice (c : val) (lo hi : option Z) (f : val -> outcome val) : outcome val :=
    match c with
    | VList l =>
      let (a, b) := slice_bounds (length l) lo hi in r <- modify_range l a b f ;; Ok (VList r)
    | _ => Err EType
    end.
  Definition every_op_sel (s : store) (x : N) (m : val -> outcome val) : res :=
    match lookup s x with
    | None => (s, Err EName)
    | Some (_, old) => lift s (m (force_seq old)) (fun nv => assign_var sat s x nv)
    end.

  Definition run_stmt (st : stmt) (s : store) : res :=
    match st with
    | SAssign p v => assign_top sat inexact p None v s
    | SDeclare p v => assign_top sat inexact p None v s
    | SOpAssign x op v => op_assign s x op v
    | SEvery xs v => every_assign s xs v
    | SEveryOp x op v => every_op s x op v
    | SSwap x y => swap s x y
    | SSetIndex x i v => set_index s x i v
    | SSetSlice x lo hi ev v => write_indexed s x (fun c => set_slice c lo hi ev v)
    | SOpIndex x i op v => op_index s x i op v
    | SEveryOpIndex x i op v => every_op_sel s x (fun c => modify_index c i (fun e => binop op e v))
    | SEveryOpSlice x lo hi op v => every_op_sel s x (fun c => modify_slice c lo hi (fun e => binop op e v))
    end.

  (* a history: every statement runs on the store its predecessor left, whatever its outcome
     (the program catches the error and goes on) *)
  Fixpoint run_hist (sts : list stmt) (s : store) : list (stmt * store * outcome unit) :=
    match sts with
    | [] => []
    | st :: r => let (s1, o) := run_stmt st s in (st, s1, o) :: run_hist r s1
    end.
End Stmt.

(* the variables a pattern certainly assigns when its match succeeds in assignment mode
   (nothing under an annotation, which declares, nor under `or`) *)
Fixpoint sure_vars (p : pat) : list N :=
  let fix go (l : list pat) : list N := match l with [] => [] | q :: r => sure_vars q ++ go r end in
  match p with
  | PVar x => [x]
  | PDefault q _ | PSplat q => sure_vars q
  | PSeq ps _ | PDestr _ ps | PStruct _ ps => go ps
  | PAnd a b => sure_vars a ++ sure_vars b
  | _ => []
  end.
Fixpoint sure_vars_list (l : list pat) : list N :=
  match l with [] => [] | q :: r => sure_vars q ++ sure_vars_list r end.

Definition writes (st : stmt) : list N :=
  match st with
  | SAssign p _ => sure_vars p
  | SDeclare _ _ => []
  | SOpAssign x _ _ => [x]
  | SEvery xs _ => xs
  | SEveryOp x _ _ => [x]
  | SSwap x y => [x; y]
  | SSetIndex x _ _ => [x]
  | SSetSlice x _ _ _ _ => [x]
  | SOpIndex x _ _ _ => [x]
  | SEveryOpIndex x _ _ _ => [x]
  | SEveryOpSlice x _ _ _ _ => [x]
  end.

(* ---------------------------------------------------------------- the operators of the runs *)
(* 0 `+`  1 `-`  2 `*`  3 `max`  4 `min`  5 `append`  6 `$` is not modelled *)
Fixpoint zip_nums (f : num -> num -> num) (a b : list num) : list num :=
  match a, b with x :: r, y :: s => f x y :: zip_nums f r s | _, _ => [] end.
(* expect_nums_and_vectorize_2_nums *)
Definition vectorize2 (f : num -> num -> num) (a b : val) : outcome val :=
  match a, b with
  | VNum x, VNum y => Ok (VNum (f x y))
  | VNum x, VVec l => Ok (VVec (map (f x) l))
  | VVec l, VNum y => Ok (VVec (map (fun e => f e y) l))
  | VVec l1, VVec l2 => if Nat.eqb (length l1) (length l2) then Ok (VVec (zip_nums f l1 l2)) else Err EValue
  | _, _ => Err EArg
  end.
Definition binop_std (inexact : iop -> num -> num -> num) (op : N) (a b : val) : outcome val :=
  match op, a, b with
  | 0%N, _, _ => vectorize2 (num_add inexact) a b
  | 1%N, _, _ => vectorize2 (num_sub inexact) a b
  | 2%N, _, _ => vectorize2 (num_mul inexact) a b
  | 3%N, _, _ => c <- ncmp b a ;; Ok (match c with Gt => b | _ => a end)
  | 4%N, _, _ => c <- ncmp b a ;; Ok (match c with Lt => b | _ => a end)
  | 5%N, VList l, _ => Ok (VList (l ++ [b]))
  | 5%N, VVec l, VNum n => Ok (VVec (l ++ [n]))
  | 5%N, VVec l, _ => Err EType
  | 5%N, VBytes l, VNum (NInt z) => if (0 <=? z) && (z <? 256) then Ok (VBytes (l ++ [Z.to_N z])) else Err EValue
  | 5%N, VBytes l, _ => Err EValue
  | _, _, _ => Err EArg
  end.
