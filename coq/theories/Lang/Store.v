(* C12 model, part 3: statements that write annotated variables.  Definitions only.
   Transcribes (src/eval.rs): Expr::Assign (~815) through assign / assign_every (~2709) for
   identifiers, Expr::OpAssign (~902: read, drop_lhs, apply, assign), modify_every (~2811) for
   identifiers, Expr::Swap (~893), assign_respecting_type with one list index (~2477: the late
   type check happens after the write), set_index list case (~2128) with pythonic_index.
   The operator of an op-assignment is an arbitrary function `val -> val -> outcome val`;
   the theorems quantify over it (a small table, `binop_std`, instantiates the extracted runner). *)
From Coq Require Import ZArith NArith List Bool Lia.
From NV Require Import Common.Outcome Lang.Types Lang.Pattern.
Import ListNotations.
Open Scope Z_scope.

Inductive stmt :=
| SAssign (p : pat) (v : val)              (* p = v            (destructuring included) *)
| SDeclare (p : pat) (v : val)             (* p := v, (p: T) = v: p carries its annotations *)
| SOpAssign (x : N) (op : N) (v : val)     (* x op= v *)
| SEvery (xs : list N) (v : val)           (* every x, y = v *)
| SEveryOp (x : N) (op : N) (v : val)      (* every x op= v *)
| SSwap (x y : N)                          (* swap x, y *)
| SSetIndex (x : N) (i : Z) (v : val).     (* x[i] = v *)

Section Stmt.
  Variable sat : N -> val -> outcome bool.
  Variable inexact : iop -> num -> num -> num.
  Variable binop : N -> val -> val -> outcome val.

  Definition lift {A} (s : store) (o : outcome A) (k : A -> res) : res :=
    match o with
    | Ok a => k a
    | Err c => (s, Err c)
    | Panic => (s, Panic)
    | OutOfFuel => (s, OutOfFuel)
    end.

  (* Expr::OpAssign, identifier on the left: the old value is read, the variable is set to null
     WITHOUT a type check (drop_lhs), the operator runs, the result is assigned with the check.
     If the operator or the check raises, the variable stays null. *)
  Definition op_assign (s : store) (x : N) (op : N) (v : val) : res :=
    match lookup s x with
    | None => (s, Err EName)
    | Some (_, old) =>
      let s1 := set_val s x VNull in
      lift s1 (binop op old v) (fun r => assign_var sat s1 x r)
    end.

  (* assign_every on a comma sequence of identifiers: each in turn, stopping at the first error *)
  Fixpoint every_assign (s : store) (xs : list N) (v : val) : res :=
    match xs with
    | [] => (s, Ok tt)
    | x :: r => andthen (assign_var sat s x v) (fun s1 => every_assign s1 r v)
    end.

  (* modify_every on an identifier: compute first, then check, then write; nothing is dropped *)
  Definition every_op (s : store) (x : N) (op : N) (v : val) : res :=
    match lookup s x with
    | None => (s, Err EName)
    | Some (t, old) =>
      lift s (binop op old v) (fun r =>
        match is_type sat t r with
        | Ok true => (set_val s x r, Ok tt)
        | Ok false => (s, Err EName)
        | Err c => (s, Err c)
        | Panic => (s, Panic)
        | OutOfFuel => (s, OutOfFuel)
        end)
    end.

  (* Expr::Swap on two identifiers *)
  Definition swap (s : store) (x y : N) : res :=
    match lookup s x, lookup s y with
    | Some (_, a), Some (_, b) => andthen (assign_var sat s x b) (fun s1 => assign_var sat s1 y a)
    | _, _ => (s, Err EName)
    end.

  (* pythonic_index on a list of length n *)
  Definition py_pos (n : nat) (i : Z) : option nat :=
    if (0 <=? i) && (i <? Z.of_nat n) then Some (Z.to_nat i)
    else if (i <? 0) && (- Z.of_nat n <=? i) then Some (Z.to_nat (Z.of_nat n + i))
    else None.
  Fixpoint set_nth (l : list val) (k : nat) (v : val) : list val :=
    match l, k with
    | [], _ => []
    | _ :: r, O => v :: r
    | h :: r, S k' => h :: set_nth r k' v
    end.
  (* x[i] = v: no eager check; the write happens; the declared type is checked afterwards, and a
     failure of that late check raises but leaves the new value in place *)
  Definition set_index (s : store) (x : N) (i : Z) (v : val) : res :=
    match lookup s x with
    | None => (s, Err EName)
    | Some (t, VList l) =>
      match py_pos (length l) i with
      | None => (s, Err EIndex)
      | Some k =>
        let nv := VList (set_nth l k v) in
        let s1 := set_val s x nv in
        match is_type sat t nv with
        | Ok true => (s1, Ok tt)
        | Ok false => (s1, Err EType)
        | Err c => (s1, Err c)
        | Panic => (s1, Panic)
        | OutOfFuel => (s1, OutOfFuel)
        end
      end
    | Some _ => (s, Err EType)       (* other containers are not modelled *)
    end.

  Definition run_stmt (st : stmt) (s : store) : res :=
    match st with
    | SAssign p v => assign_top sat inexact p None v s
    | SDeclare p v => assign_top sat inexact p None v s
    | SOpAssign x op v => op_assign s x op v
    | SEvery xs v => every_assign s xs v
    | SEveryOp x op v => every_op s x op v
    | SSwap x y => swap s x y
    | SSetIndex x i v => set_index s x i v
    end.

  (* a history: every statement runs on the store its predecessor left, whatever its outcome
     (the program catches the error and goes on) *)
  Fixpoint run_hist (sts : list stmt) (s : store) : list (stmt * store * outcome unit) :=
    match sts with
    | [] => []
    | st :: r => let (s1, o) := run_stmt st s in (st, s1, o) :: run_hist r s1
    end.
End Stmt.

(* the variables a pattern certainly assigns when its match succeeds in assignment mode
   (nothing under an annotation, which declares, nor under `or`) *)
Fixpoint sure_vars (p : pat) : list N :=
  let fix go (l : list pat) : list N := match l with [] => [] | q :: r => sure_vars q ++ go r end in
  match p with
  | PVar x => [x]
  | PDefault q _ | PSplat q => sure_vars q
  | PSeq ps _ | PDestr _ ps | PStruct _ ps => go ps
  | PAnd a b => sure_vars a ++ sure_vars b
  | _ => []
  end.
Fixpoint sure_vars_list (l : list pat) : list N :=
  match l with [] => [] | q :: r => sure_vars q ++ sure_vars_list r end.

Definition writes (st : stmt) : list N :=
  match st with
  | SAssign p _ => sure_vars p
  | SDeclare _ _ => []
  | SOpAssign x _ _ => [x]
  | SEvery xs _ => xs
  | SEveryOp x _ _ => [x]
  | SSwap x y => [x; y]
  | SSetIndex x _ _ => [x]
  end.

(* ---------------------------------------------------------------- the operators of the runs *)
(* 0 `+`  1 `-`  2 `*`  3 `max`  4 `min`  5 `append`  6 `$` is not modelled *)
Definition binop_std (inexact : iop -> num -> num -> num) (op : N) (a b : val) : outcome val :=
  match op, a, b with
  | 0%N, VNum x, VNum y => Ok (VNum (num_add inexact x y))
  | 1%N, VNum x, VNum y => Ok (VNum (num_sub inexact x y))
  | 2%N, VNum x, VNum y => Ok (VNum (num_mul inexact x y))
  | 3%N, _, _ => c <- ncmp b a ;; Ok (match c with Gt => b | _ => a end)
  | 4%N, _, _ => c <- ncmp b a ;; Ok (match c with Lt => b | _ => a end)
  | 5%N, VList l, _ => Ok (VList (l ++ [b]))
  | _, _, _ => Err EArg
  end.
