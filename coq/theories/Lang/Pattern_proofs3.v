(* C12: proofs about Lang/Pattern.v, part 3: what a match does to the store.
   - a generic induction for store relations (reflexive, transitive, respected by the three
     primitive writes), used for "declared types never change", "every write is type-checked"
     and "declaring only extends";
   - inversion of a successful assign_all into an ordered chain of successful item matches. *)
From Coq Require Import ZArith NArith List Bool Lia PeanoNat.
From NV Require Import Common.Outcome Lang.Types Lang.Types_proofs Lang.Pattern Lang.Pattern_proofs.
Import ListNotations.

Section StoreRel.
  Variable sat : N -> val -> outcome bool.
  Variable inexact : iop -> num -> num -> num.
  Variable R : store -> store -> Prop.
  (* which declaration modes the relation is claimed for: all, or declarations only *)
  Variable okrt : option ty -> Prop.
  Hypothesis okrt_some : forall t, okrt (Some t).
  Hypothesis Rrefl : forall s, R s s.
  Hypothesis Rtrans : forall a b c, R a b -> R b c -> R a c.
  Hypothesis Rdeclare : forall s x t v, R s (fst (declare sat s x t v)).
  Hypothesis Rassign_var : forall s x v, okrt None -> R s (fst (assign_var sat s x v)).

  Lemma andthen_R : forall s r k, R s (fst r) -> (forall s1, R s1 (fst (k s1))) -> R s (fst (andthen r k)).
  Proof.
    intros s [s1 o] k H1 H2. destruct o as [[]| | |]; cbn [andthen fst] in *; auto.
    eapply Rtrans; [exact H1|apply H2].
  Qed.

  Section All.
    Variable rec : pat -> option ty -> val -> store -> res.
    Hypothesis Hrec : forall q rt v s, okrt rt -> R s (fst (rec q rt v s)).

    Lemma zip_assign_R : forall ps rt vs s, okrt rt -> R s (fst (zip_assign rec ps rt vs s)).
    Proof.
      induction ps as [|p ps IH]; intros rt vs s Hrt; cbn [zip_assign]; [apply Rrefl|].
      destruct vs as [|v vs]; [apply Rrefl|]. apply andthen_R; auto.
    Qed.
    Lemma assign_all_basic_R : forall ps rt vs s, okrt rt -> R s (fst (assign_all_basic rec ps rt vs s)).
    Proof.
      intros. unfold assign_all_basic. destruct (Nat.eqb _ _); [apply zip_assign_R; auto|apply Rrefl].
    Qed.
    Lemma assign_splat_R : forall p rt mid s, okrt rt -> R s (fst (assign_splat rec p rt mid s)).
    Proof.
      intros p rt mid s Hrt. unfold assign_splat. destruct p; try apply Rrefl; auto.
      destruct p; try apply Rrefl. destruct a as [a|]; auto.
      unfold to_type. destruct a; cbn [fst]; try apply Rrefl; auto.
    Qed.
    Lemma assign_all_R : forall ps rt rhs s, okrt rt -> R s (fst (assign_all rec ps rt rhs s)).
    Proof.
      intros ps rt rhs s Hrt. unfold assign_all.
      destruct (scan ps 0 (length rhs) None []) as [[[si|] defs]| | |]; cbn [fst]; try apply Rrefl.
      - destruct (split_splat _ _ _) as [[[front mid] back]| | |]; cbn [fst]; try apply Rrefl.
        apply andthen_R; [apply assign_all_basic_R; auto|]. intros s1.
        apply andthen_R; [apply assign_splat_R; auto|]. intros s2. apply assign_all_basic_R; auto.
      - destruct (Nat.eqb _ _); [apply assign_all_basic_R; auto|apply Rrefl].
    Qed.
  End All.

  Lemma check_type_fst : forall s t v, fst (check_type sat s t v) = s.
  Proof. intros. unfold check_type. destruct (is_type sat t v) as [[|]| | |]; reflexivity. Qed.

  Theorem assign_R : forall fuel p rt v s, okrt rt -> R s (fst (assign sat inexact fuel p rt v s)).
  Proof.
    induction fuel as [|fuel IH]; intros p rt v s Hrt; [apply Rrefl|].
    cbn [assign]. destruct p.
    - destruct rt; [rewrite check_type_fst|]; apply Rrefl.
    - destruct rt; [apply Rdeclare|apply Rassign_var; exact Hrt].
    - destruct a as [a|]; [|apply IH; auto].
      unfold to_type. destruct a; cbn [fst]; try apply Rrefl; apply IH; auto.
    - apply IH; auto.
    - assert (Hgo : forall rt' s', okrt rt' -> R s' (fst (match elements v with
                | Some es => assign_all (assign sat inexact fuel) ps rt' es s' | None => (s', Err EType) end))).
      { intros. destruct (elements v); [|apply Rrefl]. apply assign_all_R; auto. }
      cbv zeta. destruct delimited; [|apply Hgo; auto].
      destruct rt; [|apply Hgo; auto]. apply andthen_R; [rewrite check_type_fst; apply Rrefl|].
      intros. apply Hgo; auto.
    - apply Rrefl.
    - pose proof (IH p1 rt v s Hrt) as H1.
      destruct (assign sat inexact fuel p1 rt v s) as [s1 [[]|c| |]]; cbn [fst] in *; auto.
      eapply Rtrans; [exact H1|apply IH; auto].
    - apply andthen_R; [apply IH; auto|]. intros. apply IH; auto.
    - destruct (veq _ _); apply Rrefl.
    - destruct (destructure inexact b v (map known_of args)); cbn [fst]; try apply Rrefl.
      destruct (Nat.eqb _ _); [|apply Rrefl]. apply assign_all_R; auto.
    - destruct v; cbn [fst]; try apply Rrefl.
      destruct (N.eqb _ _); [|apply Rrefl]. apply assign_all_R; auto.
  Qed.
End StoreRel.

(* ------------------------------------------------------------------ lookups after writes *)
Lemma lookup_set_val_same : forall s x v t w, lookup s x = Some (t, w) -> lookup (set_val s x v) x = Some (t, v).
Proof.
  induction s as [|[y [t' w']] s IH]; intros x v t w H; cbn [lookup set_val] in *; [discriminate|].
  destruct (N.eqb x y) eqn:E; cbn [lookup]; rewrite E; [congruence|]. eapply IH; eauto.
Qed.
Lemma lookup_set_val_other : forall s x y v, x <> y -> lookup (set_val s x v) y = lookup s y.
Proof.
  induction s as [|[z [t' w']] s IH]; intros x y v H; cbn [lookup set_val]; [reflexivity|].
  destruct (N.eqb x z) eqn:E; cbn [lookup]; destruct (N.eqb y z) eqn:E2; try reflexivity.
  - apply N.eqb_eq in E, E2. congruence.
  - apply IH; auto.
Qed.
Lemma lookup_set_val_none : forall s x y v, lookup s y = None -> lookup (set_val s x v) y = None.
Proof.
  intros s x y v H. destruct (N.eq_dec x y) as [->|Hn]; [|rewrite lookup_set_val_other; auto].
  induction s as [|[z [t' w']] s IH]; cbn [lookup set_val] in *; [reflexivity|].
  destruct (N.eqb y z) eqn:E; [discriminate|]. cbn [lookup]. rewrite E. auto.
Qed.

(* ------------------------------------------------------------------ inversion of successful runs *)
Section Inv.
  Variable rec : pat -> option ty -> val -> store -> res.

  Lemma andthen_ok : forall r k s', andthen r k = (s', Ok tt) ->
    exists s1, r = (s1, Ok tt) /\ k s1 = (s', Ok tt).
  Proof. intros [s1 [[]|c| |]] k s' H; cbn [andthen] in H; try discriminate. eauto. Qed.

  (* items matched in order, each on the store its predecessor left *)
  Inductive chain (rt : option ty) : list pat -> list val -> store -> store -> Prop :=
  | ch_nil : forall s, chain rt [] [] s s
  | ch_cons : forall p ps v vs s s1 s',
      rec p rt v s = (s1, Ok tt) -> chain rt ps vs s1 s' -> chain rt (p :: ps) (v :: vs) s s'.

  Lemma zip_assign_chain : forall ps rt vs s s', length ps = length vs ->
    zip_assign rec ps rt vs s = (s', Ok tt) -> chain rt ps vs s s'.
  Proof.
    induction ps as [|p ps IH]; intros rt vs s s' Hl H; destruct vs as [|v vs]; try discriminate Hl.
    - cbn in H. injection H as <-. constructor.
    - cbn [zip_assign] in H. apply andthen_ok in H as (s1 & H1 & H2).
      econstructor; [exact H1|]. apply IH; auto.
  Qed.
  Lemma assign_all_basic_chain : forall ps rt vs s s',
    assign_all_basic rec ps rt vs s = (s', Ok tt) -> length ps = length vs /\ chain rt ps vs s s'.
  Proof.
    intros ps rt vs s s' H. unfold assign_all_basic in H.
    destruct (Nat.eqb_spec (length ps) (length vs)); [|discriminate].
    split; [assumption|]. apply zip_assign_chain; assumption.
  Qed.

  Lemma split_splat_inv : forall nl si rhs front mid back,
    split_splat nl si rhs = Ok (front, mid, back) ->
    rhs = front ++ mid ++ back /\ length front = si /\ (length back + si + 1 = nl)%nat.
  Proof.
    intros nl si rhs front mid back H. unfold split_splat in H.
    destruct (Nat.ltb_spec (length rhs + 1) nl); [discriminate|].
    unfold usub in H. destruct (Nat.leb_spec nl (length rhs + si + 1)); [|discriminate].
    cbn [bind] in H. remember (length rhs + si + 1 - nl)%nat as start.
    destruct (Nat.ltb_spec (length rhs) start); [discriminate|].
    destruct (Nat.ltb_spec (length (firstn start rhs)) si); [discriminate|].
    injection H as <- <- <-.
    assert (Hl1 : length (firstn start rhs) = start) by (rewrite firstn_length; lia).
    split; [|split].
    - rewrite app_assoc, firstn_skipn, firstn_skipn. reflexivity.
    - rewrite firstn_length. lia.
    - rewrite skipn_length. lia.
  Qed.

  (* a successful assign_all: either no splat and the items pair up with rhs ++ (defaults in
     play), or one splat at si and front / middle / back are matched in this order *)
  Lemma assign_all_inv : forall ps rt rhs s s',
    assign_all rec ps rt rhs s = (s', Ok tt) ->
    exists defs,
      (scan ps 0 (length rhs) None [] = Ok (None, defs) /\ chain rt ps (rhs ++ defs) s s') \/
      (exists si front mid back s1 s2,
         scan ps 0 (length rhs) None [] = Ok (Some si, defs) /\ (si < length ps)%nat /\
         rhs ++ defs = front ++ mid ++ back /\ length front = si /\
         chain rt (firstn si ps) front s s1 /\
         assign_splat rec (nth si ps PWild) rt mid s1 = (s2, Ok tt) /\
         chain rt (skipn (S si) ps) back s2 s').
  Proof.
    intros ps rt rhs s s' H. unfold assign_all in H.
    destruct (scan ps 0 (length rhs) None []) as [[[si|] defs]| | |] eqn:Esc; try discriminate.
    - exists defs. right.
      pose proof (scan_splat_lt ps 0 (length rhs) None [] si defs ltac:(intros j Hj; discriminate Hj) Esc) as Hlt.
      cbn [Nat.add] in Hlt.
      destruct (split_splat (length ps) si (rhs ++ defs)) as [[[front mid] back]| | |] eqn:Esp; try discriminate.
      apply split_splat_inv in Esp as (Hrhs & Hlen & _).
      apply andthen_ok in H as (s1 & H1 & H). apply andthen_ok in H as (s2 & H2 & H3).
      apply assign_all_basic_chain in H1 as [_ H1]. apply assign_all_basic_chain in H3 as [_ H3].
      exists si, front, mid, back, s1, s2. repeat split; auto.
    - exists defs. left. split; [reflexivity|].
      destruct (Nat.eqb _ _); [|discriminate]. apply assign_all_basic_chain in H as [_ H]. exact H.
  Qed.
End Inv.
