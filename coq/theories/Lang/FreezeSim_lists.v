(* Lang/FreezeSim_lists.v - simulation of the list-shaped parts of the evaluator (argument lists,
   sequences, operator chains, for clauses, switch arms), given the simulation for the evaluator of
   sub-expressions. *)
From Coq Require Import ZArith String List Bool Arith Lia.
From NV Require Import Lang.FreezeLang Lang.Freeze Lang.FreezeSpec Lang.Freeze_proofs Lang.FreezeBnd_proofs
  Lang.FreezeRel Lang.FreezeSim_store Lang.FreezeSim_rel Lang.FreezeSim_ops Lang.FreezeSim_scope.
Import ListNotations.
Open Scope string_scope.
Open Scope list_scope.

Section Lists.
  Variable n0 cur0 : nat.
  Variable FV : name -> option val.
  Variable resl : list name.
  Variable mutl : list name.
  Notation prot := (prot0 n0 resl).
  Notation ext_at := (ext_at n0 resl).
  Notation kext := (kext n0 resl).
  Notation vrel := (vrel n0 cur0 FV resl mutl).
  Notation vrels := (vrels n0 cur0 FV resl mutl).
  Notation srel := (srel n0 cur0 FV resl mutl).
  Notation agree := (agree n0 cur0 FV resl mutl).
  Notation post := (post n0 cur0 FV resl mutl).
  Notation fzr := (fzr FV mutl).
  Notation fzrL := (fzrL FV mutl).
  Notation fzrOps := (fzrOps FV mutl).
  Notation fzrC := (fzrC FV mutl).
  Notation fzrArms := (fzrArms FV mutl).
  Notation sim_at := (sim_at n0 cur0 FV resl mutl).
  Notation pre := (pre n0 cur0 FV resl mutl).

  Hypothesis Hcur0 : cur0 < n0.
  Implicit Types P D : name -> Prop.

  Lemma srel_n0 : forall st st', srel st st' -> n0 <= length (frames st).
  Proof. intros st st' []; auto. Qed.

  (* underscores sit at the same places *)
  Lemma fzr_underscore : forall P D B e e', fzr P D B e e' -> is_underscore e = is_underscore e'.
  Proof. intros P D B e e' H. inversion H; reflexivity. Qed.

  Lemma fzrL_underscore : forall P D B es es', fzrL P D B es es' ->
    existsb is_underscore es = existsb is_underscore es'.
  Proof. induction 1; cbn; auto. rewrite (fzr_underscore _ _ _ _ _ H), IHfzrL. auto. Qed.

  Lemma fzrOps_underscore : forall P D B ops ops', fzrOps P D B ops ops' ->
    existsb (fun p => is_underscore (snd p)) ops = existsb (fun p => is_underscore (snd p)) ops'.
  Proof. induction 1; cbn; auto. rewrite (fzr_underscore _ _ _ _ _ H0), IHfzrOps. auto. Qed.

  Section WithRec.
    Variable rec : evalfn.
    Hypothesis HR : sim_at rec rec.

    (* the state after evaluating e at cur: ready for what follows it *)
    Lemma pre_after : forall P D B e st st' st1 st1' cur Dn,
      pre P D B st st' cur Dn -> ext_at (frames st) (frames st1) cur (ddecl e) -> kext (frames st) (frames st1) ->
      srel st1 st1' -> agree (frames st1) -> pre P D (bnd B e) st1 st1' cur Dn.
    Proof.
      intros. eapply pre_step; eauto.
      - intros x Hx. apply bnd_ddecl; auto.
      - intros x Hx. apply bnd_incl; auto.
    Qed.

    Lemma pre_same : forall P D B st st' st1 st1' cur Dn,
      pre P D B st st' cur Dn -> ext_at (frames st) (frames st1) cur [] -> kext (frames st) (frames st1) ->
      srel st1 st1' -> agree (frames st1) -> pre P D B st1 st1' cur Dn.
    Proof. intros. eapply pre_step; eauto. intros x []. Qed.

    (* ---------------------------------------------------------- argument lists, list literals *)
    Lemma eval_exprs_sim : forall P D B es es', fzrL P D B es es' ->
      forall st st' cur Dn, pre P D B st st' cur Dn -> incl (flat_map ddecl es) Dn ->
      post vrels st cur (flat_map ddecl es) (eval_exprs rec st cur es) (eval_exprs rec st' cur es').
    Proof.
      induction 1 as [|P D B e e' r r' He Hr IH]; intros st st' cur Dn PR I; cbn [eval_exprs flat_map].
      - destruct PR. apply post_ret; auto. constructor.
      - eapply post_bind with (D1 := ddecl e) (D2 := flat_map ddecl r).
        + eapply use_rec; eauto. intros x Hx. apply I. apply in_or_app; auto.
        + intros x Hx. apply in_or_app; auto.
        + intros x Hx. apply in_or_app; auto.
        + intros st1 st1' v v' E K S1 Ag1 Rv.
          assert (PR1 := pre_after _ _ _ e _ _ _ _ _ _ PR E K S1 Ag1).
          eapply post_bind with (D1 := flat_map ddecl r) (D2 := []).
          * eapply IH; eauto. intros x Hx. apply I. apply in_or_app; auto.
          * apply incl_refl.
          * intros x [].
          * intros st2 st2' vs vs' E2 K2 S2 Ag2 Rvs. apply post_ret; auto.
            constructor; auto. eapply vrel_mono; eauto. eapply srel_n0; eauto.
    Qed.

    (* ---------------------------------------------------------- sequences *)
    Lemma eval_seq_sim : forall P D B es es', fzrL P D B es es' ->
      forall st st' cur Dn, pre P D B st st' cur Dn -> incl (flat_map ddecl es) Dn ->
      post vrel st cur (flat_map ddecl es) (eval_seq rec st cur es) (eval_seq rec st' cur es').
    Proof.
      induction 1 as [|P D B e e' r r' He Hr IH]; intros st st' cur Dn PR I; cbn [eval_seq flat_map].
      - destruct PR. apply post_ret; auto. constructor.
      - eapply post_bind with (D1 := ddecl e) (D2 := flat_map ddecl r).
        + eapply use_rec; eauto. intros x Hx. apply I. apply in_or_app; auto.
        + intros x Hx. apply in_or_app; auto.
        + intros x Hx. apply in_or_app; auto.
        + intros st1 st1' v v' E K S1 Ag1 Rv.
          assert (PR1 := pre_after _ _ _ e _ _ _ _ _ _ PR E K S1 Ag1).
          inversion Hr; subst.
          * cbn. eapply post_weaken; [apply post_ret; auto|intros ? []].
          * eapply IH; eauto. intros x Hx. apply I. apply in_or_app; auto.
    Qed.

    (* ---------------------------------------------------------- operator chains *)
    Definition pend_rel (fs : list frame) (p p' : list (val * val * Z)) : Prop :=
      Forall2 (fun a a' => vrel fs (fst (fst a)) (fst (fst a')) /\ vrel fs (snd (fst a)) (snd (fst a')) /\ snd a = snd a') p p'.

    Definition prel (fs : list frame) (a a' : list (val * val * Z) * val) : Prop :=
      pend_rel fs (fst a) (fst a') /\ vrel fs (snd a) (snd a').

    Lemma pend_rel_mono : forall fs fs1 p p', pend_rel fs p p' -> kext fs fs1 -> n0 <= length fs -> pend_rel fs1 p p'.
    Proof.
      intros fs fs1 p p' H K L. induction H; constructor; auto.
      destruct H as (H1 & H2 & H3). repeat split; auto; eapply vrel_mono; eauto.
    Qed.

    Lemma chain_reduce_sim : forall pending pending' st st' cur rm rm' prec,
      srel st st' -> agree (frames st) -> pend_rel (frames st) pending pending' -> vrel (frames st) rm rm' ->
      post prel st cur [] (chain_reduce prot rec st pending rm prec) (chain_reduce prot rec st' pending' rm' prec).
    Proof.
      induction pending as [|[[lhs top] tp] rest IH]; intros pending' st st' cur rm rm' prec S Ag RP Rr;
        inversion RP; subst; cbn [chain_reduce].
      - apply post_ret; auto; split; cbn; auto; constructor.
      - destruct y as [[lhs' top'] tp']. destruct H1 as (Q1 & Q2 & Q3). cbn in Q1, Q2, Q3. subst tp'.
        destruct (Z.leb prec tp).
        + eapply post_bind with (D1 := []) (D2 := []); try apply incl_refl.
          * eapply apply_val_sim; eauto; repeat (constructor; auto).
          * intros st1 st1' v v' E K S1 Ag1 Rv. apply IH; auto.
            eapply pend_rel_mono; eauto. eapply srel_n0; eauto.
        + apply post_ret; auto; split; cbn; auto; constructor; auto.
    Qed.

    Lemma chain_finish_sim : forall pending pending' st st' cur rm rm',
      srel st st' -> agree (frames st) -> pend_rel (frames st) pending pending' -> vrel (frames st) rm rm' ->
      post vrel st cur [] (chain_finish prot rec st pending rm) (chain_finish prot rec st' pending' rm').
    Proof.
      induction pending as [|[[lhs top] tp] rest IH]; intros pending' st st' cur rm rm' S Ag RP Rr;
        inversion RP; subst; cbn [chain_finish].
      - apply post_ret; auto.
      - destruct y as [[lhs' top'] tp']. destruct H1 as (Q1 & Q2 & Q3). cbn in Q1, Q2, Q3. subst tp'.
        eapply post_bind with (D1 := []) (D2 := []); try apply incl_refl.
        * eapply apply_val_sim; eauto; repeat (constructor; auto).
        * intros st1 st1' v v' E K S1 Ag1 Rv. apply IH; auto.
          eapply pend_rel_mono; eauto. eapply srel_n0; eauto.
    Qed.

    Definition ops_decl (ops : list (expr * expr)) : list name :=
      flat_map (fun p => ddecl (fst p) ++ ddecl (snd p)) ops.

    Lemma chain_ops_sim : forall P D B ops ops', fzrOps P D B ops ops' ->
      forall st st' cur Dn pending pending' rm rm',
        pre P D B st st' cur Dn -> incl (ops_decl ops) Dn ->
        pend_rel (frames st) pending pending' -> vrel (frames st) rm rm' ->
        post vrel st cur (ops_decl ops) (chain_ops prot rec st cur pending rm ops) (chain_ops prot rec st' cur pending' rm' ops').
    Proof.
      induction 1 as [|P D B o o' d d' r r' Ho Hd Hr IH]; intros st st' cur Dn pending pending' rm rm' PR I RP Rr;
        cbn [chain_ops].
      - destruct PR. apply chain_finish_sim; auto.
      - unfold ops_decl in *. cbn [flat_map fst snd] in *.
        assert (N0 := srel_n0 _ _ (pr_srel _ _ _ _ _ _ _ _ _ _ _ _ PR)).
        eapply post_bind with (D1 := ddecl o) (D2 := ddecl d ++ ops_decl r).
        + eapply use_rec; eauto. intros x Hx. apply I. apply in_or_app. left. apply in_or_app; auto.
        + intros x Hx. apply in_or_app. left. apply in_or_app; auto.
        + intros x Hx. apply in_app_or in Hx. apply in_or_app. destruct Hx; auto. left. apply in_or_app; auto.
        + intros st1 st1' opv opv' E K S1 Ag1 Rv.
          assert (PR1 := pre_after _ _ _ o _ _ _ _ _ _ PR E K S1 Ag1).
          assert (N1 := srel_n0 _ _ S1).
          rewrite <- (vrel_is_func _ _ _ _ _ _ _ _ Rv). destruct (is_func opv); cbn [negb].
          2:{ eapply post_weaken; [apply post_throw_err; auto|intros ? []]. }
          rewrite <- (vrel_is_cmp _ _ _ _ _ _ _ _ Rv). destruct (is_cmp opv).
          { eapply post_weaken; [apply post_unsupp; auto|intros ? []]. }
          eapply post_bind with (D1 := ddecl d) (D2 := ops_decl r).
          * eapply use_rec; eauto. intros x Hx. apply I. apply in_or_app. left. apply in_or_app; auto.
          * intros x Hx. apply in_or_app; auto.
          * intros x Hx. apply in_or_app; auto.
          * intros st2 st2' v v' E2 K2 S2 Ag2 Rv2.
            assert (PR2 := pre_after _ _ _ d _ _ _ _ _ _ PR1 E2 K2 S2 Ag2).
            assert (N2 := srel_n0 _ _ S2).
            rewrite <- (vrel_func_prec _ _ _ _ _ _ _ _ Rv).
            eapply post_bind with (D1 := []) (D2 := ops_decl r).
            -- apply chain_reduce_sim; auto.
               ++ eapply pend_rel_mono; [eapply pend_rel_mono|..]; eauto.
               ++ eapply vrel_mono with (fs := frames st1); eauto. eapply vrel_mono; eauto.
            -- intros ? [].
            -- apply incl_refl.
            -- intros st3 st3' [pd v3] [pd' v3'] E3 K3 S3 Ag3 [R3a R3b]. cbn [fst snd] in *.
               eapply IH; eauto.
               ++ eapply pre_same; eauto.
               ++ intros x Hx. apply I. apply in_or_app; auto.
               ++ constructor; auto. cbn. repeat split; auto.
                  eapply vrel_mono with (fs := frames st2); eauto. eapply vrel_mono; eauto.
               ++ eapply vrel_mono; eauto.
    Qed.

    (* ---------------------------------------------------------- for loops *)
    Definition cont_ok P D (B : list name) (bud : list name)
               (k k' : state -> nat -> list val -> result (list val)) : Prop :=
      forall st st' fr acc acc', pre P D B st st' fr bud -> vrels (frames st) acc acc' ->
        post vrels st fr bud (k st fr acc) (k' st' fr acc').

    Lemma for_each_sim : forall P D B bud bud' x k k' l l',
      cont_ok P (DU D bud) (x :: B) bud k k' ->
      In x bud ->
      forall st st' cur Dn acc acc',
        pre P D B st st' cur Dn -> vrels (frames st) l l' -> vrels (frames st) acc acc' ->
        post vrels st cur [] (for_each prot k cur bud x l st acc) (for_each prot k' cur bud' x l' st' acc').
    Proof.
      intros P D B bud bud' x k k' l l' HK Hx. revert l'.
      induction l as [|v l IH]; intros l' st st' cur Dn acc acc' PR Rl Ra; inversion Rl; subst; cbn [for_each].
      - destruct PR. apply post_ret; auto.
      - assert (N0 := srel_n0 _ _ (pr_srel _ _ _ _ _ _ _ _ _ _ _ _ PR)).
        destruct PR as [S Ag CI CH LC BU PP].
        pose proof (enter_frame n0 cur0 FV resl mutl Hcur0 P D B st st' cur bud bud' S Ag CI CH LC PP) as PRf.
        destruct (srel_push n0 cur0 FV resl mutl Hcur0 st st' cur bud bud' S LC) as (_ & F1 & F2).
        destruct (push_frame st cur bud) as [st1 fr] eqn:P1.
        destruct (push_frame st' cur bud') as [st1' fr'] eqn:P2.
        cbn [fst snd] in *. subst fr fr'.
        assert (E1 : ext_at (frames st) (frames st1) cur []).
        { unfold push_frame in P1. inversion P1; subst. cbn. apply ext_at_push. }
        assert (K1 : kext (frames st) (frames st1)).
        { unfold push_frame in P1. inversion P1; subst. cbn. apply kext_push. }
        (* one pass, in the fresh frame *)
        assert (PASS : post vrels st cur []
                  (bindR (declare_all prot st1 (length (frames st)) [(x, v)]) (fun st2 _ => k st2 (length (frames st)) acc))
                  (bindR (declare_all prot st1' (length (frames st)) [(x, v')]) (fun st2 _ => k' st2 (length (frames st)) acc'))).
        { eapply post_fresh with (fr := length (frames st)) (Dn := bud); eauto.
          destruct PRf as [S1 Ag1 CI1 CH1 LC1 BU1 PP1].
          eapply post_bind with (D1 := [x]) (D2 := bud).
          - apply (declare_all_sim n0 cur0 FV resl mutl Hcur0 [(x, v)] [(x, v')]); auto.
            + constructor; [|constructor]. split; auto. cbn. eapply vrel_mono; eauto.
            + intros G y [<-|[]]. apply BU1; auto.
          - intros y [<-|[]]. auto.
          - apply incl_refl.
          - intros st2 st2' [] [] E2 K2 S2 Ag2 _. apply HK.
            + eapply pre_step with (B := B); eauto.
              * constructor; eauto.
              * intros y [<-|[]]. left; auto.
              * intros y Hy. right; auto.
            + eapply vrels_mono with (fs := frames st1); eauto; [|eapply srel_n0; eauto]. eapply vrels_mono; eauto. }
        (* the remaining passes *)
        assert (REASSOC : forall (kk : state -> nat -> list val -> result (list val)) s1 bb a (rest : state -> list val -> result (list val)),
                  bindR (declare_all prot s1 (length (frames st)) bb) (fun st2 _ =>
                    bindR (kk st2 (length (frames st)) a) rest) =
                  bindR (bindR (declare_all prot s1 (length (frames st)) bb) (fun st2 _ => kk st2 (length (frames st)) a)) rest).
        { intros. destruct (declare_all prot s1 (length (frames st)) bb) as [s [u|sg|]]; reflexivity. }
        rewrite !REASSOC.
        eapply post_bind with (D1 := []) (D2 := []); try apply incl_refl; [exact PASS|].
        intros st3 st3' a3 a3' E3 K3 S3 Ag3 R3.
        eapply IH; eauto.
        + eapply pre_same; eauto. constructor; eauto.
        + eapply vrels_mono; eauto.
    Qed.

    Lemma cont_ok_DU : forall P D B bud k k',
      (forall x, In x bud -> D x) -> cont_ok P D B bud k k' -> cont_ok P (DU D bud) B bud k k'.
    Proof.
      intros P D B bud k k' HD H st st' fr acc acc' PR R. apply H; auto.
      destruct PR as [S2 Ag2 CI2 CH2 LC2 BU2 PP2]. constructor; auto.
      intros h A Hh y Hy. destruct (CH2 h A Hh y Hy); auto.
    Qed.

    Lemma eval_for_sim : forall P D B bud bud' cls cls', fzrC P D B cls cls' ->
      forall cb cb',
        cont_ok P D (bndC B cls) bud cb cb' ->
        (forall c, In c cls -> incl (clause_names c ++ ddecl (snd c)) bud) ->
        (forall x, In x bud -> D x) ->
        cont_ok P D B bud (eval_for prot rec bud cls cb) (eval_for prot rec bud' cls' cb').
    Proof.
      induction 1 as [|P D B k z e e' r r' He Hr IH]; intros cb cb' HC HB HD; cbn [eval_for bndC] in *.
      - exact HC.
      - intros st st' fr acc acc' PR Ra.
        assert (N0 := srel_n0 _ _ (pr_srel _ _ _ _ _ _ _ _ _ _ _ _ PR)).
        assert (IB : incl (ddecl e) bud).
        { intros x Hx. apply (HB (k, z, e)); [left; auto|]. apply in_or_app. right. auto. }
        eapply post_weaken with (D1 := ddecl e ++ bud); [|intros x Hx; apply in_app_or in Hx; destruct Hx; auto].
        eapply post_bind with (D1 := ddecl e) (D2 := bud).
        + eapply use_rec; eauto.
        + intros x Hx. apply in_or_app; auto.
        + intros x Hx. apply in_or_app; auto.
        + intros st1 st1' v v' E K S1 Ag1 Rv.
          assert (PR1 := pre_after _ _ _ e _ _ _ _ _ _ PR E K S1 Ag1).
          assert (Ra1 : vrels (frames st1) acc acc') by (eapply vrels_mono; eauto).
          assert (HBr : forall c, In c r -> incl (clause_names c ++ ddecl (snd c)) bud) by (intros; apply HB; right; auto).
          destruct k.
          * (* x <- e *)
            assert (Zb : In z bud) by (apply (HB (KIter, z, e)); [left; auto|apply in_or_app; left; left; auto]).
            inversion Rv; subst; cbn [iter_elems];
              try (eapply post_weaken; [apply post_throw_err; destruct PR1; auto|intros ? []]; fail);
              try (eapply post_weaken; [apply post_unsupp; destruct PR1; auto|intros ? []]; fail).
            eapply post_weaken with (D1 := []); [|intros ? []].
            eapply for_each_sim with (D := D) (B := bnd B e); eauto.
            apply cont_ok_DU; auto; eapply IH; eauto.
          * (* x := e *)
            assert (Zb : In z bud) by (apply (HB (KLet, z, e)); [left; auto|apply in_or_app; left; left; auto]).
            eapply post_weaken with (D1 := []); [|intros ? []].
            eapply for_each_sim with (D := D) (B := bnd B e) (l := [v]) (l' := [v']); eauto.
            -- apply cont_ok_DU; auto; eapply IH; eauto.
            -- constructor; auto. constructor.
          * (* if e *)
            rewrite <- (vrel_truthy _ _ _ _ _ _ _ _ Rv). destruct (truthy v).
            -- eapply IH; eauto.
            -- eapply post_weaken; [apply post_ret; destruct PR1; auto|intros ? []].
    Qed.

    (* ---------------------------------------------------------- switch arms *)
    Lemma pat_match_rel : forall fs p v v', vrel fs v v' ->
      match pat_match p v, pat_match p v' with
      | TOk bs, TOk bs' => binds_rel n0 cur0 FV resl mutl fs bs bs' /\ map fst bs = pat_names p
      | TThrow, TThrow => True
      | TUnsupp, TUnsupp => True
      | _, _ => False
      end.
    Proof.
      intros fs p v v' R. destruct p; cbn.
      - split; auto. constructor.
      - inversion R; subst; auto. destruct (Z.eqb z z0); auto. split; auto. constructor.
      - split; auto. constructor; [|constructor]. split; auto.
    Qed.

    Lemma eval_arms_sim : forall P D B arms arms', fzrArms P D B arms arms' ->
      forall st st' cur Dn v v',
        pre P D B st st' cur Dn -> vrel (frames st) v v' ->
        post vrel st cur [] (eval_arms prot rec st cur v arms) (eval_arms prot rec st' cur v' arms').
    Proof.
      induction 1 as [|P D B p b b' r r' Hb Hr IH]; intros st st' cur Dn v v' PR Rv; cbn [eval_arms].
      - destruct PR. apply post_throw_err; auto.
      - assert (N0 := srel_n0 _ _ (pr_srel _ _ _ _ _ _ _ _ _ _ _ _ PR)).
        pose proof PR as PR0. destruct PR as [S Ag CI CH LC BU PP].
        pose proof (enter_frame n0 cur0 FV resl mutl Hcur0 P D B st st' cur (arm_budget p b) (arm_budget p b') S Ag CI CH LC PP) as PRf.
        destruct (srel_push n0 cur0 FV resl mutl Hcur0 st st' cur (arm_budget p b) (arm_budget p b') S LC) as (_ & F1 & F2).
        destruct (push_frame st cur (arm_budget p b)) as [st1 fr] eqn:P1.
        destruct (push_frame st' cur (arm_budget p b')) as [st1' fr'] eqn:P2.
        cbn [fst snd] in *. subst fr fr'.
        assert (E1 : ext_at (frames st) (frames st1) cur []).
        { unfold push_frame in P1. inversion P1; subst. cbn. apply ext_at_push. }
        assert (K1 : kext (frames st) (frames st1)).
        { unfold push_frame in P1. inversion P1; subst. cbn. apply kext_push. }
        assert (Rv1 : vrel (frames st1) v v') by (eapply vrel_mono; eauto).
        pose proof (pat_match_rel (frames st1) p v v' Rv1) as PM.
        destruct (pat_match p v) as [bs| |]; destruct (pat_match p v') as [bs'| |]; try contradiction.
        + destruct PM as [PM1 PM2].
          eapply post_fresh with (fr := length (frames st)) (Dn := arm_budget p b); eauto.
          destruct PRf as [S1 Ag1 CI1 CH1 LC1 BU1 PP1].
          eapply post_bind with (D1 := map fst bs) (D2 := ddecl b).
          * apply (declare_all_sim n0 cur0 FV resl mutl Hcur0); auto.
            intros G. rewrite PM2. intros y Hy. apply BU1; auto. unfold arm_budget. apply in_or_app; auto.
          * rewrite PM2. unfold arm_budget. intros y Hy. apply in_or_app; auto.
          * unfold arm_budget. intros y Hy. apply in_or_app; auto.
          * intros st2 st2' [] [] E2 K2 S2 Ag2 _.
            eapply use_rec; eauto.
            -- eapply pre_step with (B := B); eauto.
               ++ constructor; eauto.
               ++ rewrite PM2. intros y Hy. apply in_or_app; auto.
               ++ intros y Hy. apply in_or_app; auto.
            -- unfold arm_budget. intros y Hy. apply in_or_app; auto.
        + eapply post_prefix with (D1 := []) (D2 := []); eauto; try apply incl_refl.
          eapply IH; eauto. eapply pre_same; eauto; destruct PRf; auto.
        + eapply post_prefix with (D1 := []) (D2 := []); eauto; try apply incl_refl.
          apply post_unsupp; destruct PRf; auto.
    Qed.
  End WithRec.
End Lists.
