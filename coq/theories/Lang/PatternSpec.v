(* C12: the vocabulary of the statements (no model code here). *)
From Coq Require Import ZArith NArith List Bool.
From NV Require Import Common.Outcome Lang.Types Lang.Pattern.
Import ListNotations.

(* neither a splat (possibly annotated) nor a default *)
Definition plain (p : pat) : bool :=
  match p with
  | PSplat _ | PAnn (PSplat _) _ | PDefault _ _ => false
  | _ => true
  end.
Definition is_splat (p : pat) : bool :=
  match p with
  | PSplat _ | PAnn (PSplat _) _ => true
  | _ => false
  end.
Definition mkdef (pd : pat * val) : pat := PDefault (fst pd) (snd pd).

Section S.
  Variable sat : N -> val -> outcome bool.
  Definition typed (T : ty) (w : val) : Prop := is_type sat T w = Ok true.
  (* declared types persist from s to s' *)
  Definition Rdecl (s s' : store) : Prop :=
    forall x T w, lookup s x = Some (T, w) -> exists w', lookup s' x = Some (T, w').
  (* ... and a value changes only to a value of the declared type *)
  Definition Rty (s s' : store) : Prop :=
    forall x T w, lookup s x = Some (T, w) -> exists w', lookup s' x = Some (T, w') /\ (w' = w \/ typed T w').
  (* x, if declared in s, ends in s' with the same declared type and a value of that type *)
  Definition established (x : N) (s s' : store) : Prop :=
    forall T w, lookup s x = Some (T, w) -> exists w', lookup s' x = Some (T, w') /\ typed T w'.
End S.

(* ---------------------------------------------------------------- reading a match backwards *)
Definition splat_inner (p : pat) : pat :=
  match p with PSplat q => q | PAnn (PSplat q) _ => q | _ => p end.

(* a list of item patterns against a list of values: every non-splat item takes one value, a splat
   item takes a (possibly empty) run of consecutive values, presented to it as a list *)
Fixpoint recon_items (rc : pat -> val -> Prop) (ps : list pat) (vs : list val) : Prop :=
  match ps with
  | [] => vs = []
  | p :: ps' =>
    if is_splat p
    then exists mid rest, vs = mid ++ rest /\ rc (splat_inner p) (VList mid) /\ recon_items rc ps' rest
    else exists v rest, vs = v :: rest /\ rc p v /\ recon_items rc ps' rest
  end.

(* no default anywhere in the pattern *)
Fixpoint nodef (p : pat) : bool :=
  let fix go (l : list pat) : bool := match l with [] => true | q :: r => nodef q && go r end in
  match p with
  | PDefault _ _ => false
  | PAnn q _ | PSplat q => nodef q
  | PSeq ps _ | PDestr _ ps | PStruct _ ps => go ps
  | POr a b | PAnd a b => nodef a && nodef b
  | _ => true
  end.

Section Recon.
  Variable inexact : iop -> num -> num -> num.
  (* `recon s p v`: under the bindings s, the pattern p read as an expression denotes v:
     a name denotes its binding, a wildcard anything, a literal anything == to it, a sequence
     pattern a sequence whose elements are denoted item by item (splats spliced), an operator
     pattern a value whose destructuring (inverse of the operator, see destructure_inverts)
     is denoted by the operands, a struct pattern an instance of that struct, `and` both, `or`
     either.  (fuel: nesting bound, as for assign) *)
  Fixpoint recon (fuel : nat) (s : store) (p : pat) (v : val) : Prop :=
    match fuel with
    | O => False
    | S f =>
      match p with
      | PWild => True
      | PVar x => exists t, lookup s x = Some (t, v)
      | PAnn q _ | PDefault q _ => recon f s q v
      | PSeq ps _ => exists es, elements v = Some es /\ recon_items (recon f s) ps es
      | PSplat _ => False
      | POr a b => recon f s a v \/ recon f s b v
      | PAnd a b => recon f s a v /\ recon f s b v
      | PLit l => veq l v = true
      | PDestr b args =>
        exists r, destructure inexact b v (map known_of args) = Ok r /\ recon_items (recon f s) args r
      | PStruct sid args => exists fs, v = VInst sid fs /\ recon_items (recon f s) args fs
      end
    end.
End Recon.

Definition extends (s s' : store) : Prop := forall x tv, lookup s x = Some tv -> lookup s' x = Some tv.

(* ---------------------------------------------------------------- the constructors the operator patterns invert *)
(* Prepend::run2 / Append::run2 on lists, vectors and bytes (other right/left operands raise) *)
Definition prepend (h t : val) : outcome val :=
  match t, h with
  | VList l, _ => Ok (VList (h :: l))
  | VVec l, VNum x => Ok (VVec (x :: l))
  | VBytes l, VNum (NInt z) => if (0 <=? z)%Z && (z <? 256)%Z then Ok (VBytes (Z.to_N z :: l)) else Err EValue
  | _, _ => Err EArg
  end.
Definition append (i l : val) : outcome val :=
  match i, l with
  | VList xs, _ => Ok (VList (xs ++ [l]))
  | VVec xs, VNum x => Ok (VVec (xs ++ [x]))
  | VBytes xs, VNum (NInt z) => if (0 <=? z)%Z && (z <? 256)%Z then Ok (VBytes (xs ++ [Z.to_N z])) else Err EValue
  | _, _ => Err EArg
  end.

(* ---------------------------------------------------------------- comparison patterns, bytes *)
(* every link of a comparison chain accepts *)
Fixpoint links_hold (ops : list cmpop) (args : list val) : Prop :=
  match ops, args with
  | op :: ops', a :: ((b :: _) as rest) => cmp_accept op a b = Ok true /\ links_hold ops' rest
  | _, _ => True
  end.
(* the values at the non-literal positions, in order *)
Fixpoint slot_values (known : list (option val)) (ret : list val) : list val :=
  match known, ret with
  | None :: k', v :: r' => v :: slot_values k' r'
  | Some _ :: k', _ :: r' => slot_values k' r'
  | _, _ => []
  end.
Fixpoint lits_agree (known : list (option val)) (ret : list val) : Prop :=
  match known, ret with
  | [], [] => True
  | Some l :: k', v :: r' => v = l /\ lits_agree k' r'
  | None :: k', _ :: r' => lits_agree k' r'
  | _, _ => False
  end.
Definition nslots (known : list (option val)) : nat :=
  length (filter (fun o => match o with None => true | Some _ => false end) known).


(* a bytes value holds bytes *)
Definition bytes_ok (l : list N) : Prop := Forall (fun b => (b < 256)%N) l.
