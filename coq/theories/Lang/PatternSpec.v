(* C12: the vocabulary of the statements (no model code here). *)
From Coq Require Import ZArith NArith List Bool.
From NV Require Import Common.Outcome Lang.Types Lang.Pattern.
Import ListNotations.

(* neither a splat (possibly annotated) nor a default *)
Definition plain (p : pat) : bool :=
  match p with
  | PSplat _ | PAnn (PSplat _) _ | PDefault _ _ => false
  | _ => true
  end.
Definition is_splat (p : pat) : bool :=
  match p with
  | PSplat _ | PAnn (PSplat _) _ => true
  | _ => false
  end.
Definition mkdef (pd : pat * val) : pat := PDefault (fst pd) (snd pd).

Section S.
  Variable sat : N -> val -> outcome bool.
  Definition typed (T : ty) (w : val) : Prop := is_type sat T w = Ok true.
  (* declared types persist from s to s' *)
  Definition Rdecl (s s' : store) : Prop :=
    forall x T w, lookup s x = Some (T, w) -> exists w', lookup s' x = Some (T, w').
  (* ... and a value changes only to a value of the declared type *)
  Definition Rty (s s' : store) : Prop :=
    forall x T w, lookup s x = Some (T, w) -> exists w', lookup s' x = Some (T, w') /\ (w' = w \/ typed T w').
  (* x, if declared in s, ends in s' with the same declared type and a value of that type *)
  Definition established (x : N) (s s' : store) : Prop :=
    forall T w, lookup s x = Some (T, w) -> exists w', lookup s' x = Some (T, w') /\ typed T w'.
End S.
