(* Lang/FreezeSim_ops.v - the building blocks of the simulation: `post` composes along bindR, and
   the primitive steps (return, push_frame, declare, assign, builtins) of the original and of the
   frozen run stay in lockstep. *)
From Coq Require Import ZArith String List Bool Arith Lia.
From NV Require Import Lang.FreezeLang Lang.Freeze Lang.FreezeSpec Lang.FreezeRel Lang.FreezeSim_store Lang.FreezeSim_rel.
Import ListNotations.
Open Scope string_scope.
Open Scope list_scope.

Section Ops.
  Variable n0 cur0 : nat.
  Variable FV : name -> option val.
  Variable resl : list name.
  Variable mutl : list name.
  Notation prot0 := (prot0 n0 resl).
  Notation ext_at := (ext_at n0 resl).
  Notation kext := (kext n0 resl).
  Notation vrel := (vrel n0 cur0 FV resl mutl).
  Notation vrels := (vrels n0 cur0 FV resl mutl).
  Notation srel := (srel n0 cur0 FV resl mutl).
  Notation agree := (agree n0 cur0 FV resl mutl).
  Notation frame_rel := (frame_rel n0 cur0 FV resl mutl).
  Notation vars_rel := (vars_rel n0 cur0 FV resl mutl).
  Notation post := (post n0 cur0 FV resl mutl).
  Notation rres := (rres n0 cur0 FV resl mutl).

  Hypothesis Hcur0 : cur0 < n0.

  Ltac split5 := refine (conj _ (conj _ (conj _ (conj _ _)))).

  Definition RTrue {A} : list frame -> A -> A -> Prop := fun _ _ _ => True.

  (* ------------------------------------------------------------ post *)
  Lemma post_ret : forall {A} (RA : list frame -> A -> A -> Prop) st st' cur a a',
    srel st st' -> agree (frames st) -> RA (frames st) a a' -> post RA st cur [] (ret st a) (ret st' a').
  Proof.
    intros. right. cbn. split5; auto using ext_at_refl, kext_refl.
  Qed.

  Lemma post_sig_throw : forall {A} (RA : list frame -> A -> A -> Prop) st st' cur v v',
    srel st st' -> agree (frames st) -> vrel (frames st) v v' ->
    post RA st cur [] (st, Sig (SThrow v)) (st', Sig (SThrow v')).
  Proof.
    intros. right. cbn. split5; auto using ext_at_refl, kext_refl.
  Qed.

  Lemma post_throw_err : forall {A} (RA : list frame -> A -> A -> Prop) st st' cur,
    srel st st' -> agree (frames st) -> post RA st cur [] (@throw_err A st) (throw_err st').
  Proof. intros. apply post_sig_throw; auto. constructor. Qed.

  Lemma post_unsupp : forall {A} (RA : list frame -> A -> A -> Prop) st st' cur,
    srel st st' -> agree (frames st) -> post RA st cur [] (@unsupported A st) (unsupported st').
  Proof.
    intros. right. cbn. split5; auto using ext_at_refl, kext_refl.
  Qed.

  Lemma post_weaken : forall {A} (RA : list frame -> A -> A -> Prop) st cur D1 D2 r r',
    post RA st cur D1 r r' -> incl D1 D2 -> post RA st cur D2 r r'.
  Proof.
    intros A RA st cur D1 D2 r r' [H|(E & K & S & Ag & R)] I; [left; auto|right].
    split5; auto. eapply ext_at_weaken; eauto.
  Qed.

  Lemma post_bind : forall {A B} (RA : list frame -> A -> A -> Prop) (RB : list frame -> B -> B -> Prop)
      st cur D1 D2 Dn (r r' : result A) (k k' : state -> A -> result B),
    post RA st cur D1 r r' -> incl D1 Dn -> incl D2 Dn ->
    (forall st1 st1' a a',
        ext_at (frames st) (frames st1) cur D1 -> kext (frames st) (frames st1) ->
        srel st1 st1' -> agree (frames st1) -> RA (frames st1) a a' ->
        post RB st1 cur D2 (k st1 a) (k' st1' a')) ->
    post RB st cur Dn (bindR r k) (bindR r' k').
  Proof.
    intros A B RA RB st cur D1 D2 Dn [st1 r] [st1' r'] k k' H I1 I2 HK.
    destruct H as [H|(E & K & S & Ag & R)]; cbn [fst snd] in *.
    - left. destruct H as [H|H]; subst r; cbn; [left|right]; reflexivity.
    - destruct r as [a|[v| |]|]; destruct r' as [a'|[v'| |]|]; cbn in R; try contradiction; cbn [bindR].
      + specialize (HK st1 st1' a a' E K S Ag R).
        destruct HK as [H|(E2 & K2 & S2 & Ag2 & R2)]; [left; auto|right].
        split5; auto.
        * eapply ext_at_trans; eauto.
        * eapply kext_trans; eauto.
      + right. cbn. split5; auto. eapply ext_at_weaken; eauto.
      + right. cbn. split5; auto. eapply ext_at_weaken; eauto.
  Qed.

  Lemma post_prefix : forall {A} (RA : list frame -> A -> A -> Prop) st st1 cur D1 D2 Dn r r',
    ext_at (frames st) (frames st1) cur D1 -> kext (frames st) (frames st1) ->
    post RA st1 cur D2 r r' -> incl D1 Dn -> incl D2 Dn -> post RA st cur Dn r r'.
  Proof.
    intros A RA st st1 cur D1 D2 Dn r r' E K [H|(E2 & K2 & S2 & Ag2 & R2)] I1 I2; [left; auto|right].
    split5; auto.
    - eapply ext_at_trans; eauto.
    - eapply kext_trans; eauto.
  Qed.

  (* a result obtained at a frame that did not exist at st, seen from an old frame *)
  Lemma post_fresh : forall {A} (RA : list frame -> A -> A -> Prop) st st1 fr cur Dn Dm r r',
    ext_at (frames st) (frames st1) cur [] -> kext (frames st) (frames st1) ->
    length (frames st) <= fr ->
    post RA st1 fr Dn r r' -> post RA st cur Dm r r'.
  Proof.
    intros A RA st st1 fr cur Dn Dm r r' E K L [H|(E2 & K2 & S2 & Ag2 & R2)]; [left; auto|right].
    split5; auto.
    - eapply ext_at_weaken with (D1 := []); [|intros ? []]. eapply ext_at_trans_fresh; eauto.
    - eapply kext_trans; eauto.
  Qed.

  (* ------------------------------------------------------------ push_frame *)
  Lemma wf_frames_app : forall fs p bud, wf_frames fs -> p < length fs -> wf_frames (fs ++ [mkFrame (Some p) [] bud]).
  Proof.
    intros fs p bud W Lp g fr q E Ep.
    destruct (Nat.lt_ge_cases g (length fs)) as [L|L].
    - rewrite nth_error_app1 in E by auto. eapply W; eauto.
    - rewrite nth_error_app2 in E by auto. destruct (g - length fs) as [|k] eqn:G.
      + cbn in E. inversion E; subst fr. cbn in Ep. inversion Ep; subst. lia.
      + cbn in E. destruct k; discriminate.
  Qed.

  Lemma srel_push : forall st st' p bud bud', srel st st' -> p < length (frames st) ->
    srel (fst (push_frame st p bud)) (fst (push_frame st' p bud')) /\
    snd (push_frame st p bud) = length (frames st) /\
    snd (push_frame st' p bud') = length (frames st).
  Proof.
    intros st st' p bud bud' [F O W N C] Lp. cbn [push_frame fst snd frames out].
    split; [|split; auto; symmetry; eapply Forall2_len; eauto].
    constructor; cbn [frames out]; auto.
    - apply Forall2_app.
      + eapply frames_rel_mono; eauto. apply kext_push.
      + constructor; [|constructor]. split; cbn; auto. constructor.
    - apply wf_frames_app; auto.
    - rewrite app_length. lia.
  Qed.

  (* ------------------------------------------------------------ declare / assign *)
  Lemma wf_frames_set : forall fs g fr new, wf_frames fs -> nth_error fs g = Some fr -> parent new = parent fr ->
    wf_frames (set_nth g new fs).
  Proof.
    intros fs g fr new W E Hp h fr0 q E0 Eq.
    destruct (Nat.eq_dec g h) as [->|N].
    - rewrite (nth_error_set_nth_eq _ _ new _ E) in E0. inversion E0; subst fr0. eapply W; eauto. congruence.
    - rewrite nth_error_set_nth_neq in E0 by auto. eapply W; eauto.
  Qed.

  Lemma frames_rel_update : forall fs fs' fs1 g new new',
    Forall2 (frame_rel fs) fs fs' -> kext fs fs1 -> n0 <= length fs ->
    frame_rel fs1 new new' ->
    Forall2 (frame_rel fs1) (set_nth g new fs) (set_nth g new' fs').
  Proof.
    intros. apply Forall2_set_nth; auto. eapply frames_rel_mono; eauto.
  Qed.

  Lemma declare_sim : forall st st' cur x v v',
    srel st st' -> agree (frames st) -> vrel (frames st) v v' -> cur < length (frames st) ->
    (n0 <= cur -> In x (budget_at (frames st) cur)) ->
    post RTrue st cur [x] (upd_result st (declare prot0 st cur x v)) (upd_result st' (declare prot0 st' cur x v')).
  Proof.
    intros st st' cur x v v' S Ag Rv Lc HB.
    destruct (declare prot0 st cur x v) as [st1| |] eqn:Dc.
    - (* declared *)
      destruct (declare_ext _ _ _ _ _ _ _ Dc) as (E & Ho & Hl & fr & Ef & Dx & Px & Fs1).
      destruct S as [F O W N C].
      destruct (Forall2_nth _ _ _ _ _ F Ef) as (fr' & Ef' & FR).
      assert (Dc' : declare prot0 st' cur x v' =
                    UOk (mkState (set_nth cur (mkFrame (parent fr') ((x, v') :: vars fr') (budget fr')) (frames st')) (out st'))).
      { unfold declare. rewrite Ef'. rewrite (frame_rel_in_dom _ _ _ _ _ _ _ _ x FR), Dx, Px. reflexivity. }
      rewrite Dc'. cbn [upd_result]. right. cbn [ret fst snd frames out].
      assert (K : kext (frames st) (frames st1)).
      { eapply ext_at_kext; eauto. intros G y [<-|[]]. auto. }
      split5; auto.
      + constructor; cbn [frames out]; try congruence.
        * assert (Q : frame_rel (frames st1) (mkFrame (parent fr) ((x, v) :: vars fr) (budget fr))
                                (mkFrame (parent fr') ((x, v') :: vars fr') (budget fr'))).
          { destruct FR as [FP FVs]. split; cbn; auto. constructor.
            - split; auto. cbn. right. eapply vrel_mono; eauto.
            - eapply vars_rel_mono; eauto. }
          pose proof (frames_rel_update _ _ _ cur _ _ F K N Q) as Q2. rewrite <- Fs1 in Q2. exact Q2.
        * rewrite Fs1. eapply wf_frames_set; eauto.
      + eapply agree_mono; eauto.
      + exact I.
    - (* already declared in this frame: an error on both sides *)
      assert (Dc' : declare prot0 st' cur x v' = UFail).
      { unfold declare in *. destruct S as [F O W N C].
        destruct (nth_error (frames st) cur) as [fr|] eqn:Ef.
        - destruct (Forall2_nth _ _ _ _ _ F Ef) as (fr' & Ef' & FR). rewrite Ef'.
          rewrite (frame_rel_in_dom _ _ _ _ _ _ _ _ x FR).
          destruct (in_dom x fr); auto. destruct (prot0 cur x); discriminate.
        - rewrite (Forall2_nth_none _ _ _ _ F Ef). auto. }
      rewrite Dc'. cbn [upd_result]. eapply post_weaken; [apply post_throw_err; auto|intros ? []].
    - left. right. reflexivity.
  Qed.

  Lemma assign_sim : forall st st' cur x v v',
    srel st st' -> agree (frames st) -> vrel (frames st) v v' ->
    post RTrue st cur [] (upd_result st (assign prot0 st cur x v)) (upd_result st' (assign prot0 st' cur x v')).
  Proof.
    intros st st' cur x v v' S Ag Rv.
    destruct (assign prot0 st cur x v) as [st1| |] eqn:Ac.
    - destruct (assign_ext _ _ _ _ _ _ _ cur Ac) as (E & Ho & Hl & g & fr & Rg & Ef & Px & Fs1).
      destruct S as [F O W N C].
      destruct (Forall2_nth _ _ _ _ _ F Ef) as (fr' & Ef' & FR).
      assert (Ac' : assign prot0 st' cur x v' =
                    UOk (mkState (set_nth g (mkFrame (parent fr') (assoc_set x v' (vars fr')) (budget fr')) (frames st')) (out st'))).
      { unfold assign. rewrite (resolve_rel _ _ _ _ _ _ _ _ cur x F), Rg, Ef', Px. reflexivity. }
      rewrite Ac'. cbn [upd_result]. right. cbn [ret fst snd frames out].
      assert (K : kext (frames st) (frames st1)).
      { eapply ext_at_kext; eauto. intros G y []. }
      split5; auto.
      + constructor; cbn [frames out]; try congruence.
        * assert (Q : frame_rel (frames st1) (mkFrame (parent fr) (assoc_set x v (vars fr)) (budget fr))
                                (mkFrame (parent fr') (assoc_set x v' (vars fr')) (budget fr'))).
          { destruct FR as [FP FVs]. split; cbn; auto. apply vars_rel_assoc_set.
            - eapply vars_rel_mono; eauto.
            - eapply vrel_mono; eauto. }
          pose proof (frames_rel_update _ _ _ g _ _ F K N Q) as Q2. rewrite <- Fs1 in Q2. exact Q2.
        * rewrite Fs1. eapply wf_frames_set; eauto.
      + eapply agree_mono; eauto.
      + exact I.
    - assert (Ac' : assign prot0 st' cur x v' = UFail).
      { unfold assign in *. destruct S as [F O W N C]. rewrite (resolve_rel _ _ _ _ _ _ _ _ cur x F).
        destruct (resolve (frames st) cur x) as [g|]; auto.
        destruct (nth_error (frames st) g) as [fr|] eqn:Ef.
        - destruct (prot0 g x); discriminate.
        - rewrite (Forall2_nth_none _ _ _ _ F Ef). auto. }
      rewrite Ac'. cbn [upd_result]. apply post_throw_err; auto.
    - left. right. reflexivity.
  Qed.

  (* ------------------------------------------------------------ builtins *)
  Ltac inv H := inversion H; subst; clear H.

  Lemma simple_noclos : forall v, simple v = true -> noclos v = true.
  Proof.
    fix IH 1. intros v H. destruct v; cbn in *; auto; try discriminate.
    induction l as [|a l IHl]; cbn in *; auto. apply andb_true_iff in H. destruct H. rewrite IH; auto.
  Qed.

  Lemma prim_apply_sim : forall p st st' cur args args',
    srel st st' -> agree (frames st) -> vrels (frames st) args args' ->
    post vrel st cur [] (prim_apply p args st) (prim_apply p args' st').
  Proof.
    intros p st st' cur args args' S Ag R.
    assert (U : post vrel st cur [] (unsupported st) (unsupported st')) by (apply post_unsupp; auto).
    assert (T : post vrel st cur [] (throw_err st) (throw_err st')) by (apply post_throw_err; auto).
    assert (RV : forall v, simple v = true -> post vrel st cur [] (ret st v) (ret st' v)).
    { intros. apply post_ret; auto. apply noclos_refl_both. apply simple_noclos; auto. }
    assert (RB : forall b, post vrel st cur [] (ret st (vbool b)) (ret st' (vbool b))).
    { intros b. apply RV. destruct b; reflexivity. }
    assert (RI : forall z, post vrel st cur [] (ret st (VInt z)) (ret st' (VInt z))).
    { intros z. apply RV. reflexivity. }
    destruct (match p with PEq | PPrint => true | _ => false end) eqn:Gen.
    - destruct p; try discriminate.
      + (* == *) inv R; [apply U|]. inv H0; [apply U|]. inv H2; [|apply U].
        cbn. destruct (vrel_simple _ _ _ _ _ _ _ _ H) as [S1 E1]. destruct (vrel_simple _ _ _ _ _ _ _ _ H1) as [S2 E2].
        rewrite <- S1, <- S2. destruct (simple v) eqn:Q1; cbn; [|apply U].
        destruct (simple v0) eqn:Q2; cbn; [|apply U].
        rewrite <- (E1 eq_refl), <- (E2 eq_refl). apply RB.
      + (* print *) cbn. destruct (vrels_simple _ _ _ _ _ _ _ _ R) as [S1 E1]. rewrite <- S1.
        destruct (forallb simple args) eqn:Q; [|apply U].
        rewrite <- (E1 eq_refl). right. cbn [ret fst snd frames out].
        destruct S as [F O W N C]. split5; auto using ext_at_refl, kext_refl.
        * constructor; cbn [frames out]; auto. congruence.
        * constructor.
    - destruct R as [|a a' l l' Ra Rl]; [destruct p; try discriminate; cbn; auto|].
      destruct Rl as [|b b' l2 l2' Rb Rl2].
      + (* one argument *)
        inv Ra; destruct p; try discriminate; cbn; auto.
        rewrite (vrels_length _ _ _ _ _ _ _ _ H). auto.
      + destruct Rl2 as [|c c' l3 l3' Rc Rl3].
        * (* two arguments *)
          inv Ra; inv Rb; destruct p; try discriminate; cbn; auto.
        * (* three or more *)
          inv Ra; inv Rb; destruct p; try discriminate; cbn; auto.
  Qed.
End Ops.
