(* C12: a conversion that returns, returns a value of the type that was called. *)
From Coq Require Import ZArith NArith List Bool Lia.
From NV Require Import Common.Outcome Lang.Types Lang.Pattern Lang.Store Lang.Convert.
Import ListNotations.

Section Lands.
  Variable sat : N -> val -> outcome bool.
  Variable fields : N -> list (option val).

  (* a conversion that returns, returns a value of the type that was called *)
  Theorem conversion_lands_in_type : forall t v r,
    convert fields t v = Some (Ok r) -> is_type sat t r = Ok true.
  Proof.
    intros t v r H. destruct t; cbn [convert] in H; try discriminate H.
    - (* int *)
      destruct v as [|[z|n d|b|re im]| | | | | | | | |]; try discriminate H; try (injection H as <-; reflexivity).
      destruct (fdecode b); try discriminate H. injection H as <-. reflexivity.
    - (* rational *)
      destruct v as [|[z|n d|b|re im]| | | | | | | | |]; try discriminate H; try (injection H as <-; reflexivity).
      destruct (fdecode b); try discriminate H. injection H as <-. reflexivity.
    - (* float *)
      destruct v as [|[z|n d|b|re im]| | | | | | | | |]; try discriminate H; injection H as <-; reflexivity.
    - (* number *)
      destruct v; try discriminate H. injection H as <-. reflexivity.
    - (* list *)
      destruct (elements v); try discriminate H. injection H as <-. reflexivity.
    - (* dict *)
      destruct v; try (injection H as <-; reflexivity);
        (destruct (elements _); try discriminate H; destruct (pairs_to_dict _ _ _) as [[? ?]|]; try discriminate H;
         injection H as <-; reflexivity).
    - (* vector *)
      destruct v; try (injection H as <-; reflexivity);
        (destruct (elements _); try discriminate H; destruct (all_nums _); try discriminate H;
         injection H as <-; reflexivity).
    - (* bytes *)
      destruct v; try discriminate H; try (injection H as <-; reflexivity);
        (destruct (elements _); try discriminate H; destruct (all_bytes _); try discriminate H;
         injection H as <-; reflexivity).
    - (* stream *)
      destruct (elements v); try discriminate H. injection H as <-. reflexivity.
    - (* type *) injection H as <-. reflexivity.
    - (* struct *)
      destruct (fill_fields (fields sid) [v]); try discriminate H. injection H as <-.
      cbn [is_type]. rewrite N.eqb_refl. reflexivity.
  Qed.
End Lands.
