(* Lang/Eval.v - the reference interpreter of the documented rules (property C05).

   A definitional interpreter, indexed by fuel (= nesting depth of evaluate() calls, one unit
   per `while` iteration), over the explicit store of Lang/Syntax.v.  One definition per match
   arm of src/eval.rs `evaluate`; every definition takes the interpreter for sub-expressions
   (`rec`) as a parameter, and `eval (S n) = evalF (eval n)`.

   Scopes are created exactly where the Rust code calls Env::with_parent: Closure::run,
   evaluate_for (each binding clause, each iteration), While (each iteration, condition
   included), the catch clause of Try.  If, sequences, parentheses, try bodies, and/or/coalesce
   and eval do not open a scope.  Definitions only; proofs are in Lang/Eval_proofs.v. *)
From Coq Require Import ZArith String List Bool.
From NV Require Import Lang.Syntax.
Import ListNotations.
Open Scope string_scope.
Open Scope list_scope.

(* ---------------------------------------------------------------- values *)
(* Obj::truthy *)
Definition truthy (v : val) : bool :=
  match v with
  | VNull => false
  | VInt z => negb (Z.eqb z 0)
  | VStr s => negb (String.eqb s "")
  | VList l => match l with [] => false | _ => true end
  | VDict kvs => match kvs with [] => false | _ => true end
  | VClos _ _ _ => true
  | VErr => true
  end.

(* data only: no function, no opaque error string, no dictionary anywhere inside *)
Fixpoint simple (v : val) : bool :=
  match v with
  | VNull | VInt _ | VStr _ => true
  | VList l => forallb simple l
  | _ => false
  end.

Fixpoint has_clos (v : val) : bool :=
  match v with
  | VClos _ _ _ => true
  | VList l => existsb has_clos l
  | _ => false
  end.

(* == on data *)
Fixpoint veqb (a b : val) : bool :=
  match a, b with
  | VNull, VNull => true
  | VInt x, VInt y => Z.eqb x y
  | VStr x, VStr y => String.eqb x y
  | VList xs, VList ys =>
      (fix go (xs ys : list val) : bool :=
         match xs, ys with
         | [], [] => true
         | x :: xs', y :: ys' => veqb x y && go xs' ys'
         | _, _ => false
         end) xs ys
  | _, _ => false
  end.

Definition vbool (b : bool) : val := VInt (if b then 1 else 0).

(* the handful of builtins; anything outside their modelled domain is SUnsupported *)
Definition prim_apply (p : prim) (vs : list val) (st : state) : result val :=
  match p, vs with
  | PAdd, [VInt a; VInt b] => ret st (VInt (a + b))
  | PSub, [VInt a; VInt b] => ret st (VInt (a - b))
  | PMul, [VInt a; VInt b] => ret st (VInt (a * b))
  | PLt, [VInt a; VInt b] => ret st (vbool (Z.ltb a b))
  | PEq, [a; b] => if simple a && simple b then ret st (vbool (veqb a b)) else unsupported st
  | PLen, [VList l] => ret st (VInt (Z.of_nat (length l)))
  | PLen, [VStr s] => ret st (VInt (Z.of_nat (String.length s)))
  | PAppend, [VList l; v] => ret st (VList (l ++ [v]))
  | PNot, [v] => ret st (vbool (negb (truthy v)))
  | PPrint, _ => ret (mkState (frames st) (out st ++ [vs])) VNull
  | _, _ => unsupported st
  end.

(* three-way answers of helpers that can fail with an error or leave the vocabulary *)
Inductive tri (A : Type) := TOk (a : A) | TThrow | TUnsupp.
Arguments TOk {A} a.
Arguments TThrow {A}.
Arguments TUnsupp {A}.

(* what iterating a value yields (mut_obj_into_iter); strings/dicts are iterable in Noulith
   but outside this vocabulary *)
Definition iter_elems (v : val) : tri (list val) :=
  match v with
  | VList l => TOk l
  | VStr _ | VDict _ | VErr => TUnsupp
  | VNull | VInt _ | VClos _ _ _ => TThrow
  end.

Fixpoint enum_from (i : Z) (l : list val) : list (Z * val) :=
  match l with
  | [] => []
  | v :: r => (i, v) :: enum_from (i + 1) r
  end.

(* the variables one pass of a binding clause declares, per pass *)
Definition clause_bindings (c : clause) (v : val) : tri (list (list (name * val))) :=
  match c with
  | CIter x _ =>
      match iter_elems v with
      | TOk l => TOk (map (fun el => [(x, el)]) l)
      | TThrow => TThrow
      | TUnsupp => TUnsupp
      end
  | CItem i x _ =>
      match iter_elems v with
      | TOk l => TOk (map (fun p => [(i, VInt (fst p)); (x, snd p)]) (enum_from 0 l))
      | TThrow => TThrow
      | TUnsupp => TUnsupp
      end
  | CLet x _ => TOk [[(x, v)]]
  | CGuard _ => TOk []
  end.

Definition clause_expr (c : clause) : expr :=
  match c with
  | CIter _ e | CItem _ _ e | CLet _ e | CGuard e => e
  end.

(* sequential declarations / assignments; an error leaves the earlier ones done *)
Fixpoint declare_all (st : state) (f : nat) (bs : list (name * val)) : result unit :=
  match bs with
  | [] => ret st tt
  | (x, v) :: r =>
      match declare st f x v with
      | Some st1 => declare_all st1 f r
      | None => throw_err st
      end
  end.

Fixpoint assign_all (st : state) (f : nat) (bs : list (name * val)) : result unit :=
  match bs with
  | [] => ret st tt
  | (x, v) :: r =>
      match assign st f x v with
      | Some st1 => assign_all st1 f r
      | None => throw_err st
      end
  end.

(* a, b := v  /  a, b = v : the value must be a list of exactly that length *)
Definition unpack (xs : list name) (v : val) : tri (list (name * val)) :=
  match v with
  | VList l => if Nat.eqb (length l) (length xs) then TOk (combine xs l) else TThrow
  | VStr _ | VDict _ | VErr => TUnsupp
  | _ => TThrow
  end.

(* does the catch pattern accept the thrown value (TOk: what it binds), refuse it (TThrow), or
   is the question outside the vocabulary (strings unpack into characters; an opaque error string
   might equal a string literal) *)
Fixpoint nodupb (xs : list name) : bool :=
  match xs with
  | [] => true
  | x :: r => negb (existsb (String.eqb x) r) && nodupb r
  end.

Definition match_cpat (p : cpat) (v : val) : tri (list (name * val)) :=
  match p with
  | CName x => TOk [(x, v)]
  | CInt z => match v with VInt z' => if Z.eqb z z' then TOk [] else TThrow | _ => TThrow end
  | CStr s => match v with
              | VStr s' => if String.eqb s s' then TOk [] else TThrow
              | VErr => TUnsupp
              | _ => TThrow
              end
  | CWild None => TOk []
  | CWild (Some TInt) => match v with VInt _ => TOk [] | _ => TThrow end
  | CWild (Some TStr) => match v with VStr _ | VErr => TOk [] | _ => TThrow end
  | CWild (Some TList) => match v with VList _ => TOk [] | _ => TThrow end
  | CList xs =>
      match v with
      | VList l => if Nat.eqb (List.length l) (List.length xs) && nodupb xs then TOk (combine xs l) else TThrow
      | VStr _ | VDict _ | VErr => TUnsupp
      | _ => TThrow
      end
  end.

(* ---------------------------------------------------------------- parameters (assign_all in eval.rs) *)
Definition pname (p : param) : name := snd (fst p).

Definition params_ok (ps : list param) : bool :=
  forallb (fun p => match p with (KSplat, _, Some _) => false | _ => true end) ps.

(* first pass of assign_all: position of the splat, defaults in play; None = syntax error *)
Fixpoint scan_params (ps : list param) (i : nat) (splat : option nat) (dip : list expr) (nargs : nat)
  : option (option nat * list expr) :=
  match ps with
  | [] => Some (splat, rev dip)
  | (KSplat, _, _) :: r =>
      match splat with
      | Some _ => None
      | None => scan_params r (S i) (Some i) dip nargs
      end
  | (KPlain, _, Some d) :: r =>
      let prev := match splat with Some _ => i - 1 | None => i end in
      if Nat.leb nargs prev then scan_params r (S i) splat (d :: dip) nargs
      else scan_params r (S i) splat dip nargs
  | (KPlain, _, None) :: r =>
      match dip with
      | [] => scan_params r (S i) splat dip nargs
      | _ => None
      end
  end.

Definition fres := (state * list val * res unit)%type.

(* dictionary built by `yield k: v`: the last value given for a key wins *)
Fixpoint dict_put (k v : val) (d : list (val * val)) : list (val * val) :=
  match d with
  | [] => [(k, v)]
  | (k', v') :: r => if veqb k k' then (k', v) :: r else (k', v') :: dict_put k v r
  end.
Fixpoint dict_of_pairs (acc : list val) (d : list (val * val)) : list (val * val) :=
  match acc with
  | VList [k; v] :: r => dict_of_pairs r (dict_put k v d)
  | _ :: r => dict_of_pairs r d
  | [] => d
  end.

Fixpoint sum_ints (l : list val) : Z :=
  match l with
  | VInt z :: r => (z + sum_ints r)%Z
  | _ :: r => sum_ints r
  | [] => 0%Z
  end.

Definition finish (body : forbody) (acc : list val) : val :=
  match body with
  | FDo _ => VNull
  | FYield _ => VList acc
  | FYieldKV _ _ => VDict (dict_of_pairs acc [])
  | FYieldInto _ RCount => VInt (Z.of_nat (List.length (filter truthy acc)))
  | FYieldInto _ RSum => VInt (sum_ints acc)
  | FYieldInto _ RLast => last acc VNull
  | FYieldInto _ _ => VList acc
  end.

(* Catamorphism::finish: `first` and `last` of nothing are errors (CataFirst never holds an
   element: its give breaks out of the loop with it) *)
Definition finish_res (st : state) (body : forbody) (acc : list val) : result val :=
  match body with
  | FYieldInto _ RFirst => throw_err st
  | FYieldInto _ RLast => match acc with [] => throw_err st | _ => ret st (finish body acc) end
  | _ => ret st (finish body acc)
  end.

(* what the For arm does with the outcome of evaluate_for *)
Definition for_result (body : forbody) (r : fres) : result val :=
  match r with
  | (st, acc, Val _) => finish_res st body acc
  | (st, acc, Sig (SBreak O None)) => finish_res st body acc
  | (st, _, Sig (SBreak O (Some v))) => ret st v
  | (st, _, Sig (SBreak (S n) v)) => (st, Sig (SBreak n v))
  | (st, _, Sig (SContinue (S n))) => (st, Sig (SContinue n))
  | (st, _, Sig s) => (st, Sig s)
  | (st, _, OutOfFuel) => (st, OutOfFuel)
  end.

(* While / loop bodies: one level of break/continue is absorbed *)
Inductive loop_step := LNext | LStop (r : res val).
Definition while_body_result (r : res val) : loop_step :=
  match r with
  | Val _ => LNext
  | Sig (SContinue O) => LNext
  | Sig (SBreak O v) => LStop (Val (match v with Some w => w | None => VNull end))
  | Sig (SBreak (S n) v) => LStop (Sig (SBreak n v))
  | Sig (SContinue (S n)) => LStop (Sig (SContinue n))
  | Sig s => LStop (Sig s)
  | OutOfFuel => LStop OutOfFuel
  end.

(* Closure::run: only Return is absorbed *)
Definition call_result (r : result val) : result val :=
  match r with
  | (st, Sig (SReturn v)) => (st, Val v)
  | r => r
  end.

(* eval is a builtin: like every builtin it turns a value thrown through it into an error
   string prefixed with its name (err_add_name in core.rs); other signals pass *)
Definition eval_result (r : result val) : result val :=
  match r with
  | (st, Sig (SThrow _)) => (st, Sig (SThrow VErr))
  | r => r
  end.

Section WithRec.
  Variable rec : state -> nat -> expr -> result val.

  (* splat_section_eval / eval_seq: call arguments and list literals *)
  Fixpoint eval_items (st : state) (cur : nat) (items : list (bool * expr)) : result (list val) :=
    match items with
    | [] => ret st []
    | (sp, e) :: rest =>
        bindR (rec st cur e) (fun st1 v =>
          if sp then
            match iter_elems v with
            | TOk l => bindR (eval_items st1 cur rest) (fun st2 vs => ret st2 (l ++ vs))
            | TThrow => throw_err st1
            | TUnsupp => unsupported st1
            end
          else bindR (eval_items st1 cur rest) (fun st2 vs => ret st2 (v :: vs)))
    end.

  Definition eval_exprs (st : state) (cur : nat) (es : list expr) : result (list val) :=
    eval_items st cur (map (pair false) es).

  (* Sequence *)
  Fixpoint eval_seq (st : state) (cur : nat) (es : list expr) : result val :=
    match es with
    | [] => ret st VNull
    | e :: r =>
        bindR (rec st cur e) (fun st1 v =>
          match r with
          | [] => ret st1 v
          | _ => eval_seq st1 cur r
          end)
    end.

  (* x := e *)
  Definition eval_decl (st : state) (cur : nat) (x : name) (e : expr) : result val :=
    bindR (rec st cur e) (fun st1 v =>
      match declare st1 cur x v with
      | Some st2 => ret st2 VNull
      | None => throw_err st1
      end).

  (* x = e *)
  Definition eval_assign (st : state) (cur : nat) (x : name) (e : expr) : result val :=
    bindR (rec st cur e) (fun st1 v =>
      match assign st1 cur x v with
      | Some st2 => ret st2 VNull
      | None => throw_err st1
      end).

  Definition eval_unpack (decl : bool) (st : state) (cur : nat) (xs : list name) (e : expr) : result val :=
    bindR (rec st cur e) (fun st1 v =>
      match unpack xs v with
      | TOk bs => bindR ((if decl then declare_all else assign_all) st1 cur bs) (fun st2 _ => ret st2 VNull)
      | TThrow => throw_err st1
      | TUnsupp => unsupported st1
      end).

  Definition eval_if (st : state) (cur : nat) (c t : expr) (f : option expr) : result val :=
    bindR (rec st cur c) (fun st1 v =>
      if truthy v then rec st1 cur t
      else match f with
           | Some e => rec st1 cur e
           | None => ret st1 VNull
           end).

  (* While: a fresh scope per iteration, in which the condition is evaluated too; the next
     iteration is the same expression again (one unit of fuel per iteration) *)
  Definition eval_while (st : state) (cur : nat) (c b : expr) : result val :=
    let '(st1, fr) := push_frame st cur in
    bindR (rec st1 fr c) (fun st2 vc =>
      if truthy vc then
        let '(st3, r) := rec st2 fr b in
        match while_body_result r with
        | LNext => rec st3 cur (EWhile c b)
        | LStop r' => (st3, r')
        end
      else ret st2 VNull).

  (* evaluate_for: one pass per element, each in a fresh child scope of the scope the clause
     was entered in; `k` is the rest of the clause list *)
  Fixpoint for_each (k : state -> nat -> list val -> fres) (cur : nat)
           (bss : list (list (name * val))) (st : state) (acc : list val) : fres :=
    match bss with
    | [] => (st, acc, Val tt)
    | bs :: bss' =>
        let '(st1, fr) := push_frame st cur in
        match declare_all st1 fr bs with
        | (st2, Val _) =>
            match k st2 fr acc with
            | (st3, acc', Val _) => for_each k cur bss' st3 acc'
            | r => r
            end
        | (st2, Sig s) => (st2, acc, Sig s)
        | (st2, OutOfFuel) => (st2, acc, OutOfFuel)
        end
    end.

  Fixpoint eval_for (cls : list clause) (cb : state -> nat -> list val -> fres)
           (st : state) (cur : nat) (acc : list val) : fres :=
    match cls with
    | [] =>
        match cb st cur acc with
        | (st1, acc1, Sig (SContinue O)) => (st1, acc1, Val tt)
        | r => r
        end
    | c :: rest =>
        match rec st cur (clause_expr c) with
        | (st1, Val v) =>
            match c with
            | CGuard _ => if truthy v then eval_for rest cb st1 cur acc else (st1, acc, Val tt)
            | _ =>
                match clause_bindings c v with
                | TOk bss => for_each (eval_for rest cb) cur bss st1 acc
                | TThrow => (st1, acc, Sig (SThrow VErr))
                | TUnsupp => (st1, acc, Sig SUnsupported)
                end
            end
        | (st1, Sig s) => (st1, acc, Sig s)
        | (st1, OutOfFuel) => (st1, acc, OutOfFuel)
        end
    end.

  (* dictionary keys: data only; a function is not hashable (error) *)
  Definition key_check (k : val) : tri unit :=
    if simple k then TOk tt else if has_clos k then TThrow else TUnsupp.

  (* the innermost callback: what one pass of the body contributes *)
  Definition for_body (body : forbody) (st : state) (fr : nat) (acc : list val) : fres :=
    match body with
    | FDo b =>
        match rec st fr b with
        | (st1, Val _) => (st1, acc, Val tt)
        | (st1, Sig s) => (st1, acc, Sig s)
        | (st1, OutOfFuel) => (st1, acc, OutOfFuel)
        end
    | FYield b =>
        match rec st fr b with
        | (st1, Val v) => (st1, acc ++ [v], Val tt)
        | (st1, Sig s) => (st1, acc, Sig s)
        | (st1, OutOfFuel) => (st1, acc, OutOfFuel)
        end
    | FYieldKV kb vb =>
        match rec st fr kb with
        | (st1, Val k) =>
            match key_check k with
            | TOk _ =>
                match rec st1 fr vb with
                | (st2, Val v) => (st2, acc ++ [VList [k; v]], Val tt)
                | (st2, Sig s) => (st2, acc, Sig s)
                | (st2, OutOfFuel) => (st2, acc, OutOfFuel)
                end
            | TThrow => (st1, acc, Sig (SThrow VErr))
            | TUnsupp => (st1, acc, Sig SUnsupported)
            end
        | (st1, Sig s) => (st1, acc, Sig s)
        | (st1, OutOfFuel) => (st1, acc, OutOfFuel)
        end
    | FYieldInto b rd =>
        match rec st fr b with
        | (st1, Val v) =>
            match rd with
            | RFirst => (st1, acc, Sig (SBreak O (Some v)))          (* CataFirst::give *)
            | RSum => match v with
                      | VInt _ => (st1, acc ++ [v], Val tt)
                      | _ => (st1, acc, Sig SUnsupported)
                      end
            | _ => (st1, acc ++ [v], Val tt)
            end
        | (st1, Sig s) => (st1, acc, Sig s)
        | (st1, OutOfFuel) => (st1, acc, OutOfFuel)
        end
    end.

  (* Try: only Throw is intercepted; the handler runs in a fresh scope holding the thrown value *)
  Definition eval_try (st : state) (cur : nat) (b : expr) (x : name) (h : expr) : result val :=
    match rec st cur b with
    | (st1, Sig (SThrow v)) =>
        let '(st2, fr) := push_frame st1 cur in
        bindR (declare_all st2 fr [(x, v)]) (fun st3 _ => rec st3 fr h)
    | r => r
    end.

  (* Try with a selective catch pattern: a pattern that refuses the thrown value lets the
     ORIGINAL throw continue, untouched (Err(_) => Err(NErr::Throw(e, trace)) in the Try arm) *)
  Definition eval_tryp (st : state) (cur : nat) (b : expr) (p : cpat) (h : expr) : result val :=
    match rec st cur b with
    | (st1, Sig (SThrow v)) =>
        match match_cpat p v with
        | TOk bs =>
            let '(st2, fr) := push_frame st1 cur in
            bindR (declare_all st2 fr bs) (fun st3 _ => rec st3 fr h)
        | TThrow => (st1, Sig (SThrow v))
        | TUnsupp => unsupported st1
        end
    | r => r
    end.

  (* Closure::run step 1: bind the arguments in the fresh frame (defaults are evaluated in it,
     before any parameter is declared) *)
  Definition bind_params (st : state) (fr : nat) (ps : list param) (args : list val) : result unit :=
    if negb (params_ok ps) then unsupported st else
    match scan_params ps 0 None [] (length args) with
    | None => throw_err st
    | Some (Some si, dip) =>
        bindR (eval_exprs st fr dip) (fun st1 dvs =>
          let rhs := args ++ dvs in
          if Nat.ltb (length rhs + 1) (length ps) then throw_err st1 else
          let k := length ps - si - 1 in
          let front := firstn (length rhs - k) rhs in
          let rrhs := skipn (length rhs - k) rhs in
          declare_all st1 fr
            (combine (map pname (firstn si ps)) (firstn si front)
             ++ combine (map pname (firstn 1 (skipn si ps))) [VList (skipn si front)]
             ++ combine (map pname (skipn (S si) ps)) rrhs))
    | Some (None, dip) =>
        if Nat.eqb (length ps) (length args + length dip) then
          bindR (eval_exprs st fr dip) (fun st1 dvs =>
            declare_all st1 fr (combine (map pname ps) (args ++ dvs)))
        else throw_err st
    end.

  (* applying a value to arguments; does not depend on the caller's scope *)
  Definition apply_val (st : state) (fv : val) (args : list val) : result val :=
    match fv with
    | VClos ps body env =>
        let '(st1, fr) := push_frame st env in
        call_result (bindR (bind_params st1 fr ps args) (fun st2 _ => rec st2 fr body))
    | _ =>
        match args with
        | [VClos _ _ _] => unsupported st        (* `5(f)` is a partial application in Noulith *)
        | _ => throw_err st
        end
    end.

  (* For: the `into` expression is evaluated first; a function without a catamorphism (a
     closure, len) is applied afterwards to whatever the loop produced *)
  Definition eval_for_expr (st : state) (cur : nat) (cls : list clause) (body : forbody) : result val :=
    match body with
    | FYieldInto _ (RFun fe) =>
        bindR (rec st cur fe) (fun st0 fv =>
          bindR (for_result body (eval_for cls (for_body body) st0 cur []))
                (fun st2 v => apply_val st2 fv [v]))
    | FYieldInto _ RLen =>
        bindR (for_result body (eval_for cls (for_body body) st cur []))
              (fun st2 v => prim_apply PLen [v] st2)
    | _ => for_result body (eval_for cls (for_body body) st cur [])
    end.

  Definition eval_call (st : state) (cur : nat) (f : expr) (args : list (bool * expr)) : result val :=
    bindR (rec st cur f) (fun st1 fv =>
      bindR (eval_items st1 cur args) (fun st2 vs => apply_val st2 fv vs)).

  (* Switch: every arm is tried in its own fresh scope; the first whose pattern accepts the
     scrutinee runs its body there; no arm: an error *)
  Fixpoint switch_arms (st : state) (cur : nat) (v : val) (arms : list (pat * expr)) : result val :=
    match arms with
    | [] => throw_err st
    | (p, body) :: rest =>
        let '(st1, fr) := push_frame st cur in
        match p with
        | PLit z =>
            match v with
            | VInt z' => if Z.eqb z z' then rec st1 fr body else switch_arms st1 cur v rest
            | _ => switch_arms st1 cur v rest
            end
        | PBind x => bindR (declare_all st1 fr [(x, v)]) (fun st2 _ => rec st2 fr body)
        | PWild => rec st1 fr body
        end
    end.

  Definition eval_switch (st : state) (cur : nat) (s : expr) (arms : list (pat * expr)) : result val :=
    bindR (rec st cur s) (fun st1 v => switch_arms st1 cur v arms).

  Definition eval_shortcut (kind : nat) (st : state) (cur : nat) (a b : expr) : result val :=
    bindR (rec st cur a) (fun st1 v =>
      let take_rhs :=
        match kind with
        | 0 => truthy v                        (* and *)
        | 1 => negb (truthy v)                 (* or *)
        | _ => match v with VNull => true | _ => false end   (* coalesce *)
        end in
      if take_rhs then rec st1 cur b else ret st1 v).

  Definition evalF (st : state) (cur : nat) (e : expr) : result val :=
    match e with
    | ENull => ret st VNull
    | EInt z => ret st (VInt z)
    | EStr s => ret st (VStr s)
    | EList items => bindR (eval_items st cur items) (fun st1 vs => ret st1 (VList vs))
    | EVar x =>
        match lookup (frames st) cur x with
        | Some v => ret st v
        | None => throw_err st
        end
    | ESeq es tr => bindR (eval_seq st cur es) (fun st1 v => ret st1 (if tr then VNull else v))
    | EDecl x e1 => eval_decl st cur x e1
    | EAssign x e1 => eval_assign st cur x e1
    | EDeclL xs e1 => eval_unpack true st cur xs e1
    | EAssignL xs e1 => eval_unpack false st cur xs e1
    | EIf c t f => eval_if st cur c t f
    | EWhile c b => eval_while st cur c b
    | EFor cls body => eval_for_expr st cur cls body
    | EBreak n None => (st, Sig (SBreak n None))
    | EBreak n (Some e1) => bindR (rec st cur e1) (fun st1 v => (st1, Sig (SBreak n (Some v))))
    | EContinue n => (st, Sig (SContinue n))
    | EReturn None => (st, Sig (SReturn VNull))
    | EReturn (Some e1) => bindR (rec st cur e1) (fun st1 v => (st1, Sig (SReturn v)))
    | ETry b x h => eval_try st cur b x h
    | ETryP b p h => eval_tryp st cur b p h
    | EThrow e1 => bindR (rec st cur e1) (fun st1 v => (st1, Sig (SThrow v)))
    | EAnd a b => eval_shortcut 0 st cur a b
    | EOr a b => eval_shortcut 1 st cur a b
    | ECoalesce a b => eval_shortcut 2 st cur a b
    | ELam ps b => ret st (VClos ps b cur)
    | ECall f args => eval_call st cur f args
    | EPrim p args => bindR (eval_exprs st cur args) (fun st1 vs => prim_apply p vs st1)
    | EEval e1 => eval_result (rec st cur e1)
    | ESwitch s arms => eval_switch st cur s arms
    end.
End WithRec.

Fixpoint eval (fuel : nat) : state -> nat -> expr -> result val :=
  match fuel with
  | O => fun st _ _ => (st, OutOfFuel)
  | S n => evalF (eval n)
  end.

(* a whole program: fresh store, top-level frame 0 *)
Definition run (fuel : nat) (e : expr) : result val := eval fuel init_state 0 e.

(* ---------------------------------------------------------------- small examples *)
Local Notation "'V' x" := (EVar x) (at level 9).
Definition plus a b := EPrim PAdd [a; b].

(* x := 1; if (1) (x := 2)  is a redeclaration error: `if` opens no scope *)
Example ex_if_no_scope :
  snd (run 10 (ESeq [EDecl "x" (EInt 1); EIf (EInt 1) (EDecl "x" (EInt 2)) None] false)) = Sig (SThrow VErr).
Proof. reflexivity. Qed.

(* make_cell from the README: closures capture the variable *)
Example ex_cell :
  snd (run 20 (ESeq [EDecl "x" (EInt 0);
                     EDecl "get" (ELam [] (V "x"));
                     EDecl "set" (ELam [(KPlain, "y", None)] (EAssign "x" (V "y")));
                     ECall (V "set") [(false, EInt 7)];
                     ECall (V "get") []] false)) = Val (VInt 7).
Proof. reflexivity. Qed.

(* closures built in different iterations see different variables *)
Example ex_per_iteration :
  snd (run 20 (ESeq [EDecl "fs" (EFor [CIter "x" (EList [(false, EInt 1); (false, EInt 2)])] (FYield (ELam [] (V "x"))));
                     EFor [CIter "f" (V "fs")] (FYield (ECall (V "f") []))] false))
  = Val (VList [VInt 1; VInt 2]).
Proof. reflexivity. Qed.

(* break break 5 leaves two loops, the yield of the outer one is discarded *)
Example ex_break2 :
  snd (run 20 (EFor [CIter "x" (EList [(false, EInt 1); (false, EInt 2)])]
                 (FYield (EWhile (EInt 1) (EBreak 1 (Some (plus (V "x") (EInt 10)))))))) = Val (VInt 11).
Proof. reflexivity. Qed.

(* a catch pattern that refuses the value lets the original value travel on to the outer catch *)
Example ex_selective_catch :
  snd (run 20 (EList [(false, ETry (ETryP (EThrow (EInt 5)) (CInt 0) (EStr "zero")) "e" (EList [(false, V "e")]));
                      (false, ETryP (ETryP (EThrow (EStr "s")) (CWild (Some TInt)) (EInt 1)) (CWild (Some TStr)) (EInt 2));
                      (false, ETryP (EThrow (EList [(false, EInt 1); (false, EInt 2)])) (CList ["a"; "b"]) (V "b"));
                      (false, ETry (ETryP (EThrow (EList [(false, EInt 1)])) (CList ["a"; "b"]) (V "b")) "e" (V "e"))]))
  = Val (VList [VList [VInt 5]; VInt 2; VInt 2; VList [VInt 1]]).
Proof. reflexivity. Qed.

(* into: a catamorphism (sum), CataFirst leaving the loop at once, a closure applied to the list *)
Example ex_into :
  (let r := run 20 (EList [(false, EFor [CIter "x" (EList [(false, EInt 1); (false, EInt 2); (false, EInt 3)])]
                                        (FYieldInto (ESeq [EPrim PPrint [V "x"]; V "x"] false) RSum));
                           (false, EFor [CIter "x" (EList [(false, EInt 1); (false, EInt 2); (false, EInt 3)])]
                                        (FYieldInto (ESeq [EPrim PPrint [V "x"]; V "x"] false) RFirst));
                           (false, EFor [CIter "x" (EList [(false, EInt 4); (false, EInt 5)])]
                                        (FYieldInto (V "x") (RFun (ELam [(KPlain, "l", None)] (EPrim PLen [V "l"])))))]) in
   (snd r, out (fst r)))
  = (Val (VList [VInt 6; VInt 1; VInt 2]), [[VInt 1]; [VInt 2]; [VInt 3]; [VInt 1]]).
Proof. reflexivity. Qed.

(* a name bound by a switch arm is gone after the switch; the outer x is untouched *)
Example ex_switch_scope :
  snd (run 20 (ESeq [EDecl "x" (EInt 1);
                     ESwitch (EInt 5) [(PLit 4, EInt 0); (PBind "x", EDecl "y" (V "x"))];
                     EList [(false, V "x"); (false, ETry (V "y") "e" (EInt 0))]] false))
  = Val (VList [VInt 1; VInt 0]).
Proof. reflexivity. Qed.

(* a break inside a lambda called from a loop breaks that loop: calls absorb only return *)
Example ex_break_through_call :
  snd (run 20 (ESeq [EDecl "f" (ELam [] (EBreak 0 (Some (EInt 3))));
                     EWhile (EInt 1) (ECall (V "f") [])] false)) = Val (VInt 3).
Proof. reflexivity. Qed.
