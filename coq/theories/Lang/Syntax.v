(* Lang/Syntax.v - abstract syntax, values, store and results of the reference interpreter
   for the control-flow / scoping / closure core of Noulith (property C05).

   Rust counterparts (src/core.rs): enum Expr (Null, IntLit, StringLit, List, Ident, Sequence,
   Assign with an Annotation lvalue = declaration, If, While, For + ForIteration + ForBody,
   Break, Continue, Return, Try, Throw, And, Or, Coalesce, Lambda, Call), enum Obj (values),
   struct Env (a frame: vars + parent), enum NErr (signals).
   Definitions only. *)
From Coq Require Import ZArith String List Bool.
Import ListNotations.
Open Scope string_scope.
Open Scope list_scope.

Definition name := string.

(* builtins the vocabulary may call (always called directly, never shadowed) *)
Inductive prim := PAdd | PSub | PMul | PLt | PEq | PLen | PAppend | PNot | PPrint.

(* lambda parameters: `x`, `x = default`, `...x` *)
Inductive pkind := KPlain | KSplat.

(* catch patterns: `x`, `3`, `"s"`, `_` / `_: int` / `_: str` / `_: list`, `a, b` *)
Inductive vty := TInt | TStr | TList.
Inductive cpat :=
| CName (x : name) | CInt (z : Z) | CStr (s : string) | CWild (t : option vty) | CList (xs : list name).

(* switch patterns: an integer literal, a name (binds the scrutinee), `_` *)
Inductive pat := PLit (z : Z) | PBind (x : name) | PWild.

Inductive expr :=
| ENull
| EInt (z : Z)
| EStr (s : string)
| EList (items : list (bool * expr))            (* [a, ...b]  (true = splat) *)
| EVar (x : name)
| ESeq (es : list expr) (trailing : bool)       (* (a; b; c) / (a; b; c;) *)
| EDecl (x : name) (e : expr)                   (* x := e *)
| EAssign (x : name) (e : expr)                 (* x = e *)
| EDeclL (xs : list name) (e : expr)            (* a, b := e *)
| EAssignL (xs : list name) (e : expr)          (* a, b = e *)
| EIf (c t : expr) (f : option expr)
| EWhile (c b : expr)
| EFor (cls : list clause) (body : forbody)
| EBreak (n : nat) (e : option expr)            (* break^(n+1) [e] *)
| EContinue (n : nat)                           (* break^n continue *)
| EReturn (e : option expr)
| ETry (b : expr) (x : name) (h : expr)         (* try b catch x -> h *)
| ETryP (b : expr) (p : cpat) (h : expr)        (* try b catch <pattern> -> h *)
| EThrow (e : expr)
| EAnd (a b : expr)
| EOr (a b : expr)
| ECoalesce (a b : expr)
| ELam (ps : list (pkind * name * option expr)) (b : expr)
| ECall (f : expr) (args : list (bool * expr))  (* f(a, ...b) *)
| EPrim (p : prim) (args : list expr)
| EEval (e : expr)                              (* eval("<text of e>") *)
| ESwitch (s : expr) (arms : list (pat * expr)) (* switch (s) case p -> e ... *)
with clause :=
| CIter (x : name) (e : expr)                   (* x <- e *)
| CItem (i x : name) (e : expr)                 (* i, x <<- e *)
| CLet (x : name) (e : expr)                    (* x := e *)
| CGuard (e : expr)                             (* if e *)
with forbody :=
| FDo (e : expr)
| FYield (e : expr)
| FYieldKV (k v : expr)
| FYieldInto (e : expr) (r : reducer)            (* yield e into r *)
with reducer :=
| RFirst | RLast | RCount | RSum | RLen          (* the builtins first, last, count, sum, len *)
| RFun (f : expr).                               (* any other expression: applied to the list *)

Definition param := (pkind * name * option expr)%type.

(* Values. Pure and immutable (licensed by C01). A closure holds the id of its defining
   frame: it captures variables, not values. VErr is the (opaque) message string of an error
   raised by the interpreter itself; only its presence is observable, never its wording. *)
Inductive val :=
| VNull
| VInt (z : Z)
| VStr (s : string)
| VList (l : list val)
| VDict (kvs : list (val * val))
| VClos (ps : list param) (body : expr) (env : nat)
| VErr.

(* Env: a frame is the parent's id and the variables declared in it (newest first). *)
Record frame := mkFrame { parent : option nat; vars : list (name * val) }.

(* the whole machine state: all frames ever created (id = position) and the printed output,
   one entry per print call *)
Record state := mkState { frames : list frame; out : list (list val) }.

(* NErr, plus SUnsupported: the program left the modelled vocabulary (e.g. `+` on strings);
   nothing absorbs it and the correspondence discards such programs on both sides. *)
Inductive signal :=
| SBreak (n : nat) (v : option val)
| SContinue (n : nat)
| SReturn (v : val)
| SThrow (v : val)
| SUnsupported.

Inductive res (A : Type) :=
| Val (a : A)
| Sig (s : signal)
| OutOfFuel.
Arguments Val {A} a.
Arguments Sig {A} s.
Arguments OutOfFuel {A}.

Definition result (A : Type) := (state * res A)%type.

Definition bindR {A B} (r : result A) (k : state -> A -> result B) : result B :=
  match r with
  | (st, Val a) => k st a
  | (st, Sig s) => (st, Sig s)
  | (st, OutOfFuel) => (st, OutOfFuel)
  end.

Definition throw_err {A} (st : state) : result A := (st, Sig (SThrow VErr)).
Definition unsupported {A} (st : state) : result A := (st, Sig SUnsupported).
Definition ret {A} (st : state) (a : A) : result A := (st, Val a).

(* ---------------------------------------------------------------- frames and variables *)
Definition names (fr : frame) : list name := map fst (vars fr).
Definition in_dom (x : name) (fr : frame) : bool := existsb (String.eqb x) (names fr).

Fixpoint assoc (x : name) (l : list (name * val)) : option val :=
  match l with
  | [] => None
  | (y, v) :: r => if String.eqb x y then Some v else assoc x r
  end.

Fixpoint assoc_set (x : name) (v : val) (l : list (name * val)) : list (name * val) :=
  match l with
  | [] => []
  | (y, w) :: r => if String.eqb x y then (y, v) :: r else (y, w) :: assoc_set x v r
  end.

Fixpoint set_nth {A} (n : nat) (a : A) (l : list A) : list A :=
  match l, n with
  | [], _ => []
  | _ :: r, O => a :: r
  | b :: r, S m => b :: set_nth m a r
  end.

(* Env::with_parent *)
Definition push_frame (st : state) (p : nat) : state * nat :=
  (mkState (frames st ++ [mkFrame (Some p) []]) (out st), length (frames st)).

(* Env::insert (allow_redeclaration = false): declare in frame f, refuse an existing name *)
Definition declare (st : state) (f : nat) (x : name) (v : val) : option state :=
  match nth_error (frames st) f with
  | Some fr =>
      if in_dom x fr then None
      else Some (mkState (set_nth f (mkFrame (parent fr) ((x, v) :: vars fr)) (frames st)) (out st))
  | None => None
  end.

(* Env::modify_existing_var / try_borrow_get_var: the nearest enclosing frame declaring x.
   A parent always has a smaller id than its child (push_frame allocates at the end), so the walk
   only follows such links and S f steps suffice. *)
Fixpoint resolve_aux (d : nat) (fs : list frame) (f : nat) (x : name) : option nat :=
  match d with
  | O => None
  | S d' =>
      match nth_error fs f with
      | None => None
      | Some fr =>
          if in_dom x fr then Some f
          else match parent fr with
               | Some p => if Nat.ltb p f then resolve_aux d' fs p x else None
               | None => None
               end
      end
  end.
Definition resolve (fs : list frame) (f : nat) (x : name) : option nat := resolve_aux (S f) fs f x.

Definition lookup (fs : list frame) (f : nat) (x : name) : option val :=
  match resolve fs f x with
  | Some g => match nth_error fs g with
              | Some fr => assoc x (vars fr)
              | None => None
              end
  | None => None
  end.

Definition assign (st : state) (f : nat) (x : name) (v : val) : option state :=
  match resolve (frames st) f x with
  | Some g =>
      match nth_error (frames st) g with
      | Some fr => Some (mkState (set_nth g (mkFrame (parent fr) (assoc_set x v (vars fr))) (frames st)) (out st))
      | None => None
      end
  | None => None
  end.

Definition init_state : state := mkState [mkFrame None []] [].
