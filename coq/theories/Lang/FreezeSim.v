(* Lang/FreezeSim.v - the simulation: for every fuel, evaluating an expression and evaluating a
   freeze-related expression (Lang/FreezeRel.v, fzr) from related stores, under the protection of
   the resolved variables, gives related results (sim_at (eval prot n) (eval prot n)).
   One case per constructor of fzr; the list-shaped parts are in Lang/FreezeSim_lists.v. *)
From Coq Require Import ZArith String List Bool Arith Lia.
From NV Require Import Lang.FreezeLang Lang.Freeze Lang.FreezeSpec Lang.Freeze_proofs Lang.FreezeBnd_proofs
  Lang.FreezeRel Lang.FreezeSim_store Lang.FreezeSim_rel Lang.FreezeSim_ops Lang.FreezeSim_scope Lang.FreezeSim_lists.
Import ListNotations.
Open Scope string_scope.
Open Scope list_scope.

Section Sim.
  Variable n0 cur0 : nat.
  Variable FV : name -> option val.
  Variable resl : list name.
  Variable mutl : list name.
  Notation prot := (prot0 n0 resl).
  Notation ext_at := (ext_at n0 resl).
  Notation kext := (kext n0 resl).
  Notation vrel := (vrel n0 cur0 FV resl mutl).
  Notation vrels := (vrels n0 cur0 FV resl mutl).
  Notation srel := (srel n0 cur0 FV resl mutl).
  Notation agree := (agree n0 cur0 FV resl mutl).
  Notation post := (post n0 cur0 FV resl mutl).
  Notation fzr := (fzr FV mutl).
  Notation fzrL := (fzrL FV mutl).
  Notation fzrOps := (fzrOps FV mutl).
  Notation sim_at := (sim_at n0 cur0 FV resl mutl).
  Notation pre := (pre n0 cur0 FV resl mutl).

  Hypothesis Hcur0 : cur0 < n0.

  Ltac split5 := refine (conj _ (conj _ (conj _ (conj _ _)))).

  (* ------------------------------------------------------------ the frozen side of a folded constant *)
  Lemma const_eval : forall n st' cur a' w, constant_value a' = Some w ->
    eval prot n st' cur a' = (st', OutOfFuel) \/ eval prot n st' cur a' = (st', Val w).
  Proof.
    intros n st' cur a' w H. destruct n as [|n]; [left; reflexivity|right].
    destruct a'; cbn in H; try discriminate; inversion H; subst; reflexivity.
  Qed.

  Lemma consts_eval : forall n st' cur es' vs, constant_values es' = Some vs ->
    eval_exprs (eval prot n) st' cur es' = (st', Val vs) \/
    exists s, eval_exprs (eval prot n) st' cur es' = (s, OutOfFuel).
  Proof.
    intros n st' cur. induction es' as [|a r IH]; intros vs H; cbn in H.
    - inversion H; subst. left. reflexivity.
    - destruct (constant_value a) as [w|] eqn:Ca; try discriminate.
      destruct (constant_values r) as [ws|] eqn:Cr; try discriminate. inversion H; subst.
      cbn [eval_exprs]. destruct (const_eval n st' cur a w Ca) as [E|E]; rewrite E; cbn [bindR].
      + right. eauto.
      + destruct (IH ws eq_refl) as [E2|[s E2]]; rewrite E2; cbn [bindR]; eauto.
  Qed.

  Lemma consts_no_underscore : forall es' vs, constant_values es' = Some vs -> existsb is_underscore es' = false.
  Proof.
    induction es' as [|a r IH]; intros vs H; cbn in *; auto.
    destruct (constant_value a) eqn:Ca; try discriminate.
    destruct (constant_values r) eqn:Cr; try discriminate.
    rewrite (IH _ eq_refl). destruct a; cbn in *; try discriminate; auto.
  Qed.

  (* composing with a frozen side that does not step *)
  Lemma post_bind_left : forall {A B} (RA : list frame -> A -> A -> Prop) (RB : list frame -> B -> B -> Prop)
      st cur D1 D2 Dn (r : result A) (st' : state) (a' : A) (k : state -> A -> result B) (r2' : result B),
    post RA st cur D1 r (st', Val a') -> incl D1 Dn -> incl D2 Dn ->
    (forall st1 a, FreezeRel.ext_at n0 resl (frames st) (frames st1) cur D1 -> FreezeRel.kext n0 resl (frames st) (frames st1) ->
        srel st1 st' -> agree (frames st1) -> RA (frames st1) a a' ->
        post RB st1 cur D2 (k st1 a) r2') ->
    post RB st cur Dn (bindR r k) r2'.
  Proof.
    intros A B RA RB st cur D1 D2 Dn [st1 r] st' a' k r2' H I1 I2 HK.
    destruct H as [H|(E & K & S & Ag & R)]; cbn [fst snd] in *.
    - left. destruct H as [H|H]; subst r; cbn; [left|right]; reflexivity.
    - destruct r as [a|[v| |]|]; cbn in R; try contradiction. cbn [bindR].
      specialize (HK st1 a E K S Ag R).
      destruct HK as [H|(E2 & K2 & S2 & Ag2 & R2)]; [left; auto|right].
      split5; auto.
      + eapply ext_at_trans; eauto.
      + eapply kext_trans; eauto.
  Qed.

  Lemma mem_app_false : forall x l1 l2, mem x (l1 ++ l2) = false -> mem x l2 = false.
  Proof.
    intros x l1 l2 H. apply mem_false in H. apply mem_false. intro C. apply H. apply in_or_app. auto.
  Qed.

  Implicit Types P D : name -> Prop.

  Lemma pre_weaken_B : forall P D B B' st st' cur Dn,
    pre P D B st st' cur Dn -> (forall x, In x B -> In x B') -> pre P D B' st st' cur Dn.
  Proof.
    intros P D B B' st st' cur Dn PR I. pose proof PR as [S Ag CI CH LC BU PP].
    eapply pre_step with (B := B) (Ns := []); eauto.
    - apply ext_at_refl.
    - apply kext_refl.
    - intros x [].
  Qed.

  (* ------------------------------------------------------------ one layer of the evaluator *)
  Lemma evalF_sim : forall n, sim_at (eval prot n) (eval prot n) ->
    sim_at (evalF prot (eval prot n)) (evalF prot (eval prot n)).
  Proof.
    intros n HR P D B e e' st st' cur F PP S Ag CI CH LC BU.
    set (rec := eval prot n) in *.
    assert (PR : pre P D B st st' cur (ddecl e)) by (constructor; auto).
    assert (N0 : n0 <= length (frames st)) by (destruct S; auto).
    inversion F; subst; cbn [evalF].
    - (* null *) apply post_ret; auto. constructor.
    - apply post_ret; auto. constructor.
    - apply post_ret; auto. constructor.
    - (* identifier kept *)
      destruct S as [FR O W N C].
      pose proof (lookup_rel n0 cur0 FV resl mutl (frames st) (frames st) (frames st') cur x FR) as L.
      destruct (lookup (frames st) cur x) as [v|]; destruct (lookup (frames st') cur x) as [v'|]; try contradiction.
      + destruct L as [L|L]; [congruence|]. apply post_ret; auto. constructor; auto.
      + apply post_throw_err; auto. constructor; auto.
    - (* identifier resolved by freeze *)
      destruct (Ag x v (PP x H) H1) as (w & Lw & Rw).
      assert (Lc : lookup (frames st) cur x = Some w).
      { unfold lookup in *. rewrite (CI x H H0). auto. }
      rewrite Lc. cbn [ddecl]. apply post_ret; auto.
    - (* underscore *) apply post_throw_err; auto.
    - (* constant *) apply post_ret; auto. apply noclos_refl_both; auto.
    - (* sequence *)
      change (ddecl (ESeq es)) with (flat_map ddecl es) in *.
      eapply eval_seq_sim; eauto. apply incl_refl.
    - (* x := e *)
      change (ddecl (EDecl x e0)) with (x :: ddecl e0) in *. unfold eval_decl.
      eapply post_bind with (D1 := ddecl e0) (D2 := [x]).
      + eapply use_rec with (B := x :: B); eauto.
        * eapply pre_weaken_B; eauto. intros y Hy. right; auto.
        * intros y Hy. right; auto.
      + intros y Hy. right; auto.
      + intros y [<-|[]]. left; auto.
      + intros st1 st1' v v' E K S1 Ag1 Rv.
        eapply post_bind with (D1 := [x]) (D2 := []); try apply incl_refl.
        * apply declare_sim; auto.
          -- destruct E. lia.
          -- intros G. rewrite (kext_budget_at _ _ _ _ _ K LC). apply BU; auto. left; auto.
        * intros ? [].
        * intros st2 st2' [] [] E2 K2 S2 Ag2 _. apply post_ret; auto. constructor.
    - (* x = e *)
      change (ddecl (EAssign x e0)) with (ddecl e0) in *. unfold eval_assign.
      eapply post_bind with (D1 := ddecl e0) (D2 := []); try apply incl_refl.
      + eapply use_rec; eauto. apply incl_refl.
      + intros ? [].
      + intros st1 st1' v v' E K S1 Ag1 Rv.
        eapply post_bind with (D1 := []) (D2 := []); try apply incl_refl.
        * apply assign_sim; auto.
        * intros st2 st2' [] [] E2 K2 S2 Ag2 _. apply post_ret; auto. constructor.
    - (* if *)
      change (ddecl (EIf c t f)) with (ddecl c ++ ddecl t ++ ddecl f) in *. unfold eval_if.
      eapply post_bind with (D1 := ddecl c) (D2 := ddecl t ++ ddecl f).
      + eapply use_rec; eauto. intros y Hy. apply in_or_app; auto.
      + intros y Hy. apply in_or_app; auto.
      + intros y Hy. apply in_or_app; auto.
      + intros st1 st1' v v' E K S1 Ag1 Rv.
        assert (PR1 := pre_after n0 cur0 FV resl mutl Hcur0 _ _ _ c _ _ _ _ _ _ PR E K S1 Ag1).
        rewrite <- (vrel_truthy _ _ _ _ _ _ _ _ Rv). destruct (truthy v).
        * eapply post_weaken; [eapply use_rec; eauto|].
          -- intros y Hy. apply in_or_app. right. apply in_or_app; auto.
          -- intros y Hy. apply in_or_app; auto.
        * eapply post_weaken; [eapply use_rec with (B := bnd (bnd B c) t); eauto|].
          -- eapply pre_weaken_B; eauto. intros y Hy. apply bnd_incl; auto.
          -- intros y Hy. apply in_or_app. right. apply in_or_app; auto.
          -- intros y Hy. apply in_or_app; auto.
    - (* while *)
      change (ddecl (EWhile c b)) with (@nil name) in *. unfold eval_while.
      pose proof (enter_frame n0 cur0 FV resl mutl Hcur0 P D B st st' cur (while_budget c b) (while_budget c' b') S Ag CI CH LC PP) as PRf.
      destruct (srel_push n0 cur0 FV resl mutl Hcur0 st st' cur (while_budget c b) (while_budget c' b') S LC) as (_ & F1 & F2).
      destruct (push_frame st cur (while_budget c b)) as [st1 fr] eqn:P1.
      destruct (push_frame st' cur (while_budget c' b')) as [st1' fr'] eqn:P2.
      cbn [fst snd] in *. subst fr fr'.
      assert (E1 : ext_at (frames st) (frames st1) cur []).
      { unfold push_frame in P1. inversion P1; subst. cbn. apply ext_at_push. }
      assert (K1 : kext (frames st) (frames st1)).
      { unfold push_frame in P1. inversion P1; subst. cbn. apply kext_push. }
      (* the condition and the body, in the iteration's frame *)
      assert (ITER : post (fun fs (a a' : bool * val) => fst a = fst a') st cur []
                (bindR (rec st1 (length (frames st)) c) (fun st2 vc =>
                   if truthy vc then bindR (rec st2 (length (frames st)) b) (fun st3 _ => ret st3 (true, VNull))
                   else ret st2 (false, VNull)))
                (bindR (rec st1' (length (frames st)) c') (fun st2 vc =>
                   if truthy vc then bindR (rec st2 (length (frames st)) b') (fun st3 _ => ret st3 (true, VNull))
                   else ret st2 (false, VNull)))).
      { eapply post_fresh with (fr := length (frames st)) (Dn := while_budget c b); eauto.
        eapply post_bind with (D1 := ddecl c) (D2 := ddecl b).
        - eapply use_rec; eauto. unfold while_budget. intros y Hy. apply in_or_app; auto.
        - unfold while_budget. intros y Hy. apply in_or_app; auto.
        - unfold while_budget. intros y Hy. apply in_or_app; auto.
        - intros st2 st2' v v' E2 K2 S2 Ag2 Rv.
          assert (PR2 := pre_after n0 cur0 FV resl mutl Hcur0 _ _ _ c _ _ _ _ _ _ PRf E2 K2 S2 Ag2).
          rewrite <- (vrel_truthy _ _ _ _ _ _ _ _ Rv). destruct (truthy v).
          + eapply post_bind with (D1 := ddecl b) (D2 := []); try apply incl_refl.
            * eapply use_rec; eauto. unfold while_budget. intros y Hy. apply in_or_app; auto.
            * intros ? [].
            * intros st3 st3' ? ? E3 K3 S3 Ag3 _. apply post_ret; auto.
          + eapply post_weaken; [apply post_ret; auto|intros ? []]. }
      (* reassociate: the evaluator's shape is iteration; then either loop again or stop *)
      assert (SHAPE : forall (rc : evalfn) s1 cc bb (fr : nat),
                bindR (rc s1 fr cc) (fun st2 vc =>
                  if truthy vc then bindR (rc st2 fr bb) (fun st3 _ => rc st3 cur (EWhile c b))
                  else ret st2 VNull) =
                bindR (bindR (rc s1 fr cc) (fun st2 vc =>
                         if truthy vc then bindR (rc st2 fr bb) (fun st3 _ => ret st3 (true, VNull))
                         else ret st2 (false, VNull)))
                      (fun st3 (a : bool * val) => if fst a then rc st3 cur (EWhile c b) else ret st3 VNull)).
      { intros. destruct (rc s1 fr cc) as [s [vc|sg|]]; cbn [bindR]; auto.
        destruct (truthy vc); cbn [bindR]; auto.
        destruct (rc s fr bb) as [s2 [vb|sg|]]; cbn [bindR]; auto. }
      assert (SHAPE' : forall (rc : evalfn) s1 cc bb (fr : nat),
                bindR (rc s1 fr cc) (fun st2 vc =>
                  if truthy vc then bindR (rc st2 fr bb) (fun st3 _ => rc st3 cur (EWhile c' b'))
                  else ret st2 VNull) =
                bindR (bindR (rc s1 fr cc) (fun st2 vc =>
                         if truthy vc then bindR (rc st2 fr bb) (fun st3 _ => ret st3 (true, VNull))
                         else ret st2 (false, VNull)))
                      (fun st3 (a : bool * val) => if fst a then rc st3 cur (EWhile c' b') else ret st3 VNull)).
      { intros. destruct (rc s1 fr cc) as [s [vc|sg|]]; cbn [bindR]; auto.
        destruct (truthy vc); cbn [bindR]; auto.
        destruct (rc s fr bb) as [s2 [vb|sg|]]; cbn [bindR]; auto. }
      rewrite SHAPE, SHAPE'.
      eapply post_bind with (D1 := []) (D2 := []); try apply incl_refl; [exact ITER|].
      intros st3 st3' [g1 w1] [g2 w2] E3 K3 S3 Ag3 R3. cbn [fst] in *. subst g2.
      destruct g1.
      + eapply (use_rec n0 cur0 FV resl mutl rec P D B st3 st3' cur [] (EWhile c b) (EWhile c' b') HR); eauto.
        * eapply pre_same; eauto.
        * intros ? [].
      + apply post_ret; auto. constructor.
    - (* for *)
      change (ddecl (EFor x e0 cls y body)) with (ddecl e0) in *. unfold eval_for_expr. cbn [eval_for].
      eapply post_bind with (RA := vrels) (D1 := ddecl e0) (D2 := []); try apply incl_refl.
      2:{ intros ? []. }
      2:{ intros st2 st2' acc acc' E2 K2 S2 Ag2 Ra. apply post_ret; auto.
          destruct y; constructor; auto. }
      eapply post_bind with (D1 := ddecl e0) (D2 := []).
      + eapply use_rec; eauto. apply incl_refl.
      + apply incl_refl.
      + intros ? [].
      + intros st1 st1' v v' E K S1 Ag1 Rv.
        assert (PR1 := pre_after n0 cur0 FV resl mutl Hcur0 _ _ _ e0 _ _ _ _ _ _ PR E K S1 Ag1).
        assert (Zb : In x (for_budget x cls body)) by (left; auto).
        inversion Rv; subst; cbn [iter_elems];
          try (apply post_throw_err; auto; fail); try (apply post_unsupp; auto; fail).
        eapply for_each_sim with (D := D) (B := bnd B e0); eauto; [|constructor].
        eapply eval_for_sim; eauto.
        * (* the body *)
          intros st2 st2' fr acc acc' PR2 Ra. unfold for_body.
          assert (IB : incl (ddecl body) (for_budget x cls body)).
          { unfold for_budget. intros z Hz. right. apply in_or_app. auto. }
          eapply post_weaken with (D1 := ddecl body ++ []).
          2:{ intros z Hz. apply in_app_or in Hz. destruct Hz as [Hz|[]]; auto. }
          eapply post_bind with (D1 := ddecl body) (D2 := []).
          -- eapply use_rec; eauto.
          -- intros z Hz. apply in_or_app; auto.
          -- intros ? [].
          -- intros st3 st3' w w' E3 K3 S3 Ag3 Rw. apply post_ret; auto.
             assert (Ra3 : vrels (frames st3) acc acc').
             { eapply vrels_mono; eauto. destruct PR2 as [S2 _ _ _ _ _ _]. destruct S2; auto. }
             destruct y; auto. apply vrels_app; auto. constructor; auto. constructor.
        * intros c Hc. unfold for_budget. intros z Hz. right. apply in_or_app. left.
          apply in_flat_map. exists c. split; auto.
        * intros z Hz. right. auto.
    - (* switch *)
      change (ddecl (ESwitch e0 arms)) with (ddecl e0) in *.
      eapply post_bind with (D1 := ddecl e0) (D2 := []); try apply incl_refl.
      + eapply use_rec; eauto. apply incl_refl.
      + intros ? [].
      + intros st1 st1' v v' E K S1 Ag1 Rv.
        eapply eval_arms_sim; eauto.
        eapply (pre_after n0 cur0 FV resl mutl Hcur0); eauto.
    - (* try *)
      change (ddecl (ETry b x h)) with (ddecl b) in *. unfold eval_try.
      pose proof (use_rec n0 cur0 FV resl mutl rec P D B st st' cur (ddecl b) b b' HR PR H (incl_refl _)) as PB.
      destruct (rec st cur b) as [st1 r1] eqn:R1. destruct (rec st' cur b') as [st1' r1'] eqn:R1'.
      destruct PB as [AB|(E & K & S1 & Ag1 & RR)]; cbn [fst snd] in *.
      + left. destruct AB; subst r1; cbn; [left|right]; reflexivity.
      + destruct r1 as [v|[v| |]|]; destruct r1' as [v'|[v'| |]|]; cbn in RR; try contradiction.
        * right. cbn. split5; auto.
        * (* the handler, in a fresh frame that holds the thrown value *)
          assert (PR1 := pre_after n0 cur0 FV resl mutl Hcur0 _ _ _ b _ _ _ _ _ _ PR E K S1 Ag1).
          eapply post_prefix with (D1 := ddecl b) (D2 := []); eauto; [|apply incl_refl|intros ? []].
          destruct PR1 as [S1b Ag1b CI1 CH1 LC1 BU1 PP1].
          pose proof (enter_frame n0 cur0 FV resl mutl Hcur0 P D (bnd B b) st1 st1' cur (catch_budget x h) (catch_budget x h') S1 Ag1 CI1 CH1 LC1 PP1) as PRf.
          destruct (srel_push n0 cur0 FV resl mutl Hcur0 st1 st1' cur (catch_budget x h) (catch_budget x h') S1 LC1) as (_ & F1 & F2).
          destruct (push_frame st1 cur (catch_budget x h)) as [st2 fr] eqn:P1.
          destruct (push_frame st1' cur (catch_budget x h')) as [st2' fr'] eqn:P2.
          cbn [fst snd] in *. subst fr fr'.
          assert (E2 : ext_at (frames st1) (frames st2) cur []).
          { unfold push_frame in P1. inversion P1; subst. cbn. apply ext_at_push. }
          assert (K2 : kext (frames st1) (frames st2)).
          { unfold push_frame in P1. inversion P1; subst. cbn. apply kext_push. }
          assert (N1 : n0 <= length (frames st1)) by (destruct S1; auto).
          eapply post_fresh with (fr := length (frames st1)) (Dn := catch_budget x h); eauto.
          destruct PRf as [S2 Ag2 CI2 CH2 LC2 BU2 PP2].
          eapply post_bind with (D1 := [x]) (D2 := ddecl h).
          -- apply (declare_all_sim n0 cur0 FV resl mutl Hcur0 [(x, v)] [(x, v')]); auto.
             ++ constructor; [|constructor]. split; auto. cbn. eapply vrel_mono; eauto.
             ++ intros G z [<-|[]]. apply BU2; auto. left; auto.
          -- intros z [<-|[]]. left; auto.
          -- intros z Hz. right; auto.
          -- intros st3 st3' [] [] E3 K3 S3 Ag3 _.
             eapply use_rec; eauto.
             ++ eapply pre_step with (B := bnd B b); eauto.
                ** constructor; eauto.
                ** intros z [<-|[]]. left; auto.
                ** intros z Hz. right; auto.
             ++ intros z Hz. right; auto.
        * right. cbn. split5; auto.
    - (* throw *)
      change (ddecl (EThrow e0)) with (ddecl e0) in *.
      eapply post_bind with (D1 := ddecl e0) (D2 := []); try apply incl_refl.
      + eapply use_rec; eauto. apply incl_refl.
      + intros ? [].
      + intros st1 st1' v v' E K S1 Ag1 Rv. apply post_sig_throw; auto.
    - (* lambda *)
      change (ddecl (ELam ps b)) with (@nil name) in *.
      apply post_ret; auto. econstructor; eauto.
      intros z Pz Bz. apply CI; auto. eapply mem_app_false; eauto.
    - (* call *)
      change (ddecl (ECall f args)) with (ddecl f ++ flat_map ddecl args) in *. unfold eval_call.
      rewrite <- (fzr_underscore _ _ _ _ _ _ _ H), <- (fzrL_underscore _ _ _ _ _ _ _ H0).
      destruct (is_underscore f || existsb is_underscore args).
      { eapply post_weaken; [apply post_unsupp; auto|intros ? []]. }
      eapply post_bind with (D1 := ddecl f) (D2 := flat_map ddecl args).
      + eapply use_rec; eauto. intros z Hz. apply in_or_app; auto.
      + intros z Hz. apply in_or_app; auto.
      + intros z Hz. apply in_or_app; auto.
      + intros st1 st1' fv fv' E K S1 Ag1 Rv.
        assert (PR1 := pre_after n0 cur0 FV resl mutl Hcur0 _ _ _ f _ _ _ _ _ _ PR E K S1 Ag1).
        eapply post_bind with (D1 := flat_map ddecl args) (D2 := []).
        * eapply eval_exprs_sim; eauto. intros z Hz. apply in_or_app; auto.
        * apply incl_refl.
        * intros ? [].
        * intros st2 st2' vs vs' E2 K2 S2 Ag2 Rvs.
          eapply apply_val_sim; eauto. eapply vrel_mono; eauto. destruct S1; auto.
    - (* -constant, folded by freeze *)
      change (ddecl (ECall f [a])) with (ddecl f ++ flat_map ddecl [a]) in *. unfold eval_call.
      rewrite (fzr_underscore _ _ _ _ _ _ _ H). cbn [is_underscore orb existsb].
      rewrite (fzr_underscore _ _ _ _ _ _ _ H0).
      assert (NU : is_underscore a' = false) by (destruct a'; cbn in H1; try discriminate; auto).
      rewrite NU. cbn [orb].
      pose proof (use_rec n0 cur0 FV resl mutl rec P D B st st' cur (ddecl (ECall f [a])) f _ HR PR H) as PF.
      destruct (const_eval n st' cur (EFrozen (VPrim PSub p)) _ eq_refl) as [EF|EF]; fold rec in EF; rewrite EF in PF.
      { destruct PF as [AB|(_ & _ & _ & _ & RR)].
        - intros nm Hn. apply in_or_app; auto.
        - left. destruct (rec st cur f) as [s r]. cbn in *. destruct AB; subst r; cbn; [left|right]; reflexivity.
        - destruct (rec st cur f) as [s [?|[?| |]|]]; cbn in RR; contradiction. }
      eapply post_bind_left with (D1 := ddecl f) (D2 := flat_map ddecl [a]).
      + apply PF. intros nm Hn. apply in_or_app; auto.
      + intros nm Hn. apply in_or_app; auto.
      + intros nm Hn. apply in_or_app; auto.
      + intros st1 fv E K S1 Ag1 Rv. inversion Rv; subst.
        assert (PR1 := pre_after n0 cur0 FV resl mutl Hcur0 _ _ _ f _ _ _ _ _ _ PR E K S1 Ag1).
        cbn [eval_exprs flat_map].
        assert (SINGLE : forall (r : result val) (k : state -> list val -> result val),
                  bindR (bindR r (fun s1 v => bindR (ret s1 []) (fun s2 vs => ret s2 (v :: vs)))) k =
                  bindR r (fun s1 v => k s1 [v])).
        { intros [s0 [v0|sg|]] k; reflexivity. }
        rewrite SINGLE.
        pose proof (use_rec n0 cur0 FV resl mutl rec P D (bnd B f) st1 st' cur (ddecl (ECall f [a])) a a' HR PR1 H0) as PA.
        destruct (const_eval n st' cur a' _ H1) as [EA|EA]; fold rec in EA; rewrite EA in PA.
        { destruct PA as [AB|(_ & _ & _ & _ & RR)].
          - intros nm Hn. apply in_or_app. right. cbn. rewrite app_nil_r in *. auto.
          - left. destruct (rec st1 cur a) as [s r]. cbn in *. destruct AB; subst r; cbn; [left|right]; reflexivity.
          - destruct (rec st1 cur a) as [s [?|[?| |]|]]; cbn in RR; contradiction. }
        eapply post_bind_left with (D1 := ddecl a) (D2 := []).
        * apply PA. intros nm Hn. apply in_or_app. right. cbn. rewrite app_nil_r. auto.
        * rewrite app_nil_r. apply incl_refl.
        * intros ? [].
        * intros st2 v E2 K2 S2 Ag2 Rv2. inversion Rv2; subst. cbn [apply_val prim_apply].
          apply post_ret; auto. constructor.
    - (* operator chain *)
      change (ddecl (EChain a ops)) with (ddecl a ++ ops_decl ops) in *. unfold eval_chain.
      rewrite <- (fzr_underscore _ _ _ _ _ _ _ H), <- (fzrOps_underscore _ _ _ _ _ _ _ H0).
      destruct (is_underscore a || existsb (fun p => is_underscore (snd p)) ops).
      { eapply post_weaken; [apply post_unsupp; auto|intros ? []]. }
      assert (GEN : post vrel st cur (ddecl a ++ ops_decl ops)
                (bindR (rec st cur a) (fun st1 v => chain_ops prot rec st1 cur [] v ops))
                (bindR (rec st' cur a') (fun st1 v => chain_ops prot rec st1 cur [] v ops'))).
      { eapply post_bind with (D1 := ddecl a) (D2 := ops_decl ops).
        - eapply use_rec; eauto. intros z Hz. apply in_or_app; auto.
        - intros z Hz. apply in_or_app; auto.
        - intros z Hz. apply in_or_app; auto.
        - intros st1 st1' v v' E K S1 Ag1 Rv.
          assert (PR1 := pre_after n0 cur0 FV resl mutl Hcur0 _ _ _ a _ _ _ _ _ _ PR E K S1 Ag1).
          eapply chain_ops_sim; eauto.
          + intros z Hz. apply in_or_app; auto.
          + constructor. }
      inversion H0; subst; [exact GEN|].
      inversion H3; subst; [|exact GEN].
      (* exactly one operator: evaluated directly *)
      unfold ops_decl in *. cbn [flat_map fst snd] in *. rewrite app_nil_r in *.
      eapply post_bind with (D1 := ddecl a) (D2 := ddecl o ++ ddecl d).
      + eapply use_rec; eauto. intros z Hz. apply in_or_app; auto.
      + intros z Hz. apply in_or_app; auto.
      + intros z Hz. apply in_or_app; auto.
      + intros st1 st1' lhs lhs' E K S1 Ag1 Rl.
        assert (PR1 := pre_after n0 cur0 FV resl mutl Hcur0 _ _ _ a _ _ _ _ _ _ PR E K S1 Ag1).
        eapply post_bind with (D1 := ddecl o) (D2 := ddecl d).
        * eapply use_rec; eauto. intros z Hz. apply in_or_app. right. apply in_or_app; auto.
        * intros z Hz. apply in_or_app; auto.
        * intros z Hz. apply in_or_app; auto.
        * intros st2 st2' opv opv' E2 K2 S2 Ag2 Ro.
          assert (PR2 := pre_after n0 cur0 FV resl mutl Hcur0 _ _ _ o _ _ _ _ _ _ PR1 E2 K2 S2 Ag2).
          rewrite <- (vrel_is_func _ _ _ _ _ _ _ _ Ro). destruct (is_func opv); cbn [negb].
          2:{ eapply post_weaken; [apply post_throw_err; auto|intros ? []]. }
          eapply post_bind with (D1 := ddecl d) (D2 := []).
          -- eapply use_rec; eauto. intros z Hz. apply in_or_app. right. apply in_or_app; auto.
          -- apply incl_refl.
          -- intros ? [].
          -- intros st3 st3' rhs rhs' E3 K3 S3 Ag3 Rr.
             assert (N1 : n0 <= length (frames st1)) by (destruct S1; auto).
             assert (N2 : n0 <= length (frames st2)) by (destruct S2; auto).
             eapply apply_val_sim; eauto.
             ++ eapply vrel_mono; eauto.
             ++ constructor; [|constructor; [auto|constructor]].
                eapply vrel_mono with (fs := frames st2); eauto. eapply vrel_mono; eauto.
    - (* list literal *)
      change (ddecl (EList es)) with (flat_map ddecl es) in *.
      rewrite <- (fzrL_underscore _ _ _ _ _ _ _ H).
      destruct (existsb is_underscore es).
      { eapply post_weaken; [apply post_unsupp; auto|intros ? []]. }
      eapply post_bind with (D1 := flat_map ddecl es) (D2 := []); try apply incl_refl.
      + eapply eval_exprs_sim; eauto. apply incl_refl.
      + intros ? [].
      + intros st1 st1' vs vs' E K S1 Ag1 Rvs. apply post_ret; auto. constructor; auto.
    - (* list literal of constants, folded by freeze *)
      change (ddecl (EList es)) with (flat_map ddecl es) in *.
      rewrite (fzrL_underscore _ _ _ _ _ _ _ H), (consts_no_underscore _ _ H0).
      pose proof (eval_exprs_sim n0 cur0 FV resl mutl Hcur0 rec HR P D B es es' H st st' cur _ PR (incl_refl _)) as PE.
      destruct (consts_eval n st' cur es' vs H0) as [EE|[s EE]]; fold rec in EE; rewrite EE in PE.
      2:{ destruct PE as [AB|(_ & _ & _ & _ & RR)].
          - left. destruct (eval_exprs rec st cur es) as [s1 r]. cbn in *. destruct AB; subst r; cbn; [left|right]; reflexivity.
          - destruct (eval_exprs rec st cur es) as [s1 [?|[?| |]|]]; cbn in RR; contradiction. }
      eapply post_bind_left with (D1 := flat_map ddecl es) (D2 := []); try apply incl_refl.
      + exact PE.
      + intros ? [].
      + intros st1 ws E K S1 Ag1 Rws. apply post_ret; auto. constructor; auto.
    - (* import *) apply post_unsupp; auto.
  Qed.

  (* ------------------------------------------------------------ every fuel *)
  Theorem eval_sim : forall n, sim_at (eval prot n) (eval prot n).
  Proof.
    induction n as [|n IH].
    - intros P D B e e' st st' cur _ _ _ _ _ _ _ _. left. left. reflexivity.
    - cbn [eval]. apply evalF_sim; auto.
  Qed.
End Sim.
