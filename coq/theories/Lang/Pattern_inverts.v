(* C12: match_inverts.  A successful match in a declaring context (switch, catch, parameters, for,
   :=) only adds bindings, and under the final bindings the pattern, read backwards, denotes the
   matched value (PatternSpec.recon).  The operator patterns are the inverses of their operators
   (destructure_inverts). *)
From Coq Require Import ZArith NArith List Bool Lia PeanoNat Znumtheory.
From NV Require Import Common.Outcome Lang.Types Lang.Types_proofs Lang.Pattern Lang.PatternSpec
  Lang.Pattern_proofs Lang.Pattern_proofs3.
Import ListNotations.

Definition head_nodef (p : pat) : bool := match p with PDefault _ _ => false | _ => true end.
Definition nosplat (p : pat) : bool := negb (is_splat p).

Lemma nodef_seq : forall ps d, nodef (PSeq ps d) = forallb nodef ps. Proof. reflexivity. Qed.
Lemma nodef_destr : forall b ps, nodef (PDestr b ps) = forallb nodef ps. Proof. reflexivity. Qed.
Lemma nodef_struct : forall sid ps, nodef (PStruct sid ps) = forallb nodef ps. Proof. reflexivity. Qed.
Lemma nodef_head : forall p, nodef p = true -> head_nodef p = true.
Proof. destruct p; cbn; auto. Qed.

(* ------------------------------------------------------------------ scan, one item at a time *)
Lemma scan_cons_splat : forall p ps i n sp defs, is_splat p = true ->
  scan (p :: ps) i n sp defs =
    match sp with Some _ => Err ESyntax | None => scan ps (S i) n (Some i) defs end.
Proof.
  intros p ps i n sp defs H. destruct p; try discriminate H; try reflexivity.
  destruct p; try discriminate H; reflexivity.
Qed.
Lemma scan_cons_plain : forall p ps i n sp defs, is_splat p = false -> head_nodef p = true ->
  scan (p :: ps) i n sp defs =
    match defs with [] => scan ps (S i) n sp defs | _ :: _ => Err ESyntax end.
Proof.
  intros p ps i n sp defs H1 H2. destruct p; try discriminate H1; try discriminate H2; try reflexivity.
  destruct p; try discriminate H1; reflexivity.
Qed.

Lemma scan_nodef : forall ps i n sp r defs',
  forallb head_nodef ps = true -> scan ps i n sp [] = Ok (r, defs') -> defs' = [].
Proof.
  induction ps as [|p ps IH]; intros i n sp r defs' Hnd H.
  - cbn in H. congruence.
  - cbn [forallb] in Hnd. apply andb_prop in Hnd as [Hp Hnd].
    destruct (is_splat p) eqn:Es.
    + rewrite scan_cons_splat in H by exact Es. destruct sp; [discriminate|]. eapply IH; eauto.
    + rewrite scan_cons_plain in H by assumption. eapply IH; eauto.
Qed.

(* once the splat has been seen, no further splat is accepted *)
Lemma scan_after_splat : forall ps i n j r defs',
  forallb head_nodef ps = true -> scan ps i n (Some j) [] = Ok (r, defs') ->
  r = Some j /\ forallb nosplat ps = true.
Proof.
  induction ps as [|p ps IH]; intros i n j r defs' Hnd H.
  - cbn in H. injection H as <- _. auto.
  - cbn [forallb] in Hnd. apply andb_prop in Hnd as [Hp Hnd].
    destruct (is_splat p) eqn:Es.
    + rewrite scan_cons_splat in H by exact Es. discriminate.
    + rewrite scan_cons_plain in H by assumption. apply IH in H as [-> H]; auto.
      split; [reflexivity|]. cbn [forallb]. unfold nosplat at 1. rewrite Es. exact H.
Qed.

Lemma scan_shape : forall ps i n r defs',
  forallb head_nodef ps = true -> scan ps i n None [] = Ok (r, defs') ->
  match r with
  | None => forallb nosplat ps = true
  | Some si => (i <= si)%nat /\ (si - i < length ps)%nat /\
      is_splat (nth (si - i) ps PWild) = true /\
      forallb nosplat (firstn (si - i) ps) = true /\ forallb nosplat (skipn (S (si - i)) ps) = true
  end.
Proof.
  induction ps as [|p ps IH]; intros i n r defs' Hnd H.
  - cbn in H. injection H as <- _. reflexivity.
  - cbn [forallb] in Hnd. apply andb_prop in Hnd as [Hp Hnd].
    destruct (is_splat p) eqn:Es.
    + rewrite scan_cons_splat in H by exact Es.
      apply scan_after_splat in H as [-> H]; [|exact Hnd].
      rewrite Nat.sub_diag. cbn [nth firstn skipn forallb length]. repeat split; auto; lia.
    + rewrite scan_cons_plain in H by assumption. apply IH in H; [|exact Hnd].
      destruct r as [si|].
      * destruct H as (Hle & Hlt & Hs & Hf & Hb).
        replace (si - i)%nat with (S (si - S i)) by lia.
        cbn [nth firstn skipn forallb length]. unfold nosplat at 1. rewrite Es.
        repeat split; auto; lia.
      * cbn [forallb]. unfold nosplat at 1. rewrite Es. exact H.
Qed.

Lemma firstn_nth_skipn : forall A (l : list A) k d, (k < length l)%nat ->
  l = firstn k l ++ nth k l d :: skipn (S k) l.
Proof.
  induction l as [|a l IH]; intros k d H; cbn [length] in H; [lia|].
  destruct k; cbn [firstn nth skipn app]; [reflexivity|]. f_equal. apply IH. lia.
Qed.

(* ------------------------------------------------------------------ declaring only extends *)
Section Ext.
  Variable sat : N -> val -> outcome bool.
  Variable inexact : iop -> num -> num -> num.
  Let A := assign sat inexact.

  Lemma extends_refl : forall s, extends s s. Proof. intros s x tv H. exact H. Qed.
  Lemma extends_trans : forall a b c, extends a b -> extends b c -> extends a c.
  Proof. intros a b c H1 H2 x tv H. auto. Qed.
  Lemma declare_extends : forall s x t v, extends s (fst (declare sat s x t v)).
  Proof.
    intros s x t v. unfold declare. destruct (is_type sat t v) as [[|]| | |]; cbn [fst]; try apply extends_refl.
    destruct (lookup s x) eqn:E; cbn [fst]; [apply extends_refl|].
    intros y tv Hy. cbn [lookup]. destruct (N.eqb_spec y x) as [->|]; [congruence|exact Hy].
  Qed.

  Theorem assign_extends : forall fuel p t v s, extends s (fst (A fuel p (Some t) v s)).
  Proof.
    intros. apply (assign_R sat inexact extends (fun rt => rt <> None)); try discriminate.
    - apply extends_refl.
    - apply extends_trans.
    - apply declare_extends.
    - intros s0 x v0 H. congruence.
  Qed.

  Lemma chain_extends : forall fuel t ps vs s s', chain (A fuel) (Some t) ps vs s s' -> extends s s'.
  Proof.
    induction 1; [apply extends_refl|]. eapply extends_trans; [|eassumption].
    pose proof (assign_extends fuel p t v s) as He. unfold A in *. rewrite H in He. exact He.
  Qed.

  Lemma check_type_ok : forall s t v s', check_type sat s t v = (s', Ok tt) -> s' = s.
  Proof. intros s t v s' H. unfold check_type in H. destruct (is_type sat t v) as [[|]| | |]; congruence. Qed.

  (* ---------------------------------------------------------------- the sequence part *)
  Lemma recon_items_app : forall rc front rest fv rv,
    forallb nosplat front = true -> recon_items rc front fv -> recon_items rc rest rv ->
    recon_items rc (front ++ rest) (fv ++ rv).
  Proof.
    induction front as [|p front IH]; intros rest fv rv Hns Hf Hr.
    - cbn in Hf. subst fv. exact Hr.
    - cbn [forallb] in Hns. apply andb_prop in Hns as [Hp Hns].
      unfold nosplat in Hp. apply negb_true_iff in Hp.
      cbn [app recon_items] in *. rewrite Hp in *.
      destruct Hf as (v & r & -> & Hv & Hf). exists v, (r ++ rv). split; [reflexivity|]. split; [exact Hv|].
      apply IH; assumption.
  Qed.

  Section Step.
    Variable f : nat.
    Hypothesis IH : forall p t v s s', A f p (Some t) v s = (s', Ok tt) -> nodef p = true ->
      forall s'', extends s' s'' -> recon inexact f s'' p v.

    Lemma chain_recon : forall t ps vs s s', chain (A f) (Some t) ps vs s s' ->
      forallb nosplat ps = true -> forallb nodef ps = true ->
      forall s'', extends s' s'' -> recon_items (recon inexact f s'') ps vs.
    Proof.
      induction 1 as [|p ps v vs s s1 s' H1 Hc IHc]; intros Hns Hnd s'' Hext; [reflexivity|].
      cbn [forallb] in Hns, Hnd. apply andb_prop in Hns as [Hp Hns]. apply andb_prop in Hnd as [Hd Hnd].
      unfold nosplat in Hp. apply negb_true_iff in Hp. cbn [recon_items]. rewrite Hp.
      exists v, vs. split; [reflexivity|]. split.
      - eapply IH; eauto. eapply extends_trans; [eapply chain_extends; eauto|exact Hext].
      - apply IHc; auto.
    Qed.

    Lemma In_firstn : forall A k (l : list A) x, In x (firstn k l) -> In x l.
    Proof.
      induction k; intros l x H; [destruct H|]. destruct l; [destruct H|].
      cbn [firstn] in H. destruct H as [<-|H]; [left; reflexivity|right; apply IHk; exact H].
    Qed.
    Lemma forallb_firstn : forall (g : pat -> bool) k l, forallb g l = true -> forallb g (firstn k l) = true.
    Proof.
      intros g k l H. apply forallb_forall. intros x Hx. rewrite forallb_forall in H. apply H.
      eapply In_firstn; eauto.
    Qed.
    Lemma In_skipn : forall A k (l : list A) x, In x (skipn k l) -> In x l.
    Proof. induction k; intros l x H; [exact H|]. destruct l; [destruct H|]. right. apply IHk. exact H. Qed.
    Lemma forallb_skipn : forall (g : pat -> bool) k l, forallb g l = true -> forallb g (skipn k l) = true.
    Proof.
      intros g k l H. apply forallb_forall. intros x Hx. rewrite forallb_forall in H. apply H.
      eapply In_skipn; eauto.
    Qed.

    Lemma assign_all_recon : forall ps t rhs s s',
      assign_all (A f) ps (Some t) rhs s = (s', Ok tt) -> forallb nodef ps = true ->
      forall s'', extends s' s'' -> recon_items (recon inexact f s'') ps rhs.
    Proof.
      intros ps t rhs s s' H Hnd s'' Hext.
      assert (Hhd : forallb head_nodef ps = true).
      { apply forallb_forall. intros x Hx. apply nodef_head. rewrite forallb_forall in Hnd. auto. }
      apply assign_all_inv in H as (defs & [[Hsc Hc]|H]).
      - pose proof (scan_nodef _ _ _ _ _ _ Hhd Hsc) as ->. rewrite app_nil_r in Hc.
        pose proof (scan_shape _ _ _ _ _ Hhd Hsc) as Hns. eapply chain_recon; eauto.
      - destruct H as (si & front & mid & back & s1 & s2 & Hsc & Hlt & Hrhs & Hlen & Hc1 & Hs & Hc2).
        pose proof (scan_nodef _ _ _ _ _ _ Hhd Hsc) as ->. rewrite app_nil_r in Hrhs. subst rhs.
        pose proof (scan_shape _ _ _ _ _ Hhd Hsc) as (_ & _ & Hsp & Hnf & Hnb).
        rewrite Nat.sub_0_r in *.
        rewrite (firstn_nth_skipn _ ps si PWild Hlt) at 1.
        assert (He2 : extends s2 s'') by (eapply extends_trans; [eapply chain_extends; eauto|exact Hext]).
        apply recon_items_app; [exact Hnf| |].
        + eapply chain_recon; eauto; [apply forallb_firstn; exact Hnd|].
          eapply extends_trans; [|exact He2].
          unfold assign_splat in Hs.
          destruct (nth si ps PWild) as [| |q a| | |q| | | | |]; try discriminate Hs.
          * destruct q as [| | | | |q| | | | |]; try discriminate Hs. destruct a as [a|].
            -- destruct (to_type a) as [t'| | |]; try discriminate Hs.
               pose proof (assign_extends f q t' (VList mid) s1) as He. unfold A in *. rewrite Hs in He. exact He.
            -- pose proof (assign_extends f q TAny (VList mid) s1) as He. unfold A in *. rewrite Hs in He. exact He.
          * pose proof (assign_extends f q t (VList mid) s1) as He. unfold A in *. rewrite Hs in He. exact He.
        + cbn [recon_items]. rewrite Hsp. exists mid, back. split; [reflexivity|]. split.
          * assert (Hq : nodef (nth si ps PWild) = true).
            { rewrite forallb_forall in Hnd. apply Hnd. apply nth_In. exact Hlt. }
            unfold assign_splat in Hs.
            destruct (nth si ps PWild) as [| |q a| | |q| | | | |]; try discriminate Hs.
            -- destruct q as [| | | | |q| | | | |]; try discriminate Hs. cbn [splat_inner]. cbn [nodef] in Hq.
               destruct a as [a|].
               ++ destruct (to_type a) as [t'| | |]; try discriminate Hs. eapply IH; eauto.
               ++ eapply IH; eauto.
            -- cbn [splat_inner]. cbn [nodef] in Hq. eapply IH; eauto.
          * eapply chain_recon; eauto. apply forallb_skipn. exact Hnd.
    Qed.
  End Step.

  (* ---------------------------------------------------------------- match_inverts *)
  Theorem match_inverts : forall fuel p t v s s',
    A fuel p (Some t) v s = (s', Ok tt) -> nodef p = true ->
    extends s s' /\ forall s'', extends s' s'' -> recon inexact fuel s'' p v.
  Proof.
    intros fuel p t v s s' H Hnd. split.
    { pose proof (assign_extends fuel p t v s) as He. unfold A in *. rewrite H in He. exact He. }
    revert p t v s s' H Hnd.
    induction fuel as [|f IH]; intros p t v s s' H Hnd s'' Hext; [discriminate|].
    unfold A in H. cbn [assign] in H. destruct p; cbn [recon]; cbn [nodef] in Hnd.
    - exact I.
    - (* PVar *)
      unfold declare in H. destruct (is_type sat t v) as [[|]| | |]; try discriminate.
      destruct (lookup s x); [discriminate|]. injection H as <-.
      exists t. apply Hext. cbn [lookup]. rewrite N.eqb_refl. reflexivity.
    - (* PAnn *)
      destruct a as [a|]; [destruct (to_type a) as [t'| | |]; try discriminate|]; eapply IH; eauto.
    - discriminate.
    - (* PSeq *)
      assert (Hgo : exists t', match elements v with
                    | Some es => assign_all (A f) ps (Some t') es s
                    | None => (s, Err EType) end = (s', Ok tt)).
      { cbv zeta in H. destruct delimited; [|eauto].
        apply andthen_ok in H as (s1 & H1 & H2). apply check_type_ok in H1. subst s1. eauto. }
      destruct Hgo as (t' & Hgo). destruct (elements v) as [es|]; [|discriminate].
      exists es. split; [reflexivity|]. eapply assign_all_recon; eauto.
    - discriminate.
    - (* POr *)
      apply andb_prop in Hnd as [Hn1 Hn2].
      destruct (assign sat inexact f p1 (Some t) v s) as [s1 [[]|c| |]] eqn:E1; try discriminate.
      + injection H as <-. left. eapply IH; eauto.
      + right. eapply IH; eauto.
    - (* PAnd *)
      apply andb_prop in Hnd as [Hn1 Hn2]. apply andthen_ok in H as (s1 & H1 & H2). split.
      + eapply IH; eauto. eapply extends_trans; [|exact Hext].
        pose proof (assign_extends f p2 t v s1) as He. unfold A in He. rewrite H2 in He. exact He.
      + eapply IH; eauto.
    - (* PLit *) destruct (veq v0 v); [reflexivity|discriminate].
    - (* PDestr *)
      destruct (destructure inexact b v (map known_of args)) as [r| | |] eqn:Ed; try discriminate.
      destruct (Nat.eqb _ _); [|discriminate].
      exists r. split; [reflexivity|]. eapply assign_all_recon; eauto.
    - (* PStruct *)
      destruct v; try discriminate. destruct (N.eqb_spec sid sid0) as [->|]; [|discriminate].
      exists fs. split; [reflexivity|]. eapply assign_all_recon; eauto.
  Qed.
End Ext.

(* ------------------------------------------------------------------ the operator patterns invert their operators *)
Section Ops.
  Variable inexact : iop -> num -> num -> num.

  Lemma rat_norm_val : forall n d n' d', 0 < d -> rat_norm n d = NRat n' d' -> n' * d = n * Zpos d'.
  Proof.
    intros n d n' d' Hd H. unfold rat_norm in H. injection H as <- <-.
    pose proof (Z.gcd_divide_l n d) as [a Ha]. pose proof (Z.gcd_divide_r n d) as [b Hb].
    pose proof (Z.gcd_nonneg n d) as Hg0.
    assert (Hg : 0 < Z.gcd n d).
    { destruct (Z.eq_dec (Z.gcd n d) 0) as [E|E]; [|lia]. apply Z.gcd_eq_0_r in E. lia. }
    set (g := Z.gcd n d) in *. clearbody g.
    assert (Hn : n / g = a) by (rewrite Ha; apply Z.div_mul; lia).
    assert (Hdd : d / g = b) by (rewrite Hb; apply Z.div_mul; lia).
    rewrite Hn, Hdd. assert (0 < b) by nia. rewrite Z2Pos.id by lia. subst n d. ring.
  Qed.

  (* n + k : the two parts add up to the matched number (integers) *)
  Lemma plus_inverts : forall r a d, plus_inv inexact (NInt r) (NInt a) = Ok d ->
    exists z, d = NInt z /\ 0 <= z /\ num_add inexact (NInt a) (NInt z) = NInt r.
  Proof.
    intros r a d H. unfold plus_inv in H. cbn [num_sub] in H.
    destruct (num_ge0 (NInt (r - a))) eqn:E; [|discriminate]. injection H as <-.
    exists (r - a). split; [reflexivity|]. split.
    - unfold num_ge0, num_cmp in E. cbn in E. rewrite Z.mul_1_r in E.
      destruct (Z.compare_spec (r - a) 0); try discriminate; lia.
    - cbn [num_add]. f_equal. lia.
  Qed.
  (* k * n : the two factors multiply to the matched number (integers) *)
  Lemma times_inverts : forall r a k, times_inv inexact (NInt r) (NInt a) = Ok k ->
    exists z, k = NInt z /\ num_mul inexact (NInt a) (NInt z) = NInt r.
  Proof.
    intros r a k H. cbn [times_inv] in H. destruct (Z.eqb_spec a 0); [discriminate|].
    destruct (Z.eqb_spec (Z.rem r a) 0); [|discriminate]. cbn [negb] in H. injection H as <-.
    exists (r / a). split; [reflexivity|]. cbn [num_mul]. f_equal.
    apply Z.rem_divide in e; [|exact n]. destruct e as [q ->]. rewrite Z.div_mul by exact n. ring.
  Qed.
  (* -x *)
  Lemma neg_involutive : forall x, num_neg (num_neg x) = x.
  Proof.
    destruct x; cbn [num_neg]; f_equal; try lia;
      rewrite N.lxor_assoc, N.lxor_nilpotent, N.lxor_0_r; reflexivity.
  Qed.
  (* a / b : numerator over denominator is == to the matched exact number *)
  Lemma divide_inverts : forall x n d, to_q x = Some (n, d) ->
    num_eq (num_div inexact (NInt n) (NInt (Zpos d))) x = true.
  Proof.
    intros x n d H. unfold num_div. cbn [to_q]. cbn [Z.eqb Z.ltb Z.compare].
    rewrite Z.mul_1_r, Z.mul_1_l.
    destruct (rat_norm n (Zpos d)) as [|n' d'| |] eqn:E; try (unfold rat_norm in E; discriminate).
    apply rat_norm_val in E; [|lia].
    assert (Hx : reals x = (XQ n d, XQ 0 1)) by (destruct x; try discriminate; injection H as <- <-; reflexivity).
    unfold num_eq. rewrite Hx. cbn [reals]. unfold xeq, xcmp.
    rewrite E, Z.compare_refl. reflexivity.
  Qed.
  (* h .+ t and xs +. x on lists (the constructor is Prepend / Append::run2) *)
  Lemma prepend_inverts : forall l h t, uncons (VList l) = Ok (Some (h, t)) -> prepend h t = Ok (VList l).
  Proof. intros [|x l] h t H; cbn in H; [discriminate|]. injection H as <- <-. reflexivity. Qed.
  Lemma append_inverts : forall l i x, unsnoc (VList l) = Ok (Some (i, x)) -> append i x = Ok (VList l).
  Proof.
    intros l i x H. cbn [unsnoc] in H. destruct (rev l) as [|y r] eqn:E; [discriminate|].
    injection H as <- <-. cbn [append]. f_equal. f_equal.
    rewrite <- (rev_involutive l), E. cbn [rev]. reflexivity.
  Qed.

  (* the statement about destructure itself *)
  Theorem destructure_inverts :
    (forall r a res, destructure inexact BPlus (VNum (NInt r)) [None; Some (VNum (NInt a))] = Ok res ->
       exists z, res = [vint z; vint a] /\ 0 <= z /\ num_add inexact (NInt z) (NInt a) = NInt r) /\
    (forall r a res, destructure inexact BTimes (VNum (NInt r)) [Some (VNum (NInt a)); None] = Ok res ->
       exists z, res = [vint a; vint z] /\ num_mul inexact (NInt a) (NInt z) = NInt r) /\
    (forall x k res, destructure inexact BMinus (VNum x) [k] = Ok res ->
       exists y, res = [VNum y] /\ num_neg y = x) /\
    (forall x ks res, destructure inexact BDivide (VNum x) ks = Ok res ->
       exists n d, res = [vint n; vint (Zpos d)] /\ num_eq (num_div inexact (NInt n) (NInt (Zpos d))) x = true) /\
    (forall l ks res, destructure inexact BPrepend (VList l) ks = Ok res ->
       exists h t, res = [h; t] /\ prepend h t = Ok (VList l)) /\
    (forall l ks res, destructure inexact BAppend (VList l) ks = Ok res ->
       exists i x, res = [i; x] /\ append i x = Ok (VList l)).
  Proof.
    repeat split.
    - intros r a res H. cbn [destructure] in H.
      destruct (plus_inv inexact (NInt r) (NInt a)) as [d| | |] eqn:E; try discriminate.
      cbn [bind] in H. injection H as <-. apply plus_inverts in E as (z & -> & Hz & Hs).
      exists z. split; [reflexivity|]. split; [exact Hz|]. cbn [num_add] in *. injection Hs as Hs. f_equal. lia.
    - intros r a res H. cbn [destructure] in H.
      destruct (times_inv inexact (NInt r) (NInt a)) as [k| | |] eqn:E; try discriminate.
      cbn [bind] in H. injection H as <-. apply times_inverts in E as (z & -> & Hs). exists z. split; [reflexivity|exact Hs].
    - intros x k res H. cbn [destructure] in H. injection H as <-.
      exists (num_neg x). split; [reflexivity|apply neg_involutive].
    - intros x ks res H. cbn [destructure] in H. destruct (to_q x) as [[n d]|] eqn:E; [|discriminate].
      injection H as <-. exists n, d. split; [reflexivity|]. apply divide_inverts. exact E.
    - intros l ks res H. cbn [destructure is_seq] in H.
      destruct (uncons (VList l)) as [[[h t]|]| | |] eqn:E; cbn [bind] in H; try discriminate.
      injection H as <-. exists h, t. split; [reflexivity|]. apply prepend_inverts. exact E.
    - intros l ks res H. cbn [destructure is_seq] in H.
      destruct (unsnoc (VList l)) as [[[i x]|]| | |] eqn:E; cbn [bind] in H; try discriminate.
      injection H as <-. exists i, x. split; [reflexivity|]. apply append_inverts. exact E.
  Qed.
End Ops.
