(* C14 - error containment: a small self-contained model of the part of src/eval.rs that
   decides where a failure goes.

   Transcribed (definitions only; proofs are in Contain_proofs.v):
     evaluate(), arms Sequence, If, While, Try, Throw, Break, Continue, Return, Assign, OpAssign
       - Expr::Try intercepts ONLY NErr::Throw; Break/Continue/Return (and Ok) pass through unchanged;
         the catch variable is declared in a child scope (Env::with_parent) that is dropped afterwards.
       - While: Break 0 ends the loop, Break (n+1) leaves as Break n, Continue 0 re-tests,
         Continue (n+1) leaves as Continue n, everything else propagates.
       - Assign  x[path] = e   : eval_lvalue (the path expressions), then the right-hand side, then
         assign -> set_index down the path (name error when x is not declared).
       - OpAssign x[path] f= e (hot path, eval.rs "no party trick"): eval_lvalue, read the old value
         (eval_lvalue_as_obj), evaluate the right-hand side, drop_lhs (set_index with None: the slot
         becomes null IN THE STORE), call the operator, assign the result back.  When the operator
         raises, the slot stays null.
   Errors raised by the interpreter are NErr::Throw of a message; here `VErr c` (c an error class).
   What a builtin operator computes is a Section parameter `apply_op`: the containment theorems hold
   for every meaning of the operators; `std_op` is the instance used by the correspondence run.
   Variables are declared up front (the store); statements only assign, so scoping is flat except
   for the catch variable, which shadows and is restored. *)
From Coq Require Import ZArith List Bool Arith.
From NV Require Import Common.Outcome.
Import ListNotations.
Open Scope Z_scope.

Definition var := nat.

Inductive val :=
| VNull
| VInt (z : Z)
| VList (l : list val)
| VErr (c : errc).        (* the message string of an interpreter-raised error of class c *)

Inductive binop := OAdd | OSub | OMul | OFloorDiv | OConcat | OAppend | OLt.

Inductive expr :=
| XConst (v : val)
| XVar (x : var)
| XBin (o : binop) (a b : expr)
| XIdx (a i : expr).

Inductive stmt :=
| SSkip
| SExpr (e : expr)                                     (* an expression statement: may raise *)
| SAssign (x : var) (path : list expr) (e : expr)      (* x = e   and   x[i]..[j] = e *)
| SOpAssign (x : var) (path : list expr) (o : binop) (e : expr)   (* x[i]..[j] o= e *)
| SSeq (a b : stmt)
| SIf (c : expr) (a b : stmt)
| SWhile (c : expr) (body : stmt)
| STry (body : stmt) (c : var) (handler : stmt)
| SThrow (e : expr)
| SBreak (n : nat)
| SContinue (n : nat)
| SReturn (e : expr).

(* NErr *)
Inductive sig :=
| GThrow (v : val)
| GBreak (n : nat)
| GContinue (n : nat)
| GReturn (v : val).

Definition store := var -> option val.

Definition upd (s : store) (x : var) (v : val) : store :=
  fun y => if Nat.eqb y x then Some v else s y.
(* leaving the child scope of a catch clause: the outer binding of the catch variable reappears *)
Definition restore (s : store) (x : var) (old : option val) : store :=
  fun y => if Nat.eqb y x then old else s y.

Inductive res :=
| Done (s : store)
| Raise (s : store) (g : sig)      (* the store: effects before the failure persist *)
| RPanic                           (* a Rust panic: only ever produced by apply_op *)
| RFuel.

Definition zlen {A} (l : list A) : Z := Z.of_nat (length l).

(* pythonic_index: position of index z in a sequence of length len *)
Definition norm_index (len z : Z) : option nat :=
  if (0 <=? z) && (z <? len) then Some (Z.to_nat z)
  else if (- len <=? z) && (z <? 0) then Some (Z.to_nat (z + len))
  else None.

Fixpoint replace_nth {A} (l : list A) (k : nat) (a : A) : list A :=
  match l, k with
  | [], _ => []
  | _ :: r, O => a :: r
  | x :: r, S k' => x :: replace_nth r k' a
  end.

Definition index_val (v i : val) : outcome val :=
  match v, i with
  | VList l, VInt z =>
    match norm_index (zlen l) z with
    | Some k => match nth_error l k with Some a => Ok a | None => Err EIndex end
    | None => Err EIndex
    end
  | VList _, _ => Err EIndex
  | _, _ => Err EType
  end.

Fixpoint get_path (v : val) (idxs : list val) : outcome val :=
  match idxs with
  | [] => Ok v
  | i :: rest => c <- index_val v i ;; get_path c rest
  end.

(* set_index (lists only): descend, replace the slot, rebuild *)
Fixpoint set_path (v : val) (idxs : list val) (nv : val) : outcome val :=
  match idxs with
  | [] => Ok nv
  | i :: rest =>
    match v, i with
    | VList l, VInt z =>
      match norm_index (zlen l) z with
      | Some k =>
        match nth_error l k with
        | Some child => c' <- set_path child rest nv ;; Ok (VList (replace_nth l k c'))
        | None => Err EIndex
        end
      | None => Err EIndex
      end
    | _, _ => Err EIndex
    end
  end.

Definition truthy (v : val) : bool :=
  match v with
  | VNull => false
  | VInt z => negb (z =? 0)
  | VList [] => false
  | VList _ => true
  | VErr _ => true
  end.

Section Model.
(* the meaning of the builtin operators: any function to a value, an error class, or a panic *)
Variable apply_op : binop -> val -> val -> outcome val.

Fixpoint eval (s : store) (e : expr) : outcome val :=
  match e with
  | XConst v => Ok v
  | XVar x => match s x with Some v => Ok v | None => Err EName end
  | XBin o a b => va <- eval s a ;; vb <- eval s b ;; apply_op o va vb
  | XIdx a i => va <- eval s a ;; vi <- eval s i ;; index_val va vi
  end.

Fixpoint eval_list (s : store) (es : list expr) : outcome (list val) :=
  match es with
  | [] => Ok []
  | e :: r => v <- eval s e ;; vs <- eval_list s r ;; Ok (v :: vs)
  end.

(* an outcome of the pure part becomes a result: an error is a Throw of its message in the CURRENT store *)
Definition lift {A} (s : store) (o : outcome A) (k : A -> res) : res :=
  match o with
  | Ok a => k a
  | Err c => Raise s (GThrow (VErr c))
  | Panic => RPanic
  | OutOfFuel => RFuel
  end.

Definition lookup (s : store) (x : var) : outcome val :=
  match s x with Some v => Ok v | None => Err EName end.

(* one level of evaluate(): `rec` is the recursive call *)
Definition step (rec : stmt -> store -> res) (st : stmt) (s : store) : res :=
  match st with
  | SSkip => Done s
  | SExpr e => lift s (eval s e) (fun _ => Done s)
  | SAssign x path e =>
    lift s (eval_list s path) (fun idxs =>
    lift s (eval s e) (fun v =>
    lift s (lookup s x) (fun old =>
    lift s (set_path old idxs v) (fun new => Done (upd s x new)))))
  | SOpAssign x path o e =>
    lift s (eval_list s path) (fun idxs =>
    lift s (lookup s x) (fun old =>
    lift s (get_path old idxs) (fun cur =>
    lift s (eval s e) (fun rhs =>
    lift s (set_path old idxs VNull) (fun dropped =>
    let s1 := upd s x dropped in                      (* drop_lhs: the slot is null now *)
    lift s1 (apply_op o cur rhs) (fun r =>
    lift s1 (set_path dropped idxs r) (fun new => Done (upd s1 x new))))))))
  | SSeq a b =>
    match rec a s with
    | Done s1 => rec b s1
    | r => r
    end
  | SIf c a b => lift s (eval s c) (fun v => if truthy v then rec a s else rec b s)
  | SWhile c body =>
    lift s (eval s c) (fun v =>
      if truthy v then
        match rec body s with
        | Done s1 => rec (SWhile c body) s1
        | Raise s1 (GBreak O) => Done s1
        | Raise s1 (GBreak (S n)) => Raise s1 (GBreak n)
        | Raise s1 (GContinue O) => rec (SWhile c body) s1
        | Raise s1 (GContinue (S n)) => Raise s1 (GContinue n)
        | r => r
        end
      else Done s)
  | STry body c handler =>
    match rec body s with
    | Raise s1 (GThrow v) =>
      match rec handler (upd s1 c v) with
      | Done s2 => Done (restore s2 c (s1 c))
      | Raise s2 g => Raise (restore s2 c (s1 c)) g
      | r => r
      end
    | r => r                    (* Ok, Break, Continue, Return: untouched *)
    end
  | SThrow e => lift s (eval s e) (fun v => Raise s (GThrow v))
  | SBreak n => Raise s (GBreak n)
  | SContinue n => Raise s (GContinue n)
  | SReturn e => lift s (eval s e) (fun v => Raise s (GReturn v))
  end.

Fixpoint exec (fuel : nat) : stmt -> store -> res :=
  match fuel with
  | O => fun _ _ => RFuel
  | S f => step (exec f)
  end.

End Model.

(* variables a statement can write: assignment targets and catch variables *)
Fixpoint names (st : stmt) : list var :=
  match st with
  | SAssign x _ _ => [x]
  | SOpAssign x _ _ _ => [x]
  | SSeq a b => names a ++ names b
  | SIf _ a b => names a ++ names b
  | SWhile _ b => names b
  | STry b c h => c :: names b ++ names h
  | _ => []
  end.

(* a handler that cannot raise anything by itself *)
Fixpoint quiet (st : stmt) : bool :=
  match st with
  | SSkip => true
  | SSeq a b => quiet a && quiet b
  | _ => false
  end.

(* ---------------------------------------------------------------- the operator instance used by the runner.
   Arithmetic and comparison are defined on integers only (the implementation vectorises over lists and
   compares lists; the generated programs never do that), everything else raises. *)
Definition std_op (o : binop) (a b : val) : outcome val :=
  match o, a, b with
  | OAdd, VInt x, VInt y => Ok (VInt (x + y))
  | OSub, VInt x, VInt y => Ok (VInt (x - y))
  | OMul, VInt x, VInt y => Ok (VInt (x * y))
  | OFloorDiv, VInt x, VInt y => if y =? 0 then Err EValue else Ok (VInt (x / y))
  | OLt, VInt x, VInt y => Ok (VInt (if x <? y then 1 else 0))
  | OConcat, VList x, VList y => Ok (VList (x ++ y))
  | OAppend, VList x, y => Ok (VList (x ++ [y]))
  | (OAdd | OSub | OMul | OFloorDiv), _, _ => Err EArg
  | OLt, _, _ => Err EType
  | (OConcat | OAppend), _, _ => Err EOther
  end.

Definition exec_std := exec std_op.

Definition empty_store : store := fun _ => None.

Example ex_failed_opassign_leaves_null :
  match exec_std 10 (STry (SOpAssign 0%nat [] OFloorDiv (XConst (VInt 0))) 1%nat SSkip)
                    (upd (upd empty_store 0%nat (VInt 5)) 2%nat (VInt 8)) with
  | Done s => s 0%nat = Some VNull /\ s 2%nat = Some (VInt 8) /\ s 1%nat = None
  | _ => False
  end.
Proof. vm_compute. repeat split. Qed.
