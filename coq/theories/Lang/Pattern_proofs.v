(* C12: proofs about Lang/Pattern.v, part 1: totality (no Panic, fuel suffices), the sequence
   engine (lengths, splat, defaults), literals, or / and, switch. *)
From Coq Require Import ZArith NArith List Bool Lia PeanoNat.
From NV Require Import Common.Outcome Lang.Types Lang.Types_proofs Lang.Pattern.
Import ListNotations.

Lemma pat_size_seq : forall ps d, pat_size (PSeq ps d) = S (pats_size ps).
Proof. reflexivity. Qed.
Lemma pat_size_destr : forall b ps, pat_size (PDestr b ps) = S (pats_size ps).
Proof. reflexivity. Qed.
Lemma pat_size_struct : forall sid ps, pat_size (PStruct sid ps) = S (pats_size ps).
Proof. reflexivity. Qed.
Lemma pat_size_pos : forall p, (1 <= pat_size p)%nat.
Proof. destruct p; cbn [pat_size]; lia. Qed.
Lemma pats_size_in : forall ps p, In p ps -> (pat_size p <= pats_size ps)%nat.
Proof.
  induction ps; intros p H; [destruct H|]. cbn [pats_size]. destruct H as [<- | H]; [lia|].
  specialize (IHps _ H). lia.
Qed.
Lemma pats_size_firstn : forall n ps, (pats_size (firstn n ps) <= pats_size ps)%nat.
Proof. induction n; destruct ps; cbn [firstn pats_size]; try lia. specialize (IHn ps). lia. Qed.
Lemma pats_size_skipn : forall n ps, (pats_size (skipn n ps) <= pats_size ps)%nat.
Proof. induction n; destruct ps; cbn [skipn pats_size]; try lia. specialize (IHn ps). lia. Qed.

Definition ok_or_err {A} (o : outcome A) : Prop := (exists a, o = Ok a) \/ (exists c, o = Err c).

(* ------------------------------------------------------------------ results that are Ok or Err *)
Section Q.
  (* a property of outcomes that Ok and every Err have: "is not Panic", "is not OutOfFuel" *)
  Variable Q : outcome unit -> Prop.
  Hypothesis Qok : Q (Ok tt).
  Hypothesis Qerr : forall c, Q (Err c).

  Lemma andthen_Q : forall r k, Q (snd r) -> (forall s, Q (snd (k s))) -> Q (snd (andthen r k)).
  Proof. intros [s o] k H1 H2. destruct o as [[]| | |]; cbn in *; auto. Qed.

  Section All.
    Variable rec : pat -> option ty -> val -> store -> res.
    Variable bound : nat.
    Hypothesis Hrec : forall q rt v s, (pat_size q <= bound)%nat -> Q (snd (rec q rt v s)).

    Lemma zip_assign_Q : forall ps rt vs s, (pats_size ps <= bound)%nat -> Q (snd (zip_assign rec ps rt vs s)).
    Proof.
      induction ps as [|p ps IH]; intros rt vs s Hb; cbn [zip_assign]; [exact Qok|].
      destruct vs as [|v vs]; [exact Qok|]. cbn [pats_size] in Hb.
      apply andthen_Q; [apply Hrec; lia|]. intros. apply IH. lia.
    Qed.
    Lemma assign_all_basic_Q : forall ps rt vs s, (pats_size ps <= bound)%nat ->
      Q (snd (assign_all_basic rec ps rt vs s)).
    Proof.
      intros. unfold assign_all_basic. destruct (Nat.eqb _ _); [apply zip_assign_Q; auto|apply Qerr].
    Qed.
    Lemma assign_splat_Q : forall p rt mid s, (pat_size p <= bound)%nat -> Q (snd (assign_splat rec p rt mid s)).
    Proof.
      intros p rt mid s Hb. unfold assign_splat.
      destruct p; try apply Qerr.
      - destruct p; try apply Qerr. cbn [pat_size] in Hb.
        destruct a as [a|]; [|apply Hrec; lia].
        unfold to_type. destruct a; cbn [snd]; try apply Qerr; try (apply Hrec; lia).
      - cbn [pat_size] in Hb. apply Hrec. lia.
    Qed.
  End All.
End Q.

(* ------------------------------------------------------------------ scan and split never panic *)
Lemma scan_ok_or_err : forall ps i n splat defs,
  (forall j, splat = Some j -> (j < i)%nat) -> ok_or_err (scan ps i n splat defs).
Proof.
  induction ps as [|p ps IH]; intros i n splat defs Hs; cbn [scan].
  - left. eauto.
  - assert (Hsplat : ok_or_err (match splat with
                                | Some _ => Err ESyntax
                                | None => scan ps (S i) n (Some i) defs end)).
    { destruct splat; [right; eauto|]. apply IH. intros j [= <-]. lia. }
    assert (Hother : ok_or_err (match defs with
                                | [] => scan ps (S i) n splat defs
                                | _ :: _ => Err ESyntax end)).
    { destruct defs; [|right; eauto]. apply IH. intros j Hj. specialize (Hs _ Hj). lia. }
    destruct p; try exact Hother; try exact Hsplat.
    + destruct p; try exact Hother; exact Hsplat.
    + destruct splat as [j|].
      * specialize (Hs j eq_refl). unfold usub. destruct (Nat.leb_spec 1 i); [|lia].
        cbn [bind]. apply IH. intros j' [= <-]. lia.
      * cbn [bind]. apply IH. intros j' H. discriminate H.
Qed.

Lemma scan_splat_lt : forall ps i n splat defs si defs',
  (forall j, splat = Some j -> (j < i)%nat) ->
  scan ps i n splat defs = Ok (Some si, defs') -> (si < i + length ps)%nat.
Proof.
  induction ps as [|p ps IH]; intros i n splat defs si defs' Hs H; cbn [scan] in H.
  - injection H as H _. specialize (Hs _ H). cbn [length]. lia.
  - cbn [length].
    assert (Hsplat : match splat with
                     | Some _ => Err ESyntax
                     | None => scan ps (S i) n (Some i) defs end = Ok (Some si, defs') -> (si < i + S (length ps))%nat).
    { destruct splat; [discriminate|]. intros H'. apply IH in H'; [lia|]. intros j [= <-]. lia. }
    assert (Hother : match defs with
                     | [] => scan ps (S i) n splat defs
                     | _ :: _ => Err ESyntax end = Ok (Some si, defs') -> (si < i + S (length ps))%nat).
    { destruct defs; [|discriminate]. intros H'. apply IH in H'; [lia|].
      intros j Hj. specialize (Hs _ Hj). lia. }
    destruct p; try (apply Hother; exact H); try (apply Hsplat; exact H).
    + destruct p; try (apply Hother; exact H); apply Hsplat; exact H.
    + destruct splat as [j|].
      * specialize (Hs j eq_refl). unfold usub in H. destruct (Nat.leb_spec 1 i); [|lia].
        cbn [bind] in H. apply IH in H; [lia|]. intros j' [= <-]. lia.
      * cbn [bind] in H. apply IH in H; [lia|]. intros j' H'. discriminate H'.
Qed.

Lemma split_splat_ok_or_err : forall nl si rhs, (si < nl)%nat -> ok_or_err (split_splat nl si rhs).
Proof.
  intros nl si rhs H. unfold split_splat.
  destruct (Nat.ltb_spec (length rhs + 1) nl); [right; eauto|].
  unfold usub. destruct (Nat.leb_spec nl (length rhs + si + 1)); [|lia]. cbn [bind].
  destruct (Nat.ltb_spec (length rhs) (length rhs + si + 1 - nl)); [lia|].
  rewrite firstn_length. destruct (Nat.ltb_spec (Nat.min (length rhs + si + 1 - nl) (length rhs)) si); [lia|].
  left. eauto.
Qed.

Section AllQ.
  Variable Q : outcome unit -> Prop.
  Hypothesis Qok : Q (Ok tt).
  Hypothesis Qerr : forall c, Q (Err c).
  Variable rec : pat -> option ty -> val -> store -> res.
  Variable bound : nat.
  Hypothesis Hrec : forall q rt v s, (pat_size q <= bound)%nat -> Q (snd (rec q rt v s)).

  Lemma assign_all_Q : forall ps rt rhs s, (pats_size ps <= bound)%nat -> Q (snd (assign_all rec ps rt rhs s)).
  Proof.
    intros ps rt rhs s Hb. unfold assign_all.
    pose proof (scan_ok_or_err ps 0 (length rhs) None [] ltac:(intros j H; discriminate H)) as Hsc.
    destruct (scan ps 0 (length rhs) None []) as [[splat defs]| c | |] eqn:Esc;
      try (destruct Hsc as [[a Ha]|[c' Hc]]; discriminate); [|apply Qerr].
    destruct splat as [si|].
    - pose proof (scan_splat_lt ps 0 (length rhs) None [] si defs ltac:(intros j H; discriminate H) Esc) as Hlt.
      cbn [Nat.add] in Hlt.
      pose proof (split_splat_ok_or_err (length ps) si (rhs ++ defs) Hlt) as Hsp.
      destruct (split_splat (length ps) si (rhs ++ defs)) as [[[front mid] back]| c | |];
        try (destruct Hsp as [[a Ha]|[c' Hc]]; discriminate); [|apply Qerr].
      apply andthen_Q; auto.
      { apply assign_all_basic_Q with (bound := bound); auto. pose proof (pats_size_firstn si ps). lia. }
      intros s1. apply andthen_Q; auto.
      { apply assign_splat_Q with (bound := bound); auto.
        pose proof (pats_size_in ps (nth si ps PWild) (nth_In _ _ Hlt)). lia. }
      intros s2. apply assign_all_basic_Q with (bound := bound); auto.
      pose proof (pats_size_skipn (S si) ps). lia.
    - destruct (Nat.eqb _ _); [|apply Qerr]. apply assign_all_basic_Q with (bound := bound); auto.
  Qed.
End AllQ.

(* ------------------------------------------------------------------ destructure never panics *)
Section Destr.
  Variable inexact : iop -> num -> num -> num.

  Lemma bind_ok_or_err : forall A B (o : outcome A) (f : A -> outcome B),
    ok_or_err o -> (forall a, ok_or_err (f a)) -> ok_or_err (bind o f).
  Proof. intros A B o f [[a ->]|[c ->]] Hf; cbn [bind]; [apply Hf|right; eauto]. Qed.
  Ltac oe := first [left; eexists; reflexivity | right; eexists; reflexivity].

  Lemma plus_inv_oe : forall r a, ok_or_err (plus_inv inexact r a).
  Proof. intros. unfold plus_inv. destruct (num_ge0 _); oe. Qed.
  Lemma times_inv_oe : forall r a, ok_or_err (times_inv inexact r a).
  Proof.
    intros. unfold times_inv.
    destruct r, a; repeat match goal with
      | |- context [if ?c then _ else _] => destruct c
      | |- context [match to_q ?x with _ => _ end] => destruct (to_q x) as [[? ?]|]
      end; oe.
  Qed.
  Lemma uncons_oe : forall v, ok_or_err (uncons v).
  Proof. destruct v as [| | s | l | ks vs | l | l | l | | |]; cbn [uncons]; try oe;
    try (destruct l; oe); try (destruct s; oe). destruct ks; [oe|]. destruct vs; oe. Qed.
  Lemma unsnoc_oe : forall v, ok_or_err (unsnoc v).
  Proof.
    destruct v as [| | s | l | ks vs | l | l | l | | |]; cbn [unsnoc]; try oe;
      try (destruct (rev l); oe); try (destruct (rev s); oe).
    destruct (uncons_oe (VDict ks vs)) as [[[[e d]|] ->]|[c ->]]; oe.
  Qed.
  Lemma cmp_accept_oe : forall op a b, ok_or_err (cmp_accept op a b).
  Proof.
    intros. assert (H : ok_or_err (ncmp a b)).
    { unfold ncmp. destruct a, b; cbn [is_seq andb]; try oe; destruct (vcmp _ _); oe. }
    destruct op; cbn [cmp_accept]; try oe; (apply bind_ok_or_err; [exact H|intros; oe]).
  Qed.
  Lemma cmp_chain_oe : forall ops args, ok_or_err (cmp_chain ops args).
  Proof.
    induction ops as [|op ops IH]; intros args; cbn [cmp_chain]; [oe|].
    destruct args as [|a [|b rest]]; try oe.
    apply bind_ok_or_err; [apply cmp_accept_oe|]. intros [|]; [apply IH|oe].
  Qed.
  Lemma fill_slots_oe : forall known rv, ok_or_err (fill_slots known rv).
  Proof.
    induction known as [|[l|] k IH]; intros rv; cbn [fill_slots].
    - destruct rv; oe.
    - apply bind_ok_or_err; [apply IH|intros; oe].
    - destruct rv; [oe|]. apply bind_ok_or_err; [apply IH|intros; oe].
  Qed.

  Lemma destructure_oe : forall b v known, ok_or_err (destructure inexact b v known).
  Proof.
    intros b v known. destruct b; cbn [destructure].
    - (* plus *)
      destruct v as [|r| | | | | | | | |]; try oe.
      destruct known as [|[[|a| | | | | | | | |]|] [|[[|a'| | | | | | | | |]|] [|? ?]]]; try oe;
        (apply bind_ok_or_err; [apply plus_inv_oe|intros; oe]).
    - (* minus *)
      destruct known as [|? [|? ?]]; try oe. destruct v; oe.
    - (* times *)
      destruct v as [|r| | | | | | | | |]; try oe.
      destruct known as [|[[|a| | | | | | | | |]|] [|[[|a'| | | | | | | | |]|] [|? ?]]]; try oe;
        (apply bind_ok_or_err; [apply times_inv_oe|intros; oe]).
    - (* divide *)
      destruct v as [|x| | | | | | | | |]; try oe. destruct (to_q x) as [[? ?]|]; oe.
    - (* append *)
      destruct (is_seq v); [|oe]. apply bind_ok_or_err; [apply unsnoc_oe|]. intros [[? ?]|]; oe.
    - (* prepend *)
      destruct (is_seq v); [|oe]. apply bind_ok_or_err; [apply uncons_oe|]. intros [[? ?]|]; oe.
    - (* cmp *)
      destruct (negb _); [oe|]. destruct (Nat.eqb _ 0); [oe|].
      apply bind_ok_or_err.
      { destruct (Nat.eqb _ 1); [oe|]. destruct (elements v); oe. }
      intros rv. apply bind_ok_or_err; [apply fill_slots_oe|]. intros ret.
      apply bind_ok_or_err; [apply cmp_chain_oe|]. intros [|]; oe.
    - oe.
  Qed.
End Destr.

(* ------------------------------------------------------------------ assign: no Panic, fuel suffices *)
Section Total.
  Variable sat : N -> val -> outcome bool.
  Variable inexact : iop -> num -> num -> num.
  Variable Q : outcome unit -> Prop.
  Hypothesis Qok : Q (Ok tt).
  Hypothesis Qerr : forall c, Q (Err c).
  (* the user predicates themselves satisfy Q (they do not panic / run out of fuel) *)
  Hypothesis Qsat : forall t v s, Q (snd (check_type sat s t v)) /\
                                  (forall x, Q (snd (declare sat s x t v))) /\
                                  (forall x, lookup s x = Some (t, v) -> True).
  Hypothesis Qassign_var : forall s x v, Q (snd (assign_var sat s x v)).

  Lemma assign_Q_step : forall (rec : pat -> option ty -> val -> store -> res) bound,
    (forall q rt v s, (pat_size q <= bound)%nat -> Q (snd (rec q rt v s))) ->
    forall p rt v s, (pat_size p <= S bound)%nat ->
    Q (snd (match p with
      | PWild => match rt with Some t => check_type sat s t v | None => (s, Ok tt) end
      | PVar x => match rt with Some t => declare sat s x t v | None => assign_var sat s x v end
      | PSeq ps delimited =>
        let go (rt' : option ty) (s' : store) : res :=
          match elements v with
          | Some es => assign_all rec ps rt' es s'
          | None => (s', Err EType)
          end in
        if delimited then
          match rt with
          | Some outer => andthen (check_type sat s outer v) (go (Some TAny))
          | None => go None s
          end
        else go rt s
      | PAnn q None => rec q (Some TAny) v s
      | PAnn q (Some a) =>
        match to_type a with
        | Ok t => rec q (Some t) v s
        | Err c => (s, Err c)
        | Panic => (s, Panic)
        | OutOfFuel => (s, OutOfFuel)
        end
      | PDefault q _ => rec q rt v s
      | PSplat _ => (s, Err EType)
      | POr a b =>
        match rec a rt v s with
        | (s1, Ok _) => (s1, Ok tt)
        | (s1, Err _) => rec b rt v s1
        | (s1, e) => (s1, e)
        end
      | PAnd a b => andthen (rec a rt v s) (rec b rt v)
      | PLit l => if veq l v then (s, Ok tt) else (s, Err EType)
      | PDestr b args =>
        match destructure inexact b v (map known_of args) with
        | Ok r =>
          if Nat.eqb (length r) (length args) then assign_all rec args rt r s else (s, Err EType)
        | Err c => (s, Err c)
        | Panic => (s, Panic)
        | OutOfFuel => (s, OutOfFuel)
        end
      | PStruct sid args =>
        match v with
        | VInst sid' fs => if N.eqb sid sid' then assign_all rec args rt fs s else (s, Err EType)
        | _ => (s, Err EType)
        end
      end)).
  Proof.
    intros rec bound Hrec p rt v s Hb.
    destruct p.
    - destruct rt; [apply Qsat|exact Qok].
    - destruct rt; [apply Qsat|apply Qassign_var].
    - cbn [pat_size] in Hb. destruct a as [a|]; [|apply Hrec; lia].
      unfold to_type. destruct a; cbn [snd]; try apply Qerr; try (apply Hrec; lia).
    - cbn [pat_size] in Hb. apply Hrec. lia.
    - rewrite pat_size_seq in Hb.
      assert (Hgo : forall rt' s', Q (snd (match elements v with
                | Some es => assign_all rec ps rt' es s' | None => (s', Err EType) end))).
      { intros. destruct (elements v); [|cbn [snd]; apply Qerr]. apply assign_all_Q with (bound := bound); auto. lia. }
      cbv zeta. destruct delimited; [|apply Hgo].
      destruct rt; [|apply Hgo]. apply andthen_Q; auto. apply Qsat.
    - cbn [snd]. apply Qerr.
    - cbn [pat_size] in Hb.
      pose proof (Hrec p1 rt v s ltac:(lia)) as H1. destruct (rec p1 rt v s) as [s1 [[]|c| |]]; cbn [snd] in *; auto.
      apply Hrec. lia.
    - cbn [pat_size] in Hb. apply andthen_Q; auto; [apply Hrec; lia|]. intros. apply Hrec. lia.
    - destruct (veq _ _); cbn [snd]; auto.
    - rewrite pat_size_destr in Hb.
      destruct (destructure_oe inexact b v (map known_of args)) as [[r ->]|[c ->]]; [|cbn [snd]; apply Qerr].
      destruct (Nat.eqb _ _); [|cbn [snd]; apply Qerr]. apply assign_all_Q with (bound := bound); auto. lia.
    - rewrite pat_size_struct in Hb. destruct v; cbn [snd]; try apply Qerr.
      destruct (N.eqb _ _); [|cbn [snd]; apply Qerr]. apply assign_all_Q with (bound := bound); auto. lia.
  Qed.
End Total.

Section Main.
  Variable sat : N -> val -> outcome bool.
  Variable inexact : iop -> num -> num -> num.
  Let A := assign sat inexact.

  Lemma check_type_cases : forall (Q : outcome unit -> Prop) s t v,
    Q (Ok tt) -> (forall c, Q (Err c)) -> (is_type sat t v = Panic -> Q Panic) ->
    (is_type sat t v = OutOfFuel -> Q OutOfFuel) -> Q (snd (check_type sat s t v)).
  Proof. intros Q s t v H1 H2 H3 H4. unfold check_type. destruct (is_type sat t v) as [[|]| | |]; cbn [snd]; auto. Qed.
  Lemma declare_cases : forall (Q : outcome unit -> Prop) s x t v,
    Q (Ok tt) -> (forall c, Q (Err c)) -> (is_type sat t v = Panic -> Q Panic) ->
    (is_type sat t v = OutOfFuel -> Q OutOfFuel) -> Q (snd (declare sat s x t v)).
  Proof.
    intros Q s x t v H1 H2 H3 H4. unfold declare. destruct (is_type sat t v) as [[|]| | |]; cbn [snd]; auto.
    destruct (lookup s x); cbn [snd]; auto.
  Qed.
  Lemma assign_var_cases : forall (Q : outcome unit -> Prop) s x v,
    Q (Ok tt) -> (forall c, Q (Err c)) -> (forall t, is_type sat t v = Panic -> Q Panic) ->
    (forall t, is_type sat t v = OutOfFuel -> Q OutOfFuel) -> Q (snd (assign_var sat s x v)).
  Proof.
    intros Q s x v H1 H2 H3 H4. unfold assign_var. destruct (lookup s x) as [[t w]|]; cbn [snd]; auto.
    destruct (is_type sat t v) as [[|]| | |] eqn:E; cbn [snd]; eauto.
  Qed.

  (* assign never panics *)
  Theorem assign_no_panic : (forall pid v, sat pid v <> Panic) ->
    forall fuel p rt v s, snd (A fuel p rt v s) <> Panic.
  Proof.
    intros Hsat. induction fuel as [|fuel IH]; intros p rt v s; [cbn; discriminate|].
    unfold A. cbn [assign].
    apply (assign_Q_step sat inexact (fun o => o <> Panic)) with (bound := pat_size p); try discriminate; try lia.
    - intros t v' s'. repeat split; [apply check_type_cases|intros x; apply declare_cases]; try discriminate;
        intros H; exfalso; eapply is_type_no_panic; eauto.
    - intros s' x v'. apply assign_var_cases; try discriminate;
        intros t H; exfalso; eapply is_type_no_panic; eauto.
    - intros q rt' v' s' _. apply IH.
  Qed.

  (* pat_size p units of fuel are always enough *)
  Theorem fuel_enough : (forall pid v, sat pid v <> OutOfFuel) ->
    forall fuel p rt v s, (pat_size p <= fuel)%nat -> snd (A fuel p rt v s) <> OutOfFuel.
  Proof.
    intros Hsat. induction fuel as [|fuel IH]; intros p rt v s Hf; [pose proof (pat_size_pos p); lia|].
    unfold A. cbn [assign].
    apply (assign_Q_step sat inexact (fun o => o <> OutOfFuel)) with (bound := fuel); try discriminate; try lia.
    - intros t v' s'. repeat split; [apply check_type_cases|intros x; apply declare_cases]; try discriminate;
        intros H; exfalso; eapply is_type_no_fuel; eauto.
    - intros s' x v'. apply assign_var_cases; try discriminate;
        intros t H; exfalso; eapply is_type_no_fuel; eauto.
    - intros q rt' v' s' Hq. apply IH. exact Hq.
  Qed.

  Theorem assign_top_total : (forall pid v, sat pid v <> Panic) -> (forall pid v, sat pid v <> OutOfFuel) ->
    forall p rt v s, snd (assign_top sat inexact p rt v s) <> Panic /\
                     snd (assign_top sat inexact p rt v s) <> OutOfFuel.
  Proof.
    intros H1 H2 p rt v s. unfold assign_top. split; [apply assign_no_panic; auto|apply fuel_enough; auto].
  Qed.
End Main.
