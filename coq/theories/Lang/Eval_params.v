(* Lang/Eval_params.v - parameter binding of a closure call (assign_all in src/eval.rs as
   transcribed by bind_params): plain parameters, a trailing default, one splat (property C05). *)
From Coq Require Import ZArith String List Bool Lia.
From NV Require Import Lang.Syntax Lang.Eval Lang.Eval_proofs.
Import ListNotations.
Open Scope string_scope.
Open Scope list_scope.

Definition plain (xs : list name) : list param := map (fun x => (KPlain, x, None)) xs.

Lemma firstn_len_app {A} : forall (a b : list A) n, List.length a = n -> firstn n (a ++ b) = a.
Proof. induction a as [|x a IH]; intros b [|n] H; cbn in *; try discriminate; [reflexivity|]. f_equal. apply IH. lia. Qed.

Lemma skipn_len_app {A} : forall (a b : list A) n, List.length a = n -> skipn n (a ++ b) = b.
Proof. induction a as [|x a IH]; intros b [|n] H; cbn in *; try discriminate; [reflexivity|]. apply IH. lia. Qed.

Lemma pname_plain : forall xs, map pname (plain xs) = xs.
Proof. intros. unfold plain. rewrite map_map. cbn. apply map_id. Qed.

Lemma plain_length : forall xs, List.length (plain xs) = List.length xs.
Proof. intros. unfold plain. apply map_length. Qed.

Lemma params_ok_app : forall a b, params_ok (a ++ b) = params_ok a && params_ok b.
Proof. intros. unfold params_ok. apply forallb_app. Qed.

Lemma params_ok_plain : forall xs, params_ok (plain xs) = true.
Proof. induction xs; cbn; auto. Qed.

Lemma scan_plain_app : forall xs rest i sp n,
  scan_params (plain xs ++ rest) i sp [] n = scan_params rest (i + List.length xs) sp [] n.
Proof.
  induction xs as [|x xs IH]; intros rest i sp n; cbn [plain map app scan_params List.length].
  - rewrite Nat.add_0_r. reflexivity.
  - fold (plain xs). rewrite IH. f_equal. lia.
Qed.

Section Params.
  Variable rec : rec_t.

  Lemma eval_exprs_nil : forall st fr, eval_exprs rec st fr [] = (st, Val []).
  Proof. reflexivity. Qed.

  (* only plain parameters: exactly as many arguments, declared left to right in the fresh frame *)
  Theorem bind_plain : forall st fr xs args,
    bind_params rec st fr (plain xs) args =
    if Nat.eqb (List.length xs) (List.length args) then declare_all st fr (combine xs args) else throw_err st.
  Proof.
    intros st fr xs args. unfold bind_params. rewrite params_ok_plain. cbn [negb].
    rewrite <- (app_nil_r (plain xs)) at 1. rewrite scan_plain_app. cbn [scan_params rev].
    rewrite plain_length. cbn [List.length]. rewrite Nat.add_0_r.
    destruct (Nat.eqb _ _); [|reflexivity].
    rewrite eval_exprs_nil. cbn [bindR]. rewrite pname_plain, app_nil_r. reflexivity.
  Qed.

  (* a trailing parameter with a default: with one argument missing, the default expression is
     evaluated in the call's fresh frame BEFORE any parameter is declared (so it sees the
     closure's scope, not the earlier parameters), and its value is bound; with all arguments
     given, the default is not evaluated at all *)
  Theorem bind_default : forall st fr xs y d args,
    (List.length args = List.length xs ->
       bind_params rec st fr (plain xs ++ [(KPlain, y, Some d)]) args =
       bindR (rec st fr d) (fun st1 dv => declare_all st1 fr (combine (xs ++ [y]) (args ++ [dv])))) /\
    (List.length args = S (List.length xs) ->
       bind_params rec st fr (plain xs ++ [(KPlain, y, Some d)]) args =
       declare_all st fr (combine (xs ++ [y]) args)) /\
    (List.length args < List.length xs \/ S (List.length xs) < List.length args ->
       bind_params rec st fr (plain xs ++ [(KPlain, y, Some d)]) args = throw_err st).
  Proof.
    intros st fr xs y d args.
    assert (Hok : params_ok (plain xs ++ [(KPlain, y, Some d)]) = true)
      by (rewrite params_ok_app, params_ok_plain; reflexivity).
    assert (Hn : map pname (plain xs ++ [(KPlain, y, Some d)]) = xs ++ [y])
      by (rewrite map_app, pname_plain; reflexivity).
    assert (Hl : List.length (plain xs ++ [(KPlain, y, Some d)]) = S (List.length xs))
      by (rewrite app_length, plain_length; cbn; lia).
    repeat split; intros H; unfold bind_params; rewrite Hok; cbn [negb];
      rewrite scan_plain_app; cbn [scan_params Nat.add]; rewrite Hl, Hn.
    - assert (L : Nat.leb (List.length args) (List.length xs) = true) by (apply Nat.leb_le; lia).
      rewrite L. cbn [scan_params rev app List.length].
      assert (Q : Nat.eqb (S (List.length xs)) (List.length args + 1) = true) by (apply Nat.eqb_eq; lia).
      rewrite Q. unfold eval_exprs. cbn [map eval_items].
      destruct (rec st fr d) as [st1 [dv|sg|]]; reflexivity.
    - assert (L : Nat.leb (List.length args) (List.length xs) = false) by (apply Nat.leb_gt; lia).
      rewrite L. cbn [scan_params rev List.length].
      assert (Q : Nat.eqb (S (List.length xs)) (List.length args + 0) = true) by (apply Nat.eqb_eq; lia).
      rewrite Q, eval_exprs_nil. cbn [bindR]. rewrite app_nil_r. reflexivity.
    - destruct (Nat.leb (List.length args) (List.length xs)) eqn:L; cbn [scan_params rev app List.length].
      + apply Nat.leb_le in L.
        assert (Q : Nat.eqb (S (List.length xs)) (List.length args + 1) = false) by (apply Nat.eqb_neq; lia).
        rewrite Q. reflexivity.
      + apply Nat.leb_gt in L.
        assert (Q : Nat.eqb (S (List.length xs)) (List.length args + 0) = false) by (apply Nat.eqb_neq; lia).
        rewrite Q. reflexivity.
  Qed.

  (* one splat among plain parameters: the parameters before it take the first arguments, those
     after it the last ones, the splat the (possibly empty) list in between; too few arguments
     for the plain parameters is an error *)
  Theorem bind_splat : forall st fr xs s ys a1 mid a2,
    List.length a1 = List.length xs -> List.length a2 = List.length ys ->
    bind_params rec st fr (plain xs ++ [(KSplat, s, None)] ++ plain ys) (a1 ++ mid ++ a2) =
    declare_all st fr (combine xs a1 ++ [(s, VList mid)] ++ combine ys a2).
  Proof.
    intros st fr xs s ys a1 mid a2 H1 H2. unfold bind_params.
    rewrite !params_ok_app, !params_ok_plain. cbn [params_ok forallb andb negb].
    rewrite scan_plain_app. cbn [app scan_params Nat.add].
    rewrite <- (app_nil_r (plain ys)). rewrite scan_plain_app. cbn [scan_params rev].
    rewrite eval_exprs_nil. cbn [bindR]. rewrite !app_nil_r.
    set (ps := plain xs ++ (KSplat, s, None) :: plain ys).
    assert (Hl : List.length ps = List.length xs + 1 + List.length ys)
      by (subst ps; rewrite app_length; cbn [List.length]; rewrite !plain_length; lia).
    assert (Ha : List.length (a1 ++ mid ++ a2) = List.length xs + List.length mid + List.length ys)
      by (rewrite !app_length; lia).
    assert (L : Nat.ltb (List.length (a1 ++ mid ++ a2) + 1) (List.length ps) = false)
      by (apply Nat.ltb_ge; lia).
    rewrite L.
    replace (List.length ps - List.length xs - 1) with (List.length ys) by lia.
    replace (List.length (a1 ++ mid ++ a2) - List.length ys) with (List.length (a1 ++ mid))
      by (rewrite Ha, app_length; lia).
    rewrite (app_assoc a1 mid a2).
    rewrite (firstn_len_app (a1 ++ mid) a2) by reflexivity.
    rewrite (skipn_len_app (a1 ++ mid) a2) by reflexivity.
    rewrite (firstn_len_app a1 mid) by assumption.
    rewrite (skipn_len_app a1 mid) by assumption.
    subst ps.
    rewrite (firstn_len_app (plain xs)) by apply plain_length.
    rewrite (skipn_len_app (plain xs)) by apply plain_length.
    cbn [firstn map pname fst snd combine].
    change (S (List.length xs)) with (1 + List.length xs).
    replace (skipn (1 + List.length xs) (plain xs ++ (KSplat, s, None) :: plain ys)) with (plain ys).
    2:{ change (plain xs ++ (KSplat, s, None) :: plain ys) with (plain xs ++ [(KSplat, s, None)] ++ plain ys).
        rewrite app_assoc. symmetry. apply skipn_len_app. rewrite app_length, plain_length. cbn. lia. }
    rewrite !pname_plain. reflexivity.
  Qed.

  Theorem bind_splat_too_few : forall st fr xs s ys args,
    List.length args < List.length xs + List.length ys ->
    bind_params rec st fr (plain xs ++ [(KSplat, s, None)] ++ plain ys) args = throw_err st.
  Proof.
    intros st fr xs s ys args H. unfold bind_params.
    rewrite !params_ok_app, !params_ok_plain. cbn [params_ok forallb andb negb].
    rewrite scan_plain_app. cbn [app scan_params Nat.add].
    rewrite <- (app_nil_r (plain ys)). rewrite scan_plain_app. cbn [scan_params rev].
    rewrite eval_exprs_nil. cbn [bindR]. rewrite !app_nil_r.
    assert (L : Nat.ltb (List.length args + 1) (List.length (plain xs ++ (KSplat, s, None) :: plain ys)) = true).
    { apply Nat.ltb_lt. rewrite app_length. cbn [List.length]. rewrite !plain_length. lia. }
    rewrite L. reflexivity.
  Qed.
End Params.
