(* Proofs about Lang/Contain.v: all by induction over fuel / programs, unbounded.
   Every statement is for an ARBITRARY meaning `apply_op` of the builtin operators. *)
From Coq Require Import ZArith List Bool Arith Lia.
From NV Require Import Common.Outcome Lang.Contain.
Import ListNotations.

Section Proofs.
Variable apply_op : binop -> val -> val -> outcome val.
Notation exec := (Contain.exec apply_op).
Notation eval := (Contain.eval apply_op).
Notation eval_list := (Contain.eval_list apply_op).

Ltac dlift :=
  match goal with
  | |- context [lift _ ?o _] => let E := fresh "E" in destruct o eqn:E; cbn [lift]
  | H : context [lift _ ?o _] |- _ => let E := fresh "E" in destruct o eqn:E; cbn [lift] in H
  end.

(* ------------------------------------------------------------------ fuel monotonicity *)
Lemma exec_mono_S : forall f st s, exec f st s <> RFuel -> exec (S f) st s = exec f st s.
Proof.
  induction f as [|f IH]; intros st s H.
  - cbn in H. congruence.
  - change (step apply_op (exec (S f)) st s = step apply_op (exec f) st s).
    change (step apply_op (exec f) st s <> RFuel) in H.
    destruct st; unfold step in H |- *; try reflexivity.
    + (* SSeq *)
      destruct (exec f st1 s) eqn:E1.
      * rewrite (IH st1 s) by (rewrite E1; discriminate). rewrite E1. apply IH. exact H.
      * rewrite (IH st1 s) by (rewrite E1; discriminate). rewrite E1. reflexivity.
      * rewrite (IH st1 s) by (rewrite E1; discriminate). rewrite E1. reflexivity.
      * congruence.
    + (* SIf *)
      destruct (eval s c); cbn [lift] in *; try reflexivity.
      destruct (truthy a); apply IH; exact H.
    + (* SWhile *)
      destruct (eval s c); cbn [lift] in *; try reflexivity.
      destruct (truthy a); try reflexivity.
      destruct (exec f st s) eqn:E1.
      * rewrite (IH st s) by (rewrite E1; discriminate). rewrite E1. apply IH. exact H.
      * rewrite (IH st s) by (rewrite E1; discriminate). rewrite E1.
        destruct g as [v|n|n|v]; try reflexivity.
        destruct n; try reflexivity. apply IH. exact H.
      * rewrite (IH st s) by (rewrite E1; discriminate). rewrite E1. reflexivity.
      * congruence.
    + (* STry *)
      destruct (exec f st1 s) eqn:E1.
      * rewrite (IH st1 s) by (rewrite E1; discriminate). rewrite E1. reflexivity.
      * rewrite (IH st1 s) by (rewrite E1; discriminate). rewrite E1.
        destruct g as [v|n|n|v]; try reflexivity.
        destruct (exec f st2 (upd s0 c v)) eqn:E2.
        -- rewrite (IH st2 _) by (rewrite E2; discriminate). rewrite E2. reflexivity.
        -- rewrite (IH st2 _) by (rewrite E2; discriminate). rewrite E2. reflexivity.
        -- rewrite (IH st2 _) by (rewrite E2; discriminate). rewrite E2. reflexivity.
        -- congruence.
      * rewrite (IH st1 s) by (rewrite E1; discriminate). rewrite E1. reflexivity.
      * congruence.
Qed.

Lemma exec_mono : forall f f' st s, (f <= f')%nat -> exec f st s <> RFuel -> exec f' st s = exec f st s.
Proof.
  intros f f' st s Hle H. induction Hle as [|m Hle IHm].
  - reflexivity.
  - rewrite exec_mono_S; rewrite IHm; auto.
Qed.

(* fuel-free reading: the statement runs to the result r *)
Definition runs (st : stmt) (s : store) (r : res) : Prop :=
  exists f, exec f st s = r /\ r <> RFuel.

Lemma runs_deterministic : forall st s r1 r2, runs st s r1 -> runs st s r2 -> r1 = r2.
Proof.
  intros st s r1 r2 [f1 [H1 N1]] [f2 [H2 N2]].
  destruct (Nat.le_ge_cases f1 f2) as [L|L].
  - rewrite <- H1, <- H2. symmetry. apply exec_mono; [exact L | rewrite H1; exact N1].
  - rewrite <- H1, <- H2. apply exec_mono; [exact L | rewrite H2; exact N2].
Qed.

Lemma runs_at : forall st s r f, runs st s r -> exec f st s <> RFuel -> exec f st s = r.
Proof.
  intros st s r f [f1 [H1 N1]] Hf.
  destruct (Nat.le_ge_cases f1 f) as [L|L].
  - rewrite (exec_mono f1 f st s L); [exact H1 | rewrite H1; exact N1].
  - rewrite <- H1. symmetry. apply exec_mono; assumption.
Qed.

(* ------------------------------------------------------------------ try/catch *)
(* leaving the catch clause: the child scope of the catch variable is dropped *)
Definition scope_out (c : var) (old : option val) (r : res) : res :=
  match r with
  | Done s => Done (restore s c old)
  | Raise s g => Raise (restore s c old) g
  | r => r
  end.

Definition is_throw (r : res) : bool :=
  match r with Raise _ (GThrow _) => true | _ => false end.

(* the one-step equations of Expr::Try *)
Lemma try_catches_step : forall f body c h s s1 v,
  exec f body s = Raise s1 (GThrow v) ->
  exec (S f) (STry body c h) s = scope_out c (s1 c) (exec f h (upd s1 c v)).
Proof.
  intros. cbn [Contain.exec]; unfold step. rewrite H. destruct (exec f h (upd s1 c v)); reflexivity.
Qed.

Lemma try_passes_step : forall f body c h s,
  is_throw (exec f body s) = false ->
  exec (S f) (STry body c h) s = exec f body s.
Proof.
  intros. cbn [Contain.exec]; unfold step. destruct (exec f body s) as [s1|s1 g| |]; try reflexivity.
  destruct g; try reflexivity. cbn in H. discriminate.
Qed.

(* whatever raises Throw inside try reaches the catch clause, which runs with the thrown value bound *)
Theorem try_contains_throw : forall body c h s s1 v r,
  runs body s (Raise s1 (GThrow v)) ->
  runs h (upd s1 c v) r ->
  runs (STry body c h) s (scope_out c (s1 c) r).
Proof.
  intros body c h s s1 v r [f1 [H1 N1]] [f2 [H2 N2]].
  exists (S (Nat.max f1 f2)). split.
  - rewrite (try_catches_step _ body c h s s1 v).
    + rewrite (exec_mono f2 (Nat.max f1 f2)); [rewrite H2; reflexivity | lia | rewrite H2; exact N2].
    + rewrite (exec_mono f1 (Nat.max f1 f2)); [exact H1 | lia | rewrite H1; discriminate].
  - destruct r; cbn; try discriminate. exact N2.
Qed.

(* Ok, Break, Continue, Return (and a panic) are not intercepted *)
Theorem try_passes_signals : forall body c h s r,
  runs body s r -> is_throw r = false -> runs (STry body c h) s r.
Proof.
  intros body c h s r [f [H N]] Hn. exists (S f). split; [|exact N].
  rewrite try_passes_step; rewrite H; auto.
Qed.

(* conversely: a Throw that leaves a try statement was raised by its catch clause *)
Theorem try_throw_comes_from_handler : forall body c h s s' v',
  runs (STry body c h) s (Raise s' (GThrow v')) ->
  exists s1 v s2, runs body s (Raise s1 (GThrow v)) /\
                  runs h (upd s1 c v) (Raise s2 (GThrow v')) /\ s' = restore s2 c (s1 c).
Proof.
  intros body c h s s' v' [f [H N]]. destruct f as [|f]; [cbn in H; discriminate|].
  cbn [Contain.exec] in H; unfold step in H.
  destruct (exec f body s) as [s1|s1 g| |] eqn:E1; try discriminate.
  destruct g as [v|n|n|v]; try discriminate.
  destruct (exec f h (upd s1 c v)) as [s2|s2 g2| |] eqn:E2; try discriminate.
  inversion H; subst. exists s1, v, s2. repeat split.
  - exists f. split; [exact E1|discriminate].
  - exists f. split; [exact E2|discriminate].
Qed.

Lemma quiet_exec : forall h f s, quiet h = true -> exec f h s = RFuel \/ exists s', exec f h s = Done s'.
Proof.
  induction h; intros f s Q; cbn in Q; try discriminate.
  - destruct f; [left; reflexivity | right; eexists; reflexivity].
  - apply andb_prop in Q. destruct Q as [Q1 Q2].
    destruct f; [left; reflexivity|]. cbn [Contain.exec]; unfold step.
    destruct (IHh1 f s Q1) as [E|[s1 E]]; rewrite E; [left; reflexivity|].
    apply IHh2. exact Q2.
Qed.

(* with a catch clause that cannot raise, no Throw ever leaves the try statement: the failure is contained *)
Theorem try_quiet_handler_contains : forall body c h s r,
  quiet h = true -> runs (STry body c h) s r -> is_throw r = false.
Proof.
  intros body c h s r Q R. destruct r as [s'|s' g| |]; try reflexivity.
  destruct g as [v'|n|n|v']; try reflexivity.
  destruct (try_throw_comes_from_handler _ _ _ _ _ _ R) as [s1 [v [s2 [_ [[f [H _]] _]]]]].
  destruct (quiet_exec h f (upd s1 c v) Q) as [E|[s3 E]]; rewrite E in H; discriminate.
Qed.

(* ------------------------------------------------------------------ frames *)
Definition res_store (r : res) : option store :=
  match r with Done s => Some s | Raise s _ => Some s | _ => None end.

Lemma lift_frame : forall {A} (s : store) (o : outcome A) (k : A -> res) (P : store -> Prop),
  P s -> (forall a s', res_store (k a) = Some s' -> P s') ->
  forall s', res_store (lift s o k) = Some s' -> P s'.
Proof.
  intros A s o k P Ps Hk s' H. destruct o; cbn in H.
  - eapply Hk; eauto.
  - inversion H; subst; exact Ps.
  - discriminate.
  - discriminate.
Qed.

(* whatever a statement does - completes, raises, breaks - the variables it does not name are untouched *)
Lemma exec_frame : forall f st s s',
  res_store (exec f st s) = Some s' -> forall y, ~ In y (names st) -> s' y = s y.
Proof.
  induction f as [|f IH]; intros st s s' H y Hy.
  - cbn in H. discriminate.
  - cbn [Contain.exec] in H. destruct st; unfold step in H; cbn [names] in Hy.
    + (* SSkip *) inversion H; reflexivity.
    + (* SExpr *)
      revert s' H. apply lift_frame; [reflexivity|]. intros a s' H. inversion H; reflexivity.
    + (* SAssign *)
      revert s' H.
      apply lift_frame; [reflexivity|]. intros idxs.
      apply lift_frame; [reflexivity|]. intros v.
      apply lift_frame; [reflexivity|]. intros old.
      apply lift_frame; [reflexivity|]. intros new s' H. inversion H; subst.
      unfold upd. destruct (Nat.eqb y x) eqn:Ex; [|reflexivity].
      apply Nat.eqb_eq in Ex. subst. exfalso. apply Hy. left. reflexivity.
    + (* SOpAssign *)
      assert (Hupd : forall w, upd s x w y = s y).
      { intros w. unfold upd. destruct (Nat.eqb y x) eqn:Ex; [|reflexivity].
        apply Nat.eqb_eq in Ex. subst. exfalso. apply Hy. left. reflexivity. }
      revert s' H.
      apply lift_frame; [reflexivity|]. intros idxs.
      apply lift_frame; [reflexivity|]. intros old.
      apply lift_frame; [reflexivity|]. intros cur.
      apply lift_frame; [reflexivity|]. intros rhs.
      apply lift_frame; [reflexivity|]. intros dropped.
      apply lift_frame; [apply Hupd|]. intros r.
      apply lift_frame; [apply Hupd|]. intros new s' H. inversion H; subst.
      unfold upd at 1. destruct (Nat.eqb y x) eqn:Ex; [|apply Hupd].
      apply Nat.eqb_eq in Ex. subst. exfalso. apply Hy. left. reflexivity.
    + (* SSeq *)
      assert (Hy1 : ~ In y (names st1)) by (intro; apply Hy; apply in_or_app; auto).
      assert (Hy2 : ~ In y (names st2)) by (intro; apply Hy; apply in_or_app; auto).
      destruct (exec f st1 s) as [s1|s1 g| |] eqn:E1; try discriminate.
      * rewrite (IH st2 s1 s' H y Hy2). apply (IH st1 s s1); [rewrite E1; reflexivity|exact Hy1].
      * inversion H; subst. apply (IH st1 s s'); [rewrite E1; reflexivity|exact Hy1].
    + (* SIf *)
      assert (Hy1 : ~ In y (names st1)) by (intro; apply Hy; apply in_or_app; auto).
      assert (Hy2 : ~ In y (names st2)) by (intro; apply Hy; apply in_or_app; auto).
      revert s' H. apply lift_frame; [reflexivity|]. intros v s' H.
      destruct (truthy v); eapply IH; eauto.
    + (* SWhile *)
      revert s' H. apply lift_frame; [reflexivity|]. intros v s' H.
      destruct (truthy v); [|inversion H; reflexivity].
      destruct (exec f st s) as [s1|s1 g| |] eqn:E1; try discriminate.
      * rewrite (IH (SWhile c st) s1 s' H y Hy). apply (IH st s s1); [rewrite E1; reflexivity|exact Hy].
      * assert (F1 : s1 y = s y) by (apply (IH st s s1); [rewrite E1; reflexivity|exact Hy]).
        destruct g as [w|n|n|w].
        -- inversion H; subst; exact F1.
        -- destruct n; inversion H; subst; exact F1.
        -- destruct n.
           ++ rewrite (IH (SWhile c st) s1 s' H y Hy). exact F1.
           ++ inversion H; subst; exact F1.
        -- inversion H; subst; exact F1.
    + (* STry *)
      assert (Hc : y <> c) by (intro; apply Hy; left; auto).
      assert (Hy1 : ~ In y (names st1)) by (intro; apply Hy; right; apply in_or_app; auto).
      assert (Hy2 : ~ In y (names st2)) by (intro; apply Hy; right; apply in_or_app; auto).
      destruct (exec f st1 s) as [s1|s1 g| |] eqn:E1; try discriminate.
      * inversion H; subst. apply (IH st1 s s'); [rewrite E1; reflexivity|exact Hy1].
      * assert (F1 : s1 y = s y) by (apply (IH st1 s s1); [rewrite E1; reflexivity|exact Hy1]).
        destruct g as [w|n|n|w]; try (inversion H; subst; exact F1).
        assert (F2 : forall s2, res_store (exec f st2 (upd s1 c w)) = Some s2 -> restore s2 c (s1 c) y = s y).
        { intros s2 H2. unfold restore. apply Nat.eqb_neq in Hc. rewrite Hc.
          rewrite (IH st2 _ s2 H2 y Hy2). unfold upd. rewrite Hc. exact F1. }
        destruct (exec f st2 (upd s1 c w)) as [s2|s2 g2| |] eqn:E2; try discriminate;
          inversion H; subst; apply F2; reflexivity.
    + (* SThrow *)
      revert s' H. apply lift_frame; [reflexivity|]. intros a s' H. inversion H; reflexivity.
    + inversion H; reflexivity.
    + inversion H; reflexivity.
    + revert s' H. apply lift_frame; [reflexivity|]. intros a s' H. inversion H; reflexivity.
Qed.

(* after a statement raises, every variable NOT named by that statement has its previous value *)
Theorem failed_statement_frames : forall st s s' g,
  runs st s (Raise s' g) -> forall y, ~ In y (names st) -> s' y = s y.
Proof.
  intros st s s' g [f [H _]] y Hy. apply (exec_frame f st s s'); [rewrite H; reflexivity|exact Hy].
Qed.

Theorem completed_statement_frames : forall st s s',
  runs st s (Done s') -> forall y, ~ In y (names st) -> s' y = s y.
Proof.
  intros st s s' [f [H _]] y Hy. apply (exec_frame f st s s'); [rewrite H; reflexivity|exact Hy].
Qed.

(* a failed plain or indexed assignment changes NOTHING, not even the variable it names *)
Theorem failed_assign_no_effect : forall x path e s s' g,
  runs (SAssign x path e) s (Raise s' g) -> s' = s /\ exists c, g = GThrow (VErr c).
Proof.
  intros x path e s s' g [f [H _]]. destruct f as [|f]; [cbn in H; discriminate|].
  cbn [Contain.exec] in H; unfold step in H.
  repeat (dlift; try discriminate; try (inversion H; subst; split; [reflexivity|eexists; reflexivity])).
Qed.

(* a failed op-assignment either changes nothing, or (the operator itself or the assign-back failed)
   leaves exactly the named slot null: the store differs from the old one only at x, where the old
   value has null written at the path *)
Theorem failed_opassign_effect : forall x path o e s s' g,
  runs (SOpAssign x path o e) s (Raise s' g) ->
  (exists c, g = GThrow (VErr c)) /\
  (s' = s \/
   exists idxs old dropped, eval_list s path = Ok idxs /\ s x = Some old /\
     set_path old idxs VNull = Ok dropped /\ s' = upd s x dropped).
Proof.
  intros x path o e s s' g [f [H _]]. destruct f as [|f]; [cbn in H; discriminate|].
  cbn [Contain.exec] in H; unfold step in H.
  dlift; try discriminate; [|inversion H; subst; split; [eexists; reflexivity|left; reflexivity]].
  dlift; try discriminate; [|inversion H; subst; split; [eexists; reflexivity|left; reflexivity]].
  dlift; try discriminate; [|inversion H; subst; split; [eexists; reflexivity|left; reflexivity]].
  dlift; try discriminate; [|inversion H; subst; split; [eexists; reflexivity|left; reflexivity]].
  dlift; try discriminate; [|inversion H; subst; split; [eexists; reflexivity|left; reflexivity]].
  assert (Hx : s x = Some a0).
  { unfold lookup in E0. destruct (s x); inversion E0; reflexivity. }
  dlift; try discriminate.
  - dlift; try discriminate. inversion H; subst. split; [eexists; reflexivity|].
    right. exists a, a0, a3. repeat split; assumption.
  - inversion H; subst. split; [eexists; reflexivity|].
    right. exists a, a0, a3. repeat split; assumption.
Qed.

(* the documented special case: x o= e on a plain variable whose operator call fails leaves x = null *)
Corollary failed_plain_opassign_null : forall x o e s s' g,
  runs (SOpAssign x [] o e) s (Raise s' g) ->
  s' = s \/ (s' x = Some VNull /\ forall y, y <> x -> s' y = s y).
Proof.
  intros x o e s s' g R. destruct (failed_opassign_effect _ _ _ _ _ _ _ R) as [_ [E|[idxs [old [dropped [E1 [E2 [E3 E4]]]]]]]].
  - left; exact E.
  - right. cbn in E1. inversion E1; subst idxs. cbn in E3. inversion E3; subst dropped. subst s'.
    split.
    + unfold upd. rewrite Nat.eqb_refl. reflexivity.
    + intros y Hy. unfold upd. apply Nat.eqb_neq in Hy. rewrite Hy. reflexivity.
Qed.

(* ------------------------------------------------------------------ usable after a caught error *)
(* after the catch clause has run, evaluation continues with the next statement in the store the catch
   clause left (minus the catch variable's scope): the rest of the program sees an ordinary store *)
Theorem usable_after_catch : forall body c h rest s s1 v s2 r,
  runs body s (Raise s1 (GThrow v)) ->
  runs h (upd s1 c v) (Done s2) ->
  runs rest (restore s2 c (s1 c)) r ->
  runs (SSeq (STry body c h) rest) s r.
Proof.
  intros body c h rest s s1 v s2 r Rb Rh [f3 [H3 N3]].
  destruct (try_contains_throw body c h s s1 v (Done s2) Rb Rh) as [f [H N]]. cbn [scope_out] in H.
  exists (S (Nat.max f f3)). split; [|exact N3].
  cbn [Contain.exec]; unfold step.
  rewrite (exec_mono f (Nat.max f f3)); [|lia|rewrite H; discriminate]. rewrite H.
  rewrite (exec_mono f3 (Nat.max f f3)); [exact H3|lia|rewrite H3; exact N3].
Qed.

(* and the variables neither the failing body nor the catch clause names are exactly as before the try *)
Theorem untouched_after_catch : forall body c h s s1 v s2,
  runs body s (Raise s1 (GThrow v)) ->
  runs h (upd s1 c v) (Done s2) ->
  forall y, ~ In y (names (STry body c h)) -> restore s2 c (s1 c) y = s y.
Proof.
  intros body c h s s1 v s2 Rb Rh y Hy.
  assert (R : runs (STry body c h) s (Done (restore s2 c (s1 c)))).
  { apply (try_contains_throw body c h s s1 v (Done s2)); assumption. }
  apply (completed_statement_frames _ _ _ R y Hy).
Qed.

(* ------------------------------------------------------------------ loops and signals *)
(* a while loop consumes Break 0 / Continue 0: what leaves it is one level lower *)
Theorem while_signal_levels : forall c body s s' n,
  (runs (SWhile c body) s (Raise s' (GBreak n)) \/ runs (SWhile c body) s (Raise s' (GContinue n))) ->
  exists s0 s1, runs body s0 (Raise s1 (GBreak (S n))) \/ runs body s0 (Raise s1 (GContinue (S n))).
Proof.
  intros c body s s' n H.
  assert (G : forall f s r, exec f (SWhile c body) s = r ->
              (r = Raise s' (GBreak n) \/ r = Raise s' (GContinue n)) ->
              exists s0 s1, runs body s0 (Raise s1 (GBreak (S n))) \/ runs body s0 (Raise s1 (GContinue (S n)))).
  { induction f as [|f IH]; intros s0 r Hr Hor.
    - cbn in Hr. subst. destruct Hor; discriminate.
    - cbn [Contain.exec] in Hr; unfold step in Hr.
      destruct (eval s0 c) eqn:Ec; cbn [lift] in Hr; try (subst; destruct Hor; discriminate).
      destruct (truthy a); [|subst; destruct Hor; discriminate].
      destruct (exec f body s0) as [s1|s1 g| |] eqn:E1; try (subst; destruct Hor; discriminate).
      + eapply IH; eauto.
      + destruct g as [w|m|m|w]; try (subst; destruct Hor; discriminate).
        * destruct m; [subst; destruct Hor; discriminate|].
          subst. exists s0, s1. destruct Hor as [Hor|Hor]; inversion Hor; subst.
          left. exists f. split; [exact E1|discriminate].
        * destruct m; [eapply IH; eauto|].
          subst. exists s0, s1. destruct Hor as [Hor|Hor]; inversion Hor; subst.
          right. exists f. split; [exact E1|discriminate]. }
  destruct H as [[f [H _]]|[f [H _]]]; eapply G; eauto.
Qed.

(* ------------------------------------------------------------------ no panic *)
Lemma index_val_no_panic : forall v i, index_val v i <> Panic /\ index_val v i <> OutOfFuel.
Proof.
  intros v i. unfold index_val. destruct v; try (split; discriminate).
  destruct i; try (split; discriminate).
  destruct (norm_index (zlen l) z); try (split; discriminate).
  destruct (nth_error l n); split; discriminate.
Qed.

Lemma get_path_no_panic : forall idxs v, get_path v idxs <> Panic /\ get_path v idxs <> OutOfFuel.
Proof.
  induction idxs as [|i r IH]; intros v; cbn [get_path].
  - split; discriminate.
  - destruct (index_val_no_panic v i) as [P1 P2].
    destruct (index_val v i); cbn [bind]; try (split; congruence). apply IH.
Qed.

Lemma set_path_no_panic : forall idxs v nv, set_path v idxs nv <> Panic /\ set_path v idxs nv <> OutOfFuel.
Proof.
  induction idxs as [|i r IH]; intros v nv; cbn [set_path].
  - split; discriminate.
  - destruct v; try (split; discriminate). destruct i; try (split; discriminate).
    destruct (norm_index (zlen l) z); try (split; discriminate).
    destruct (nth_error l n); try (split; discriminate).
    destruct (IH v nv) as [P1 P2]. destruct (set_path v r nv); cbn [bind]; split; congruence.
Qed.

Hypothesis op_no_panic : forall o a b, apply_op o a b <> Panic /\ apply_op o a b <> OutOfFuel.

Lemma eval_no_panic : forall s e, eval s e <> Panic /\ eval s e <> OutOfFuel.
Proof.
  induction e; cbn [Contain.eval].
  - split; discriminate.
  - destruct (s x); split; discriminate.
  - destruct IHe1 as [A1 A2]. destruct (eval s e1); cbn [bind]; try (split; congruence).
    destruct IHe2 as [B1 B2]. destruct (eval s e2); cbn [bind]; try (split; congruence).
    apply op_no_panic.
  - destruct IHe1 as [A1 A2]. destruct (eval s e1); cbn [bind]; try (split; congruence).
    destruct IHe2 as [B1 B2]. destruct (eval s e2); cbn [bind]; try (split; congruence).
    apply index_val_no_panic.
Qed.

Lemma eval_list_no_panic : forall s es, eval_list s es <> Panic /\ eval_list s es <> OutOfFuel.
Proof.
  induction es as [|e r IH]; cbn [Contain.eval_list].
  - split; discriminate.
  - destruct (eval_no_panic s e) as [A1 A2]. destruct (eval s e); cbn [bind]; try (split; congruence).
    destruct IH as [B1 B2]. destruct (eval_list s r); cbn [bind]; split; congruence.
Qed.

Lemma lift_no_panic : forall {A} s (o : outcome A) k,
  o <> Panic -> (forall a, k a <> RPanic) -> lift s o k <> RPanic.
Proof. intros A s o k Ho Hk. destruct o; cbn; try discriminate; auto. Qed.

(* if no builtin panics, no program panics: failures are values of NErr all the way up *)
Theorem program_no_panic : forall f st s, exec f st s <> RPanic.
Proof.
  induction f as [|f IH]; intros st s; [cbn; discriminate|].
  cbn [Contain.exec]. destruct st; unfold step; try discriminate.
  - apply lift_no_panic; [apply eval_no_panic|discriminate].
  - apply lift_no_panic; [apply eval_list_no_panic|]. intros idxs.
    apply lift_no_panic; [apply eval_no_panic|]. intros v.
    apply lift_no_panic; [unfold lookup; destruct (s x); discriminate|]. intros old.
    apply lift_no_panic; [apply set_path_no_panic|]. discriminate.
  - apply lift_no_panic; [apply eval_list_no_panic|]. intros idxs.
    apply lift_no_panic; [unfold lookup; destruct (s x); discriminate|]. intros old.
    apply lift_no_panic; [apply get_path_no_panic|]. intros cur.
    apply lift_no_panic; [apply eval_no_panic|]. intros rhs.
    apply lift_no_panic; [apply set_path_no_panic|]. intros dropped.
    apply lift_no_panic; [apply op_no_panic|]. intros r.
    apply lift_no_panic; [apply set_path_no_panic|]. discriminate.
  - specialize (IH st1 s) as I1. destruct (exec f st1 s); try discriminate; [apply IH|congruence].
  - apply lift_no_panic; [apply eval_no_panic|]. intros v. destruct (truthy v); apply IH.
  - apply lift_no_panic; [apply eval_no_panic|]. intros v. destruct (truthy v); [|discriminate].
    specialize (IH st s) as I1. destruct (exec f st s) as [s1|s1 g| |]; try discriminate; [apply IH| |congruence].
    destruct g as [w|n|n|w]; try discriminate; destruct n; try discriminate. apply IH.
  - specialize (IH st1 s) as I1. destruct (exec f st1 s) as [s1|s1 g| |]; try discriminate; [|congruence].
    destruct g as [w|n|n|w]; try discriminate.
    specialize (IH st2 (upd s1 c w)) as I2. destruct (exec f st2 (upd s1 c w)); try discriminate. congruence.
  - apply lift_no_panic; [apply eval_no_panic|]. discriminate.
  - apply lift_no_panic; [apply eval_no_panic|]. discriminate.
Qed.

End Proofs.

(* the instance used by the correspondence run satisfies the hypothesis *)
Lemma std_op_no_panic : forall o a b, std_op o a b <> Panic /\ std_op o a b <> OutOfFuel.
Proof.
  intros o a b. destruct o, a, b; cbn; try (split; discriminate);
  try (destruct (z0 =? 0)%Z; split; discriminate).
Qed.
