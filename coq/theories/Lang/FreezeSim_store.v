(* Lang/FreezeSim_store.v - facts about the store of Lang/FreezeLang.v used by the preservation
   proof: lists, frames, resolve (fuel-free characterisation, dependence on the ancestor chain only),
   and the two evolution orders ext_at / kext of Lang/FreezeRel.v for the primitive updates
   (push_frame, declare, assign, print). *)
From Coq Require Import ZArith String List Bool Arith Lia.
From NV Require Import Lang.FreezeLang Lang.Freeze Lang.FreezeSpec Lang.FreezeRel.
Import ListNotations.
Open Scope string_scope.
Open Scope list_scope.

(* ---------------------------------------------------------------- lists *)
Lemma nth_error_set_nth_eq {A} : forall (l : list A) n a b,
  nth_error l n = Some b -> nth_error (set_nth n a l) n = Some a.
Proof. induction l as [|c l IH]; intros [|n] a b H; cbn in *; try discriminate; eauto. Qed.

Lemma nth_error_set_nth_neq {A} : forall (l : list A) n m a,
  n <> m -> nth_error (set_nth n a l) m = nth_error l m.
Proof.
  induction l as [|c l IH]; intros [|n] [|m] a H; cbn; try reflexivity; try congruence.
  apply IH. congruence.
Qed.

Lemma length_set_nth {A} : forall (l : list A) n a, length (set_nth n a l) = length l.
Proof. induction l as [|c l IH]; intros [|n] a; cbn; auto. Qed.

Lemma nth_error_app_length {A} : forall (l : list A) a, nth_error (l ++ [a]) (length l) = Some a.
Proof. intros. rewrite nth_error_app2 by lia. rewrite Nat.sub_diag. reflexivity. Qed.

Lemma nth_error_app_old {A} : forall (l : list A) a g x, nth_error l g = Some x -> nth_error (l ++ [a]) g = Some x.
Proof. intros. rewrite nth_error_app1; auto. apply nth_error_Some. congruence. Qed.

Lemma mem_spec : forall x B, mem x B = true <-> In x B.
Proof.
  intros x B. unfold mem. rewrite existsb_exists. split.
  - intros [y [Hy E]]. apply String.eqb_eq in E. subst. assumption.
  - intros H. exists x. split; [assumption|apply String.eqb_refl].
Qed.

Lemma mem_false : forall x B, mem x B = false <-> ~ In x B.
Proof.
  intros. rewrite <- mem_spec. destruct (mem x B); split; intros; congruence.
Qed.

(* ---------------------------------------------------------------- frames *)
Lemma in_dom_spec : forall x fr, in_dom x fr = true <-> In x (names fr).
Proof. intros x fr. unfold in_dom. apply (mem_spec x (names fr)). Qed.

Lemma names_assoc_set : forall x v l, map fst (assoc_set x v l) = map fst l.
Proof.
  induction l as [|[y w] l IH]; cbn; [reflexivity|].
  destruct (String.eqb x y); cbn; congruence.
Qed.

Lemma assoc_set_other : forall x y v l, x <> y -> assoc y (assoc_set x v l) = assoc y l.
Proof.
  induction l as [|[z w] l IH]; cbn; [reflexivity|]. intros Hxy.
  destruct (String.eqb x z) eqn:E; cbn.
  - apply String.eqb_eq in E. subst z.
    assert (N : String.eqb y x = false) by (apply String.eqb_neq; congruence). rewrite N. reflexivity.
  - rewrite IH by assumption. reflexivity.
Qed.

Lemma in_dom_assoc_set : forall x y v fr,
  in_dom y (mkFrame (parent fr) (assoc_set x v (vars fr)) (budget fr)) = in_dom y fr.
Proof. intros. unfold in_dom, names. cbn. rewrite names_assoc_set. reflexivity. Qed.

Lemma in_dom_cons : forall x y v fr,
  in_dom y (mkFrame (parent fr) ((x, v) :: vars fr) (budget fr)) = (String.eqb y x || in_dom y fr).
Proof. intros. reflexivity. Qed.

(* ---------------------------------------------------------------- resolve without fuel *)
Inductive nearest (fs : list frame) (x : name) : nat -> nat -> Prop :=
| nearest_here f fr : nth_error fs f = Some fr -> in_dom x fr = true -> nearest fs x f f
| nearest_up f fr p g :
    nth_error fs f = Some fr -> in_dom x fr = false -> parent fr = Some p -> p < f ->
    nearest fs x p g -> nearest fs x f g.

Lemma resolve_aux_nearest : forall fs x d f g, resolve_aux d fs f x = Some g -> nearest fs x f g.
Proof.
  intros fs x. induction d as [|d IH]; intros f g; cbn [resolve_aux]; [discriminate|].
  destruct (nth_error fs f) as [fr|] eqn:E; [|discriminate].
  destruct (in_dom x fr) eqn:D.
  - intros H; inversion H; subst. eapply nearest_here; eassumption.
  - destruct (parent fr) as [p|] eqn:Ep; [|discriminate].
    destruct (Nat.ltb p f) eqn:L; [|discriminate]. apply Nat.ltb_lt in L.
    intros H. eapply nearest_up; eauto.
Qed.

Lemma nearest_resolve_aux : forall fs x f g, nearest fs x f g -> forall d, f < d -> resolve_aux d fs f x = Some g.
Proof.
  intros fs x f g H. induction H as [f fr E D | f fr p g E D Ep L H IH]; intros d Hd;
    (destruct d as [|d]; [lia|]); cbn [resolve_aux]; rewrite E, D.
  - reflexivity.
  - rewrite Ep. assert (Lb : Nat.ltb p f = true) by (apply Nat.ltb_lt; assumption). rewrite Lb. apply IH. lia.
Qed.

Lemma resolve_nearest : forall fs f x g, resolve fs f x = Some g <-> nearest fs x f g.
Proof.
  intros fs f x g. unfold resolve. split.
  - apply resolve_aux_nearest.
  - intros H. apply (nearest_resolve_aux _ _ _ _ H). lia.
Qed.

Lemma nearest_fun : forall fs x f g1 g2, nearest fs x f g1 -> nearest fs x f g2 -> g1 = g2.
Proof.
  intros fs x f g1 g2 H. revert g2. induction H as [f fr E D | f fr p g E D Ep L H IH]; intros g2 H2.
  - inversion H2; subst; [reflexivity|congruence].
  - inversion H2; subst; [congruence|]. apply IH. congruence.
Qed.

(* one step of resolve *)
Lemma resolve_step : forall fs f x fr, nth_error fs f = Some fr ->
  resolve fs f x =
  if in_dom x fr then Some f
  else match parent fr with
       | Some p => if Nat.ltb p f then resolve fs p x else None
       | None => None
       end.
Proof.
  intros fs f x fr E. unfold resolve at 1. cbn [resolve_aux]. rewrite E.
  destruct (in_dom x fr); [reflexivity|].
  destruct (parent fr) as [p|]; [|reflexivity].
  destruct (Nat.ltb p f) eqn:L; [|reflexivity]. apply Nat.ltb_lt in L.
  destruct (resolve fs p x) as [g|] eqn:R.
  - apply resolve_nearest in R. apply (nearest_resolve_aux _ _ _ _ R). lia.
  - destruct (resolve_aux f fs p x) as [g|] eqn:R2; [|reflexivity].
    apply resolve_aux_nearest in R2. apply resolve_nearest in R2. congruence.
Qed.

Lemma resolve_none_frame : forall fs f x, nth_error fs f = None -> resolve fs f x = None.
Proof. intros fs f x E. unfold resolve. cbn [resolve_aux]. rewrite E. reflexivity. Qed.

Lemma resolve_le : forall fs f x g, resolve fs f x = Some g -> g <= f.
Proof.
  intros fs f x g H. apply resolve_nearest in H. induction H; lia.
Qed.

Lemma resolve_in_dom : forall fs f x g, resolve fs f x = Some g ->
  exists fr, nth_error fs g = Some fr /\ in_dom x fr = true.
Proof.
  intros fs f x g H. apply resolve_nearest in H. induction H; eauto.
Qed.

(* ---------------------------------------------------------------- ancestors *)
Lemma anc_le : forall fs g h, anc fs g h -> h <= g.
Proof. induction 1; lia. Qed.

Lemma anc_trans : forall fs g h k, anc fs g h -> anc fs h k -> anc fs g k.
Proof. induction 1; intros; eauto using anc. Qed.

(* resolve only looks at the ancestor chain: same parents and same membership of x there *)
Lemma resolve_congr : forall fs fs1 x g,
  g < length fs ->
  (forall h fr, anc fs g h -> nth_error fs h = Some fr ->
     exists fr1, nth_error fs1 h = Some fr1 /\ parent fr1 = parent fr /\ in_dom x fr1 = in_dom x fr) ->
  resolve fs1 g x = resolve fs g x.
Proof.
  intros fs fs1 x g. induction g as [g IH] using lt_wf_ind. intros Hg H.
  destruct (nth_error fs g) as [fr|] eqn:E.
  2:{ apply nth_error_None in E. lia. }
  destruct (H g fr (anc_refl _ _) E) as (fr1 & E1 & Hp & Hd).
  rewrite (resolve_step _ _ _ _ E), (resolve_step _ _ _ _ E1), Hp, Hd.
  destruct (in_dom x fr); [reflexivity|].
  destruct (parent fr) as [p|] eqn:Ep; [|reflexivity].
  destruct (Nat.ltb p g) eqn:L; [|reflexivity]. apply Nat.ltb_lt in L.
  apply IH; auto; [lia|].
  intros h fr2 A E2. apply H; auto. eapply anc_step; eauto.
Qed.

Lemma anc_frame_lt : forall fs g h, anc fs g h -> g < length fs -> h < length fs.
Proof. intros fs g h A L. apply anc_le in A. lia. Qed.

(* ---------------------------------------------------------------- evolution of the store *)
Section Ext.
  Variable n0 : nat.
  Variable resl : list name.
  Notation prot0 := (prot0 n0 resl).
  Notation ext_at := (ext_at n0 resl).
  Notation kext := (kext n0 resl).

  Lemma prot0_new : forall g x, n0 <= g -> prot0 g x = false.
  Proof. intros. unfold FreezeRel.prot0. assert (Nat.ltb g n0 = false) by (apply Nat.ltb_ge; lia). rewrite H0. reflexivity. Qed.

  Lemma prot0_true : forall g x, prot0 g x = true -> g < n0 /\ mem x resl = true.
  Proof. intros g x H. unfold FreezeRel.prot0 in H. apply andb_true_iff in H. destruct H as [H1 H2]. apply Nat.ltb_lt in H1. auto. Qed.

  Ltac mk fr1 E1 := refine (ex_intro _ fr1 (conj E1 (conj _ (conj _ (conj _ (conj _ _)))))).

  Lemma ext_at_refl : forall fs cur, ext_at fs fs cur [].
  Proof.
    intros. constructor; [lia|]. intros g fr E. mk fr E; auto.
  Qed.

  Lemma ext_at_weaken : forall fs fs1 cur D1 D2, ext_at fs fs1 cur D1 -> incl D1 D2 -> ext_at fs fs1 cur D2.
  Proof.
    intros fs fs1 cur D1 D2 [L O] I. constructor; auto. intros g fr E.
    destruct (O g fr E) as (fr1 & E1 & Hp & Hb & Hm & Ha & Hc). mk fr1 E1; auto.
    intros x Hx. destruct (Ha x Hx) as [?|[? ?]]; auto.
  Qed.

  Lemma ext_at_trans : forall fs fs1 fs2 cur D1 D2 Dn,
    ext_at fs fs1 cur D1 -> ext_at fs1 fs2 cur D2 -> incl D1 Dn -> incl D2 Dn -> ext_at fs fs2 cur Dn.
  Proof.
    intros fs fs1 fs2 cur D1 D2 Dn [L1 O1] [L2 O2] I1 I2. constructor; [lia|]. intros g fr E.
    destruct (O1 g fr E) as (fr1 & E1 & Hp1 & Hb1 & Hm1 & Ha1 & Hc1).
    destruct (O2 g fr1 E1) as (fr2 & E2 & Hp2 & Hb2 & Hm2 & Ha2 & Hc2).
    mk fr2 E2; try congruence; auto.
    - intros x Hx. destruct (Ha2 x Hx) as [H|[? ?]]; [|auto].
      destruct (Ha1 x H) as [?|[? ?]]; auto.
    - intros x H. destruct (Hc1 x H), (Hc2 x H). split; congruence.
  Qed.

  (* what happened at a frame that did not exist yet is invisible from the old frames *)
  Lemma ext_at_fresh : forall fs fs1 fr Dn cur, ext_at fs fs1 fr Dn -> length fs <= fr -> ext_at fs fs1 cur [].
  Proof.
    intros fs fs1 fr Dn cur [L O] Hf. constructor; auto. intros g fr0 E.
    destruct (O g fr0 E) as (fr1 & E1 & Hp & Hb & Hm & Ha & Hc). mk fr1 E1; auto.
    intros x Hx. destruct (Ha x Hx) as [?|[G ?]]; auto.
    assert (g < length fs) by (apply nth_error_Some; congruence). lia.
  Qed.

  Lemma ext_at_trans_fresh : forall fs fs1 fs2 cur fr Dn,
    ext_at fs fs1 cur [] -> ext_at fs1 fs2 fr Dn -> length fs <= fr -> ext_at fs fs2 cur [].
  Proof.
    intros fs fs1 fs2 cur fr Dn [L1 O1] [L2 O2] Hf. constructor; [lia|]. intros g fr0 E.
    destruct (O1 g fr0 E) as (fr1 & E1 & Hp1 & Hb1 & Hm1 & Ha1 & Hc1).
    destruct (O2 g fr1 E1) as (fr2 & E2 & Hp2 & Hb2 & Hm2 & Ha2 & Hc2).
    mk fr2 E2; try congruence; auto.
    - intros x Hx. destruct (Ha2 x Hx) as [H|[G ?]].
      + destruct (Ha1 x H) as [?|[? []]]; auto.
      + assert (g < length fs) by (apply nth_error_Some; congruence). lia.
    - intros x H. destruct (Hc1 x H), (Hc2 x H). split; congruence.
  Qed.

  Lemma ext_at_push : forall fs new cur, ext_at fs (fs ++ [new]) cur [].
  Proof.
    intros. constructor; [rewrite app_length; cbn; lia|]. intros g fr E.
    mk fr (nth_error_app_old fs new g fr E); auto.
  Qed.

  Lemma kext_refl : forall fs, kext fs fs.
  Proof. intros. constructor; [lia|]. intros g fr E. mk fr E; auto. Qed.

  Lemma kext_trans : forall fs fs1 fs2, kext fs fs1 -> kext fs1 fs2 -> kext fs fs2.
  Proof.
    intros fs fs1 fs2 [L1 O1] [L2 O2]. constructor; [lia|]. intros g fr E.
    destruct (O1 g fr E) as (fr1 & E1 & Hp1 & Hb1 & Hm1 & Ha1 & Hc1).
    destruct (O2 g fr1 E1) as (fr2 & E2 & Hp2 & Hb2 & Hm2 & Ha2 & Hc2).
    mk fr2 E2; try congruence; auto.
    - intros x Hx. destruct (Ha2 x Hx) as [H|[[? H]|[? ?]]]; auto.
      right. left. split; auto. congruence.
    - intros x H. destruct (Hc1 x H), (Hc2 x H). split; congruence.
  Qed.

  Lemma ext_at_kext : forall fs fs1 cur Dn,
    ext_at fs fs1 cur Dn -> (n0 <= cur -> incl Dn (budget_at fs cur)) -> kext fs fs1.
  Proof.
    intros fs fs1 cur Dn [L O] HB. constructor; auto. intros g fr E.
    destruct (O g fr E) as (fr1 & E1 & Hp & Hb & Hm & Ha & Hc). mk fr1 E1; auto.
    intros x Hx. destruct (Ha x Hx) as [?|[G HI]]; auto. subst g.
    destruct (Nat.lt_ge_cases cur n0) as [Lt|Ge].
    - destruct (in_dom x fr) eqn:Dx; auto. right. right. split; auto.
      destruct (mem x resl) eqn:M; auto.
      assert (PT : prot0 cur x = true).
      { unfold FreezeRel.prot0. rewrite M. assert (Nat.ltb cur n0 = true) by (apply Nat.ltb_lt; auto). rewrite H. reflexivity. }
      destruct (Hc x PT) as [Hd _]. congruence.
    - right. left. split; auto. specialize (HB Ge x HI). unfold budget_at in HB. rewrite E in HB. auto.
  Qed.

  Lemma kext_push : forall fs new, kext fs (fs ++ [new]).
  Proof.
    intros. constructor; [rewrite app_length; cbn; lia|]. intros g fr E.
    mk fr (nth_error_app_old fs new g fr E); auto.
  Qed.

  (* ancestors, budgets of old frames do not change *)
  Lemma kext_anc : forall fs fs1 g h, kext fs fs1 -> g < length fs -> (anc fs1 g h <-> anc fs g h).
  Proof.
    intros fs fs1 g h [L O] Hg. split.
    - intros A. induction A as [g|g fr1 p h E1 Ep Lt A IH]; [constructor|].
      destruct (nth_error fs g) as [fr|] eqn:E; [|apply nth_error_None in E; lia].
      destruct (O g fr E) as (fr1' & E1' & Hp & _). rewrite E1 in E1'. inversion E1'; subst fr1'.
      eapply anc_step; eauto; [congruence|]. apply IH. lia.
    - intros A. induction A as [g|g fr p h E Ep Lt A IH]; [constructor|].
      destruct (O g fr E) as (fr1 & E1 & Hp & _).
      eapply anc_step; eauto; [congruence|]. apply IH. lia.
  Qed.

  Lemma kext_budget_at : forall fs fs1 g, kext fs fs1 -> g < length fs -> budget_at fs1 g = budget_at fs g.
  Proof.
    intros fs fs1 g [L O] Hg. unfold budget_at.
    destruct (nth_error fs g) as [fr|] eqn:E; [|apply nth_error_None in E; lia].
    destruct (O g fr E) as (fr1 & E1 & _ & Hb & _). rewrite E1. auto.
  Qed.

  Lemma chain_budget_kext : forall fs fs1 g D,
    kext fs fs1 -> g < length fs -> chain_budget n0 fs g D -> chain_budget n0 fs1 g D.
  Proof.
    intros fs fs1 g D K Hg C h A Hh x Hx.
    apply (kext_anc _ _ _ _ K Hg) in A.
    rewrite (kext_budget_at _ _ _ K) in Hx by (eapply anc_frame_lt; eauto).
    eapply C; eauto.
  Qed.

  (* ---------------------------------------------------------------- the primitive updates *)
  Lemma declare_ext : forall st f x v st1, declare prot0 st f x v = UOk st1 ->
    ext_at (frames st) (frames st1) f [x] /\ out st1 = out st /\ length (frames st1) = length (frames st) /\
    exists fr, nth_error (frames st) f = Some fr /\ in_dom x fr = false /\ prot0 f x = false /\
      frames st1 = set_nth f (mkFrame (parent fr) ((x, v) :: vars fr) (budget fr)) (frames st).
  Proof.
    intros st f x v st1 H. unfold declare in H.
    destruct (nth_error (frames st) f) as [fr|] eqn:E; [|discriminate].
    destruct (in_dom x fr) eqn:Dx; [discriminate|].
    destruct (prot0 f x) eqn:Px; [discriminate|]. inversion H; subst st1; clear H. cbn [frames out].
    split; [|split; [reflexivity|split; [apply length_set_nth|eauto 6]]].
    constructor; [rewrite length_set_nth; lia|]. intros g fr0 E0.
    destruct (Nat.eq_dec f g) as [->|N].
    - rewrite E in E0. inversion E0; subst fr0.
      mk (mkFrame (parent fr) ((x, v) :: vars fr) (budget fr)) (nth_error_set_nth_eq _ _ (mkFrame (parent fr) ((x, v) :: vars fr) (budget fr)) _ E); auto.
      + intros y Hy. rewrite in_dom_cons, Hy. apply orb_true_r.
      + intros y Hy. rewrite in_dom_cons in Hy. apply orb_true_iff in Hy. destruct Hy as [Hy|Hy]; auto.
        apply String.eqb_eq in Hy. subst. right. split; auto. left; auto.
      + intros y Hy. assert (Q : String.eqb y x = false).
        { destruct (String.eqb y x) eqn:Q; auto. apply String.eqb_eq in Q. subst. congruence. }
        split; [rewrite in_dom_cons, Q; reflexivity | cbn [vars assoc]; rewrite Q; reflexivity].
    - assert (E1 : nth_error (set_nth f (mkFrame (parent fr) ((x, v) :: vars fr) (budget fr)) (frames st)) g = Some fr0)
        by (rewrite nth_error_set_nth_neq by auto; auto).
      mk fr0 E1; auto.
  Qed.

  Lemma assign_ext : forall st f x v st1 cur, assign prot0 st f x v = UOk st1 ->
    ext_at (frames st) (frames st1) cur [] /\ out st1 = out st /\ length (frames st1) = length (frames st) /\
    exists g fr, resolve (frames st) f x = Some g /\ nth_error (frames st) g = Some fr /\ prot0 g x = false /\
      frames st1 = set_nth g (mkFrame (parent fr) (assoc_set x v (vars fr)) (budget fr)) (frames st).
  Proof.
    intros st f x v st1 cur H. unfold assign in H.
    destruct (resolve (frames st) f x) as [g|] eqn:R; [|discriminate].
    destruct (nth_error (frames st) g) as [fr|] eqn:E; [|discriminate].
    destruct (prot0 g x) eqn:Px; [discriminate|]. inversion H; subst st1; clear H. cbn [frames out].
    split; [|split; [reflexivity|split; [apply length_set_nth|eauto 8]]].
    constructor; [rewrite length_set_nth; lia|]. intros h fr0 E0.
    destruct (Nat.eq_dec g h) as [->|N].
    - rewrite E in E0. inversion E0; subst fr0.
      mk (mkFrame (parent fr) (assoc_set x v (vars fr)) (budget fr)) (nth_error_set_nth_eq _ _ (mkFrame (parent fr) (assoc_set x v (vars fr)) (budget fr)) _ E); auto.
      + intros y Hy. rewrite in_dom_assoc_set. auto.
      + intros y Hy. rewrite in_dom_assoc_set in Hy. auto.
      + intros y Hy. split; [apply in_dom_assoc_set|]. cbn [vars]. apply assoc_set_other. intro; subst. congruence.
    - assert (E1 : nth_error (set_nth g (mkFrame (parent fr) (assoc_set x v (vars fr)) (budget fr)) (frames st)) h = Some fr0)
        by (rewrite nth_error_set_nth_neq by auto; auto).
      mk fr0 E1; auto.
  Qed.
End Ext.
