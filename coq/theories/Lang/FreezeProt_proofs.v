(* Lang/FreezeProt_proofs.v - protection only adds the signal STrap: an evaluation under any
   protection that does not end in STrap is, step for step, the evaluation of the plain evaluator
   (`noprot`).  So the hypothesis "the protected run does not trap" of the preservation theorem is a
   statement about the plain run, and its conclusion holds for the plain evaluator. *)
From Coq Require Import ZArith String List Bool Arith Lia.
From NV Require Import Lang.FreezeLang.
Import ListNotations.
Open Scope string_scope.
Open Scope list_scope.

Definition rle {A} (r1 r2 : result A) : Prop := snd r1 = Sig STrap \/ r1 = r2.

Lemma rle_refl : forall {A} (r : result A), rle r r.
Proof. intros. right. reflexivity. Qed.

Lemma rle_bind : forall {A B} (r1 r2 : result A) (k1 k2 : state -> A -> result B),
  rle r1 r2 -> (forall st a, rle (k1 st a) (k2 st a)) -> rle (bindR r1 k1) (bindR r2 k2).
Proof.
  intros A B [s1 r1] r2 k1 k2 [H|H] HK; cbn in *.
  - subst r1. left. reflexivity.
  - subst r2. destruct r1 as [a|s|]; cbn; auto using rle_refl.
Qed.

Section Prot.
  Variable prot : protection.

  Lemma declare_rle : forall st f x v,
    rle (upd_result st (declare prot st f x v)) (upd_result st (declare noprot st f x v)).
  Proof.
    intros. unfold declare. destruct (nth_error (frames st) f) as [fr|]; [|apply rle_refl].
    destruct (in_dom x fr); [apply rle_refl|]. cbn [noprot].
    destruct (prot f x); [left; reflexivity|apply rle_refl].
  Qed.

  Lemma assign_rle : forall st f x v,
    rle (upd_result st (assign prot st f x v)) (upd_result st (assign noprot st f x v)).
  Proof.
    intros. unfold assign. destruct (resolve (frames st) f x) as [g|]; [|apply rle_refl].
    destruct (nth_error (frames st) g) as [fr|]; [|apply rle_refl]. cbn [noprot].
    destruct (prot g x); [left; reflexivity|apply rle_refl].
  Qed.

  Lemma declare_all_rle : forall bs st f, rle (declare_all prot st f bs) (declare_all noprot st f bs).
  Proof.
    induction bs as [|[x v] bs IH]; intros; cbn [declare_all]; [apply rle_refl|].
    apply rle_bind; [apply declare_rle|]. intros; apply IH.
  Qed.

  Section WithRec.
    Variable rec1 rec2 : state -> nat -> expr -> result val.
    Hypothesis HR : forall st cur e, rle (rec1 st cur e) (rec2 st cur e).

    Lemma eval_exprs_rle : forall es st cur, rle (eval_exprs rec1 st cur es) (eval_exprs rec2 st cur es).
    Proof.
      induction es as [|e r IH]; intros; cbn [eval_exprs]; [apply rle_refl|].
      apply rle_bind; [apply HR|]. intros. apply rle_bind; [apply IH|]. intros; apply rle_refl.
    Qed.

    Lemma eval_seq_rle : forall es st cur, rle (eval_seq rec1 st cur es) (eval_seq rec2 st cur es).
    Proof.
      induction es as [|e r IH]; intros; cbn [eval_seq]; [apply rle_refl|].
      apply rle_bind; [apply HR|]. intros. destruct r; [apply rle_refl|apply IH].
    Qed.

    Lemma apply_val_rle : forall st fv args, rle (apply_val prot rec1 st fv args) (apply_val noprot rec2 st fv args).
    Proof.
      intros. destruct fv; cbn [apply_val]; try apply rle_refl.
      destruct (Nat.eqb (length ps) (length args)); [|apply rle_refl].
      destruct (push_frame st env (call_budget ps body)) as [st1 fr].
      apply rle_bind; [apply declare_all_rle|]. intros; apply HR.
    Qed.

    Lemma for_each_rle : forall k1 k2 cur bud x,
      (forall st fr acc, rle (k1 st fr acc) (k2 st fr acc)) ->
      forall l st acc, rle (for_each prot k1 cur bud x l st acc) (for_each noprot k2 cur bud x l st acc).
    Proof.
      intros k1 k2 cur bud x HK. induction l as [|v l IH]; intros; cbn [for_each]; [apply rle_refl|].
      destruct (push_frame st cur bud) as [st1 fr].
      apply rle_bind; [apply declare_all_rle|]. intros. apply rle_bind; [apply HK|]. intros; apply IH.
    Qed.

    Lemma eval_for_rle : forall bud cls cb1 cb2,
      (forall st fr acc, rle (cb1 st fr acc) (cb2 st fr acc)) ->
      forall st cur acc, rle (eval_for prot rec1 bud cls cb1 st cur acc) (eval_for noprot rec2 bud cls cb2 st cur acc).
    Proof.
      intros bud cls cb1 cb2 HC. induction cls as [|[[k x] e] rest IH]; intros; cbn [eval_for]; [apply HC|].
      apply rle_bind; [apply HR|]. intros st1 v. destruct k.
      - destruct (iter_elems v); try apply rle_refl. apply for_each_rle. apply IH.
      - apply for_each_rle. apply IH.
      - destruct (truthy v); [apply IH|apply rle_refl].
    Qed.

    Lemma eval_arms_rle : forall arms st cur v, rle (eval_arms prot rec1 st cur v arms) (eval_arms noprot rec2 st cur v arms).
    Proof.
      induction arms as [|[p b] rest IH]; intros; cbn [eval_arms]; [apply rle_refl|].
      destruct (push_frame st cur (arm_budget p b)) as [st1 fr].
      destruct (pat_match p v); [|apply IH|apply rle_refl].
      apply rle_bind; [apply declare_all_rle|]. intros; apply HR.
    Qed.

    Lemma chain_reduce_rle : forall pending st rm prec,
      rle (chain_reduce prot rec1 st pending rm prec) (chain_reduce noprot rec2 st pending rm prec).
    Proof.
      induction pending as [|[[lhs top] tp] rest IH]; intros; cbn [chain_reduce]; [apply rle_refl|].
      destruct (Z.leb prec tp); [|apply rle_refl].
      apply rle_bind; [apply apply_val_rle|]. intros; apply IH.
    Qed.

    Lemma chain_finish_rle : forall pending st rm,
      rle (chain_finish prot rec1 st pending rm) (chain_finish noprot rec2 st pending rm).
    Proof.
      induction pending as [|[[lhs top] tp] rest IH]; intros; cbn [chain_finish]; [apply rle_refl|].
      apply rle_bind; [apply apply_val_rle|]. intros; apply IH.
    Qed.

    Lemma chain_ops_rle : forall ops st cur pending rm,
      rle (chain_ops prot rec1 st cur pending rm ops) (chain_ops noprot rec2 st cur pending rm ops).
    Proof.
      induction ops as [|[o d] rest IH]; intros; cbn [chain_ops]; [apply chain_finish_rle|].
      apply rle_bind; [apply HR|]. intros st1 opv.
      destruct (negb (is_func opv)); [apply rle_refl|]. destruct (is_cmp opv); [apply rle_refl|].
      apply rle_bind; [apply HR|]. intros st2 v.
      apply rle_bind; [apply chain_reduce_rle|]. intros; apply IH.
    Qed.

    Lemma evalF_rle : forall st cur e, rle (evalF prot rec1 st cur e) (evalF noprot rec2 st cur e).
    Proof.
      intros st cur e. destruct e; cbn [evalF]; try apply rle_refl.
      - apply eval_seq_rle.
      - unfold eval_decl. apply rle_bind; [apply HR|]. intros.
        apply rle_bind; [apply declare_rle|]. intros; apply rle_refl.
      - unfold eval_assign. apply rle_bind; [apply HR|]. intros.
        apply rle_bind; [apply assign_rle|]. intros; apply rle_refl.
      - unfold eval_if. apply rle_bind; [apply HR|]. intros st1 v. destruct (truthy v); apply HR.
      - unfold eval_while. destruct (push_frame st cur (while_budget e1 e2)) as [st1 fr].
        apply rle_bind; [apply HR|]. intros st2 vc. destruct (truthy vc); [|apply rle_refl].
        apply rle_bind; [apply HR|]. intros; apply HR.
      - unfold eval_for_expr. apply rle_bind; [|intros; apply rle_refl].
        apply eval_for_rle. intros. unfold for_body. apply rle_bind; [apply HR|]. intros; apply rle_refl.
      - apply rle_bind; [apply HR|]. intros; apply eval_arms_rle.
      - unfold eval_try. destruct (HR st cur e1) as [H|H].
        + left. destruct (rec1 st cur e1) as [s r]. cbn in *. subst r. reflexivity.
        + rewrite <- H. destruct (rec1 st cur e1) as [s1 [v|[v| |]|]]; try apply rle_refl.
          destruct (push_frame s1 cur (catch_budget x e2)) as [s2 fr].
          apply rle_bind; [apply declare_all_rle|]. intros; apply HR.
      - apply rle_bind; [apply HR|]. intros; apply rle_refl.
      - unfold eval_call. destruct (is_underscore e || existsb is_underscore args); [apply rle_refl|].
        apply rle_bind; [apply HR|]. intros. apply rle_bind; [apply eval_exprs_rle|]. intros; apply apply_val_rle.
      - unfold eval_chain. destruct (is_underscore e || existsb (fun p => is_underscore (snd p)) ops); [apply rle_refl|].
        destruct ops as [|[o d] [|q r]].
        + apply rle_bind; [apply HR|]. intros; apply chain_ops_rle.
        + apply rle_bind; [apply HR|]. intros. apply rle_bind; [apply HR|]. intros st2 opv.
          destruct (negb (is_func opv)); [apply rle_refl|].
          apply rle_bind; [apply HR|]. intros; apply apply_val_rle.
        + apply rle_bind; [apply HR|]. intros; apply chain_ops_rle.
      - destruct (existsb is_underscore es); [apply rle_refl|].
        apply rle_bind; [apply eval_exprs_rle|]. intros; apply rle_refl.
    Qed.
  End WithRec.

  Theorem eval_prot_rle : forall n st cur e, rle (eval prot n st cur e) (eval noprot n st cur e).
  Proof.
    induction n as [|n IH]; intros; cbn [eval]; [apply rle_refl|].
    apply evalF_rle. apply IH.
  Qed.

  (* a protected run that does not trap is the plain run *)
  Theorem eval_prot_noprot : forall n st cur e st1 r,
    eval prot n st cur e = (st1, r) -> r <> Sig STrap -> eval noprot n st cur e = (st1, r).
  Proof.
    intros n st cur e st1 r H N. destruct (eval_prot_rle n st cur e) as [T|E].
    - rewrite H in T. cbn in T. contradiction.
    - rewrite <- E. auto.
  Qed.

  Theorem apply_prot_noprot : forall n st fv args st1 r,
    apply prot n st fv args = (st1, r) -> r <> Sig STrap -> apply noprot n st fv args = (st1, r).
  Proof.
    intros n st fv args st1 r H N. unfold apply in *.
    destruct (apply_val_rle (eval prot n) (eval noprot n) (eval_prot_rle n) st fv args) as [T|E].
    - rewrite H in T. cbn in T. contradiction.
    - rewrite <- E. auto.
  Qed.
End Prot.
