(* C14, the known finding `huge-count-argument`: a model of the allocation done by `x .* n` / `n *. x`
   (src/lib.rs: `vec![a; obj_clamp_to_usize_ok(&b)?]`), the simplest member of the class.

   vec![a; n] with size_of::<Obj>() = sz asks for n*sz bytes:
     more than isize::MAX  -> panic "capacity overflow"   (RawVec)
     more than is available -> handle_alloc_error, the process aborts
   Both are `Panic` here.  `avail` (what the allocator can give) is a parameter. *)
From Coq Require Import ZArith List Bool.
From NV Require Import Common.Outcome.
Import ListNotations.
Open Scope Z_scope.

Definition isize_max : Z := 2 ^ 63 - 1.
Definition usize_max : Z := 2 ^ 64 - 1.

Inductive alloc_res := AllocOk | CapacityOverflow | AllocAbort.

Definition vec_alloc (sz avail n : Z) : alloc_res :=
  if n * sz >? isize_max then CapacityOverflow
  else if n * sz >? avail then AllocAbort
  else AllocOk.

(* NNum::clamp_to_usize + obj_clamp_to_usize_ok: negative counts clamp to 0, counts above usize::MAX are a value error *)
Definition clamp_count (n : Z) : outcome Z :=
  if n <? 0 then Ok 0 else if n <=? usize_max then Ok n else Err EValue.

Definition dot_star {A} (sz avail : Z) (x : A) (n : Z) : outcome (list A) :=
  c <- clamp_count n ;;
  match vec_alloc sz avail c with
  | AllocOk => Ok (repeat x (Z.to_nat c))
  | _ => Panic
  end.

(* the matcher of the known finding: the count is at least 2^31 *)
Definition Known (n : Z) : Prop := 2 ^ 31 <= n.
