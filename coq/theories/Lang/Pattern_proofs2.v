(* C12: proofs about Lang/Pattern.v, part 2: the sequence engine (equal lengths, one splat absorbs
   the difference, defaults fill missing trailing items), literals, or / and, switch / catch. *)
From Coq Require Import ZArith NArith List Bool Lia PeanoNat.
From NV Require Import Common.Outcome Lang.Types Lang.Types_proofs Lang.Pattern Lang.PatternSpec Lang.Pattern_proofs.
Import ListNotations.

Section Seq.
  Variable rec : pat -> option ty -> val -> store -> res.

  Lemma scan_plain : forall ps i n splat,
    forallb plain ps = true -> scan ps i n splat [] = Ok (splat, []).
  Proof.
    induction ps as [|p ps IH]; intros i n splat H; cbn [scan]; [reflexivity|].
    cbn [forallb] in H. apply andb_prop in H as [Hp H].
    destruct p; try discriminate Hp; try (apply IH; exact H).
    destruct p; try discriminate Hp; apply IH; exact H.
  Qed.

  (* (a) no splat, no default: the lengths must be equal, and then items pair up in order;
         on a mismatch nothing is bound *)
  Theorem seq_plain : forall ps rt rhs s, forallb plain ps = true ->
    assign_all rec ps rt rhs s =
      if Nat.eqb (length ps) (length rhs) then zip_assign rec ps rt rhs s else (s, Err EValue).
  Proof.
    intros ps rt rhs s H. unfold assign_all. rewrite scan_plain by exact H.
    cbn [length]. rewrite Nat.add_0_r, app_nil_r. unfold assign_all_basic.
    destruct (Nat.eqb _ _); reflexivity.
  Qed.

  Lemma scan_one_splat : forall front sp back i n,
    forallb plain front = true -> is_splat sp = true -> forallb plain back = true ->
    scan (front ++ sp :: back) i n None [] = Ok (Some (i + length front)%nat, []).
  Proof.
    induction front as [|p front IH]; intros sp back i n Hf Hs Hb.
    - cbn [app length scan]. rewrite Nat.add_0_r.
      destruct sp; try discriminate Hs; try (apply scan_plain; exact Hb).
      destruct sp; try discriminate Hs. apply scan_plain; exact Hb.
    - cbn [forallb] in Hf. apply andb_prop in Hf as [Hp Hf].
      cbn [app length scan]. replace (i + S (length front))%nat with (S i + length front)%nat by lia.
      destruct p; try discriminate Hp; try (apply IH; assumption).
      destruct p; try discriminate Hp; apply IH; assumption.
  Qed.

  Lemma firstn_app_exact : forall A (l1 l2 : list A), firstn (length l1) (l1 ++ l2) = l1.
  Proof. intros. rewrite firstn_app, Nat.sub_diag, firstn_all. cbn. apply app_nil_r. Qed.
  Lemma skipn_app_exact : forall A (l1 l2 : list A), skipn (length l1) (l1 ++ l2) = l2.
  Proof. intros. rewrite skipn_app, Nat.sub_diag, skipn_all. reflexivity. Qed.

  (* (b) exactly one splat: it absorbs the difference (possibly nothing); fewer items than the other
         patterns need is a value error and nothing is bound *)
  Theorem seq_one_splat : forall front sp back rt rhs s,
    forallb plain front = true -> is_splat sp = true -> forallb plain back = true ->
    assign_all rec (front ++ sp :: back) rt rhs s =
      let nf := length front in let nb := length back in let n := length rhs in
      if (n <? nf + nb)%nat then (s, Err EValue)
      else
        andthen (zip_assign rec front rt (firstn nf rhs) s) (fun s1 =>
        andthen (assign_splat rec sp rt (skipn nf (firstn (n - nb) rhs)) s1) (fun s2 =>
        zip_assign rec back rt (skipn (n - nb) rhs) s2)).
  Proof.
    intros front sp back rt rhs s Hf Hs Hb. cbv zeta. unfold assign_all.
    rewrite scan_one_splat by assumption. cbn [Nat.add]. rewrite app_nil_r.
    unfold split_splat. rewrite app_length. cbn [length].
    destruct (Nat.ltb_spec (length rhs + 1) (length front + S (length back)));
      destruct (Nat.ltb_spec (length rhs) (length front + length back)); try lia; [reflexivity|].
    unfold usub. destruct (Nat.leb_spec (length front + S (length back)) (length rhs + length front + 1)); [|lia].
    cbn [bind].
    replace (length rhs + length front + 1 - (length front + S (length back)))%nat
      with (length rhs - length back)%nat by lia.
    destruct (Nat.ltb_spec (length rhs) (length rhs - length back)); [lia|].
    rewrite firstn_length.
    destruct (Nat.ltb_spec (Nat.min (length rhs - length back) (length rhs)) (length front)); [lia|].
    rewrite firstn_app_exact.
    replace (nth (length front) (front ++ sp :: back) PWild) with sp
      by (rewrite app_nth2, Nat.sub_diag by lia; reflexivity).
    replace (skipn (S (length front)) (front ++ sp :: back)) with back
      by (replace (S (length front)) with (length (front ++ [sp])) by (rewrite app_length; cbn; lia);
          replace (front ++ sp :: back) with ((front ++ [sp]) ++ back) by (rewrite <- app_assoc; reflexivity);
          rewrite skipn_app_exact; reflexivity).
    unfold assign_all_basic.
    rewrite firstn_firstn. replace (Nat.min (length front) (length rhs - length back)) with (length front) by lia.
    rewrite firstn_length. replace (Nat.min (length front) (length rhs)) with (length front) by lia.
    rewrite Nat.eqb_refl.
    rewrite skipn_length. replace (length rhs - (length rhs - length back))%nat with (length back) by lia.
    rewrite Nat.eqb_refl. reflexivity.
  Qed.

  (* the defaults that are in play, as scan computes them, are the trailing ones *)
  Fixpoint in_play (i n : nat) (ods : list (pat * val)) : list val :=
    match ods with
    | [] => []
    | pd :: r => (if (n <=? i)%nat then [snd pd] else []) ++ in_play (S i) n r
    end.
  Lemma scan_defaults : forall ods i n defs,
    scan (map mkdef ods) i n None defs = Ok (None, defs ++ in_play i n ods).
  Proof.
    induction ods as [|pd ods IH]; intros i n defs; cbn [map scan in_play mkdef bind].
    - rewrite app_nil_r. reflexivity.
    - rewrite IH. destruct (n <=? i)%nat; cbn [app]; [rewrite <- app_assoc|]; reflexivity.
  Qed.
  Lemma in_play_skipn : forall ods i n, in_play i n ods = skipn (n - i) (map snd ods).
  Proof.
    induction ods as [|pd ods IH]; intros i n; cbn [in_play map]; [rewrite skipn_nil; reflexivity|].
    rewrite IH. destruct (Nat.leb_spec n i).
    - replace (n - i)%nat with 0%nat by lia. replace (n - S i)%nat with 0%nat by lia. reflexivity.
    - replace (n - i)%nat with (S (n - S i)) by lia. reflexivity.
  Qed.
  Lemma scan_req_defaults : forall req ods i n,
    forallb plain req = true ->
    scan (req ++ map mkdef ods) i n None [] = Ok (None, in_play (i + length req) n ods).
  Proof.
    induction req as [|p req IH]; intros ods i n H.
    - cbn [app length]. rewrite Nat.add_0_r. apply scan_defaults.
    - cbn [forallb] in H. apply andb_prop in H as [Hp H].
      cbn [app length scan]. replace (i + S (length req))%nat with (S i + length req)%nat by lia.
      destruct p; try discriminate Hp; try (apply IH; assumption).
      destruct p; try discriminate Hp; apply IH; assumption.
  Qed.

  (* (c) trailing defaults, no splat: the supplied items may stop anywhere inside the defaulted
         tail; the missing trailing items are filled with their defaults; otherwise value error *)
  Theorem seq_defaults : forall req ods rt rhs s, forallb plain req = true ->
    assign_all rec (req ++ map mkdef ods) rt rhs s =
      let n := length rhs in
      if (length req <=? n)%nat && (n <=? length req + length ods)%nat
      then zip_assign rec (req ++ map mkdef ods) rt (rhs ++ skipn (n - length req) (map snd ods)) s
      else (s, Err EValue).
  Proof.
    intros req ods rt rhs s H. cbv zeta. unfold assign_all.
    rewrite scan_req_defaults by exact H. cbn [Nat.add]. rewrite in_play_skipn.
    rewrite app_length, map_length, skipn_length, map_length.
    destruct (Nat.leb_spec (length req) (length rhs)); destruct (Nat.leb_spec (length rhs) (length req + length ods));
      cbn [andb].
    - replace (length req + length ods =? length rhs + (length ods - (length rhs - length req)))%nat with true
        by (symmetry; apply Nat.eqb_eq; lia).
      unfold assign_all_basic. rewrite !app_length, map_length, skipn_length, map_length.
      replace (length req + length ods =? length rhs + (length ods - (length rhs - length req)))%nat with true
        by (symmetry; apply Nat.eqb_eq; lia).
      reflexivity.
    - replace (length req + length ods =? length rhs + (length ods - (length rhs - length req)))%nat with false
        by (symmetry; apply Nat.eqb_neq; lia). reflexivity.
    - replace (length req + length ods =? length rhs + (length ods - (length rhs - length req)))%nat with false
        by (symmetry; apply Nat.eqb_neq; lia). reflexivity.
    - lia.
  Qed.
End Seq.

Section Simple.
  Variable sat : N -> val -> outcome bool.
  Variable inexact : iop -> num -> num -> num.
  Let A := assign sat inexact.

  (* literals match by == and bind nothing *)
  Lemma assign_lit : forall fuel l rt v s,
    A (S fuel) (PLit l) rt v s = (s, if veq l v then Ok tt else Err EType).
  Proof. intros. unfold A. cbn [assign]. destruct (veq l v); reflexivity. Qed.

  (* `or` takes the first alternative that succeeds; the second is tried (on the store the first
     left behind) only when the first raised *)
  Lemma assign_or : forall fuel a b rt v s,
    A (S fuel) (POr a b) rt v s =
      match A fuel a rt v s with
      | (s1, Ok _) => (s1, Ok tt)
      | (s1, Err _) => A fuel b rt v s1
      | (s1, e) => (s1, e)
      end.
  Proof. reflexivity. Qed.

  (* `and` binds both, left to right, against the same value *)
  Lemma assign_and : forall fuel a b rt v s,
    A (S fuel) (PAnd a b) rt v s = andthen (A fuel a rt v s) (A fuel b rt v).
  Proof. reflexivity. Qed.

  (* a wildcard binds nothing; it only checks the declared type in force *)
  Lemma assign_wild : forall fuel rt v s,
    A (S fuel) PWild rt v s =
      match rt with Some t => check_type sat s t v | None => (s, Ok tt) end.
  Proof. reflexivity. Qed.

  (* ---------- switch *)
  Let arm_result (p : pat) (v : val) : res := assign_top sat inexact p (Some TAny) v [].

  Lemma switch_from_spec : forall arms k v i s,
    switch_from sat inexact k arms v = Ok (i, s) ->
    exists j, i = (k + j)%nat /\ (j < length arms)%nat /\
      arm_result (nth j arms PWild) v = (s, Ok tt) /\
      forall j', (j' < j)%nat -> exists s' c, arm_result (nth j' arms PWild) v = (s', Err c).
  Proof.
    induction arms as [|p arms IH]; intros k v i s H; cbn [switch_from] in H; [discriminate|].
    fold (arm_result p v) in H.
    destruct (arm_result p v) as [s0 [[]|c| |]] eqn:E; try discriminate.
    - injection H as <- <-. exists 0%nat. cbn [nth length].
      split; [lia|]. split; [lia|]. split; [exact E|]. intros j' Hj. lia.
    - apply IH in H as (j & -> & Hlt & Hj & Hprev). exists (S j). cbn [nth length].
      split; [lia|]. split; [lia|]. split; [exact Hj|].
      intros [|j'] Hj'; [eauto|]. apply Hprev. lia.
  Qed.

  (* switch runs the first arm whose pattern matches: every earlier arm raised *)
  Theorem switch_first_match : forall arms v i s,
    switch sat inexact arms v = Ok (i, s) ->
    (i < length arms)%nat /\ arm_result (nth i arms PWild) v = (s, Ok tt) /\
    forall j, (j < i)%nat -> exists s' c, arm_result (nth j arms PWild) v = (s', Err c).
  Proof.
    intros arms v i s H. unfold switch in H. apply switch_from_spec in H as (j & -> & H1 & H2 & H3).
    cbn [Nat.add]. auto.
  Qed.

  Lemma switch_from_complete : forall arms k v j s,
    (j < length arms)%nat -> arm_result (nth j arms PWild) v = (s, Ok tt) ->
    (forall j', (j' < j)%nat -> exists s' c, arm_result (nth j' arms PWild) v = (s', Err c)) ->
    switch_from sat inexact k arms v = Ok ((k + j)%nat, s).
  Proof.
    induction arms as [|p arms IH]; intros k v j s Hlt Hj Hprev; cbn [length] in Hlt; [lia|].
    cbn [switch_from]. fold (arm_result p v). destruct j as [|j].
    - cbn [nth] in Hj. rewrite Hj. rewrite Nat.add_0_r. reflexivity.
    - destruct (Hprev 0%nat ltac:(lia)) as (s' & c & E). cbn [nth] in E. rewrite E.
      replace (k + S j)%nat with (S k + j)%nat by lia. apply IH; [lia|exact Hj|].
      intros j' Hj'. apply (Hprev (S j')). lia.
  Qed.
  (* ... and conversely the first arm that matches is the one taken *)
  Theorem switch_takes_first : forall arms v j s,
    (j < length arms)%nat -> arm_result (nth j arms PWild) v = (s, Ok tt) ->
    (forall j', (j' < j)%nat -> exists s' c, arm_result (nth j' arms PWild) v = (s', Err c)) ->
    switch sat inexact arms v = Ok (j, s).
  Proof. intros. unfold switch. apply (switch_from_complete arms 0 v j s); assumption. Qed.

  Lemma switch_from_none : forall arms k v,
    (forall p, In p arms -> exists s' c, arm_result p v = (s', Err c)) ->
    switch_from sat inexact k arms v = Err EValue.
  Proof.
    induction arms as [|p arms IH]; intros k v H; cbn [switch_from]; [reflexivity|].
    fold (arm_result p v). destruct (H p (or_introl eq_refl)) as (s' & c & ->).
    apply IH. intros q Hq. apply H. right. exact Hq.
  Qed.
  (* no arm matches: a (catchable) value error *)
  Theorem switch_no_match_raises : forall arms v,
    (forall p, In p arms -> exists s' c, arm_result p v = (s', Err c)) ->
    switch sat inexact arms v = Err EValue.
  Proof. intros. apply switch_from_none. assumption. Qed.

  Theorem switch_total : (forall pid v, sat pid v <> Panic) -> (forall pid v, sat pid v <> OutOfFuel) ->
    forall arms v, switch sat inexact arms v <> Panic /\ switch sat inexact arms v <> OutOfFuel.
  Proof.
    intros H1 H2 arms v. unfold switch. generalize 0%nat.
    induction arms as [|p arms IH]; intros k; cbn [switch_from]; [split; discriminate|].
    pose proof (assign_top_total sat inexact H1 H2 p (Some TAny) v []) as [Hp Hf].
    destruct (assign_top sat inexact p (Some TAny) v []) as [s0 [[]|c| |]]; cbn [snd] in *;
      try (split; discriminate); try congruence. apply IH.
  Qed.

  (* catch: the handler runs iff the thrown value matches; otherwise the error is raised again *)
  Theorem catch_bind_spec : forall p e,
    match arm_result p e with
    | (s, Ok _) => catch_bind sat inexact p e = Ok s
    | (_, Err c) => catch_bind sat inexact p e = Err c
    | _ => True
    end.
  Proof. intros. unfold catch_bind, arm_result. destruct (assign_top _ _ _ _ _ _) as [s [[]|c| |]]; auto. Qed.
End Simple.
