(* Lang/Eval_wf.v - well-formed stores (property C05): in every reachable state each frame's
   parent has a smaller id, and every closure anywhere - in a variable, in the printed output,
   in a result or a signal - points to an existing frame. *)
From Coq Require Import ZArith String List Bool Lia.
From NV Require Import Lang.Syntax Lang.Eval Lang.Eval_proofs.
Import ListNotations.
Open Scope string_scope.
Open Scope list_scope.

Fixpoint vok (N : nat) (v : val) : bool :=
  match v with
  | VClos _ _ env => Nat.ltb env N
  | VList l => forallb (vok N) l
  | VDict kvs => forallb (fun kv => vok N (fst kv) && vok N (snd kv)) kvs
  | _ => true
  end.
Definition voks (N : nat) (l : list val) : bool := forallb (vok N) l.

Lemma val_ind' (P : val -> Prop) :
  P VNull -> (forall z, P (VInt z)) -> (forall s, P (VStr s)) ->
  (forall l, Forall P l -> P (VList l)) ->
  (forall kvs, Forall (fun kv => P (fst kv) /\ P (snd kv)) kvs -> P (VDict kvs)) ->
  (forall ps b env, P (VClos ps b env)) -> P VErr -> forall v, P v.
Proof.
  intros Hn Hi Hs Hl Hd Hc He. fix IH 1. intros [ |z|s|l|kvs|ps b env| ].
  - exact Hn.
  - apply Hi.
  - apply Hs.
  - apply Hl. revert l. fix IHl 1. intros [|x r]; constructor; [apply IH|apply IHl].
  - apply Hd. revert kvs. fix IHl 1. intros [|[k x] r]; constructor; [split; apply IH|apply IHl].
  - apply Hc.
  - exact He.
Qed.

Lemma vok_mono : forall N M, N <= M -> forall v, vok N v = true -> vok M v = true.
Proof.
  intros N M H. induction v using val_ind'; cbn [vok]; auto.
  - rewrite !forallb_forall. intros A x Hx. rewrite Forall_forall in H0. auto.
  - rewrite !forallb_forall. intros A x Hx. rewrite Forall_forall in H0.
    specialize (A x Hx). apply andb_true_iff in A. destruct A. destruct (H0 x Hx).
    apply andb_true_iff. auto.
  - rewrite !Nat.ltb_lt. lia.
Qed.

Lemma voks_mono : forall N M l, N <= M -> voks N l = true -> voks M l = true.
Proof.
  intros N M l H. unfold voks. rewrite !forallb_forall. intros A x Hx. eapply vok_mono; eauto.
Qed.

Definition frame_ok (N f : nat) (fr : frame) : bool :=
  match parent fr with Some p => Nat.ltb p f | None => true end
  && forallb (fun xv => vok N (snd xv)) (vars fr).

Definition len (st : state) : nat := List.length (frames st).

Definition wf_state (st : state) : Prop :=
  (forall f fr, nth_error (frames st) f = Some fr -> frame_ok (len st) f fr = true) /\
  forallb (voks (len st)) (out st) = true.

Lemma frame_ok_mono : forall N M f fr, N <= M -> frame_ok N f fr = true -> frame_ok M f fr = true.
Proof.
  intros N M f fr H. unfold frame_ok. rewrite !andb_true_iff. intros [A B]. split; [assumption|].
  rewrite forallb_forall in *. intros x Hx. eapply vok_mono; eauto.
Qed.

Lemma wf_init : wf_state init_state.
Proof. split; [|reflexivity]. intros [|[|f]] fr H; cbn in H; inversion H. reflexivity. Qed.

Lemma wf_push : forall st p, wf_state st -> p < len st -> wf_state (fst (push_frame st p)).
Proof.
  intros st p [Hf Ho] Hp. unfold wf_state, len in *. cbn [push_frame fst frames out].
  rewrite app_length. cbn [List.length]. split.
  - intros f fr H. destruct (Nat.lt_ge_cases f (List.length (frames st))) as [L|L].
    + rewrite nth_error_app1 in H by assumption. eapply frame_ok_mono; [|eapply Hf; eassumption]. lia.
    + rewrite nth_error_app2 in H by assumption.
      destruct (f - List.length (frames st)) as [|k] eqn:E; cbn in H; [|destruct k; discriminate].
      inversion H. unfold frame_ok. cbn. rewrite andb_true_r. apply Nat.ltb_lt. lia.
  - rewrite forallb_forall in *. intros l Hl. eapply voks_mono; [|apply Ho; assumption]. lia.
Qed.

Lemma len_push : forall st p, len (fst (push_frame st p)) = S (len st).
Proof. intros. unfold len. cbn. rewrite app_length. cbn. lia. Qed.

Lemma wf_set_frame : forall st g fr fr',
  wf_state st -> nth_error (frames st) g = Some fr -> parent fr' = parent fr ->
  forallb (fun xv => vok (len st) (snd xv)) (vars fr') = true ->
  wf_state (mkState (set_nth g fr' (frames st)) (out st)) /\ len (mkState (set_nth g fr' (frames st)) (out st)) = len st.
Proof.
  intros st g fr fr' [Hf Ho] Hg Hp Hv.
  assert (L : len (mkState (set_nth g fr' (frames st)) (out st)) = len st)
    by (unfold len; cbn; apply length_set_nth).
  split; [|assumption]. unfold wf_state. rewrite L. cbn [frames out]. split; [|assumption].
  intros f fr0 H. destruct (Nat.eq_dec f g) as [->|Hne].
  - erewrite nth_error_set_nth_eq in H by eassumption. inversion H; subst fr0.
    specialize (Hf g fr Hg). unfold frame_ok in *. rewrite Hp. apply andb_true_iff in Hf. destruct Hf as [A _].
    rewrite A, Hv. reflexivity.
  - rewrite nth_error_set_nth_neq in H by congruence. apply Hf. assumption.
Qed.

Lemma frame_vars_ok : forall st f fr, wf_state st -> nth_error (frames st) f = Some fr ->
  forallb (fun xv => vok (len st) (snd xv)) (vars fr) = true.
Proof. intros st f fr [Hf _] H. specialize (Hf f fr H). unfold frame_ok in Hf. apply andb_true_iff in Hf. tauto. Qed.

Lemma wf_declare : forall st f x v st', wf_state st -> vok (len st) v = true ->
  declare st f x v = Some st' -> wf_state st' /\ len st' = len st.
Proof.
  intros st f x v st' W Hv H. unfold declare in H.
  destruct (nth_error (frames st) f) as [fr|] eqn:E; [|discriminate].
  destruct (in_dom x fr); inversion H; subst st'.
  eapply wf_set_frame; eauto. cbn [vars forallb snd]. rewrite Hv. eapply frame_vars_ok; eauto.
Qed.

Lemma assoc_set_ok : forall N x v l, vok N v = true ->
  forallb (fun xv => vok N (snd xv)) l = true -> forallb (fun xv => vok N (snd xv)) (assoc_set x v l) = true.
Proof.
  induction l as [|[y w] l IH]; cbn; auto. intros Hv H. apply andb_true_iff in H. destruct H as [A B].
  destruct (String.eqb x y); cbn; rewrite ?Hv, ?A, ?B; auto.
Qed.

Lemma wf_assign : forall st f x v st', wf_state st -> vok (len st) v = true ->
  assign st f x v = Some st' -> wf_state st' /\ len st' = len st.
Proof.
  intros st f x v st' W Hv H. unfold assign in H.
  destruct (resolve (frames st) f x) as [g|]; [|discriminate].
  destruct (nth_error (frames st) g) as [fr|] eqn:E; inversion H; subst st'.
  eapply wf_set_frame; eauto. cbn [vars]. apply assoc_set_ok; [assumption|]. eapply frame_vars_ok; eauto.
Qed.

Lemma assoc_ok : forall N x l v, forallb (fun xv => vok N (snd xv)) l = true -> assoc x l = Some v -> vok N v = true.
Proof.
  induction l as [|[y w] l IH]; cbn; [discriminate|]. intros v H. apply andb_true_iff in H. destruct H as [A B].
  destruct (String.eqb x y); [intros E; inversion E; subst; assumption|apply IH; assumption].
Qed.

Lemma lookup_ok : forall st f x v, wf_state st -> lookup (frames st) f x = Some v -> vok (len st) v = true.
Proof.
  intros st f x v W H. unfold lookup in H.
  destruct (resolve (frames st) f x) as [g|]; [|discriminate].
  destruct (nth_error (frames st) g) as [fr|] eqn:E; [|discriminate].
  eapply assoc_ok; [eapply frame_vars_ok; eauto|eassumption].
Qed.

(* ---------------------------------------------------------------- outcomes *)
Definition sig_ok (N : nat) (s : signal) : bool :=
  match s with
  | SBreak _ (Some v) => vok N v
  | SReturn v => vok N v
  | SThrow v => vok N v
  | _ => true
  end.

Definition good {A} (okA : nat -> A -> bool) (st : state) (o : result A) : Prop :=
  len st <= len (fst o) /\ wf_state (fst o) /\
  match snd o with
  | Val a => okA (len (fst o)) a = true
  | Sig s => sig_ok (len (fst o)) s = true
  | OutOfFuel => True
  end.

Definition okU (N : nat) (u : unit) : bool := true.

Lemma good_val {A} (okA : nat -> A -> bool) st a : wf_state st -> okA (len st) a = true -> good okA st (st, Val a).
Proof. intros W H. split; [cbn; lia|split; [exact W|exact H]]. Qed.
Lemma good_sig {A} (okA : nat -> A -> bool) st s : wf_state st -> sig_ok (len st) s = true -> good okA st (st, Sig s).
Proof. intros W H. split; [cbn; lia|split; [exact W|exact H]]. Qed.
Lemma good_oof {A} (okA : nat -> A -> bool) st : wf_state st -> good okA st (st, OutOfFuel).
Proof. intros W. split; [cbn; lia|split; [exact W|exact I]]. Qed.

Lemma good_weaken {A} (okA : nat -> A -> bool) st0 st o : len st0 <= len st -> good okA st o -> good okA st0 o.
Proof. intros H [A1 [A2 A3]]. split; [lia|split; assumption]. Qed.

Lemma good_bind {A B} (okA : nat -> A -> bool) (okB : nat -> B -> bool) st (o : result A) (k : state -> A -> result B) :
  good okA st o ->
  (forall st1 a, len st <= len st1 -> wf_state st1 -> okA (len st1) a = true -> good okB st1 (k st1 a)) ->
  good okB st (bindR o k).
Proof.
  destruct o as [st1 [a|s|]]; intros [A1 [A2 A3]] Hk; cbn in *.
  - eapply good_weaken; [|apply Hk; auto]. assumption.
  - split; [assumption|split; assumption].
  - split; [assumption|split; assumption].
Qed.

Definition binds_ok (N : nat) (bs : list (name * val)) : bool := forallb (fun xv => vok N (snd xv)) bs.

Lemma declare_all_good : forall bs st f, wf_state st -> binds_ok (len st) bs = true ->
  good okU st (declare_all st f bs).
Proof.
  induction bs as [|[x v] bs IH]; intros st f W H; cbn [declare_all].
  - apply good_val; auto.
  - cbn in H. apply andb_true_iff in H. destruct H as [Hv Hb].
    destruct (declare st f x v) as [st1|] eqn:E.
    + destruct (wf_declare _ _ _ _ _ W Hv E) as [W1 L1].
      eapply good_weaken; [|apply IH; [assumption|rewrite L1; assumption]]. lia.
    + apply good_sig; auto.
Qed.

Lemma assign_all_good : forall bs st f, wf_state st -> binds_ok (len st) bs = true ->
  good okU st (assign_all st f bs).
Proof.
  induction bs as [|[x v] bs IH]; intros st f W H; cbn [assign_all].
  - apply good_val; auto.
  - cbn in H. apply andb_true_iff in H. destruct H as [Hv Hb].
    destruct (assign st f x v) as [st1|] eqn:E.
    + destruct (wf_assign _ _ _ _ _ W Hv E) as [W1 L1].
      eapply good_weaken; [|apply IH; [assumption|rewrite L1; assumption]]. lia.
    + apply good_sig; auto.
Qed.

Lemma binds_ok_combine : forall N xs l, voks N l = true -> binds_ok N (combine xs l) = true.
Proof.
  induction xs as [|x xs IH]; intros [|v l] H; cbn; auto.
  cbn in H. apply andb_true_iff in H. destruct H. rewrite H. cbn. apply IH. assumption.
Qed.

Lemma binds_ok_app : forall N a b, binds_ok N (a ++ b) = binds_ok N a && binds_ok N b.
Proof. intros. apply forallb_app. Qed.

Lemma voks_app : forall N a b, voks N (a ++ b) = voks N a && voks N b.
Proof. intros. apply forallb_app. Qed.

Lemma voks_firstn : forall N n l, voks N l = true -> voks N (firstn n l) = true.
Proof.
  intros N. induction n as [|n IH]; intros [|v l] H; cbn; auto.
  cbn in H. apply andb_true_iff in H. destruct H as [A B]. rewrite A. apply IH. exact B.
Qed.
Lemma voks_skipn : forall N n l, voks N l = true -> voks N (skipn n l) = true.
Proof.
  intros N. induction n as [|n IH]; intros [|v l] H; cbn; auto.
  cbn in H. apply andb_true_iff in H. destruct H as [A B]. apply IH. exact B.
Qed.

Lemma wf_print : forall st vs, wf_state st -> voks (len st) vs = true ->
  wf_state (mkState (frames st) (out st ++ [vs])).
Proof.
  intros st vs [Hf Ho] H. split; [exact Hf|]. unfold len in *. cbn [frames out].
  rewrite forallb_app, Ho. cbn. rewrite H. reflexivity.
Qed.

Lemma vbool_ok : forall N b, vok N (vbool b) = true.
Proof. reflexivity. Qed.

Lemma prim_apply_good : forall p vs st, wf_state st -> voks (len st) vs = true ->
  good vok st (prim_apply p vs st).
Proof.
  intros p vs st W H.
  assert (U : good vok st (unsupported st)) by (apply good_sig; auto).
  assert (R : forall v, vok (len st) v = true -> good vok st (ret st v)) by (intros; apply good_val; auto).
  destruct p; cbn [prim_apply];
    try solve [repeat match goal with |- context [match ?x with _ => _ end] => destruct x end;
               first [exact U | apply R; reflexivity]].
  - (* PAppend *)
    repeat match goal with |- context [match ?x with _ => _ end] => destruct x end; try exact U.
    apply R. cbn in H. cbn [vok]. rewrite forallb_app. cbn.
    repeat (apply andb_true_iff in H; destruct H as [? H]). rewrite H0, H1. reflexivity.
  - (* PPrint *) unfold ret. split; [cbn; unfold len; cbn; lia|split; [apply wf_print; assumption|reflexivity]].
Qed.

Lemma iter_elems_ok : forall N v l, vok N v = true -> iter_elems v = TOk l -> voks N l = true.
Proof. intros N v l0 H E. destruct v; cbn in E; inversion E; subst. exact H. Qed.

Lemma enum_from_ok : forall N l i, voks N l = true ->
  forallb (fun p => vok N (snd p)) (enum_from i l) = true.
Proof.
  induction l as [|v l IH]; intros i H; cbn; auto. cbn in H. apply andb_true_iff in H. destruct H as [A B].
  rewrite A. cbn. apply IH. assumption.
Qed.

Lemma forallb_map' {A B} (f : A -> B) (p : B -> bool) (l : list A) :
  forallb p (map f l) = forallb (fun a => p (f a)) l.
Proof. induction l; cbn; congruence. Qed.

Lemma clause_bindings_ok : forall N c v bss, vok N v = true -> clause_bindings c v = TOk bss ->
  forallb (binds_ok N) bss = true.
Proof.
  intros N c v bss H E. destruct c; cbn in E.
  - destruct (iter_elems v) as [l| |] eqn:I; inversion E; subst.
    pose proof (iter_elems_ok _ _ _ H I) as L. rewrite forallb_map'. unfold voks in L.
    rewrite forallb_forall in *. intros y Hy. cbn. rewrite (L y Hy). reflexivity.
  - destruct (iter_elems v) as [l| |] eqn:I; inversion E; subst.
    pose proof (enum_from_ok N l 0%Z (iter_elems_ok _ _ _ H I)) as L. rewrite forallb_map'.
    rewrite forallb_forall in *. intros y Hy. cbn. rewrite (L y Hy). reflexivity.
  - inversion E; subst. cbn. rewrite H. reflexivity.
  - inversion E; subst. reflexivity.
Qed.

Lemma unpack_ok : forall N xs v bs, vok N v = true -> unpack xs v = TOk bs -> binds_ok N bs = true.
Proof.
  intros N xs v bs H E. destruct v; cbn in E; try discriminate.
  destruct (Nat.eqb _ _); inversion E; subst. apply binds_ok_combine. exact H.
Qed.

Lemma match_cpat_ok : forall N p v bs, vok N v = true -> match_cpat p v = TOk bs -> binds_ok N bs = true.
Proof.
  intros N p v bs H E. destruct p; cbn in E.
  - inversion E; subst. cbn. rewrite H. reflexivity.
  - destruct v; try discriminate. destruct (Z.eqb _ _); inversion E; reflexivity.
  - destruct v; try discriminate. destruct (String.eqb _ _); inversion E; reflexivity.
  - destruct t as [[]|]; destruct v; inversion E; reflexivity.
  - destruct v; try discriminate. destruct (_ && _); inversion E; subst. apply binds_ok_combine. exact H.
Qed.

Lemma voks_cons : forall N v l, voks N (v :: l) = vok N v && voks N l.
Proof. reflexivity. Qed.

Lemma binds_ok_mono : forall N M bs, N <= M -> binds_ok N bs = true -> binds_ok M bs = true.
Proof.
  intros N M bs H. unfold binds_ok. rewrite !forallb_forall. intros A x Hx. eapply vok_mono; eauto.
Qed.

Lemma bss_ok_mono : forall N M bss, N <= M -> forallb (binds_ok N) bss = true -> forallb (binds_ok M) bss = true.
Proof.
  intros N M bss H. rewrite !forallb_forall. intros A x Hx. eapply binds_ok_mono; eauto.
Qed.

(* outcomes of the for machinery: the accumulated values are well-formed whatever the outcome *)
Definition goodF (st : state) (o : fres) : Prop :=
  len st <= len (fst (fst o)) /\ wf_state (fst (fst o)) /\ voks (len (fst (fst o))) (snd (fst o)) = true /\
  match snd o with Sig s => sig_ok (len (fst (fst o))) s = true | _ => True end.

Lemma goodF_weaken st0 st o : len st0 <= len st -> goodF st o -> goodF st0 o.
Proof. intros H [A [B C]]. split; [lia|split; assumption]. Qed.

Lemma dict_put_ok : forall N k v d, vok N k = true -> vok N v = true ->
  forallb (fun kv => vok N (fst kv) && vok N (snd kv)) d = true ->
  forallb (fun kv => vok N (fst kv) && vok N (snd kv)) (dict_put k v d) = true.
Proof.
  induction d as [|[k' v'] d IH]; intros Hk Hv H; cbn [dict_put].
  - cbn. rewrite Hk, Hv. reflexivity.
  - cbn in H. apply andb_true_iff in H. destruct H as [A B]. apply andb_true_iff in A. destruct A as [A1 A2].
    destruct (veqb k k'); cbn; rewrite ?A1, ?A2, ?Hv, ?B; auto.
Qed.

Lemma dict_of_pairs_ok : forall N acc d, voks N acc = true ->
  forallb (fun kv => vok N (fst kv) && vok N (snd kv)) d = true ->
  forallb (fun kv => vok N (fst kv) && vok N (snd kv)) (dict_of_pairs acc d) = true.
Proof.
  induction acc as [|a acc IH]; intros d H Hd; cbn [dict_of_pairs]; [assumption|].
  rewrite voks_cons in H. apply andb_true_iff in H. destruct H as [A B].
  destruct a as [ | | |[|k [|v [|? ?]]]| | | ]; try (apply IH; assumption).
  apply IH; [assumption|]. cbn in A. repeat (apply andb_true_iff in A; destruct A as [? A]).
  apply dict_put_ok; assumption.
Qed.

Lemma last_ok : forall N l, voks N l = true -> vok N (last l VNull) = true.
Proof.
  induction l as [|a [|b l] IH]; intros H; cbn [last]; auto.
  - cbn in H. apply andb_true_iff in H. tauto.
  - rewrite voks_cons in H. apply andb_true_iff in H. destruct H. apply IH. assumption.
Qed.

Lemma finish_ok : forall N body acc, voks N acc = true -> vok N (finish body acc) = true.
Proof.
  intros N body acc H. destruct body as [?|?|? ?|? []]; cbn [finish vok]; auto.
  - apply dict_of_pairs_ok; auto.
  - apply last_ok. assumption.
Qed.

Lemma for_result_good : forall body st o, goodF st o -> good vok st (for_result body o).
Proof.
  intros body st [[st1 acc] r] [L [W [A S]]]. cbn [fst snd] in *.
  assert (F : good vok st (finish_res st1 body acc)).
  { eapply good_weaken; [exact L|]. unfold finish_res.
    destruct body as [?|?|? ?|? []]; try (apply good_val; [assumption|apply finish_ok; assumption]);
      try (apply good_sig; [assumption|reflexivity]).
    destruct acc; [apply good_sig; [assumption|reflexivity]|apply good_val; [assumption|apply finish_ok; assumption]]. }
  unfold for_result.
  destruct r as [u|[[|k] [v|]|[|k]|v|v|]|]; try exact F;
    (split; [exact L|split; [exact W|cbn in *; auto]]).
Qed.

Definition good_rec (rec : rec_t) : Prop :=
  forall st cur e, wf_state st -> cur < len st -> good vok st (rec st cur e).

Section WfRec.
  Variable rec : rec_t.
  Hypothesis Hrec : good_rec rec.

  Lemma eval_items_good : forall items st cur, wf_state st -> cur < len st ->
    good voks st (eval_items rec st cur items).
  Proof.
    induction items as [|[sp e] rest IH]; intros st cur W C; cbn [eval_items].
    - apply good_val; auto.
    - eapply good_bind; [apply Hrec; assumption|]. intros st1 v L1 W1 V1.
      destruct sp.
      + destruct (iter_elems v) as [l| |] eqn:I; [|apply good_sig; auto|apply good_sig; auto].
        eapply good_bind; [apply IH; [assumption|lia]|]. intros st2 vs L2 W2 V2.
        apply good_val; [assumption|]. rewrite voks_app, V2, andb_true_r.
        eapply voks_mono; [exact L2|]. eapply iter_elems_ok; eassumption.
      + eapply good_bind; [apply IH; [assumption|lia]|]. intros st2 vs L2 W2 V2.
        apply good_val; [assumption|]. rewrite voks_cons, V2, andb_true_r. eapply vok_mono; eassumption.
  Qed.

  Lemma eval_exprs_good : forall es st cur, wf_state st -> cur < len st -> good voks st (eval_exprs rec st cur es).
  Proof. intros. apply eval_items_good; assumption. Qed.

  Lemma eval_seq_good : forall es st cur, wf_state st -> cur < len st -> good vok st (eval_seq rec st cur es).
  Proof.
    induction es as [|e rest IH]; intros st cur W C; cbn [eval_seq].
    - apply good_val; auto.
    - eapply good_bind; [apply Hrec; assumption|]. intros st1 v L1 W1 V1.
      destruct rest; [apply good_val; assumption|]. apply IH; [assumption|lia].
  Qed.

  Lemma for_each_good (k : state -> nat -> list val -> fres) :
    (forall st fr acc, wf_state st -> fr < len st -> voks (len st) acc = true -> goodF st (k st fr acc)) ->
    forall bss cur st acc, wf_state st -> cur < len st -> forallb (binds_ok (len st)) bss = true ->
      voks (len st) acc = true -> goodF st (for_each k cur bss st acc).
  Proof.
    intros Hk. induction bss as [|bs bss IH]; intros cur st acc W C B A; cbn [for_each].
    - try unfold goodF; cbn [fst snd]; split; [lia|split; [exact W|split; [exact A|exact I]]].
    - cbn in B. apply andb_true_iff in B. destruct B as [B1 B2].
      pose proof (wf_push st cur W C) as W1. pose proof (len_push st cur) as L1.
      destruct (push_frame st cur) as [st1 fr] eqn:Ep.
      assert (Hfr : fr = len st) by (unfold push_frame in Ep; inversion Ep; reflexivity).
      cbn [fst] in W1, L1.
      assert (B1' : binds_ok (len st1) bs = true) by (eapply binds_ok_mono; [|exact B1]; lia).
      pose proof (declare_all_good bs st1 fr W1 B1') as [D1 [D2 D3]].
      destruct (declare_all st1 fr bs) as [st2 [u|s|]]; cbn [fst snd] in D1, D2, D3.
      + assert (Ak : voks (len st2) acc = true) by (eapply voks_mono; [|exact A]; lia).
        pose proof (Hk st2 fr acc D2 ltac:(lia) Ak) as [K1 [K2 [K3 K4]]].
        destruct (k st2 fr acc) as [[st3 acc'] [u'|s|]]; cbn [fst snd] in K1, K2, K3, K4.
        * eapply goodF_weaken; [|apply IH; [exact K2|lia| |exact K3]]; [lia|].
          eapply bss_ok_mono; [|exact B2]. lia.
        * try unfold goodF; cbn [fst snd]; split; [lia|split; [exact K2|split; [exact K3|exact K4]]].
        * try unfold goodF; cbn [fst snd]; split; [lia|split; [exact K2|split; [exact K3|exact I]]].
      + try unfold goodF; cbn [fst snd]; split; [lia|split; [exact D2|split; [eapply voks_mono; [|exact A]; lia|exact D3]]].
      + try unfold goodF; cbn [fst snd]; split; [lia|split; [exact D2|split; [eapply voks_mono; [|exact A]; lia|exact I]]].
  Qed.

  Lemma eval_for_good (cb : state -> nat -> list val -> fres) :
    (forall st fr acc, wf_state st -> fr < len st -> voks (len st) acc = true -> goodF st (cb st fr acc)) ->
    forall cls st cur acc, wf_state st -> cur < len st -> voks (len st) acc = true ->
      goodF st (eval_for rec cls cb st cur acc).
  Proof.
    intros Hcb. induction cls as [|c rest IH]; intros st cur acc W C A; cbn [eval_for].
    - pose proof (Hcb st cur acc W C A) as [K1 [K2 [K3 K4]]].
      destruct (cb st cur acc) as [[st1 acc1] [u|s|]]; cbn [fst snd] in *;
        try (try unfold goodF; cbn [fst snd]; split; [lia|split; [exact K2|split; [exact K3|exact K4]]]).
      destruct s as [? ?|[|?]| | |]; split; try (cbn; lia); split; try exact K2; split; try exact K3; try exact K4; exact I.
    - pose proof (Hrec st cur (clause_expr c) W C) as [R1 [R2 R3]].
      destruct (rec st cur (clause_expr c)) as [st1 [v|s|]]; cbn [fst snd] in R1, R2, R3.
      + assert (A1 : voks (len st1) acc = true) by (eapply voks_mono; [|exact A]; lia).
        assert (Hb : forall bss, clause_bindings c v = TOk bss ->
                  goodF st (for_each (eval_for rec rest cb) cur bss st1 acc)).
        { intros bss E. eapply goodF_weaken; [exact R1|].
          apply for_each_good;
            [intros; apply IH; assumption | assumption | lia | eapply clause_bindings_ok; eassumption | assumption]. }
        assert (Hbad : forall s, sig_ok (len st1) s = true -> goodF st (st1, acc, Sig s))
          by (intros; try unfold goodF; cbn [fst snd]; split; [lia|split; [exact R2|split; [exact A1|assumption]]]).
        destruct c; try (destruct (clause_bindings _ v) eqn:E; [apply Hb; reflexivity|apply Hbad; reflexivity|apply Hbad; reflexivity]).
        destruct (truthy v).
        * eapply goodF_weaken; [exact R1|]. apply IH; [assumption|lia|assumption].
        * try unfold goodF; cbn [fst snd]; split; [lia|split; [exact R2|split; [exact A1|exact I]]].
      + try unfold goodF; cbn [fst snd]; split; [lia|split; [exact R2|split; [eapply voks_mono; [|exact A]; lia|exact R3]]].
      + try unfold goodF; cbn [fst snd]; split; [lia|split; [exact R2|split; [eapply voks_mono; [|exact A]; lia|exact I]]].
  Qed.

  Lemma for_body_good body : forall st fr acc, wf_state st -> fr < len st -> voks (len st) acc = true ->
    goodF st (for_body rec body st fr acc).
  Proof.
    intros st fr acc W C A.
    assert (Hacc : forall st1, len st <= len st1 -> voks (len st1) acc = true)
      by (intros; eapply voks_mono; [|exact A]; lia).
    assert (Step : forall b, let o := rec st fr b in
               len st <= len (fst o) /\ wf_state (fst o) /\
               match snd o with Val v => vok (len (fst o)) v = true | Sig s => sig_ok (len (fst o)) s = true | _ => True end)
      by (intros b; apply (Hrec st fr b W C)).
    destruct body as [b|b|kb vb|b rd]; cbn [for_body].
    - destruct (Step b) as [R1 [R2 R3]]. destruct (rec st fr b) as [st1 [v|s|]]; cbn [fst snd] in *;
        (try unfold goodF; cbn [fst snd]; split; [lia|split; [exact R2|split; [apply Hacc; assumption|first [exact R3|exact I]]]]).
    - destruct (Step b) as [R1 [R2 R3]]. destruct (rec st fr b) as [st1 [v|s|]]; cbn [fst snd] in *.
      + try unfold goodF; cbn [fst snd]; split; [lia|split; [exact R2|split; [|exact I]]]. cbn [fst snd].
        rewrite voks_app, (Hacc st1 R1). cbn. rewrite R3. reflexivity.
      + try unfold goodF; cbn [fst snd]; split; [lia|split; [exact R2|split; [apply Hacc; assumption|exact R3]]].
      + try unfold goodF; cbn [fst snd]; split; [lia|split; [exact R2|split; [apply Hacc; assumption|exact I]]].
    - destruct (Step kb) as [R1 [R2 R3]]. destruct (rec st fr kb) as [st1 [k|s|]]; cbn [fst snd] in *.
      + destruct (key_check k);
          try (try unfold goodF; cbn [fst snd]; split; [lia|split; [exact R2|split; [apply Hacc; assumption|reflexivity]]]).
        pose proof (Hrec st1 fr vb R2 ltac:(lia)) as [S1 [S2 S3]].
        destruct (rec st1 fr vb) as [st2 [v|s|]]; cbn [fst snd] in *.
        * try unfold goodF; cbn [fst snd]; split; [lia|split; [exact S2|split; [|exact I]]]. cbn [fst snd].
          rewrite voks_app, (Hacc st2 ltac:(lia)). cbn. rewrite S3, (vok_mono _ _ S1 _ R3). reflexivity.
        * try unfold goodF; cbn [fst snd]; split; [lia|split; [exact S2|split; [apply Hacc; lia|exact S3]]].
        * try unfold goodF; cbn [fst snd]; split; [lia|split; [exact S2|split; [apply Hacc; lia|exact I]]].
      + try unfold goodF; cbn [fst snd]; split; [lia|split; [exact R2|split; [apply Hacc; assumption|exact R3]]].
      + try unfold goodF; cbn [fst snd]; split; [lia|split; [exact R2|split; [apply Hacc; assumption|exact I]]].
    - destruct (Step b) as [R1 [R2 R3]]. destruct (rec st fr b) as [st1 [v|s|]]; cbn [fst snd] in *.
      + assert (G : goodF st (st1, acc ++ [v], Val tt)).
        { try unfold goodF; cbn [fst snd]; split; [lia|split; [exact R2|split; [|exact I]]]. cbn [fst snd].
          rewrite voks_app, (Hacc st1 R1). cbn. rewrite R3. reflexivity. }
        destruct rd; try exact G.
        * try unfold goodF; cbn [fst snd]; split; [lia|split; [exact R2|split; [apply Hacc; assumption|exact R3]]].
        * destruct v; try exact G; (try unfold goodF; cbn [fst snd]; split; [lia|split; [exact R2|split; [apply Hacc; assumption|reflexivity]]]).
      + try unfold goodF; cbn [fst snd]; split; [lia|split; [exact R2|split; [apply Hacc; assumption|exact R3]]].
      + try unfold goodF; cbn [fst snd]; split; [lia|split; [exact R2|split; [apply Hacc; assumption|exact I]]].
  Qed.
End WfRec.

Lemma call_result_good : forall st o, good vok st o -> good vok st (call_result o).
Proof.
  intros st [st1 [v|[]|]] [A [B C]]; cbn [call_result]; split; try assumption; split; assumption.
Qed.

Lemma eval_result_good : forall st o, good vok st o -> good vok st (eval_result o).
Proof.
  intros st [st1 [v|[]|]] [A [B C]]; cbn [eval_result]; split; try assumption; split; try assumption; reflexivity.
Qed.

Section WfRec2.
  Variable rec : rec_t.
  Hypothesis Hrec : good_rec rec.

  Lemma bind_params_good : forall st fr ps args, wf_state st -> fr < len st -> voks (len st) args = true ->
    good okU st (bind_params rec st fr ps args).
  Proof.
    intros st fr ps args W C A. unfold bind_params.
    destruct (negb (params_ok ps)); [apply good_sig; auto|].
    destruct (scan_params ps 0 None [] (List.length args)) as [[[si|] dip]|]; [| |apply good_sig; auto].
    - eapply good_bind; [apply eval_exprs_good; assumption|]. intros st1 dvs L1 W1 D1.
      destruct (Nat.ltb _ _); [apply good_sig; auto|].
      assert (R : voks (len st1) (args ++ dvs) = true)
        by (rewrite voks_app, D1, andb_true_r; eapply voks_mono; [|exact A]; lia).
      apply declare_all_good; [assumption|].
      rewrite !binds_ok_app. rewrite !binds_ok_combine; auto.
      + apply voks_skipn. assumption.
      + cbn. rewrite andb_true_r. change (voks (len st1) (skipn si (firstn (List.length (args ++ dvs) - (List.length ps - si - 1)) (args ++ dvs))) = true).
        apply voks_skipn, voks_firstn. assumption.
      + apply voks_firstn, voks_firstn. assumption.
    - destruct (Nat.eqb _ _); [|apply good_sig; auto].
      eapply good_bind; [apply eval_exprs_good; assumption|]. intros st1 dvs L1 W1 D1.
      apply declare_all_good; [assumption|]. apply binds_ok_combine.
      rewrite voks_app, D1, andb_true_r. eapply voks_mono; [|exact A]. lia.
  Qed.

  Lemma apply_val_good : forall st fv args, wf_state st -> vok (len st) fv = true -> voks (len st) args = true ->
    good vok st (apply_val rec st fv args).
  Proof.
    intros st fv args W F A.
    assert (Other : good vok st (match args with [VClos _ _ _] => unsupported st | _ => throw_err st end)).
    { destruct args as [|[] [|]]; apply good_sig; auto. }
    destruct fv; cbn [apply_val]; try exact Other.
    cbn [vok] in F. apply Nat.ltb_lt in F.
    pose proof (wf_push st env W F) as W1. pose proof (len_push st env) as L1.
    destruct (push_frame st env) as [st1 fr] eqn:Ep.
    assert (Hfr : fr = len st) by (unfold push_frame in Ep; inversion Ep; reflexivity).
    cbn [fst] in W1, L1.
    apply call_result_good. eapply good_weaken; [|eapply good_bind].
    - instantiate (1 := st1). lia.
    - apply bind_params_good; [assumption|lia|]. eapply voks_mono; [|exact A]. lia.
    - intros st2 u L2 W2 _. apply Hrec; [assumption|lia].
  Qed.

  Lemma switch_arms_good : forall arms st cur v, wf_state st -> cur < len st -> vok (len st) v = true ->
    good vok st (switch_arms rec st cur v arms).
  Proof.
    induction arms as [|[p body] rest IH]; intros st cur v W C V; cbn [switch_arms].
    - apply good_sig; auto.
    - pose proof (wf_push st cur W C) as W1. pose proof (len_push st cur) as L1.
      destruct (push_frame st cur) as [st1 fr] eqn:Ep.
      assert (Hfr : fr = len st) by (unfold push_frame in Ep; inversion Ep; reflexivity).
      cbn [fst] in W1, L1.
      assert (V1 : vok (len st1) v = true) by (eapply vok_mono; [|exact V]; lia).
      assert (Hbody : good vok st (rec st1 fr body))
        by (eapply good_weaken; [|apply Hrec; [assumption|lia]]; lia).
      assert (Hrest : good vok st (switch_arms rec st1 cur v rest))
        by (eapply good_weaken; [|apply IH; [assumption|lia|assumption]]; lia).
      destruct p.
      + destruct v; try exact Hrest. destruct (Z.eqb _ _); assumption.
      + eapply good_weaken; [|eapply good_bind].
        * instantiate (1 := st1). lia.
        * apply declare_all_good; [assumption|]. cbn. rewrite V1. reflexivity.
        * intros st2 u L2 W2 _. apply Hrec; [assumption|lia].
      + exact Hbody.
  Qed.

  Lemma evalF_good : good_rec (evalF rec).
  Proof.
    intros st cur e W C.
    assert (HR : forall st1 e1, len st <= len st1 -> wf_state st1 -> good vok st1 (rec st1 cur e1))
      by (intros; apply Hrec; [assumption|lia]).
    destruct e; cbn [evalF]; try (apply good_val; [assumption|reflexivity]); try (apply good_sig; [assumption|reflexivity]).
    - (* EList *) eapply good_bind; [apply eval_items_good; assumption|]. intros st1 vs L1 W1 V1.
      apply good_val; assumption.
    - (* EVar *) destruct (lookup _ _ _) eqn:E; [apply good_val; [assumption|eapply lookup_ok; eassumption]|apply good_sig; auto].
    - (* ESeq *) eapply good_bind; [apply eval_seq_good; assumption|]. intros st1 v L1 W1 V1.
      apply good_val; [assumption|]. destruct trailing; [reflexivity|assumption].
    - (* EDecl *) unfold eval_decl. eapply good_bind; [apply Hrec; assumption|]. intros st1 v L1 W1 V1.
      destruct (declare st1 cur x v) as [st2|] eqn:E; [|apply good_sig; auto].
      destruct (wf_declare _ _ _ _ _ W1 V1 E) as [W2 L2].
      unfold ret. split; [cbn; lia|split; [exact W2|reflexivity]].
    - (* EAssign *) unfold eval_assign. eapply good_bind; [apply Hrec; assumption|]. intros st1 v L1 W1 V1.
      destruct (assign st1 cur x v) as [st2|] eqn:E; [|apply good_sig; auto].
      destruct (wf_assign _ _ _ _ _ W1 V1 E) as [W2 L2].
      unfold ret. split; [cbn; lia|split; [exact W2|reflexivity]].
    - (* EDeclL *) unfold eval_unpack. eapply good_bind; [apply Hrec; assumption|]. intros st1 v L1 W1 V1.
      destruct (unpack xs v) as [bs| |] eqn:E; [|apply good_sig; auto|apply good_sig; auto].
      eapply good_bind; [apply declare_all_good; [assumption|eapply unpack_ok; eassumption]|].
      intros st2 u L2 W2 _. apply good_val; [assumption|reflexivity].
    - (* EAssignL *) unfold eval_unpack. eapply good_bind; [apply Hrec; assumption|]. intros st1 v L1 W1 V1.
      destruct (unpack xs v) as [bs| |] eqn:E; [|apply good_sig; auto|apply good_sig; auto].
      eapply good_bind; [apply assign_all_good; [assumption|eapply unpack_ok; eassumption]|].
      intros st2 u L2 W2 _. apply good_val; [assumption|reflexivity].
    - (* EIf *) unfold eval_if. eapply good_bind; [apply Hrec; assumption|]. intros st1 v L1 W1 V1.
      destruct (truthy v); [apply HR; assumption|]. destruct f; [apply HR; assumption|apply good_val; [assumption|reflexivity]].
    - (* EWhile *) unfold eval_while.
      pose proof (wf_push st cur W C) as W1. pose proof (len_push st cur) as L1.
      destruct (push_frame st cur) as [st1 fr] eqn:Ep.
      assert (Hfr : fr = len st) by (unfold push_frame in Ep; inversion Ep; reflexivity).
      cbn [fst] in W1, L1.
      eapply good_weaken; [|eapply good_bind].
      + instantiate (1 := st1). lia.
      + apply Hrec; [assumption|lia].
      + intros st2 vc L2 W2 V2. destruct (truthy vc); [|apply good_val; [assumption|reflexivity]].
        pose proof (Hrec st2 fr e2 W2 ltac:(lia)) as [B1 [B2 B3]].
        destruct (rec st2 fr e2) as [st3 r]; cbn [fst snd] in B1, B2, B3.
        assert (Next : good vok st2 (rec st3 cur (EWhile e1 e2)))
          by (eapply good_weaken; [|apply Hrec; [assumption|lia]]; lia).
        destruct r as [v|[[|k] [v|]|[|k]|v|v|]|]; cbn [while_body_result]; try exact Next;
          (split; [cbn; lia|split; [exact B2|cbn in *; auto]]).
    - (* EFor *) unfold eval_for_expr.
      assert (HF : forall st0, len st <= len st0 -> wf_state st0 ->
                good vok st0 (for_result body (eval_for rec cls (for_body rec body) st0 cur []))).
      { intros st0 L0 W0. apply for_result_good. apply eval_for_good; try assumption; try lia; try reflexivity.
        intros; apply for_body_good; assumption. }
      destruct body as [b|b|kb vb|b [| | | | |fe]]; try (apply HF; [lia|assumption]).
      + eapply good_bind; [apply HF; [lia|assumption]|]. intros st2 v L2 W2 V2.
        apply prim_apply_good; [assumption|]. rewrite voks_cons, V2. reflexivity.
      + eapply good_bind; [apply Hrec; assumption|]. intros st0 fv L0 W0 F0.
        eapply good_bind; [apply HF; assumption|]. intros st2 v L2 W2 V2.
        apply apply_val_good; [assumption|eapply vok_mono; eassumption|]. rewrite voks_cons, V2. reflexivity.
    - (* EBreak *) destruct e; [|apply good_sig; auto].
      eapply good_bind; [apply Hrec; assumption|]. intros st1 v L1 W1 V1. apply good_sig; assumption.
    - (* EReturn *) destruct e; [|apply good_sig; auto].
      eapply good_bind; [apply Hrec; assumption|]. intros st1 v L1 W1 V1. apply good_sig; assumption.
    - (* ETry *) unfold eval_try.
      pose proof (Hrec st cur e1 W C) as [B1 [B2 B3]].
      destruct (rec st cur e1) as [st1 r]; cbn [fst snd] in B1, B2, B3.
      assert (Pass : good vok st (st1, r)) by (split; [exact B1|split; [exact B2|exact B3]]).
      destruct r as [v|s|]; try exact Pass. destruct s; try exact Pass.
      cbn [sig_ok] in B3.
      pose proof (wf_push st1 cur B2 ltac:(lia)) as W2. pose proof (len_push st1 cur) as L2.
      destruct (push_frame st1 cur) as [st2 fr] eqn:Ep.
      assert (Hfr : fr = len st1) by (unfold push_frame in Ep; inversion Ep; reflexivity).
      cbn [fst] in W2, L2.
      eapply good_weaken; [|eapply good_bind].
      + instantiate (1 := st2). lia.
      + apply declare_all_good; [assumption|].
        assert (B3' : vok (len st2) v = true) by (eapply vok_mono; [|exact B3]; lia).
        cbn. rewrite B3'. reflexivity.
      + intros st3 u L3 W3 _. apply Hrec; [assumption|lia].
    - (* ETryP *) unfold eval_tryp.
      pose proof (Hrec st cur e1 W C) as [B1 [B2 B3]].
      destruct (rec st cur e1) as [st1 r]; cbn [fst snd] in B1, B2, B3.
      assert (Pass : good vok st (st1, r)) by (split; [exact B1|split; [exact B2|exact B3]]).
      destruct r as [v|s|]; try exact Pass. destruct s; try exact Pass.
      cbn [sig_ok] in B3.
      destruct (match_cpat p v) as [bs| |] eqn:M; [|exact Pass|eapply good_weaken; [exact B1|apply good_sig; auto]].
      pose proof (wf_push st1 cur B2 ltac:(lia)) as W2. pose proof (len_push st1 cur) as L2.
      destruct (push_frame st1 cur) as [st2 fr] eqn:Ep.
      assert (Hfr : fr = len st1) by (unfold push_frame in Ep; inversion Ep; reflexivity).
      cbn [fst] in W2, L2.
      eapply good_weaken; [|eapply good_bind].
      + instantiate (1 := st2). lia.
      + apply declare_all_good; [assumption|]. eapply binds_ok_mono; [|eapply match_cpat_ok; eassumption]. lia.
      + intros st3 u L3 W3 _. apply Hrec; [assumption|lia].
    - (* EThrow *) eapply good_bind; [apply Hrec; assumption|]. intros st1 v L1 W1 V1. apply good_sig; assumption.
    - (* EAnd *) unfold eval_shortcut. eapply good_bind; [apply Hrec; assumption|]. intros st1 v L1 W1 V1.
      destruct (truthy v); [apply HR; assumption|apply good_val; assumption].
    - (* EOr *) unfold eval_shortcut. eapply good_bind; [apply Hrec; assumption|]. intros st1 v L1 W1 V1.
      destruct (negb (truthy v)); [apply HR; assumption|apply good_val; assumption].
    - (* ECoalesce *) unfold eval_shortcut. eapply good_bind; [apply Hrec; assumption|]. intros st1 v L1 W1 V1.
      destruct v; try (apply good_val; assumption). apply HR; assumption.
    - (* ELam *) apply good_val; [assumption|]. cbn. apply Nat.ltb_lt. assumption.
    - (* ECall *) unfold eval_call. eapply good_bind; [apply Hrec; assumption|]. intros st1 fv L1 W1 F1.
      eapply good_bind; [apply eval_items_good; [exact Hrec|assumption|lia]|]. intros st2 vs L2 W2 V2.
      apply apply_val_good; [assumption|eapply vok_mono; eassumption|assumption].
    - (* EPrim *) eapply good_bind; [apply eval_exprs_good; assumption|]. intros st1 vs L1 W1 V1.
      apply prim_apply_good; assumption.
    - (* EEval *) apply eval_result_good. apply Hrec; assumption.
    - (* ESwitch *) unfold eval_switch. eapply good_bind; [apply Hrec; assumption|]. intros st1 v L1 W1 V1.
      apply switch_arms_good; [assumption|lia|assumption].
  Qed.
End WfRec2.

Theorem eval_good : forall n, good_rec (eval n).
Proof.
  induction n as [|n IH].
  - intros st cur e W C. cbn. apply good_oof. assumption.
  - change (eval (S n)) with (evalF (eval n)). apply evalF_good. exact IH.
Qed.

(* the store invariant: from a well-formed state and an existing current frame, every
   evaluation ends in a well-formed state with at least as many frames, and every closure in the
   value or signal it produces points to an existing frame *)
Theorem wf_preserved : forall n st cur e st' r,
  wf_state st -> cur < len st -> eval n st cur e = (st', r) ->
  wf_state st' /\ len st <= len st' /\
  match r with
  | Val v => vok (len st') v = true
  | Sig s => sig_ok (len st') s = true
  | OutOfFuel => True
  end.
Proof.
  intros n st cur e st' r W C E. pose proof (eval_good n st cur e W C) as [A [B D]].
  rewrite E in A, B, D. cbn [fst snd] in *. auto.
Qed.

Theorem run_wf : forall n e st' r, run n e = (st', r) ->
  wf_state st' /\ match r with Val v => vok (len st') v = true | Sig s => sig_ok (len st') s = true | OutOfFuel => True end.
Proof.
  intros n e st' r E. destruct (wf_preserved n init_state 0 e st' r wf_init ltac:(cbn; lia) E) as [A [_ B]]. auto.
Qed.
