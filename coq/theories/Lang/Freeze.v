(* Lang/Freeze.v - transcription of `freeze` (src/core.rs, pub fn freeze and its helpers
   FreezeEnv, box_freeze_underscore_ok, freeze_lvalue, constant_value) for the vocabulary of
   Lang/FreezeLang.v, with warn = false (the mode Expr::Freeze uses, src/eval.rs).

   FreezeEnv.bound is the list B (a set); FreezeEnv.env only matters through
   Env::try_borrow_get_var, which is the parameter `look`.  The function returns the rewritten
   expression together with the bound set after the walk (Rust mutates `env.bound` in place);
   `env.clone()` for while / for / switch arms / catch / lambda is "do not return the inner set".

   Arm by arm:
     Ident        bound -> unchanged; else the current value as Frozen(v); else the name error
     Underscore   syntax error, except in the positions walked by box_freeze_underscore_ok
                  (callee and arguments of a call, operands of a chain, list elements)
     Assign       `x := e` is Assign(Annotation(IndexedIdent x)): bind x FIRST, then the lvalue,
                  then e.  `x = e` is Assign(IndexedIdent x): the lvalue walk fails with a name
                  error unless x is bound, then e.
     Call         after the walk: callee a Frozen builtin named "-" and a single constant numeric
                  argument -> the negated constant
     List         after the walk: all elements constant -> one Frozen list
     For          the first iteratee in the enclosing environment (evaluate_for evaluates it there),
                  then clone; per clause: the iteratee / right-hand side, then bind the clause's name,
                  guards, then the body (as repaired in /repo, see notes/C17.md)
     While, Switch arm, Try handler, Lambda   clone, bind the pattern / parameter names
     Import       syntax error
   Definitions only. *)
From Coq Require Import ZArith String List Bool.
From NV Require Import Common.Outcome Lang.FreezeLang.
Import ListNotations.
Open Scope string_scope.
Open Scope list_scope.

Definition mem (x : name) (B : list name) : bool := existsb (String.eqb x) B.

(* Expr::constant_value *)
Definition constant_value (e : expr) : option val :=
  match e with
  | ENull => Some VNull
  | EInt z => Some (VInt z)
  | EStr s => Some (VStr s)
  | EFrozen v => Some v
  | _ => None
  end.

Fixpoint constant_values (es : list expr) : option (list val) :=
  match es with
  | [] => Some []
  | e :: r =>
      match constant_value e, constant_values r with
      | Some v, Some vs => Some (v :: vs)
      | _, _ => None
      end
  end.

(* the constant folding of the Call arm *)
Definition fold_call (f : expr) (args : list expr) : expr :=
  match f, args with
  | EFrozen (VPrim PSub _), [a] =>
      match constant_value a with
      | Some (VInt z) => EFrozen (VInt (- z))
      | _ => ECall f args
      end
  | _, _ => ECall f args
  end.

(* the constant folding of the List arm *)
Definition fold_list (es : list expr) : expr :=
  match constant_values es with
  | Some vs => EFrozen (VList vs)
  | None => EList es
  end.

Definition fz := outcome (expr * list name).

Section Freeze.
  Variable look : name -> option val.

  Fixpoint freeze (B : list name) (e : expr) {struct e} : fz :=
    match e with
    | ENull | EInt _ | EStr _ | EFrozen _ => Ok (e, B)
    | EVar x =>
        if mem x B then Ok (EVar x, B)
        else match look x with
             | Some v => Ok (EFrozen v, B)
             | None => Err EName
             end
    | EUnderscore => Err ESyntax
    | ESeq es =>
        r <- (fix go (B : list name) (es : list expr) : outcome (list expr * list name) :=
                match es with
                | [] => Ok ([], B)
                | e1 :: rest =>
                    p <- freeze B e1 ;;
                    q <- go (snd p) rest ;;
                    Ok (fst p :: fst q, snd q)
                end) B es ;;
        Ok (ESeq (fst r), snd r)
    | EDecl x e1 =>
        p <- freeze (x :: B) e1 ;;
        Ok (EDecl x (fst p), snd p)
    | EAssign x e1 =>
        if mem x B then (p <- freeze B e1 ;; Ok (EAssign x (fst p), snd p))
        else Err EName
    | EIf c t f =>
        pc <- freeze B c ;;
        pt <- freeze (snd pc) t ;;
        pf <- freeze (snd pt) f ;;
        Ok (EIf (fst pc) (fst pt) (fst pf), snd pf)
    | EWhile c b =>
        pc <- freeze B c ;;
        pb <- freeze (snd pc) b ;;
        Ok (EWhile (fst pc) (fst pb), B)
    | EFor x e1 cls y body =>
        p1 <- freeze B e1 ;;
        r <- (fix go (B : list name) (cls : list clause) : outcome (list clause * list name) :=
                match cls with
                | [] => Ok ([], B)
                | (k, z, e2) :: rest =>
                    p <- freeze B e2 ;;
                    q <- go (match k with KGuard => snd p | _ => z :: snd p end) rest ;;
                    Ok ((k, z, fst p) :: fst q, snd q)
                end) (x :: snd p1) cls ;;
        pb <- freeze (snd r) body ;;
        Ok (EFor x (fst p1) (fst r) y (fst pb), snd p1)
    | ESwitch e1 arms =>
        p1 <- freeze B e1 ;;
        r <- (fix go (arms : list (pat * expr)) : outcome (list (pat * expr)) :=
                match arms with
                | [] => Ok []
                | (pt, b) :: rest =>
                    p <- freeze (pat_names pt ++ snd p1) b ;;
                    q <- go rest ;;
                    Ok ((pt, fst p) :: q)
                end) arms ;;
        Ok (ESwitch (fst p1) r, snd p1)
    | ETry b x h =>
        pb <- freeze B b ;;
        ph <- freeze (x :: snd pb) h ;;
        Ok (ETry (fst pb) x (fst ph), snd pb)
    | EThrow e1 =>
        p <- freeze B e1 ;;
        Ok (EThrow (fst p), snd p)
    | ELam ps b =>
        p <- freeze (ps ++ B) b ;;
        Ok (ELam ps (fst p), B)
    | ECall f args =>
        pf <- (match f with EUnderscore => Ok (EUnderscore, B) | _ => freeze B f end) ;;
        r <- (fix go (B : list name) (es : list expr) : outcome (list expr * list name) :=
                match es with
                | [] => Ok ([], B)
                | e1 :: rest =>
                    p <- (match e1 with EUnderscore => Ok (EUnderscore, B) | _ => freeze B e1 end) ;;
                    q <- go (snd p) rest ;;
                    Ok (fst p :: fst q, snd q)
                end) (snd pf) args ;;
        Ok (fold_call (fst pf) (fst r), snd r)
    | EChain a ops =>
        pa <- (match a with EUnderscore => Ok (EUnderscore, B) | _ => freeze B a end) ;;
        r <- (fix go (B : list name) (ops : list (expr * expr)) : outcome (list (expr * expr) * list name) :=
                match ops with
                | [] => Ok ([], B)
                | (oper, opd) :: rest =>
                    po <- freeze B oper ;;
                    pd <- (match opd with EUnderscore => Ok (EUnderscore, snd po) | _ => freeze (snd po) opd end) ;;
                    q <- go (snd pd) rest ;;
                    Ok ((fst po, fst pd) :: fst q, snd q)
                end) (snd pa) ops ;;
        Ok (EChain (fst pa) (fst r), snd r)
    | EList es =>
        r <- (fix go (B : list name) (es : list expr) : outcome (list expr * list name) :=
                match es with
                | [] => Ok ([], B)
                | e1 :: rest =>
                    p <- (match e1 with EUnderscore => Ok (EUnderscore, B) | _ => freeze B e1 end) ;;
                    q <- go (snd p) rest ;;
                    Ok (fst p :: fst q, snd q)
                end) B es ;;
        Ok (fold_list (fst r), snd r)
    | EImport _ => Err ESyntax
    end.
End Freeze.

(* Expr::Freeze (src/eval.rs): freeze with an empty bound set against the current scope, then
   evaluate the result in that same scope.  A freeze failure is an ordinary (catchable) error. *)
Definition look_in (fs : list frame) (cur : nat) : name -> option val := lookup fs cur.

Definition eval_freeze (prot : protection) (fuel : nat) (st : state) (cur : nat) (e : expr) : result val :=
  match freeze (look_in (frames st) cur) [] e with
  | Ok (e', _) => eval prot fuel st cur e'
  | _ => throw_err st
  end.

(* ---------------------------------------------------------------- examples *)
Local Notation "'V' x" := (EVar x) (at level 9).
Definition glook := look_in (frames init_state) 0.

Example ex_freeze_resolves :   (* \x -> x + a, with a unbound: name error; with + resolved *)
  freeze glook [] (ELam ["x"] (bin "+" (V "x") (EInt 1)))
  = Ok (ELam ["x"] (EChain (V "x") [(EFrozen (VPrim PAdd 4), EInt 1)]), []) /\
  freeze glook [] (ELam ["x"] (bin "+" (V "x") (V "a"))) = Err EName.
Proof. split; reflexivity. Qed.

Example ex_freeze_folds :      (* [-5, [1, 2]] becomes one constant *)
  freeze glook [] (EList [ECall (V "-") [EInt 5]; EList [EInt 1; EInt 2]])
  = Ok (EFrozen (VList [VInt (-5); VList [VInt 1; VInt 2]]), []).
Proof. reflexivity. Qed.

Example ex_freeze_refuses :
  freeze glook [] (ELam ["x"] (EAssign "len" (V "x"))) = Err EName /\
  freeze glook [] (ELam ["x"] EUnderscore) = Err ESyntax /\
  freeze glook [] (ELam ["x"] (EImport (EStr "m"))) = Err ESyntax /\
  is_ok (freeze glook [] (ELam ["x"] (ECall EUnderscore [V "x"]))) = true.
Proof. repeat split; reflexivity. Qed.

(* F21: freeze resolves `a` inside g when it walks g's text, before `a := x` binds it *)
Definition f21_body : expr :=
  ELam ["x"] (ESeq [EDecl "g" (ELam [] (V "a")); EDecl "a" (V "x"); ECall (V "g") []]).
Definition f21_state : state :=
  mkState [mkFrame None (("a", VInt 3) :: global_vars) []] [].

Example ex_f21 :
  snd (eval noprot 12 f21_state 0 (ECall f21_body [EInt 8])) = Val (VInt 8) /\
  snd (eval_freeze noprot 12 f21_state 0 (ECall f21_body [EInt 8])) = Val (VInt 3).
Proof. split; reflexivity. Qed.
