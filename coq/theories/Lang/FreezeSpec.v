(* Lang/FreezeSpec.v - what property C17 says about `freeze`, stated without reference to the
   function in Lang/Freeze.v:

     bnd B e      the bound set after the walk of e (freeze's scope analysis: flat, extended by
                  `:=`, not extended by the constructs that clone the environment)
     Bad look B e e mentions a free identifier unbound in the store, assigns to an identifier the
                  expression has not bound, contains an import, or a bare underscore outside the
                  section positions  (an inductive predicate over the syntax)
     closed B e   every identifier occurrence of e is under a binder of e itself (or in B), every
                  assignment targets such a name, there is no import and no bare underscore

   Definitions only. *)
From Coq Require Import ZArith String List Bool.
From NV Require Import Lang.FreezeLang Lang.Freeze.
Import ListNotations.
Open Scope string_scope.
Open Scope list_scope.

(* ---------------------------------------------------------------- the bound set after a walk *)
Fixpoint bnd (B : list name) (e : expr) {struct e} : list name :=
  match e with
  | ENull | EInt _ | EStr _ | EVar _ | EUnderscore | EFrozen _ => B
  | ESeq es => (fix go (B : list name) (es : list expr) : list name :=
                  match es with [] => B | e1 :: r => go (bnd B e1) r end) B es
  | EDecl x e1 => bnd (x :: B) e1
  | EAssign _ e1 => bnd B e1
  | EIf c t f => bnd (bnd (bnd B c) t) f
  | EWhile _ _ => B
  | EFor _ e1 _ _ _ => bnd B e1
  | ESwitch e1 _ => bnd B e1
  | ETry b _ _ => bnd B b
  | EThrow e1 => bnd B e1
  | ELam _ _ => B
  | ECall f args => (fix go (B : list name) (es : list expr) : list name :=
                       match es with [] => B | e1 :: r => go (bnd B e1) r end) (bnd B f) args
  | EChain a ops => (fix go (B : list name) (ops : list (expr * expr)) : list name :=
                       match ops with [] => B | (o, d) :: r => go (bnd (bnd B o) d) r end) (bnd B a) ops
  | EList es => (fix go (B : list name) (es : list expr) : list name :=
                   match es with [] => B | e1 :: r => go (bnd B e1) r end) B es
  | EImport _ => B
  end.

Fixpoint bndL (B : list name) (es : list expr) : list name :=
  match es with [] => B | e1 :: r => bndL (bnd B e1) r end.

Fixpoint bndOps (B : list name) (ops : list (expr * expr)) : list name :=
  match ops with [] => B | (o, d) :: r => bndOps (bnd (bnd B o) d) r end.

(* clauses of a for loop, walked inside the loop's cloned environment *)
Fixpoint bndC (B : list name) (cls : list clause) : list name :=
  match cls with
  | [] => B
  | (k, z, e) :: r => bndC (match k with KGuard => bnd B e | _ => z :: bnd B e end) r
  end.

(* ---------------------------------------------------------------- when freezing must fail *)
Section Spec.
  Variable look : name -> option val.

  Inductive Bad : list name -> expr -> Prop :=
  | BadVar B x : mem x B = false -> look x = None -> Bad B (EVar x)
  | BadUnderscore B : Bad B EUnderscore
  | BadImport B e : Bad B (EImport e)
  | BadSeq B pre e post : Bad (bndL B pre) e -> Bad B (ESeq (pre ++ e :: post))
  | BadDecl B x e : Bad (x :: B) e -> Bad B (EDecl x e)
  | BadAssignOuter B x e : mem x B = false -> Bad B (EAssign x e)
  | BadAssignRhs B x e : Bad B e -> Bad B (EAssign x e)
  | BadIfC B c t f : Bad B c -> Bad B (EIf c t f)
  | BadIfT B c t f : Bad (bnd B c) t -> Bad B (EIf c t f)
  | BadIfF B c t f : Bad (bnd (bnd B c) t) f -> Bad B (EIf c t f)
  | BadWhileC B c b : Bad B c -> Bad B (EWhile c b)
  | BadWhileB B c b : Bad (bnd B c) b -> Bad B (EWhile c b)
  | BadForE B x e cls y body : Bad B e -> Bad B (EFor x e cls y body)
  | BadForCl B x e pre k z e2 post y body :
      Bad (bndC (x :: bnd B e) pre) e2 -> Bad B (EFor x e (pre ++ (k, z, e2) :: post) y body)
  | BadForBody B x e cls y body : Bad (bndC (x :: bnd B e) cls) body -> Bad B (EFor x e cls y body)
  | BadSwitchE B e arms : Bad B e -> Bad B (ESwitch e arms)
  | BadSwitchArm B e arms p b : In (p, b) arms -> Bad (pat_names p ++ bnd B e) b -> Bad B (ESwitch e arms)
  | BadTryB B b x h : Bad B b -> Bad B (ETry b x h)
  | BadTryH B b x h : Bad (x :: bnd B b) h -> Bad B (ETry b x h)
  | BadThrow B e : Bad B e -> Bad B (EThrow e)
  | BadLam B ps b : Bad (ps ++ B) b -> Bad B (ELam ps b)
  | BadCallF B f args : f <> EUnderscore -> Bad B f -> Bad B (ECall f args)
  | BadCallArg B f pre e post :
      e <> EUnderscore -> Bad (bndL (bnd B f) pre) e -> Bad B (ECall f (pre ++ e :: post))
  | BadChainA B a ops : a <> EUnderscore -> Bad B a -> Bad B (EChain a ops)
  | BadChainOper B a pre o d post :
      Bad (bndOps (bnd B a) pre) o -> Bad B (EChain a (pre ++ (o, d) :: post))
  | BadChainOpd B a pre o d post :
      d <> EUnderscore -> Bad (bnd (bndOps (bnd B a) pre) o) d -> Bad B (EChain a (pre ++ (o, d) :: post))
  | BadListElem B pre e post :
      e <> EUnderscore -> Bad (bndL B pre) e -> Bad B (EList (pre ++ e :: post)).
End Spec.

(* ---------------------------------------------------------------- closed under its own binders *)
Inductive closed : list name -> expr -> Prop :=
| ClNull B : closed B ENull
| ClInt B z : closed B (EInt z)
| ClStr B s : closed B (EStr s)
| ClFrozen B v : closed B (EFrozen v)
| ClVar B x : mem x B = true -> closed B (EVar x)
| ClSeq B es :
    (forall pre e post, es = pre ++ e :: post -> closed (bndL B pre) e) -> closed B (ESeq es)
| ClDecl B x e : closed (x :: B) e -> closed B (EDecl x e)
| ClAssign B x e : mem x B = true -> closed B e -> closed B (EAssign x e)
| ClIf B c t f : closed B c -> closed (bnd B c) t -> closed (bnd (bnd B c) t) f -> closed B (EIf c t f)
| ClWhile B c b : closed B c -> closed (bnd B c) b -> closed B (EWhile c b)
| ClFor B x e cls y body :
    closed B e ->
    (forall pre k z e2 post, cls = pre ++ (k, z, e2) :: post -> closed (bndC (x :: bnd B e) pre) e2) ->
    closed (bndC (x :: bnd B e) cls) body ->
    closed B (EFor x e cls y body)
| ClSwitch B e arms :
    closed B e -> (forall p b, In (p, b) arms -> closed (pat_names p ++ bnd B e) b) ->
    closed B (ESwitch e arms)
| ClTry B b x h : closed B b -> closed (x :: bnd B b) h -> closed B (ETry b x h)
| ClThrow B e : closed B e -> closed B (EThrow e)
| ClLam B ps b : closed (ps ++ B) b -> closed B (ELam ps b)
| ClCall B f args :
    (f <> EUnderscore -> closed B f) ->
    (forall pre e post, args = pre ++ e :: post -> e <> EUnderscore -> closed (bndL (bnd B f) pre) e) ->
    closed B (ECall f args)
| ClChain B a ops :
    (a <> EUnderscore -> closed B a) ->
    (forall pre o d post, ops = pre ++ (o, d) :: post ->
       closed (bndOps (bnd B a) pre) o /\
       (d <> EUnderscore -> closed (bnd (bndOps (bnd B a) pre) o) d)) ->
    closed B (EChain a ops)
| ClList B es :
    (forall pre e post, es = pre ++ e :: post -> e <> EUnderscore -> closed (bndL B pre) e) ->
    closed B (EList es).
