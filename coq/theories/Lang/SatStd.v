(* C12: the concrete `satisfying` predicates used by the correspondence run (the theorems
   quantify over every predicate table; this one instantiates the extracted model).
     0  satisfying(1 < _ < 9)            raises on values that cannot be compared with an int
     1  satisfying(\x -> x)              truthiness, never raises
     2  satisfying(\x -> len(x) == 2)    raises on non-sequences
     3  satisfying(\x -> x != 5)         never raises
     4  satisfying(\x -> x is list and (len(x) == 0 or x[0] != 5))   never raises *)
From Coq Require Import ZArith NArith List Bool.
From NV Require Import Common.Outcome Lang.Types Lang.Pattern.
Import ListNotations.
Open Scope Z_scope.

(* Seq::len of a string is its UTF-8 byte length *)
Definition utf8_len (c : N) : nat :=
  if (c <? 128)%N then 1%nat else if (c <? 2048)%N then 2%nat else if (c <? 65536)%N then 3%nat else 4%nat.
Definition seq_len (v : val) : option nat :=
  match v with
  | VStr s => Some (fold_right (fun c n => (utf8_len c + n)%nat) O s)
  | _ => match elements v with Some es => Some (length es) | None => None end
  end.

Definition sat_list_head (v : val) : bool :=
  match v with
  | VList [] => true
  | VList (h :: _) => negb (veq h (vint 5))
  | _ => false
  end.

Definition sat_std (pid : N) (v : val) : outcome bool :=
  match pid with
  | 0%N => cmp_chain [CLt; CLt] [vint 1; v; vint 9]
  | 1%N => Ok (truthy v)
  | 2%N => match seq_len v with Some n => Ok (Nat.eqb n 2) | None => Err EType end
  | 3%N => Ok (negb (veq v (vint 5)))
  | 4%N => Ok (sat_list_head v)
  | _ => Err EOther
  end.
