(* Lang/FreezeSim_scope.v - the precondition of the simulation (`pre`), how it is re-established
   after a step at the same frame (`pre_step`) and when a scope is entered (`enter_frame`), the
   declaration of several names in a fresh frame, and calling related function values. *)
From Coq Require Import ZArith String List Bool Arith Lia.
From NV Require Import Lang.FreezeLang Lang.Freeze Lang.FreezeSpec Lang.FreezeRel Lang.FreezeSim_store
  Lang.FreezeSim_rel Lang.FreezeSim_ops.
Import ListNotations.
Open Scope string_scope.
Open Scope list_scope.

Section Scope.
  Variable n0 cur0 : nat.
  Variable FV : name -> option val.
  Variable resl : list name.
  Variable mutl : list name.
  Notation prot := (prot0 n0 resl).
  Notation ext_at := (ext_at n0 resl).
  Notation kext := (kext n0 resl).
  Notation vrel := (vrel n0 cur0 FV resl mutl).
  Notation vrels := (vrels n0 cur0 FV resl mutl).
  Notation srel := (srel n0 cur0 FV resl mutl).
  Notation agree := (agree n0 cur0 FV resl mutl).
  Notation cinv := (cinv cur0).
  Notation chain_budget := (chain_budget n0).
  Notation vars_rel := (vars_rel n0 cur0 FV resl mutl).
  Notation post := (post n0 cur0 FV resl mutl).
  Notation fzr := (fzr FV mutl).
  Notation sim_at := (sim_at n0 cur0 FV resl mutl).

  Hypothesis Hcur0 : cur0 < n0.
  Implicit Types P D : name -> Prop.

  Record pre P D (B : list name) (st st' : state) (cur : nat) (Dn : list name) : Prop := {
    pr_srel : srel st st';
    pr_agree : agree (frames st);
    pr_cinv : cinv P B (frames st) cur;
    pr_chain : chain_budget (frames st) cur D;
    pr_cur : cur < length (frames st);
    pr_bud : n0 <= cur -> incl Dn (budget_at (frames st) cur);
    pr_P : forall x, P x -> mem x resl = true
  }.

  (* a name that is not declared by the step resolves as before, from every old frame *)
  Lemma resolve_ext_at : forall fs fs1 cur Dn g x,
    ext_at fs fs1 cur Dn -> ~ In x Dn -> g < length fs -> resolve fs1 g x = resolve fs g x.
  Proof.
    intros fs fs1 cur Dn g x [L O] Nx Lg. apply resolve_congr; auto. intros h fr A E.
    destruct (O h fr E) as (fr1 & E1 & Hp & Hb & Hm & Ha & Hc). exists fr1. repeat split; auto.
    destruct (in_dom x fr) eqn:Dx; [apply Hm; auto|].
    destruct (in_dom x fr1) eqn:Dx1; auto.
    destruct (Ha x Dx1) as [H|[_ H]]; [congruence|contradiction].
  Qed.

  Lemma pre_step : forall P D B B' st st' st1 st1' cur Dn Ns,
    pre P D B st st' cur Dn ->
    ext_at (frames st) (frames st1) cur Ns -> kext (frames st) (frames st1) ->
    srel st1 st1' -> agree (frames st1) ->
    (forall x, In x Ns -> In x B') -> (forall x, In x B -> In x B') ->
    pre P D B' st1 st1' cur Dn.
  Proof.
    intros P D B B' st st' st1 st1' cur Dn Ns [S Ag CI CH LC BU PP] E K S1 Ag1 I1 I2.
    assert (N0 : n0 <= length (frames st)) by (destruct S; auto).
    constructor; auto.
    - intros x Px Bx. apply mem_false in Bx.
      assert (Nx : ~ In x Ns) by auto.
      rewrite (resolve_ext_at _ _ _ _ cur x E Nx LC).
      rewrite (resolve_ext_at _ _ _ _ cur0 x E Nx) by lia.
      apply CI; auto. apply mem_false. auto.
    - eapply chain_budget_kext; eauto.
    - destruct E. lia.
    - intros G. rewrite (kext_budget_at _ _ _ _ _ K LC). auto.
  Qed.

  Lemma pre_weaken_Dn : forall P D B st st' cur Dn Dn',
    pre P D B st st' cur Dn -> incl Dn' Dn -> pre P D B st st' cur Dn'.
  Proof.
    intros P D B st st' cur Dn Dn' [S Ag CI CH LC BU PP] I. constructor; auto.
    intros G x Hx. apply BU; auto.
  Qed.

  (* using the simulation hypothesis for the evaluator of sub-expressions *)
  Lemma use_rec : forall (rec : evalfn) P D B st st' cur Dn e e',
    sim_at rec rec -> pre P D B st st' cur Dn -> fzr P D B e e' -> incl (ddecl e) Dn ->
    post vrel st cur (ddecl e) (rec st cur e) (rec st' cur e').
  Proof.
    intros rec P D B st st' cur Dn e e' HR [S Ag CI CH LC BU PP] F I.
    apply (HR P D B e e' st st' cur); auto.
    intros G x Hx. apply BU; auto.
  Qed.

  (* ------------------------------------------------------------ entering a scope *)
  Lemma resolve_push : forall fs p bud x, p < length fs ->
    resolve (fs ++ [mkFrame (Some p) [] bud]) (length fs) x = resolve fs p x.
  Proof.
    intros fs p bud x Lp.
    rewrite (resolve_step _ _ x _ (nth_error_app_length fs _)). cbn [in_dom names vars map existsb parent].
    assert (Q : Nat.ltb p (length fs) = true) by (apply Nat.ltb_lt; auto). rewrite Q.
    apply (resolve_ext_at fs _ p [] p x (ext_at_push _ _ _ _ _)); auto.
  Qed.

  Lemma anc_push_new : forall fs p bud h, p < length fs ->
    anc (fs ++ [mkFrame (Some p) [] bud]) (length fs) h -> h = length fs \/ anc fs p h.
  Proof.
    intros fs p bud h Lp A. inversion A; subst; auto. right.
    rewrite nth_error_app_length in H. inversion H; subst fr. cbn in H0. inversion H0; subst p0.
    apply (kext_anc n0 resl fs _ p h (kext_push n0 resl fs (mkFrame (Some p) [] bud))); auto.
  Qed.

  Lemma enter_frame : forall P D B st st' p bud bud',
    srel st st' -> agree (frames st) -> cinv P B (frames st) p -> chain_budget (frames st) p D ->
    p < length (frames st) -> (forall x, P x -> mem x resl = true) ->
    pre P (DU D bud) B (fst (push_frame st p bud)) (fst (push_frame st' p bud')) (length (frames st)) bud.
  Proof.
    intros P D B st st' p bud bud' S Ag CI CH Lp PP.
    destruct (srel_push n0 cur0 FV resl mutl Hcur0 st st' p bud bud' S Lp) as (S1 & _ & _).
    assert (N0 : n0 <= length (frames st)) by (destruct S; auto).
    unfold push_frame in *. cbn [fst snd frames out] in *. constructor; cbn [frames out]; auto.
    - eapply agree_mono; eauto. apply kext_push.
    - intros x Px Bx. rewrite resolve_push by auto.
      rewrite (resolve_ext_at _ _ p [] cur0 x (ext_at_push _ _ _ _ _)) by (auto; lia).
      apply CI; auto.
    - intros h A Hh x Hx. apply anc_push_new in A; auto. destruct A as [->|A].
      + right. unfold budget_at in Hx. rewrite nth_error_app_length in Hx. auto.
      + left. apply (CH h A Hh).
        rewrite (kext_budget_at n0 resl _ _ h (kext_push n0 resl (frames st) (mkFrame (Some p) [] bud))) in Hx; auto.
        eapply anc_frame_lt; eauto.
    - rewrite app_length. cbn. lia.
    - intros _. unfold budget_at. rewrite nth_error_app_length. cbn. apply incl_refl.
  Qed.

  (* ------------------------------------------------------------ several declarations in a frame *)
  Lemma declare_all_sim : forall bs bs' st st' fr,
    srel st st' -> agree (frames st) -> binds_rel n0 cur0 FV resl mutl (frames st) bs bs' -> fr < length (frames st) ->
    (n0 <= fr -> incl (map fst bs) (budget_at (frames st) fr)) ->
    post RTrue st fr (map fst bs) (declare_all prot st fr bs) (declare_all prot st' fr bs').
  Proof.
    induction bs as [|[x v] bs IH]; intros bs' st st' fr S Ag R L HB; inversion R; subst.
    - cbn. apply post_ret; auto. exact I.
    - destruct y as [x' v']. destruct H1 as [H1 H2]. cbn in H1, H2. subst x'. cbn [declare_all map fst].
      eapply post_bind with (D1 := [x]) (D2 := map fst bs).
      + apply declare_sim; auto. intros G. apply HB; auto. left; auto.
      + intros y [<-|[]]. left; auto.
      + intros y Hy. right; auto.
      + intros st1 st1' [] [] E K S1 Ag1 _.
        assert (N0 : n0 <= length (frames st)) by (destruct S; auto).
        apply IH; auto.
        * eapply binds_rel_mono; eauto.
        * destruct E. lia.
        * intros G. rewrite (kext_budget_at _ _ _ _ _ K L). intros y Hy. apply HB; auto. right; auto.
  Qed.

  Lemma vars_rel_combine : forall fs ps l l', vrels fs l l' -> binds_rel n0 cur0 FV resl mutl fs (combine ps l) (combine ps l').
  Proof.
    intros fs ps l l' H. revert ps. induction H; intros [|p ps]; cbn; try constructor; auto.
    apply IHvrels.
  Qed.

  Lemma map_fst_combine : forall (ps : list name) (l : list val), length ps = length l -> map fst (combine ps l) = ps.
  Proof.
    induction ps as [|p ps IH]; intros [|a l] H; cbn in *; try discriminate; auto. f_equal. auto.
  Qed.

  (* ------------------------------------------------------------ calling related functions *)
  Section WithRec.
    Variable rec : evalfn.
    Hypothesis HR : sim_at rec rec.

    Lemma apply_val_sim : forall st st' cur fv fv' args args',
      srel st st' -> agree (frames st) -> vrel (frames st) fv fv' -> vrels (frames st) args args' ->
      post vrel st cur [] (apply_val prot rec st fv args) (apply_val prot rec st' fv' args').
    Proof.
      intros st st' cur fv fv' args args' S Ag Rf Ra.
      assert (NF : post vrel st cur []
                     (if existsb is_func args then unsupported st else throw_err st)
                     (if existsb is_func args' then unsupported st' else throw_err st')).
      { rewrite <- (vrels_existsb_func _ _ _ _ _ _ _ _ Ra). destruct (existsb is_func args).
        - apply post_unsupp; auto.
        - apply post_throw_err; auto. }
      inversion Rf; subst; cbn [apply_val]; auto.
      - apply prim_apply_sim; auto.
      - (* closure *)
        rewrite <- (vrels_length _ _ _ _ _ _ _ _ Ra).
        destruct (Nat.eqb (length ps) (length args)) eqn:LE; [|apply post_throw_err; auto].
        apply Nat.eqb_eq in LE.
        pose proof (enter_frame P D (ps ++ B) st st' fid (call_budget ps b) (call_budget ps b') S Ag H3 H2 H4 H0) as PR.
        destruct (srel_push n0 cur0 FV resl mutl Hcur0 st st' fid (call_budget ps b) (call_budget ps b') S H4) as (_ & F1 & F2).
        destruct (push_frame st fid (call_budget ps b)) as [st1 fr] eqn:P1.
        destruct (push_frame st' fid (call_budget ps b')) as [st1' fr'] eqn:P2.
        cbn [fst snd] in *. subst fr fr'.
        assert (E1 : ext_at (frames st) (frames st1) cur []).
        { unfold push_frame in P1. inversion P1; subst. cbn. apply ext_at_push. }
        assert (K1 : kext (frames st) (frames st1)).
        { unfold push_frame in P1. inversion P1; subst. cbn. apply kext_push. }
        assert (N0 : n0 <= length (frames st)) by (destruct S; auto).
        eapply post_fresh with (fr := length (frames st)) (Dn := call_budget ps b); eauto.
        destruct PR as [S1 Ag1 CI1 CH1 LC1 BU1 PP1].
        eapply post_bind with (D1 := map fst (combine ps args)) (D2 := ddecl b).
        + apply declare_all_sim; auto.
          * apply vars_rel_combine. eapply vrels_mono; eauto.
          * intros G. rewrite map_fst_combine by auto. intros y Hy. apply BU1; auto.
            unfold call_budget. apply in_or_app. auto.
        + rewrite map_fst_combine by auto. unfold call_budget. intros y Hy. apply in_or_app. auto.
        + unfold call_budget. intros y Hy. apply in_or_app. auto.
        + intros st2 st2' [] [] E2 K2 S2 Ag2 _.
          assert (PR2 : pre P (DU D (call_budget ps b)) (ps ++ B) st2 st2' (length (frames st)) (call_budget ps b)).
          { eapply pre_step with (B := ps ++ B); eauto.
            - constructor; eauto.
            - rewrite map_fst_combine by auto. intros y Hy. apply in_or_app. auto. }
          eapply use_rec; eauto.
          unfold call_budget. intros y Hy. apply in_or_app. auto.
    Qed.
  End WithRec.
End Scope.
