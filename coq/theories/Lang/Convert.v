(* C12 model, part 4: the conversion functions - a type called with one argument
   (src/core.rs call_type1 ~653, call_type ~771 for structs).  `None` = not modelled here
   (string parsing and formatting, int/rational -> float rounding, float -> int of a non-finite
   float (C07's F16), str -> bytes); `Some o` = the modelled outcome. *)
From Coq Require Import ZArith NArith List Bool Lia.
From NV Require Import Common.Outcome Lang.Types Lang.Pattern Lang.Store.
Import ListNotations.
Open Scope Z_scope.

Section Convert.
  (* the declared fields of each struct: one entry per field, with its default if it has one *)
  Variable fields : N -> list (option val).

  Definition all_nums (l : list val) : option (list num) :=
    fold_right (fun v acc => match v, acc with VNum n, Some r => Some (n :: r) | _, _ => None end) (Some []) l.
  Definition all_bytes (l : list val) : option (list N) :=
    fold_right (fun v acc =>
      match v, acc with
      | VNum (NInt z), Some r => if (0 <=? z) && (z <? 256) then Some (Z.to_N z :: r) else None
      | _, _ => None
      end) (Some []) l.
  Fixpoint pairs_to_dict (l : list val) (ks vs : list val) : option (list val * list val) :=
    match l with
    | [] => Some (ks, vs)
    | VList [k; v] :: r => let (a, b) := dict_put ks vs k v in pairs_to_dict r a b
    | _ => None
    end.
  (* call_type on a struct with one argument: missing trailing fields take their defaults *)
  Fixpoint fill_fields (fs : list (option val)) (args : list val) : outcome (list val) :=
    match fs, args with
    | _ :: fs', a :: args' => r <- fill_fields fs' args' ;; Ok (a :: r)
    | Some d :: fs', [] => r <- fill_fields fs' [] ;; Ok (d :: r)
    | None :: _, [] => Err EArg
    | [], _ => Ok args
    end.

  Definition convert (t : ty) (v : val) : option (outcome val) :=
    match t with
    | TInt =>
      match v with
      | VNum (NInt z) => Some (Ok v)
      | VNum (NRat n d) => Some (Ok (vint (Z.quot n (Zpos d))))
      | VNum (NFloat b) =>
        match fdecode b with XQ n d => Some (Ok (vint (Z.quot n (Zpos d)))) | _ => None end
      | VNum (NComplex _ _) => Some (Err EValue)
      | VStr _ => None
      | _ => Some (Err EType)
      end
    | TRational =>
      match v with
      | VNum (NInt z) => Some (Ok (VNum (NRat z 1)))
      | VNum (NRat _ _) => Some (Ok v)
      | VNum (NFloat b) =>
        match fdecode b with XQ n d => Some (Ok (VNum (rat_norm n (Zpos d)))) | _ => Some (Err EValue) end
      | VNum (NComplex _ _) => Some (Err EValue)
      | VStr _ => None
      | _ => Some (Err EType)
      end
    | TFloat =>
      match v with
      | VNum (NFloat _) => Some (Ok v)
      | VNum (NComplex _ _) => Some (Err EValue)
      | VNum _ | VStr _ => None
      | _ => Some (Err EType)
      end
    | TNumber =>
      match v with
      | VNum _ => Some (Ok v)
      | VStr _ => None
      | _ => Some (Err EType)
      end
    | TList => match elements v with Some es => Some (Ok (VList es)) | None => Some (Err EType) end
    | TString => None
    | TBytes =>
      match v with
      | VBytes _ => Some (Ok v)
      | VStr _ => None
      | _ =>
        match elements v with
        | Some es => match all_bytes es with Some bs => Some (Ok (VBytes bs)) | None => Some (Err EValue) end
        | None => Some (Err EType)
        end
      end
    | TVector =>
      match v with
      | VVec _ => Some (Ok v)
      | _ =>
        match elements v with
        | Some es => match all_nums es with Some ns => Some (Ok (VVec ns)) | None => Some (Err EType) end
        | None => Some (Err EType)
        end
      end
    | TDict =>
      match v with
      | VDict _ _ => Some (Ok v)
      | _ =>
        match elements v with
        | Some es =>
          match pairs_to_dict es [] [] with Some (ks, vs) => Some (Ok (VDict ks vs)) | None => Some (Err EType) end
        | None => Some (Err EType)
        end
      end
    | TStream =>
      match elements v with Some es => Some (Ok (VStream es)) | None => Some (Err EType) end
    | TType => Some (Ok (VType (type_of v)))
    | TStruct sid =>
      Some (match fill_fields (fields sid) [v] with
            | Ok fs => Ok (VInst sid fs) | Err c => Err c | Panic => Panic | OutOfFuel => OutOfFuel end)
    | _ => Some (Err EType)              (* nulltype, complex, func, anything, ...: not callable *)
    end.
End Convert.

(* the structs of the correspondence runs: Foo(bar, baz), Bar(qux) *)
Definition fields_std (sid : N) : list (option val) :=
  match sid with 0%N => [None; None] | 1%N => [None] | _ => [] end.
