(* C12: proofs about Lang/Types.v *)
From Coq Require Import ZArith NArith List Bool Lia.
From NV Require Import Common.Outcome Lang.Types.
Import ListNotations.

Section P.
  Variable sat : N -> val -> outcome bool.

  Lemma is_type_of : forall v, is_type sat (type_of v) v = Ok true.
  Proof. destruct v as [| x | | | | | | | | |]; try reflexivity. destruct x; reflexivity. Qed.

  Lemma is_type_any : forall v, is_type sat TAny v = Ok true.
  Proof. destruct v as [| x | | | | | | | | |]; try reflexivity. Qed.

  (* the code before the repair of F8 *)
  Lemma is_type_old_refuted :
    is_type_old sat (type_of (VNum (NRat 1 2))) (VNum (NRat 1 2)) = Ok false /\
    is_type_old sat (type_of (VInst 0 [])) (VInst 0 []) = Ok false.
  Proof. split; reflexivity. Qed.

  Definition ty_eqb (a b : ty) : bool :=
    match a, b with
    | TNull, TNull | TInt, TInt | TRational, TRational | TFloat, TFloat | TComplex, TComplex
    | TNumber, TNumber | TString, TString | TList, TList | TDict, TDict | TVector, TVector
    | TBytes, TBytes | TStream, TStream | TFunc, TFunc | TType, TType | TAny, TAny
    | TStructInstance, TStructInstance => true
    | TStruct x, TStruct y => N.eqb x y
    | TSat x, TSat y => N.eqb x y
    | _, _ => false
    end.

  (* the types type_of can report, other than func (which also covers types) *)
  Definition kind_type (t : ty) : bool :=
    match t with
    | TNull | TInt | TRational | TFloat | TComplex | TString | TList | TDict | TVector | TBytes
    | TStream | TType | TStructInstance => true
    | _ => false
    end.

  (* `v is T` for a kind type T is true for exactly the values whose type_of is T *)
  Lemma is_type_exact : forall t v, kind_type t = true ->
    is_type sat t v = Ok (ty_eqb (type_of v) t).
  Proof.
    intros t v H. destruct t; try discriminate H;
      destruct v as [| x | | | | | | | | |]; try reflexivity; destruct x; reflexivity.
  Qed.

  Lemma is_type_number : forall v,
    is_type sat TNumber v = Ok (match v with VNum _ => true | _ => false end).
  Proof. destruct v; reflexivity. Qed.
  Lemma is_type_func : forall v,
    is_type sat TFunc v = Ok (match v with VFunc _ | VType _ => true | _ => false end).
  Proof. destruct v as [| x | | | | | | | | |]; try reflexivity. Qed.
  Lemma is_type_struct : forall sid v,
    is_type sat (TStruct sid) v = Ok (match v with VInst s _ => N.eqb sid s | _ => false end).
  Proof. destruct v as [| x | | | | | | | | |]; try reflexivity. Qed.
  Lemma is_type_sat : forall pid v, is_type sat (TSat pid) v = sat pid v.
  Proof. destruct v as [| x | | | | | | | | |]; try reflexivity. Qed.

  Lemma is_type_no_panic : (forall pid v, sat pid v <> Panic) -> forall t v, is_type sat t v <> Panic.
  Proof.
    intros H t v. destruct t; try (destruct v as [| x | | | | | | | | |]; try destruct x; discriminate).
    rewrite is_type_sat. apply H.
  Qed.
  Lemma is_type_no_fuel : (forall pid v, sat pid v <> OutOfFuel) -> forall t v, is_type sat t v <> OutOfFuel.
  Proof.
    intros H t v. destruct t; try (destruct v as [| x | | | | | | | | |]; try destruct x; discriminate).
    rewrite is_type_sat. apply H.
  Qed.
End P.
