(* Lang/Eval_rules.v - further rules of the reference interpreter (property C05): one-statement
   blocks, break values of yielding loops, the `into` reducers, parameter binding. *)
From Coq Require Import ZArith String List Bool Lia.
From NV Require Import Lang.Syntax Lang.Eval Lang.Eval_proofs.
Import ListNotations.
Open Scope string_scope.
Open Scope list_scope.

(* ================================================================ 1. blocks *)
(* (e) is e; (e;) evaluates e and yields null; a signal raised by e is the block's outcome *)
Theorem single_block_rule : forall n st cur e st1 r,
  eval n st cur e = (st1, r) ->
  eval (S n) st cur (ESeq [e] false) = (st1, r) /\
  eval (S n) st cur (ESeq [e] true) = (st1, match r with Val _ => Val VNull | _ => r end).
Proof.
  intros n st cur e st1 r E.
  change (eval (S n)) with (evalF (eval n)). cbn [evalF eval_seq]. rewrite E.
  destruct r as [v|s|]; split; reflexivity.
Qed.

(* any block with a trailing semicolon that runs to its end yields null; without it, the value
   of its last statement *)
Theorem trailing_semicolon_rule : forall n st cur es st1 v,
  eval_seq (eval n) st cur es = (st1, Val v) ->
  eval (S n) st cur (ESeq es true) = (st1, Val VNull) /\
  eval (S n) st cur (ESeq es false) = (st1, Val v).
Proof.
  intros n st cur es st1 v E.
  change (eval (S n)) with (evalF (eval n)). cbn [evalF]. rewrite E. split; reflexivity.
Qed.

(* ================================================================ 2. passes of a loop over a list *)
(* a continuation that leaves the state alone and contributes `f el` for the element el of its
   own frame: the loop appends the contributions in order and allocates one frame per element *)
Lemma for_each_pure : forall (k : state -> nat -> list val -> fres) cur x (f : val -> list val) xs,
  (forall st' fr el acc, In el xs -> nth_error (frames st') fr = Some (mkFrame (Some cur) [(x, el)]) ->
     k st' fr acc = (st', acc ++ f el, Val tt)) ->
  forall st acc,
  for_each k cur (map (fun el => [(x, el)]) xs) st acc
  = (mkState (frames st ++ iter_frames cur x xs) (out st), acc ++ flat_map f xs, Val tt).
Proof.
  intros k cur x f. induction xs as [|el xs IH]; intros Hk st acc.
  - cbn. rewrite !app_nil_r. destruct st; reflexivity.
  - cbn [map for_each].
    pose proof (declare_all_fresh1 st cur x el) as D. cbn [push_frame fst] in D |- *. rewrite D.
    set (st2 := mkState (frames st ++ [mkFrame (Some cur) [(x, el)]]) (out st)).
    assert (Hf : nth_error (frames st2) (List.length (frames st)) = Some (mkFrame (Some cur) [(x, el)]))
      by (subst st2; cbn [frames]; apply nth_error_app_length).
    rewrite (Hk st2 _ el acc (or_introl eq_refl) Hf).
    rewrite IH by (intros; apply Hk; [right|]; assumption).
    subst st2. cbn [frames out iter_frames map flat_map]. rewrite <- !app_assoc. reflexivity.
Qed.

(* the same, but the pass for the element after the prefix `pre` ends the loop with a signal *)
Lemma for_each_stops : forall (k : state -> nat -> list val -> fres) cur x (f : val -> list val) pre el post s,
  (forall st' fr e acc, In e pre -> nth_error (frames st') fr = Some (mkFrame (Some cur) [(x, e)]) ->
     k st' fr acc = (st', acc ++ f e, Val tt)) ->
  (forall st' fr acc, nth_error (frames st') fr = Some (mkFrame (Some cur) [(x, el)]) ->
     k st' fr acc = (st', acc, Sig s)) ->
  forall st acc,
  for_each k cur (map (fun e => [(x, e)]) (pre ++ el :: post)) st acc
  = (mkState (frames st ++ iter_frames cur x (pre ++ [el])) (out st), acc ++ flat_map f pre, Sig s).
Proof.
  intros k cur x f. induction pre as [|e pre IH]; intros el post s Hk Hs st acc.
  - cbn [app map for_each].
    pose proof (declare_all_fresh1 st cur x el) as D. cbn [push_frame fst] in D |- *. rewrite D.
    rewrite Hs by (cbn [frames]; apply nth_error_app_length).
    cbn. rewrite app_nil_r. reflexivity.
  - cbn [app map for_each].
    pose proof (declare_all_fresh1 st cur x e) as D. cbn [push_frame fst] in D |- *. rewrite D.
    set (st2 := mkState (frames st ++ [mkFrame (Some cur) [(x, e)]]) (out st)).
    assert (Hf : nth_error (frames st2) (List.length (frames st)) = Some (mkFrame (Some cur) [(x, e)]))
      by (subst st2; cbn [frames]; apply nth_error_app_length).
    rewrite (Hk st2 _ e acc (or_introl eq_refl) Hf).
    rewrite (IH el post s) by (intros; try apply Hk; try apply Hs; try right; assumption).
    subst st2. cbn [frames out iter_frames map flat_map app]. rewrite <- !app_assoc. reflexivity.
Qed.

Lemma flat_map_single {A B} (f : A -> B) (l : list A) : flat_map (fun a => [f a]) l = map f l.
Proof. induction l; cbn; congruence. Qed.

Definition pure_body (n : nat) (cur : nat) (x : name) (b : expr) (xs : list val) (ef : val -> val) : Prop :=
  forall st' fr e, In e xs -> nth_error (frames st') fr = Some (mkFrame (Some cur) [(x, e)]) ->
    eval n st' fr b = (st', Val (ef e)).

(* ================================================================ 3. break / continue in a yielding loop *)
(* `for (x <- le) yield b` where b yields ef e for the elements of `pre` and then breaks at el:
   a plain break returns the prefix collected so far, `break v` returns v; the elements after
   el are never visited (one frame per visited element) *)
Theorem yield_break_rule : forall n st cur x le b pre el post (ef : val -> val) bv,
  eval n st cur le = (st, Val (VList (pre ++ el :: post))) ->
  pure_body n cur x b pre ef ->
  (forall st' fr, nth_error (frames st') fr = Some (mkFrame (Some cur) [(x, el)]) ->
     eval n st' fr b = (st', Sig (SBreak 0 bv))) ->
  eval (S n) st cur (EFor [CIter x le] (FYield b)) =
    (mkState (frames st ++ iter_frames cur x (pre ++ [el])) (out st),
     Val (match bv with Some v => v | None => VList (map ef pre) end)).
Proof.
  intros n st cur x le b pre el post ef bv E Hb Hs.
  change (eval (S n)) with (evalF (eval n)). cbn [evalF]. unfold eval_for_expr. cbv iota.
  rewrite (eval_for_iter _ _ _ _ _ _ _ _ _ _ E).
  rewrite (for_each_stops _ cur x (fun e => [ef e]) pre el post (SBreak 0 bv)).
  - rewrite flat_map_single. destruct bv; reflexivity.
  - intros st' fr e acc Hin Hf. cbn [eval_for for_body]. rewrite (Hb st' fr e Hin Hf). reflexivity.
  - intros st' fr acc Hf. cbn [eval_for for_body]. rewrite (Hs st' fr Hf). reflexivity.
Qed.

(* `continue` in the body skips that element: with b yielding v when sel e = Some v and
   continuing when sel e = None, the loop returns the selected values in order *)
Theorem yield_continue_rule : forall n st cur x le b xs (sel : val -> option val),
  eval n st cur le = (st, Val (VList xs)) ->
  (forall st' fr e, In e xs -> nth_error (frames st') fr = Some (mkFrame (Some cur) [(x, e)]) ->
     eval n st' fr b = (st', match sel e with Some v => Val v | None => Sig (SContinue 0) end)) ->
  eval (S n) st cur (EFor [CIter x le] (FYield b)) =
    (mkState (frames st ++ iter_frames cur x xs) (out st),
     Val (VList (flat_map (fun e => match sel e with Some v => [v] | None => [] end) xs))).
Proof.
  intros n st cur x le b xs sel E Hb.
  change (eval (S n)) with (evalF (eval n)). cbn [evalF]. unfold eval_for_expr. cbv iota.
  rewrite (eval_for_iter _ _ _ _ _ _ _ _ _ _ E).
  rewrite (for_each_pure _ cur x (fun e => match sel e with Some v => [v] | None => [] end) xs); [reflexivity|].
  intros st' fr e acc Hin Hf. cbn [eval_for for_body]. rewrite (Hb st' fr e Hin Hf).
  destruct (sel e); [reflexivity|]. rewrite app_nil_r. reflexivity.
Qed.

(* ================================================================ 4. the `into` reducers *)
Lemma into_collect : forall n cur x b rd xs (ef : val -> val),
  pure_body n cur x b xs ef ->
  rd <> RFirst -> (rd = RSum -> forall e, In e xs -> exists z, ef e = VInt z) ->
  forall st acc,
  for_each (eval_for (eval n) [] (for_body (eval n) (FYieldInto b rd))) cur (map (fun e => [(x, e)]) xs) st acc
  = (mkState (frames st ++ iter_frames cur x xs) (out st), acc ++ map ef xs, Val tt).
Proof.
  intros n cur x b rd xs ef Hb Hnf Hsum st acc.
  rewrite (for_each_pure _ cur x (fun e => [ef e]) xs); [rewrite flat_map_single; reflexivity|].
  intros st' fr e acc' Hin Hf. cbn [eval_for for_body]. rewrite (Hb st' fr e Hin Hf).
  destruct rd; try reflexivity; try congruence.
  destruct (Hsum eq_refl e Hin) as [z ->]. reflexivity.
Qed.

Lemma sum_ints_spec : forall zs, sum_ints (map VInt zs) = fold_right Z.add 0%Z zs.
Proof. induction zs; cbn; congruence. Qed.

(* `for (x <- le) yield b into R` for a body without effects whose value is ef of the element *)
Theorem into_sum : forall n st cur x le b zs (ef : val -> val) xs,
  eval n st cur le = (st, Val (VList xs)) -> pure_body n cur x b xs ef ->
  map ef xs = map VInt zs ->
  eval (S n) st cur (EFor [CIter x le] (FYieldInto b RSum)) =
    (mkState (frames st ++ iter_frames cur x xs) (out st), Val (VInt (fold_right Z.add 0%Z zs))).
Proof.
  intros n st cur x le b zs ef xs E Hb Hz.
  change (eval (S n)) with (evalF (eval n)). cbn [evalF]. unfold eval_for_expr. cbv iota.
  rewrite (eval_for_iter _ _ _ _ _ _ _ _ _ _ E).
  rewrite (into_collect n cur x b RSum xs ef Hb); try discriminate.
  - cbn [app for_result finish_res finish ret]. rewrite Hz, sum_ints_spec. reflexivity.
  - intros _ e Hin. apply (in_map ef) in Hin. rewrite Hz in Hin. apply in_map_iff in Hin.
    destruct Hin as [z [Hz' _]]. exists z. congruence.
Qed.

Theorem into_count_last_len : forall n st cur x le b (ef : val -> val) xs,
  eval n st cur le = (st, Val (VList xs)) -> pure_body n cur x b xs ef ->
  let st' := mkState (frames st ++ iter_frames cur x xs) (out st) in
  eval (S n) st cur (EFor [CIter x le] (FYieldInto b RCount)) =
    (st', Val (VInt (Z.of_nat (List.length (filter truthy (map ef xs)))))) /\
  eval (S n) st cur (EFor [CIter x le] (FYieldInto b RLen)) = (st', Val (VInt (Z.of_nat (List.length xs)))) /\
  eval (S n) st cur (EFor [CIter x le] (FYieldInto b RLast)) =
    (st', match xs with [] => Sig (SThrow VErr) | _ => Val (last (map ef xs) VNull) end).
Proof.
  intros n st cur x le b ef xs E Hb st'.
  change (eval (S n)) with (evalF (eval n)). cbn [evalF]. unfold eval_for_expr. cbv iota.
  rewrite !(eval_for_iter _ _ _ _ _ _ _ _ _ _ E).
  rewrite !(into_collect n cur x b _ xs ef Hb) by (try discriminate; intros; discriminate).
  cbn [app for_result finish_res finish ret bindR prim_apply]. rewrite map_length.
  repeat split. destruct xs; reflexivity.
Qed.

(* into <any other expression>: it is evaluated first; the loop's list is then handed to it *)
Theorem into_function : forall n st cur x le b fe fv (ef : val -> val) xs,
  eval n st cur fe = (st, Val fv) ->
  eval n st cur le = (st, Val (VList xs)) -> pure_body n cur x b xs ef ->
  eval (S n) st cur (EFor [CIter x le] (FYieldInto b (RFun fe))) =
    apply_val (eval n) (mkState (frames st ++ iter_frames cur x xs) (out st)) fv [VList (map ef xs)].
Proof.
  intros n st cur x le b fe fv ef xs Ef E Hb.
  change (eval (S n)) with (evalF (eval n)). cbn [evalF]. unfold eval_for_expr. cbv iota.
  rewrite Ef. cbn [bindR]. rewrite (eval_for_iter _ _ _ _ _ _ _ _ _ _ E).
  rewrite (into_collect n cur x b _ xs ef Hb) by (try discriminate; intros; discriminate).
  reflexivity.
Qed.

(* into first: the first element's value ends the loop at once - the remaining elements are
   not visited (a single frame is allocated); nothing to take from an empty list is an error *)
Theorem into_first : forall n st cur x le b (ef : val -> val) xs,
  eval n st cur le = (st, Val (VList xs)) ->
  (forall el post, xs = el :: post -> pure_body n cur x b [el] ef) ->
  eval (S n) st cur (EFor [CIter x le] (FYieldInto b RFirst)) =
    match xs with
    | [] => (st, Sig (SThrow VErr))
    | el :: _ => (mkState (frames st ++ iter_frames cur x [el]) (out st), Val (ef el))
    end.
Proof.
  intros n st cur x le b ef xs E Hb.
  change (eval (S n)) with (evalF (eval n)). cbn [evalF]. unfold eval_for_expr. cbv iota.
  rewrite (eval_for_iter _ _ _ _ _ _ _ _ _ _ E).
  destruct xs as [|el post].
  - cbn. destruct st; reflexivity.
  - rewrite (for_each_stops _ cur x (fun e => [ef e]) [] el post (SBreak 0 (Some (ef el)))).
    + reflexivity.
    + intros ? ? ? ? [].
    + intros st' fr acc Hf. cbn [eval_for for_body].
      rewrite (Hb el post eq_refl st' fr el (or_introl eq_refl) Hf). reflexivity.
Qed.
