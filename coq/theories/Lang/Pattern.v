(* C12 model, part 2: patterns and binding.  Definitions only.
   Transcribes:
     src/eval.rs  EvaluatedLvalue (~38), assign (~2508), assign_all (~1996), assign_all_basic (~1970),
                  insert_declare (~2465), assign_respecting_type (~2477) for index-free identifiers,
                  Expr::Switch (~1341), Expr::Try (~1379), Closure::run (~1650)
     src/lib.rs   Plus / Minus / Times / Divide / ComparisonOperator / Append / Prepend `destructure`
                  (~118-640), uncons / unsnoc (~2972), ncmp (~339)
     src/core.rs  Builtin::destructure default (~2155), impl PartialOrd for Obj / Seq (~1182)
   Conventions: a pattern is an *evaluated* lvalue (annotation and default expressions are already
   values); names are numbers; one scope (`store`) maps a name to its declared type and value.
   `rt = Some t` is "declaring with type t", `rt = None` is assignment to existing variables, as in
   the Rust code.  A failed match does NOT roll the store back (the Rust code mutates the
   environment as it goes), so every function returns the store together with the outcome.
   Recursion is by fuel (`pat_size p` always suffices, see Pattern_proofs.fuel_enough).
   usize subtractions are checked (`usub`): an underflow is the outcome Panic.  Additions of
   lengths cannot overflow (a Vec has at most isize::MAX elements) and are plain nat additions. *)
From Coq Require Import ZArith NArith List Bool Lia.
From NV Require Import Common.Outcome Lang.Types.
Import ListNotations.
Open Scope Z_scope.

(* ---------------------------------------------------------------- syntax *)
Inductive cmpop := CLt | CGt | CLe | CGe | CEq | CNe.

(* the builtins whose `destructure` is overridden, and "any other builtin" *)
Inductive builtin :=
| BPlus | BMinus | BTimes | BDivide | BAppend | BPrepend
| BCmp (op : cmpop) (chained : list cmpop)     (* `<`, or a chain `<,<=` built by try_chain *)
| BOther.

Inductive pat :=
| PWild                                        (* Underscore *)
| PVar (x : N)                                 (* IndexedIdent(x, []) *)
| PAnn (p : pat) (a : option val)              (* Annotation(p, anno) ; `p:` is PAnn p None *)
| PDefault (p : pat) (d : val)                 (* WithDefault(p, expr) with the expression's value *)
| PSeq (ps : list pat) (delimited : bool)      (* CommaSeq *)
| PSplat (p : pat)
| POr (a b : pat)
| PAnd (a b : pat)
| PLit (v : val)                               (* Literal / `literally e` *)
| PDestr (b : builtin) (args : list pat)       (* Destructure: f(p, ..) or an operator chain *)
| PStruct (sid : N) (args : list pat).         (* DestructureStruct *)

Fixpoint pat_size (p : pat) : nat :=
  let fix go (l : list pat) : nat := match l with [] => O | q :: r => (pat_size q + go r)%nat end in
  match p with
  | PWild | PVar _ | PLit _ => 1%nat
  | PAnn q _ | PDefault q _ | PSplat q => S (pat_size q)
  | PSeq ps _ | PDestr _ ps | PStruct _ ps => S (go ps)
  | POr a b | PAnd a b => S (pat_size a + pat_size b)
  end.
Fixpoint pats_size (l : list pat) : nat :=
  match l with [] => O | q :: r => (pat_size q + pats_size r)%nat end.

(* ---------------------------------------------------------------- store *)
Definition store := list (N * (ty * val)).

Fixpoint lookup (s : store) (x : N) : option (ty * val) :=
  match s with
  | [] => None
  | (y, tv) :: r => if N.eqb x y then Some tv else lookup r x
  end.
Fixpoint set_val (s : store) (x : N) (v : val) : store :=
  match s with
  | [] => []
  | (y, (t, w)) :: r => if N.eqb x y then (y, (t, v)) :: r else (y, (t, w)) :: set_val r x v
  end.

Definition res := (store * outcome unit)%type.
Definition andthen (r : res) (k : store -> res) : res :=
  match r with
  | (s, Ok _) => k s
  | (s, e) => (s, e)
  end.

(* checked usize subtraction *)
Definition usub (a b : nat) : outcome nat := if (b <=? a)%nat then Ok (a - b)%nat else Panic.

(* float/complex arithmetic (one operand inexact) is abstract: C07's subject, not C12's *)
Inductive iop := ISub | IRem | IDivFloor | IAdd | IMul | IDiv.

Section Assign.
  Variable sat : N -> val -> outcome bool.
  Variable inexact : iop -> num -> num -> num.

  (* ---------- insert_declare / assign_respecting_type (no indices) *)
  Definition declare (s : store) (x : N) (t : ty) (v : val) : res :=
    match is_type sat t v with
    | Ok true =>
      match lookup s x with
      | Some _ => (s, Err EName)            (* Env::insert: already declared in this scope *)
      | None => ((x, (t, v)) :: s, Ok tt)
      end
    | Ok false => (s, Err EName)
    | Err c => (s, Err c)
    | Panic => (s, Panic)
    | OutOfFuel => (s, OutOfFuel)
    end.
  Definition assign_var (s : store) (x : N) (v : val) : res :=
    match lookup s x with
    | None => (s, Err EName)
    | Some (t, _) =>
      match is_type sat t v with
      | Ok true => (set_val s x v, Ok tt)
      | Ok false => (s, Err EType)
      | Err c => (s, Err c)
      | Panic => (s, Panic)
      | OutOfFuel => (s, OutOfFuel)
      end
    end.
  (* a bare type test used by Underscore and by delimited sequences *)
  Definition check_type (s : store) (t : ty) (v : val) : res :=
    match is_type sat t v with
    | Ok true => (s, Ok tt)
    | Ok false => (s, Err EType)
    | Err c => (s, Err c)
    | Panic => (s, Panic)
    | OutOfFuel => (s, OutOfFuel)
    end.

  (* ---------- exact arithmetic used by the operator patterns *)
  Definition to_q (x : num) : option (Z * positive) :=
    match x with NInt z => Some (z, 1%positive) | NRat n d => Some (n, d) | _ => None end.
  Definition rat_norm (n d : Z) : num :=            (* d > 0 *)
    let g := Z.gcd n d in NRat (n / g) (Z.to_pos (d / g)).
  Definition num_sub (x y : num) : num :=
    match x, y with
    | NInt a, NInt b => NInt (a - b)
    | _, _ =>
      match to_q x, to_q y with
      | Some (n1, d1), Some (n2, d2) => rat_norm (n1 * Zpos d2 - n2 * Zpos d1) (Zpos d1 * Zpos d2)
      | _, _ => inexact ISub x y
      end
    end.
  Definition num_add (x y : num) : num :=
    match x, y with
    | NInt a, NInt b => NInt (a + b)
    | _, _ =>
      match to_q x, to_q y with
      | Some (n1, d1), Some (n2, d2) => rat_norm (n1 * Zpos d2 + n2 * Zpos d1) (Zpos d1 * Zpos d2)
      | _, _ => inexact IAdd x y
      end
    end.
  Definition num_mul (x y : num) : num :=
    match x, y with
    | NInt a, NInt b => NInt (a * b)
    | _, _ =>
      match to_q x, to_q y with
      | Some (n1, d1), Some (n2, d2) => rat_norm (n1 * n2) (Zpos d1 * Zpos d2)
      | _, _ => inexact IMul x y
      end
    end.
  (* `/` on two exact numbers with a non-zero divisor is an exact rational *)
  Definition num_div (x y : num) : num :=
    match to_q x, to_q y with
    | Some (n1, d1), Some (n2, d2) =>
      if n2 =? 0 then inexact IDiv x y
      else if 0 <? n2 then rat_norm (n1 * Zpos d2) (Zpos d1 * n2)
      else rat_norm (- (n1 * Zpos d2)) (Zpos d1 * - n2)
    | _, _ => inexact IDiv x y
    end.
  Definition num_neg (x : num) : num :=
    match x with
    | NInt z => NInt (- z)
    | NRat n d => NRat (- n) d
    | NFloat b => NFloat (N.lxor b (2 ^ 63))           (* f64 negation flips the sign bit *)
    | NComplex re im => NComplex (N.lxor re (2 ^ 63)) (N.lxor im (2 ^ 63))
    end.
  Definition num_ge0 (x : num) : bool :=             (* diff >= NNum::from(0) *)
    match num_cmp x (NInt 0) with Some Gt | Some Eq => true | _ => false end.

  (* Plus::destructure core: r - a, must not be negative *)
  Definition plus_inv (r a : num) : outcome num :=
    let diff := num_sub r a in if num_ge0 diff then Ok diff else Err EValue.
  (* Times::destructure core (after the repair: a zero factor is an error, it used to divide by zero) *)
  Definition times_inv (r a : num) : outcome num :=
    match r, a with
    | NInt x, NInt y =>
      if y =? 0 then Err EValue
      else if negb (Z.rem x y =? 0) then Err EValue else Ok (NInt (x / y))
    | _, _ =>
      match to_q r, to_q a with
      | Some (n1, d1), Some (n2, d2) =>
        if n2 =? 0 then Err EValue
        else
          let nn := n1 * Zpos d2 in let dd := Zpos d1 * n2 in
          if negb (nn mod dd =? 0) then Err EValue else Ok (NRat (nn / dd) 1)
      | _, _ =>
        if negb (num_nonzero a) then Err EValue
        else if num_nonzero (inexact IRem r a) then Err EValue else Ok (inexact IDivFloor r a)
      end
    end.

  (* ---------- ordering: impl PartialOrd for Obj / Seq, ncmp *)
  Fixpoint lex {A} (c : A -> A -> option comparison) (a b : list A) : option comparison :=
    match a, b with
    | [], [] => Some Eq
    | [], _ :: _ => Some Lt
    | _ :: _, [] => Some Gt
    | x :: r, y :: s => match c x y with Some Eq => lex c r s | o => o end
    end.
  Fixpoint vcmp (a b : val) {struct a} : option comparison :=
    let fix go (l1 l2 : list val) {struct l1} : option comparison :=
      match l1, l2 with
      | [], [] => Some Eq
      | [], _ :: _ => Some Lt
      | _ :: _, [] => Some Gt
      | x :: r, y :: s => match vcmp x y with Some Eq => go r s | o => o end
      end in
    match a, b with
    | VNull, VNull => Some Eq
    | VNum x, VNum y => num_cmp x y
    | VStr s, VStr t => lex (fun x y => Some (N.compare x y)) s t
    | VList l1, VList l2 => go l1 l2
    | VVec l1, VVec l2 => lex num_cmp l1 l2
    | VBytes l1, VBytes l2 => lex (fun x y => Some (N.compare x y)) l1 l2
    | _, _ => None
    end.
  Definition is_seq (v : val) : bool :=
    match v with VStr _ | VList _ | VDict _ _ | VVec _ | VBytes _ | VStream _ => true | _ => false end.
  Definition ncmp (a b : val) : outcome comparison :=
    match a, b with
    | VNum _, VNum _ => match vcmp a b with Some c => Ok c | None => Err EType end
    | _, _ =>
      if is_seq a && is_seq b then match vcmp a b with Some c => Ok c | None => Err EType end
      else Err EType
    end.
  Definition cmp_accept (op : cmpop) (a b : val) : outcome bool :=
    match op with
    | CEq => Ok (veq a b)
    | CNe => Ok (negb (veq a b))
    | CLt => c <- ncmp a b ;; Ok (match c with Lt => true | _ => false end)
    | CGt => c <- ncmp a b ;; Ok (match c with Gt => true | _ => false end)
    | CLe => c <- ncmp a b ;; Ok (match c with Gt => false | _ => true end)
    | CGe => c <- ncmp a b ;; Ok (match c with Lt => false | _ => true end)
    end.
  (* ComparisonOperator::run on exactly (number of operators + 1) arguments *)
  Fixpoint cmp_chain (ops : list cmpop) (args : list val) : outcome bool :=
    match ops, args with
    | op :: ops', a :: ((b :: _) as rest) =>
      r <- cmp_accept op a b ;; if r then cmp_chain ops' rest else Ok false
    | _, _ => Ok true
    end.
  (* fill the non-literal slots from the supplied values, in order *)
  Fixpoint fill_slots (known : list (option val)) (rv : list val) : outcome (list val) :=
    match known with
    | [] => match rv with [] => Ok [] | _ :: _ => Err EArg end          (* too many rvalues *)
    | Some l :: k' => r <- fill_slots k' rv ;; Ok (l :: r)
    | None :: k' =>
      match rv with
      | [] => Err EArg                                                  (* ran out of rvalues *)
      | v :: rv' => r <- fill_slots k' rv' ;; Ok (v :: r)
      end
    end.

  (* ---------- uncons / unsnoc *)
  Definition uncons (v : val) : outcome (option (val * val)) :=
    match v with
    | VList (x :: r) => Ok (Some (x, VList r))
    | VStr (c :: r) => Ok (Some (VStr [c], VStr r))
    | VDict (k :: ks) (w :: ws) => Ok (Some (VList [k; w], VDict ks ws))
    | VVec (x :: r) => Ok (Some (VNum x, VVec r))
    | VBytes (b :: r) => Ok (Some (vint (Z.of_N b), VBytes r))
    | VStream (x :: r) => Ok (Some (x, VStream r))
    | VList [] | VStr [] | VDict _ _ | VVec [] | VBytes [] | VStream [] => Ok None
    | _ => Err EType
    end.
  Definition unsnoc (v : val) : outcome (option (val * val)) :=
    match v with
    | VList l | VStream l =>                       (* a stream is forced into a list first *)
      match rev l with [] => Ok None | x :: r => Ok (Some (VList (rev r), x)) end
    | VStr l => match rev l with [] => Ok None | c :: r => Ok (Some (VStr (rev r), VStr [c])) end
    | VDict _ _ =>                                 (* unsnoc of a dictionary is its uncons, swapped *)
      match uncons v with Ok (Some (e, d)) => Ok (Some (d, e)) | Ok None => Ok None | _ => Err EType end
    | VVec l => match rev l with [] => Ok None | x :: r => Ok (Some (VVec (rev r), VNum x)) end
    | VBytes l => match rev l with [] => Ok None | b :: r => Ok (Some (VBytes (rev r), vint (Z.of_N b))) end
    | _ => Err EType
    end.

  (* ---------- Builtin::destructure *)
  Definition destructure (b : builtin) (v : val) (known : list (option val)) : outcome (list val) :=
    match b with
    | BPlus =>
      match v, known with
      | VNum r, [Some (VNum a); None] => d <- plus_inv r a ;; Ok [VNum a; VNum d]
      | VNum r, [None; Some (VNum a)] => d <- plus_inv r a ;; Ok [VNum d; VNum a]
      | _, _ => Err EType
      end
    | BTimes =>
      match v, known with
      | VNum r, [Some (VNum a); None] => k <- times_inv r a ;; Ok [VNum a; VNum k]
      | VNum r, [None; Some (VNum a)] => k <- times_inv r a ;; Ok [VNum k; VNum a]
      | _, _ => Err EType
      end
    | BMinus =>
      match known with
      | [_] =>
        match v with
        | VNum x => Ok [VNum (num_neg x)]
        | VVec l => Ok [VVec (map num_neg l)]
        | _ => Err EArg
        end
      | _ => Err EType
      end
    | BDivide =>
      match v with
      | VNum x =>
        match to_q x with
        | Some (n, d) => Ok [vint n; vint (Zpos d)]
        | None => Err EValue
        end
      | _ => Err EType
      end
    | BAppend =>
      if is_seq v then
        o <- unsnoc v ;; match o with Some (i, l) => Ok [i; l] | None => Err EValue end
      else Err EType
    | BPrepend =>
      if is_seq v then
        o <- uncons v ;; match o with Some (h, t) => Ok [h; t] | None => Err EValue end
      else Err EType
    | BCmp op chained =>
      if negb (Nat.eqb (length chained + 2) (length known)) then Err EArg
      else
        let slots := length (filter (fun o => match o with None => true | Some _ => false end) known) in
        if Nat.eqb slots 0 then Err EArg
        else
          rv <- (if Nat.eqb slots 1 then Ok [v]
                 else match elements v with Some es => Ok es | None => Err EType end) ;;
          ret <- fill_slots known rv ;;
          ok <- cmp_chain (op :: chained) ret ;;
          if ok then Ok ret else Err EValue
    | BOther => Err EType
    end.

  (* ---------- assign_all_basic, assign_all *)
  Definition known_of (p : pat) : option val := match p with PLit v => Some v | _ => None end.

  Section All.
    (* the recursive callee (assign with less fuel) *)
    Variable rec : pat -> option ty -> val -> store -> res.

    Fixpoint zip_assign (ps : list pat) (rt : option ty) (vs : list val) (s : store) : res :=
      match ps, vs with
      | p :: ps', v :: vs' => andthen (rec p rt v s) (zip_assign ps' rt vs')
      | _, _ => (s, Ok tt)
      end.
    Definition assign_all_basic (ps : list pat) (rt : option ty) (vs : list val) (s : store) : res :=
      if Nat.eqb (length ps) (length vs) then zip_assign ps rt vs s else (s, Err EValue).

    (* the first loop of assign_all: position of the splat, and the defaults that are in play.
       Returns Err ESyntax for two splats / a non-default after a default in play. *)
    Fixpoint scan (ps : list pat) (i rhs_len : nat) (splat : option nat) (defs : list val)
      : outcome (option nat * list val) :=
      match ps with
      | [] => Ok (splat, defs)
      | p :: ps' =>
        match p with
        | PSplat _ | PAnn (PSplat _) _ =>
          match splat with
          | Some _ => Err ESyntax
          | None => scan ps' (S i) rhs_len (Some i) defs
          end
        | PDefault _ d =>
          prev <- (match splat with Some _ => usub i 1 | None => Ok i end) ;;
          scan ps' (S i) rhs_len splat (if (rhs_len <=? prev)%nat then defs ++ [d] else defs)
        | _ =>
          match defs with
          | [] => scan ps' (S i) rhs_len splat defs
          | _ :: _ => Err ESyntax
          end
        end
      end.

    (* the two `drain`s, with the guard added by the repair of F7 *)
    Definition split_splat (nl si : nat) (rhs : list val) : outcome (list val * list val * list val) :=
      let n := length rhs in
      if (n + 1 <? nl)%nat then Err EValue
      else
        start <- usub (n + si + 1) nl ;;
        if (n <? start)%nat then Panic          (* Vec::drain: range start beyond the end *)
        else
          let rrhs := skipn start rhs in
          let rhs1 := firstn start rhs in
          if (length rhs1 <? si)%nat then Panic
          else Ok (firstn si rhs1, skipn si rhs1, rrhs).
    (* as the code was: `rhs.len() - lhs.len() + si + 1` evaluated left to right, no guard *)
    Definition split_splat_old (nl si : nat) (rhs : list val) : outcome (list val * list val * list val) :=
      let n := length rhs in
      a <- usub n nl ;;
      let start := (a + si + 1)%nat in
      if (n <? start)%nat then Panic
      else
        let rrhs := skipn start rhs in
        let rhs1 := firstn start rhs in
        if (length rhs1 <? si)%nat then Panic
        else Ok (firstn si rhs1, skipn si rhs1, rrhs).

    Definition assign_splat (p : pat) (rt : option ty) (mid : list val) (s : store) : res :=
      match p with
      | PSplat inner => rec inner rt (VList mid) s
      | PAnn (PSplat inner) anno =>
        match anno with
        | None => rec inner (Some TAny) (VList mid) s
        | Some a =>
          match to_type a with
          | Ok t => rec inner (Some t) (VList mid) s
          | Err c => (s, Err c)
          | Panic => (s, Panic)
          | OutOfFuel => (s, OutOfFuel)
          end
        end
      | _ => (s, Err EOther)                 (* unreachable: scan put a splat at this index *)
      end.

    Definition assign_all (ps : list pat) (rt : option ty) (rhs : list val) (s : store) : res :=
      match scan ps 0 (length rhs) None [] with
      | Ok (Some si, defs) =>
        let rhs' := rhs ++ defs in
        match split_splat (length ps) si rhs' with
        | Ok (front, mid, back) =>
          andthen (assign_all_basic (firstn si ps) rt front s) (fun s1 =>
          andthen (assign_splat (nth si ps PWild) rt mid s1) (fun s2 =>
          assign_all_basic (skipn (S si) ps) rt back s2))
        | Err c => (s, Err c)
        | Panic => (s, Panic)
        | OutOfFuel => (s, OutOfFuel)
        end
      | Ok (None, defs) =>
        if Nat.eqb (length ps) (length rhs + length defs)
        then assign_all_basic ps rt (rhs ++ defs) s
        else (s, Err EValue)
      | Err c => (s, Err c)
      | Panic => (s, Panic)
      | OutOfFuel => (s, OutOfFuel)
      end.
  End All.

  (* ---------- assign *)
  Fixpoint assign (fuel : nat) (p : pat) (rt : option ty) (v : val) (s : store) {struct fuel} : res :=
    match fuel with
    | O => (s, OutOfFuel)
    | S fuel' =>
      let rec := assign fuel' in
      match p with
      | PWild =>
        match rt with
        | Some t => check_type s t v
        | None => (s, Ok tt)
        end
      | PVar x =>
        match rt with
        | Some t => declare s x t v
        | None => assign_var s x v
        end
      | PSeq ps delimited =>
        let go (rt' : option ty) (s' : store) : res :=
          match elements v with
          | Some es => assign_all rec ps rt' es s'
          | None => (s', Err EType)
          end in
        if delimited then
          match rt with
          | Some outer => andthen (check_type s outer v) (go (Some TAny))
          | None => go None s
          end
        else go rt s
      | PAnn q None => rec q (Some TAny) v s
      | PAnn q (Some a) =>
        match to_type a with
        | Ok t => rec q (Some t) v s
        | Err c => (s, Err c)
        | Panic => (s, Panic)
        | OutOfFuel => (s, OutOfFuel)
        end
      | PDefault q _ => rec q rt v s
      | PSplat _ => (s, Err EType)
      | POr a b =>
        match rec a rt v s with
        | (s1, Ok _) => (s1, Ok tt)
        | (s1, Err _) => rec b rt v s1
        | (s1, e) => (s1, e)
        end
      | PAnd a b => andthen (rec a rt v s) (rec b rt v)
      | PLit l => if veq l v then (s, Ok tt) else (s, Err EType)
      | PDestr b args =>
        match destructure b v (map known_of args) with
        | Ok r =>
          if Nat.eqb (length r) (length args) then assign_all rec args rt r s else (s, Err EType)
        | Err c => (s, Err c)
        | Panic => (s, Panic)
        | OutOfFuel => (s, OutOfFuel)
        end
      | PStruct sid args =>
        match v with
        | VInst sid' fs => if N.eqb sid sid' then assign_all rec args rt fs s else (s, Err EType)
        | _ => (s, Err EType)
        end
      end
    end.

  Definition assign_top (p : pat) (rt : option ty) (v : val) (s : store) : res :=
    assign (S (pat_size p)) p rt v s.

  (* ---------- switch / catch / call *)
  (* Expr::Switch: each arm is tried in a fresh child scope with rt = Some Any; the first arm
     whose assign returns Ok is taken; any Err moves on; no arm: value error *)
  Fixpoint switch_from (i : nat) (arms : list pat) (v : val) : outcome (nat * store) :=
    match arms with
    | [] => Err EValue
    | p :: rest =>
      match assign_top p (Some TAny) v [] with
      | (s, Ok _) => Ok (i, s)
      | (_, Err _) => switch_from (S i) rest v
      | (_, Panic) => Panic
      | (_, OutOfFuel) => OutOfFuel
      end
    end.
  Definition switch (arms : list pat) (v : val) : outcome (nat * store) := switch_from 0 arms v.

  (* Expr::Try: the thrown value against the catch pattern; no match rethrows *)
  Definition catch_bind (p : pat) (thrown : val) : outcome store :=
    match assign_top p (Some TAny) thrown [] with
    | (s, Ok _) => Ok s
    | (_, Err c) => Err c
    | (_, Panic) => Panic
    | (_, OutOfFuel) => OutOfFuel
    end.

  (* Closure::run: the argument vector against the parameter list *)
  Definition call_bind (params : list pat) (args : list val) : outcome store :=
    match assign_all (fun p => assign (S (pat_size p)) p) params (Some TAny) args [] with
    | (s, Ok _) => Ok s
    | (_, Err c) => Err c
    | (_, Panic) => Panic
    | (_, OutOfFuel) => OutOfFuel
    end.
End Assign.

(* a stand-in for the abstract float arithmetic where it is not exercised *)
Definition inexact_nan : iop -> num -> num -> num := fun _ _ _ => NFloat 9221120237041090560%N.
Definition sat_none : N -> val -> outcome bool := fun _ _ => Ok false.

(* `a, ...b, c` against [1]: the code as it was panics, the repaired split raises *)
Example F7_old_panics :
  split_splat_old 3 1 [vint 1] = Panic /\ split_splat 3 1 [vint 1] = Err EValue.
Proof. split; reflexivity. Qed.
(* `a, ...b, c` against [1, 2]: a legitimate match (b = []) that used to panic *)
Example F7_old_panics_on_a_match :
  split_splat_old 3 1 [vint 1; vint 2] = Panic /\
  split_splat 3 1 [vint 1; vint 2] = Ok ([vint 1], [], [vint 2]).
Proof. split; reflexivity. Qed.
Example assign_splat_example :
  assign_top sat_none inexact_nan
    (PSeq [PVar 1; PSplat (PVar 2); PVar 3] false) (Some TAny) (VList [vint 1; vint 2]) [] =
  ([(3%N, (TAny, vint 2)); (2%N, (TAny, VList [])); (1%N, (TAny, vint 1))], Ok tt).
Proof. vm_compute. reflexivity. Qed.
