(* Lang/FreezeLang.v - syntax, values, store and reference evaluator for property C17
   (freeze preserves meaning and binds free variables eagerly).

   The vocabulary is the one `freeze` is specified over: literals, identifiers (operators are
   ordinary identifiers bound to function values that carry a precedence), sequences,
   `:=` / `=` on simple names, if, while, for with iteration / declaration / guard clauses,
   switch with literal / identifier / wildcard patterns, try-catch, throw, lambdas, calls
   (`-5` is the juxtaposition call `-(5)`), infix operator chains, list literals, import and
   the bare underscore; plus the node `EFrozen v` that only `freeze` produces
   (src/core.rs Expr::Frozen), which makes expressions and values mutually inductive.

   Rust counterparts: src/core.rs enum Expr / Obj / Env, src/eval.rs `evaluate`,
   `evaluate_for`, `ChainEvaluator`, Closure::run.  The store is a heap of frames as in
   Lang/Syntax.v (property C05), re-declared here because this development must not depend
   on files that are still moving.  Two additions:
     - `budget`, a ghost field of a frame: the names the code that runs in the frame may
       declare in it (computed from the syntax when the frame is created).  Nothing reads it;
       it only lets the simulation proof say "no later declaration in this frame can capture
       a name that freeze resolved".
     - `prot`, a parameter of the evaluator: declaring or assigning a protected cell stops the
       evaluation with the signal STrap.  With `noprot` this is the plain evaluator; the
       preservation theorem uses it to state "the free variables of the frozen expression are
       not reassigned or shadowed between the freeze and the use".
   Definitions only. *)
From Coq Require Import ZArith String List Bool.
Import ListNotations.
Open Scope string_scope.
Open Scope list_scope.

Definition name := string.

Inductive prim := PAdd | PSub | PMul | PLt | PEq | PLen | PPrint.
Inductive pat := PWild | PLit (z : Z) | PVar (x : name).
Inductive ckind := KIter | KLet | KGuard.     (* x <- e  |  x := e  |  if e  (name unused) *)

Inductive expr :=
| ENull
| EInt (z : Z)
| EStr (s : string)
| EVar (x : name)
| EUnderscore
| EFrozen (v : val)
| ESeq (es : list expr)                          (* (a; b; c) *)
| EDecl (x : name) (e : expr)                    (* x := e *)
| EAssign (x : name) (e : expr)                  (* x = e *)
| EIf (c t f : expr)                             (* if (c) t else f ; a missing else is `else null` *)
| EWhile (c b : expr)
| EFor (x : name) (e : expr) (cls : list (ckind * name * expr)) (yield : bool) (body : expr)
                                                 (* for (x <- e; cls) body / yield body *)
| ESwitch (e : expr) (arms : list (pat * expr))
| ETry (b : expr) (x : name) (h : expr)          (* try b catch x -> h *)
| EThrow (e : expr)
| ELam (ps : list name) (b : expr)
| ECall (f : expr) (args : list expr)
| EChain (a : expr) (ops : list (expr * expr))   (* a op1 b op2 c ... *)
| EList (es : list expr)
| EImport (e : expr)
with val :=
| VNull
| VInt (z : Z)
| VStr (s : string)
| VList (l : list val)
| VPrim (p : prim) (prec : Z)
| VClos (ps : list name) (body : expr) (env : nat) (prec : Z)
| VErr.                                          (* the opaque message of an interpreter error *)

Definition clause := (ckind * name * expr)%type.

(* ---------------------------------------------------------------- names declared in a scope *)
(* The names an expression may declare directly in the frame it is evaluated in (not in the
   frames of nested scopes: while / for iterations, switch arms, catch handlers, lambda bodies).
   It is also what `freeze` adds to its flat `bound` set while walking the expression. *)
Fixpoint ddecl (e : expr) : list name :=
  match e with
  | ENull | EInt _ | EStr _ | EVar _ | EUnderscore | EFrozen _ => []
  | ESeq es => flat_map ddecl es
  | EDecl x e1 => x :: ddecl e1
  | EAssign _ e1 => ddecl e1
  | EIf c t f => ddecl c ++ ddecl t ++ ddecl f
  | EWhile _ _ => []
  | EFor _ e1 _ _ _ => ddecl e1       (* the first iteratee is evaluated in the enclosing frame *)
  | ESwitch e1 _ => ddecl e1
  | ETry b _ _ => ddecl b
  | EThrow e1 => ddecl e1
  | ELam _ _ => []
  | ECall f args => ddecl f ++ flat_map ddecl args
  | EChain a ops => ddecl a ++ flat_map (fun p => ddecl (fst p) ++ ddecl (snd p)) ops
  | EList es => flat_map ddecl es
  | EImport _ => []
  end.

Definition pat_names (p : pat) : list name :=
  match p with PVar x => [x] | _ => [] end.

Definition clause_names (c : clause) : list name :=
  match c with
  | (KGuard, _, _) => []
  | (_, x, _) => [x]
  end.

(* budgets of the frames the scope constructs create *)
Definition for_budget (x : name) (cls : list clause) (body : expr) : list name :=
  x :: flat_map (fun c => clause_names c ++ ddecl (snd c)) cls ++ ddecl body.
Definition while_budget (c b : expr) : list name := ddecl c ++ ddecl b.
Definition arm_budget (p : pat) (b : expr) : list name := pat_names p ++ ddecl b.
Definition catch_budget (x : name) (h : expr) : list name := x :: ddecl h.
Definition call_budget (ps : list name) (b : expr) : list name := ps ++ ddecl b.

(* ---------------------------------------------------------------- store *)
Record frame := mkFrame { parent : option nat; vars : list (name * val); budget : list name }.
Record state := mkState { frames : list frame; out : list (list val) }.

Inductive signal :=
| SThrow (v : val)
| SUnsupp          (* the program left the modelled vocabulary; nothing absorbs it *)
| STrap.           (* a protected cell was about to be written; nothing absorbs it *)

Inductive res (A : Type) :=
| Val (a : A)
| Sig (s : signal)
| OutOfFuel.
Arguments Val {A} a.
Arguments Sig {A} s.
Arguments OutOfFuel {A}.

Definition result (A : Type) := (state * res A)%type.

Definition bindR {A B} (r : result A) (k : state -> A -> result B) : result B :=
  match r with
  | (st, Val a) => k st a
  | (st, Sig s) => (st, Sig s)
  | (st, OutOfFuel) => (st, OutOfFuel)
  end.

Definition throw_err {A} (st : state) : result A := (st, Sig (SThrow VErr)).
Definition unsupported {A} (st : state) : result A := (st, Sig SUnsupp).
Definition trap {A} (st : state) : result A := (st, Sig STrap).
Definition ret {A} (st : state) (a : A) : result A := (st, Val a).

Definition names (fr : frame) : list name := map fst (vars fr).
Definition in_dom (x : name) (fr : frame) : bool := existsb (String.eqb x) (names fr).

Fixpoint assoc (x : name) (l : list (name * val)) : option val :=
  match l with
  | [] => None
  | (y, v) :: r => if String.eqb x y then Some v else assoc x r
  end.

Fixpoint assoc_set (x : name) (v : val) (l : list (name * val)) : list (name * val) :=
  match l with
  | [] => []
  | (y, w) :: r => if String.eqb x y then (y, v) :: r else (y, w) :: assoc_set x v r
  end.

Fixpoint set_nth {A} (n : nat) (a : A) (l : list A) : list A :=
  match l, n with
  | [], _ => []
  | _ :: r, O => a :: r
  | b :: r, S m => b :: set_nth m a r
  end.

(* Env::with_parent *)
Definition push_frame (st : state) (p : nat) (bud : list name) : state * nat :=
  (mkState (frames st ++ [mkFrame (Some p) [] bud]) (out st), length (frames st)).

(* the nearest enclosing frame declaring x; a parent always has a smaller id than its child *)
Fixpoint resolve_aux (d : nat) (fs : list frame) (f : nat) (x : name) : option nat :=
  match d with
  | O => None
  | S d' =>
      match nth_error fs f with
      | None => None
      | Some fr =>
          if in_dom x fr then Some f
          else match parent fr with
               | Some p => if Nat.ltb p f then resolve_aux d' fs p x else None
               | None => None
               end
      end
  end.
Definition resolve (fs : list frame) (f : nat) (x : name) : option nat := resolve_aux (S f) fs f x.

Definition cell (fs : list frame) (g : nat) (x : name) : option val :=
  match nth_error fs g with
  | Some fr => assoc x (vars fr)
  | None => None
  end.

Definition lookup (fs : list frame) (f : nat) (x : name) : option val :=
  match resolve fs f x with
  | Some g => cell fs g x
  | None => None
  end.

Definition protection := nat -> name -> bool.
Definition noprot : protection := fun _ _ => false.

Inductive upd := UOk (st : state) | UFail | UTrap.

(* Env::insert without redeclaration: declare x in frame f *)
Definition declare (prot : protection) (st : state) (f : nat) (x : name) (v : val) : upd :=
  match nth_error (frames st) f with
  | Some fr =>
      if in_dom x fr then UFail
      else if prot f x then UTrap
      else UOk (mkState (set_nth f (mkFrame (parent fr) ((x, v) :: vars fr) (budget fr)) (frames st)) (out st))
  | None => UFail
  end.

(* Env::modify_existing_var: assign the nearest enclosing x *)
Definition assign (prot : protection) (st : state) (f : nat) (x : name) (v : val) : upd :=
  match resolve (frames st) f x with
  | Some g =>
      match nth_error (frames st) g with
      | Some fr =>
          if prot g x then UTrap
          else UOk (mkState (set_nth g (mkFrame (parent fr) (assoc_set x v (vars fr)) (budget fr)) (frames st)) (out st))
      | None => UFail
      end
  | None => UFail
  end.

Definition upd_result (st : state) (u : upd) : result unit :=
  match u with
  | UOk st1 => ret st1 tt
  | UFail => throw_err st
  | UTrap => trap st
  end.

(* ---------------------------------------------------------------- values *)
Definition truthy (v : val) : bool :=
  match v with
  | VNull => false
  | VInt z => negb (Z.eqb z 0)
  | VStr s => negb (String.eqb s "")
  | VList l => match l with [] => false | _ => true end
  | VPrim _ _ | VClos _ _ _ _ => true
  | VErr => true
  end.

Definition is_func (v : val) : bool :=
  match v with VPrim _ _ | VClos _ _ _ _ => true | _ => false end.

Definition func_prec (v : val) : Z :=
  match v with VPrim _ p => p | VClos _ _ _ p => p | _ => 0%Z end.

Definition is_cmp (v : val) : bool :=
  match v with VPrim PLt _ | VPrim PEq _ => true | _ => false end.

(* data only *)
Fixpoint simple (v : val) : bool :=
  match v with
  | VNull | VInt _ | VStr _ => true
  | VList l => forallb simple l
  | _ => false
  end.

Fixpoint veqb (a b : val) : bool :=
  match a, b with
  | VNull, VNull => true
  | VInt x, VInt y => Z.eqb x y
  | VStr x, VStr y => String.eqb x y
  | VList xs, VList ys =>
      (fix go (xs ys : list val) : bool :=
         match xs, ys with
         | [], [] => true
         | x :: xs', y :: ys' => veqb x y && go xs' ys'
         | _, _ => false
         end) xs ys
  | _, _ => false
  end.

Definition vbool (b : bool) : val := VInt (if b then 1 else 0).

(* the handful of builtins; anything outside their modelled domain is SUnsupp *)
Definition prim_apply (p : prim) (vs : list val) (st : state) : result val :=
  match p, vs with
  | PAdd, [VInt a; VInt b] => ret st (VInt (a + b))
  | PSub, [VInt a; VInt b] => ret st (VInt (a - b))
  | PSub, [VInt a] => ret st (VInt (- a))
  | PMul, [VInt a; VInt b] => ret st (VInt (a * b))
  | (PAdd | PSub | PMul), [_; _] => throw_err st       (* "only accepts numbers" *)
  | PSub, [_] => throw_err st
  | (PAdd | PSub | PMul), [] => throw_err st           (* "only accepts two numbers, got 0" *)
  | (PAdd | PSub | PMul), _ :: _ :: _ :: _ => throw_err st   (* one argument is a partial application *)
  | PLt, [VInt a; VInt b] => ret st (vbool (Z.ltb a b))
  | PEq, [a; b] => if simple a && simple b then ret st (vbool (veqb a b)) else unsupported st
  | PLen, [VList l] => ret st (VInt (Z.of_nat (length l)))
  | PLen, [VStr s] => ret st (VInt (Z.of_nat (String.length s)))
  | PPrint, _ => if forallb simple vs then ret (mkState (frames st) (out st ++ [vs])) VNull else unsupported st
  | _, _ => unsupported st
  end.

Inductive tri (A : Type) := TOk (a : A) | TThrow | TUnsupp.
Arguments TOk {A} a.
Arguments TThrow {A}.
Arguments TUnsupp {A}.

(* mut_obj_into_iter: lists only in this vocabulary *)
Definition iter_elems (v : val) : tri (list val) :=
  match v with
  | VList l => TOk l
  | VStr _ | VErr => TUnsupp
  | VNull | VInt _ | VPrim _ _ | VClos _ _ _ _ => TThrow
  end.

Definition is_underscore (e : expr) : bool :=
  match e with EUnderscore => true | _ => false end.

(* assign with a declaring type against a switch pattern, in the arm's fresh frame *)
Definition pat_match (p : pat) (v : val) : tri (list (name * val)) :=
  match p with
  | PWild => TOk []
  | PVar x => TOk [(x, v)]
  | PLit z => match v with
              | VInt w => if Z.eqb z w then TOk [] else TThrow
              | VErr => TUnsupp
              | _ => TThrow
              end
  end.

Section WithRec.
  Variable prot : protection.
  Variable rec : state -> nat -> expr -> result val.

  Fixpoint declare_all (st : state) (f : nat) (bs : list (name * val)) : result unit :=
    match bs with
    | [] => ret st tt
    | (x, v) :: r =>
        bindR (upd_result st (declare prot st f x v)) (fun st1 _ => declare_all st1 f r)
    end.

  (* eval_seq / splat_section_eval without splats *)
  Fixpoint eval_exprs (st : state) (cur : nat) (es : list expr) : result (list val) :=
    match es with
    | [] => ret st []
    | e :: rest =>
        bindR (rec st cur e) (fun st1 v =>
          bindR (eval_exprs st1 cur rest) (fun st2 vs => ret st2 (v :: vs)))
    end.

  Fixpoint eval_seq (st : state) (cur : nat) (es : list expr) : result val :=
    match es with
    | [] => ret st VNull
    | e :: r =>
        bindR (rec st cur e) (fun st1 v =>
          match r with
          | [] => ret st1 v
          | _ => eval_seq st1 cur r
          end)
    end.

  Definition eval_decl (st : state) (cur : nat) (x : name) (e : expr) : result val :=
    bindR (rec st cur e) (fun st1 v =>
      bindR (upd_result st1 (declare prot st1 cur x v)) (fun st2 _ => ret st2 VNull)).

  Definition eval_assign (st : state) (cur : nat) (x : name) (e : expr) : result val :=
    bindR (rec st cur e) (fun st1 v =>
      bindR (upd_result st1 (assign prot st1 cur x v)) (fun st2 _ => ret st2 VNull)).

  Definition eval_if (st : state) (cur : nat) (c t f : expr) : result val :=
    bindR (rec st cur c) (fun st1 v => if truthy v then rec st1 cur t else rec st1 cur f).

  (* While: a fresh scope per iteration, condition included; the next iteration is the same
     expression again (one unit of fuel per iteration) *)
  Definition eval_while (st : state) (cur : nat) (c b : expr) : result val :=
    let '(st1, fr) := push_frame st cur (while_budget c b) in
    bindR (rec st1 fr c) (fun st2 vc =>
      if truthy vc then bindR (rec st2 fr b) (fun st3 _ => rec st3 cur (EWhile c b))
      else ret st2 VNull).

  (* Closure::run / Func::run *)
  Definition apply_val (st : state) (fv : val) (args : list val) : result val :=
    match fv with
    | VClos ps body env _ =>
        if Nat.eqb (length ps) (length args) then
          let '(st1, fr) := push_frame st env (call_budget ps body) in
          bindR (declare_all st1 fr (combine ps args)) (fun st2 _ => rec st2 fr body)
        else throw_err st
    | VPrim p _ => prim_apply p args st
    | _ => if existsb is_func args then unsupported st else throw_err st
    end.

  (* evaluate_for: one pass per element, each in a fresh child frame of the frame the clause was
     entered in; `k` is the rest of the clause list; the accumulator is the list of yielded values *)
  Fixpoint for_each (k : state -> nat -> list val -> result (list val)) (cur : nat) (bud : list name)
           (x : name) (l : list val) (st : state) (acc : list val) : result (list val) :=
    match l with
    | [] => ret st acc
    | v :: l' =>
        let '(st1, fr) := push_frame st cur bud in
        bindR (declare_all st1 fr [(x, v)]) (fun st2 _ =>
          bindR (k st2 fr acc) (fun st3 acc' => for_each k cur bud x l' st3 acc'))
    end.

  Fixpoint eval_for (bud : list name) (cls : list clause) (cb : state -> nat -> list val -> result (list val))
           (st : state) (cur : nat) (acc : list val) : result (list val) :=
    match cls with
    | [] => cb st cur acc
    | (k, x, e) :: rest =>
        bindR (rec st cur e) (fun st1 v =>
          match k with
          | KGuard => if truthy v then eval_for bud rest cb st1 cur acc else ret st1 acc
          | KLet => for_each (eval_for bud rest cb) cur bud x [v] st1 acc
          | KIter =>
              match iter_elems v with
              | TOk l => for_each (eval_for bud rest cb) cur bud x l st1 acc
              | TThrow => throw_err st1
              | TUnsupp => unsupported st1
              end
          end)
    end.

  Definition for_body (yield : bool) (body : expr) (st : state) (fr : nat) (acc : list val) : result (list val) :=
    bindR (rec st fr body) (fun st1 v => ret st1 (if yield then acc ++ [v] else acc)).

  Definition eval_for_expr (st : state) (cur : nat) (x : name) (e : expr) (cls : list clause)
             (yield : bool) (body : expr) : result val :=
    bindR (eval_for (for_budget x cls body) ((KIter, x, e) :: cls) (for_body yield body) st cur [])
          (fun st1 acc => ret st1 (if yield then VList acc else VNull)).

  (* Switch: every arm is tried in its own fresh frame *)
  Fixpoint eval_arms (st : state) (cur : nat) (v : val) (arms : list (pat * expr)) : result val :=
    match arms with
    | [] => throw_err st
    | (p, b) :: rest =>
        let '(st1, fr) := push_frame st cur (arm_budget p b) in
        match pat_match p v with
        | TOk bs => bindR (declare_all st1 fr bs) (fun st2 _ => rec st2 fr b)
        | TThrow => eval_arms st1 cur v rest
        | TUnsupp => unsupported st1
        end
    end.

  (* Try: only Throw is intercepted; the handler runs in a fresh frame holding the thrown value *)
  Definition eval_try (st : state) (cur : nat) (b : expr) (x : name) (h : expr) : result val :=
    match rec st cur b with
    | (st1, Sig (SThrow v)) =>
        let '(st2, fr) := push_frame st1 cur (catch_budget x h) in
        bindR (declare_all st2 fr [(x, v)]) (fun st3 _ => rec st3 fr h)
    | r => r
    end.

  Definition eval_call (st : state) (cur : nat) (f : expr) (args : list expr) : result val :=
    if is_underscore f || existsb is_underscore args then unsupported st else
    bindR (rec st cur f) (fun st1 fv =>
      bindR (eval_exprs st1 cur args) (fun st2 vs => apply_val st2 fv vs)).

  (* ChainEvaluator.  `pending` is the stack of (left operand, operator, precedence), top first;
     all operators of the vocabulary are left-associative; comparison operators (which merge into
     one chained comparison, Func::try_chain) are only modelled in one-operator chains. *)
  Fixpoint chain_reduce (st : state) (pending : list (val * val * Z)) (rightmost : val) (prec : Z)
    : result (list (val * val * Z) * val) :=
    match pending with
    | (lhs, top, tp) :: rest =>
        if Z.leb prec tp then
          bindR (apply_val st top [lhs; rightmost]) (fun st1 v => chain_reduce st1 rest v prec)
        else ret st (pending, rightmost)
    | [] => ret st ([], rightmost)
    end.

  Fixpoint chain_finish (st : state) (pending : list (val * val * Z)) (rightmost : val) : result val :=
    match pending with
    | (lhs, top, _) :: rest =>
        bindR (apply_val st top [lhs; rightmost]) (fun st1 v => chain_finish st1 rest v)
    | [] => ret st rightmost
    end.

  Fixpoint chain_ops (st : state) (cur : nat) (pending : list (val * val * Z)) (rightmost : val)
           (ops : list (expr * expr)) : result val :=
    match ops with
    | [] => chain_finish st pending rightmost
    | (oper, opd) :: rest =>
        bindR (rec st cur oper) (fun st1 opv =>
          if negb (is_func opv) then throw_err st1 else
          if is_cmp opv then unsupported st1 else
          bindR (rec st1 cur opd) (fun st2 v =>
            bindR (chain_reduce st2 pending rightmost (func_prec opv)) (fun st3 pr =>
              chain_ops st3 cur ((snd pr, opv, func_prec opv) :: fst pr) v rest)))
    end.

  Definition eval_chain (st : state) (cur : nat) (a : expr) (ops : list (expr * expr)) : result val :=
    if is_underscore a || existsb (fun p => is_underscore (snd p)) ops then unsupported st else
    match ops with
    | [(oper, opd)] =>
        bindR (rec st cur a) (fun st1 lhs =>
          bindR (rec st1 cur oper) (fun st2 opv =>
            if negb (is_func opv) then throw_err st2 else
            bindR (rec st2 cur opd) (fun st3 rhs => apply_val st3 opv [lhs; rhs])))
    | _ => bindR (rec st cur a) (fun st1 v => chain_ops st1 cur [] v ops)
    end.

  Definition evalF (st : state) (cur : nat) (e : expr) : result val :=
    match e with
    | ENull => ret st VNull
    | EInt z => ret st (VInt z)
    | EStr s => ret st (VStr s)
    | EVar x =>
        match lookup (frames st) cur x with
        | Some v => ret st v
        | None => throw_err st
        end
    | EUnderscore => throw_err st
    | EFrozen v => ret st v
    | ESeq es => eval_seq st cur es
    | EDecl x e1 => eval_decl st cur x e1
    | EAssign x e1 => eval_assign st cur x e1
    | EIf c t f => eval_if st cur c t f
    | EWhile c b => eval_while st cur c b
    | EFor x e1 cls y body => eval_for_expr st cur x e1 cls y body
    | ESwitch e1 arms => bindR (rec st cur e1) (fun st1 v => eval_arms st1 cur v arms)
    | ETry b x h => eval_try st cur b x h
    | EThrow e1 => bindR (rec st cur e1) (fun st1 v => (st1, Sig (SThrow v)))
    | ELam ps b => ret st (VClos ps b cur 0)
    | ECall f args => eval_call st cur f args
    | EChain a ops => eval_chain st cur a ops
    | EList es =>
        if existsb is_underscore es then unsupported st
        else bindR (eval_exprs st cur es) (fun st1 vs => ret st1 (VList vs))
    | EImport _ => unsupported st
    end.
End WithRec.

Fixpoint eval (prot : protection) (fuel : nat) : state -> nat -> expr -> result val :=
  match fuel with
  | O => fun st _ _ => (st, OutOfFuel)
  | S n => evalF prot (eval prot n)
  end.

(* applying a function value to arguments (how a frozen lambda is used later) *)
Definition apply (prot : protection) (fuel : nat) (st : state) (fv : val) (args : list val) : result val :=
  apply_val prot (eval prot fuel) st fv args.

(* ---------------------------------------------------------------- the initial environment *)
Definition global_vars : list (name * val) :=
  [("+", VPrim PAdd 4); ("-", VPrim PSub 4); ("*", VPrim PMul 5); ("<", VPrim PLt 1);
   ("==", VPrim PEq 1); ("len", VPrim PLen 0); ("print", VPrim PPrint 0)].

Definition init_state : state := mkState [mkFrame None global_vars []] [].

(* ---------------------------------------------------------------- small examples *)
Local Notation "'V' x" := (EVar x) (at level 9).
Definition bin (op : name) (a b : expr) := EChain a [(EVar op, b)].

Example ex_prec :   (* 1 + 2 * 3 - 4 = 3 *)
  snd (eval noprot 10 init_state 0 (EChain (EInt 1) [(V "+", EInt 2); (V "*", EInt 3); (V "-", EInt 4)]))
  = Val (VInt 3).
Proof. reflexivity. Qed.

Example ex_for :    (* for (i <- [1,2,3]; j := i * 2; if 2 < j) yield j  = [4, 6] *)
  snd (eval noprot 10 init_state 0
         (EFor "i" (EList [EInt 1; EInt 2; EInt 3])
               [(KLet, "j", bin "*" (V "i") (EInt 2)); (KGuard, "", bin "<" (EInt 2) (V "j"))] true (V "j")))
  = Val (VList [VInt 4; VInt 6]).
Proof. reflexivity. Qed.

Example ex_closure_sees_later_declaration :
  (* a := 3; f := \x -> (g := \ -> a; a := x; g()); f(8)  =  8 : g resolves `a` when it runs *)
  snd (eval noprot 12 init_state 0
         (ESeq [EDecl "a" (EInt 3);
                EDecl "f" (ELam ["x"] (ESeq [EDecl "g" (ELam [] (V "a")); EDecl "a" (V "x"); ECall (V "g") []]));
                ECall (V "f") [EInt 8]]))
  = Val (VInt 8).
Proof. reflexivity. Qed.
