(* C12 model, part 1: runtime values, `==`, runtime types.
   Transcribes (definitions only):
     src/core.rs   Obj / Seq / NNum shapes, `impl PartialEq for Obj/Seq` (~1155), ObjType (~576),
                   type_of (~623), to_type (~839), Obj::truthy (~1109)
     src/nnum.rs   NNum PartialEq / PartialOrd through project_to_reals (~500-620): exact comparison
     src/eval.rs   is_type (~3230)
   Values are pure and immutable (DESIGN section 3; licensed by C01).  BigInt is Z, BigRational is a
   pair numerator/positive denominator (compared by cross-multiplication, so the lowest-terms
   invariant is not needed), an f64 is its 64-bit pattern with an exact decoder written here.
   A dictionary is a pair of parallel lists (keys, values) in the canonical order the harness
   prints; `==` on dictionaries is then pointwise (exact for keys whose canonical text is
   determined by their == class, e.g. ints and strings, which is what the runs use). *)
From Coq Require Import ZArith NArith List Bool Lia.
From NV Require Import Common.Outcome.
Import ListNotations.
Open Scope Z_scope.

(* ---------------------------------------------------------------- numbers *)
Inductive num :=
| NInt (z : Z)
| NRat (n : Z) (d : positive)
| NFloat (bits : N)
| NComplex (re im : N).

(* the exact value of one real component *)
Inductive xreal := XNan | XInf (neg : bool) | XQ (n : Z) (d : positive).

Definition fdecode (b : N) : xreal :=
  let s := N.testbit b 63 in
  let e := Z.of_N ((b / 2 ^ 52) mod 2 ^ 11)%N in
  let m := Z.of_N (b mod 2 ^ 52)%N in
  if e =? 2047 then (if m =? 0 then XInf s else XNan)
  else
    let mant := if e =? 0 then m else 2 ^ 52 + m in
    let k := (if e =? 0 then 1 else e) - 1075 in
    let sm := if s then - mant else mant in
    if 0 <=? k then XQ (sm * 2 ^ k) 1 else XQ sm (Z.to_pos (2 ^ (- k))).

(* NNum::project_to_reals *)
Definition reals (x : num) : xreal * xreal :=
  match x with
  | NInt z => (XQ z 1, XQ 0 1)
  | NRat n d => (XQ n d, XQ 0 1)
  | NFloat b => (fdecode b, XQ 0 1)
  | NComplex re im => (fdecode re, fdecode im)
  end.

(* partial_cmp of two real components: None iff a NaN is involved *)
Definition xcmp (a b : xreal) : option comparison :=
  match a, b with
  | XNan, _ | _, XNan => None
  | XInf true, XInf true => Some Eq
  | XInf false, XInf false => Some Eq
  | XInf true, _ => Some Lt
  | XInf false, _ => Some Gt
  | _, XInf true => Some Gt
  | _, XInf false => Some Lt
  | XQ n1 d1, XQ n2 d2 => Some (n1 * Zpos d2 ?= n2 * Zpos d1)
  end.

Definition xeq (a b : xreal) : bool :=
  match xcmp a b with Some Eq => true | _ => false end.

(* impl PartialEq for NNum *)
Definition num_eq (x y : num) : bool :=
  let (r1, i1) := reals x in let (r2, i2) := reals y in xeq r1 r2 && xeq i1 i2.

(* impl PartialOrd for NNum: tuple comparison of the projections *)
Definition num_cmp (x y : num) : option comparison :=
  let (r1, i1) := reals x in let (r2, i2) := reals y in
  match xcmp r1 r2 with
  | Some Eq => xcmp i1 i2
  | o => o
  end.

Definition is_exact (x : num) : bool :=
  match x with NInt _ | NRat _ _ => true | _ => false end.

(* ---------------------------------------------------------------- types *)
Inductive ty :=
| TNull | TInt | TRational | TFloat | TComplex | TNumber | TString | TList | TDict | TVector
| TBytes | TStream | TFunc | TType | TAny | TStructInstance
| TStruct (sid : N)
| TSat (pid : N).           (* satisfying(<predicate pid>) *)

(* ---------------------------------------------------------------- values *)
Inductive val :=
| VNull
| VNum (x : num)
| VStr (s : list N)                       (* code points *)
| VList (l : list val)
| VDict (ks : list val) (vs : list val)   (* parallel lists, canonical order *)
| VVec (l : list num)
| VBytes (l : list N)
| VStream (l : list val)                  (* a finite stream, by its elements *)
| VInst (sid : N) (fs : list val)         (* struct instance *)
| VFunc (id : N)                          (* any function that is not a type *)
| VType (t : ty).                         (* a type used as a value: int, Foo, satisfying(..) *)

Definition vint (z : Z) : val := VNum (NInt z).

Fixpoint list_eqb {A} (f : A -> A -> bool) (a b : list A) : bool :=
  match a, b with
  | [], [] => true
  | x :: r, y :: s => f x y && list_eqb f r s
  | _, _ => false
  end.

(* impl PartialEq for Obj: functions (and types) are never equal, not even to themselves;
   streams are never equal; dictionaries ignore the default *)
Fixpoint veq (a b : val) {struct a} : bool :=
  let fix go (l1 l2 : list val) {struct l1} : bool :=
    match l1, l2 with
    | [], [] => true
    | x :: r, y :: s => veq x y && go r s
    | _, _ => false
    end in
  match a, b with
  | VNull, VNull => true
  | VNum x, VNum y => num_eq x y
  | VStr s, VStr t => list_eqb N.eqb s t
  | VList l1, VList l2 => go l1 l2
  | VDict k1 v1, VDict k2 v2 => go k1 k2 && go v1 v2
  | VVec l1, VVec l2 => list_eqb num_eq l1 l2
  | VBytes l1, VBytes l2 => list_eqb N.eqb l1 l2
  | VInst s1 f1, VInst s2 f2 => N.eqb s1 s2 && go f1 f2
  | _, _ => false
  end.

(* the same inner loop, exposed for statements *)
Fixpoint veq_list (l1 l2 : list val) : bool :=
  match l1, l2 with
  | [], [] => true
  | x :: r, y :: s => veq x y && veq_list r s
  | _, _ => false
  end.

(* Obj::truthy *)
Definition num_nonzero (x : num) : bool :=
  match x with
  | NInt z => negb (z =? 0)
  | NRat n _ => negb (n =? 0)
  | NFloat b => negb (xeq (fdecode b) (XQ 0 1))      (* NaN != 0.0 is true *)
  | NComplex re im => negb (xeq (fdecode re) (XQ 0 1) && xeq (fdecode im) (XQ 0 1))
  end.
Definition truthy (v : val) : bool :=
  match v with
  | VNull => false
  | VNum x => num_nonzero x
  | VStr s => negb (match s with [] => true | _ => false end)
  | VList l | VStream l => negb (match l with [] => true | _ => false end)
  | VDict ks _ => negb (match ks with [] => true | _ => false end)
  | VVec l => negb (match l with [] => true | _ => false end)
  | VBytes l => negb (match l with [] => true | _ => false end)
  | VInst _ _ | VFunc _ | VType _ => true
  end.

(* core.rs type_of *)
Definition type_of (v : val) : ty :=
  match v with
  | VNull => TNull
  | VNum (NInt _) => TInt
  | VNum (NRat _ _) => TRational
  | VNum (NFloat _) => TFloat
  | VNum (NComplex _ _) => TComplex
  | VStr _ => TString
  | VList _ => TList
  | VDict _ _ => TDict
  | VVec _ => TVector
  | VBytes _ => TBytes
  | VStream _ => TStream
  | VInst _ _ => TStructInstance
  | VFunc _ => TFunc
  | VType _ => TType
  end.

(* core.rs to_type: what an annotation / the right operand of `is` may be *)
Definition to_type (a : val) : outcome ty :=
  match a with
  | VNull => Ok TNull
  | VType t => Ok t
  | _ => Err EType
  end.

Section IsType.
  (* the meaning of the user predicates behind `satisfying`: any function of the value that
     returns a truth value or raises.  The theorems quantify over it. *)
  Variable sat : N -> val -> outcome bool.

  (* eval.rs is_type, after the repair of F8 (arms for rational and struct_instance) *)
  Definition is_type (t : ty) (v : val) : outcome bool :=
    match t, v with
    | TNull, VNull => Ok true
    | TInt, VNum (NInt _) => Ok true
    | TRational, VNum (NRat _ _) => Ok true
    | TFloat, VNum (NFloat _) => Ok true
    | TComplex, VNum (NComplex _ _) => Ok true
    | TNumber, VNum _ => Ok true
    | TList, VList _ => Ok true
    | TString, VStr _ => Ok true
    | TDict, VDict _ _ => Ok true
    | TVector, VVec _ => Ok true
    | TBytes, VBytes _ => Ok true
    | TStream, VStream _ => Ok true
    | TFunc, VFunc _ => Ok true
    | TFunc, VType _ => Ok true            (* Obj::Func(..) covers Func::Type *)
    | TType, VType _ => Ok true
    | TAny, _ => Ok true
    | TStructInstance, VInst _ _ => Ok true
    | TStruct s1, VInst s2 _ => Ok (N.eqb s1 s2)
    | TSat pid, x => sat pid x
    | _, _ => Ok false
    end.

  (* the same function as it was before the repair: no arm for TRational / TStructInstance *)
  Definition is_type_old (t : ty) (v : val) : outcome bool :=
    match t, v with
    | TRational, _ => Ok false
    | TStructInstance, _ => Ok false
    | _, _ => is_type t v
    end.

  (* the builtin `is` *)
  Definition is_builtin (v a : val) : outcome bool :=
    t <- to_type a ;; is_type t v.
End IsType.

(* seq_to_cloning_iter / Seq::len for the finite sequence kinds: the elements a sequence
   pattern, a splat or a comparison pattern with several slots iterates over *)
Definition elements (v : val) : option (list val) :=
  match v with
  | VList l => Some l
  | VStr s => Some (map (fun c => VStr [c]) s)
  | VDict ks _ => Some ks
  | VVec l => Some (map VNum l)
  | VBytes l => Some (map (fun b => vint (Z.of_N b)) l)
  | VStream l => Some l
  | _ => None
  end.

Example fdecode_one_half : xeq (fdecode 4609434218613702656%N) (XQ 3 2) = true. (* 1.5 = 0x3ff8000000000000 *)
Proof. vm_compute. reflexivity. Qed.
Example veq_int_float : veq (vint 2) (VNum (NFloat 4611686018427387904%N)) = true. (* 2 == 2.0 *)
Proof. vm_compute. reflexivity. Qed.
Example veq_nan : veq (VNum (NFloat 9221120237041090560%N)) (VNum (NFloat 9221120237041090560%N)) = false.
Proof. vm_compute. reflexivity. Qed.
Example veq_func : veq (VFunc 0) (VFunc 0) = false.
Proof. reflexivity. Qed.
