(* Lang/FreezeDbc.v - the static hypothesis of the preservation theorem, stated on the source
   expression alone:

     rn B e     the names `freeze` resolves in e when it starts with the bound set B
                (identifier occurrences at a point where the name is not in the flat bound set)
     dbc D B e  "declared before captured": for every lambda inside e, no name that freeze resolves
                inside the lambda is declared (directly) by a scope that encloses the lambda -
                D collects the names the enclosing scopes may declare.  One more side condition:
                a value already frozen into the source contains no closure.
   Definitions only. *)
From Coq Require Import ZArith String List Bool.
From NV Require Import Lang.FreezeLang Lang.Freeze Lang.FreezeSpec Lang.FreezeRel.
Import ListNotations.
Open Scope string_scope.
Open Scope list_scope.

Fixpoint rn (B : list name) (e : expr) {struct e} : list name :=
  match e with
  | ENull | EInt _ | EStr _ | EUnderscore | EFrozen _ | EImport _ => []
  | EVar x => if mem x B then [] else [x]
  | ESeq es => (fix go (B : list name) (es : list expr) : list name :=
                  match es with [] => [] | e1 :: r => rn B e1 ++ go (bnd B e1) r end) B es
  | EDecl x e1 => rn (x :: B) e1
  | EAssign _ e1 => rn B e1
  | EIf c t f => rn B c ++ rn (bnd B c) t ++ rn (bnd (bnd B c) t) f
  | EWhile c b => rn B c ++ rn (bnd B c) b
  | EFor x e1 cls _ body =>
      rn B e1 ++
      (fix go (B : list name) (cls : list clause) : list name :=
         match cls with
         | [] => rn B body
         | (k, z, e2) :: r => rn B e2 ++ go (match k with KGuard => bnd B e2 | _ => z :: bnd B e2 end) r
         end) (x :: bnd B e1) cls
  | ESwitch e1 arms =>
      rn B e1 ++
      (fix go (arms : list (pat * expr)) : list name :=
         match arms with [] => [] | (p, b) :: r => rn (pat_names p ++ bnd B e1) b ++ go r end) arms
  | ETry b x h => rn B b ++ rn (x :: bnd B b) h
  | EThrow e1 => rn B e1
  | ELam ps b => rn (ps ++ B) b
  | ECall f args =>
      rn B f ++ (fix go (B : list name) (es : list expr) : list name :=
                   match es with [] => [] | e1 :: r => rn B e1 ++ go (bnd B e1) r end) (bnd B f) args
  | EChain a ops =>
      rn B a ++ (fix go (B : list name) (ops : list (expr * expr)) : list name :=
                   match ops with
                   | [] => []
                   | (o, d) :: r => rn B o ++ rn (bnd B o) d ++ go (bnd (bnd B o) d) r
                   end) (bnd B a) ops
  | EList es => (fix go (B : list name) (es : list expr) : list name :=
                   match es with [] => [] | e1 :: r => rn B e1 ++ go (bnd B e1) r end) B es
  end.

Fixpoint rnL (B : list name) (es : list expr) : list name :=
  match es with [] => [] | e1 :: r => rn B e1 ++ rnL (bnd B e1) r end.

Fixpoint rnOps (B : list name) (ops : list (expr * expr)) : list name :=
  match ops with
  | [] => []
  | (o, d) :: r => rn B o ++ rn (bnd B o) d ++ rnOps (bnd (bnd B o) d) r
  end.

Definition rnC (body : expr) : list name -> list clause -> list name :=
  fix go (B : list name) (cls : list clause) : list name :=
    match cls with
    | [] => rn B body
    | (k, z, e2) :: r => rn B e2 ++ go (match k with KGuard => bnd B e2 | _ => z :: bnd B e2 end) r
    end.

Definition rnArms (B : list name) : list (pat * expr) -> list name :=
  fix go (arms : list (pat * expr)) : list name :=
    match arms with [] => [] | (p, b) :: r => rn (pat_names p ++ B) b ++ go r end.

Section Dbc.
(* mutl: the outer variables allowed to differ between the two stores (Lang/FreezeRel.v); an identifier
   that freeze keeps (it is in the bound set) must not be one of them.  Empty for plain preservation. *)
Variable mutl : list name.

Inductive dbc : (name -> Prop) -> list name -> expr -> Prop :=
| DNull D B : dbc D B ENull
| DInt D B z : dbc D B (EInt z)
| DStr D B s : dbc D B (EStr s)
| DVar D B x : (mem x B = true -> mem x mutl = false) -> dbc D B (EVar x)
| DUnd D B : dbc D B EUnderscore
| DFrozen D B v : noclos v = true -> dbc D B (EFrozen v)
| DSeq D B es : dbcL D B es -> dbc D B (ESeq es)
| DDecl D B x e : dbc D (x :: B) e -> dbc D B (EDecl x e)
| DAssign D B x e : dbc D B e -> dbc D B (EAssign x e)
| DIf D B c t f : dbc D B c -> dbc D (bnd B c) t -> dbc D (bnd (bnd B c) t) f -> dbc D B (EIf c t f)
| DWhile D B c b :
    dbc (DU D (while_budget c b)) B c -> dbc (DU D (while_budget c b)) (bnd B c) b -> dbc D B (EWhile c b)
| DFor D B x e cls y body :
    dbc D B e ->
    dbcC (DU D (for_budget x cls body)) (x :: bnd B e) cls ->
    dbc (DU D (for_budget x cls body)) (bndC (x :: bnd B e) cls) body ->
    dbc D B (EFor x e cls y body)
| DSwitch D B e arms : dbc D B e -> dbcArms D (bnd B e) arms -> dbc D B (ESwitch e arms)
| DTry D B b x h : dbc D B b -> dbc (DU D (catch_budget x h)) (x :: bnd B b) h -> dbc D B (ETry b x h)
| DThrow D B e : dbc D B e -> dbc D B (EThrow e)
| DLam D B ps b :
    (forall x, In x (rn (ps ++ B) b) -> ~ DU D (call_budget ps b) x) ->
    dbc (DU D (call_budget ps b)) (ps ++ B) b -> dbc D B (ELam ps b)
| DCall D B f args : dbc D B f -> dbcL D (bnd B f) args -> dbc D B (ECall f args)
| DChain D B a ops : dbc D B a -> dbcOps D (bnd B a) ops -> dbc D B (EChain a ops)
| DList D B es : dbcL D B es -> dbc D B (EList es)
| DImport D B e : dbc D B (EImport e)
with dbcL : (name -> Prop) -> list name -> list expr -> Prop :=
| DLnil D B : dbcL D B []
| DLcons D B e r : dbc D B e -> dbcL D (bnd B e) r -> dbcL D B (e :: r)
with dbcOps : (name -> Prop) -> list name -> list (expr * expr) -> Prop :=
| DOnil D B : dbcOps D B []
| DOcons D B o d r : dbc D B o -> dbc D (bnd B o) d -> dbcOps D (bnd (bnd B o) d) r -> dbcOps D B ((o, d) :: r)
with dbcC : (name -> Prop) -> list name -> list clause -> Prop :=
| DCnil D B : dbcC D B []
| DCcons D B k z e r :
    dbc D B e -> dbcC D (match k with KGuard => bnd B e | _ => z :: bnd B e end) r -> dbcC D B ((k, z, e) :: r)
with dbcArms : (name -> Prop) -> list name -> list (pat * expr) -> Prop :=
| DAnil D B : dbcArms D B []
| DAcons D B p b r :
    dbc (DU D (arm_budget p b)) (pat_names p ++ B) b -> dbcArms D B r -> dbcArms D B ((p, b) :: r).

(* at the top: no enclosing scope inside the frozen expression *)
Definition declared_before_captured (B : list name) (e : expr) : Prop := dbc (fun _ => False) B e.
End Dbc.

(* F21: the closure g mentions `a`, which its enclosing lambda body declares later *)
Example f21_not_dbc : forall mutl, ~ declared_before_captured mutl [] (ECall f21_body [EInt 8]).
Proof.
  intros mutl. unfold declared_before_captured, f21_body. intro H.
  inversion H as [| | | | | | | | | | | | | | | | D0 B0 f0 args0 Hf Ha | | |]; subst.
  inversion Hf as [| | | | | | | | | | | | | | | D1 B1 ps1 b1 _ Hb | | | |]; subst.
  inversion Hb as [| | | | | | D2 B2 es2 Hs | | | | | | | | | | | | |]; subst.
  inversion Hs as [|D3 B3 e3 r3 Hd _]; subst.
  inversion Hd as [| | | | | | | D4 B4 x4 e4 Hl | | | | | | | | | | | |]; subst.
  inversion Hl as [| | | | | | | | | | | | | | | D5 B5 ps5 b5 Hside _ | | | |]; subst.
  apply (Hside "a").
  - cbn. left. reflexivity.
  - left. right. cbn. right. right. left. reflexivity.
Qed.
