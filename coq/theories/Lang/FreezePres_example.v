(* Lang/FreezePres_example.v - a concrete instance of the hypotheses of the preservation theorem
   (non-vacuity): a program with a local declaration, a closure that captures it, an operator
   chain over resolved builtins and an outer variable, and a literal list that freeze folds. *)
From Coq Require Import ZArith String List Bool Arith Lia.
From NV Require Import Common.Outcome Lang.FreezeLang Lang.Freeze Lang.FreezeSpec Lang.Freeze_proofs
  Lang.FreezeRel Lang.FreezeSim_store Lang.FreezeSim_rel Lang.FreezeDbc Lang.FreezeDbc_proofs Lang.FreezePres_proofs.
Import ListNotations.
Open Scope string_scope.
Open Scope list_scope.

(* (\x -> (t := x + a * 2; k := \p -> p - t; k(20) + len([1, -4])))(5)   with a = 3 outside *)
Definition ex_prog : expr :=
  ECall (ELam ["x"] (ESeq [EDecl "t" (EChain (EVar "x") [(EVar "+", EVar "a"); (EVar "*", EInt 2)]);
                           EDecl "k" (ELam ["p"] (EChain (EVar "p") [(EVar "-", EVar "t")]));
                           EChain (ECall (EVar "k") [EInt 20])
                                  [(EVar "+", ECall (EVar "len") [EList [EInt 1; ECall (EVar "-") [EInt 4]]])]]))
        [EInt 5].

Ltac dbc_tac :=
  repeat (first [ apply DCall | apply DLam | apply DSeq | apply DLcons | apply DLnil | apply DDecl | apply DChain
                | apply DOcons | apply DOnil | apply DInt | apply DList
                | (apply DVar; let Hm := fresh in intros Hm; vm_compute in Hm; vm_compute; first [reflexivity|discriminate]) ]).

Ltac side_tac :=
  match goal with
  | |- forall x, In x _ -> ~ _ =>
      let x := fresh "x" in let Hx := fresh "Hx" in let Hd := fresh "Hd" in
      intros x Hx Hd; vm_compute in Hx; vm_compute in Hd;
      repeat (destruct Hx as [<-|Hx];
              [repeat (destruct Hd as [Hd|Hd]; [try contradiction; try discriminate|]); try contradiction|]);
      try contradiction
  end.

(* with mutl = ["a"]: the outer variable a may be reassigned behind the frozen code's back *)
Example ex_prog_dbc : declared_before_captured ["a"] [] ex_prog.
Proof.
  unfold declared_before_captured, ex_prog. dbc_tac; side_tac.
Qed.

Lemma f21_state_noclos : Forall frame_noclos (frames f21_state).
Proof.
  constructor; [|constructor]. intros x v H. cbn in H.
  repeat (destruct H as [H|H]; [inversion H; subst; reflexivity|]). destruct H.
Qed.

Lemma f21_state_wf : wf_frames (frames f21_state).
Proof.
  intros g fr p Hg Hp. destruct g as [|[|g]]; cbn in Hg; try discriminate.
  inversion Hg; subst. discriminate.
Qed.

(* the store after `a = 10` *)
Definition f21_state_reassigned : state :=
  match assign noprot f21_state 0 "a" (VInt 10) with UOk s => s | _ => f21_state end.

Example ex_prog_freezes : exists e' B',
  freeze (look_in (frames f21_state) 0) [] ex_prog = Ok (e', B') /\ e' <> ex_prog /\
  snd (eval (prot0 1 (rn [] ex_prog)) 12 f21_state 0 ex_prog) = Val (VInt 11) /\
  snd (eval noprot 12 f21_state_reassigned 0 e') = Val (VInt 11) /\
  snd (eval noprot 12 f21_state_reassigned 0 ex_prog) = Val (VInt (-3)).
Proof.
  eexists. eexists. split; [vm_compute; reflexivity|]. split; [discriminate|].
  split; [|split]; vm_compute; reflexivity.
Qed.

Example ex_prog_hyps :
  declared_before_captured ["a"] [] ex_prog /\
  srel 1 0 (look_in (frames f21_state) 0) (rn [] ex_prog) ["a"] f21_state f21_state_reassigned /\
  agree 1 0 (look_in (frames f21_state) 0) (rn [] ex_prog) ["a"] (frames f21_state).
Proof.
  split; [exact ex_prog_dbc|]. split.
  - eapply srel_reassign with (st' := f21_state) (f := 0) (x := "a") (w := VInt 10).
    + apply srel_refl; auto. apply f21_state_wf. apply f21_state_noclos.
    + reflexivity.
    + reflexivity.
  - apply agree_refl; [apply f21_state_noclos|]. intros x M. apply mem_spec in M. vm_compute in M.
    repeat (destruct M as [<-|M]; [vm_compute; discriminate|]). destruct M.
Qed.

(* Known finding freeze-binds-before-declaration on the model: in `a := a + 1` freeze binds `a`
   before it freezes the right-hand side, so the frozen code reads the outer `a` when it runs. *)
Definition k2_prog : expr :=
  ECall (ELam [] (ESeq [EDecl "a" (EChain (EVar "a") [(EVar "+", EInt 1)]); EVar "a"])) [].

Example k2_late_binding : exists e' B',
  freeze (look_in (frames f21_state) 0) [] k2_prog = Ok (e', B') /\
  declared_before_captured [] [] k2_prog /\
  ~ declared_before_captured ["a"] [] k2_prog /\
  snd (eval noprot 12 f21_state 0 e') = Val (VInt 4) /\
  snd (eval noprot 12 f21_state_reassigned 0 e') = Val (VInt 11).
Proof.
  eexists. eexists. split; [vm_compute; reflexivity|]. split; [|split; [|split; vm_compute; reflexivity]].
  - unfold declared_before_captured, k2_prog. dbc_tac; side_tac.
  - unfold declared_before_captured, k2_prog. intro H.
    inversion H as [| | | | | | | | | | | | | | | | D0 B0 f0 args0 Hf Ha | | |]; subst.
    inversion Hf as [| | | | | | | | | | | | | | | D1 B1 ps1 b1 _ Hb | | | |]; subst.
    inversion Hb as [| | | | | | D2 B2 es2 Hs | | | | | | | | | | | | |]; subst.
    inversion Hs as [|D3 B3 e3 r3 Hd _]; subst.
    inversion Hd as [| | | | | | | D4 B4 x4 e4 Hc | | | | | | | | | | | |]; subst.
    inversion Hc as [| | | | | | | | | | | | | | | | | D5 B5 a5 ops5 Hv _ | |]; subst.
    inversion Hv as [| | | D6 B6 x6 Hm | | | | | | | | | | | | | | | |]; subst.
    specialize (Hm eq_refl). discriminate.
Qed.
