(* Lang/FreezePres_example.v - a concrete instance of the hypotheses of the preservation theorem
   (non-vacuity): a program with a local declaration, a closure that captures it, an operator
   chain over resolved builtins and an outer variable, and a literal list that freeze folds. *)
From Coq Require Import ZArith String List Bool Arith Lia.
From NV Require Import Common.Outcome Lang.FreezeLang Lang.Freeze Lang.FreezeSpec Lang.Freeze_proofs
  Lang.FreezeRel Lang.FreezeSim_store Lang.FreezeSim_rel Lang.FreezeDbc Lang.FreezeDbc_proofs Lang.FreezePres_proofs.
Import ListNotations.
Open Scope string_scope.
Open Scope list_scope.

(* (\x -> (t := x + a * 2; k := \p -> p - t; k(20) + len([1, -4])))(5)   with a = 3 outside *)
Definition ex_prog : expr :=
  ECall (ELam ["x"] (ESeq [EDecl "t" (EChain (EVar "x") [(EVar "+", EVar "a"); (EVar "*", EInt 2)]);
                           EDecl "k" (ELam ["p"] (EChain (EVar "p") [(EVar "-", EVar "t")]));
                           EChain (ECall (EVar "k") [EInt 20])
                                  [(EVar "+", ECall (EVar "len") [EList [EInt 1; ECall (EVar "-") [EInt 4]]])]]))
        [EInt 5].

Example ex_prog_dbc : declared_before_captured [] ex_prog.
Proof.
  unfold declared_before_captured, ex_prog.
  repeat (first [ apply DCall | apply DLam | apply DSeq | apply DLcons | apply DLnil | apply DDecl | apply DChain
                | apply DOcons | apply DOnil | apply DVar | apply DInt | apply DList ]).
  - intros x Hx [[]|Hd]; vm_compute in Hx; vm_compute in Hd.
    repeat (destruct Hx as [<-|Hx]; [repeat (destruct Hd as [Hd|Hd]; [discriminate|]); destruct Hd|]). destruct Hx.
  - intros x Hx [[[]|Hd]|Hd]; vm_compute in Hx; vm_compute in Hd;
      (repeat (destruct Hx as [<-|Hx]; [repeat (destruct Hd as [Hd|Hd]; [discriminate|]); destruct Hd|])); destruct Hx.
Qed.

Lemma f21_state_noclos : Forall frame_noclos (frames f21_state).
Proof.
  constructor; [|constructor]. intros x v H. cbn in H.
  repeat (destruct H as [H|H]; [inversion H; subst; reflexivity|]). destruct H.
Qed.

Lemma f21_state_wf : wf_frames (frames f21_state).
Proof.
  intros g fr p Hg Hp. destruct g as [|[|g]]; cbn in Hg; try discriminate.
  inversion Hg; subst. discriminate.
Qed.

Example ex_prog_freezes : exists e' B',
  freeze (look_in (frames f21_state) 0) [] ex_prog = Ok (e', B') /\ e' <> ex_prog /\
  snd (eval (prot0 1 (rn [] ex_prog)) 12 f21_state 0 ex_prog) = Val (VInt 11) /\
  snd (eval (prot0 1 (rn [] ex_prog)) 12 f21_state 0 e') = Val (VInt 11).
Proof.
  eexists. eexists. split; [vm_compute; reflexivity|]. split; [discriminate|].
  split; vm_compute; reflexivity.
Qed.

Example ex_prog_hyps :
  declared_before_captured [] ex_prog /\
  srel 1 0 (look_in (frames f21_state) 0) (rn [] ex_prog) f21_state f21_state /\
  agree 1 0 (look_in (frames f21_state) 0) (rn [] ex_prog) (frames f21_state).
Proof.
  split; [exact ex_prog_dbc|]. split.
  - apply srel_refl; auto. apply f21_state_wf. apply f21_state_noclos.
  - apply agree_refl; [apply f21_state_noclos|]. intros x M. apply mem_spec in M. vm_compute in M.
    repeat (destruct M as [<-|M]; [vm_compute; discriminate|]). destruct M.
Qed.
