(* Lang/Freeze_proofs.v - syntactic theorems about the transcription of `freeze`:
     freeze_good         one induction giving, for every expression and bound set:
                         the result is Ok or a name/syntax error (never Panic / OutOfFuel);
                         Ok (e', B')  ->  B' = bnd B e, bnd B e' = B', ~ Bad B e, closed B e'
                         Err c        ->  Bad B e
     freeze_fails_iff, freeze_error_class, freeze_resolves_eagerly   (exported by Props/C17.v) *)
From Coq Require Import ZArith String List Bool.
From NV Require Import Common.Outcome Lang.FreezeLang Lang.Freeze Lang.FreezeSpec.
Import ListNotations.
Open Scope string_scope.
Open Scope list_scope.

(* ---------------------------------------------------------------- induction over expressions *)
Section ExprInd.
  Variable P : expr -> Prop.
  Hypothesis HNull : P ENull.
  Hypothesis HInt : forall z, P (EInt z).
  Hypothesis HStr : forall s, P (EStr s).
  Hypothesis HVar : forall x, P (EVar x).
  Hypothesis HUnd : P EUnderscore.
  Hypothesis HFrozen : forall v, P (EFrozen v).
  Hypothesis HSeq : forall es, Forall P es -> P (ESeq es).
  Hypothesis HDecl : forall x e, P e -> P (EDecl x e).
  Hypothesis HAssign : forall x e, P e -> P (EAssign x e).
  Hypothesis HIf : forall c t f, P c -> P t -> P f -> P (EIf c t f).
  Hypothesis HWhile : forall c b, P c -> P b -> P (EWhile c b).
  Hypothesis HFor : forall x e cls y body,
      P e -> Forall (fun c : clause => P (snd c)) cls -> P body -> P (EFor x e cls y body).
  Hypothesis HSwitch : forall e arms, P e -> Forall (fun a : pat * expr => P (snd a)) arms -> P (ESwitch e arms).
  Hypothesis HTry : forall b x h, P b -> P h -> P (ETry b x h).
  Hypothesis HThrow : forall e, P e -> P (EThrow e).
  Hypothesis HLam : forall ps b, P b -> P (ELam ps b).
  Hypothesis HCall : forall f args, P f -> Forall P args -> P (ECall f args).
  Hypothesis HChain : forall a ops, P a -> Forall (fun o : expr * expr => P (fst o) /\ P (snd o)) ops -> P (EChain a ops).
  Hypothesis HList : forall es, Forall P es -> P (EList es).
  Hypothesis HImport : forall e, P e -> P (EImport e).

  Fixpoint expr_ind' (e : expr) : P e :=
    match e with
    | ENull => HNull
    | EInt z => HInt z
    | EStr s => HStr s
    | EVar x => HVar x
    | EUnderscore => HUnd
    | EFrozen v => HFrozen v
    | ESeq es => HSeq es ((fix go (l : list expr) : Forall P l :=
                             match l with [] => Forall_nil _ | a :: r => Forall_cons a (expr_ind' a) (go r) end) es)
    | EDecl x e1 => HDecl x e1 (expr_ind' e1)
    | EAssign x e1 => HAssign x e1 (expr_ind' e1)
    | EIf c t f => HIf c t f (expr_ind' c) (expr_ind' t) (expr_ind' f)
    | EWhile c b => HWhile c b (expr_ind' c) (expr_ind' b)
    | EFor x e1 cls y body =>
        HFor x e1 cls y body (expr_ind' e1)
          ((fix go (l : list clause) : Forall (fun c : clause => P (snd c)) l :=
              match l with
              | [] => Forall_nil _
              | a :: r => Forall_cons a (expr_ind' (snd a)) (go r)
              end) cls)
          (expr_ind' body)
    | ESwitch e1 arms =>
        HSwitch e1 arms (expr_ind' e1)
          ((fix go (l : list (pat * expr)) : Forall (fun a : pat * expr => P (snd a)) l :=
              match l with
              | [] => Forall_nil _
              | a :: r => Forall_cons a (expr_ind' (snd a)) (go r)
              end) arms)
    | ETry b x h => HTry b x h (expr_ind' b) (expr_ind' h)
    | EThrow e1 => HThrow e1 (expr_ind' e1)
    | ELam ps b => HLam ps b (expr_ind' b)
    | ECall f args =>
        HCall f args (expr_ind' f)
          ((fix go (l : list expr) : Forall P l :=
              match l with [] => Forall_nil _ | a :: r => Forall_cons a (expr_ind' a) (go r) end) args)
    | EChain a ops =>
        HChain a ops (expr_ind' a)
          ((fix go (l : list (expr * expr)) : Forall (fun o : expr * expr => P (fst o) /\ P (snd o)) l :=
              match l with
              | [] => Forall_nil _
              | o :: r => Forall_cons o (conj (expr_ind' (fst o)) (expr_ind' (snd o))) (go r)
              end) ops)
    | EList es => HList es ((fix go (l : list expr) : Forall P l :=
                               match l with [] => Forall_nil _ | a :: r => Forall_cons a (expr_ind' a) (go r) end) es)
    | EImport e1 => HImport e1 (expr_ind' e1)
    end.
End ExprInd.

(* ---------------------------------------------------------------- the list walkers, named *)
Section Walkers.
  Variable look : name -> option val.

  Definition fzU (B : list name) (e : expr) : fz :=
    match e with EUnderscore => Ok (EUnderscore, B) | _ => freeze look B e end.

  Fixpoint fzL (B : list name) (es : list expr) : outcome (list expr * list name) :=
    match es with
    | [] => Ok ([], B)
    | e1 :: rest =>
        p <- freeze look B e1 ;;
        q <- fzL (snd p) rest ;;
        Ok (fst p :: fst q, snd q)
    end.

  Fixpoint fzUL (B : list name) (es : list expr) : outcome (list expr * list name) :=
    match es with
    | [] => Ok ([], B)
    | e1 :: rest =>
        p <- fzU B e1 ;;
        q <- fzUL (snd p) rest ;;
        Ok (fst p :: fst q, snd q)
    end.

  Fixpoint fzOps (B : list name) (ops : list (expr * expr)) : outcome (list (expr * expr) * list name) :=
    match ops with
    | [] => Ok ([], B)
    | (oper, opd) :: rest =>
        po <- freeze look B oper ;;
        pd <- fzU (snd po) opd ;;
        q <- fzOps (snd pd) rest ;;
        Ok ((fst po, fst pd) :: fst q, snd q)
    end.

  Fixpoint fzC (B : list name) (cls : list clause) : outcome (list clause * list name) :=
    match cls with
    | [] => Ok ([], B)
    | (k, z, e2) :: rest =>
        p <- freeze look B e2 ;;
        q <- fzC (match k with KGuard => snd p | _ => z :: snd p end) rest ;;
        Ok ((k, z, fst p) :: fst q, snd q)
    end.

  Definition fzArms (B : list name) : list (pat * expr) -> outcome (list (pat * expr)) :=
    fix go (arms : list (pat * expr)) : outcome (list (pat * expr)) :=
      match arms with
      | [] => Ok []
      | (pt, b) :: rest =>
          p <- freeze look (pat_names pt ++ B) b ;;
          q <- go rest ;;
          Ok ((pt, fst p) :: q)
      end.
  Lemma fzArms_cons : forall B pt b rest,
    fzArms B ((pt, b) :: rest) =
    (p <- freeze look (pat_names pt ++ B) b ;; q <- fzArms B rest ;; Ok ((pt, fst p) :: q)).
  Proof. reflexivity. Qed.

  Lemma freeze_seq : forall B es,
    freeze look B (ESeq es) = (r <- fzL B es ;; Ok (ESeq (fst r), snd r)).
  Proof. reflexivity. Qed.
  Lemma freeze_for : forall B x e1 cls y body,
    freeze look B (EFor x e1 cls y body) =
    (p1 <- freeze look B e1 ;; r <- fzC (x :: snd p1) cls ;; pb <- freeze look (snd r) body ;;
     Ok (EFor x (fst p1) (fst r) y (fst pb), snd p1)).
  Proof. reflexivity. Qed.
  Lemma freeze_switch : forall B e1 arms,
    freeze look B (ESwitch e1 arms) =
    (p1 <- freeze look B e1 ;; r <- fzArms (snd p1) arms ;; Ok (ESwitch (fst p1) r, snd p1)).
  Proof. reflexivity. Qed.
  Lemma freeze_call : forall B f args,
    freeze look B (ECall f args) =
    (pf <- fzU B f ;; r <- fzUL (snd pf) args ;; Ok (fold_call (fst pf) (fst r), snd r)).
  Proof. reflexivity. Qed.
  Lemma freeze_chain : forall B a ops,
    freeze look B (EChain a ops) =
    (pa <- fzU B a ;; r <- fzOps (snd pa) ops ;; Ok (EChain (fst pa) (fst r), snd r)).
  Proof. reflexivity. Qed.
  Lemma freeze_list : forall B es,
    freeze look B (EList es) = (r <- fzUL B es ;; Ok (fold_list (fst r), snd r)).
  Proof. reflexivity. Qed.
End Walkers.

Lemma bnd_seq : forall B es, bnd B (ESeq es) = bndL B es.
Proof. reflexivity. Qed.
Lemma bnd_call : forall B f args, bnd B (ECall f args) = bndL (bnd B f) args.
Proof. reflexivity. Qed.
Lemma bnd_chain : forall B a ops, bnd B (EChain a ops) = bndOps (bnd B a) ops.
Proof. reflexivity. Qed.
Lemma bnd_list : forall B es, bnd B (EList es) = bndL B es.
Proof. reflexivity. Qed.

Lemma bndL_app : forall pre B post, bndL B (pre ++ post) = bndL (bndL B pre) post.
Proof. induction pre; intros; cbn; auto. Qed.

(* constants declare nothing *)
Lemma constant_bnd : forall e v B, constant_value e = Some v -> bnd B e = B.
Proof. destruct e; cbn; intros; try discriminate; reflexivity. Qed.

Lemma constants_bndL : forall es vs B, constant_values es = Some vs -> bndL B es = B.
Proof.
  induction es as [|e r IH]; intros vs B H; cbn in *; auto.
  destruct (constant_value e) eqn:E; try discriminate.
  destruct (constant_values r) eqn:E2; try discriminate.
  rewrite (constant_bnd _ _ _ E). eauto.
Qed.

Lemma bnd_fold_list : forall B es, bnd B (fold_list es) = bndL B es.
Proof.
  intros. unfold fold_list. destruct (constant_values es) eqn:E.
  - cbn. symmetry. eapply constants_bndL; eauto.
  - apply bnd_list.
Qed.

Lemma bnd_fold_call : forall B f args, bnd B (fold_call f args) = bndL (bnd B f) args.
Proof.
  intros. unfold fold_call.
  destruct f; try apply bnd_call.
  destruct v; try apply bnd_call.
  destruct p; try apply bnd_call.
  destruct args as [|a [|b r]]; try apply bnd_call.
  destruct (constant_value a) eqn:E; try apply bnd_call.
  destruct v; try apply bnd_call.
  cbn. symmetry. eapply constant_bnd; eauto.
Qed.

(* ---------------------------------------------------------------- the combined statement *)
Definition eclass (c : errc) : Prop := c = EName \/ c = ESyntax.

Section Good.
  Variable look : name -> option val.
  Notation Bad := (Bad look).
  Notation freeze := (freeze look).

  Definition good (B : list name) (e : expr) (r : fz) : Prop :=
    match r with
    | Ok (e', B') => B' = bnd B e /\ bnd B e' = B' /\ ~ Bad B e /\ closed B e'
    | Err c => eclass c /\ Bad B e
    | _ => False
    end.

  Definition goodU (B : list name) (e : expr) (r : fz) : Prop :=
    match r with
    | Ok (e', B') => B' = bnd B e /\ bnd B e' = B' /\ (e <> EUnderscore -> ~ Bad B e) /\
                     (e' <> EUnderscore -> closed B e')
    | Err c => eclass c /\ e <> EUnderscore /\ Bad B e
    | _ => False
    end.

  Lemma fzU_good : forall B e, good B e (freeze B e) -> goodU B e (fzU look B e).
  Proof.
    intros B e H. unfold fzU.
    destruct e; try (unfold good, goodU in *;
      destruct (freeze B _) as [[e' B']|c| |]; try contradiction;
      [ destruct H as (H1 & H2 & H3 & H4); repeat split; auto
      | destruct H as (H1 & H2); repeat split; auto; discriminate ]).
    cbn. repeat split; auto; congruence.
  Qed.

  (* plain lists *)
  Definition goodL (B : list name) (es : list expr) (r : outcome (list expr * list name)) : Prop :=
    match r with
    | Ok (es', B') =>
        B' = bndL B es /\ bndL B es' = B' /\
        (forall pre e post, es = pre ++ e :: post -> ~ Bad (bndL B pre) e) /\
        (forall pre e post, es' = pre ++ e :: post -> closed (bndL B pre) e)
    | Err c => eclass c /\ exists pre e post, es = pre ++ e :: post /\ Bad (bndL B pre) e
    | _ => False
    end.

  Lemma fzL_good : forall es, Forall (fun e => forall B, good B e (freeze B e)) es ->
    forall B, goodL B es (fzL look B es).
  Proof.
    induction 1 as [|e r He Hr IH]; intros B; cbn.
    - repeat split; auto; intros [|? ?] ? ? E; discriminate.
    - specialize (He B). unfold good in He.
      destruct (freeze B e) as [[e' B1]|c| |]; cbn; try contradiction.
      + destruct He as (H1 & H2 & H3 & H4). subst B1.
        specialize (IH (bnd B e)). unfold goodL in IH.
        destruct (fzL look (bnd B e) r) as [[r' B2]|c| |]; cbn; try contradiction.
        * destruct IH as (I1 & I2 & I3 & I4). repeat split; auto.
          -- rewrite H2. auto.
          -- intros [|a pre] x post E; cbn in E; inversion E; subst; cbn; eauto.
          -- intros [|a pre] x post E; cbn in E; inversion E; subst; cbn; auto.
             rewrite H2. eauto.
        * destruct IH as (I1 & pre & x & post & E & I2). split; auto.
          exists (e :: pre), x, post. subst r. split; auto.
      + destruct He as (H1 & H2). split; auto. exists [], e, r. split; auto.
  Qed.

  (* lists whose elements may be bare underscores *)
  Definition goodUL (B : list name) (es : list expr) (r : outcome (list expr * list name)) : Prop :=
    match r with
    | Ok (es', B') =>
        B' = bndL B es /\ bndL B es' = B' /\
        (forall pre e post, es = pre ++ e :: post -> e <> EUnderscore -> ~ Bad (bndL B pre) e) /\
        (forall pre e post, es' = pre ++ e :: post -> e <> EUnderscore -> closed (bndL B pre) e)
    | Err c => eclass c /\ exists pre e post, es = pre ++ e :: post /\ e <> EUnderscore /\ Bad (bndL B pre) e
    | _ => False
    end.

  Lemma fzUL_good : forall es, Forall (fun e => forall B, good B e (freeze B e)) es ->
    forall B, goodUL B es (fzUL look B es).
  Proof.
    induction 1 as [|e r He Hr IH]; intros B; cbn [fzUL].
    - cbn. repeat split; auto; intros [|? ?] ? ? E; discriminate.
    - specialize (He B). apply fzU_good in He. unfold goodU in He.
      destruct (fzU look B e) as [[e' B1]|c| |]; cbn [bind fst snd]; try contradiction.
      + destruct He as (H1 & H2 & H3 & H4). subst B1.
        specialize (IH (bnd B e)). unfold goodUL in IH.
        destruct (fzUL look (bnd B e) r) as [[r' B2]|c| |]; cbn [bind fst snd goodUL bndL]; try contradiction.
        * destruct IH as (I1 & I2 & I3 & I4). repeat split; auto.
          -- rewrite H2. auto.
          -- intros [|a pre] x post E; cbn in E; inversion E; subst; cbn; eauto.
          -- intros [|a pre] x post E; cbn in E; inversion E; subst; cbn; auto.
             rewrite H2. eauto.
        * destruct IH as (I1 & pre & x & post & E & I2 & I3). split; auto.
          exists (e :: pre), x, post. subst r. repeat split; auto.
      + destruct He as (H1 & H2 & H3). split; auto. exists [], e, r. repeat split; auto.
  Qed.

  (* operator / operand pairs of a chain *)
  Definition goodOps (B : list name) (ops : list (expr * expr)) (r : outcome (list (expr * expr) * list name)) : Prop :=
    match r with
    | Ok (ops', B') =>
        B' = bndOps B ops /\ bndOps B ops' = B' /\
        (forall pre o d post, ops = pre ++ (o, d) :: post ->
           ~ Bad (bndOps B pre) o /\ (d <> EUnderscore -> ~ Bad (bnd (bndOps B pre) o) d)) /\
        (forall pre o d post, ops' = pre ++ (o, d) :: post ->
           closed (bndOps B pre) o /\ (d <> EUnderscore -> closed (bnd (bndOps B pre) o) d))
    | Err c => eclass c /\ exists pre o d post, ops = pre ++ (o, d) :: post /\
                 (Bad (bndOps B pre) o \/ (d <> EUnderscore /\ Bad (bnd (bndOps B pre) o) d))
    | _ => False
    end.

  Lemma fzOps_good : forall ops,
    Forall (fun o : expr * expr => (forall B, good B (fst o) (freeze B (fst o))) /\
                                   (forall B, good B (snd o) (freeze B (snd o)))) ops ->
    forall B, goodOps B ops (fzOps look B ops).
  Proof.
    induction 1 as [|[o d] r [Ho Hd] Hr IH]; intros B; cbn [fzOps].
    - cbn. repeat split; auto; destruct pre; discriminate.
    - cbn [fst snd] in *. specialize (Ho B). unfold good in Ho.
      destruct (freeze B o) as [[o' B1]|c| |]; cbn [bind fst snd]; try contradiction.
      + destruct Ho as (H1 & H2 & H3 & H4). subst B1.
        specialize (Hd (bnd B o)). apply fzU_good in Hd. unfold goodU in Hd.
        destruct (fzU look (bnd B o) d) as [[d' B2]|c| |]; cbn [bind fst snd]; try contradiction.
        * destruct Hd as (D1 & D2 & D3 & D4). subst B2.
          specialize (IH (bnd (bnd B o) d)). unfold goodOps in IH.
          destruct (fzOps look (bnd (bnd B o) d) r) as [[r' B3]|c| |]; cbn [bind fst snd]; try contradiction.
          -- destruct IH as (I1 & I2 & I3 & I4). cbn [goodOps bndOps]. repeat split; auto.
             ++ rewrite H2, D2. auto.
             ++ destruct pre as [|a pre]; cbn in H; inversion H; subst; cbn; auto.
                eapply I3; eauto.
             ++ destruct pre as [|a pre]; cbn in H; inversion H; subst; cbn; auto.
                eapply I3; eauto.
             ++ destruct pre as [|a pre]; cbn in H; inversion H; subst; cbn; auto.
                rewrite H2, D2. eapply I4; eauto.
             ++ destruct pre as [|a pre]; cbn in H; inversion H; subst; cbn.
                ** rewrite H2. auto.
                ** rewrite H2, D2. eapply I4; eauto.
          -- destruct IH as (I1 & pre & x & y & post & E & I2). split; auto.
             exists ((o, d) :: pre), x, y, post. subst r. split; auto.
        * destruct Hd as (D1 & D2 & D3). split; auto.
          exists [], o, d, r. split; auto.
      + destruct Ho as (H1 & H2). split; auto. exists [], o, d, r. split; auto.
  Qed.

  (* clauses of a for loop *)
  Definition goodC (B : list name) (cls : list clause) (r : outcome (list clause * list name)) : Prop :=
    match r with
    | Ok (cls', B') =>
        B' = bndC B cls /\ bndC B cls' = B' /\
        (forall pre k z e post, cls = pre ++ (k, z, e) :: post -> ~ Bad (bndC B pre) e) /\
        (forall pre k z e post, cls' = pre ++ (k, z, e) :: post -> closed (bndC B pre) e)
    | Err c => eclass c /\ exists pre k z e post, cls = pre ++ (k, z, e) :: post /\ Bad (bndC B pre) e
    | _ => False
    end.

  Lemma fzC_good : forall cls,
    Forall (fun c : clause => forall B, good B (snd c) (freeze B (snd c))) cls ->
    forall B, goodC B cls (fzC look B cls).
  Proof.
    induction 1 as [|[[k z] e] r He Hr IH]; intros B; cbn [fzC].
    - cbn. repeat split; auto; intros [|? ?] ? ? ? ? E; discriminate.
    - cbn [snd] in He. specialize (He B). unfold good in He.
      destruct (freeze B e) as [[e' B1]|c| |]; cbn [bind fst snd]; try contradiction.
      + destruct He as (H1 & H2 & H3 & H4). subst B1.
        set (B2 := match k with KGuard => bnd B e | _ => z :: bnd B e end).
        specialize (IH B2). unfold goodC in IH.
        destruct (fzC look B2 r) as [[r' B3]|c| |]; cbn [bind fst snd]; try contradiction.
        * destruct IH as (I1 & I2 & I3 & I4). cbn [goodC bndC]. fold B2. repeat split; auto.
          -- rewrite H2. fold B2. auto.
          -- intros [|a pre] k0 z0 x post E; cbn in E; inversion E; subst; cbn; auto.
             eapply I3; eauto.
          -- intros [|a pre] k0 z0 x post E; cbn in E; inversion E; subst; cbn; auto.
             rewrite H2. eapply I4; eauto.
        * destruct IH as (I1 & pre & k0 & z0 & x & post & E & I2). split; auto.
          exists ((k, z, e) :: pre), k0, z0, x, post. subst r. split; auto.
      + destruct He as (H1 & H2). split; auto. exists [], k, z, e, r. split; auto.
  Qed.

  (* switch arms *)
  Definition goodArms (B : list name) (arms : list (pat * expr)) (r : outcome (list (pat * expr))) : Prop :=
    match r with
    | Ok arms' =>
        (forall p b, In (p, b) arms -> ~ Bad (pat_names p ++ B) b) /\
        (forall p b, In (p, b) arms' -> closed (pat_names p ++ B) b)
    | Err c => eclass c /\ exists p b, In (p, b) arms /\ Bad (pat_names p ++ B) b
    | _ => False
    end.

  Lemma fzArms_good : forall arms,
    Forall (fun a : pat * expr => forall B, good B (snd a) (freeze B (snd a))) arms ->
    forall B, goodArms B arms (fzArms look B arms).
  Proof.
    induction 1 as [|[p b] r He Hr IH]; intros B; [|rewrite fzArms_cons].
    - cbn. split; intros ? ? [].
    - cbn [snd] in He. specialize (He (pat_names p ++ B)). unfold good in He.
      destruct (freeze (pat_names p ++ B) b) as [[b' B1]|c| |]; cbn [bind fst snd]; try contradiction.
      + destruct He as (H1 & H2 & H3 & H4).
        specialize (IH B). unfold goodArms in IH.
        destruct (fzArms look B r) as [r'|c| |]; cbn [bind]; try contradiction.
        * destruct IH as (I1 & I2). cbn [goodArms]. split.
          -- intros p0 b0 [E|E]; [inversion E; subst; auto | eauto].
          -- intros p0 b0 [E|E]; [inversion E; subst; auto | eauto].
        * destruct IH as (I1 & p0 & b0 & E & I2). split; auto.
          exists p0, b0. split; auto. right; auto.
      + destruct He as (H1 & H2). split; auto. exists p, b. split; auto. left; auto.
  Qed.

  Ltac inv H := inversion H; subst; clear H.

  Theorem freeze_good : forall e B, good B e (freeze B e).
  Proof.
    induction e using expr_ind'; intros B.
    - cbn. repeat split; auto. intro H; inv H. constructor.
    - cbn. repeat split; auto. intro H; inv H. constructor.
    - cbn. repeat split; auto. intro H; inv H. constructor.
    - (* EVar *) cbn. destruct (mem x B) eqn:M.
      + cbn. repeat split; auto. intro H; inv H; congruence. constructor; auto.
      + destruct (look x) eqn:L; cbn.
        * repeat split; auto. intro H; inv H; congruence. constructor.
        * split; [left; auto | constructor; auto].
    - cbn. split; [right; auto | constructor].
    - cbn. repeat split; auto. intro H; inv H. constructor.
    - (* ESeq *) rewrite freeze_seq. pose proof (fzL_good es H B) as G. unfold goodL in G.
      destruct (fzL look B es) as [[es' B']|c| |]; cbn [bind fst snd good]; try contradiction.
      + destruct G as (G1 & G2 & G3 & G4). rewrite !bnd_seq. repeat split; auto.
        * intro X; inv X. eapply G3; eauto.
        * constructor. intros; eapply G4; eauto.
      + destruct G as (G1 & pre & x & post & E & G2). split; auto. subst es. constructor; auto.
    - (* EDecl *) cbn [freeze]. specialize (IHe (x :: B)). unfold good in IHe.
      destruct (freeze (x :: B) e) as [[e' B']|c| |]; cbn; try contradiction.
      + destruct IHe as (G1 & G2 & G3 & G4). repeat split; auto.
        intro X; inv X; auto. constructor; auto.
      + destruct IHe. split; auto. constructor; auto.
    - (* EAssign *) cbn [freeze]. destruct (mem x B) eqn:M.
      + specialize (IHe B). unfold good in IHe.
        destruct (freeze B e) as [[e' B']|c| |]; cbn; try contradiction.
        * destruct IHe as (G1 & G2 & G3 & G4). repeat split; auto.
          intro X; inv X; auto; congruence. constructor; auto.
        * destruct IHe. split; auto. apply BadAssignRhs; auto.
      + cbn. split; [left; auto | apply BadAssignOuter; auto].
    - (* EIf *) cbn [freeze]. specialize (IHe1 B). unfold good in IHe1.
      destruct (freeze B e1) as [[c' B1]|c| |]; cbn [bind fst snd]; try contradiction.
      2:{ destruct IHe1. split; auto. apply BadIfC; auto. }
      destruct IHe1 as (C1 & C2 & C3 & C4). subst B1.
      specialize (IHe2 (bnd B e1)). unfold good in IHe2.
      destruct (freeze (bnd B e1) e2) as [[t' B2]|c| |]; cbn [bind fst snd]; try contradiction.
      2:{ destruct IHe2. split; auto. apply BadIfT; auto. }
      destruct IHe2 as (T1 & T2 & T3 & T4). subst B2.
      specialize (IHe3 (bnd (bnd B e1) e2)). unfold good in IHe3.
      destruct (freeze (bnd (bnd B e1) e2) e3) as [[f' B3]|c| |]; cbn [bind fst snd]; try contradiction.
      2:{ destruct IHe3. split; auto. apply BadIfF; auto. }
      destruct IHe3 as (F1 & F2 & F3 & F4). subst B3.
      cbn [good bnd]. rewrite C2, T2, F2. repeat split; auto.
      * intro X; inv X; auto.
      * constructor; auto; rewrite ?C2, ?T2; auto.
    - (* EWhile *) cbn [freeze]. specialize (IHe1 B). unfold good in IHe1.
      destruct (freeze B e1) as [[c' B1]|c| |]; cbn [bind fst snd]; try contradiction.
      2:{ destruct IHe1. split; auto. apply BadWhileC; auto. }
      destruct IHe1 as (C1 & C2 & C3 & C4). subst B1.
      specialize (IHe2 (bnd B e1)). unfold good in IHe2.
      destruct (freeze (bnd B e1) e2) as [[b' B2]|c| |]; cbn [bind fst snd]; try contradiction.
      2:{ destruct IHe2. split; auto. apply BadWhileB; auto. }
      destruct IHe2 as (T1 & T2 & T3 & T4).
      cbn [good bnd]. repeat split; auto.
      * intro X; inv X; auto.
      * constructor; auto; rewrite ?C2; auto.
    - (* EFor *) rewrite freeze_for. specialize (IHe1 B). unfold good in IHe1.
      destruct (freeze B e1) as [[e1' B1]|c| |]; cbn [bind fst snd]; try contradiction.
      2:{ destruct IHe1. split; auto. apply BadForE; auto. }
      destruct IHe1 as (C1 & C2 & C3 & C4). subst B1.
      pose proof (fzC_good cls H (x :: bnd B e1)) as G. unfold goodC in G.
      destruct (fzC look (x :: bnd B e1) cls) as [[cls' B2]|c| |]; cbn [bind fst snd]; try contradiction.
      2:{ destruct G as (G1 & pre & k & z & e2' & post & E & G2). split; auto. subst cls. apply BadForCl; auto. }
      destruct G as (G1 & G2 & G3 & G4). subst B2.
      specialize (IHe2 (bndC (x :: bnd B e1) cls)). unfold good in IHe2.
      destruct (freeze (bndC (x :: bnd B e1) cls) e2) as [[b' B3]|c| |]; cbn [bind fst snd]; try contradiction.
      2:{ destruct IHe2. split; auto. apply BadForBody; auto. }
      destruct IHe2 as (T1 & T2 & T3 & T4).
      cbn [good bnd]. repeat split; auto.
      * intro X; inv X; auto. eapply G3; eauto.
      * constructor; auto; rewrite ?C2; auto; try (intros; eapply G4; eauto; fail).
        rewrite G2. auto.
    - (* ESwitch *) rewrite freeze_switch. specialize (IHe B). unfold good in IHe.
      destruct (freeze B e) as [[e1' B1]|c| |]; cbn [bind fst snd]; try contradiction.
      2:{ destruct IHe. split; auto. apply BadSwitchE; auto. }
      destruct IHe as (C1 & C2 & C3 & C4). subst B1.
      pose proof (fzArms_good arms H (bnd B e)) as G. unfold goodArms in G.
      destruct (fzArms look (bnd B e) arms) as [arms'|c| |]; cbn [bind fst snd]; try contradiction.
      2:{ destruct G as (G1 & p & b & E & G2). split; auto. eapply BadSwitchArm; eauto. }
      destruct G as (G1 & G2).
      cbn [good bnd]. repeat split; auto.
      * intro X; inv X; auto. eapply G1; eauto.
      * constructor; auto. rewrite C2. auto.
    - (* ETry *) cbn [freeze]. specialize (IHe1 B). unfold good in IHe1.
      destruct (freeze B e1) as [[c' B1]|c| |]; cbn [bind fst snd]; try contradiction.
      2:{ destruct IHe1. split; auto. apply BadTryB; auto. }
      destruct IHe1 as (C1 & C2 & C3 & C4). subst B1.
      specialize (IHe2 (x :: bnd B e1)). unfold good in IHe2.
      destruct (freeze (x :: bnd B e1) e2) as [[b' B2]|c| |]; cbn [bind fst snd]; try contradiction.
      2:{ destruct IHe2. split; auto. apply BadTryH; auto. }
      destruct IHe2 as (T1 & T2 & T3 & T4).
      cbn [good bnd]. repeat split; auto.
      * intro X; inv X; auto.
      * constructor; auto; rewrite ?C2; auto.
    - (* EThrow *) cbn [freeze]. specialize (IHe B). unfold good in IHe.
      destruct (freeze B e) as [[e' B']|c| |]; cbn; try contradiction.
      + destruct IHe as (G1 & G2 & G3 & G4). repeat split; auto.
        intro X; inv X; auto. constructor; auto.
      + destruct IHe. split; auto. constructor; auto.
    - (* ELam *) cbn [freeze]. specialize (IHe (ps ++ B)). unfold good in IHe.
      destruct (freeze (ps ++ B) e) as [[e' B']|c| |]; cbn; try contradiction.
      + destruct IHe as (G1 & G2 & G3 & G4). repeat split; auto.
        intro X; inv X; auto. constructor; auto.
      + destruct IHe. split; auto. constructor; auto.
    - (* ECall *) rewrite freeze_call. pose proof (fzU_good B e (IHe B)) as GU. unfold goodU in GU.
      destruct (fzU look B e) as [[f' B1]|c| |]; cbn [bind fst snd]; try contradiction.
      2:{ destruct GU as (G1 & G2 & G3). split; auto. apply BadCallF; auto. }
      destruct GU as (C1 & C2 & C3 & C4). subst B1.
      pose proof (fzUL_good args H (bnd B e)) as G. unfold goodUL in G.
      destruct (fzUL look (bnd B e) args) as [[args' B2]|c| |]; cbn [bind fst snd]; try contradiction.
      2:{ destruct G as (G1 & pre & x & post & E & G2 & G3). split; auto. subst args. apply BadCallArg; auto. }
      destruct G as (G1 & G2 & G3 & G4). subst B2.
      cbn [good]. rewrite bnd_fold_call, bnd_call, C2. repeat split; auto.
      * intro X; inv X; auto. { apply C3; auto. } eapply G3; eauto.
      * assert (CL : closed B (ECall f' args')).
        { constructor; auto. rewrite C2. intros; eapply G4; eauto. }
        unfold fold_call. destruct f'; auto. destruct v; auto. destruct p; auto.
        destruct args' as [|a [|b r]]; auto. destruct (constant_value a); auto.
        destruct v; auto. constructor.
    - (* EChain *) rewrite freeze_chain. pose proof (fzU_good B e (IHe B)) as GU. unfold goodU in GU.
      destruct (fzU look B e) as [[a' B1]|c| |]; cbn [bind fst snd]; try contradiction.
      2:{ destruct GU as (G1 & G2 & G3). split; auto. apply BadChainA; auto. }
      destruct GU as (C1 & C2 & C3 & C4). subst B1.
      pose proof (fzOps_good ops H (bnd B e)) as G. unfold goodOps in G.
      destruct (fzOps look (bnd B e) ops) as [[ops' B2]|c| |]; cbn [bind fst snd]; try contradiction.
      2:{ destruct G as (G1 & pre & o & d & post & E & [G2|[G2 G3]]); split; auto; subst ops.
          - apply BadChainOper; auto.
          - apply BadChainOpd; auto. }
      destruct G as (G1 & G2 & G3 & G4). subst B2.
      cbn [good]. rewrite !bnd_chain, C2. repeat split; auto.
      * intro X; inv X.
        -- apply C3; auto.
        -- destruct (G3 _ _ _ _ eq_refl) as [G5 _]. auto.
        -- destruct (G3 _ _ _ _ eq_refl) as [_ G5]. apply G5; auto.
      * constructor; auto. rewrite C2. intros; eapply G4; eauto.
    - (* EList *) rewrite freeze_list. pose proof (fzUL_good es H B) as G. unfold goodUL in G.
      destruct (fzUL look B es) as [[es' B']|c| |]; cbn [bind fst snd]; try contradiction.
      2:{ destruct G as (G1 & pre & x & post & E & G2 & G3). split; auto. subst es. apply BadListElem; auto. }
      destruct G as (G1 & G2 & G3 & G4). subst B'.
      cbn [good]. rewrite bnd_fold_list, bnd_list. repeat split; auto.
      * intro X; inv X; auto. eapply G3; eauto.
      * unfold fold_list. destruct (constant_values es'); constructor. intros; eapply G4; eauto.
    - cbn. split; [right; auto | constructor].
  Qed.

  (* ---------------------------------------------------------------- exported corollaries *)
  Theorem freeze_fails_iff : forall B e, (exists c, freeze B e = Err c) <-> Bad B e.
  Proof.
    intros B e. pose proof (freeze_good e B) as G. unfold good in G.
    destruct (freeze B e) as [[e' B']|c| |]; try contradiction.
    - split; [intros [c H]; discriminate | intro H; destruct G as (_ & _ & G & _); contradiction].
    - split; [intros _; apply G | intros _; eauto].
  Qed.

  Theorem freeze_error_class : forall B e,
    (exists p, freeze B e = Ok p) \/ freeze B e = Err EName \/ freeze B e = Err ESyntax.
  Proof.
    intros B e. pose proof (freeze_good e B) as G. unfold good in G.
    destruct (freeze B e) as [[e' B']|c| |]; try contradiction.
    - left; eauto.
    - right. destruct G as [[G|G] _]; subst; auto.
  Qed.

  Theorem freeze_resolves_eagerly : forall B e e' B',
    freeze B e = Ok (e', B') -> closed B e' /\ B' = bnd B e /\ bnd B e' = B'.
  Proof.
    intros B e e' B' H. pose proof (freeze_good e B) as G. unfold good in G. rewrite H in G.
    destruct G as (G1 & G2 & G3 & G4). auto.
  Qed.
End Good.

(* the constant folding of the Call arm happens exactly for the builtin named "-" applied to exactly
   one constant numeric argument *)
Lemma fold_call_spec : forall f args,
  (exists p a z, f = EFrozen (VPrim PSub p) /\ args = [a] /\ constant_value a = Some (VInt z) /\
                 fold_call f args = EFrozen (VInt (- z))) \/
  ((~ exists p a z, f = EFrozen (VPrim PSub p) /\ args = [a] /\ constant_value a = Some (VInt z)) /\
   fold_call f args = ECall f args).
Proof.
  intros f args.
  destruct f as [| | | | |fv| | | | | | | | | | | | | |];
    try (right; split; [intros (p0 & a0 & z0 & E & _); discriminate|reflexivity]).
  destruct fv as [| | | |pr prec| |];
    try (right; split; [intros (p0 & a0 & z0 & E & _); discriminate|reflexivity]).
  destruct pr; try (right; split; [intros (p0 & a0 & z0 & E & _); discriminate|reflexivity]).
  destruct args as [|a [|b r]].
  - right; split; [intros (p0 & a0 & z0 & _ & E & _); discriminate|reflexivity].
  - cbn [fold_call]. destruct (constant_value a) as [w|] eqn:C.
    + destruct w; try (right; split; [intros (p0 & a0 & z0 & _ & E & E2); inversion E; subst; congruence|reflexivity]).
      left. exists prec, a, z. repeat split; auto.
    + right; split; [intros (p0 & a0 & z0 & _ & E & E2); inversion E; subst; congruence|reflexivity].
  - right; split; [intros (p0 & a0 & z0 & _ & E & _); discriminate|reflexivity].
Qed.
