(* Lang/FreezeSim_rel.v - the relations of Lang/FreezeRel.v are stable under the evolution of the
   store (kext), and related values / stores behave alike under the primitive operations. *)
From Coq Require Import ZArith String List Bool Arith Lia.
From NV Require Import Lang.FreezeLang Lang.Freeze Lang.FreezeSpec Lang.FreezeRel Lang.FreezeSim_store.
Import ListNotations.
Open Scope string_scope.
Open Scope list_scope.

Scheme vrel_min := Minimality for vrel Sort Prop
  with vrels_min := Minimality for vrels Sort Prop.
Combined Scheme vrel_mutind from vrel_min, vrels_min.

Section RelFacts.
  Variable n0 cur0 : nat.
  Variable FV : name -> option val.
  Variable resl : list name.
  Variable mutl : list name.
  Notation prot0 := (prot0 n0 resl).
  Notation ext_at := (ext_at n0 resl).
  Notation kext := (kext n0 resl).
  Notation vrel := (vrel n0 cur0 FV resl mutl).
  Notation vrels := (vrels n0 cur0 FV resl mutl).
  Notation srel := (srel n0 cur0 FV resl mutl).
  Notation agree := (agree n0 cur0 FV resl mutl).
  Notation cinv := (cinv cur0).
  Notation chain_budget := (chain_budget n0).
  Notation frame_rel := (frame_rel n0 cur0 FV resl mutl).
  Notation vars_rel := (vars_rel n0 cur0 FV resl mutl).

  Hypothesis Hcur0 : cur0 < n0.
  Implicit Types P D : name -> Prop.

  (* ------------------------------------------------------------ resolution of protected names *)
  Lemma anc_below : forall fs g h, anc fs g h -> h <= g.
  Proof. apply anc_le. Qed.

  (* a resolved name keeps its resolution from cur0: every frame on that chain is pre-existing *)
  Lemma resolve_cur0_kext : forall fs fs1 x, kext fs fs1 -> n0 <= length fs -> mem x resl = true ->
    resolve fs1 cur0 x = resolve fs cur0 x.
  Proof.
    intros fs fs1 x K L M. apply resolve_congr; [lia|]. intros h fr A E.
    destruct K as [_ O]. destruct (O h fr E) as (fr1 & E1 & Hp & Hb & Hm & Ha & Hc).
    exists fr1. repeat split; auto.
    apply anc_le in A.
    assert (PT : prot0 h x = true).
    { unfold FreezeRel.prot0. rewrite M. assert (Nat.ltb h n0 = true) by (apply Nat.ltb_lt; lia). rewrite H. reflexivity. }
    apply Hc; auto.
  Qed.

  Lemma cell_protected_kext : forall fs fs1 g x, kext fs fs1 -> g < n0 -> g < length fs -> mem x resl = true ->
    cell fs1 g x = cell fs g x.
  Proof.
    intros fs fs1 g x [_ O] Hg Hl M. unfold cell.
    destruct (nth_error fs g) as [fr|] eqn:E; [|apply nth_error_None in E; lia].
    destruct (O g fr E) as (fr1 & E1 & Hp & Hb & Hm & Ha & Hc). rewrite E1.
    assert (PT : prot0 g x = true).
    { unfold FreezeRel.prot0. rewrite M. assert (Nat.ltb g n0 = true) by (apply Nat.ltb_lt; lia). rewrite H. reflexivity. }
    apply Hc; auto.
  Qed.

  Lemma lookup_cur0_kext : forall fs fs1 x, kext fs fs1 -> n0 <= length fs -> mem x resl = true ->
    lookup fs1 cur0 x = lookup fs cur0 x.
  Proof.
    intros fs fs1 x K L M. unfold lookup. rewrite (resolve_cur0_kext _ _ _ K L M).
    destruct (resolve fs cur0 x) as [g|] eqn:R; auto.
    apply resolve_le in R. apply cell_protected_kext; auto; lia.
  Qed.

  (* the closure invariant survives: its names cannot be declared on its chain *)
  Lemma cinv_kext : forall fs fs1 P D B fid,
    kext fs fs1 -> n0 <= length fs -> fid < length fs ->
    (forall x, P x -> mem x resl = true) ->
    (forall x, P x -> mem x B = false -> ~ D x) ->
    chain_budget fs fid D ->
    cinv P B fs fid -> cinv P B fs1 fid.
  Proof.
    intros fs fs1 P D B fid K L Lf HP HD HC HI x Px Bx.
    rewrite (resolve_cur0_kext _ _ _ K L (HP x Px)). rewrite <- (HI x Px Bx).
    apply resolve_congr; auto. intros h fr A E.
    destruct K as [_ O]. destruct (O h fr E) as (fr1 & E1 & Hp & Hb & Hm & Ha & Hc).
    exists fr1. repeat split; auto.
    destruct (in_dom x fr) eqn:Dx; [apply Hm; auto|].
    destruct (in_dom x fr1) eqn:Dx1; auto.
    destruct (Ha x Dx1) as [H|[[H1 H2]|[H1 H2]]]; [congruence| |].
    - exfalso. apply (HD x Px Bx). apply (HC h A H1). unfold budget_at. rewrite E. auto.
    - rewrite (HP x Px) in H2. discriminate.
  Qed.

  (* ------------------------------------------------------------ monotonicity *)
  Lemma vrel_mono_both : forall fs,
    (forall v v', vrel fs v v' -> forall fs1, kext fs fs1 -> n0 <= length fs -> vrel fs1 v v') /\
    (forall l l', vrels fs l l' -> forall fs1, kext fs fs1 -> n0 <= length fs -> vrels fs1 l l').
  Proof.
    intros fs. apply vrel_mutind; intros; try (constructor; eauto; fail).
    - (* closure *)
      econstructor; eauto.
      + eapply chain_budget_kext; eauto.
      + eapply cinv_kext with (D := DU D (call_budget ps b)); eauto.
        intros h A Hh x Hx. left. eapply H2; eauto.
      + destruct H5. lia.
  Qed.

  Lemma vrel_mono : forall fs fs1 v v', vrel fs v v' -> kext fs fs1 -> n0 <= length fs -> vrel fs1 v v'.
  Proof. intros. eapply (proj1 (vrel_mono_both fs)); eauto. Qed.

  Lemma vrels_mono : forall fs fs1 l l', vrels fs l l' -> kext fs fs1 -> n0 <= length fs -> vrels fs1 l l'.
  Proof. intros. eapply (proj2 (vrel_mono_both fs)); eauto. Qed.

  Lemma agree_mono : forall fs fs1, agree fs -> kext fs fs1 -> n0 <= length fs -> agree fs1.
  Proof.
    intros fs fs1 A K L x v0 M F. destruct (A x v0 M F) as (v & Lk & R).
    exists v. rewrite (lookup_cur0_kext _ _ _ K L M). split; auto. eapply vrel_mono; eauto.
  Qed.

  Lemma vars_rel_mono : forall fs fs1 l l', vars_rel fs l l' -> kext fs fs1 -> n0 <= length fs -> vars_rel fs1 l l'.
  Proof.
    intros fs fs1 l l' H K L. induction H; constructor; auto.
    destruct H as [H1 [H2|H2]]; split; auto. right. eapply vrel_mono; eauto.
  Qed.

  (* bindings about to be declared: always related values *)
  Definition binds_rel (fs : list frame) (l l' : list (name * val)) : Prop :=
    Forall2 (fun a a' => fst a = fst a' /\ vrel fs (snd a) (snd a')) l l'.

  Lemma binds_rel_mono : forall fs fs1 l l', binds_rel fs l l' -> kext fs fs1 -> n0 <= length fs -> binds_rel fs1 l l'.
  Proof.
    intros fs fs1 l l' H K L. induction H; constructor; auto.
    destruct H as [H1 H2]; split; auto. eapply vrel_mono; eauto.
  Qed.

  Lemma frame_rel_mono : forall fs fs1 fr fr', frame_rel fs fr fr' -> kext fs fs1 -> n0 <= length fs -> frame_rel fs1 fr fr'.
  Proof. intros fs fs1 fr fr' [H1 H2] K L. split; auto. eapply vars_rel_mono; eauto. Qed.

  Lemma frames_rel_mono : forall fs fs1 l l', Forall2 (frame_rel fs) l l' -> kext fs fs1 -> n0 <= length fs ->
    Forall2 (frame_rel fs1) l l'.
  Proof. intros fs fs1 l l' H K L. induction H; constructor; auto. eapply frame_rel_mono; eauto. Qed.

  (* ------------------------------------------------------------ values *)
  Lemma vrels_length : forall fs l l', vrels fs l l' -> length l = length l'.
  Proof. induction 1; cbn; auto. Qed.

  Lemma vrels_app : forall fs l l' m m', vrels fs l l' -> vrels fs m m' -> vrels fs (l ++ m) (l' ++ m').
  Proof. induction 1; cbn; intros; auto. constructor; auto. Qed.

  Lemma vrel_simple_both : forall fs,
    (forall v v', vrel fs v v' -> simple v = simple v' /\ (simple v = true -> v = v')) /\
    (forall l l', vrels fs l l' -> forallb simple l = forallb simple l' /\ (forallb simple l = true -> l = l')).
  Proof.
    intros fs. apply vrel_mutind; intros; cbn; try (split; auto; fail).
    - destruct H0 as [H1 H2]. split; auto. intros S. f_equal. auto.
    - split; auto. discriminate.
    - destruct H0 as [A1 A2], H2 as [B1 B2]. rewrite A1, B1. split; auto.
      intros S. apply andb_true_iff in S. destruct S as [S1 S2].
      rewrite <- A1 in S1. rewrite <- B1 in S2. f_equal; auto.
  Qed.

  Lemma vrel_simple : forall fs v v', vrel fs v v' -> simple v = simple v' /\ (simple v = true -> v = v').
  Proof. intros. apply (proj1 (vrel_simple_both fs)); auto. Qed.

  Lemma vrels_simple : forall fs l l', vrels fs l l' ->
    forallb simple l = forallb simple l' /\ (forallb simple l = true -> l = l').
  Proof. intros. apply (proj2 (vrel_simple_both fs)); auto. Qed.

  Lemma vrel_truthy : forall fs v v', vrel fs v v' -> truthy v = truthy v'.
  Proof. intros fs v v' H. inversion H; subst; cbn; auto. inversion H0; auto. Qed.

  Lemma vrel_is_func : forall fs v v', vrel fs v v' -> is_func v = is_func v'.
  Proof. intros fs v v' H. inversion H; subst; cbn; auto. Qed.

  Lemma vrel_func_prec : forall fs v v', vrel fs v v' -> func_prec v = func_prec v'.
  Proof. intros fs v v' H. inversion H; subst; cbn; auto. Qed.

  Lemma vrel_is_cmp : forall fs v v', vrel fs v v' -> is_cmp v = is_cmp v'.
  Proof. intros fs v v' H. inversion H; subst; cbn; auto. Qed.

  Lemma vrels_existsb_func : forall fs l l', vrels fs l l' -> existsb is_func l = existsb is_func l'.
  Proof. induction 1; cbn; auto. rewrite (vrel_is_func _ _ _ H), IHvrels. auto. Qed.

  Lemma noclos_refl_both : forall fs v, noclos v = true -> vrel fs v v.
  Proof.
    intros fs. fix IH 1. intros v H. destruct v; try (constructor; fail).
    - constructor. cbn in H. induction l as [|a l IHl]; constructor.
      + apply IH. cbn in H. apply andb_true_iff in H. tauto.
      + apply IHl. cbn in H. apply andb_true_iff in H. tauto.
    - discriminate.
  Qed.

  Lemma constant_values_length : forall es vs, constant_values es = Some vs -> length vs = length es.
  Proof.
    induction es as [|e r IH]; intros vs H; cbn in H.
    - inversion H; auto.
    - destruct (constant_value e); try discriminate. destruct (constant_values r) eqn:E; try discriminate.
      inversion H; subst. cbn. f_equal. auto.
  Qed.

  (* ------------------------------------------------------------ related stores resolve alike *)
  Lemma vars_rel_names : forall fs l l', vars_rel fs l l' -> map fst l = map fst l'.
  Proof. induction 1; cbn; auto. destruct H. congruence. Qed.

  Lemma frame_rel_in_dom : forall fs fr fr' x, frame_rel fs fr fr' -> in_dom x fr' = in_dom x fr.
  Proof. intros fs fr fr' x [_ H]. unfold in_dom, names. rewrite (vars_rel_names _ _ _ H). auto. Qed.

  Lemma vars_rel_assoc : forall fs l l' x, vars_rel fs l l' ->
    match assoc x l, assoc x l' with
    | Some v, Some v' => mem x mutl = true \/ vrel fs v v'
    | None, None => True
    | _, _ => False
    end.
  Proof.
    induction 1 as [|[y v] [y' v'] l l' [H1 H2] H IH]; cbn; auto.
    cbn in H1, H2. subst y'. destruct (String.eqb x y) eqn:Q; auto.
    apply String.eqb_eq in Q. subst. auto.
  Qed.

  Lemma Forall2_nth : forall {A B} (R : A -> B -> Prop) l l' g a, Forall2 R l l' -> nth_error l g = Some a ->
    exists b, nth_error l' g = Some b /\ R a b.
  Proof.
    intros A B R l l' g a H. revert g. induction H; intros [|g] E; cbn in *; try discriminate.
    - inversion E; subst. eauto.
    - eauto.
  Qed.

  Lemma Forall2_len : forall {A B} (R : A -> B -> Prop) l l', Forall2 R l l' -> length l = length l'.
  Proof. induction 1; cbn; auto. Qed.

  Lemma Forall2_nth_none : forall {A B} (R : A -> B -> Prop) l l' g, Forall2 R l l' -> nth_error l g = None -> nth_error l' g = None.
  Proof.
    intros A B R l l' g H E. apply nth_error_None. apply nth_error_None in E.
    rewrite <- (Forall2_len _ _ _ H). auto.
  Qed.

  Lemma resolve_rel : forall fs0 fs fs' g x, Forall2 (frame_rel fs0) fs fs' -> resolve fs' g x = resolve fs g x.
  Proof.
    intros fs0 fs fs' g x H.
    destruct (Nat.lt_ge_cases g (length fs)) as [L|L].
    - apply resolve_congr; auto. intros h fr A E.
      destruct (Forall2_nth _ _ _ _ _ H E) as (fr' & E' & R). exists fr'. repeat split; auto.
      + destruct R; auto.
      + eapply frame_rel_in_dom; eauto.
    - assert (E : nth_error fs g = None) by (apply nth_error_None; auto).
      rewrite (resolve_none_frame _ _ _ E), (resolve_none_frame _ _ _ (Forall2_nth_none _ _ _ _ H E)). auto.
  Qed.

  Lemma lookup_rel : forall fs0 fs fs' g x, Forall2 (frame_rel fs0) fs fs' ->
    match lookup fs g x, lookup fs' g x with
    | Some v, Some v' => mem x mutl = true \/ vrel fs0 v v'
    | None, None => True
    | _, _ => False
    end.
  Proof.
    intros fs0 fs fs' g x H. unfold lookup. rewrite (resolve_rel _ _ _ g x H).
    destruct (resolve fs g x) as [h|] eqn:R; auto. unfold cell.
    destruct (nth_error fs h) as [fr|] eqn:E.
    - destruct (Forall2_nth _ _ _ _ _ H E) as (fr' & E' & [_ RV]). rewrite E'. apply vars_rel_assoc; auto.
    - rewrite (Forall2_nth_none _ _ _ _ H E). auto.
  Qed.

  Lemma Forall2_set_nth : forall {A B} (R : A -> B -> Prop) l l' g a b,
    Forall2 R l l' -> R a b -> Forall2 R (set_nth g a l) (set_nth g b l').
  Proof.
    intros A B R l l' g a b H Hab. revert g. induction H; intros [|g]; cbn; constructor; auto.
  Qed.

  Lemma vars_rel_assoc_set : forall fs l l' x v v', vars_rel fs l l' -> vrel fs v v' ->
    vars_rel fs (assoc_set x v l) (assoc_set x v' l').
  Proof.
    induction 1 as [|[y w] [y' w'] l l' [H1 H2] H IH]; intros Hv; cbn; [constructor|].
    cbn in H1, H2. subst y'. destruct (String.eqb x y); constructor; try (split; auto; fail); auto.
    apply IH; auto.
  Qed.
End RelFacts.
