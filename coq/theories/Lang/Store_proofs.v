(* C12: the annotation invariant.  Every write to a variable is checked against the type it was
   declared with, so a statement that completes leaves every variable it wrote inside its type,
   keeps every other well-typed variable well-typed, and no statement changes a declared type. *)
From Coq Require Import ZArith NArith List Bool Lia PeanoNat.
From NV Require Import Common.Outcome Lang.Types Lang.Types_proofs Lang.Pattern Lang.PatternSpec
  Lang.Pattern_proofs Lang.Pattern_proofs3 Lang.Store.
Import ListNotations.

Section Inv.
  Variable sat : N -> val -> outcome bool.
  Variable inexact : iop -> num -> num -> num.
  Variable binop : N -> val -> val -> outcome val.

  Notation typed := (typed sat).
  Notation Rty := (Rty sat).
  Notation established := (established sat).

  Lemma Rty_Rdecl : forall s s', Rty s s' -> Rdecl s s'.
  Proof. intros s s' H x T w Hx. destruct (H x T w Hx) as (w' & H1 & _). eauto. Qed.
  Lemma Rty_refl : forall s, Rty s s.
  Proof. intros s x T w H. eauto. Qed.
  Lemma Rty_trans : forall a b c, Rty a b -> Rty b c -> Rty a c.
  Proof.
    intros a b c H1 H2 x T w Hx. destruct (H1 x T w Hx) as (w1 & Hb & Hw1).
    destruct (H2 x T w1 Hb) as (w2 & Hc & Hw2). exists w2. split; [exact Hc|].
    destruct Hw2 as [->|Ht]; auto.
  Qed.
  Lemma Rdecl_refl : forall s, Rdecl s s.
  Proof. intros s x T w H. eauto. Qed.
  Lemma Rdecl_trans : forall a b c, Rdecl a b -> Rdecl b c -> Rdecl a c.
  Proof. intros a b c H1 H2 x T w Hx. destruct (H1 x T w Hx) as (w1 & Hb). eapply H2; eauto. Qed.

  Lemma declare_Rty : forall s x t v, Rty s (fst (declare sat s x t v)).
  Proof.
    intros s x t v. unfold declare. destruct (is_type sat t v) as [[|]| | |]; cbn [fst]; try apply Rty_refl.
    destruct (lookup s x) eqn:E; cbn [fst]; [apply Rty_refl|].
    intros y T w Hy. exists w. split; [|auto]. cbn [lookup].
    destruct (N.eqb_spec y x) as [->|]; [congruence|exact Hy].
  Qed.
  Lemma set_val_Rty : forall s x v t w0, lookup s x = Some (t, w0) -> typed t v -> Rty s (set_val s x v).
  Proof.
    intros s x v t w0 Hx Hv y T w Hy. destruct (N.eq_dec x y) as [<-|Hn].
    - rewrite Hx in Hy. injection Hy as <- <-. exists v. split; [eapply lookup_set_val_same; eauto|auto].
    - exists w. rewrite lookup_set_val_other by exact Hn. auto.
  Qed.
  Lemma set_val_Rdecl : forall s x v, Rdecl s (set_val s x v).
  Proof.
    intros s x v y T w Hy. destruct (N.eq_dec x y) as [<-|Hn].
    - exists v. eapply lookup_set_val_same; eauto.
    - exists w. rewrite lookup_set_val_other by exact Hn. exact Hy.
  Qed.
  Lemma assign_var_Rty : forall s x v, Rty s (fst (assign_var sat s x v)).
  Proof.
    intros s x v. unfold assign_var. destruct (lookup s x) as [[t w0]|] eqn:E; cbn [fst]; [|apply Rty_refl].
    destruct (is_type sat t v) as [[|]| | |] eqn:Et; cbn [fst]; try apply Rty_refl.
    eapply set_val_Rty; eauto.
  Qed.
  Lemma assign_var_ok : forall s x v s', assign_var sat s x v = (s', Ok tt) ->
    exists t w0, lookup s x = Some (t, w0) /\ typed t v /\ s' = set_val s x v.
  Proof.
    intros s x v s' H. unfold assign_var in H. destruct (lookup s x) as [[t w0]|] eqn:E; [|discriminate].
    destruct (is_type sat t v) as [[|]| | |] eqn:Et; try discriminate. injection H as <-.
    exists t, w0. auto.
  Qed.

  (* every write a match performs is checked; holds for every outcome, since a failed match keeps
     the writes it already made *)
  Theorem assign_Rty : forall fuel p rt v s, Rty s (fst (assign sat inexact fuel p rt v s)).
  Proof.
    intros. apply (assign_R sat inexact Rty (fun _ => True)); auto.
    - apply Rty_refl.
    - apply Rty_trans.
    - apply declare_Rty.
    - intros. apply assign_var_Rty.
  Qed.

  Lemma chain_Rty : forall fuel rt ps vs s s',
    chain (assign sat inexact fuel) rt ps vs s s' -> Rty s s'.
  Proof.
    induction 1; [apply Rty_refl|]. eapply Rty_trans; [|eassumption].
    pose proof (assign_Rty fuel p rt v s) as Hr. rewrite H in Hr. exact Hr.
  Qed.

  Lemma established_then : forall x a b c, established x a b -> Rty b c -> established x a c.
  Proof.
    intros x a b c H1 H2 T w Hx. destruct (H1 T w Hx) as (w1 & Hb & Ht).
    destruct (H2 x T w1 Hb) as (w2 & Hc & [->|Ht2]); eauto.
  Qed.
  Lemma then_established : forall x a b c, Rty a b -> established x b c -> established x a c.
  Proof.
    intros x a b c H1 H2 T w Hx. destruct (H1 x T w Hx) as (w1 & Hb & _). eapply H2; eauto.
  Qed.

  Lemma sure_vars_list_split : forall ps si, (si < length ps)%nat ->
    sure_vars_list ps =
    sure_vars_list (firstn si ps) ++ sure_vars (nth si ps PWild) ++ sure_vars_list (skipn (S si) ps).
  Proof.
    induction ps as [|p ps IH]; intros si H; cbn [length] in H; [lia|].
    destruct si as [|si]; cbn [firstn skipn nth sure_vars_list app]; [reflexivity|].
    rewrite (IH si) by lia. rewrite <- app_assoc. reflexivity.
  Qed.

  Section B.
    Variable fuel : nat.
    Hypothesis IH : forall p v s s' x, assign sat inexact fuel p None v s = (s', Ok tt) ->
      In x (sure_vars p) -> established x s s'.

    Lemma chain_established : forall ps vs s s' x,
      chain (assign sat inexact fuel) None ps vs s s' -> In x (sure_vars_list ps) -> established x s s'.
    Proof.
      induction 1 as [|p ps v vs s s1 s' H1 Hc IHc]; intros Hin; cbn [sure_vars_list] in Hin; [destruct Hin|].
      apply in_app_or in Hin as [Hin|Hin].
      - eapply established_then; [eapply IH; eauto|]. eapply chain_Rty; eauto.
      - eapply then_established; [|apply IHc; exact Hin].
        pose proof (assign_Rty fuel p None v s) as Hr. rewrite H1 in Hr. exact Hr.
    Qed.

    Lemma assign_all_established : forall ps rhs s s' x,
      assign_all (assign sat inexact fuel) ps None rhs s = (s', Ok tt) ->
      In x (sure_vars_list ps) -> established x s s'.
    Proof.
      intros ps rhs s s' x H Hin. apply assign_all_inv in H as (defs & [[_ Hc]|H]).
      - eapply chain_established; eauto.
      - destruct H as (si & front & mid & back & s1 & s2 & _ & Hlt & _ & _ & Hc1 & Hs & Hc2).
        rewrite (sure_vars_list_split ps si Hlt) in Hin.
        assert (Hsp : Rty s1 s2).
        { unfold assign_splat in Hs.
          destruct (nth si ps PWild) as [| |q a| | |q| | | | |]; try discriminate Hs.
          - destruct q as [| | | | |q| | | | |]; try discriminate Hs. destruct a as [a|].
            + destruct (to_type a) as [t| | |]; try discriminate Hs.
              pose proof (assign_Rty fuel q (Some t) (VList mid) s1) as Hr. rewrite Hs in Hr. exact Hr.
            + pose proof (assign_Rty fuel q (Some TAny) (VList mid) s1) as Hr. rewrite Hs in Hr. exact Hr.
          - pose proof (assign_Rty fuel q None (VList mid) s1) as Hr. rewrite Hs in Hr. exact Hr. }
        apply in_app_or in Hin as [Hin|Hin]; [|apply in_app_or in Hin as [Hin|Hin]].
        + eapply established_then; [eapply chain_established; eauto|].
          eapply Rty_trans; [exact Hsp|eapply chain_Rty; eauto].
        + eapply then_established; [eapply chain_Rty; eauto|].
          eapply established_then; [|eapply chain_Rty; eauto].
          unfold assign_splat in Hs.
          destruct (nth si ps PWild) as [| |q a| | |q| | | | |]; try discriminate Hs.
          * destruct Hin.
          * cbn [sure_vars] in Hin. eapply IH; eauto.
        + eapply then_established; [eapply Rty_trans; [eapply chain_Rty; eauto|exact Hsp]|].
          eapply chain_established; eauto.
    Qed.
  End B.

  Theorem assign_establishes : forall fuel p v s s' x,
    assign sat inexact fuel p None v s = (s', Ok tt) -> In x (sure_vars p) -> established x s s'.
  Proof.
    induction fuel as [|fuel IH]; intros p v s s' x H Hin; [discriminate|].
    cbn [assign] in H. destruct p; cbn [sure_vars] in Hin; try destruct Hin.
    - (* PVar *)
      subst. apply assign_var_ok in H as (t & w0 & Hx & Ht & ->).
      intros T w Hl. rewrite Hx in Hl. injection Hl as <- <-.
      exists v. split; [eapply lookup_set_val_same; eauto|exact Ht].
    - destruct H0.
    - (* PDefault *) eapply IH; eauto.
    - (* PSeq *)
      assert (Hgo : match elements v with
                    | Some es => assign_all (assign sat inexact fuel) ps None es s
                    | None => (s, Err EType) end = (s', Ok tt)).
      { destruct delimited; exact H. }
      destruct (elements v); [|discriminate]. eapply assign_all_established; eauto.
    - (* PSplat *) discriminate.
    - (* PAnd *)
      apply andthen_ok in H as (s1 & H1 & H2). apply in_app_or in Hin as [Hin|Hin].
      + eapply established_then; [eapply IH; eauto|].
        pose proof (assign_Rty fuel p2 None v s1) as Hr. rewrite H2 in Hr. exact Hr.
      + eapply then_established; [|eapply IH; eauto].
        pose proof (assign_Rty fuel p1 None v s) as Hr. rewrite H1 in Hr. exact Hr.
    - (* PDestr *)
      destruct (destructure inexact b v (map known_of args)); try discriminate.
      destruct (Nat.eqb _ _); [|discriminate]. eapply assign_all_established; eauto.
    - (* PStruct *)
      destruct v; try discriminate. destruct (N.eqb _ _); [|discriminate].
      eapply assign_all_established; eauto.
  Qed.

  (* ---------------------------------------------------------------- statements *)
  Lemma lift_cases : forall A (P : res -> Prop) s (o : outcome A) k,
    (forall a, o = Ok a -> P (k a)) -> (forall c, P (s, Err c)) -> P (s, Panic) -> P (s, OutOfFuel) ->
    P (lift s o k).
  Proof. intros A P s o k H1 H2 H3 H4. destruct o; cbn [lift]; auto. Qed.

  Lemma write_indexed_Rdecl : forall s x f, Rdecl s (fst (write_indexed sat s x f)).
  Proof.
    intros s x f. unfold write_indexed. destruct (lookup s x) as [[t old]|]; [|apply Rdecl_refl].
    destruct (f (force_seq old)) as [nv| | |]; cbn [fst]; try apply set_val_Rdecl.
    destruct (is_type sat t nv) as [[|]| | |]; cbn [fst];
      (eapply Rdecl_trans; [apply set_val_Rdecl|apply set_val_Rdecl]).
  Qed.
  (* an indexed / sliced write that completes has passed the late check, for every declared type *)
  Lemma write_indexed_established : forall s x f s',
    write_indexed sat s x f = (s', Ok tt) -> established x s s'.
  Proof.
    intros s x f s' H. unfold write_indexed in H. destruct (lookup s x) as [[t old]|] eqn:E; [|discriminate].
    destruct (f (force_seq old)) as [nv| | |]; try discriminate.
    destruct (is_type sat t nv) as [[|]| | |] eqn:Et; try discriminate. injection H as <-.
    intros T w Hl. rewrite E in Hl. injection Hl as <- <-. exists nv. split; [|exact Et].
    eapply lookup_set_val_same. eapply lookup_set_val_same. eauto.
  Qed.

  Lemma every_op_sel_Rdecl : forall s x m, Rdecl s (fst (every_op_sel sat s x m)).
  Proof.
    intros s x m. unfold every_op_sel. destruct (lookup s x) as [[t old]|]; [|apply Rdecl_refl].
    apply lift_cases; cbn [fst]; try (intros; apply Rdecl_refl). intros nv _. apply Rty_Rdecl, assign_var_Rty.
  Qed.
  Lemma every_op_sel_established : forall s x m s',
    every_op_sel sat s x m = (s', Ok tt) -> established x s s'.
  Proof.
    intros s x m s' H. unfold every_op_sel in H. destruct (lookup s x) as [[t old]|] eqn:E; [|discriminate].
    destruct (m (force_seq old)) as [nv| | |]; cbn [lift] in H; try discriminate.
    apply assign_var_ok in H as (t' & w0 & Hx & Ht & ->). rewrite E in Hx. injection Hx as <- <-.
    intros T w Hl. rewrite E in Hl. injection Hl as <- <-. exists nv. split; [|exact Ht].
    eapply lookup_set_val_same; eauto.
  Qed.

  (* no statement changes a declared type, whatever its outcome *)
  Theorem stmt_keeps_types : forall st s, Rdecl s (fst (run_stmt sat inexact binop st s)).
  Proof.
    intros st s. destruct st; cbn [run_stmt].
    - apply Rty_Rdecl, assign_Rty.
    - apply Rty_Rdecl, assign_Rty.
    - unfold op_assign. destruct (lookup s x) as [[t old]|] eqn:E; [|apply Rdecl_refl].
      apply lift_cases; cbn [fst]; try (intros; apply set_val_Rdecl).
      intros r _. eapply Rdecl_trans; [apply set_val_Rdecl|apply Rty_Rdecl, assign_var_Rty].
    - revert s. induction xs as [|y xs IH]; intros s; cbn [every_assign]; [apply Rdecl_refl|].
      pose proof (assign_var_Rty s y v) as Hr.
      destruct (assign_var sat s y v) as [s1 [[]| | |]]; cbn [andthen fst] in *; try (apply Rty_Rdecl; exact Hr).
      eapply Rdecl_trans; [apply Rty_Rdecl; exact Hr|apply IH].
    - unfold every_op. destruct (lookup s x) as [[t old]|] eqn:E; [|apply Rdecl_refl].
      apply lift_cases; cbn [fst]; try (intros; apply Rdecl_refl).
      intros r _. destruct (is_type sat t r) as [[|]| | |]; cbn [fst]; try apply Rdecl_refl. apply set_val_Rdecl.
    - unfold swap. destruct (lookup s x) as [[t a]|]; [|apply Rdecl_refl].
      destruct (lookup s y) as [[t' b]|]; [|apply Rdecl_refl].
      pose proof (assign_var_Rty s x b) as Hr.
      destruct (assign_var sat s x b) as [s1 [[]| | |]]; cbn [andthen fst] in *; try (apply Rty_Rdecl; exact Hr).
      eapply Rdecl_trans; [apply Rty_Rdecl; exact Hr|apply Rty_Rdecl, assign_var_Rty].
    - apply write_indexed_Rdecl.
    - apply write_indexed_Rdecl.
    - unfold op_index. destruct (lookup s x) as [[t old]|] eqn:E; [|apply Rdecl_refl].
      apply lift_cases; cbn [fst]; try (intros; apply Rdecl_refl). intros e _.
      apply lift_cases; cbn [fst]; try (intros; apply set_val_Rdecl). intros d _.
      apply lift_cases; cbn [fst];
        try (intros; eapply Rdecl_trans; [apply set_val_Rdecl|apply set_val_Rdecl]).
      intros r _. eapply Rdecl_trans; [apply set_val_Rdecl|].
      eapply Rdecl_trans; [apply set_val_Rdecl|apply write_indexed_Rdecl].
    - apply every_op_sel_Rdecl.
    - apply every_op_sel_Rdecl.
  Qed.

  (* a statement that completes leaves every variable it wrote inside its declared type *)
  Theorem stmt_establishes : forall st s s' x,
    run_stmt sat inexact binop st s = (s', Ok tt) -> In x (writes st) -> established x s s'.
  Proof.
    intros st s s' x H Hin. destruct st; cbn [run_stmt writes] in *.
    - eapply assign_establishes; eauto.
    - destruct Hin.
    - destruct Hin as [<-|[]]. unfold op_assign in H. destruct (lookup s x0) as [[t old]|] eqn:E; [|discriminate].
      destruct (binop op old v) as [r| | |]; cbn [lift] in H; try discriminate.
      apply assign_var_ok in H as (t' & w0 & Hx & Ht & ->).
      erewrite lookup_set_val_same in Hx by eauto. injection Hx as <- <-.
      intros T w Hl. rewrite E in Hl. injection Hl as <- <-. exists r. split; [|exact Ht].
      eapply lookup_set_val_same. eapply lookup_set_val_same. eauto.
    - revert s H. induction xs as [|y xs IH]; intros s H; [destruct Hin|].
      cbn [every_assign] in H. apply andthen_ok in H as (s1 & H1 & H2).
      assert (Hy : established y s s1).
      { apply assign_var_ok in H1 as (t & w0 & Hx & Ht & ->). intros T w Hl. rewrite Hx in Hl.
        injection Hl as <- <-. exists v. split; [eapply lookup_set_val_same; eauto|exact Ht]. }
      assert (Hrest : Rty s1 s').
      { clear - H2. revert s1 H2. induction xs as [|z xs IHx]; intros s1 H2; cbn [every_assign] in H2.
        - injection H2 as <-. apply Rty_refl.
        - apply andthen_ok in H2 as (s2 & Ha & Hb). eapply Rty_trans; [|apply IHx; exact Hb].
          pose proof (assign_var_Rty s1 z v) as Hr. rewrite Ha in Hr. exact Hr. }
      destruct Hin as [<-|Hin].
      + eapply established_then; eauto.
      + eapply then_established; [|apply IH; eauto].
        pose proof (assign_var_Rty s y v) as Hr. rewrite H1 in Hr. exact Hr.
    - destruct Hin as [<-|[]]. unfold every_op in H. destruct (lookup s x0) as [[t old]|] eqn:E; [|discriminate].
      destruct (binop op old v) as [r| | |]; cbn [lift] in H; try discriminate.
      destruct (is_type sat t r) as [[|]| | |] eqn:Et; try discriminate. injection H as <-.
      intros T w Hl. rewrite E in Hl. injection Hl as <- <-. exists r. split; [|exact Et].
      eapply lookup_set_val_same; eauto.
    - unfold swap in H. destruct (lookup s x0) as [[t a]|] eqn:Ex; [|discriminate].
      destruct (lookup s y) as [[t' b]|] eqn:Ey; [|discriminate].
      apply andthen_ok in H as (s1 & H1 & H2).
      pose proof (assign_var_Rty s x0 b) as Hr1. rewrite H1 in Hr1. cbn [fst] in Hr1.
      pose proof (assign_var_Rty s1 y a) as Hr2. rewrite H2 in Hr2. cbn [fst] in Hr2.
      apply assign_var_ok in H1 as (t1 & w1 & Hx1 & Ht1 & ->).
      apply assign_var_ok in H2 as (t2 & w2 & Hx2 & Ht2 & ->).
      destruct Hin as [<-|[<-|[]]].
      + eapply established_then; [|exact Hr2]. intros T w Hl. rewrite Hx1 in Hl. injection Hl as <- <-.
        exists b. split; [eapply lookup_set_val_same; eauto|exact Ht1].
      + eapply then_established; [exact Hr1|]. intros T w Hl. rewrite Hx2 in Hl. injection Hl as <- <-.
        exists a. split; [eapply lookup_set_val_same; eauto|exact Ht2].
    - destruct Hin as [<-|[]]. eapply write_indexed_established; eauto.
    - destruct Hin as [<-|[]]. eapply write_indexed_established; eauto.
    - destruct Hin as [<-|[]]. unfold op_index in H. destruct (lookup s x0) as [[t old]|] eqn:E; [|discriminate].
      destruct (read_elem old i) as [e| | |]; cbn [lift] in H; try discriminate.
      destruct (drop_elem (force_seq old) i) as [d| | |]; cbn [lift] in H; try discriminate.
      destruct (binop op e v) as [r| | |]; cbn [lift] in H; try discriminate.
      apply write_indexed_established in H.
      intros T w Hl. rewrite E in Hl. injection Hl as <- <-. eapply H.
      eapply lookup_set_val_same. eapply lookup_set_val_same. eauto.
    - destruct Hin as [<-|[]]. eapply every_op_sel_established; eauto.
    - destruct Hin as [<-|[]]. eapply every_op_sel_established; eauto.
  Qed.

  (* the annotation invariant, over histories: whatever statements ran before and whether they
     raised or not, the variable keeps its declared type T, and after each statement that writes it
     and completes, its value satisfies T *)
  Theorem annotation_invariant : forall sts s0 x T w0, lookup s0 x = Some (T, w0) ->
    Forall (fun step => match step with (st, s', o) =>
              (exists w', lookup s' x = Some (T, w')) /\
              (o = Ok tt -> In x (writes st) -> exists w', lookup s' x = Some (T, w') /\ typed T w')
            end) (run_hist sat inexact binop sts s0).
  Proof.
    induction sts as [|st sts IH]; intros s0 x T w0 Hx; cbn [run_hist]; [constructor|].
    destruct (run_stmt sat inexact binop st s0) as [s1 o] eqn:E.
    pose proof (stmt_keeps_types st s0 x T w0 Hx) as (w1 & H1). rewrite E in H1. cbn [fst] in H1.
    constructor; [|eapply IH; eauto].
    split; [eauto|]. intros -> Hin. eapply stmt_establishes; eauto.
  Qed.
End Inv.
