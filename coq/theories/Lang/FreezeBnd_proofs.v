(* Lang/FreezeBnd_proofs.v - the bound set after a walk contains the bound set before it and every
   name the expression declares directly. *)
From Coq Require Import ZArith String List Bool.
From NV Require Import Common.Outcome Lang.FreezeLang Lang.Freeze Lang.FreezeSpec Lang.Freeze_proofs.
Import ListNotations.
Open Scope string_scope.
Open Scope list_scope.

Definition bnd_ok (e : expr) : Prop :=
  forall B x, (In x B -> In x (bnd B e)) /\ (In x (ddecl e) -> In x (bnd B e)).

Lemma bndL_ok : forall es, Forall bnd_ok es ->
  forall B x, (In x B -> In x (bndL B es)) /\ (In x (flat_map ddecl es) -> In x (bndL B es)).
Proof.
  induction 1 as [|e r He Hr IH]; intros B x; cbn.
  - split; auto. intros [].
  - destruct (IH (bnd B e) x) as [I1 I2]. destruct (He B x) as [H1 H2]. split.
    + intros. apply I1. apply H1. auto.
    + intros Hx. apply in_app_or in Hx. destruct Hx; auto.
Qed.

Lemma bndOps_ok : forall ops, Forall (fun o : expr * expr => bnd_ok (fst o) /\ bnd_ok (snd o)) ops ->
  forall B x, (In x B -> In x (bndOps B ops)) /\
              (In x (flat_map (fun p => ddecl (fst p) ++ ddecl (snd p)) ops) -> In x (bndOps B ops)).
Proof.
  induction 1 as [|[o d] r [Ho Hd] Hr IH]; intros B x; cbn.
  - split; auto. intros [].
  - cbn [fst snd] in *. destruct (IH (bnd (bnd B o) d) x) as [I1 I2].
    destruct (Ho B x) as [H1 H2]. destruct (Hd (bnd B o) x) as [H3 H4]. split.
    + intros. apply I1. apply H3. apply H1. auto.
    + intros Hx. apply in_app_or in Hx. destruct Hx as [Hx|Hx]; auto.
      apply in_app_or in Hx. destruct Hx; auto.
Qed.

Lemma bnd_spec : forall e, bnd_ok e.
Proof.
  induction e using expr_ind'; intros B nm; try (cbn; split; [auto|intros []]; fail).
  - (* ESeq *) rewrite bnd_seq. change (ddecl (ESeq es)) with (flat_map ddecl es). apply bndL_ok; auto.
  - (* EDecl *) change (bnd B (EDecl x e)) with (bnd (x :: B) e). change (ddecl (EDecl x e)) with (x :: ddecl e).
    destruct (IHe (x :: B) nm) as [H1 H2]. split.
    + intros. apply H1. right; auto.
    + intros [->|Hx]; auto. apply H1. left; auto.
  - (* EAssign *) apply IHe.
  - (* EIf *) change (bnd B (EIf e1 e2 e3)) with (bnd (bnd (bnd B e1) e2) e3).
    change (ddecl (EIf e1 e2 e3)) with (ddecl e1 ++ ddecl e2 ++ ddecl e3).
    destruct (IHe1 B nm) as [A1 A2]. destruct (IHe2 (bnd B e1) nm) as [B1 B2].
    destruct (IHe3 (bnd (bnd B e1) e2) nm) as [C1 C2]. split.
    + auto.
    + intros Hx. apply in_app_or in Hx. destruct Hx as [Hx|Hx]; auto.
      apply in_app_or in Hx. destruct Hx; auto.
  - (* EFor *) apply IHe1.
  - (* ESwitch *) apply IHe.
  - (* ETry *) apply IHe1.
  - (* EThrow *) apply IHe.
  - (* ECall *) rewrite bnd_call. change (ddecl (ECall e args)) with (ddecl e ++ flat_map ddecl args).
    destruct (bndL_ok args H (bnd B e) nm) as [I1 I2]. destruct (IHe B nm) as [H1 H2]. split.
    + auto.
    + intros Hx. apply in_app_or in Hx. destruct Hx; auto.
  - (* EChain *) rewrite bnd_chain.
    change (ddecl (EChain e ops)) with (ddecl e ++ flat_map (fun p => ddecl (fst p) ++ ddecl (snd p)) ops).
    destruct (bndOps_ok ops H (bnd B e) nm) as [I1 I2]. destruct (IHe B nm) as [H1 H2]. split.
    + auto.
    + intros Hx. apply in_app_or in Hx. destruct Hx; auto.
  - (* EList *) rewrite bnd_list. change (ddecl (EList es)) with (flat_map ddecl es). apply bndL_ok; auto.
Qed.

Lemma bnd_incl : forall e B x, In x B -> In x (bnd B e).
Proof. intros e B x H. destruct (bnd_spec e B x) as [H1 _]. auto. Qed.

Lemma bnd_ddecl : forall e B x, In x (ddecl e) -> In x (bnd B e).
Proof. intros e B x H. destruct (bnd_spec e B x) as [_ H2]. auto. Qed.
