(* Lang/FreezeRel.v - the relations of the preservation proof for `freeze` (property C17).

   Everything is relative to one freeze event: `cur0` is the frame in which `freeze` ran (and in
   which the frozen / original expression is evaluated later), `n0` the number of frames that exist
   when the evaluation under study starts (cur0 < n0; every frame created afterwards has id >= n0),
   `FV x` the value freeze found for x, `resl` the names freeze resolved.

     prot0         the protected cells: variables named like a resolved name, in pre-existing frames
     mutl          outer variables that may hold unrelated values in the two stores (see srel);
                   an identifier that is kept must not be one of them
     fzr P D B e e'  e' is e with some occurrences of identifiers x (P x, x not in B) replaced by
                   EFrozen (FV x), and some constant lists / negations folded; B is threaded exactly as
                   `freeze` threads its bound set; D over-approximates the names that the enclosing
                   scopes (inside the frozen expression) may declare.  The only side conditions are at
                   a lambda (no name that may be replaced in its body is declared by an enclosing
                   scope: `declared before captured`).  With P empty it relates every frozen-free expression to itself.
     vrel, srel    values / stores of the original run and of the frozen run
     cinv, chain_budget, agree   the invariants
   Definitions only. *)
From Coq Require Import ZArith String List Bool Arith Lia.
From NV Require Import Lang.FreezeLang Lang.Freeze Lang.FreezeSpec.
Import ListNotations.
Open Scope string_scope.
Open Scope list_scope.

Fixpoint noclos (v : val) : bool :=
  match v with
  | VClos _ _ _ _ => false
  | VList l => forallb noclos l
  | _ => true
  end.

Definition DU (D : name -> Prop) (l : list name) : name -> Prop := fun x => D x \/ In x l.

(* h is g or an ancestor of g *)
Inductive anc (fs : list frame) : nat -> nat -> Prop :=
| anc_refl g : anc fs g g
| anc_step g fr p h : nth_error fs g = Some fr -> parent fr = Some p -> p < g -> anc fs p h -> anc fs g h.

Definition budget_at (fs : list frame) (g : nat) : list name :=
  match nth_error fs g with Some fr => budget fr | None => [] end.

Section Rel.
  Variable n0 cur0 : nat.
  Variable FV : name -> option val.
  Variable resl : list name.
  (* the outer variables whose cells may differ arbitrarily between the two stores (reassigned
     between the freeze and the use of the frozen code); empty for plain preservation *)
  Variable mutl : list name.

  Definition prot0 : protection := fun g x => Nat.ltb g n0 && mem x resl.

  Implicit Types P D : name -> Prop.
  Implicit Types B : list name.

  Inductive fzr : (name -> Prop) -> (name -> Prop) -> list name -> expr -> expr -> Prop :=
  | FNull P D B : fzr P D B ENull ENull
  | FInt P D B z : fzr P D B (EInt z) (EInt z)
  | FStr P D B s : fzr P D B (EStr s) (EStr s)
  | FVarKeep P D B x : mem x mutl = false -> fzr P D B (EVar x) (EVar x)
  | FVarRepl P D B x v : P x -> mem x B = false -> FV x = Some v -> fzr P D B (EVar x) (EFrozen v)
  | FUnd P D B : fzr P D B EUnderscore EUnderscore
  | FFrozen P D B v : noclos v = true -> fzr P D B (EFrozen v) (EFrozen v)
  | FSeq P D B es es' : fzrL P D B es es' -> fzr P D B (ESeq es) (ESeq es')
  | FDecl P D B x e e' : fzr P D (x :: B) e e' -> fzr P D B (EDecl x e) (EDecl x e')
  | FAssign P D B x e e' : fzr P D B e e' -> fzr P D B (EAssign x e) (EAssign x e')
  | FIf P D B c c' t t' f f' :
      fzr P D B c c' -> fzr P D (bnd B c) t t' -> fzr P D (bnd (bnd B c) t) f f' ->
      fzr P D B (EIf c t f) (EIf c' t' f')
  | FWhile P D B c c' b b' :
      fzr P (DU D (while_budget c b)) B c c' -> fzr P (DU D (while_budget c b)) (bnd B c) b b' ->
      fzr P D B (EWhile c b) (EWhile c' b')
  | FFor P D B x e e' cls cls' y body body' :
      fzr P D B e e' ->
      fzrC P (DU D (for_budget x cls body)) (x :: bnd B e) cls cls' ->
      fzr P (DU D (for_budget x cls body)) (bndC (x :: bnd B e) cls) body body' ->
      fzr P D B (EFor x e cls y body) (EFor x e' cls' y body')
  | FSwitch P D B e e' arms arms' :
      fzr P D B e e' -> fzrArms P D (bnd B e) arms arms' -> fzr P D B (ESwitch e arms) (ESwitch e' arms')
  | FTry P D B b b' x h h' :
      fzr P D B b b' -> fzr P (DU D (catch_budget x h)) (x :: bnd B b) h h' ->
      fzr P D B (ETry b x h) (ETry b' x h')
  | FThrow P D B e e' : fzr P D B e e' -> fzr P D B (EThrow e) (EThrow e')
  | FLam P D B ps b b' (P' : name -> Prop) :
      (forall x, P' x -> P x) ->
      (forall x, P' x -> mem x (ps ++ B) = false -> ~ DU D (call_budget ps b) x) ->
      fzr P' (DU D (call_budget ps b)) (ps ++ B) b b' ->
      fzr P D B (ELam ps b) (ELam ps b')
  | FCall P D B f f' args args' :
      fzr P D B f f' -> fzrL P D (bnd B f) args args' -> fzr P D B (ECall f args) (ECall f' args')
  | FNegFold P D B f p a a' z :
      fzr P D B f (EFrozen (VPrim PSub p)) -> fzr P D (bnd B f) a a' -> constant_value a' = Some (VInt z) ->
      fzr P D B (ECall f [a]) (EFrozen (VInt (- z)))
  | FChain P D B a a' ops ops' :
      fzr P D B a a' -> fzrOps P D (bnd B a) ops ops' -> fzr P D B (EChain a ops) (EChain a' ops')
  | FList P D B es es' : fzrL P D B es es' -> fzr P D B (EList es) (EList es')
  | FListFold P D B es es' vs :
      fzrL P D B es es' -> constant_values es' = Some vs -> fzr P D B (EList es) (EFrozen (VList vs))
  | FImport P D B e e' : fzr P D B (EImport e) (EImport e')
  with fzrL : (name -> Prop) -> (name -> Prop) -> list name -> list expr -> list expr -> Prop :=
  | FLnil P D B : fzrL P D B [] []
  | FLcons P D B e e' r r' : fzr P D B e e' -> fzrL P D (bnd B e) r r' -> fzrL P D B (e :: r) (e' :: r')
  with fzrOps : (name -> Prop) -> (name -> Prop) -> list name -> list (expr * expr) -> list (expr * expr) -> Prop :=
  | FOnil P D B : fzrOps P D B [] []
  | FOcons P D B o o' d d' r r' :
      fzr P D B o o' -> fzr P D (bnd B o) d d' -> fzrOps P D (bnd (bnd B o) d) r r' ->
      fzrOps P D B ((o, d) :: r) ((o', d') :: r')
  with fzrC : (name -> Prop) -> (name -> Prop) -> list name -> list clause -> list clause -> Prop :=
  | FCnil P D B : fzrC P D B [] []
  | FCcons P D B k z e e' r r' :
      fzr P D B e e' ->
      fzrC P D (match k with KGuard => bnd B e | _ => z :: bnd B e end) r r' ->
      fzrC P D B ((k, z, e) :: r) ((k, z, e') :: r')
  with fzrArms : (name -> Prop) -> (name -> Prop) -> list name -> list (pat * expr) -> list (pat * expr) -> Prop :=
  | FAnil P D B : fzrArms P D B [] []
  | FAcons P D B p b b' r r' :
      fzr P (DU D (arm_budget p b)) (pat_names p ++ B) b b' -> fzrArms P D B r r' ->
      fzrArms P D B ((p, b) :: r) ((p, b') :: r').

  (* ------------------------------------------------------------ invariants on the original store *)
  (* every name that may be replaced resolves, from frame g, where it resolves from cur0 *)
  Definition cinv (P : name -> Prop) (B : list name) (fs : list frame) (g : nat) : Prop :=
    forall x, P x -> mem x B = false -> resolve fs g x = resolve fs cur0 x.

  (* the frames created since the start on the chain of g may only declare names of D *)
  Definition chain_budget (fs : list frame) (g : nat) (D : name -> Prop) : Prop :=
    forall h, anc fs g h -> n0 <= h -> forall x, In x (budget_at fs h) -> D x.

  Inductive vrel (fs : list frame) : val -> val -> Prop :=
  | VRNull : vrel fs VNull VNull
  | VRInt z : vrel fs (VInt z) (VInt z)
  | VRStr s : vrel fs (VStr s) (VStr s)
  | VRErr : vrel fs VErr VErr
  | VRPrim p z : vrel fs (VPrim p z) (VPrim p z)
  | VRList l l' : vrels fs l l' -> vrel fs (VList l) (VList l')
  | VRClos ps b b' fid prec (P D : name -> Prop) (B : list name) :
      fzr P (DU D (call_budget ps b)) (ps ++ B) b b' ->
      (forall x, P x -> mem x resl = true) ->
      (forall x, P x -> mem x (ps ++ B) = false -> ~ DU D (call_budget ps b) x) ->
      chain_budget fs fid D ->
      cinv P (ps ++ B) fs fid ->
      fid < length fs ->
      vrel fs (VClos ps b fid prec) (VClos ps b' fid prec)
  with vrels (fs : list frame) : list val -> list val -> Prop :=
  | VRnil : vrels fs [] []
  | VRcons v v' l l' : vrel fs v v' -> vrels fs l l' -> vrels fs (v :: l) (v' :: l').

  Definition vars_rel (fs : list frame) (l l' : list (name * val)) : Prop :=
    Forall2 (fun a a' => fst a = fst a' /\ (mem (fst a) mutl = true \/ vrel fs (snd a) (snd a'))) l l'.

  Definition frame_rel (fs : list frame) (fr fr' : frame) : Prop :=
    parent fr = parent fr' /\ vars_rel fs (vars fr) (vars fr').

  (* parents point downwards; the frozen run has the same shape *)
  Definition wf_frames (fs : list frame) : Prop :=
    forall g fr p, nth_error fs g = Some fr -> parent fr = Some p -> p < g.

  Record srel (st st' : state) : Prop := {
    sr_frames : Forall2 (frame_rel (frames st)) (frames st) (frames st');
    sr_out : out st = out st';
    sr_wf : wf_frames (frames st);
    sr_n0 : n0 <= length (frames st);
    sr_cur0 : cur0 < n0
  }.

  (* the resolved variables still hold (values related to) what freeze copied *)
  Definition agree (fs : list frame) : Prop :=
    forall x v0, mem x resl = true -> FV x = Some v0 ->
      exists v, lookup fs cur0 x = Some v /\ vrel fs v v0.

  (* ------------------------------------------------------------ how the original store may evolve *)
  (* during an evaluation at frame cur that may declare the names Dn there *)
  Record ext_at (fs fs1 : list frame) (cur : nat) (Dn : list name) : Prop := {
    ea_len : length fs <= length fs1;
    ea_old : forall g fr, nth_error fs g = Some fr ->
      exists fr1, nth_error fs1 g = Some fr1 /\ parent fr1 = parent fr /\ budget fr1 = budget fr /\
        (forall x, in_dom x fr = true -> in_dom x fr1 = true) /\
        (forall x, in_dom x fr1 = true -> in_dom x fr = true \/ (g = cur /\ In x Dn)) /\
        (forall x, prot0 g x = true -> in_dom x fr1 = in_dom x fr /\ assoc x (vars fr1) = assoc x (vars fr))
  }.

  (* the order under which the relations are monotone: frames are added, old frames keep parent and
     budget, gain names only within their budget (new frames) or unprotected ones (old frames),
     protected cells are untouched *)
  Record kext (fs fs1 : list frame) : Prop := {
    ke_len : length fs <= length fs1;
    ke_old : forall g fr, nth_error fs g = Some fr ->
      exists fr1, nth_error fs1 g = Some fr1 /\ parent fr1 = parent fr /\ budget fr1 = budget fr /\
        (forall x, in_dom x fr = true -> in_dom x fr1 = true) /\
        (forall x, in_dom x fr1 = true -> in_dom x fr = true \/ (n0 <= g /\ In x (budget fr)) \/ (g < n0 /\ mem x resl = false)) /\
        (forall x, prot0 g x = true -> in_dom x fr1 = in_dom x fr /\ assoc x (vars fr1) = assoc x (vars fr))
  }.

  (* ------------------------------------------------------------ results *)
  Definition abn {A} (r : res A) : Prop := r = OutOfFuel \/ r = Sig STrap.

  Definition rres {A} (RA : list frame -> A -> A -> Prop) (fs : list frame) (r r' : res A) : Prop :=
    match r, r' with
    | Val a, Val a' => RA fs a a'
    | Sig (SThrow v), Sig (SThrow v') => vrel fs v v'
    | Sig SUnsupp, Sig SUnsupp => True
    | _, _ => False
    end.

  (* what one evaluation at frame cur, allowed to declare Dn there, establishes *)
  Definition post {A} (RA : list frame -> A -> A -> Prop) (st : state) (cur : nat) (Dn : list name)
             (r r' : result A) : Prop :=
    abn (snd r) \/
    (ext_at (frames st) (frames (fst r)) cur Dn /\ kext (frames st) (frames (fst r)) /\
     srel (fst r) (fst r') /\ agree (frames (fst r)) /\ rres RA (frames (fst r)) (snd r) (snd r')).

  Definition evalfn := state -> nat -> expr -> result val.

  (* the simulation statement for one pair of evaluators (the same one, at the same fuel) *)
  Definition sim_at (ev ev' : evalfn) : Prop :=
    forall P D B e e' st st' cur,
      fzr P D B e e' -> (forall x, P x -> mem x resl = true) ->
      srel st st' -> agree (frames st) ->
      cinv P B (frames st) cur -> chain_budget (frames st) cur D ->
      cur < length (frames st) -> (n0 <= cur -> incl (ddecl e) (budget_at (frames st) cur)) ->
      post vrel st cur (ddecl e) (ev st cur e) (ev' st' cur e').
End Rel.
