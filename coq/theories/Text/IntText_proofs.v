(* C16 - decimal text of integers: num-bigint's FromStr inverts Display; i32::from_str on digit texts. *)
From Coq Require Import ZArith NArith List Bool Lia.
From NV Require Import Common.Outcome Text.CodecChars Text.CodecChars_proofs Text.IntText Text.CodecSpec
  Text.Radix_proofs.
Import ListNotations.
Open Scope Z_scope.
Ltac Zify.zify_post_hook ::= Z.div_mod_to_equations.

Lemma digit_char_facts d : 0 <= d < 10 ->
  (digit_char d =? c_under)%N = false /\ (digit_char d =? c_plus)%N = false /\
  (digit_char d =? c_minus)%N = false /\ alnum_value (digit_char d) = Some d.
Proof.
  intros H. pose proof (digit_char_10 d H) as E.
  unfold c_under, c_plus, c_minus. repeat split; try (apply N.eqb_neq; lia).
  pose proof (to_digit_digit_char d 10 H ltac:(lia)) as T. unfold to_digit in T.
  destruct (alnum_value (digit_char d)) as [x|]; [|discriminate].
  destruct (x <? 10); inversion T; reflexivity.
Qed.

Lemma big_collect_digits ds : digits_ok 10 ds -> big_collect 10 (map digit_char ds) = Some ds.
Proof.
  intros H. induction H as [|d r Hd Hr IH]; [reflexivity|].
  destruct (digit_char_facts d Hd) as (Eu & _ & _ & Ea).
  cbn [map big_collect]. unfold big_byte. rewrite Eu, Ea.
  destruct (Z.ltb_spec d 10); [|lia]. rewrite IH. reflexivity.
Qed.

Lemma parse_biguint_digits ds : ds <> [] -> digits_ok 10 ds ->
  parse_biguint 10 (map digit_char ds) = Some (eval_be 10 ds).
Proof.
  intros Hne H. destruct ds as [|d r]; [contradiction|].
  pose proof (big_collect_digits (d :: r) H) as Hc.
  inversion H as [|? ? Hd Hr]; subst.
  destruct (digit_char_facts d Hd) as (Eu & Ep & _ & _).
  unfold parse_biguint. cbn [map]. rewrite Ep. cbn [andb]. rewrite Eu.
  cbn [map] in Hc. rewrite Hc. reflexivity.
Qed.

Lemma starts_with_digit c ds : (c = c_plus \/ c = c_minus) -> digits_ok 10 ds ->
  starts_with c (map digit_char ds) = false.
Proof.
  intros Hc H. destruct H as [|d r Hd Hr]; [reflexivity|].
  destruct (digit_char_facts d Hd) as (_ & Ep & Em & _).
  cbn [map starts_with]. destruct Hc; subst; assumption.
Qed.

Lemma parse_bigint_signed s ds : ds <> [] -> digits_ok 10 ds ->
  parse_bigint 10 (sign_text s ++ map digit_char ds) = Some (sign_z s (eval_be 10 ds)).
Proof.
  intros Hne H. pose proof (parse_biguint_digits ds Hne H) as Hu.
  destruct s; cbn [sign_text app sign_z].
  - destruct ds as [|d r]; [contradiction|]. inversion H as [|? ? Hd Hr]; subst.
    destruct (digit_char_facts d Hd) as (_ & _ & Em & _).
    unfold parse_bigint. cbn [map]. rewrite Em. exact Hu.
  - unfold parse_bigint. change (plus_sign =? c_minus)%N with false. cbv iota.
    unfold parse_biguint at 1. change (plus_sign =? c_plus)%N with true.
    rewrite (starts_with_digit c_plus ds) by (auto). cbn [andb negb].
    unfold parse_biguint in Hu. destruct ds as [|d r]; [contradiction|].
    inversion H as [|? ? Hd Hr]; subst. destruct (digit_char_facts d Hd) as (_ & Ep & _ & _).
    cbn [map] in Hu |- *. rewrite Ep in Hu. cbn [andb] in Hu. exact Hu.
  - unfold parse_bigint. change (minus_sign =? c_minus)%N with true. cbv iota.
    rewrite (starts_with_digit c_plus ds) by (auto). rewrite Hu. reflexivity.
Qed.

(* ---- Display then FromStr ---- *)
Lemma show_nat_parse n : 0 <= n ->
  exists ds, ds <> [] /\ digits_ok 10 ds /\ eval_be 10 ds = n /\ show_nat n = map digit_char ds.
Proof.
  intros Hn. exists (digits_be 10 n).
  destruct (digits_be_spec 10 n ltac:(lia) Hn) as (He & Hf & Hne & _).
  repeat split; assumption.
Qed.

Theorem int_str_roundtrip : forall n : Z, int_of_str (show_int n) = Ok n.
Proof.
  intros n. unfold int_of_str, show_int. destruct (Z.ltb_spec n 0) as [Hneg|Hpos].
  - destruct (show_nat_parse (- n) ltac:(lia)) as (ds & Hne & Hd & He & ->).
    change (c_minus :: map digit_char ds) with (sign_text SMinus ++ map digit_char ds).
    rewrite parse_bigint_signed by assumption. cbn [sign_z]. rewrite He. f_equal. lia.
  - destruct (show_nat_parse n Hpos) as (ds & Hne & Hd & He & ->).
    change (map digit_char ds) with (sign_text SNone ++ map digit_char ds).
    rewrite parse_bigint_signed by assumption. cbn [sign_z]. rewrite He. reflexivity.
Qed.

Theorem number_str_roundtrip : forall (F : Type) (parse_f64 : str -> option F) (n : Z),
  number_of_str F parse_f64 (show_int n) = Ok (inl n).
Proof.
  intros F pf n. pose proof (int_str_roundtrip n) as H. unfold int_of_str in H. unfold number_of_str.
  destruct (parse_bigint 10 (show_int n)) as [z|]; inversion H; reflexivity.
Qed.

(* Display is sign and canonical decimal digits *)
Theorem show_int_positional : forall n : Z,
  exists ds, canonical_digits 10 ds /\ pos_value 10 ds = Z.abs n /\
             show_int n = signed_text n (map digit_symbol ds).
Proof.
  intros n. exists (digits_be 10 (Z.abs n)).
  destruct (digits_be_canonical 10 (Z.abs n) ltac:(lia) ltac:(lia)) as (Hc & Hv).
  split; [exact Hc|]. split; [exact Hv|].
  rewrite (map_digit_symbol 10) by (try lia; apply Hc).
  unfold show_int, signed_text, show_nat, minus_sign, c_minus.
  destruct (Z.ltb_spec n 0).
  - rewrite Z.abs_neq by lia. reflexivity.
  - rewrite Z.abs_eq by lia. reflexivity.
Qed.

(* every text with an optional sign and at least one digit (leading zeros allowed) reads as its value *)
Theorem int_of_str_exact : forall s ds, ds <> [] -> digits_ok 10 ds ->
  int_of_str (sign_text s ++ map digit_symbol ds) = Ok (sign_z s (pos_value 10 ds)).
Proof.
  intros s ds Hne Hd. unfold int_of_str. rewrite (map_digit_symbol 10) by (try lia; exact Hd).
  rewrite parse_bigint_signed by assumption. rewrite pos_value_eval_be. reflexivity.
Qed.

(* ---- i32::from_str on digit texts ---- *)
Definition horner10 (x d : Z) : Z := 10 * x + d.
Definition hornerneg (x d : Z) : Z := 10 * x - d.

Lemma fold_horner_ge ds : digits_ok 10 ds -> forall x, 0 <= x -> x <= fold_left horner10 ds x.
Proof.
  intros H. induction H as [|d r Hd Hr IH]; intros x Hx; cbn [fold_left]; [lia|].
  specialize (IH (horner10 x d)). unfold horner10 in *. lia.
Qed.

Lemma fold_hornerneg ds : forall x, fold_left hornerneg ds (- x) = - fold_left horner10 ds x.
Proof.
  induction ds as [|d r IH]; intro x; cbn [fold_left]; [reflexivity|].
  unfold hornerneg at 2, horner10 at 2. replace (10 * - x - d) with (- (10 * x + d)) by lia. apply IH.
Qed.

Lemma chk_i32_in z : i32_min <= z <= i32_max -> chk_i32 z = Some z.
Proof.
  intros H. unfold chk_i32, in_i32b.
  assert (E : (i32_min <=? z) && (z <=? i32_max) = true) by (apply andb_true_iff; split; apply Z.leb_le; lia).
  rewrite E. reflexivity.
Qed.
Lemma chk_i32_out z : ~ i32_min <= z <= i32_max -> chk_i32 z = None.
Proof.
  intros H. unfold chk_i32, in_i32b.
  destruct (Z.leb_spec i32_min z); destruct (Z.leb_spec z i32_max); cbn; try reflexivity. lia.
Qed.

Lemma to_digit10 d : 0 <= d < 10 -> to_digit (digit_char d) 10 = Some d.
Proof. intros. apply to_digit_digit_char; lia. Qed.

Lemma i32_loop_pos ds : digits_ok 10 ds -> forall acc, 0 <= acc ->
  fold_left horner10 ds acc <= i32_max ->
  i32_loop true acc (map digit_char ds) = Some (fold_left horner10 ds acc).
Proof.
  intros H. induction H as [|d r Hd Hr IH]; intros acc Ha Hf; [reflexivity|].
  cbn [map i32_loop fold_left] in *. rewrite to_digit10 by exact Hd.
  pose proof (fold_horner_ge r Hr (horner10 acc d) ltac:(unfold horner10; lia)) as Hge.
  unfold horner10 in Hge at 1. unfold i32_min, i32_max in *.
  rewrite chk_i32_in by (unfold i32_min, i32_max; lia).
  rewrite chk_i32_in by (unfold i32_min, i32_max; lia).
  replace (acc * 10 + d) with (horner10 acc d) by (unfold horner10; lia).
  apply IH; [unfold horner10; lia | exact Hf].
Qed.

Lemma i32_loop_pos_overflow ds : digits_ok 10 ds -> forall acc, 0 <= acc <= i32_max ->
  i32_max < fold_left horner10 ds acc -> i32_loop true acc (map digit_char ds) = None.
Proof.
  intros H. induction H as [|d r Hd Hr IH]; intros acc Ha Hf.
  - cbn [fold_left] in Hf. lia.
  - cbn [map i32_loop fold_left] in *. rewrite to_digit10 by exact Hd.
    destruct (Z_le_dec (acc * 10) i32_max) as [Hm|Hm].
    + rewrite chk_i32_in by (unfold i32_min, i32_max in *; lia).
      destruct (Z_le_dec (acc * 10 + d) i32_max) as [Hs|Hs].
      * rewrite chk_i32_in by (unfold i32_min, i32_max in *; lia).
        apply IH; [lia|]. replace (acc * 10 + d) with (horner10 acc d) by (unfold horner10; lia). exact Hf.
      * rewrite chk_i32_out by lia. reflexivity.
    + rewrite chk_i32_out by lia. reflexivity.
Qed.

Lemma i32_loop_neg ds : digits_ok 10 ds -> forall acc, acc <= 0 ->
  i32_min <= fold_left hornerneg ds acc ->
  i32_loop false acc (map digit_char ds) = Some (fold_left hornerneg ds acc).
Proof.
  intros H. induction H as [|d r Hd Hr IH]; intros acc Ha Hf; [reflexivity|].
  cbn [map i32_loop fold_left] in *. rewrite to_digit10 by exact Hd.
  assert (Hle : fold_left hornerneg r (hornerneg acc d) <= hornerneg acc d).
  { pose proof (fold_hornerneg r (- hornerneg acc d)) as E. rewrite Z.opp_involutive in E. rewrite E.
    pose proof (fold_horner_ge r Hr (- hornerneg acc d) ltac:(unfold hornerneg; lia)). lia. }
  unfold hornerneg in Hle at 3.
  rewrite chk_i32_in by (unfold i32_min, i32_max in *; lia).
  rewrite chk_i32_in by (unfold i32_min, i32_max in *; lia).
  replace (acc * 10 - d) with (hornerneg acc d) by (unfold hornerneg; lia).
  apply IH; [unfold hornerneg; lia | exact Hf].
Qed.

Lemma i32_loop_neg_overflow ds : digits_ok 10 ds -> forall acc, i32_min <= acc <= 0 ->
  fold_left hornerneg ds acc < i32_min -> i32_loop false acc (map digit_char ds) = None.
Proof.
  intros H. induction H as [|d r Hd Hr IH]; intros acc Ha Hf.
  - cbn [fold_left] in Hf. lia.
  - cbn [map i32_loop fold_left] in *. rewrite to_digit10 by exact Hd.
    destruct (Z_le_dec i32_min (acc * 10)) as [Hm|Hm].
    + rewrite chk_i32_in by (unfold i32_min, i32_max in *; lia).
      destruct (Z_le_dec i32_min (acc * 10 - d)) as [Hs|Hs].
      * rewrite chk_i32_in by (unfold i32_min, i32_max in *; lia).
        apply IH; [lia|]. replace (acc * 10 - d) with (hornerneg acc d) by (unfold hornerneg; lia). exact Hf.
      * rewrite chk_i32_out by lia. reflexivity.
    + rewrite chk_i32_out by lia. reflexivity.
Qed.

Lemma fold_horner10_eval ds : fold_left horner10 ds 0 = eval_be 10 ds.
Proof. reflexivity. Qed.

Lemma parse_i32_unfold_sign c ds : ds <> [] -> (c = c_plus \/ c = c_minus) ->
  parse_i32 (c :: map digit_char ds) =
  i32_loop (if (c =? c_plus)%N then true else false) 0 (map digit_char ds).
Proof.
  intros Hne Hc. destruct ds as [|d r]; [contradiction|]. cbn [map]. unfold parse_i32.
  destruct Hc; subst; reflexivity.
Qed.

Lemma parse_i32_unfold_nosign ds : ds <> [] -> digits_ok 10 ds ->
  parse_i32 (map digit_char ds) = i32_loop true 0 (map digit_char ds).
Proof.
  intros Hne H. destruct ds as [|d r]; [contradiction|]. inversion H as [|? ? Hd Hr]; subst.
  destruct (digit_char_facts d Hd) as (_ & Ep & Em & _).
  cbn [map]. unfold parse_i32. rewrite Ep, Em. cbn [orb]. destruct (map digit_char r); reflexivity.
Qed.

(* i32::from_str of an optional sign and digits: the value if it fits, an error otherwise *)
Lemma i32_loop_pos0 ds : digits_ok 10 ds ->
  i32_loop true 0 (map digit_char ds) = if eval_be 10 ds <=? i32_max then Some (eval_be 10 ds) else None.
Proof.
  intros H. destruct (Z.leb_spec (eval_be 10 ds) i32_max) as [Hin|Hout].
  - rewrite <- fold_horner10_eval. apply i32_loop_pos; [exact H | lia | exact Hin].
  - apply i32_loop_pos_overflow; [exact H | unfold i32_max; lia | exact Hout].
Qed.

Lemma i32_loop_neg0 ds : digits_ok 10 ds ->
  i32_loop false 0 (map digit_char ds) = if i32_min <=? - eval_be 10 ds then Some (- eval_be 10 ds) else None.
Proof.
  intros H. pose proof (fold_hornerneg ds 0) as E. cbn [Z.opp] in E. rewrite fold_horner10_eval in E.
  destruct (Z.leb_spec i32_min (- eval_be 10 ds)) as [Hin|Hout].
  - rewrite <- E. apply i32_loop_neg; [exact H | lia | rewrite E; exact Hin].
  - apply i32_loop_neg_overflow; [exact H | unfold i32_min; lia | rewrite E; exact Hout].
Qed.

Lemma parse_i32_signed s ds : ds <> [] -> digits_ok 10 ds ->
  parse_i32 (sign_text s ++ map digit_char ds) = chk_i32 (sign_z s (eval_be 10 ds)).
Proof.
  intros Hne H. set (v := eval_be 10 ds).
  assert (Hv : 0 <= v).
  { unfold v. rewrite <- fold_horner10_eval. apply (fold_horner_ge ds H 0). lia. }
  destruct s; cbn [sign_text app sign_z].
  - rewrite parse_i32_unfold_nosign by assumption. rewrite i32_loop_pos0 by exact H. fold v.
    destruct (Z.leb_spec v i32_max).
    + rewrite chk_i32_in by (unfold i32_min in *; lia). reflexivity.
    + rewrite chk_i32_out by lia. reflexivity.
  - rewrite parse_i32_unfold_sign by (auto). change (plus_sign =? c_plus)%N with true. cbv iota.
    rewrite i32_loop_pos0 by exact H. fold v.
    destruct (Z.leb_spec v i32_max).
    + rewrite chk_i32_in by (unfold i32_min in *; lia). reflexivity.
    + rewrite chk_i32_out by lia. reflexivity.
  - rewrite parse_i32_unfold_sign by (auto). change (minus_sign =? c_plus)%N with false. cbv iota.
    rewrite i32_loop_neg0 by exact H. fold v.
    destruct (Z.leb_spec i32_min (- v)).
    + rewrite chk_i32_in by (unfold i32_max in *; lia). reflexivity.
    + rewrite chk_i32_out by lia. reflexivity.
Qed.

(* ---- '_' separators ---- *)
Lemma big_collect_repeat_under k rest : big_collect 10 (repeat 95%N k ++ rest) = big_collect 10 rest.
Proof. induction k as [|k IH]; [reflexivity|]. cbn [repeat app big_collect]. exact IH. Qed.

Lemma big_collect_underscored ds : digits_ok 10 ds -> forall us, big_collect 10 (underscored ds us) = Some ds.
Proof.
  intros H. induction H as [|d r Hd Hr IH]; intros us; [reflexivity|].
  cbn [underscored]. rewrite digit_symbol_char by lia.
  destruct (digit_char_facts d Hd) as (Eu & _ & _ & Ea).
  cbn [big_collect]. unfold big_byte. rewrite Eu, Ea. destruct (Z.ltb_spec d 10); [|lia].
  rewrite big_collect_repeat_under, IH. reflexivity.
Qed.

Lemma parse_bigint_body s d tail ds : 0 <= d < 10 -> big_collect 10 (digit_char d :: tail) = Some ds ->
  parse_bigint 10 (sign_text s ++ digit_char d :: tail) = Some (sign_z s (eval_be 10 ds)).
Proof.
  intros Hd Hc. destruct (digit_char_facts d Hd) as (Eu & Ep & Em & _).
  assert (Hu : parse_biguint 10 (digit_char d :: tail) = Some (eval_be 10 ds)).
  { unfold parse_biguint. rewrite Ep. cbn [andb]. rewrite Eu, Hc. reflexivity. }
  destruct s; cbn [sign_text app sign_z].
  - unfold parse_bigint. rewrite Em. exact Hu.
  - unfold parse_bigint. change (plus_sign =? c_minus)%N with false. cbv iota.
    unfold parse_biguint at 1. change (plus_sign =? c_plus)%N with true.
    cbn [starts_with]. rewrite Ep. cbn [andb negb].
    unfold parse_biguint in Hu. rewrite Ep in Hu. cbn [andb] in Hu. exact Hu.
  - unfold parse_bigint. change (minus_sign =? c_minus)%N with true. cbv iota.
    cbn [starts_with]. rewrite Ep. rewrite Hu. reflexivity.
Qed.

(* int("1_000") = 1000: separators after any digit are ignored *)
Theorem int_of_str_underscores : forall s ds us, ds <> [] -> digits_ok 10 ds ->
  int_of_str (sign_text s ++ underscored ds us) = Ok (sign_z s (pos_value 10 ds)).
Proof.
  intros s ds us Hne Hd. pose proof (big_collect_underscored ds Hd us) as Hc.
  destruct ds as [|d r]; [contradiction|]. inversion Hd as [|? ? Hd0 Hr]; subst.
  cbn [underscored] in *. rewrite digit_symbol_char in * by lia.
  unfold int_of_str. rewrite (parse_bigint_body s d _ (d :: r) Hd0 Hc).
  rewrite pos_value_eval_be. reflexivity.
Qed.

(* but a leading separator, a doubled sign or any other character is an error *)
Example int_of_str_rejects :
  int_of_str [95; 49]%N = Err EValue /\ int_of_str [45; 95; 49]%N = Err EValue /\
  int_of_str [45; 43; 49]%N = Err EValue /\ int_of_str [32; 49]%N = Err EValue /\
  int_of_str [] = Err EValue /\ int_of_str [45]%N = Err EValue /\ int_of_str [49; 46; 48]%N = Err EValue.
Proof. repeat split; reflexivity. Qed.
