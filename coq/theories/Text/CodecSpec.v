(* C16 - what the property says, stated without the model's functions:
   positional notation with explicit powers, the digit alphabet as a table, decimal /
   scientific / fraction texts as records of (sign, digits, fraction digits, exponent) with the
   rational number they spell.  Definitions only. *)
From Coq Require Import ZArith NArith QArith List Bool.
Import ListNotations.
Open Scope Z_scope.

(* value of big-endian digits d_{k-1} ... d_0 in base b: sum d_i * b^i *)
Fixpoint pos_value (b : Z) (ds : list Z) : Z :=
  match ds with
  | [] => 0
  | d :: r => d * b ^ Z.of_nat (length r) + pos_value b r
  end.
Definition digits_ok (b : Z) (ds : list Z) : Prop := Forall (fun d => 0 <= d < b) ds.
(* the unique digit string of a number: no leading zero, "0" for zero *)
Definition canonical_digits (b : Z) (ds : list Z) : Prop :=
  ds <> [] /\ digits_ok b ds /\ (hd 0 ds = 0 -> ds = [0]).

(* "0123456789abcdefghijklmnopqrstuvwxyz" and its upper-case form, as code points *)
Definition alphabet : list N :=
  [48; 49; 50; 51; 52; 53; 54; 55; 56; 57; 97; 98; 99; 100; 101; 102; 103; 104; 105; 106; 107; 108; 109;
   110; 111; 112; 113; 114; 115; 116; 117; 118; 119; 120; 121; 122]%N.
Definition alphabet_upper : list N :=
  [48; 49; 50; 51; 52; 53; 54; 55; 56; 57; 65; 66; 67; 68; 69; 70; 71; 72; 73; 74; 75; 76; 77;
   78; 79; 80; 81; 82; 83; 84; 85; 86; 87; 88; 89; 90]%N.
Definition digit_symbol (d : Z) : N := nth (Z.to_nat d) alphabet 0%N.
Definition digit_symbol_upper (d : Z) : N := nth (Z.to_nat d) alphabet_upper 0%N.

Definition minus_sign : N := 45.
Definition plus_sign : N := 43.

(* sign and magnitude rendering of an integer in base b, given the digits of |n| *)
Definition signed_text (n : Z) (digits : list N) : list N :=
  if n <? 0 then minus_sign :: digits else digits.

(* digits with visual separators: each digit may be followed by any number of '_' (num-bigint accepts
   "1_000", "1__0_"; the first character must be a digit) *)
Fixpoint underscored (ds : list Z) (us : list nat) : list N :=
  match ds with
  | [] => []
  | d :: r => digit_symbol d :: repeat 95%N (hd O us) ++ underscored r (tl us)
  end.

(* ---- decimal / scientific texts ---- *)
Inductive sign := SNone | SPlus | SMinus.
Definition sign_text (s : sign) : list N :=
  match s with SNone => [] | SPlus => [plus_sign] | SMinus => [minus_sign] end.
Definition sign_z (s : sign) (z : Z) : Z := match s with SMinus => - z | _ => z end.

Record dec := {
  d_sign : sign;
  d_int : list Z;                              (* digits before the point (may be empty if there is a fraction) *)
  d_frac : option (list Z);                    (* None: no point; Some fs: "." followed by fs (may be empty) *)
  d_exp : option (bool * sign * list Z)        (* None: no exponent; Some (upper, sign, digits): e/E, sign, digits *)
}.

Definition frac_digits (d : dec) : list Z := match d_frac d with Some f => f | None => [] end.
Definition exp_value (d : dec) : Z :=
  match d_exp d with Some (_, s, ds) => sign_z s (pos_value 10 ds) | None => 0 end.

Definition render_dec (d : dec) : list N :=
  sign_text (d_sign d) ++ map digit_symbol (d_int d) ++
  (match d_frac d with Some f => 46%N :: map digit_symbol f | None => [] end) ++
  (match d_exp d with
   | Some (up, s, ds) => (if up then 69%N else 101%N) :: sign_text s ++ map digit_symbol ds
   | None => []
   end).

Definition wf_dec (d : dec) : Prop :=
  digits_ok 10 (d_int d) /\ digits_ok 10 (frac_digits d) /\
  (d_int d = [] -> frac_digits d <> []) /\
  (match d_exp d with Some (_, _, ds) => ds <> [] /\ digits_ok 10 ds | None => True end).

(* 10^e as a rational, any integer e *)
Definition pow10 (e : Z) : Q := if 0 <=? e then inject_Z (10 ^ e) else Qinv (inject_Z (10 ^ (- e))).

(* the number the text spells: sign * (all digits read as one integer) * 10^(exponent - #fraction digits) *)
Definition dec_mantissa (d : dec) : Z := sign_z (d_sign d) (pos_value 10 (d_int d ++ frac_digits d)).
Definition dec_scale (d : dec) : Z := exp_value d - Z.of_nat (length (frac_digits d)).
Definition dec_value (d : dec) : Q := (inject_Z (dec_mantissa d) * pow10 (dec_scale d))%Q.

(* the exponent arithmetic of the implementation is 32-bit *)
Definition i32_ok (z : Z) : Prop := - 2 ^ 31 <= z <= 2 ^ 31 - 1.
Definition exp_fits (d : dec) : Prop :=
  i32_ok (exp_value d) /\ i32_ok (Z.of_nat (length (frac_digits d))) /\ i32_ok (dec_scale d).

Definition all_ws (is_ws : N -> bool) (l : list N) : Prop := forallb is_ws l = true.

(* ---- UTF-8 (Unicode 3.9, table 3-6) on a scalar value, as bit fields ---- *)
Definition scalar (c : N) : Prop := (c < 55296 \/ 57343 < c)%N /\ (c <= 1114111)%N.
