(* C16 - src/decimal.rs: apply_exp10, parse_decimal_exactly, parse_rational_exactly.
   Ratio<BigInt> is Coq's Q kept reduced (Qred); Ratio::new and Ratio division panic on a zero
   denominator, which the model keeps as the outcome Panic.  Option::None is Err EValue (what
   call_type1 turns it into).  Transcribes the tree after the F18 repair (the sign is split
   off before the digits are read and applied to the whole value) and after the exponent-overflow
   repair (i32::try_from / checked_sub / unsigned_abs instead of `as i32`, `-`, `-exponent`).
   Definitions only. *)
From Coq Require Import ZArith NArith QArith List Bool.
From NV Require Import Common.Outcome Text.CodecChars Text.IntText.
Import ListNotations.
Open Scope Z_scope.

(* Ratio::new(numer, denom) *)
Definition ratio_new (n d : Z) : outcome Q :=
  if d =? 0 then Panic else Ok (Qred (Qdiv (inject_Z n) (inject_Z d))).
(* Ratio / Ratio *)
Definition ratio_div (a b : Q) : outcome Q :=
  if Qnum b =? 0 then Panic else Ok (Qred (Qdiv a b)).
Definition ratio_is_zero (a : Q) : bool := Qnum a =? 0.

Definition apply_exp10 (base exponent : Z) : outcome Q :=
  if 0 <=? exponent then Ok (inject_Z (base * 10 ^ exponent))
  else ratio_new base (10 ^ (- exponent)).                 (* exponent.unsigned_abs() *)

Definition is_e (c : N) : bool := ((c =? c_e) || (c =? c_E))%N.
Definition is_dot (c : N) : bool := (c =? c_dot)%N.
Definition is_slash (c : N) : bool := (c =? c_slash)%N.
Definition is_sign (c : N) : bool := ((c =? c_plus) || (c =? c_minus))%N.
Definition is_nil {A} (l : list A) : bool := match l with [] => true | _ => false end.

(* strip_prefix('-') / strip_prefix('+') *)
Definition strip_sign (s : str) : bool * str :=
  match s with
  | c :: t => if (c =? c_minus)%N then (true, t) else if (c =? c_plus)%N then (false, t) else (false, s)
  | [] => (false, [])
  end.
Definition starts_with_sign (s : str) : bool :=
  match s with c :: _ => is_sign c | [] => false end.

Definition opt_out {A} (o : option A) : outcome A :=
  match o with Some a => Ok a | None => Err EValue end.

Definition parse_decimal_exactly (s : str) : outcome Q :=
  (* scientific notation *)
  be <- match split_on is_e s with
        | Some (base_part, exp_part) => e <- opt_out (parse_i32 exp_part) ;; Ok (base_part, e)
        | None => Ok (s, 0)
        end ;;
  let '(base_str, exponent) := be in
  (* decimal point *)
  match split_on is_dot base_str with
  | Some (integer_part, fractional_part) =>
    let '(negative, integer_part) := strip_sign integer_part in
    if starts_with_sign integer_part then Err EValue
    else if is_nil integer_part && is_nil fractional_part then Err EValue
    else if negb (all_chars is_ascii_digit fractional_part) then Err EValue
    else
      integer_digits <- (if is_nil integer_part then Ok 0 else opt_out (parse_bigint 10 integer_part)) ;;
      fractional_digits <- (if is_nil fractional_part then Ok 0 else opt_out (parse_bigint 10 fractional_part)) ;;
      let decimal_places := Z.of_nat (length fractional_part) in
      shift <- opt_out (chk_i32 decimal_places) ;;                 (* i32::try_from(decimal_places).ok()? *)
      e <- opt_out (chk_i32 (exponent - shift)) ;;                 (* exponent.checked_sub(shift)? *)
      let base_value := integer_digits * 10 ^ decimal_places + fractional_digits in
      apply_exp10 (if negative then - base_value else base_value) e
  | None =>
    b <- opt_out (parse_bigint 10 base_str) ;; apply_exp10 b exponent
  end.

Definition parse_rational_exactly (s : str) : outcome Q :=
  let s := trim s in
  match split_on is_slash s with
  | Some (numerator_str, denominator_str) =>
    numerator <- parse_decimal_exactly (trim numerator_str) ;;
    denominator <- parse_decimal_exactly (trim denominator_str) ;;
    if ratio_is_zero denominator then Err EValue else ratio_div numerator denominator
  | None => parse_decimal_exactly s
  end.

(* "-1.5", "-0.5", " 3/4 ", "1.5e2", "2e-1", ".", "1/0" *)
Example parse_rational_ex :
  parse_rational_exactly [45; 49; 46; 53]%N = Ok (-3 # 2)%Q /\
  parse_rational_exactly [45; 48; 46; 53]%N = Ok (-1 # 2)%Q /\
  parse_rational_exactly [32; 51; 47; 52; 32]%N = Ok (3 # 4)%Q /\
  parse_rational_exactly [49; 46; 53; 101; 50]%N = Ok (150 # 1)%Q /\
  parse_rational_exactly [50; 69; 45; 49]%N = Ok (1 # 5)%Q /\
  parse_rational_exactly [46]%N = Err EValue /\
  parse_rational_exactly [49; 47; 48]%N = Err EValue.
Proof. repeat split; vm_compute; reflexivity. Qed.
