(* C16 - how an integer is printed: Display / Binary / Octal / LowerHex / UpperHex of NInt
   (src/nint.rs ~81-97) as used by `str`, `$`, `print` and format strings (core.rs ~1264), and
   the padding done by MyDisplay for NNum.
   NInt is Small(i64) | Big(BigInt).  Rust's i64 prints the 64-bit two's-complement pattern in
   bases 2/8/16 and sign+magnitude in base 10; BigInt prints sign+magnitude in every base.
   Transcribes the tree after the F19 repair: a negative Small value is printed through BigInt
   in bases 2/8/16.  Definitions only. *)
From Coq Require Import ZArith NArith List Bool.
From NV Require Import Common.Outcome Common.MachineInt Text.CodecChars Text.IntText.
Import ListNotations.
Open Scope Z_scope.

Inductive nint := Small (n : Z) | Big (n : Z).
Definition nint_val (x : nint) : Z := match x with Small n => n | Big n => n end.
Definition nint_ok (x : nint) : Prop := match x with Small n => in_i64 n | Big _ => True end.
(* NInt::from(BigInt): the normalising constructor *)
Definition nint_of_bigint (z : Z) : nint := if in_i64b z then Small z else Big z.

Inductive fmt_base := Decimal | Binary | Octal | LowerHex | UpperHex.
Definition base_of (f : fmt_base) : Z :=
  match f with Decimal => 10 | Binary => 2 | Octal => 8 | LowerHex | UpperHex => 16 end.
Definition digit_of (f : fmt_base) (d : Z) : N :=
  match f with UpperHex => digit_char_upper d | _ => digit_char d end.

(* digits of a non-negative value, "0" for zero *)
Definition fmt_mag (f : fmt_base) (m : Z) : str := map (digit_of f) (digits_be (base_of f) m).
(* num-bigint: sign, then the magnitude in the base *)
Definition fmt_bigint (f : fmt_base) (z : Z) : str :=
  if z <? 0 then c_minus :: fmt_mag f (- z) else fmt_mag f z.
(* core::fmt for i64: Display is sign+magnitude; the radix impls print `self as u64` *)
Definition fmt_i64 (f : fmt_base) (n : Z) : str :=
  match f with
  | Decimal => if n <? 0 then c_minus :: fmt_mag f (- n) else fmt_mag f n
  | _ => fmt_mag f (as_usize n)
  end.

Definition fmt_nint (f : fmt_base) (x : nint) : str :=
  match x with
  | Small n =>
    match f with
    | Decimal => fmt_i64 f n
    | _ => if n <? 0 then fmt_bigint f n else fmt_i64 f n        (* F19 repair *)
    end
  | Big n => fmt_bigint f n
  end.

(* MyDisplay for NNum: pad to pad_length counted in bytes (= chars here: the text is ASCII) *)
Inductive align := ALeft | ARight | ACenter.
Definition pad_str (pad : N) (pad_length : nat) (al : align) (s : str) : str :=
  let pad_amt := (pad_length - length s)%nat in
  let '(l, r) := match al with
                 | ALeft => (O, pad_amt)
                 | ARight => (pad_amt, O)
                 | ACenter => (Nat.div pad_amt 2, (pad_amt - Nat.div pad_amt 2)%nat)
                 end in
  repeat pad l ++ s ++ repeat pad r.

Example fmt_ex :
  fmt_nint LowerHex (Small (-3)) = [45; 51]%N /\ fmt_nint LowerHex (Big (-3)) = [45; 51]%N /\
  fmt_nint UpperHex (Small 255) = [70; 70]%N /\ fmt_nint Binary (Big 5) = [49; 48; 49]%N /\
  fmt_i64 LowerHex (-3) = [102;102;102;102;102;102;102;102;102;102;102;102;102;102;102;100]%N /\
  fmt_nint Decimal (Small (-12)) = show_int (-12) /\ fmt_nint Octal (Small 0) = [48]%N.
Proof. repeat split; reflexivity. Qed.
