(* C15 - bytes literals decode exactly outside the known finding, and the known finding is real *)
From Coq Require Import NArith ZArith List Bool Lia.
From NV Require Import Common.Outcome Text.Chars Text.Chars_proofs Text.LexLit Text.LexLit_proofs
  Text.Lexer Text.Lexer_proofs Text.LexSpec Text.LexSpec_proofs Text.LexBytesSpec.
Import ListNotations.
Open Scope N_scope.

Lemma utf8_is_spelled f : forall s, ~ known_bytes_x f s -> utf8_encode s = spelled_bytes f s.
Proof.
  induction s as [|c s IH]; intros Hk; [reflexivity|].
  unfold utf8_encode, spelled_bytes in *. cbn [flat_map]. rewrite IH.
  - f_equal. destruct (f c) eqn:E; try reflexivity.
    unfold utf8_char. destruct (N.ltb_spec c 128); [reflexivity|].
    exfalso. apply Hk. exists c. cbn. auto.
  - intros (c' & Hin & Hf & Hc). apply Hk. exists c'. cbn. auto.
Qed.

Lemma bytes_literal_exact U q f s rest : quote_ok q ->
  forallb is_scalar s = true -> forallb (fun c => style_ok q (f c) c) s = true ->
  ~ known_bytes_x f s ->
  lex_first U (66 :: render_string q f s ++ rest) = Ok ([TBytes (spelled_bytes f s)], rest).
Proof.
  intros Hq Hsc Hok Hk. unfold render_string. cbn [app lex_first]. rewrite <- app_assoc. cbn [app].
  assert (Hq92 : q <> 92) by (destruct Hq; subst; discriminate).
  assert (E : lex_one U 66 (q :: render_escaped f s ++ q :: rest) =
              (x <- lex_string q (render_escaped f s ++ q :: rest) ;;
               let '(inv, s, rest) := x in Ok (inv_tok inv ++ [TBytes (utf8_encode s)], rest))).
  { destruct Hq; subst q; reflexivity. }
  rewrite E, (lex_string_render q f s rest Hq92 Hsc Hok). cbn [bind inv_tok app].
  now rewrite (utf8_is_spelled f s Hk).
Qed.

(* the finding: B"\xff" is [195, 191], not [255] *)
Lemma bytes_literal_refuted : exists f s,
  known_bytes_x f s /\ forallb is_scalar s = true /\ forallb (fun c => style_ok 34 (f c) c) s = true /\
  lex_first U_ascii (66 :: render_string 34 f s) = Ok ([TBytes [195; 191]], []) /\
  spelled_bytes f s = [255].
Proof.
  exists (fun _ => StX), [255]. repeat split; try reflexivity.
  exists 255. cbn. repeat split; auto. lia.
Qed.
