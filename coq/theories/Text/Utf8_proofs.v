(* C16 - UTF-8: decoding inverts encoding on every string of scalar values; chr / ord are inverse. *)
From Coq Require Import ZArith NArith List Bool Lia.
From NV Require Import Common.Outcome Text.CodecChars Text.Utf8 Text.CodecSpec.
Import ListNotations.
Open Scope N_scope.

Lemma dm c k : k <> 0 -> c = k * (c / k) + c mod k /\ c mod k < k.
Proof. intros. split; [apply N.div_mod; assumption | apply N.mod_lt; assumption]. Qed.

(* name every quotient and remainder, forget what they are: the posed facts are then linear *)
Ltac absdiv :=
  repeat match goal with
         | |- context [?a mod ?b] => let r := fresh "r" in set (r := a mod b) in *; clearbody r
         | H : context [?a mod ?b] |- _ => let r := fresh "r" in set (r := a mod b) in *; clearbody r
         end;
  repeat match goal with
         | |- context [?a / ?b] => let q := fresh "q" in set (q := a / b) in *; clearbody q
         | H : context [?a / ?b] |- _ => let q := fresh "q" in set (q := a / b) in *; clearbody q
         end.

Lemma in_range_t lo hi b : lo <= b <= hi -> in_range lo hi b = true.
Proof. intros [A B]. unfold in_range. apply andb_true_iff; split; apply N.leb_le; assumption. Qed.
Lemma in_range_f lo hi b : b < lo \/ hi < b -> in_range lo hi b = false.
Proof. intros H. unfold in_range. apply andb_false_iff. destruct H; [left | right]; apply N.leb_gt; assumption. Qed.
Lemma in_range_iff lo hi b : in_range lo hi b = true <-> lo <= b <= hi.
Proof. unfold in_range. rewrite andb_true_iff, !N.leb_le. tauto. Qed.

Lemma dec1 b0 r : b0 < 128 -> utf8_decode (b0 :: r) = (s <- utf8_decode r ;; Ok (b0 :: s)).
Proof. intros H. cbn [utf8_decode]. apply N.ltb_lt in H. rewrite H. reflexivity. Qed.

Lemma dec2 b0 b1 r : 194 <= b0 <= 223 -> 128 <= b1 <= 191 ->
  utf8_decode (b0 :: b1 :: r) = (s <- utf8_decode r ;; Ok (((b0 - 192) * 64 + (b1 - 128)) :: s)).
Proof.
  intros H0 H1. cbn [utf8_decode].
  assert (E : b0 <? 128 = false) by (apply N.ltb_ge; lia). rewrite E.
  rewrite (in_range_t 194 223 b0) by exact H0. unfold is_cont. rewrite in_range_t by exact H1. reflexivity.
Qed.

Lemma dec3 b0 b1 b2 r : 224 <= b0 <= 239 ->
  (b0 = 224 -> 160 <= b1) -> (b0 = 237 -> b1 <= 159) -> 128 <= b1 <= 191 -> 128 <= b2 <= 191 ->
  utf8_decode (b0 :: b1 :: b2 :: r) =
  (s <- utf8_decode r ;; Ok (((b0 - 224) * 4096 + (b1 - 128) * 64 + (b2 - 128)) :: s)).
Proof.
  intros H0 Ha Hb H1 H2. cbn [utf8_decode].
  assert (E : b0 <? 128 = false) by (apply N.ltb_ge; lia). rewrite E.
  rewrite (in_range_f 194 223 b0) by lia. rewrite (in_range_t 224 239 b0) by exact H0.
  assert (C : (if b0 =? 224 then in_range 160 191 b1 else if b0 =? 237 then in_range 128 159 b1 else is_cont b1) = true).
  { destruct (N.eqb_spec b0 224); [apply in_range_t; lia|].
    destruct (N.eqb_spec b0 237); [apply in_range_t; lia|]. apply in_range_t; lia. }
  rewrite C. unfold is_cont at 1. rewrite in_range_t by exact H2. reflexivity.
Qed.

Lemma dec4 b0 b1 b2 b3 r : 240 <= b0 <= 244 ->
  (b0 = 240 -> 144 <= b1) -> (b0 = 244 -> b1 <= 143) -> 128 <= b1 <= 191 -> 128 <= b2 <= 191 -> 128 <= b3 <= 191 ->
  utf8_decode (b0 :: b1 :: b2 :: b3 :: r) =
  (s <- utf8_decode r ;; Ok (((b0 - 240) * 262144 + (b1 - 128) * 4096 + (b2 - 128) * 64 + (b3 - 128)) :: s)).
Proof.
  intros H0 Ha Hb H1 H2 H3. cbn [utf8_decode].
  assert (E : b0 <? 128 = false) by (apply N.ltb_ge; lia). rewrite E.
  rewrite (in_range_f 194 223 b0) by lia. rewrite (in_range_f 224 239 b0) by lia.
  rewrite (in_range_t 240 244 b0) by exact H0.
  assert (C : (if b0 =? 240 then in_range 144 191 b1 else if b0 =? 244 then in_range 128 143 b1 else is_cont b1) = true).
  { destruct (N.eqb_spec b0 240); [apply in_range_t; lia|].
    destruct (N.eqb_spec b0 244); [apply in_range_t; lia|]. apply in_range_t; lia. }
  rewrite C. unfold is_cont. rewrite (in_range_t 128 191 b2) by exact H2. rewrite (in_range_t 128 191 b3) by exact H3.
  reflexivity.
Qed.

Lemma is_scalar_iff c : is_scalar c = true <-> scalar c.
Proof.
  unfold is_scalar, scalar. rewrite andb_true_iff, orb_true_iff, !N.ltb_lt, N.leb_le. tauto.
Qed.

Lemma utf8_char_decode c r : scalar c ->
  utf8_decode (utf8_char c ++ r) = (s <- utf8_decode r ;; Ok (c :: s)).
Proof.
  intros [Hsur Hmax]. unfold utf8_char.
  destruct (N.ltb_spec c 128) as [H1|H1]; [apply dec1; exact H1|].
  pose proof (dm c 64 ltac:(lia)) as [D1 D1'].
  destruct (N.ltb_spec c 2048) as [H2|H2].
  { cbn [app].
    assert (A : 194 <= 192 + c / 64 <= 223 /\ 128 <= 128 + c mod 64 <= 191 /\
                (192 + c / 64 - 192) * 64 + (128 + c mod 64 - 128) = c) by (absdiv; lia).
    destruct A as (A0 & A1 & A2). rewrite dec2 by assumption. rewrite A2. reflexivity. }
  pose proof (dm (c / 64) 64 ltac:(lia)) as [D2 D2'].
  assert (Q2 : c / 4096 = c / 64 / 64) by (rewrite N.div_div by lia; reflexivity).
  destruct (N.ltb_spec c 65536) as [H3|H3].
  { cbn [app]. rewrite Q2.
    assert (A : 224 <= 224 + c / 64 / 64 <= 239 /\
                (224 + c / 64 / 64 = 224 -> 160 <= 128 + (c / 64) mod 64) /\
                (224 + c / 64 / 64 = 237 -> 128 + (c / 64) mod 64 <= 159) /\
                128 <= 128 + (c / 64) mod 64 <= 191 /\ 128 <= 128 + c mod 64 <= 191 /\
                (224 + c / 64 / 64 - 224) * 4096 + (128 + (c / 64) mod 64 - 128) * 64 + (128 + c mod 64 - 128) = c)
      by (clear Q2; absdiv; lia).
    destruct A as (A0 & Aa & Ab & A1 & A2 & A3). rewrite dec3 by assumption. rewrite A3. reflexivity. }
  pose proof (dm (c / 64 / 64) 64 ltac:(lia)) as [D3 D3'].
  assert (Q3 : c / 262144 = c / 64 / 64 / 64) by (rewrite !N.div_div by lia; reflexivity).
  cbn [app]. rewrite Q2, Q3.
  assert (A : 240 <= 240 + c / 64 / 64 / 64 <= 244 /\
              (240 + c / 64 / 64 / 64 = 240 -> 144 <= 128 + (c / 64 / 64) mod 64) /\
              (240 + c / 64 / 64 / 64 = 244 -> 128 + (c / 64 / 64) mod 64 <= 143) /\
              128 <= 128 + (c / 64 / 64) mod 64 <= 191 /\ 128 <= 128 + (c / 64) mod 64 <= 191 /\
              128 <= 128 + c mod 64 <= 191 /\
              (240 + c / 64 / 64 / 64 - 240) * 262144 + (128 + (c / 64 / 64) mod 64 - 128) * 4096 +
              (128 + (c / 64) mod 64 - 128) * 64 + (128 + c mod 64 - 128) = c)
    by (clear Q2 Q3; absdiv; lia).
  destruct A as (A0 & Aa & Ab & A1 & A2 & A3 & A4). rewrite dec4 by assumption. rewrite A4. reflexivity.
Qed.

Theorem utf8_roundtrip : forall s : str, Forall scalar s -> utf8_decode (utf8_encode s) = Ok s.
Proof.
  intros s H. induction H as [|c r Hc Hr IH]; [reflexivity|].
  unfold utf8_encode. cbn [flat_map]. rewrite utf8_char_decode by exact Hc.
  fold (utf8_encode r). rewrite IH. reflexivity.
Qed.

(* every byte of an encoding is a byte, and a scalar value takes 1 to 4 of them *)
Theorem utf8_encode_bytes : forall s : str, Forall scalar s -> Forall (fun b => b < 256) (utf8_encode s).
Proof.
  intros s H. induction H as [|c r [Hsur Hmax] Hr IH]; [constructor|].
  unfold utf8_encode. cbn [flat_map]. apply Forall_app. split; [|exact IH].
  unfold utf8_char.
  pose proof (dm c 64 ltac:(lia)) as [D1 D1'].
  pose proof (dm (c / 64) 64 ltac:(lia)) as [D2 D2'].
  pose proof (dm (c / 64 / 64) 64 ltac:(lia)) as [D3 D3'].
  assert (Q2 : c / 4096 = c / 64 / 64) by (rewrite N.div_div by lia; reflexivity).
  assert (Q3 : c / 262144 = c / 64 / 64 / 64) by (rewrite !N.div_div by lia; reflexivity).
  rewrite Q2, Q3. clear Q2 Q3.
  destruct (N.ltb_spec c 128); [repeat constructor; lia|].
  destruct (N.ltb_spec c 2048); [repeat constructor; absdiv; lia|].
  destruct (N.ltb_spec c 65536); repeat constructor; absdiv; lia.
Qed.

(* ---- chr / ord ---- *)
Theorem chr_ord_inverse : forall c : N, scalar c ->
  chr (Z.of_N c) = Ok [c] /\ ord [c] = Ok (Z.of_N c).
Proof.
  intros c Hc. split; [|reflexivity]. unfold chr.
  destruct Hc as [Hs Hm].
  assert (E : ((0 <=? Z.of_N c) && (Z.of_N c <=? 4294967295))%Z = true).
  { apply andb_true_iff; split; apply Z.leb_le; lia. }
  rewrite E, N2Z.id. rewrite (proj2 (is_scalar_iff c)) by (split; assumption). reflexivity.
Qed.

Theorem chr_total : forall n : Z,
  (exists c, scalar c /\ n = Z.of_N c /\ chr n = Ok [c]) \/
  (chr n = Err EValue /\ forall c, scalar c -> n <> Z.of_N c).
Proof.
  intros n. unfold chr.
  destruct ((0 <=? n)%Z && (n <=? 4294967295)%Z) eqn:E.
  - apply andb_true_iff in E. destruct E as [A B]. apply Z.leb_le in A, B.
    destruct (is_scalar (Z.to_N n)) eqn:S.
    + left. exists (Z.to_N n). split; [apply is_scalar_iff; exact S|]. split; [lia | reflexivity].
    + right. split; [reflexivity|]. intros c Hc ->. rewrite N2Z.id in S.
      apply is_scalar_iff in Hc. congruence.
  - right. split; [reflexivity|]. intros c [Hs Hm] ->.
    apply andb_false_iff in E. destruct E as [E|E]; apply Z.leb_gt in E; lia.
Qed.

Theorem ord_chr_inverse : forall (s : str) (n : Z), ord s = Ok n -> Forall scalar s -> chr n = Ok s.
Proof.
  intros s n H Hs. destruct s as [|c [|c' r]]; try discriminate.
  cbn in H. inversion H; subst. inversion Hs; subst. apply chr_ord_inverse. assumption.
Qed.

(* ---- the decoder accepts only encodings: what it returns re-encodes to the input ---- *)
Lemma divmod_unique c q r : r < 64 -> c = 64 * q + r -> c / 64 = q /\ c mod 64 = r.
Proof.
  intros Hr Hc. split.
  - symmetry. apply (N.div_unique c 64 q r); assumption.
  - symmetry. apply (N.mod_unique c 64 q r); assumption.
Qed.

Lemma enc2 x y : 2 <= x <= 31 -> y < 64 ->
  utf8_char (x * 64 + y) = [192 + x; 128 + y] /\ scalar (x * 64 + y).
Proof.
  intros Hx Hy. set (c := x * 64 + y).
  destruct (divmod_unique c x y Hy ltac:(unfold c; lia)) as [D M].
  unfold utf8_char.
  destruct (N.ltb_spec c 128); [unfold c in *; lia|].
  destruct (N.ltb_spec c 2048); [|unfold c in *; lia].
  rewrite D, M. split; [reflexivity | unfold scalar, c; lia].
Qed.

Lemma enc3 x y z : x <= 15 -> y < 64 -> z < 64 -> (x = 0 -> 32 <= y) -> (x = 13 -> y < 32) ->
  utf8_char (x * 4096 + y * 64 + z) = [224 + x; 128 + y; 128 + z] /\ scalar (x * 4096 + y * 64 + z).
Proof.
  intros Hx Hy Hz H0 H13. set (c := x * 4096 + y * 64 + z).
  destruct (divmod_unique c (x * 64 + y) z Hz ltac:(unfold c; lia)) as [D1 M1].
  destruct (divmod_unique (x * 64 + y) x y Hy ltac:(lia)) as [D2 M2].
  assert (D3 : c / 4096 = x).
  { change 4096 with (64 * 64). rewrite <- N.div_div by lia. rewrite D1. exact D2. }
  unfold utf8_char.
  destruct (N.ltb_spec c 128); [unfold c in *; lia|].
  destruct (N.ltb_spec c 2048); [unfold c in *; lia|].
  destruct (N.ltb_spec c 65536); [|unfold c in *; lia].
  rewrite D3, D1, M2, M1. split; [reflexivity | unfold scalar, c; lia].
Qed.

Lemma enc4 w x y z : w <= 4 -> x < 64 -> y < 64 -> z < 64 -> (w = 0 -> 16 <= x) -> (w = 4 -> x < 16) ->
  utf8_char (w * 262144 + x * 4096 + y * 64 + z) = [240 + w; 128 + x; 128 + y; 128 + z] /\
  scalar (w * 262144 + x * 4096 + y * 64 + z).
Proof.
  intros Hw Hx Hy Hz H0 H4. set (c := w * 262144 + x * 4096 + y * 64 + z).
  destruct (divmod_unique c (w * 4096 + x * 64 + y) z Hz ltac:(unfold c; lia)) as [D1 M1].
  destruct (divmod_unique (w * 4096 + x * 64 + y) (w * 64 + x) y Hy ltac:(lia)) as [D2 M2].
  destruct (divmod_unique (w * 64 + x) w x Hx ltac:(lia)) as [D3 M3].
  assert (E2 : c / 4096 = w * 64 + x).
  { change 4096 with (64 * 64). rewrite <- N.div_div by lia. rewrite D1. exact D2. }
  assert (E3 : c / 262144 = w).
  { change 262144 with (4096 * 64). rewrite <- N.div_div by lia. rewrite E2. exact D3. }
  unfold utf8_char.
  destruct (N.ltb_spec c 128); [unfold c in *; lia|].
  destruct (N.ltb_spec c 2048); [unfold c in *; lia|].
  destruct (N.ltb_spec c 65536); [unfold c in *; lia|].
  rewrite E3, E2, M3, D1, M2, M1. split; [reflexivity | unfold scalar, c; lia].
Qed.

Lemma bind_ok_inv {A B} (o : outcome A) (f : A -> outcome B) b :
  bind o f = Ok b -> exists a, o = Ok a /\ f a = Ok b.
Proof. destruct o; cbn; intros H; try discriminate. eauto. Qed.

Lemma utf8_decode_sound_n : forall n bs s, (length bs <= n)%nat -> utf8_decode bs = Ok s ->
  Forall scalar s /\ utf8_encode s = bs.
Proof.
  induction n as [|n IH]; intros bs s Hlen H.
  { destruct bs; [|cbn in Hlen; lia]. cbn in H. inversion H; subst. split; [constructor | reflexivity]. }
  destruct bs as [|b0 r0]. { cbn in H. inversion H; subst. split; [constructor | reflexivity]. }
  cbn [length] in Hlen. cbn [utf8_decode] in H.
  destruct (N.ltb_spec b0 128) as [L0|L0].
  { apply bind_ok_inv in H. destruct H as (s' & Hr & Hs). inversion Hs; subst.
    destruct (IH r0 s' ltac:(lia) Hr) as [F E]. split.
    - constructor; [unfold scalar; lia | exact F].
    - unfold utf8_encode in *. cbn [flat_map]. rewrite E. unfold utf8_char.
      destruct (N.ltb_spec b0 128); [reflexivity | lia]. }
  destruct (in_range 194 223 b0) eqn:R2.
  { apply in_range_iff in R2. destruct r0 as [|b1 r1]; [discriminate|].
    destruct (is_cont b1) eqn:C1; [|discriminate]. apply in_range_iff in C1.
    apply bind_ok_inv in H. destruct H as (s' & Hr & Hs). inversion Hs; subst. cbn [length] in Hlen.
    destruct (IH r1 s' ltac:(lia) Hr) as [F E].
    destruct (enc2 (b0 - 192) (b1 - 128) ltac:(lia) ltac:(lia)) as [U S].
    split; [constructor; assumption|].
    unfold utf8_encode in *. cbn [flat_map]. rewrite E, U. cbn [app]. f_equal; [lia|]. f_equal. lia. }
  destruct (in_range 224 239 b0) eqn:R3.
  { apply in_range_iff in R3. destruct r0 as [|b1 [|b2 r2]]; try discriminate.
    destruct ((if b0 =? 224 then in_range 160 191 b1 else if b0 =? 237 then in_range 128 159 b1 else is_cont b1) && is_cont b2) eqn:C;
      [|discriminate].
    apply andb_true_iff in C. destruct C as [C1 C2]. apply in_range_iff in C2.
    assert (B1 : 128 <= b1 <= 191 /\ (b0 = 224 -> 160 <= b1) /\ (b0 = 237 -> b1 <= 159)).
    { destruct (N.eqb_spec b0 224); [apply in_range_iff in C1; lia|].
      destruct (N.eqb_spec b0 237); [apply in_range_iff in C1; lia|]. apply in_range_iff in C1. lia. }
    apply bind_ok_inv in H. destruct H as (s' & Hr & Hs). inversion Hs; subst. cbn [length] in Hlen.
    destruct (IH r2 s' ltac:(lia) Hr) as [F E].
    destruct (enc3 (b0 - 224) (b1 - 128) (b2 - 128) ltac:(lia) ltac:(lia) ltac:(lia) ltac:(lia) ltac:(lia)) as [U S].
    split; [constructor; assumption|].
    unfold utf8_encode in *. cbn [flat_map]. rewrite E, U. cbn [app]. f_equal; [lia|]. f_equal; [lia|]. f_equal. lia. }
  destruct (in_range 240 244 b0) eqn:R4; [|discriminate].
  apply in_range_iff in R4. destruct r0 as [|b1 [|b2 [|b3 r3]]]; try discriminate.
  destruct ((if b0 =? 240 then in_range 144 191 b1 else if b0 =? 244 then in_range 128 143 b1 else is_cont b1)
            && is_cont b2 && is_cont b3) eqn:C; [|discriminate].
  apply andb_true_iff in C. destruct C as [C C3]. apply andb_true_iff in C. destruct C as [C1 C2].
  apply in_range_iff in C2, C3.
  assert (B1 : 128 <= b1 <= 191 /\ (b0 = 240 -> 144 <= b1) /\ (b0 = 244 -> b1 <= 143)).
  { destruct (N.eqb_spec b0 240); [apply in_range_iff in C1; lia|].
    destruct (N.eqb_spec b0 244); [apply in_range_iff in C1; lia|]. apply in_range_iff in C1. lia. }
  apply bind_ok_inv in H. destruct H as (s' & Hr & Hs). inversion Hs; subst. cbn [length] in Hlen.
  destruct (IH r3 s' ltac:(lia) Hr) as [F E].
  destruct (enc4 (b0 - 240) (b1 - 128) (b2 - 128) (b3 - 128)
                 ltac:(lia) ltac:(lia) ltac:(lia) ltac:(lia) ltac:(lia) ltac:(lia)) as [U S].
  split; [constructor; assumption|].
  unfold utf8_encode in *. cbn [flat_map]. rewrite E, U. cbn [app].
  f_equal; [lia|]. f_equal; [lia|]. f_equal; [lia|]. f_equal. lia.
Qed.

(* utf8_decode succeeds only on well-formed input: its result is a string of scalar values whose
   encoding is the input (so overlong forms, surrogates, values above U+10FFFF, stray or missing
   continuation bytes are all value errors); it never panics *)
Theorem utf8_decode_sound : forall (bs : list N) (s : str), utf8_decode bs = Ok s ->
  Forall scalar s /\ utf8_encode s = bs.
Proof. intros bs s H. apply (utf8_decode_sound_n (length bs) bs s (le_n _) H). Qed.

Lemma utf8_decode_total_n : forall n bs, (length bs <= n)%nat ->
  (exists s, utf8_decode bs = Ok s) \/ utf8_decode bs = Err EValue.
Proof.
  induction n as [|n IH]; intros bs Hlen.
  { destruct bs; [|cbn in Hlen; lia]. left. exists []. reflexivity. }
  destruct bs as [|b0 r0]; [left; exists []; reflexivity|].
  cbn [length] in Hlen. cbn [utf8_decode].
  assert (K : forall r (f : str -> str), (length r <= n)%nat ->
            (exists s, (s <- utf8_decode r ;; Ok (f s)) = Ok s) \/ (s <- utf8_decode r ;; Ok (f s)) = Err EValue).
  { intros r f Hr. destruct (IH r Hr) as [(s & ->) | ->]; [left; eexists; reflexivity | right; reflexivity]. }
  destruct (b0 <? 128); [apply K; lia|].
  destruct (in_range 194 223 b0).
  { destruct r0 as [|b1 r1]; [right; reflexivity|]. cbn [length] in Hlen.
    destruct (is_cont b1); [apply K; lia | right; reflexivity]. }
  destruct (in_range 224 239 b0).
  { destruct r0 as [|b1 [|b2 r2]]; try (right; reflexivity). cbn [length] in Hlen.
    destruct (_ && _); [apply K; lia | right; reflexivity]. }
  destruct (in_range 240 244 b0); [|right; reflexivity].
  destruct r0 as [|b1 [|b2 [|b3 r3]]]; try (right; reflexivity). cbn [length] in Hlen.
  destruct (_ && _); [apply K; lia | right; reflexivity].
Qed.

Theorem utf8_decode_total : forall bs : list N,
  (exists s, utf8_decode bs = Ok s) \/ utf8_decode bs = Err EValue.
Proof. intros bs. apply (utf8_decode_total_n (length bs) bs (le_n _)). Qed.
