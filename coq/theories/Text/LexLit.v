(* C15 - literal decoders of /repo/src/lex.rs (model) and the renderers that are their
   inverses.  Definitions and small Examples only; proofs are in LexLit_proofs.v.

     lex_base_go        <->  Lexer::lex_base_and_emit      (the while-let loop)
     lex_base64_go      <->  Lexer::lex_base_64_and_emit
     str_step/str_loop  <->  Lexer::lex_simple_string_after_start (one iteration / the loop)
     raw_go             <->  the R"..." loop inside Lexer::lex
*)
From Coq Require Import NArith ZArith List Bool Ascii String.
From NV Require Import Common.Outcome Text.Chars.
Import ListNotations.
Open Scope N_scope.

(* ---------- integers ---------- *)
(* while let Some(cc) = peek().and_then(|d| d.to_digit(base)) { next(); x = base * x + cc } *)
Fixpoint lex_base_go (base x : N) (s : list N) : N * list N :=
  match s with
  | c :: r => match to_digit c base with
              | Some d => lex_base_go base (base * x + d) r
              | None => (x, s)
              end
  | [] => (x, [])
  end.

Fixpoint lex_base64_go (x : N) (s : list N) : N * list N :=
  match s with
  | c :: r => match b64_digit c with
              | Some d => lex_base64_go (64 * x + d) r
              | None => (x, s)
              end
  | [] => (x, [])
  end.

(* ---------- strings ---------- *)
Inductive invk :=
| IBadHex | IBadUEnd | IUTooBig | IUnknownEscape | IEscapeEof | IStringEof
| IRunawayComment | IFmtNoQuote | IRawNoQuote | IBadFloat | IBadChar.

(* one iteration of `while self.peek() != Some(&end) { match self.next() ... }` *)
Inductive sstep :=
| SPush (c : N) (rest : list N)            (* acc.push(c); continue with rest *)
| SExit (inv : option invk) (rest : list N) (* loop left: normally (None) or by `break` after emitting Invalid *)
| SStepPanic.                               (* char::from_u32(..).unwrap() on None *)

(* the optional opening delimiter of a \u escape and the closer it demands *)
Definition u_open (s : list N) : option N * list N :=
  match s with
  | c :: r =>
    if isc "{" c then (Some (chr "}"), r)
    else if isc "(" c then (Some (chr ")"), r)
    else if isc "[" c then (Some (chr "]"), r)
    else if isc "<" c then (Some (chr ">"), r)
    else (None, s)
  | [] => (None, [])
  end.

(* the hexit loop of \u with the repaired (saturating) u32 accumulator *)
Fixpoint u_digits (x : N) (s : list N) : N * list N :=
  match s with
  | c :: r => match to_digit c 16 with
              | Some d => u_digits (u32_mul_add_sat x d) r
              | None => (x, s)
              end
  | [] => (x, [])
  end.
(* the same loop as found in the unrepaired code: `x = 16 * x + cc` on a u32, overflow checks on *)
Fixpoint u_digits_checked (x : N) (s : list N) : outcome (N * list N) :=
  match s with
  | c :: r => match to_digit c 16 with
              | Some d => y <- u32_mul_add_checked x d ;; u_digits_checked y r
              | None => Ok (x, s)
              end
  | [] => Ok (x, [])
  end.

Definition u_finish (x : N) (rest : list N) : sstep :=
  match from_u32 x with
  | Some ch => SPush ch rest
  | None => SExit (Some IUTooBig) rest
  end.

Definition str_step (q : N) (s : list N) : sstep :=
  match s with
  | [] => SExit (Some IStringEof) []
  | c :: r =>
    if c =? q then SExit None s
    else if isc "\" c then
      match r with
      | [] => SExit (Some IEscapeEof) []
      | e :: r2 =>
        if isc "n" e then SPush 10 r2
        else if isc "r" e then SPush 13 r2
        else if isc "t" e then SPush 9 r2
        else if isc "0" e then SPush 0 r2
        else if isc "\" e || isc "'" e || isc """" e then SPush e r2
        else if isc "x" e then
          match r2 with
          | [] => SExit (Some IBadHex) []
          | h1 :: r3 =>
            match to_digit h1 16 with
            | None => SExit (Some IBadHex) r3
            | Some d1 =>
              match r3 with
              | [] => SExit (Some IBadHex) []
              | h2 :: r4 =>
                match to_digit h2 16 with
                | None => SExit (Some IBadHex) r4
                | Some d2 => match from_u32 (d1 * 16 + d2) with
                             | Some ch => SPush ch r4
                             | None => SStepPanic
                             end
                end
              end
            end
          end
        else if isc "u" e then
          let '(expected, r3) := u_open r2 in
          let '(x, r4) := u_digits 0 r3 in
          match expected with
          | Some cl =>
            match r4 with
            | c' :: r5 => if c' =? cl then u_finish x r5 else SExit (Some IBadUEnd) r4
            | [] => SExit (Some IBadUEnd) []
            end
          | None => u_finish x r4
          end
        else SExit (Some IUnknownEscape) r2
      end
    else SPush c r
  end.

(* the loop; racc is the accumulated string reversed.  Result: (Invalid emitted?, string, rest) *)
Fixpoint str_loop (fuel : nat) (q : N) (s : list N) (racc : list N) : outcome (option invk * list N * list N) :=
  match fuel with
  | O => OutOfFuel
  | S f =>
    match str_step q s with
    | SPush c rest => str_loop f q rest (c :: racc)
    | SExit inv rest => Ok (inv, frev racc, rest)
    | SStepPanic => Panic
    end
  end.

(* lex_simple_string_after_start(end): the loop, then one unconditional self.next() *)
Definition lex_string (q : N) (s : list N) : outcome (option invk * list N * list N) :=
  r <- str_loop (S (List.length s)) q s [] ;;
  let '(inv, content, rest) := r in Ok (inv, content, tl rest).

(* R"..." : no escapes *)
Fixpoint raw_go (q : N) (s : list N) : option invk * list N * list N :=
  match s with
  | [] => (Some IStringEof, [], [])
  | c :: r => if c =? q then (None, [], s)
              else let '(inv, a, rest) := raw_go q r in (inv, c :: a, rest)
  end.
Definition lex_raw (q : N) (s : list N) : option invk * list N * list N :=
  let '(inv, a, rest) := raw_go q s in (inv, a, tl rest).

(* ---------- renderers (the inverse direction; not a transcription of anything) ---------- *)
Definition digit_char (d : N) : N := if d <? 10 then 48 + d else 97 + (d - 10).
Definition digit_char_upper (d : N) : N := if d <? 10 then 48 + d else 65 + (d - 10).

(* digits of n in radix b, most significant first; fuel bounds the number of digits *)
Fixpoint digits_fuel (fuel : nat) (b n : N) (acc : list N) : list N :=
  match fuel with
  | O => acc
  | S f => if n <? b then n :: acc else digits_fuel f b (n / b) (n mod b :: acc)
  end.
Definition digits_of (b n : N) : list N := digits_fuel (S (N.to_nat (N.log2 n))) b n [].
Definition render_radix (b n : N) : list N := map digit_char (digits_of b n).
Definition render_radix_upper (b n : N) : list N := map digit_char_upper (digits_of b n).
Definition render_dec (n : N) : list N := render_radix 10 n.

Definition b64_char (d : N) : N :=
  if d <? 26 then 65 + d else if d <? 52 then 97 + (d - 26) else if d <? 62 then 48 + (d - 52)
  else if d =? 62 then 43 else 47.
Definition render_base64 (n : N) : list N := map b64_char (digits_of 64 n).

(* the value a digit list spells, by positional notation (the specification; the lexer uses Horner) *)
Fixpoint positional (b : N) (ds : list N) : N :=
  match ds with
  | [] => 0
  | d :: r => d * b ^ N.of_nat (List.length r) + positional b r
  end.

(* how one character of a string literal is written *)
Inductive style :=
| StRaw                 (* the character itself *)
| StSimple              (* backslash followed by n r t 0 backslash or either quote *)
| StX                   (* \xHH *)
| StU (d : option (N * N)).  (* \u with optional delimiters and hex digits *)

Definition two_hex (c : N) : list N := [digit_char (c / 16); digit_char (c mod 16)].
Definition simple_escape (c : N) : option N :=
  if c =? 10 then Some (chr "n") else if c =? 13 then Some (chr "r") else if c =? 9 then Some (chr "t")
  else if c =? 0 then Some (chr "0")
  else if isc "\" c || isc "'" c || isc """" c then Some c else None.

Definition delims : list (N * N) :=
  [(chr "{", chr "}"); (chr "(", chr ")"); (chr "[", chr "]"); (chr "<", chr ">")].

Definition render_char (st : style) (c : N) : list N :=
  match st with
  | StRaw => [c]
  | StSimple => match simple_escape c with Some e => [chr "\"; e] | None => [c] end
  | StX => chr "\" :: chr "x" :: two_hex c
  | StU (Some (o, cl)) => chr "\" :: chr "u" :: o :: render_radix 16 c ++ [cl]
  | StU None => chr "\" :: chr "u" :: render_radix 16 c
  end.

(* when a style can be used for c inside quotes q.  An undelimited \u must not be followed
   by a hexit: it is only allowed here as the last character (next is the closing quote). *)
Definition style_ok (q : N) (st : style) (c : N) : bool :=
  match st with
  | StRaw => negb (c =? q) && negb (isc "\" c)
  | StSimple => match simple_escape c with Some _ => true | None => false end
  | StX => c <? 256
  | StU (Some d) => existsb (fun e => (fst e =? fst d) && (snd e =? snd d)) delims
  | StU None => false
  end.

Fixpoint render_escaped (f : N -> style) (s : list N) : list N :=
  match s with
  | [] => []
  | c :: r => render_char (f c) c ++ render_escaped f r
  end.

Example ex_base16 : lex_base_go 16 0 (cps "fF10 z") = (65296, cps " z"). Proof. reflexivity. Qed.
Example ex_b64 : lex_base64_go 0 (cps "AB+/-_;") = (33292223, cps ";"). Proof. reflexivity. Qed.
Example ex_str : lex_string 34 (cps "a\x41\u{1F409}\n"" rest") = Ok (None, [97; 65; 128009; 10], cps " rest").
Proof. reflexivity. Qed.
Example ex_str_bad : lex_string 34 (cps "a\q""b") = Ok (Some IUnknownEscape, [97], cps "b").
Proof. reflexivity. Qed.
(* F13: the unrepaired accumulator panics on nine hexits; the repaired one saturates and the
   escape is rejected as too big *)
Example ex_f13_checked : u_digits_checked 0 (cps "110000000}") = Panic. Proof. reflexivity. Qed.
Example ex_f13_sat : lex_string 34 (cps "\u{110000000}""") = Ok (Some IUTooBig, [], []).
Proof. reflexivity. Qed.
Example ex_render : render_radix 16 255 = cps "ff" /\ render_radix 2 0 = cps "0" /\ render_base64 33292223 = cps "B+/+/".
Proof. repeat split; reflexivity. Qed.
