(* C16 - the printed form of an integer depends only on its value, and is sign + positional digits. *)
From Coq Require Import ZArith NArith List Bool Lia.
From NV Require Import Common.Outcome Common.MachineInt Text.CodecChars Text.CodecChars_proofs Text.IntText
  Text.IntFmt Text.CodecSpec Text.Radix_proofs.
Import ListNotations.
Open Scope Z_scope.

Lemma fmt_nint_bigint f x : nint_ok x -> fmt_nint f x = fmt_bigint f (nint_val x).
Proof.
  intros Hok. destruct x as [n|n]; [|reflexivity]. cbn [nint_val nint_ok] in *.
  unfold fmt_nint, fmt_bigint, fmt_i64.
  destruct f; try reflexivity;
    (destruct (Z.ltb_spec n 0) as [Hn|Hn]; [reflexivity|];
     rewrite as_usize_nonneg by (unfold in_i64, i64_max in *; lia); reflexivity).
Qed.

Theorem render_repr_indep : forall (f : fmt_base) (x y : nint),
  nint_ok x -> nint_ok y -> nint_val x = nint_val y -> fmt_nint f x = fmt_nint f y.
Proof.
  intros f x y Hx Hy E. rewrite !fmt_nint_bigint by assumption. rewrite E. reflexivity.
Qed.

Lemma base_of_range f : 2 <= base_of f <= 36.
Proof. destruct f; cbn; lia. Qed.

(* what is printed: an optional minus sign and the canonical digits of |n| in the base *)
Theorem fmt_nint_positional : forall (f : fmt_base) (x : nint), nint_ok x ->
  exists ds, canonical_digits (base_of f) ds /\ pos_value (base_of f) ds = Z.abs (nint_val x) /\
    fmt_nint f x = signed_text (nint_val x)
                     (map (match f with UpperHex => digit_symbol_upper | _ => digit_symbol end) ds).
Proof.
  intros f x Hok. rewrite fmt_nint_bigint by exact Hok. set (n := nint_val x).
  pose proof (base_of_range f) as Hb.
  exists (digits_be (base_of f) (Z.abs n)).
  destruct (digits_be_canonical (base_of f) (Z.abs n) ltac:(lia) ltac:(lia)) as (Hc & Hv).
  split; [exact Hc|]. split; [exact Hv|].
  unfold fmt_bigint, signed_text, fmt_mag, minus_sign, c_minus.
  assert (Hm : map (digit_of f) (digits_be (base_of f) (Z.abs n)) =
               map (match f with UpperHex => digit_symbol_upper | _ => digit_symbol end) (digits_be (base_of f) (Z.abs n))).
  { destruct f; cbn [digit_of];
      first [ rewrite (map_digit_symbol _ _ (proj2 Hb) (proj1 (proj2 Hc))); reflexivity
            | rewrite (map_digit_symbol_upper _ _ (proj2 Hb) (proj1 (proj2 Hc))); reflexivity ]. }
  destruct (Z.ltb_spec n 0).
  - rewrite <- Hm. rewrite Z.abs_neq by lia. reflexivity.
  - rewrite <- Hm. rewrite Z.abs_eq by lia. reflexivity.
Qed.

(* base 10 is Display, i.e. the text int() reads back *)
Theorem fmt_decimal_is_show : forall x : nint, nint_ok x -> fmt_nint Decimal x = show_int (nint_val x).
Proof. intros x Hok. rewrite fmt_nint_bigint by exact Hok. reflexivity. Qed.

(* the pre-repair Small arm (plain i64 formatting) does depend on the representation: F19 *)
Example F19_small_arm_differs :
  fmt_i64 LowerHex (-3) <> fmt_bigint LowerHex (-3) /\ nint_val (Small (-3)) = nint_val (Big (-3)).
Proof. split; [vm_compute; discriminate | reflexivity]. Qed.

(* padding never changes the text it surrounds, and pads to the requested width *)
Lemma pad_str_length pad n al s : length (pad_str pad n al s) = Nat.max n (length s).
Proof.
  unfold pad_str. destruct al; rewrite !app_length, !repeat_length; try lia.
  pose proof (Nat.div_mod (n - length s) 2 ltac:(lia)).
  assert (Nat.div (n - length s) 2 <= n - length s)%nat by (apply Nat.div_le_upper_bound; lia). lia.
Qed.
