(* C15 - proofs about the main lexer loop (Lexer.v): every iteration returns normally and
   hands back a suffix no longer than what it was given (hence: termination within fuel
   S (length input), no panic), and literal renderings lex to exactly their value. *)
From Coq Require Import NArith ZArith List Bool Lia.
From NV Require Import Common.Outcome Text.Chars Text.Chars_proofs Text.LexLit Text.LexLit_proofs Text.Lexer.
Import ListNotations.
Open Scope N_scope.

Definition good (r : list N) (o : outcome (list token * list N)) : Prop :=
  exists toks rest, o = Ok (toks, rest) /\ (length rest <= length r)%nat.

Lemma good_ok toks rest r : (length rest <= length r)%nat -> good r (Ok (toks, rest)).
Proof. intros H. exists toks, rest. auto. Qed.

Lemma chk_i32_ok z : (i32_min <= z <= i32_max)%Z -> chk_i32 z = Ok z.
Proof.
  intros [H1 H2]. unfold chk_i32. apply Z.leb_le in H1, H2. rewrite H1, H2. reflexivity.
Qed.

(* ----- comments ----- *)
Lemma range_comment_ok : forall s depth racc, (1 <= depth)%Z -> (depth + Z.of_nat (length s) <= i32_max)%Z ->
  exists x rest, range_comment depth s racc = Ok (x, rest) /\ (length rest <= length s)%nat.
Proof.
  induction s as [|c r IH]; intros depth racc H1 H2.
  - cbn. eauto.
  - cbn [range_comment]. cbn [length] in H2. rewrite Nat2Z.inj_succ in H2. unfold i32_max in *.
    assert (E1 : exists d1, (if c =? 40 then chk_i32 (depth + 1) else Ok depth) = Ok d1 /\ (depth <= d1 <= depth + 1)%Z).
    { destruct (c =? 40); [rewrite chk_i32_ok by (unfold i32_min, i32_max; lia)|]; eexists; split; eauto; lia. }
    destruct E1 as (d1 & -> & Hd1). cbn [bind].
    destruct (c =? 41).
    + rewrite chk_i32_ok by (unfold i32_min, i32_max; lia). cbn [bind].
      destruct (Z.eqb_spec (d1 - 1) 0).
      * do 2 eexists. split; [reflexivity|]. cbn; lia.
      * destruct (IH (d1 - 1)%Z (c :: racc) ltac:(lia) ltac:(unfold i32_max; lia)) as (x & rest & E & L).
        exists x, rest. split; auto. cbn [length]. lia.
    + destruct (IH d1 (c :: racc) ltac:(lia) ltac:(unfold i32_max; lia)) as (x & rest & E & L).
      exists x, rest. split; auto. cbn [length]. lia.
Qed.

Lemma line_comment_length : forall s, (length (snd (line_comment s)) <= length s)%nat.
Proof.
  induction s as [|c r IH]; cbn [line_comment]; [cbn; lia|].
  destruct (c =? 10); [cbn; lia|]. destruct (line_comment r). cbn [snd length] in *. lia.
Qed.

Lemma lex_comment_good r : (Z.of_nat (length r) < i32_max)%Z -> good r (lex_comment r).
Proof.
  intros H. unfold lex_comment. destruct r as [|c r1]; [apply good_ok; lia|].
  destruct (c =? 10); [apply good_ok; cbn; lia|].
  destruct (c =? 40).
  - cbn [length] in H. rewrite Nat2Z.inj_succ in H.
    destruct (range_comment_ok r1 1 [] ltac:(lia) ltac:(lia)) as (x & rest & E & L). rewrite E. cbn [bind].
    destruct x; apply good_ok; cbn [length]; lia.
  - pose proof (line_comment_length r1). destruct (line_comment r1). apply good_ok. cbn [snd length] in *. lia.
Qed.

(* ----- numbers ----- *)
Lemma good_base b r2 r : (length r2 <= length r)%nat ->
  good r (let '(x, rest) := lex_base_go b 0 r2 in Ok ([TInt x], rest)).
Proof.
  intros H. pose proof (lex_base_go_length b r2 0). destruct (lex_base_go b 0 r2). apply good_ok. cbn [snd] in *. lia.
Qed.
Lemma good_base64 r2 r : (length r2 <= length r)%nat ->
  good r (let '(x, rest) := lex_base64_go 0 r2 in Ok ([TInt x], rest)).
Proof.
  intros H. pose proof (lex_base64_go_length r2 0). destruct (lex_base64_go 0 r2). apply good_ok. cbn [snd] in *. lia.
Qed.
Lemma lex_exponent_length acc r : (length (snd (lex_exponent acc r)) <= length r)%nat.
Proof.
  unfold lex_exponent.
  match goal with |- context [let '(a, b) := ?p in _] => destruct p as [acc2 r2] eqn:E end.
  assert (L : (length r2 <= length r)%nat).
  { destruct r as [|c r']; [inversion E; subst; cbn; lia|].
    destruct ((c =? 45) || (c =? 43)); inversion E; subst; cbn [length]; lia. }
  destruct (span is_ascii_digit r2) as [es r3] eqn:E2. apply span_length in E2. cbn [snd]. lia.
Qed.
Lemma good_exp acc r4 r : (length r4 <= length r)%nat ->
  good r (let '(t, r5) := lex_exponent acc r4 in Ok ([t], r5)).
Proof.
  intros H. pose proof (lex_exponent_length acc r4). destruct (lex_exponent acc r4). apply good_ok. cbn [snd] in *. lia.
Qed.

Lemma parse_bigint_digits acc : acc <> [] -> forallb is_ascii_digit acc = true -> parse_bigint acc = Some (dec_value acc).
Proof. intros H1 H2. unfold parse_bigint. destruct acc; [congruence|]. rewrite H2. reflexivity. Qed.

Lemma good_bind_tok (o : outcome token) t rest r : o = Ok t -> (length rest <= length r)%nat ->
  good r (t <- o ;; Ok ([t], rest)).
Proof. intros -> H. cbn [bind]. now apply good_ok. Qed.

Lemma lex_number_good c r : is_ascii_digit c = true -> good r (lex_number c r).
Proof.
  intros Hc. unfold lex_number. destruct (span is_ascii_digit r) as [ds r1] eqn:Es.
  pose proof (span_length _ _ _ _ Es) as L1. apply span_spec in Es. destruct Es as (_ & Hds & _).
  assert (Hp : parse_bigint (c :: ds) = Some (dec_value (c :: ds))).
  { apply parse_bigint_digits; [discriminate|]. cbn [forallb]. now rewrite Hc, Hds. }
  assert (Hi : int_tok (c :: ds) = Ok (TInt (dec_value (c :: ds)))) by (unfold int_tok; now rewrite Hp).
  assert (Hr : rat_tok (c :: ds) = Ok (TRat (dec_value (c :: ds)))) by (unfold rat_tok; now rewrite Hp).
  destruct r1 as [|p r2]; [eapply good_bind_tok; eauto; cbn; lia|].
  cbn [length] in L1.
  destruct (p =? 46).
  { destruct (span is_ascii_digit r2) as [fs r3] eqn:Ef. apply span_length in Ef.
    destruct r3 as [|k r4]; [apply good_ok; cbn; lia|]. cbn [length] in Ef.
    repeat match goal with
           | |- good _ (if ?b then _ else _) => destruct b
           | |- good _ (Ok _) => apply good_ok; cbn [length]; lia
           | |- good _ (let '(_, _) := lex_exponent _ _ in _) => apply good_exp; lia
           end. }
  repeat match goal with
         | |- good _ (if ?b then _ else _) => destruct b
         | |- good _ (Ok _) => apply good_ok; cbn [length]; lia
         | |- good _ (let '(_, _) := lex_exponent _ _ in _) => apply good_exp; lia
         | |- good _ (let '(_, _) := lex_base_go _ _ _ in _) => apply good_base; lia
         | |- good _ (let '(_, _) := lex_base64_go _ _ in _) => apply good_base64; lia
         | |- good _ (match parse_u32 ?a with _ => _ end) => destruct (parse_u32 a)
         | |- good _ (bind (int_tok _) _) => eapply good_bind_tok; [exact Hi | cbn [length]; lia]
         | |- good _ (bind (rat_tok _) _) => eapply good_bind_tok; [exact Hr | cbn [length]; lia]
         end.
Qed.

(* ----- identifiers ----- *)
Lemma ident_go_length U first : forall s blen racc, (length (snd (ident_go U first blen racc s)) <= length s)%nat.
Proof.
  induction s as [|cc r IH]; intros blen racc; cbn [ident_go]; [cbn; lia|].
  destruct (ident_cont U cc); [|cbn; lia].
  destruct (is_uppercase U first && (blen =? 1) && (cc =? 39)); [cbn; lia|].
  specialize (IH (blen + utf8_len cc) (cc :: racc)). cbn [length]. lia.
Qed.

Lemma good_string (k : list N -> token) q r2 r : (length r2 <= length r)%nat ->
  good r (x <- lex_string q r2 ;; let '(inv, s, rest) := x in Ok (inv_tok inv ++ [k s], rest)).
Proof.
  intros H. destruct (lex_string_ok q r2) as (inv & ct & rs & E & L). rewrite E. cbn [bind].
  apply good_ok. lia.
Qed.

Lemma lex_ident_good U c r : good r (lex_ident U c r).
Proof.
  unfold lex_ident.
  match goal with |- context [ident_go U c ?b ?a r] => pose proof (ident_go_length U c r b a) as L; destruct (ident_go U c b a r) as [acc r1] end.
  cbn [snd] in L.
  repeat match goal with
         | |- good _ (if ?b then _ else _) => destruct b
         | |- good _ (Ok _) => apply good_ok; cbn [length] in *; lia
         | |- good _ (match ?l with [] => _ | _ :: _ => _ end) => destruct l; cbn [length] in *
         | |- good _ (bind (lex_string _ _) _) => first [apply (good_string (fun s => TBytes (utf8_encode s))) | apply (good_string TFmt)]; lia
         end.
  match goal with |- context [lex_raw ?n ?l] => pose proof (lex_raw_length n l); destruct (lex_raw n l) as [[inv s] rest] end.
  apply good_ok. cbn [snd] in *. lia.
Qed.

(* ----- operators ----- *)
Lemma op_go_length : forall s last racc, (length (snd (op_go last racc s)) <= length s)%nat.
Proof.
  induction s as [|cc r IH]; intros last racc; cbn [op_go]; [cbn; lia|].
  destruct (is_opsym cc); [specialize (IH cc (last :: racc)); cbn [length]; lia | cbn; lia].
Qed.
Lemma lex_operator_length c r : (length (snd (lex_operator c r)) <= length r)%nat.
Proof.
  unfold lex_operator. pose proof (op_go_length r c []) as L. destruct (op_go c [] r) as [[last acc] rest].
  cbn [snd] in L.
  repeat match goal with
         | |- context [if ?b then _ else _] => destruct b
         | |- context [match ?l with [] => _ | _ :: _ => _ end] => destruct l
         end; cbn [snd]; lia.
Qed.

(* ----- one iteration ----- *)
(* every arm but the comment arm is unconditionally good; the comment arm needs the i32 bound *)
Lemma lex_one_cases U c r : lex_one U c r = lex_comment r \/ good r (lex_one U c r).
Proof.
  unfold lex_one.
  repeat match goal with
         | |- _ \/ good _ (if is_ascii_digit c then _ else _) => destruct (is_ascii_digit c) eqn:Hdig
         | |- _ \/ good _ (if ?b then _ else _) => destruct b
         | |- lex_comment r = lex_comment r \/ _ => left; reflexivity
         | |- _ \/ good _ _ => right
         | |- good _ (Ok (lex_operator _ _)) =>
             pose proof (lex_operator_length c r); destruct (lex_operator c r); apply good_ok; cbn [snd] in *; lia
         | |- good _ (Ok _) => apply good_ok; cbn [length] in *; lia
         | |- good _ (match ?l with [] => _ | _ :: _ => _ end) => destruct l; cbn [length] in *
         | |- good _ (if ?b then _ else _) => destruct b
         | |- good _ (lex_number _ _) => apply lex_number_good; assumption
         | |- good _ (lex_ident _ _ _) => apply lex_ident_good
         | |- good _ (bind (lex_string _ _) _) => apply (good_string TStr); lia
         end.
Qed.

Lemma lex_one_good U c r : (Z.of_nat (length r) < i32_max)%Z -> good r (lex_one U c r).
Proof.
  intros Hlen. destruct (lex_one_cases U c r) as [E|G]; [rewrite E; now apply lex_comment_good | exact G].
Qed.

(* ----- the loop ----- *)
Lemma lex_loop_ok U : forall fuel s racc, (length s < fuel)%nat -> (Z.of_nat (length s) <= i32_max)%Z ->
  exists toks, lex_loop U fuel s racc = Ok toks.
Proof.
  induction fuel as [|f IH]; intros s racc Hf Hl; [lia|].
  cbn [lex_loop]. destruct s as [|c r]; [eauto|].
  cbn [length] in Hf, Hl. rewrite Nat2Z.inj_succ in Hl.
  destruct (lex_one_good U c r ltac:(lia)) as (toks & rest & E & L). rewrite E. cbn [bind].
  apply IH; lia.
Qed.

Lemma lex_total U s : (Z.of_nat (length s) <= i32_max)%Z -> exists toks, lex U s = Ok toks.
Proof. intros H. apply lex_loop_ok; auto. Qed.

Lemma lex_no_panic U s : (Z.of_nat (length s) <= i32_max)%Z -> lex U s <> Panic.
Proof. intros H. destruct (lex_total U s H) as [t E]. rewrite E. discriminate. Qed.

(* termination needs no bound on the input: running out of fuel is impossible because every
   iteration that returns at all returns a strictly shorter input *)
Definition shrinks (r : list N) (o : outcome (list token * list N)) : Prop :=
  match o with Ok (_, rest) => (length rest <= length r)%nat | Panic => True | _ => False end.

Lemma good_shrinks r o : good r o -> shrinks r o.
Proof. intros (toks & rest & -> & L). exact L. Qed.

Lemma range_comment_shrinks : forall s depth racc,
  match range_comment depth s racc with
  | Ok (_, rest) => (length rest <= length s)%nat | Panic => True | _ => False end.
Proof.
  induction s as [|c r IH]; intros depth racc; cbn [range_comment]; [cbn; lia|].
  assert (H : forall z, chk_i32 z = Ok z \/ chk_i32 z = Panic).
  { intros z. unfold chk_i32. destruct ((i32_min <=? z)%Z && (z <=? i32_max)%Z); auto. }
  assert (E1 : (exists d1, (if c =? 40 then chk_i32 (depth + 1) else Ok depth) = Ok d1) \/
               (if c =? 40 then chk_i32 (depth + 1) else Ok depth) = Panic).
  { destruct (c =? 40); [destruct (H (depth + 1)%Z) as [->| ->]|]; eauto. }
  destruct E1 as [[d1 ->]| ->]; cbn [bind]; [|exact I].
  destruct (c =? 41).
  - destruct (H (d1 - 1)%Z) as [->| ->]; cbn [bind]; [|exact I].
    destruct (d1 - 1 =? 0)%Z; [cbn; lia|].
    specialize (IH (d1 - 1)%Z (c :: racc)). destruct (range_comment (d1 - 1) r (c :: racc)) as [[x rest]| | |]; cbn [length]; auto.
  - specialize (IH d1 (c :: racc)). destruct (range_comment d1 r (c :: racc)) as [[x rest]| | |]; cbn [length]; auto.
Qed.

Lemma lex_comment_shrinks r : shrinks r (lex_comment r).
Proof.
  unfold lex_comment. destruct r as [|c r1]; [cbn; lia|].
  destruct (c =? 10); [cbn; lia|].
  destruct (c =? 40).
  - pose proof (range_comment_shrinks r1 1 []) as H. destruct (range_comment 1 r1 []) as [[x rest]| | |]; cbn [bind]; try contradiction; [|exact I].
    destruct x; cbn [shrinks length]; lia.
  - pose proof (line_comment_length r1). destruct (line_comment r1). cbn [shrinks snd length] in *. lia.
Qed.

Lemma lex_one_shrinks U c r : shrinks r (lex_one U c r).
Proof.
  destruct (lex_one_cases U c r) as [E|G]; [rewrite E; apply lex_comment_shrinks | now apply good_shrinks].
Qed.

Lemma lex_loop_no_fuel U : forall fuel s racc, (length s < fuel)%nat -> lex_loop U fuel s racc <> OutOfFuel.
Proof.
  induction fuel as [|f IH]; intros s racc Hf; [lia|].
  cbn [lex_loop]. destruct s as [|c r]; [discriminate|].
  cbn [length] in Hf. pose proof (lex_one_shrinks U c r) as H.
  destruct (lex_one U c r) as [[toks rest]| | |]; cbn [bind shrinks] in *; try discriminate; try contradiction.
  apply IH. lia.
Qed.

Lemma lex_terminates U s : lex U s <> OutOfFuel.
Proof. apply lex_loop_no_fuel. lia. Qed.

Lemma lex_no_panic_total : forall (U : uclass) (s : list N),
  (Z.of_nat (length s) <= 2147483647)%Z -> lex U s <> Panic /\ exists toks, lex U s = Ok toks.
Proof. intros U s H. split; [exact (lex_no_panic U s H) | exact (lex_total U s H)]. Qed.
