(* C16 - decimal.rs: the parser returns exactly the rational a decimal / scientific / fraction
   text spells (sign included), in lowest terms; it never panics. *)
From Coq Require Import ZArith NArith QArith Qpower List Bool Lia.
From NV Require Import Common.Outcome Text.CodecChars Text.CodecChars_proofs Text.IntText Text.IntText_proofs
  Text.Decimal Text.CodecSpec Text.Radix_proofs.
Import ListNotations.
Open Scope Z_scope.
Ltac Zify.zify_post_hook ::= Z.div_mod_to_equations.

(* ---- outcomes that are neither a panic nor out of fuel ---- *)
Definition safe {A} (o : outcome A) : Prop :=
  match o with Panic | OutOfFuel => False | _ => True end.
Lemma safe_bind {A B} (o : outcome A) (f : A -> outcome B) :
  safe o -> (forall a, safe (f a)) -> safe (bind o f).
Proof. destruct o; cbn; auto. Qed.
Lemma safe_opt_out {A} (o : option A) : safe (opt_out o).
Proof. destruct o; exact I. Qed.
Lemma safe_not {A} (o : outcome A) : safe o -> o <> Panic /\ o <> OutOfFuel.
Proof. destruct o; cbn; intros H; try contradiction; split; discriminate. Qed.

Lemma pow10_pos k : 0 <= k -> 0 < 10 ^ k.
Proof. intros. apply Z.pow_pos_nonneg; lia. Qed.

Lemma safe_apply_exp10 b e : safe (apply_exp10 b e).
Proof.
  unfold apply_exp10, ratio_new. destruct (Z.leb_spec 0 e); [exact I|].
  destruct (Z.eqb_spec (10 ^ (- e)) 0) as [E|E]; [|exact I].
  pose proof (pow10_pos (- e) ltac:(lia)). lia.
Qed.

Lemma safe_parse_decimal s : safe (parse_decimal_exactly s).
Proof.
  unfold parse_decimal_exactly. apply safe_bind.
  - destruct (split_on is_e s) as [[bp ep]|]; [|exact I].
    apply safe_bind; [apply safe_opt_out | intros; exact I].
  - intros [base_str exponent].
    destruct (split_on is_dot base_str) as [[ip fp]|].
    + destruct (strip_sign ip) as [negative ip'].
      destruct (starts_with_sign ip'); [exact I|].
      destruct (is_nil ip' && is_nil fp); [exact I|].
      destruct (negb (all_chars is_ascii_digit fp)); [exact I|].
      apply safe_bind; [destruct (is_nil ip'); [exact I | apply safe_opt_out]|]. intros id.
      apply safe_bind; [destruct (is_nil fp); [exact I | apply safe_opt_out]|]. intros fd.
      apply safe_bind; [apply safe_opt_out|]. intros sh.
      apply safe_bind; [apply safe_opt_out|]. intros e'.
      apply safe_apply_exp10.
    + apply safe_bind; [apply safe_opt_out|]. intros b. apply safe_apply_exp10.
Qed.

Theorem decimal_parse_no_panic : forall s : str,
  parse_rational_exactly s <> Panic /\ parse_rational_exactly s <> OutOfFuel /\
  parse_decimal_exactly s <> Panic /\ parse_decimal_exactly s <> OutOfFuel.
Proof.
  intros s.
  assert (H : safe (parse_rational_exactly s)).
  { unfold parse_rational_exactly. destruct (split_on is_slash (trim s)) as [[n d]|]; [|apply safe_parse_decimal].
    apply safe_bind; [apply safe_parse_decimal|]. intros qn.
    apply safe_bind; [apply safe_parse_decimal|]. intros qd.
    unfold ratio_is_zero, ratio_div. destruct (Qnum qd =? 0); exact I. }
  destruct (safe_not _ H). destruct (safe_not _ (safe_parse_decimal s)). auto.
Qed.

(* ---- rationals in lowest terms ---- *)
Lemma Qred_inject_Z z : Qred (inject_Z z) = inject_Z z.
Proof.
  unfold Qred, inject_Z.
  pose proof (Z.ggcd_gcd z 1) as Hg. pose proof (Z.ggcd_correct_divisors z 1) as Hd.
  destruct (Z.ggcd z 1) as (g, (aa, bb)). cbn [fst snd] in *.
  rewrite Z.gcd_1_r in Hg. subst g. destruct Hd as [Ha Hb].
  assert (Ea : aa = z) by lia. assert (Eb : bb = 1) by lia. clear Ha Hb. subst aa bb. reflexivity.
Qed.
Lemma Qred_Qred q : Qred (Qred q) = Qred q.
Proof. apply Qred_complete. apply Qred_correct. Qed.

Lemma apply_exp10_value m sc :
  exists q, apply_exp10 m sc = Ok q /\ (q == inject_Z m * pow10 sc)%Q /\ Qred q = q.
Proof.
  unfold apply_exp10, pow10, ratio_new. destruct (Z.leb_spec 0 sc) as [Hp|Hn].
  - eexists; split; [reflexivity|]. split; [|apply Qred_inject_Z].
    unfold inject_Z, Qeq, Qmult. cbn. lia.
  - destruct (Z.eqb_spec (10 ^ (- sc)) 0) as [E|E].
    { pose proof (pow10_pos (- sc) ltac:(lia)). lia. }
    eexists; split; [reflexivity|]. split; [|apply Qred_Qred].
    rewrite Qred_correct. reflexivity.
Qed.

(* ---- character classes of rendered texts ---- *)
Definition plainc (c : N) : bool :=
  negb (is_e c) && negb (is_dot c) && negb (is_slash c) && negb (is_whitespace c).

Lemma digit_plain d : 0 <= d < 10 -> plainc (digit_char d) = true.
Proof.
  intros H. pose proof (digit_char_10 d H) as E.
  assert (Hc : exists k, (k < 10)%nat /\ d = Z.of_nat k) by (exists (Z.to_nat d); lia).
  destruct Hc as (k & Hk & ->). do 10 (destruct k as [|k]; [reflexivity|]). lia.
Qed.
Lemma digits_plain ds : digits_ok 10 ds -> forallb plainc (map digit_char ds) = true.
Proof.
  intros H. induction H as [|d r Hd Hr IH]; [reflexivity|].
  cbn [map forallb]. rewrite digit_plain by exact Hd. exact IH.
Qed.
Lemma sign_plain s : forallb plainc (sign_text s) = true.
Proof. destruct s; reflexivity. Qed.

Lemma forallb_weaken {A} (p q : A -> bool) l :
  (forall x, p x = true -> q x = true) -> forallb p l = true -> forallb q l = true.
Proof. intros Hpq H. rewrite forallb_forall in *. auto. Qed.

Lemma plain_not_e c : plainc c = true -> negb (is_e c) = true.
Proof. unfold plainc. intros H. repeat (apply andb_true_iff in H; destruct H as [H ?]). exact H. Qed.
Lemma plain_not_dot c : plainc c = true -> negb (is_dot c) = true.
Proof. unfold plainc. intros H. repeat (apply andb_true_iff in H; destruct H as [H ?]). assumption. Qed.
Lemma plain_not_slash c : plainc c = true -> negb (is_slash c) = true.
Proof. unfold plainc. intros H. repeat (apply andb_true_iff in H; destruct H as [H ?]). assumption. Qed.
Lemma plain_not_ws c : plainc c = true -> is_whitespace c = false.
Proof. unfold plainc. intros H. repeat (apply andb_true_iff in H; destruct H as [H ?]). apply negb_true_iff. assumption. Qed.

Lemma digits_all_ascii ds : digits_ok 10 ds -> all_chars is_ascii_digit (map digit_char ds) = true.
Proof.
  intros H. unfold all_chars. induction H as [|d r Hd Hr IH]; [reflexivity|].
  cbn [map forallb]. rewrite digit_char_is_ascii_digit by exact Hd. exact IH.
Qed.

(* ---- pieces of parse_decimal_exactly on a rendered text ---- *)
Definition is_minus (s : sign) : bool := match s with SMinus => true | _ => false end.

Lemma strip_sign_render s ds : digits_ok 10 ds ->
  strip_sign (sign_text s ++ map digit_char ds) = (is_minus s, map digit_char ds).
Proof.
  intros H. destruct s; cbn [sign_text app is_minus]; try reflexivity.
  destruct H as [|d r Hd Hr]; [reflexivity|].
  destruct (digit_char_facts d Hd) as (_ & Ep & Em & _).
  cbn [map strip_sign]. rewrite Em, Ep. reflexivity.
Qed.

Lemma starts_with_sign_digits ds : digits_ok 10 ds -> starts_with_sign (map digit_char ds) = false.
Proof.
  intros H. destruct H as [|d r Hd Hr]; [reflexivity|].
  destruct (digit_char_facts d Hd) as (_ & Ep & Em & _).
  cbn [map starts_with_sign]. unfold is_sign. rewrite Ep, Em. reflexivity.
Qed.

Lemma digits_value_opt ds : digits_ok 10 ds ->
  (if is_nil (map digit_char ds) then Ok 0 else opt_out (parse_bigint 10 (map digit_char ds))) = Ok (eval_be 10 ds).
Proof.
  intros H. destruct ds as [|d r]; [reflexivity|].
  cbn [map is_nil]. change (digit_char d :: map digit_char r) with (sign_text SNone ++ map digit_char (d :: r)).
  rewrite parse_bigint_signed by (try discriminate; exact H). reflexivity.
Qed.

Lemma is_nil_map {A B} (f : A -> B) l : is_nil (map f l) = is_nil l.
Proof. destruct l; reflexivity. Qed.

Lemma sign_z_opp s z : (if is_minus s then - z else z) = sign_z s z.
Proof. destruct s; reflexivity. Qed.

Lemma chk_i32_some z e : chk_i32 z = Some e -> e = z /\ chk_i32 e = Some e.
Proof.
  unfold chk_i32. destruct (in_i32b z) eqn:E; intros H; inversion H; subst. rewrite E. auto.
Qed.

(* what the parser computes on a rendered text, in terms of the record *)
Definition decimal_result (d : dec) : outcome Q :=
  e <- opt_out (chk_i32 (exp_value d)) ;;
  sh <- opt_out (chk_i32 (Z.of_nat (length (frac_digits d)))) ;;
  sc <- opt_out (chk_i32 (e - sh)) ;;
  apply_exp10 (dec_mantissa d) sc.

Lemma render_dec_chars (d : dec) : wf_dec d ->
  render_dec d =
  (sign_text (d_sign d) ++ map digit_char (d_int d) ++
   match d_frac d with Some f => 46%N :: map digit_char f | None => [] end) ++
  match d_exp d with
  | Some (up, s, ds) => (if up then 69%N else 101%N) :: sign_text s ++ map digit_char ds
  | None => []
  end.
Proof.
  intros (Hi & Hf & _ & He). unfold render_dec.
  rewrite (map_digit_symbol 10 (d_int d)) by (try lia; exact Hi).
  rewrite <- !app_assoc. f_equal. f_equal. f_equal.
  - unfold frac_digits in Hf. destruct (d_frac d) as [f|]; [|reflexivity].
    rewrite (map_digit_symbol 10 f) by (try lia; exact Hf). reflexivity.
  - destruct (d_exp d) as [[[up s] ds]|]; [|reflexivity]. destruct He as [_ He].
    rewrite (map_digit_symbol 10 ds) by (try lia; exact He). reflexivity.
Qed.

Lemma base_no_e (d : dec) : wf_dec d ->
  forallb (fun x => negb (is_e x))
    (sign_text (d_sign d) ++ map digit_char (d_int d) ++
     match d_frac d with Some f => 46%N :: map digit_char f | None => [] end) = true.
Proof.
  intros (Hi & Hf & _ & _). rewrite !forallb_app.
  rewrite (forallb_weaken plainc _ _ plain_not_e (sign_plain _)).
  rewrite (forallb_weaken plainc _ _ plain_not_e (digits_plain _ Hi)).
  unfold frac_digits in Hf. destruct (d_frac d) as [f|]; [|reflexivity].
  cbn [forallb]. rewrite (forallb_weaken plainc _ _ plain_not_e (digits_plain _ Hf)). reflexivity.
Qed.

Lemma decimal_on_render (d : dec) : wf_dec d ->
  parse_decimal_exactly (render_dec d) = decimal_result d.
Proof.
  intros Hwf. pose proof Hwf as (Hi & Hf & Hne & He).
  rewrite render_dec_chars by exact Hwf.
  set (base := sign_text (d_sign d) ++ map digit_char (d_int d) ++
               match d_frac d with Some f => 46%N :: map digit_char f | None => [] end).
  pose proof (base_no_e d Hwf) as Hbe. fold base in Hbe.
  unfold parse_decimal_exactly, decimal_result.
  (* exponent *)
  assert (Hexp : exists e, chk_i32 (exp_value d) = Some e -> True) by (exists 0; auto).
  clear Hexp.
  assert (Hstep : forall (k : str * Z -> outcome Q),
    (be <- match split_on is_e (base ++ match d_exp d with
                                        | Some (up, s, ds) => (if up then 69%N else 101%N) :: sign_text s ++ map digit_char ds
                                        | None => [] end) with
           | Some (base_part, exp_part) => e <- opt_out (parse_i32 exp_part);; Ok (base_part, e)
           | None => Ok (base ++ match d_exp d with
                                 | Some (up, s, ds) => (if up then 69%N else 101%N) :: sign_text s ++ map digit_char ds
                                 | None => [] end, 0)
           end ;; k be) = (e <- opt_out (chk_i32 (exp_value d)) ;; k (base, e))).
  { intros k. unfold exp_value. destruct (d_exp d) as [[[up s] ds]|].
    - destruct He as [Hdne Hdok].
      rewrite split_on_app; [| exact Hbe | destruct up; reflexivity].
      rewrite parse_i32_signed by assumption. rewrite pos_value_eval_be.
      destruct (chk_i32 (sign_z s (eval_be 10 ds))); reflexivity.
    - rewrite app_nil_r. rewrite split_on_none by exact Hbe. reflexivity. }
  rewrite Hstep. clear Hstep.
  destruct (chk_i32 (exp_value d)) as [e|] eqn:Ee; [|reflexivity].
  destruct (chk_i32_some _ _ Ee) as [_ Ein].
  cbn [opt_out bind].
  (* decimal point *)
  unfold base, dec_mantissa, frac_digits in *. destruct (d_frac d) as [f|].
  - rewrite app_assoc.
    rewrite split_on_app; [| | reflexivity].
    2:{ rewrite forallb_app.
        rewrite (forallb_weaken plainc _ _ plain_not_dot (sign_plain _)).
        rewrite (forallb_weaken plainc _ _ plain_not_dot (digits_plain _ Hi)). reflexivity. }
    rewrite strip_sign_render by exact Hi.
    rewrite starts_with_sign_digits by exact Hi.
    rewrite !is_nil_map.
    assert (Hnil : is_nil (d_int d) && is_nil f = false).
    { destruct (d_int d) as [|x r]; [|reflexivity]. destruct f; [exfalso; apply Hne; reflexivity | reflexivity]. }
    rewrite Hnil. rewrite digits_all_ascii by exact Hf. cbn [negb].
    pose proof (digits_value_opt (d_int d) Hi) as Vi. rewrite is_nil_map in Vi. rewrite Vi.
    pose proof (digits_value_opt f Hf) as Vf. rewrite is_nil_map in Vf. rewrite Vf.
    cbn [bind]. rewrite map_length.
    destruct (chk_i32 (Z.of_nat (length f))) as [sh|] eqn:Esh; [|reflexivity].
    assert (sh = Z.of_nat (length f)).
    { unfold chk_i32 in Esh. destruct (in_i32b (Z.of_nat (length f))); inversion Esh; reflexivity. }
    subst sh. cbn [opt_out bind].
    destruct (chk_i32 (e - Z.of_nat (length f))) as [sc|]; [|reflexivity].
    cbn [opt_out bind]. f_equal.
    rewrite sign_z_opp. f_equal. rewrite pos_value_eval_be, eval_be_app_gen. reflexivity.
  - rewrite app_nil_r in *.
    rewrite split_on_none.
    2:{ rewrite forallb_app.
        rewrite (forallb_weaken plainc _ _ plain_not_dot (sign_plain _)).
        rewrite (forallb_weaken plainc _ _ plain_not_dot (digits_plain _ Hi)). reflexivity. }
    assert (Hine : d_int d <> []) by (intro E; apply (Hne E); reflexivity).
    rewrite parse_bigint_signed by assumption.
    cbn [opt_out bind length Z.of_nat].
    rewrite chk_i32_in by (unfold i32_min, i32_max; lia). cbn [opt_out bind].
    rewrite Z.sub_0_r.
    rewrite Ein. cbn [opt_out bind]. rewrite pos_value_eval_be, app_nil_r. reflexivity.
Qed.

Lemma decimal_result_fits d : exp_fits d ->
  exists q, decimal_result d = Ok q /\ (q == dec_value d)%Q /\ Qred q = q.
Proof.
  intros (H1 & H2 & H3). unfold decimal_result, i32_ok, dec_scale in *.
  rewrite (chk_i32_in (exp_value d)) by (unfold i32_min, i32_max; lia). cbn [opt_out bind].
  rewrite (chk_i32_in (Z.of_nat _)) by (unfold i32_min, i32_max; lia). cbn [opt_out bind].
  rewrite chk_i32_in by (unfold i32_min, i32_max; lia). cbn [opt_out bind].
  apply apply_exp10_value.
Qed.

Lemma decimal_result_unfit d : ~ exp_fits d -> decimal_result d = Err EValue.
Proof.
  intros H. unfold decimal_result.
  destruct (chk_i32 (exp_value d)) as [e|] eqn:E1; [|reflexivity]. cbn [opt_out bind].
  destruct (chk_i32 (Z.of_nat (length (frac_digits d)))) as [sh|] eqn:E2; [|reflexivity]. cbn [opt_out bind].
  destruct (chk_i32 (e - sh)) as [sc|] eqn:E3; [|reflexivity]. exfalso. apply H.
  assert (G : forall z r, chk_i32 z = Some r -> r = z /\ i32_ok z).
  { intros z r. unfold chk_i32, in_i32b, i32_min, i32_max, i32_ok.
    destruct (Z.leb_spec (- 2 ^ 31) z); destruct (Z.leb_spec z (2 ^ 31 - 1)); cbn; intros Q; inversion Q; lia. }
  destruct (G _ _ E1) as [-> G1]. destruct (G _ _ E2) as [-> G2]. destruct (G _ _ E3) as [_ G3].
  unfold exp_fits, dec_scale. auto.
Qed.

(* THE decimal theorem: a rendered (sign, digits, fraction digits, exponent) reads as the number it spells *)
Theorem decimal_exact : forall d : dec, wf_dec d ->
  (exp_fits d -> exists q, parse_decimal_exactly (render_dec d) = Ok q /\ (q == dec_value d)%Q /\ Qred q = q) /\
  (~ exp_fits d -> parse_decimal_exactly (render_dec d) = Err EValue).
Proof.
  intros d Hwf. rewrite decimal_on_render by exact Hwf. split.
  - apply decimal_result_fits.
  - apply decimal_result_unfit.
Qed.

(* ---- white space and the fraction bar ---- *)
Lemma no_ws_ends_of core : core <> [] -> is_whitespace (hd 0%N core) = false ->
  is_whitespace (last core 0%N) = false -> no_ws_ends core.
Proof.
  intros Hne Hh Hl. destruct core as [|a r]; [contradiction|]. cbn [hd] in Hh.
  destruct r as [|b r'].
  - exists a, []. split; [left; reflexivity | exact Hh].
  - destruct (exists_last (l := b :: r') ltac:(discriminate)) as (m & z & E).
    exists a, m. split; [|exact Hh]. right. exists z. rewrite E. split; [reflexivity|].
    rewrite E in Hl. change (a :: m ++ [z]) with ((a :: m) ++ [z]) in Hl. rewrite last_last in Hl. exact Hl.
Qed.

Lemma forallb_hd {A} (p : A -> bool) l d : l <> [] -> forallb p l = true -> p (hd d l) = true.
Proof. destruct l; [contradiction|]. cbn. intros _ H. apply andb_true_iff in H. apply H. Qed.
Lemma forallb_last {A} (p : A -> bool) l d : l <> [] -> forallb p l = true -> p (last l d) = true.
Proof.
  intros Hne H. destruct (exists_last Hne) as (m & z & ->). rewrite last_last.
  rewrite forallb_app in H. apply andb_true_iff in H. destruct H as [_ H]. cbn in H.
  apply andb_true_iff in H. apply H.
Qed.
Lemma last_app_ne {A} (l1 l2 : list A) d : l2 <> [] -> last (l1 ++ l2) d = last l2 d.
Proof.
  intros Hne. destruct (exists_last Hne) as (m & z & ->). rewrite app_assoc, !last_last. reflexivity.
Qed.
Lemma hd_app_ne {A} (l1 l2 : list A) d : l1 <> [] -> hd d (l1 ++ l2) = hd d l1.
Proof. destruct l1; [contradiction | reflexivity]. Qed.

Definition textc (c : N) : bool := negb (is_slash c) && negb (is_whitespace c).
Lemma plain_textc c : plainc c = true -> textc c = true.
Proof.
  intros H. unfold textc. rewrite (plain_not_slash c H), (plain_not_ws c H). reflexivity.
Qed.

Lemma render_dec_text d : wf_dec d -> render_dec d <> [] /\ forallb textc (render_dec d) = true.
Proof.
  intros Hwf. pose proof Hwf as (Hi & Hf & Hne & He). rewrite render_dec_chars by exact Hwf. split.
  - intro E. apply app_eq_nil in E. destruct E as [E _]. apply app_eq_nil in E. destruct E as [_ E].
    apply app_eq_nil in E. destruct E as [E1 E2].
    assert (Hi0 : d_int d = []) by (destruct (d_int d); [reflexivity | discriminate]).
    apply (Hne Hi0). unfold frac_digits. destruct (d_frac d); [discriminate | reflexivity].
  - rewrite !forallb_app.
    rewrite (forallb_weaken plainc _ _ plain_textc (sign_plain _)).
    rewrite (forallb_weaken plainc _ _ plain_textc (digits_plain _ Hi)).
    unfold frac_digits in Hf.
    assert (F1 : forallb textc match d_frac d with Some f => 46%N :: map digit_char f | None => [] end = true).
    { destruct (d_frac d) as [f|]; [|reflexivity]. cbn [forallb].
      rewrite (forallb_weaken plainc _ _ plain_textc (digits_plain _ Hf)). reflexivity. }
    rewrite F1. cbn [andb].
    destruct (d_exp d) as [[[up s] ds]|]; [|reflexivity]. destruct He as [_ He].
    cbn [forallb]. rewrite forallb_app.
    rewrite (forallb_weaken plainc _ _ plain_textc (sign_plain _)).
    rewrite (forallb_weaken plainc _ _ plain_textc (digits_plain _ He)). destruct up; reflexivity.
Qed.

Lemma textc_not_ws c : textc c = true -> is_whitespace c = false.
Proof. unfold textc. intros H. apply andb_true_iff in H. destruct H as [_ H]. apply negb_true_iff. exact H. Qed.
Lemma textc_not_slash c : textc c = true -> negb (is_slash c) = true.
Proof. unfold textc. intros H. apply andb_true_iff in H. apply H. Qed.
Lemma ws_not_slash c : is_whitespace c = true -> negb (is_slash c) = true.
Proof.
  intros H. unfold is_slash. destruct (N.eqb_spec c c_slash) as [->|]; [discriminate H | reflexivity].
Qed.

Lemma trim_render ws1 d ws2 : wf_dec d ->
  forallb is_whitespace ws1 = true -> forallb is_whitespace ws2 = true ->
  trim (ws1 ++ render_dec d ++ ws2) = render_dec d.
Proof.
  intros Hwf H1 H2. destruct (render_dec_text d Hwf) as [Hne Ht].
  apply trim_core; [exact H1 | exact H2|]. apply no_ws_ends_of; [exact Hne| |].
  - apply textc_not_ws. apply forallb_hd; assumption.
  - apply textc_not_ws. apply forallb_last; assumption.
Qed.

(* rational(s) for one decimal, white space around it allowed *)
Theorem rational_exact_decimal : forall (d : dec) (ws1 ws2 : str), wf_dec d ->
  all_ws is_whitespace ws1 -> all_ws is_whitespace ws2 ->
  (exp_fits d -> exists q, parse_rational_exactly (ws1 ++ render_dec d ++ ws2) = Ok q /\
                           (q == dec_value d)%Q /\ Qred q = q) /\
  (~ exp_fits d -> parse_rational_exactly (ws1 ++ render_dec d ++ ws2) = Err EValue).
Proof.
  intros d ws1 ws2 Hwf H1 H2. unfold parse_rational_exactly.
  rewrite trim_render by assumption.
  destruct (render_dec_text d Hwf) as [_ Ht].
  rewrite split_on_none by (apply (forallb_weaken textc _ _ textc_not_slash Ht)).
  apply decimal_exact. exact Hwf.
Qed.

(* rational(s) for p / q *)
Theorem rational_exact_fraction : forall (p q : dec) (ws1 ws2 ws3 ws4 : str), wf_dec p -> wf_dec q ->
  exp_fits p -> exp_fits q ->
  all_ws is_whitespace ws1 -> all_ws is_whitespace ws2 -> all_ws is_whitespace ws3 -> all_ws is_whitespace ws4 ->
  let s := ws1 ++ render_dec p ++ ws2 ++ [47%N] ++ ws3 ++ render_dec q ++ ws4 in
  ((dec_value q == 0)%Q -> parse_rational_exactly s = Err EValue) /\
  (~ (dec_value q == 0)%Q ->
   exists r, parse_rational_exactly s = Ok r /\ (r == dec_value p / dec_value q)%Q /\ Qred r = r).
Proof.
  intros p q ws1 ws2 ws3 ws4 Hp Hq Fp Fq H1 H2 H3 H4 s.
  destruct (render_dec_text p Hp) as [Pne Pt]. destruct (render_dec_text q Hq) as [Qne Qt].
  set (core := render_dec p ++ ws2 ++ [47%N] ++ ws3 ++ render_dec q).
  assert (Hs : s = ws1 ++ core ++ ws4).
  { unfold s, core. rewrite <- !app_assoc. reflexivity. }
  assert (Htrim : trim s = core).
  { rewrite Hs. apply trim_core; [exact H1 | exact H4|]. apply no_ws_ends_of.
    - unfold core. intro E. apply app_eq_nil in E. destruct E as [E _]. exact (Pne E).
    - unfold core. rewrite hd_app_ne by exact Pne. apply textc_not_ws. apply forallb_hd; assumption.
    - unfold core. rewrite !app_assoc. rewrite last_app_ne by exact Qne.
      apply textc_not_ws. apply forallb_last; assumption. }
  assert (Hsplit : split_on is_slash core = Some (render_dec p ++ ws2, ws3 ++ render_dec q)).
  { unfold core. rewrite app_assoc. apply split_on_app; [|reflexivity].
    rewrite forallb_app. rewrite (forallb_weaken textc _ _ textc_not_slash Pt).
    rewrite (forallb_weaken is_whitespace _ _ ws_not_slash H2). reflexivity. }
  assert (Tn : trim (render_dec p ++ ws2) = render_dec p).
  { apply (trim_render [] p ws2 Hp); [reflexivity | exact H2]. }
  assert (Td : trim (ws3 ++ render_dec q) = render_dec q).
  { pose proof (trim_render ws3 q [] Hq H3 eq_refl) as T. rewrite app_nil_r in T. exact T. }
  destruct (proj1 (decimal_exact p Hp) Fp) as (qp & Ep & Vp & Rp).
  destruct (proj1 (decimal_exact q Hq) Fq) as (qq & Eq & Vq & Rq).
  unfold parse_rational_exactly. rewrite Htrim, Hsplit, Tn, Td, Ep, Eq. cbn [bind].
  unfold ratio_is_zero, ratio_div.
  assert (Hz : Qnum qq = 0 <-> (dec_value q == 0)%Q).
  { rewrite <- Vq. unfold Qeq. cbn. split; lia. }
  split.
  - intros H0. apply Hz in H0. rewrite H0. reflexivity.
  - intros Hn0. destruct (Z.eqb_spec (Qnum qq) 0) as [E|E]; [exfalso; apply Hn0; apply Hz; exact E|].
    eexists. split; [reflexivity|]. split; [|apply Qred_Qred].
    rewrite Qred_correct, Vp, Vq. reflexivity.
Qed.

(* the spec's 10^e is the standard rational power *)
Lemma pos_pow_1_l p : (1 ^ p = 1)%positive.
Proof. apply Pos2Z.inj. rewrite Pos2Z.inj_pow. apply Z.pow_1_l. lia. Qed.
Lemma pow10_Qpower e : (pow10 e == Qpower (10 # 1) e)%Q.
Proof.
  unfold pow10. destruct e as [|p|p].
  - reflexivity.
  - cbn [Z.leb Z.compare]. cbv iota. cbn [Qpower]. rewrite Qpower_decomp_positive.
    unfold inject_Z. rewrite pos_pow_1_l. reflexivity.
  - cbn [Z.leb Z.compare Z.opp]. cbv iota. cbn [Qpower]. rewrite Qpower_decomp_positive.
    unfold inject_Z. rewrite pos_pow_1_l. reflexivity.
Qed.
Theorem dec_value_scientific : forall d : dec,
  (dec_value d == inject_Z (dec_mantissa d) * Qpower (10 # 1) (dec_scale d))%Q.
Proof. intros d. unfold dec_value. rewrite pow10_Qpower. reflexivity. Qed.
