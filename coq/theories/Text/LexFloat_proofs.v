(* C15 - float literals: the text handed to str::parse::<f64> is exactly the literal's own
   digits (integer part, '.', fraction, optional exponent with optional '-'), the exponent
   marker normalised to 'e', the suffix f/F dropped.  The conversion text -> f64 itself is
   Rust's (assumed correctly rounded; the driver compares it with Python's float()). *)
From Coq Require Import NArith ZArith List Bool Lia.
From NV Require Import Common.Outcome Text.Chars Text.Chars_proofs Text.LexLit Text.LexLit_proofs
  Text.Lexer Text.Lexer_proofs Text.LexSpec Text.LexSpec_proofs.
Import ListNotations.
Open Scope N_scope.

Definition digits (l : list N) : Prop := forallb is_ascii_digit l = true.

(* exponent part as written (upper: E instead of e) and as accumulated *)
Definition exp_src (ex : option (bool * bool * list N)) : list N :=
  match ex with
  | None => []
  | Some (upper, neg, e) => (if upper then 69 else 101) :: (if neg then [45] else []) ++ e
  end.
Definition exp_acc (ex : option (bool * bool * list N)) : list N :=
  match ex with
  | None => []
  | Some (_, neg, e) => 101 :: (if neg then [45] else []) ++ e
  end.
Definition exp_ok (ex : option (bool * bool * list N)) : Prop :=
  match ex with None => True | Some (_, _, e) => e <> [] /\ digits e end.

Lemma not_digit_head (l rest : list N) (k : N) : is_ascii_digit k = false ->
  match (k :: l) ++ rest with [] => True | c :: _ => is_ascii_digit c = false end.
Proof. intros H. exact H. Qed.

Lemma float_literal_text U ip fp ex rest : ip <> [] -> digits ip -> digits fp -> exp_ok ex -> stops rest ->
  lex_first U (ip ++ 46 :: fp ++ exp_src ex ++ rest) = Ok ([TFloat (ip ++ 46 :: fp ++ exp_acc ex)], rest).
Proof.
  intros Hne Hip Hfp Hex Hr. destruct (digit_string_shape ip Hne Hip) as (c & ds & -> & Hc & Hds).
  cbn [app lex_first]. rewrite (lex_one_digit U c _ Hc). unfold lex_number.
  rewrite (span_app is_ascii_digit ds _ Hds) by reflexivity.
  cbn [N.eqb Pos.eqb].
  assert (Hsp : span is_ascii_digit (fp ++ exp_src ex ++ rest) = (fp, exp_src ex ++ rest)).
  { apply span_app; auto. destruct ex as [[[u ng] e]|]; cbn [exp_src app].
    - destruct u; reflexivity.
    - now apply stops_not_digit. }
  rewrite Hsp. destruct ex as [[[u ng] e]|]; cbn [exp_src exp_acc app].
  - destruct Hex as [He1 He2].
    assert (Hse : span is_ascii_digit (e ++ rest) = (e, rest)) by (apply span_app; auto; now apply stops_not_digit).
    assert (Hlen : negb (N.of_nat (length e) =? 0) = true).
    { destruct e; [congruence|]. cbn [length]. rewrite Nat2N.inj_succ. destruct (N.eqb_spec (N.succ (N.of_nat (length e))) 0); [lia|reflexivity]. }
    destruct (digit_string_shape e He1 He2) as (e0 & e' & Ee & He0 & _).
    destruct u, ng; cbn [N.eqb Pos.eqb orb app]; unfold lex_exponent; cbn [N.eqb Pos.eqb app].
    + rewrite Hse, Hlen. cbn [float_tok]. repeat (rewrite <- app_assoc; cbn [app]). reflexivity.
    + subst e. cbn [app].
      replace (e0 =? 45) with false by (apply ascii_digit_cases in He0; repeat (destruct He0 as [He0|He0]; [subst; reflexivity|]); subst; reflexivity).
      change (e0 :: e' ++ rest) with ((e0 :: e') ++ rest). rewrite Hse, Hlen. cbn [float_tok]. repeat (rewrite <- app_assoc; cbn [app]). reflexivity.
    + rewrite Hse, Hlen. cbn [float_tok]. repeat (rewrite <- app_assoc; cbn [app]). reflexivity.
    + subst e. cbn [app].
      replace (e0 =? 45) with false by (apply ascii_digit_cases in He0; repeat (destruct He0 as [He0|He0]; [subst; reflexivity|]); subst; reflexivity).
      change (e0 :: e' ++ rest) with ((e0 :: e') ++ rest). rewrite Hse, Hlen. cbn [float_tok]. repeat (rewrite <- app_assoc; cbn [app]). reflexivity.
  - rewrite !app_nil_r. destruct rest as [|k r4]; [reflexivity|].
    cbn in Hr. apply delim_facts in Hr. destruct Hr as (_ & _ & _ & Hr). cbn [existsb] in Hr.
    repeat (apply orb_false_iff in Hr; destruct Hr as [? Hr]).
    repeat match goal with H : (k =? _) = false |- _ => rewrite H; clear H end.
    cbn [orb]. reflexivity.
Qed.

(* <digits>f : the digits, as a float *)
Lemma float_suffix_text U ip (up : bool) rest : ip <> [] -> digits ip ->
  lex_first U (ip ++ (if up then 70 else 102) :: rest) = Ok ([TFloat ip], rest).
Proof.
  intros Hne Hip. destruct (digit_string_shape ip Hne Hip) as (c & ds & -> & Hc & Hds).
  cbn [app lex_first]. rewrite (lex_one_digit U c _ Hc). unfold lex_number.
  rewrite (span_app is_ascii_digit ds _ Hds) by (destruct up; reflexivity).
  destruct up; cbn [N.eqb Pos.eqb orb andb]; rewrite ?andb_false_r; cbn [orb]; reflexivity.
Qed.

(* <digits>i|j and <digits>.<digits>i|j : imaginary *)
Lemma imag_literal_text U ip (k : N) rest : ip <> [] -> digits ip -> In k [105; 73; 106; 74] ->
  lex_first U (ip ++ k :: rest) = Ok ([TImag ip], rest).
Proof.
  intros Hne Hip Hk. destruct (digit_string_shape ip Hne Hip) as (c & ds & -> & Hc & Hds).
  cbn [app lex_first]. rewrite (lex_one_digit U c _ Hc). unfold lex_number.
  rewrite (span_app is_ascii_digit ds _ Hds) by (cbn in Hk; repeat destruct Hk as [Hk|Hk]; try contradiction; subst; reflexivity).
  cbn in Hk. repeat destruct Hk as [Hk|Hk]; try contradiction; subst k;
    cbn [N.eqb Pos.eqb orb andb]; rewrite ?andb_false_r; cbn [orb]; reflexivity.
Qed.

(* an exponent marker with no digit after it is rejected, never read as a number *)
Lemma empty_exponent_invalid U ip (up neg : bool) rest : ip <> [] -> digits ip -> stops rest ->
  lex_first U (ip ++ (if up then 69 else 101) :: (if neg then [45] else []) ++ rest) = Ok ([TInvalid IBadFloat], rest).
Proof.
  intros Hne Hip Hr. destruct (digit_string_shape ip Hne Hip) as (c & ds & -> & Hc & Hds).
  cbn [app lex_first]. rewrite (lex_one_digit U c _ Hc). unfold lex_number.
  rewrite (span_app is_ascii_digit ds _ Hds) by (destruct up; reflexivity).
  assert (Hse : span is_ascii_digit rest = ([], rest)) by (apply (span_app is_ascii_digit [] rest eq_refl); now apply stops_not_digit).
  assert (H45 : match rest with [] => True | k :: _ => (k =? 45) = false end).
  { destruct rest as [|k r]; auto. cbn in Hr. unfold is_delim in Hr. cbn [existsb] in Hr.
    repeat (apply orb_true_iff in Hr; destruct Hr as [Hr|Hr]); try discriminate; apply N.eqb_eq in Hr; subst; reflexivity. }
  destruct up, neg; cbn [N.eqb Pos.eqb orb andb app]; rewrite ?andb_false_r; cbn [orb]; unfold lex_exponent; cbn [N.eqb Pos.eqb app];
    try (rewrite Hse; reflexivity);
    (destruct rest as [|k r]; [reflexivity|]; rewrite H45; rewrite Hse; reflexivity).
Qed.

Lemma float_suffix_imag_text U ip : ip <> [] -> digits ip ->
  (forall (up : bool) rest, lex_first U (ip ++ (if up then 70 else 102) :: rest) = Ok ([TFloat ip], rest)) /\
  (forall k rest, In k [105; 73; 106; 74] -> lex_first U (ip ++ k :: rest) = Ok ([TImag ip], rest)) /\
  (forall (up neg : bool) rest, stops rest ->
     lex_first U (ip ++ (if up then 69 else 101) :: (if neg then [45] else []) ++ rest) = Ok ([TInvalid IBadFloat], rest)).
Proof.
  intros H1 H2. repeat split; intros.
  - now apply float_suffix_text.
  - now apply imag_literal_text.
  - now apply empty_exponent_invalid.
Qed.
