(* C15 - float literals: the text handed to str::parse::<f64> is exactly the literal's own
   digits (integer part, '.', fraction, optional exponent with optional sign '-' or '+'), the
   exponent marker normalised to 'e', the suffix f/F dropped.  The conversion text -> f64
   itself is Rust's (assumed correctly rounded; the driver compares it with Python's float()). *)
From Coq Require Import NArith ZArith List Bool Lia.
From NV Require Import Common.Outcome Text.Chars Text.Chars_proofs Text.LexLit Text.LexLit_proofs
  Text.Lexer Text.Lexer_proofs Text.LexSpec Text.LexSpec_proofs.
Import ListNotations.
Open Scope N_scope.

Definition digits (l : list N) : Prop := forallb is_ascii_digit l = true.

(* the sign of an exponent as written: none, '-' or '+' *)
Inductive esign := SgnNone | SgnMinus | SgnPlus.
Definition sign_text (sg : esign) : list N :=
  match sg with SgnNone => [] | SgnMinus => [45] | SgnPlus => [43] end.

(* exponent part as written (upper: E instead of e) and as accumulated *)
Definition exp_src (ex : option (bool * esign * list N)) : list N :=
  match ex with
  | None => []
  | Some (upper, sg, e) => (if upper then 69 else 101) :: sign_text sg ++ e
  end.
Definition exp_acc (ex : option (bool * esign * list N)) : list N :=
  match ex with
  | None => []
  | Some (_, sg, e) => 101 :: sign_text sg ++ e
  end.
Definition exp_ok (ex : option (bool * esign * list N)) : Prop :=
  match ex with None => True | Some (_, _, e) => e <> [] /\ digits e end.

Lemma digit_not_sign e0 : is_ascii_digit e0 = true -> (e0 =? 45) || (e0 =? 43) = false.
Proof.
  intros H. apply ascii_digit_cases in H.
  repeat (destruct H as [H|H]; [subst; reflexivity|]). subst; reflexivity.
Qed.

(* the exponent arm on  [sign] digits rest *)
Lemma lex_exponent_signed acc sg e rest : e <> [] -> digits e -> stops rest ->
  lex_exponent acc (sign_text sg ++ e ++ rest) = (TFloat (acc ++ 101 :: sign_text sg ++ e), rest).
Proof.
  intros He1 He2 Hr.
  assert (Hse : span is_ascii_digit (e ++ rest) = (e, rest)) by (apply span_app; auto; now apply stops_not_digit).
  assert (Hlen : negb (N.of_nat (length e) =? 0) = true).
  { destruct e; [congruence|]. cbn [length]. rewrite Nat2N.inj_succ.
    destruct (N.eqb_spec (N.succ (N.of_nat (length e))) 0); [lia|reflexivity]. }
  unfold lex_exponent. destruct sg; cbn [sign_text app N.eqb Pos.eqb orb].
  - destruct (digit_string_shape e He1 He2) as (e0 & e' & Ee & He0 & _). subst e. cbn [app].
    rewrite (digit_not_sign e0 He0). change (e0 :: e' ++ rest) with ((e0 :: e') ++ rest).
    rewrite Hse, Hlen. cbn [float_tok]. repeat (rewrite <- app_assoc; cbn [app]). reflexivity.
  - rewrite Hse, Hlen. cbn [float_tok]. repeat (rewrite <- app_assoc; cbn [app]). reflexivity.
  - rewrite Hse, Hlen. cbn [float_tok]. repeat (rewrite <- app_assoc; cbn [app]). reflexivity.
Qed.

(* ... and with no digit after the marker and optional sign: rejected *)
Lemma lex_exponent_empty acc sg rest : stops rest ->
  lex_exponent acc (sign_text sg ++ rest) = (TInvalid IBadFloat, rest).
Proof.
  intros Hr.
  assert (Hse : span is_ascii_digit rest = ([], rest)) by (apply (span_app is_ascii_digit [] rest eq_refl); now apply stops_not_digit).
  unfold lex_exponent. destruct sg; cbn [sign_text app N.eqb Pos.eqb orb]; try (rewrite Hse; reflexivity).
  destruct rest as [|k r]; [reflexivity|].
  assert (Hk : (k =? 45) || (k =? 43) = false).
  { cbn in Hr. unfold is_delim in Hr. cbn [existsb] in Hr.
    repeat (apply orb_true_iff in Hr; destruct Hr as [Hr|Hr]); try discriminate; apply N.eqb_eq in Hr; subst; reflexivity. }
  rewrite Hk, Hse. reflexivity.
Qed.

Lemma float_literal_text U ip fp ex rest : ip <> [] -> digits ip -> digits fp -> exp_ok ex -> stops rest ->
  lex_first U (ip ++ 46 :: fp ++ exp_src ex ++ rest) = Ok ([TFloat (ip ++ 46 :: fp ++ exp_acc ex)], rest).
Proof.
  intros Hne Hip Hfp Hex Hr. destruct (digit_string_shape ip Hne Hip) as (c & ds & -> & Hc & Hds).
  cbn [app lex_first]. rewrite (lex_one_digit U c _ Hc). unfold lex_number.
  rewrite (span_app is_ascii_digit ds _ Hds) by reflexivity.
  cbn [N.eqb Pos.eqb].
  assert (Hsp : span is_ascii_digit (fp ++ exp_src ex ++ rest) = (fp, exp_src ex ++ rest)).
  { apply span_app; auto. destruct ex as [[[u sg] e]|]; cbn [exp_src app].
    - destruct u; reflexivity.
    - now apply stops_not_digit. }
  rewrite Hsp. destruct ex as [[[u sg] e]|]; cbn [exp_src exp_acc app].
  - destruct Hex as [He1 He2].
    destruct u; cbn [N.eqb Pos.eqb orb app]; rewrite <- app_assoc.
    all: rewrite (lex_exponent_signed _ sg e rest He1 He2 Hr); cbn [app]; rewrite <- ?app_assoc; cbn [app]; reflexivity.
  - rewrite !app_nil_r. destruct rest as [|k r4]; [reflexivity|].
    cbn in Hr. apply delim_facts in Hr. destruct Hr as (_ & _ & _ & Hr). cbn [existsb] in Hr.
    repeat (apply orb_false_iff in Hr; destruct Hr as [? Hr]).
    repeat match goal with H : (k =? _) = false |- _ => rewrite H; clear H end.
    cbn [orb]. reflexivity.
Qed.

(* the same without a fraction: <digits>e[sign]<digits>, e.g. 1e+21 *)
Lemma float_exponent_text U ip (up : bool) sg e rest : ip <> [] -> digits ip -> e <> [] -> digits e -> stops rest ->
  lex_first U (ip ++ (if up then 69 else 101) :: sign_text sg ++ e ++ rest) =
  Ok ([TFloat (ip ++ 101 :: sign_text sg ++ e)], rest).
Proof.
  intros Hne Hip He1 He2 Hr. destruct (digit_string_shape ip Hne Hip) as (c & ds & -> & Hc & Hds).
  cbn [app lex_first]. rewrite (lex_one_digit U c _ Hc). unfold lex_number.
  rewrite (span_app is_ascii_digit ds _ Hds) by (destruct up; reflexivity).
  destruct up; cbn [N.eqb Pos.eqb orb andb]; rewrite ?andb_false_r; cbn [orb];
    rewrite (lex_exponent_signed _ sg e rest He1 He2 Hr); reflexivity.
Qed.

(* <digits>f : the digits, as a float *)
Lemma float_suffix_text U ip (up : bool) rest : ip <> [] -> digits ip ->
  lex_first U (ip ++ (if up then 70 else 102) :: rest) = Ok ([TFloat ip], rest).
Proof.
  intros Hne Hip. destruct (digit_string_shape ip Hne Hip) as (c & ds & -> & Hc & Hds).
  cbn [app lex_first]. rewrite (lex_one_digit U c _ Hc). unfold lex_number.
  rewrite (span_app is_ascii_digit ds _ Hds) by (destruct up; reflexivity).
  destruct up; cbn [N.eqb Pos.eqb orb andb]; rewrite ?andb_false_r; cbn [orb]; reflexivity.
Qed.

(* <digits>i|j : imaginary *)
Lemma imag_literal_text U ip (k : N) rest : ip <> [] -> digits ip -> In k [105; 73; 106; 74] ->
  lex_first U (ip ++ k :: rest) = Ok ([TImag ip], rest).
Proof.
  intros Hne Hip Hk. destruct (digit_string_shape ip Hne Hip) as (c & ds & -> & Hc & Hds).
  cbn [app lex_first]. rewrite (lex_one_digit U c _ Hc). unfold lex_number.
  rewrite (span_app is_ascii_digit ds _ Hds) by (cbn in Hk; repeat destruct Hk as [Hk|Hk]; try contradiction; subst; reflexivity).
  cbn in Hk. repeat destruct Hk as [Hk|Hk]; try contradiction; subst k;
    cbn [N.eqb Pos.eqb orb andb]; rewrite ?andb_false_r; cbn [orb]; reflexivity.
Qed.

(* an exponent marker (and optional sign) with no digit after it is rejected, never read as a number *)
Lemma empty_exponent_invalid U ip (up : bool) sg rest : ip <> [] -> digits ip -> stops rest ->
  lex_first U (ip ++ (if up then 69 else 101) :: sign_text sg ++ rest) = Ok ([TInvalid IBadFloat], rest).
Proof.
  intros Hne Hip Hr. destruct (digit_string_shape ip Hne Hip) as (c & ds & -> & Hc & Hds).
  cbn [app lex_first]. rewrite (lex_one_digit U c _ Hc). unfold lex_number.
  rewrite (span_app is_ascii_digit ds _ Hds) by (destruct up; reflexivity).
  destruct up; cbn [N.eqb Pos.eqb orb andb]; rewrite ?andb_false_r; cbn [orb];
    rewrite (lex_exponent_empty _ sg rest Hr); reflexivity.
Qed.

Lemma float_suffix_imag_text U ip : ip <> [] -> digits ip ->
  (forall (up : bool) rest, lex_first U (ip ++ (if up then 70 else 102) :: rest) = Ok ([TFloat ip], rest)) /\
  (forall k rest, In k [105; 73; 106; 74] -> lex_first U (ip ++ k :: rest) = Ok ([TImag ip], rest)) /\
  (forall (up : bool) sg rest, stops rest ->
     lex_first U (ip ++ (if up then 69 else 101) :: sign_text sg ++ rest) = Ok ([TInvalid IBadFloat], rest)).
Proof.
  intros H1 H2. repeat split; intros.
  - now apply float_suffix_text.
  - now apply imag_literal_text.
  - now apply empty_exponent_invalid.
Qed.
