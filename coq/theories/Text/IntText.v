(* C16 - decimal text of integers.
   show_int      : Display of i64 / BigInt (sign and magnitude, "0" for zero)
   parse_biguint : <BigUint as Num>::from_str_radix   (num-bigint 0.4.6 biguint/convert.rs:221)
   parse_bigint  : <BigInt  as Num>::from_str_radix   (bigint/convert.rs:27); FromStr is radix 10
   parse_i32     : <i32 as FromStr>::from_str (core::num), checked at every step
   int_of_str / number_of_str : call_type1 Int / Number on a string (core.rs ~662, ~692)
   BigInt is Z.  None stands for Err(ParseBigIntError / ParseIntError). Definitions only. *)
From Coq Require Import ZArith NArith List Bool.
From NV Require Import Common.Outcome Text.CodecChars.
Import ListNotations.
Open Scope Z_scope.

Definition show_nat (n : Z) : str := map digit_char (digits_be 10 n).
Definition show_int (n : Z) : str :=
  if n <? 0 then c_minus :: show_nat (- n) else show_nat n.

(* one byte of the input: Some (Some d) digit, Some None = '_' (skipped), None = invalid *)
Definition big_byte (radix : Z) (c : N) : option (option Z) :=
  if (c =? c_under)%N then Some None
  else match alnum_value c with
       | Some d => if d <? radix then Some (Some d) else None
       | None => None            (* includes every byte of a non-ASCII char *)
       end.

Fixpoint big_collect (radix : Z) (s : str) : option (list Z) :=
  match s with
  | [] => Some []
  | c :: r =>
    match big_byte radix c with
    | None => None
    | Some None => big_collect radix r
    | Some (Some d) => match big_collect radix r with Some ds => Some (d :: ds) | None => None end
    end
  end.

Definition starts_with (c : N) (s : str) : bool :=
  match s with x :: _ => (x =? c)%N | [] => false end.

Definition parse_biguint (radix : Z) (s : str) : option Z :=
  let s := match s with
           | x :: tail => if (x =? c_plus)%N && negb (starts_with c_plus tail) then tail else s
           | [] => s
           end in
  match s with
  | [] => None                                   (* ParseBigIntError::empty *)
  | x :: _ =>
    if (x =? c_under)%N then None                (* must lead with a real digit *)
    else match big_collect radix s with
         | Some ds => Some (eval_be radix ds)
         | None => None
         end
  end.

Definition parse_bigint (radix : Z) (s : str) : option Z :=
  match s with
  | x :: tail =>
    if (x =? c_minus)%N then
      let s' := if starts_with c_plus tail then s else tail in
      match parse_biguint radix s' with Some m => Some (- m) | None => None end
    else parse_biguint radix s
  | [] => parse_biguint radix s
  end.

(* ---- i32::from_str ---- *)
Definition i32_min : Z := - 2 ^ 31.
Definition i32_max : Z := 2 ^ 31 - 1.
Definition in_i32b (z : Z) : bool := (i32_min <=? z) && (z <=? i32_max).
Definition chk_i32 (z : Z) : option Z := if in_i32b z then Some z else None.

Fixpoint i32_loop (positive : bool) (acc : Z) (s : str) : option Z :=
  match s with
  | [] => Some acc
  | c :: r =>
    match chk_i32 (acc * 10), to_digit c 10 with
    | _, None => None                                        (* InvalidDigit *)
    | None, _ => None                                        (* Pos/NegOverflow *)
    | Some m, Some d =>
      match chk_i32 (if positive then m + d else m - d) with
      | Some a => i32_loop positive a r
      | None => None
      end
    end
  end.

Definition parse_i32 (s : str) : option Z :=
  match s with
  | [] => None
  | [c] => if (c =? c_plus)%N || (c =? c_minus)%N then None else i32_loop true 0 s
  | c :: r => if (c =? c_plus)%N then i32_loop true 0 r
              else if (c =? c_minus)%N then i32_loop false 0 r
              else i32_loop true 0 s
  end.

(* ---- int(s), number(s) ---- *)
Definition int_of_str (s : str) : outcome Z :=
  match parse_bigint 10 s with Some z => Ok z | None => Err EValue end.

Section Number.
  Variable F : Type.
  Variable parse_f64 : str -> option F.      (* <f64 as FromStr>: not modelled *)
  Definition number_of_str (s : str) : outcome (Z + F) :=
    match parse_bigint 10 s with
    | Some z => Ok (inl z)
    | None => match parse_f64 s with Some x => Ok (inr x) | None => Err EValue end
    end.
End Number.

Example show_int_ex : show_int (-120) = [45; 49; 50; 48]%N /\ show_int 0 = [48]%N.
Proof. split; reflexivity. Qed.
Example parse_bigint_ex :
  parse_bigint 10 [45; 49; 95; 50]%N = Some (-12) /\ parse_bigint 10 [45; 43; 53]%N = None /\
  parse_bigint 10 [43; 53]%N = Some 5 /\ parse_bigint 10 [95; 53]%N = None /\ parse_bigint 10 [45]%N = None /\
  parse_bigint 10 [45; 48]%N = Some 0 /\ parse_bigint 10 [43; 43; 53]%N = None.
Proof. repeat split; reflexivity. Qed.
Example parse_i32_ex :
  parse_i32 [45; 50; 49; 52; 55; 52; 56; 51; 54; 52; 56]%N = Some (-2147483648) /\
  parse_i32 [50; 49; 52; 55; 52; 56; 51; 54; 52; 56]%N = None /\ parse_i32 [43]%N = None /\
  parse_i32 [48; 48; 55]%N = Some 7.
Proof. repeat split; reflexivity. Qed.
