(* C16 - str_radix / int_radix: positional notation, round trip, totality. *)
From Coq Require Import ZArith NArith List Bool Lia.
From NV Require Import Common.Outcome Text.CodecChars Text.CodecChars_proofs Text.Radix Text.CodecSpec.
Import ListNotations.
Open Scope Z_scope.
Ltac Zify.zify_post_hook ::= Z.div_mod_to_equations.

(* ---- spec vocabulary vs model vocabulary ---- *)
Lemma pos_value_eval_be b ds : pos_value b ds = eval_be b ds.
Proof.
  induction ds as [|d r IH]; [reflexivity|].
  rewrite eval_be_cons. cbn [pos_value]. rewrite IH. reflexivity.
Qed.

Lemma digit_symbol_nat k : (k < 36)%nat ->
  digit_symbol (Z.of_nat k) = digit_char (Z.of_nat k) /\
  digit_symbol_upper (Z.of_nat k) = digit_char_upper (Z.of_nat k).
Proof.
  intros H. do 36 (destruct k as [|k]; [split; reflexivity|]). lia.
Qed.

Lemma digit_symbol_char d : 0 <= d < 36 -> digit_symbol d = digit_char d.
Proof.
  intros H. rewrite <- (Z2Nat.id d) by lia. apply digit_symbol_nat. lia.
Qed.
Lemma digit_symbol_upper_char d : 0 <= d < 36 -> digit_symbol_upper d = digit_char_upper d.
Proof.
  intros H. rewrite <- (Z2Nat.id d) by lia. apply digit_symbol_nat. lia.
Qed.

Lemma map_digit_symbol b ds : b <= 36 -> digits_ok b ds -> map digit_symbol ds = map digit_char ds.
Proof.
  intros Hb H. induction H as [|d r Hd Hr IH]; [reflexivity|].
  cbn [map]. rewrite IH, digit_symbol_char by lia. reflexivity.
Qed.
Lemma map_digit_symbol_upper b ds : b <= 36 -> digits_ok b ds -> map digit_symbol_upper ds = map digit_char_upper ds.
Proof.
  intros Hb H. induction H as [|d r Hd Hr IH]; [reflexivity|].
  cbn [map]. rewrite IH, digit_symbol_upper_char by lia. reflexivity.
Qed.

Lemma digits_be_canonical b n : 2 <= b -> 0 <= n ->
  canonical_digits b (digits_be b n) /\ pos_value b (digits_be b n) = n.
Proof.
  intros Hb Hn. destruct (digits_be_spec b n Hb Hn) as (He & Hf & Hne & Hz).
  split; [|rewrite pos_value_eval_be; exact He].
  split; [exact Hne|]. split; [exact Hf|]. intro H0. apply Hz. exact H0.
Qed.

(* ---- the str_radix loop ---- *)
Lemma radix_loop_S f base a :
  radix_loop (S f) base a =
  if 0 <? a then
    match to_u32 (a mod base) with
    | None => Panic
    | Some d => match from_digit d base with
                | None => Panic
                | Some c => rest <- radix_loop f base (a / base) ;; Ok (c :: rest)
                end
    end
  else Ok [].
Proof. reflexivity. Qed.

Lemma radix_loop_digits base : 2 <= base <= 36 -> forall f a, 0 <= a < 2 ^ Z.of_nat f ->
  radix_loop (S f) base a = Ok (map digit_char (digits_le_fuel (S f) base a)).
Proof.
  intros Hb. induction f as [|f IH]; intros a Ha.
  - cbn in Ha. assert (a = 0) by lia. subst. reflexivity.
  - rewrite radix_loop_S. cbn [digits_le_fuel]. destruct (Z.ltb_spec 0 a) as [Hp|Hp]; [|reflexivity].
    assert (Hm : 0 <= a mod base < base) by (apply Z.mod_pos_bound; lia).
    unfold to_u32, u32_max.
    assert (E1 : (0 <=? a mod base) && (a mod base <=? 2 ^ 32 - 1) = true).
    { apply andb_true_iff; split; apply Z.leb_le; lia. }
    rewrite E1. unfold from_digit.
    assert (E2 : (0 <=? a mod base) && (a mod base <? base) = true).
    { apply andb_true_iff; split; [apply Z.leb_le | apply Z.ltb_lt]; lia. }
    rewrite E2. rewrite IH by (apply pow2_half; lia). reflexivity.
Qed.

Lemma str_radix_digits n b : 2 <= b <= 36 ->
  str_radix n b = Ok ((if n <? 0 then [c_minus] else []) ++ map digit_char (digits_be b (Z.abs n))).
Proof.
  intros Hb. unfold str_radix, to_u32, u32_max.
  assert (E1 : (0 <=? b) && (b <=? 2 ^ 32 - 1) = true) by (apply andb_true_iff; split; apply Z.leb_le; lia).
  assert (E2 : (2 <=? b) && (b <=? 36) = true) by (apply andb_true_iff; split; apply Z.leb_le; lia).
  rewrite E1, E2.
  assert (Ha : (if n <? 0 then - n else n) = Z.abs n) by (destruct (Z.ltb_spec n 0); lia).
  rewrite Ha. set (a := Z.abs n). assert (Hnn : 0 <= a) by (unfold a; lia).
  unfold digit_fuel. rewrite radix_loop_digits; [|exact Hb|].
  2:{ pose proof (digit_fuel_enough a Hnn) as H. unfold digit_fuel in H. exact H. }
  cbn [bind]. fold (digit_fuel a). fold (digits_le b a). unfold digits_be.
  destruct (digits_le b a) as [|x r]; cbn [map].
  - destruct (n <? 0); reflexivity.
  - destruct (n <? 0); cbn [rev app map]; rewrite ?rev_app_distr, ?map_app, ?map_rev; reflexivity.
Qed.

(* ---- the int_radix loop ---- *)
Lemma int_radix_loop_digits b ds : b <= 36 -> digits_ok b ds -> forall x,
  int_radix_loop b x (map digit_char ds) = Ok (fold_left (fun x d => b * x + d) ds x).
Proof.
  intros Hb H. induction H as [|d r Hd Hr IH]; intro x; [reflexivity|].
  cbn [map int_radix_loop fold_left]. rewrite to_digit_digit_char by lia. apply IH.
Qed.

Lemma int_radix_loop_upper b ds : b <= 36 -> digits_ok b ds -> forall x,
  int_radix_loop b x (map digit_char_upper ds) = Ok (fold_left (fun x d => b * x + d) ds x).
Proof.
  intros Hb H. induction H as [|d r Hd Hr IH]; intro x; [reflexivity|].
  cbn [map int_radix_loop fold_left]. rewrite to_digit_digit_char_upper by lia. apply IH.
Qed.

Lemma int_radix_base_ok s b : 2 <= b <= 36 -> int_radix s b = int_radix_loop b 0 s.
Proof.
  intros Hb. unfold int_radix, to_u32, u32_max.
  assert (E1 : (0 <=? b) && (b <=? 2 ^ 32 - 1) = true) by (apply andb_true_iff; split; apply Z.leb_le; lia).
  assert (E2 : (2 <=? b) && (b <=? 36) = true) by (apply andb_true_iff; split; apply Z.leb_le; lia).
  rewrite E1, E2. reflexivity.
Qed.

(* ---- theorems ---- *)
(* str_radix is positional notation: sign, then the canonical digits of |n| (so "0" for zero) *)
Theorem str_radix_positional : forall n b, 2 <= b <= 36 ->
  exists ds, canonical_digits b ds /\ pos_value b ds = Z.abs n /\
             str_radix n b = Ok (signed_text n (map digit_symbol ds)).
Proof.
  intros n b Hb. exists (digits_be b (Z.abs n)).
  destruct (digits_be_canonical b (Z.abs n) ltac:(lia) ltac:(lia)) as (Hc & Hv).
  split; [exact Hc|]. split; [exact Hv|].
  rewrite str_radix_digits by exact Hb. unfold signed_text.
  rewrite (map_digit_symbol b) by (try lia; apply Hc).
  destruct (n <? 0); reflexivity.
Qed.

Theorem int_radix_positional : forall b ds, 2 <= b <= 36 -> digits_ok b ds ->
  int_radix (map digit_symbol ds) b = Ok (pos_value b ds) /\
  int_radix (map digit_symbol_upper ds) b = Ok (pos_value b ds).
Proof.
  intros b ds Hb Hd. rewrite !int_radix_base_ok by exact Hb.
  rewrite (map_digit_symbol b), (map_digit_symbol_upper b) by (try lia; exact Hd).
  rewrite int_radix_loop_digits, int_radix_loop_upper by (try lia; exact Hd).
  rewrite pos_value_eval_be. split; reflexivity.
Qed.

Theorem radix_roundtrip : forall n b, 0 <= n -> 2 <= b <= 36 ->
  exists s, str_radix n b = Ok s /\ int_radix s b = Ok n.
Proof.
  intros n b Hn Hb. rewrite str_radix_digits by exact Hb.
  assert (E : n <? 0 = false) by (apply Z.ltb_ge; lia). rewrite E. cbn [app].
  rewrite Z.abs_eq by exact Hn. eexists; split; [reflexivity|].
  destruct (digits_be_spec b n ltac:(lia) Hn) as (He & Hf & _).
  rewrite int_radix_base_ok by exact Hb.
  rewrite int_radix_loop_digits by (try lia; exact Hf). f_equal. exact He.
Qed.

(* a character that is not a digit of the base makes int_radix fail; it never panics *)
Lemma int_radix_loop_total b s : forall x,
  (exists v, int_radix_loop b x s = Ok v /\ Forall (fun c => to_digit c b <> None) s) \/
  (int_radix_loop b x s = Err EValue /\ Exists (fun c => to_digit c b = None) s).
Proof.
  induction s as [|c r IH]; intro x.
  - left. exists x. split; [reflexivity | constructor].
  - cbn [int_radix_loop]. destruct (to_digit c b) as [d|] eqn:E.
    + destruct (IH (b * x + d)) as [(v & Hv & Hf) | (He & Hx)].
      * left. exists v. split; [exact Hv|]. constructor; [congruence | exact Hf].
      * right. split; [exact He | apply Exists_cons_tl; exact Hx].
    + right. split; [reflexivity | apply Exists_cons_hd; exact E].
Qed.

Theorem int_radix_rejects : forall s b, 2 <= b <= 36 ->
  Exists (fun c => to_digit c b = None) s -> int_radix s b = Err EValue.
Proof.
  intros s b Hb Hx. rewrite int_radix_base_ok by exact Hb.
  destruct (int_radix_loop_total b s 0) as [(v & _ & Hf) | (He & _)]; [|exact He].
  exfalso. apply Exists_exists in Hx. destruct Hx as (c & Hin & Hc).
  rewrite Forall_forall in Hf. exact (Hf c Hin Hc).
Qed.

Theorem radix_total : forall n s b,
  (str_radix n b <> Panic /\ str_radix n b <> OutOfFuel) /\
  (int_radix s b <> Panic /\ int_radix s b <> OutOfFuel) /\
  (~ 2 <= b <= 36 -> str_radix n b = Err EValue /\ int_radix s b = Err EValue).
Proof.
  intros n s b.
  assert (Hbad : ~ 2 <= b <= 36 -> str_radix n b = Err EValue /\ int_radix s b = Err EValue).
  { intros Hb. unfold str_radix, int_radix, to_u32.
    destruct ((0 <=? b) && (b <=? u32_max)); [|split; reflexivity].
    assert (E : (2 <=? b) && (b <=? 36) = false).
    { apply andb_false_iff. destruct (Z.leb_spec 2 b); [right; apply Z.leb_gt; lia | left; reflexivity]. }
    rewrite E. split; reflexivity. }
  destruct (Z_le_dec 2 b) as [H2|H2]; [destruct (Z_le_dec b 36) as [H36|H36]|].
  - split; [|split; [|intro H; exfalso; apply H; lia]].
    + rewrite str_radix_digits by lia. split; discriminate.
    + rewrite int_radix_base_ok by lia.
      destruct (int_radix_loop_total b s 0) as [(v & Hv & _) | (He & _)]; [rewrite Hv | rewrite He]; split; discriminate.
  - destruct (Hbad ltac:(lia)) as [E1 E2]. rewrite E1, E2. repeat split; try discriminate; auto.
  - destruct (Hbad ltac:(lia)) as [E1 E2]. rewrite E1, E2. repeat split; try discriminate; auto.
Qed.
