(* C15 - parse_format_string (/repo/src/core.rs ~2949): the brace scanner over the body of
   an F"..." literal and the flag reader over the comments of each {expr}.
   Definitions and Examples only; proofs are in FormatScan_proofs.v.

   The expression parser itself (Parser::expression, ~1400 lines of recursive descent) is
   NOT modelled: it is the parameter `parse_expr` (None = parse error, Some true = all
   tokens consumed, Some false = tokens left over); theorems quantify over it.

   nesting_level is an i32 (checked +1 / -1 in a debug build).  `dec_level` additionally
   carries a ghost check that the level being decremented is positive (an i32 would go to
   -1 silently): format_scanner_total shows neither check ever fires. *)
From Coq Require Import NArith ZArith List Bool Ascii String.
From NV Require Import Common.Outcome Text.Chars Text.LexLit Text.Lexer.
Import ListNotations.
Open Scope N_scope.

Inductive fbase := BDecimal | BBinary | BOctal | BLowerHex | BUpperHex.
Inductive falign := ALeft | ARight | ACenter.
Record fflags := { f_base : fbase; f_pad : N; f_padlen : N; f_align : falign }.
Definition flags_new : fflags := {| f_base := BDecimal; f_pad := 32; f_padlen := 0; f_align := ARight |}.
Definition set_base b (f : fflags) := {| f_base := b; f_pad := f_pad f; f_padlen := f_padlen f; f_align := f_align f |}.
Definition set_align a (f : fflags) := {| f_base := f_base f; f_pad := f_pad f; f_padlen := f_padlen f; f_align := a |}.
Definition set_pad p (f : fflags) := {| f_base := f_base f; f_pad := p; f_padlen := f_padlen f; f_align := f_align f |}.
Definition set_padlen n (f : fflags) := {| f_base := f_base f; f_pad := f_pad f; f_padlen := n; f_align := f_align f |}.

(* a flag character that is not a digit *)
Definition flag_char (c : N) (f : fflags) : fflags :=
  if isc "x" c then set_base BLowerHex f
  else if isc "X" c then set_base BUpperHex f
  else if isc "b" c || isc "B" c then set_base BBinary f
  else if isc "o" c || isc "O" c then set_base BOctal f
  else if isc "d" c || isc "D" c then set_base BDecimal f
  else if isc "<" c then set_align ALeft f
  else if isc ">" c then set_align ARight f
  else if isc "^" c then set_align ACenter f
  else f.

(* acc.parse::<usize>() at the end of a digit run *)
Definition close_run (racc : list N) (f : fflags) : option fflags :=
  let v := dec_value (frev racc) in
  if v <=? usize_max_n then Some (set_padlen v f) else None.

(* the `while let Some(c) = it.next()` loop over one comment.  The inner digit loop is
   folded into the same recursion: run = Some racc while inside a digit run. *)
Fixpoint flags_go (s : list N) (run : option (list N)) (f : fflags) : option fflags :=
  match s with
  | [] => match run with Some racc => close_run racc f | None => Some f end
  | c :: r =>
    match run with
    | Some racc =>
      if is_ascii_digit c then flags_go r (Some (c :: racc)) f
      else match close_run racc f with
           | Some f' => flags_go r None (flag_char c f')
           | None => None
           end
    | None =>
      if isc "0" c then flags_go r None (set_pad (chr "0") f)
      else if is_ascii_digit c then flags_go r (Some [c]) f
      else flags_go r None (flag_char c f)
    end
  end.

Fixpoint flags_all (coms : list (list N)) (f : fflags) : option fflags :=
  match coms with
  | [] => Some f
  | c :: r => match flags_go c None f with Some f' => flags_all r f' | None => None end
  end.

Inductive seg := SegChar (c : N) | SegExpr (toks : list token) (fl : fflags).
Inductive fmt_err := FUnmatchedRight | FUnmatchedLeft | FEmptyExpr | FPadLength | FExprParse | FExprUnfinished.

Definition dec_level (l : Z) : outcome Z := if (l <=? 0)%Z then Panic else chk_i32 (l - 1).

Section Scanner.
Variable U : uclass.
Variable parse_expr : list token -> option bool.

(* the (1, '}') arm: lex the accumulated text, strip comments, read flags, parse *)
Definition close_expr (expr : list N) : outcome (fmt_err + seg) :=
  toks <- lex U expr ;;
  let ts := strip_comments toks in
  match ts with
  | [] => Ok (inl FEmptyExpr)
  | _ =>
    match flags_all (comments_of toks) flags_new with
    | None => Ok (inl FPadLength)
    | Some fl =>
      match parse_expr ts with
      | None => Ok (inl FExprParse)
      | Some false => Ok (inl FExprUnfinished)
      | Some true => Ok (inr (SegExpr ts fl))
      end
    end
  end.

Fixpoint fmt_scan (level : Z) (s : list N) (rexpr : list N) (rret : list seg) : outcome (fmt_err + list seg) :=
  match s with
  | [] => if (level =? 0)%Z then Ok (inr (frev rret)) else Ok (inl FUnmatchedLeft)
  | c :: r =>
    if (level =? 0)%Z then
      if isc "{" c then
        match r with
        | c2 :: r2 => if isc "{" c2 then fmt_scan level r2 rexpr (SegChar c :: rret)
                      else l <- chk_i32 (level + 1) ;; fmt_scan l r rexpr rret
        | [] => l <- chk_i32 (level + 1) ;; fmt_scan l r rexpr rret
        end
      else if isc "}" c then
        match r with
        | c2 :: r2 => if isc "}" c2 then fmt_scan level r2 rexpr (SegChar c :: rret)
                      else Ok (inl FUnmatchedRight)
        | [] => Ok (inl FUnmatchedRight)
        end
      else fmt_scan level r rexpr (SegChar c :: rret)
    else if isc "{" c then
      l <- chk_i32 (level + 1) ;; fmt_scan l r (c :: rexpr) rret
    else if isc "}" c then
      l <- dec_level level ;;
      if (level =? 1)%Z then
        x <- close_expr (frev rexpr) ;;
        match x with
        | inl e => Ok (inl e)
        | inr sg => fmt_scan l r [] (sg :: rret)
        end
      else fmt_scan l r (c :: rexpr) rret
    else fmt_scan level r (c :: rexpr) rret
  end.

Definition parse_format_string (s : list N) : outcome (fmt_err + list seg) := fmt_scan 0 s [] [].
End Scanner.

Definition accept_all (l : list token) : option bool := Some true.

Example ex_fmt1 : parse_format_string U_ascii accept_all (cps "a{{b}}{x #>5X}") =
  Ok (inr [SegChar 97; SegChar 123; SegChar 98; SegChar 125;
           SegExpr [TIdent (cps "x")] {| f_base := BUpperHex; f_pad := 32; f_padlen := 5; f_align := ARight |}]).
Proof. reflexivity. Qed.
Example ex_fmt2 : parse_format_string U_ascii accept_all (cps "}") = Ok (inl FUnmatchedRight) /\
                  parse_format_string U_ascii accept_all (cps "{{x}") = Ok (inl FUnmatchedRight) /\
                  parse_format_string U_ascii accept_all (cps "{ {1}") = Ok (inl FUnmatchedLeft) /\
                  parse_format_string U_ascii accept_all (cps "{ #c}") = Ok (inl FEmptyExpr) /\
                  parse_format_string U_ascii accept_all (cps "{1 #99999999999999999999}") = Ok (inl FPadLength).
Proof. repeat split; reflexivity. Qed.
