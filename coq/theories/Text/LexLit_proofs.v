(* C15 - proofs about the literal decoders of LexLit.v: positional notation (Horner),
   renderer round trips, escape decoding, progress of the string loop. *)
From Coq Require Import NArith ZArith List Bool Lia Ring.
From NV Require Import Common.Outcome Text.Chars Text.Chars_proofs Text.LexLit.
Import ListNotations.
Open Scope N_scope.

Lemma to_digit_digit_char d b : d < b -> b <= 36 -> to_digit (digit_char d) b = Some d.
Proof.
  intros H1 H2. unfold to_digit, digit_char, digit_val, is_ascii_digit, is_ascii_lower, is_ascii_upper, in_range.
  destruct (N.ltb_spec d 10).
  - replace ((48 <=? 48 + d) && (48 + d <=? 57)) with true by nb.
    replace (48 + d - 48) with d by lia. destruct (N.ltb_spec d b); [reflexivity|lia].
  - replace ((48 <=? 97 + (d - 10)) && (97 + (d - 10) <=? 57)) with false by nb.
    replace ((97 <=? 97 + (d - 10)) && (97 + (d - 10) <=? 122)) with true by nb.
    replace (97 + (d - 10) - 97 + 10) with d by lia. destruct (N.ltb_spec d b); [reflexivity|lia].
Qed.

Lemma to_digit_digit_char_upper d b : d < b -> b <= 36 -> to_digit (digit_char_upper d) b = Some d.
Proof.
  intros H1 H2. unfold to_digit, digit_char_upper, digit_val, is_ascii_digit, is_ascii_lower, is_ascii_upper, in_range.
  destruct (N.ltb_spec d 10).
  - replace ((48 <=? 48 + d) && (48 + d <=? 57)) with true by nb.
    replace (48 + d - 48) with d by lia. destruct (N.ltb_spec d b); [reflexivity|lia].
  - replace ((48 <=? 65 + (d - 10)) && (65 + (d - 10) <=? 57)) with false by nb.
    replace ((97 <=? 65 + (d - 10)) && (65 + (d - 10) <=? 122)) with false by nb.
    replace ((65 <=? 65 + (d - 10)) && (65 + (d - 10) <=? 90)) with true by nb.
    replace (65 + (d - 10) - 65 + 10) with d by lia. destruct (N.ltb_spec d b); [reflexivity|lia].
Qed.

(* ---------- positional notation ---------- *)
Definition stop_base (b : N) (rest : list N) : Prop :=
  match rest with [] => True | c :: _ => to_digit c b = None end.
Definition stop_b64 (rest : list N) : Prop :=
  match rest with [] => True | c :: _ => b64_digit c = None end.

Definition spells (b : N) (cs ds : list N) : Prop := Forall2 (fun c d => to_digit c b = Some d) cs ds.
Definition spells64 (cs ds : list N) : Prop := Forall2 (fun c d => b64_digit c = Some d) cs ds.

Lemma pow_len_succ b {A} (x : A) (l : list A) : b ^ N.of_nat (length (x :: l)) = b * b ^ N.of_nat (length l).
Proof. cbn [length]. rewrite Nat2N.inj_succ, N.pow_succ_r'. reflexivity. Qed.

Lemma lex_base_go_spells b cs ds : spells b cs ds -> forall x rest, stop_base b rest ->
  lex_base_go b x (cs ++ rest) = (x * b ^ N.of_nat (length ds) + positional b ds, rest).
Proof.
  induction 1 as [|c d cs ds Hc Hf IH]; intros x rest Hs.
  - cbn. destruct rest as [|c r]; cbn in *; [|rewrite Hs]; f_equal; lia.
  - cbn [app lex_base_go]. rewrite Hc, (IH _ _ Hs). f_equal.
    rewrite pow_len_succ. cbn [positional]. ring.
Qed.

Lemma lex_base64_go_spells cs ds : spells64 cs ds -> forall x rest, stop_b64 rest ->
  lex_base64_go x (cs ++ rest) = (x * 64 ^ N.of_nat (length ds) + positional 64 ds, rest).
Proof.
  induction 1 as [|c d cs ds Hc Hf IH]; intros x rest Hs.
  - cbn. destruct rest as [|c r]; cbn in *; [|rewrite Hs]; f_equal; lia.
  - cbn [app lex_base64_go]. rewrite Hc, (IH _ _ Hs). f_equal.
    rewrite pow_len_succ. cbn [positional]. ring.
Qed.

Lemma lex_base_go_length b : forall s x, (length (snd (lex_base_go b x s)) <= length s)%nat.
Proof.
  induction s as [|c r IH]; intros x; cbn [lex_base_go]; [cbn; lia|].
  destruct (to_digit c b); [specialize (IH (b * x + n)); cbn [length]; lia | cbn; lia].
Qed.
Lemma lex_base64_go_length : forall s x, (length (snd (lex_base64_go x s)) <= length s)%nat.
Proof.
  induction s as [|c r IH]; intros x; cbn [lex_base64_go]; [cbn; lia|].
  destruct (b64_digit c); [specialize (IH (64 * x + n)); cbn [length]; lia | cbn; lia].
Qed.

(* digits_of is positional notation read backwards *)
Lemma digits_fuel_spec b (Hb : 2 <= b) : forall f n acc, n < 2 ^ N.of_nat (S f) ->
  positional b (digits_fuel (S f) b n acc) = n * b ^ N.of_nat (length acc) + positional b acc /\
  (Forall (fun d => d < b) acc -> Forall (fun d => d < b) (digits_fuel (S f) b n acc)).
Proof.
  induction f as [|f IH]; intros n acc Hn.
  - cbn [digits_fuel]. change (2 ^ N.of_nat 1) with 2 in Hn.
    destruct (N.ltb_spec n b); [|lia]. cbn [positional]. split; [lia|]. intros; constructor; auto.
  - remember (S f) as f1. cbn [digits_fuel]. destruct (N.ltb_spec n b) as [Hlt|Hge].
    + cbn [positional]. split; [lia|]. intros; constructor; auto.
    + assert (Hq : n / b < 2 ^ N.of_nat f1).
      { apply N.div_lt_upper_bound; [lia|].
        rewrite Nat2N.inj_succ, N.pow_succ_r' in Hn.
        assert (0 < 2 ^ N.of_nat f1) by (apply N.neq_0_lt_0, N.pow_nonzero; lia). nia. }
      subst f1. destruct (IH (n / b) (n mod b :: acc) Hq) as [E F]. split.
      * rewrite E. rewrite pow_len_succ. cbn [positional].
        pose proof (N.div_mod n b ltac:(lia)) as Hdm. rewrite Hdm at 3. lia.
      * intros Ha. apply F. constructor; auto. apply N.mod_lt. lia.
Qed.

Lemma digits_of_spec b n : 2 <= b ->
  positional b (digits_of b n) = n /\ Forall (fun d => d < b) (digits_of b n).
Proof.
  intros Hb. unfold digits_of.
  assert (Hn : n < 2 ^ N.of_nat (S (N.to_nat (N.log2 n)))).
  { rewrite Nat2N.inj_succ, N2Nat.id. destruct (N.eq_dec n 0) as [->|Hz]; [reflexivity|].
    apply N.log2_spec. lia. }
  destruct (digits_fuel_spec b Hb _ n [] Hn) as [E F]. split.
  - rewrite E. cbn. lia.
  - apply F. constructor.
Qed.

Lemma digits_of_nonempty b n : digits_of b n <> [].
Proof.
  unfold digits_of. cbn [digits_fuel]. destruct (n <? b); [discriminate|].
  generalize (N.to_nat (N.log2 n)) (n / b) (n mod b). intros f.
  assert (H : forall f m acc, acc <> [] -> digits_fuel f b m acc <> []).
  { clear. induction f; intros m acc Ha; cbn; auto. destruct (m <? b); [discriminate|]. apply IHf. discriminate. }
  intros m d. apply H. discriminate.
Qed.

Lemma spells_render b ds : b <= 36 -> Forall (fun d => d < b) ds -> spells b (map digit_char ds) ds.
Proof.
  intros Hb. induction 1; cbn; constructor; auto. now apply to_digit_digit_char.
Qed.
Lemma spells_render_upper b ds : b <= 36 -> Forall (fun d => d < b) ds -> spells b (map digit_char_upper ds) ds.
Proof.
  intros Hb. induction 1; cbn; constructor; auto. now apply to_digit_digit_char_upper.
Qed.

Lemma b64_digit_char d : d < 64 -> b64_digit (b64_char d) = Some d.
Proof.
  intros H. unfold b64_char, b64_digit, is_ascii_upper, is_ascii_lower, is_ascii_digit, in_range.
  destruct (N.ltb_spec d 26).
  { replace ((65 <=? 65 + d) && (65 + d <=? 90)) with true by nb. f_equal. lia. }
  destruct (N.ltb_spec d 52).
  { replace ((65 <=? 97 + (d - 26)) && (97 + (d - 26) <=? 90)) with false by nb.
    replace ((97 <=? 97 + (d - 26)) && (97 + (d - 26) <=? 122)) with true by nb. f_equal. lia. }
  destruct (N.ltb_spec d 62).
  { replace ((65 <=? 48 + (d - 52)) && (48 + (d - 52) <=? 90)) with false by nb.
    replace ((97 <=? 48 + (d - 52)) && (48 + (d - 52) <=? 122)) with false by nb.
    replace ((48 <=? 48 + (d - 52)) && (48 + (d - 52) <=? 57)) with true by nb. f_equal. lia. }
  destruct (N.eqb_spec d 62); [subst; reflexivity|].
  assert (d = 63) by lia. subst. reflexivity.
Qed.
Lemma spells64_render ds : Forall (fun d => d < 64) ds -> spells64 (map b64_char ds) ds.
Proof. induction 1; cbn; constructor; auto. now apply b64_digit_char. Qed.

(* the text the renderers produce spells n *)
Lemma render_radix_spells b n : 2 <= b -> b <= 36 ->
  exists ds, spells b (render_radix b n) ds /\ positional b ds = n.
Proof.
  intros H1 H2. exists (digits_of b n). destruct (digits_of_spec b n H1) as [E F].
  split; auto. now apply spells_render.
Qed.
Lemma render_radix_upper_spells b n : 2 <= b -> b <= 36 ->
  exists ds, spells b (render_radix_upper b n) ds /\ positional b ds = n.
Proof.
  intros H1 H2. exists (digits_of b n). destruct (digits_of_spec b n H1) as [E F].
  split; auto. now apply spells_render_upper.
Qed.
Lemma render_base64_spells n : exists ds, spells64 (render_base64 n) ds /\ positional 64 ds = n.
Proof.
  exists (digits_of 64 n). destruct (digits_of_spec 64 n ltac:(lia)) as [E F].
  split; auto. now apply spells64_render.
Qed.

(* decimal runs *)
Lemma dec_value_positional : forall cs x,
  fold_left (fun x c => 10 * x + (c - 48)) cs x =
  x * 10 ^ N.of_nat (length cs) + positional 10 (map (fun c => c - 48) cs).
Proof.
  induction cs as [|c cs IH]; intros x.
  - cbn. lia.
  - cbn [fold_left]. rewrite IH. rewrite pow_len_succ. cbn [map positional]. rewrite map_length. lia.
Qed.
Lemma dec_value_spec cs : dec_value cs = positional 10 (map (fun c => c - 48) cs).
Proof. unfold dec_value. rewrite dec_value_positional. lia. Qed.

Lemma render_dec_digits n : forallb is_ascii_digit (render_dec n) = true.
Proof.
  unfold render_dec, render_radix. destruct (digits_of_spec 10 n ltac:(lia)) as [_ F].
  induction F as [|d l Hd F IH]; cbn; auto. rewrite IH, andb_true_r.
  unfold digit_char, is_ascii_digit, in_range. destruct (N.ltb_spec d 10); [|lia]. nb.
Qed.
Lemma render_dec_value n : dec_value (render_dec n) = n.
Proof.
  rewrite dec_value_spec. unfold render_dec, render_radix. rewrite map_map.
  destruct (digits_of_spec 10 n ltac:(lia)) as [E F].
  assert (M : map (fun x => digit_char x - 48) (digits_of 10 n) = digits_of 10 n).
  { clear E. induction F as [|d l Hd F IH]; cbn [map]; auto. rewrite IH. f_equal.
    unfold digit_char. destruct (N.ltb_spec d 10); lia. }
  rewrite M. exact E.
Qed.
Lemma render_dec_nonempty n : render_dec n <> [].
Proof.
  unfold render_dec, render_radix. pose proof (digits_of_nonempty 10 n).
  destruct (digits_of 10 n); [congruence|discriminate].
Qed.

(* ---------- the string loop makes progress and never panics ---------- *)
Definition step_ok (s : list N) (st : sstep) : Prop :=
  match st with
  | SPush _ rest => (length rest < length s)%nat
  | SExit _ rest => (length rest <= length s)%nat
  | SStepPanic => False
  end.

Lemma u_open_length s : (length (snd (u_open s)) <= length s)%nat.
Proof.
  destruct s as [|c r]; cbn; [lia|].
  repeat match goal with |- context [if ?b then _ else _] => destruct b end; cbn; lia.
Qed.
Lemma u_digits_length : forall s x, (length (snd (u_digits x s)) <= length s)%nat.
Proof.
  induction s as [|c r IH]; intros x; cbn [u_digits]; [cbn; lia|].
  destruct (to_digit c 16); [specialize (IH (u32_mul_add_sat x n)); cbn [length]; lia | cbn; lia].
Qed.

Lemma hex_pair_scalar h1 h2 d1 d2 : to_digit h1 16 = Some d1 -> to_digit h2 16 = Some d2 ->
  from_u32 (d1 * 16 + d2) = Some (d1 * 16 + d2).
Proof.
  intros H1 H2. apply to_digit_lt in H1, H2. unfold from_u32, is_scalar.
  destruct (N.ltb_spec (d1 * 16 + d2) 55296); [reflexivity|lia].
Qed.

Lemma u_finish_ok x rest s : (length rest < length s)%nat -> step_ok s (u_finish x rest).
Proof. intros H. unfold u_finish. destruct (from_u32 x); cbn; lia. Qed.

Lemma str_step_ok q s : step_ok s (str_step q s).
Proof.
  unfold str_step. destruct s as [|c r]; [cbn; lia|].
  destruct (c =? q); [cbn; lia|].
  destruct (c =? 92); [|cbn; lia].
  destruct r as [|e r2]; [cbn; lia|].
  repeat match goal with
         | |- step_ok _ (if ?b then _ else _) => destruct b; [cbn; lia|]
         end.
  destruct (e =? 120).
  { destruct r2 as [|h1 r3]; [cbn; lia|]. destruct (to_digit h1 16) as [d1|] eqn:E1; [|cbn; lia].
    destruct r3 as [|h2 r4]; [cbn; lia|]. destruct (to_digit h2 16) as [d2|] eqn:E2; [|cbn; lia].
    rewrite (hex_pair_scalar _ _ _ _ E1 E2). cbn. lia. }
  destruct (e =? 117); [|cbn; lia].
  pose proof (u_open_length r2) as L1. destruct (u_open r2) as [expected r3]. cbn [snd] in L1.
  pose proof (u_digits_length r3 0) as L2. destruct (u_digits 0 r3) as [x r4]. cbn [snd] in L2.
  destruct expected as [cl|].
  - destruct r4 as [|c' r5]; [cbn; lia|]. destruct (c' =? cl).
    + apply u_finish_ok. cbn [length] in *. lia.
    + cbn [step_ok length] in *. lia.
  - apply u_finish_ok. cbn [length] in *. lia.
Qed.

Lemma str_loop_ok q : forall fuel s racc, (length s < fuel)%nat ->
  exists inv content rest, str_loop fuel q s racc = Ok (inv, content, rest) /\ (length rest <= length s)%nat.
Proof.
  induction fuel as [|f IH]; intros s racc Hf; [lia|].
  cbn [str_loop]. pose proof (str_step_ok q s) as Hs. destruct (str_step q s) as [c rest|inv rest|]; cbn in Hs.
  - destruct (IH rest (c :: racc) ltac:(lia)) as (i & ct & rs & E & L). exists i, ct, rs. split; auto. lia.
  - eauto.
  - contradiction.
Qed.

Lemma lex_string_ok q s :
  exists inv content rest, lex_string q s = Ok (inv, content, rest) /\ (length rest <= length s)%nat.
Proof.
  unfold lex_string. destruct (str_loop_ok q (S (length s)) s [] ltac:(lia)) as (i & ct & rs & E & L).
  rewrite E. cbn [bind]. exists i, ct, (tl rs). split; auto. destruct rs; cbn in *; lia.
Qed.

Lemma raw_go_length q : forall s, (length (snd (raw_go q s)) <= length s)%nat.
Proof.
  induction s as [|c r IH]; cbn [raw_go]; [cbn; lia|].
  destruct (c =? q); [cbn; lia|]. destruct (raw_go q r) as [[inv a] rest]. cbn [snd length] in *. lia.
Qed.
Lemma lex_raw_length q s : (length (snd (lex_raw q s)) <= length s)%nat.
Proof.
  unfold lex_raw. pose proof (raw_go_length q s) as L. destruct (raw_go q s) as [[inv a] rest].
  cbn [snd] in *. destruct rest; cbn in *; lia.
Qed.

(* ---------- every escape form decodes to what its digits spell ---------- *)
Lemma u_digits_spells cs ds : spells 16 cs ds -> forall x rest, stop_base 16 rest -> x <= u32_max ->
  u_digits x (cs ++ rest) = (N.min (x * 16 ^ N.of_nat (length ds) + positional 16 ds) u32_max, rest).
Proof.
  induction 1 as [|c d cs ds Hc Hf IH]; intros x rest Hs Hx.
  - cbn [app length positional]. replace (x * 16 ^ N.of_nat 0 + 0) with x by (cbn; lia).
    rewrite N.min_l by assumption. destruct rest as [|c r]; cbn [u_digits]; [|cbn in Hs; rewrite Hs]; reflexivity.
  - cbn [app u_digits]. rewrite Hc. rewrite (IH _ _ Hs) by (unfold u32_mul_add_sat; lia). f_equal.
    rewrite pow_len_succ. cbn [positional].
    assert (HP : 0 < 16 ^ N.of_nat (length ds)) by (apply N.neq_0_lt_0, N.pow_nonzero; lia).
    set (P := 16 ^ N.of_nat (length ds)) in *. set (v := positional 16 ds).
    unfold u32_mul_add_sat, u32_max in *.
    destruct (N.le_gt_cases (16 * x + d) 4294967295) as [Hle|Hgt].
    + rewrite (N.min_l (16 * x + d)) by assumption. f_equal. ring.
    + rewrite (N.min_r (16 * x + d)) by lia. rewrite !N.min_r; [reflexivity| |]; nia.
Qed.

Lemma scalar_min v : is_scalar (N.min v u32_max) = is_scalar v.
Proof.
  unfold u32_max. destruct (N.le_gt_cases v 4294967295).
  - now rewrite N.min_l.
  - rewrite N.min_r by lia. unfold is_scalar. nb.
Qed.

Definition u_decoded (v : N) (rest : list N) : sstep :=
  if is_scalar v then SPush v rest else SExit (Some IUTooBig) rest.

Lemma u_finish_min v rest : u_finish (N.min v u32_max) rest = u_decoded v rest.
Proof.
  unfold u_finish, u_decoded, from_u32. rewrite scalar_min.
  destruct (is_scalar v) eqn:E; [|reflexivity]. f_equal. apply N.min_l.
  unfold is_scalar, u32_max in *. revert E. nb.
Qed.

Lemma closer_stops o cl : In (o, cl) delims -> forall r, stop_base 16 (cl :: r).
Proof. intros H r. cbn in H. cbn. repeat destruct H as [H|H]; try contradiction; inversion H; reflexivity. Qed.

(* \u{HEX} \u(HEX) \u[HEX] \u<HEX>, any number of hexits (also none), any case *)
Lemma u_escape_delimited q o cl cs ds rest : q <> 92 -> In (o, cl) delims -> spells 16 cs ds ->
  str_step q (92 :: 117 :: o :: cs ++ cl :: rest) = u_decoded (positional 16 ds) rest.
Proof.
  intros Hq Hd Hs. unfold str_step. rewrite (proj2 (N.eqb_neq 92 q)) by congruence.
  cbn [N.eqb Pos.eqb orb].
  assert (Ho : u_open (o :: cs ++ cl :: rest) = (Some cl, cs ++ cl :: rest)).
  { cbn in Hd. repeat destruct Hd as [Hd|Hd]; try contradiction; inversion Hd; reflexivity. }
  rewrite Ho. rewrite (u_digits_spells cs ds Hs 0 (cl :: rest) (closer_stops o cl Hd rest)) by (unfold u32_max; lia).
  rewrite N.eqb_refl. replace (0 * 16 ^ N.of_nat (length ds) + positional 16 ds) with (positional 16 ds) by lia.
  apply u_finish_min.
Qed.

(* \uHEX without delimiters: at least one hexit, and what follows is not a hexit *)
Lemma u_escape_bare q c d cs ds rest : q <> 92 -> spells 16 (c :: cs) (d :: ds) -> stop_base 16 rest ->
  str_step q (92 :: 117 :: (c :: cs) ++ rest) = u_decoded (positional 16 (d :: ds)) rest.
Proof.
  intros Hq Hs Hr. unfold str_step. rewrite (proj2 (N.eqb_neq 92 q)) by congruence.
  cbn [N.eqb Pos.eqb orb].
  assert (Ho : u_open ((c :: cs) ++ rest) = (None, (c :: cs) ++ rest)).
  { inversion Hs; subst. cbn [app u_open].
    assert (Hc : to_digit c 16 = Some d) by assumption.
    repeat match goal with |- context [N.eqb c ?k] => destruct (N.eqb_spec c k); [subst; discriminate Hc|] end.
    reflexivity. }
  rewrite Ho. rewrite (u_digits_spells _ _ Hs 0 rest Hr) by (unfold u32_max; lia).
  replace (0 * 16 ^ N.of_nat (length (d :: ds)) + positional 16 (d :: ds)) with (positional 16 (d :: ds)) by lia.
  apply u_finish_min.
Qed.

(* \xHH *)
Lemma x_escape q h1 h2 d1 d2 rest : q <> 92 -> to_digit h1 16 = Some d1 -> to_digit h2 16 = Some d2 ->
  str_step q (92 :: 120 :: h1 :: h2 :: rest) = SPush (d1 * 16 + d2) rest.
Proof.
  intros Hq H1 H2. unfold str_step. rewrite (proj2 (N.eqb_neq 92 q)) by congruence.
  cbn [N.eqb Pos.eqb orb]. rewrite H1, H2, (hex_pair_scalar _ _ _ _ H1 H2). reflexivity.
Qed.
Lemma x_escape_bad1 q h1 rest : q <> 92 -> to_digit h1 16 = None ->
  str_step q (92 :: 120 :: h1 :: rest) = SExit (Some IBadHex) rest.
Proof.
  intros Hq H1. unfold str_step. rewrite (proj2 (N.eqb_neq 92 q)) by congruence.
  cbn [N.eqb Pos.eqb orb]. rewrite H1. reflexivity.
Qed.
Lemma x_escape_bad2 q h1 d1 h2 rest : q <> 92 -> to_digit h1 16 = Some d1 -> to_digit h2 16 = None ->
  str_step q (92 :: 120 :: h1 :: h2 :: rest) = SExit (Some IBadHex) rest.
Proof.
  intros Hq H1 H2. unfold str_step. rewrite (proj2 (N.eqb_neq 92 q)) by congruence.
  cbn [N.eqb Pos.eqb orb]. rewrite H1, H2. reflexivity.
Qed.
(* a backslash followed by anything else is an error token, never a character *)
Lemma unknown_escape q e rest : q <> 92 ->
  existsb (N.eqb e) [110; 114; 116; 48; 92; 39; 34; 120; 117] = false ->
  str_step q (92 :: e :: rest) = SExit (Some IUnknownEscape) rest.
Proof.
  intros Hq He. unfold str_step. rewrite (proj2 (N.eqb_neq 92 q)) by congruence.
  cbn [existsb] in He. repeat (apply orb_false_iff in He; destruct He as [? He]).
  cbn [N.eqb Pos.eqb]. repeat match goal with H : (e =? _) = false |- _ => rewrite H; clear H end.
  reflexivity.
Qed.

(* ---------- rendering then lexing a string gives the string back ---------- *)
Lemma render_char_nonempty st c : (1 <= length (render_char st c))%nat.
Proof.
  destruct st as [| | |[[o cl]|]]; cbn; try lia. destruct (simple_escape c); cbn; lia.
Qed.

Lemma str_step_render q st c rest : q <> 92 -> is_scalar c = true -> style_ok q st c = true ->
  str_step q (render_char st c ++ rest) = SPush c rest.
Proof.
  intros Hq Hsc Hok. destruct st as [| | |[[o cl]|]]; cbn [style_ok] in Hok.
  - (* raw *)
    apply andb_true_iff in Hok. destruct Hok as [H1 H2]. apply negb_true_iff in H1, H2.
    cbn [render_char app]. unfold str_step. rewrite H1, H2. reflexivity.
  - (* simple *)
    cbn [render_char]. destruct (simple_escape c) as [e|] eqn:E; [|discriminate].
    unfold simple_escape in E. cbn [app]. unfold str_step.
    rewrite (proj2 (N.eqb_neq 92 q)) by congruence. cbn [N.eqb Pos.eqb].
    repeat match type of E with
           | (if (?a =? ?b) then _ else _) = _ => destruct (N.eqb_spec a b); [inversion E; subst; reflexivity|]
           end.
    destruct ((c =? 92) || (c =? 39) || (c =? 34)) eqn:E2; [|discriminate]. inversion E; subst e.
    repeat match goal with |- context [N.eqb c ?k] => destruct (N.eqb_spec c k); try (exfalso; congruence) end;
      cbn [orb] in *; try reflexivity; try discriminate; try (subst c; cbn in E2; discriminate E2).
  - (* \xHH *)
    apply N.ltb_lt in Hok. cbn [render_char app two_hex].
    assert (H16 : c / 16 < 16) by (apply N.div_lt_upper_bound; lia).
    assert (Hm : c mod 16 < 16) by (apply N.mod_lt; lia).
    rewrite (x_escape q _ _ (c / 16) (c mod 16) rest Hq
               (to_digit_digit_char _ 16 H16 ltac:(lia)) (to_digit_digit_char _ 16 Hm ltac:(lia))).
    f_equal. pose proof (N.div_mod c 16 ltac:(lia)). lia.
  - (* \u with delimiters *)
    cbn [render_char]. assert (Hd : In (o, cl) delims).
    { apply existsb_exists in Hok. destruct Hok as [[o' cl'] [Hin He]]. cbn [fst snd] in He.
      apply andb_true_iff in He. destruct He as [E1 E2]. apply N.eqb_eq in E1, E2. subst. exact Hin. }
    destruct (render_radix_spells 16 c ltac:(lia) ltac:(lia)) as (ds & Hs & Hv).
    cbn [app]. rewrite <- app_assoc. cbn [app].
    rewrite (u_escape_delimited q o cl _ ds rest Hq Hd Hs). unfold u_decoded. rewrite Hv, Hsc. reflexivity.
  - discriminate.
Qed.

Lemma str_loop_render q f : q <> 92 -> forall s fuel racc rest,
  forallb is_scalar s = true -> forallb (fun c => style_ok q (f c) c) s = true ->
  (length (render_escaped f s ++ q :: rest) < fuel)%nat ->
  str_loop fuel q (render_escaped f s ++ q :: rest) racc = Ok (None, rev racc ++ s, q :: rest).
Proof.
  intros Hq. induction s as [|c s IH]; intros fuel racc rest Hsc Hok Hf.
  - cbn [render_escaped app] in *. destruct fuel as [|fuel]; [cbn in Hf; lia|].
    cbn [str_loop str_step]. rewrite N.eqb_refl. rewrite frev_rev, app_nil_r. reflexivity.
  - cbn [forallb] in Hsc, Hok. apply andb_true_iff in Hsc, Hok. destruct Hsc as [Hc Hsc]. destruct Hok as [Ho Hok].
    cbn [render_escaped] in *. rewrite <- app_assoc in *. destruct fuel as [|fuel]; [lia|].
    cbn [str_loop]. rewrite (str_step_render q (f c) c _ Hq Hc Ho).
    rewrite IH; auto.
    + cbn [rev]. rewrite <- app_assoc. reflexivity.
    + rewrite app_length in Hf. pose proof (render_char_nonempty (f c) c). lia.
Qed.

Lemma lex_string_render q f s rest : q <> 92 ->
  forallb is_scalar s = true -> forallb (fun c => style_ok q (f c) c) s = true ->
  lex_string q (render_escaped f s ++ q :: rest) = Ok (None, s, rest).
Proof.
  intros Hq Hsc Hok. unfold lex_string. rewrite (str_loop_render q f Hq s _ [] rest Hsc Hok) by lia.
  reflexivity.
Qed.

(* all escape forms together *)
Lemma escape_forms : forall (q : N), q <> 92 ->
  (forall o cl cs ds rest, In (o, cl) delims -> spells 16 cs ds ->
     str_step q (92 :: 117 :: o :: cs ++ cl :: rest) = u_decoded (positional 16 ds) rest) /\
  (forall c d cs ds rest, spells 16 (c :: cs) (d :: ds) -> stop_base 16 rest ->
     str_step q (92 :: 117 :: (c :: cs) ++ rest) = u_decoded (positional 16 (d :: ds)) rest) /\
  (forall h1 h2 d1 d2 rest, to_digit h1 16 = Some d1 -> to_digit h2 16 = Some d2 ->
     str_step q (92 :: 120 :: h1 :: h2 :: rest) = SPush (d1 * 16 + d2) rest) /\
  (forall h1 rest, to_digit h1 16 = None ->
     str_step q (92 :: 120 :: h1 :: rest) = SExit (Some IBadHex) rest) /\
  (forall h1 d1 h2 rest, to_digit h1 16 = Some d1 -> to_digit h2 16 = None ->
     str_step q (92 :: 120 :: h1 :: h2 :: rest) = SExit (Some IBadHex) rest) /\
  (forall e rest, existsb (N.eqb e) [110; 114; 116; 48; 92; 39; 34; 120; 117] = false ->
     str_step q (92 :: e :: rest) = SExit (Some IUnknownEscape) rest).
Proof.
  intros q Hq. repeat split; intros.
  - now apply u_escape_delimited.
  - now apply u_escape_bare.
  - now apply x_escape.
  - now apply x_escape_bad1.
  - now apply (x_escape_bad2 q h1 d1).
  - now apply unknown_escape.
Qed.
