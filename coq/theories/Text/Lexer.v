(* C15 - the main loop of Lexer::lex (/repo/src/lex.rs), one arm per character class.
   Definitions and Examples only; proofs are in Lexer_proofs.v.

     lex_one U c r   <->  one iteration of `while let Some(c) = self.next() { match c ... }`
                          (c already consumed, r = what self.chars still holds);
                          result = tokens emitted in this iteration, and the remaining input
     lex_loop / lex  <->  the loop itself, fuel S (length input)

   Not modelled: CodeLoc bookkeeping (line / col / index), the wording inside Invalid(..).
   Float text -> f64 is Rust's str::parse::<f64>; the model keeps the text (TFloat txt) and
   decides only whether that parse accepts it (it rejects exactly an empty exponent). *)
From Coq Require Import NArith ZArith List Bool Ascii String.
From NV Require Import Common.Outcome Text.Chars Text.LexLit.
Import ListNotations.
Open Scope N_scope.

Inductive fixed :=
| LeftParen | RightParen | LeftBracket | BLeftBracket | RightBracket | LeftBrace | RightBrace
| Backtick | Null | And | Or | Coalesce | While | For | Yield | Into | If | Else | Switch | Case
| Try | Catch | Break | Continue | Return | Throw | Bang | QuestionMark | Colon | LeftArrow
| RightArrow | DoubleLeftArrow | DoubleColon | Semicolon | Ellipsis | Lambda | LambdaEnd | Comma
| Assign | Consume | Pop | Remove | Swap | Every | Struct | Freeze | Import | Literally | Underscore
| InternalFrame | InternalPush | InternalPop | InternalPeek | InternalWhile | InternalFor
| InternalCall | InternalLambda.

Inductive token :=
| TInvalid (k : invk)
| TInt (n : N)                 (* Token::IntLit(BigInt), never negative *)
| TRat (n : N)                 (* Token::RatLit(n/1) *)
| TFloat (txt : list N)        (* Token::FloatLit(txt.parse::<f64>()) *)
| TImag (txt : list N)         (* Token::ImaginaryFloatLit(..) *)
| TStr (s : list N)
| TBytes (b : list N)          (* UTF-8 bytes of the decoded string *)
| TFmt (s : list N)
| TIdent (s : list N)
| TFix (f : fixed)
| TPeekN (n : N)               (* Token::InternalPeekN(0..9) *)
| TComment (s : list N).

Definition inv_tok (inv : option invk) : list token :=
  match inv with Some k => [TInvalid k] | None => [] end.

(* ----- '#' comments ----- *)
(* the `loop` of a range comment; depth is an i32 (checked arithmetic, debug build).
   Result: Some comment when closed, None when the input ran out (runaway). *)
Fixpoint range_comment (depth : Z) (s : list N) (racc : list N) : outcome (option (list N) * list N) :=
  match s with
  | [] => Ok (None, [])
  | c :: r =>
    d1 <- (if isc "(" c then chk_i32 (depth + 1) else Ok depth) ;;
    if isc ")" c then
      d2 <- chk_i32 (d1 - 1) ;;
      if (d2 =? 0)%Z then Ok (Some (frev racc), r) else range_comment d2 r (c :: racc)
    else range_comment d1 r (c :: racc)
  end.

Fixpoint line_comment (s : list N) : list N * list N :=
  match s with
  | [] => ([], [])
  | c :: r => if c =? 10 then ([], r) else let (a, b) := line_comment r in (c :: a, b)
  end.

Definition lex_comment (r : list N) : outcome (list token * list N) :=
  match r with
  | [] => Ok ([TComment []], [])
  | c :: r1 =>
    if c =? 10 then Ok ([TComment []], r1)
    else if isc "(" c then
      x <- range_comment 1 r1 [] ;;
      match x with
      | (Some com, rest) => Ok ([TComment com], rest)
      | (None, rest) => Ok ([TInvalid IRunawayComment], rest)   (* `return`: the input is exhausted *)
      end
    else let (a, rest) := line_comment r1 in Ok ([TComment (c :: a)], rest)
  end.

(* ----- numbers ----- *)
(* acc.parse::<f64>() accepts D+ | D+.D* optionally followed by e, an optional - or +, and D+;
   of the texts the lexer builds it rejects exactly those whose exponent has no digit *)
Definition float_tok (imag : bool) (txt : list N) (valid : bool) : token :=
  if valid then (if imag then TImag txt else TFloat txt) else TInvalid IBadFloat.

(* the `e`/`E` arm: acc.push('e'); optional sign '-' or '+' (kept as written); digits *)
Definition lex_exponent (acc : list N) (r : list N) : token * list N :=
  let acc1 := acc ++ [chr "e"] in
  let '(acc2, r2) := match r with
                     | c :: r' => if isc "-" c || isc "+" c then (acc1 ++ [c], r') else (acc1, r)
                     | [] => (acc1, r)
                     end in
  let '(es, r3) := span is_ascii_digit r2 in
  (float_tok false (acc2 ++ es) (negb (N.of_nat (List.length es) =? 0)), r3).

Definition int_tok (acc : list N) : outcome token :=
  match parse_bigint acc with Some v => Ok (TInt v) | None => Panic end.   (* .unwrap() *)
Definition rat_tok (acc : list N) : outcome token :=
  match parse_bigint acc with Some v => Ok (TRat v) | None => Panic end.

Definition lex_number (c : N) (r : list N) : outcome (list token * list N) :=
  let '(ds, r1) := span is_ascii_digit r in
  let acc := c :: ds in
  match r1 with
  | p :: r2 =>
    if isc "." p then
      let '(fs, r3) := span is_ascii_digit r2 in
      let acc := acc ++ p :: fs in
      match r3 with
      | k :: r4 =>
        if one_of "i" "I" k || one_of "j" "J" k then Ok ([float_tok true acc true], r4)
        else if one_of "e" "E" k then let '(t, r5) := lex_exponent acc r4 in Ok ([t], r5)
        else if one_of "f" "F" k then Ok ([float_tok false acc true], r4)
        else Ok ([float_tok false acc true], r3)
      | [] => Ok ([float_tok false acc true], [])
      end
    else if str_is "0" acc && one_of "x" "X" p then
      let '(x, rest) := lex_base_go 16 0 r2 in Ok ([TInt x], rest)
    else if str_is "0" acc && one_of "b" "B" p then
      let '(x, rest) := lex_base_go 2 0 r2 in Ok ([TInt x], rest)
    else if str_is "0" acc && one_of "o" "O" p then
      let '(x, rest) := lex_base_go 8 0 r2 in Ok ([TInt x], rest)
    else if one_of "r" "R" p then
      match parse_u32 acc with
      | Some radix =>
        if (2 <=? radix) && (radix <=? 36) then
          let '(x, rest) := lex_base_go radix 0 r2 in Ok ([TInt x], rest)
        else if radix =? 64 then
          let '(x, rest) := lex_base64_go 0 r2 in Ok ([TInt x], rest)
        else t <- int_tok acc ;; Ok ([t], r1)
      | None => t <- int_tok acc ;; Ok ([t], r1)
      end
    else if one_of "i" "I" p || one_of "j" "J" p then Ok ([float_tok true acc true], r2)
    else if one_of "q" "Q" p then t <- rat_tok acc ;; Ok ([t], r2)
    else if one_of "f" "F" p then Ok ([float_tok false acc true], r2)
    else if one_of "e" "E" p then let '(t, r5) := lex_exponent acc r2 in Ok ([t], r5)
    else t <- int_tok acc ;; Ok ([t], r1)
  | [] => t <- int_tok acc ;; Ok ([t], [])
  end.

(* ----- identifiers, keywords, string prefixes ----- *)
Definition ident_cont (U : uclass) (c : N) : bool :=
  is_alphanumeric U c || isc "_" c || isc "'" c || isc "?" c.

(* the accumulation loop; blen = acc.len() in bytes, racc = acc reversed *)
Fixpoint ident_go (U : uclass) (first : N) (blen : N) (racc : list N) (s : list N) : list N * list N :=
  match s with
  | cc :: r =>
    if ident_cont U cc then
      if is_uppercase U first && (blen =? 1) && isc "'" cc then (frev racc, s)   (* F', R', B' start strings *)
      else ident_go U first (blen + utf8_len cc) (cc :: racc) r
    else (frev racc, s)
  | [] => (frev racc, [])
  end.

Definition keyword (acc : list N) : token :=
  if str_is "if" acc then TFix If else if str_is "else" acc then TFix Else
  else if str_is "while" acc then TFix While else if str_is "for" acc then TFix For
  else if str_is "yield" acc then TFix Yield else if str_is "into" acc then TFix Into
  else if str_is "switch" acc then TFix Switch else if str_is "case" acc then TFix Case
  else if str_is "null" acc then TFix Null else if str_is "and" acc then TFix And
  else if str_is "or" acc then TFix Or else if str_is "coalesce" acc then TFix Coalesce
  else if str_is "break" acc then TFix Break else if str_is "try" acc then TFix Try
  else if str_is "catch" acc then TFix Catch else if str_is "throw" acc then TFix Throw
  else if str_is "continue" acc then TFix Continue else if str_is "return" acc then TFix Return
  else if str_is "consume" acc then TFix Consume else if str_is "pop" acc then TFix Pop
  else if str_is "remove" acc then TFix Remove else if str_is "swap" acc then TFix Swap
  else if str_is "every" acc then TFix Every else if str_is "struct" acc then TFix Struct
  else if str_is "freeze" acc then TFix Freeze else if str_is "import" acc then TFix Import
  else if str_is "literally" acc then TFix Literally else if str_is "_" acc then TFix Underscore
  else if str_is "__internal_frame" acc then TFix InternalFrame
  else if str_is "__internal_push" acc then TFix InternalPush
  else if str_is "__internal_pop" acc then TFix InternalPop
  else if str_is "__internal_peek" acc then TFix InternalPeek
  else if str_is "__internal_0" acc then TPeekN 0 else if str_is "__internal_1" acc then TPeekN 1
  else if str_is "__internal_2" acc then TPeekN 2 else if str_is "__internal_3" acc then TPeekN 3
  else if str_is "__internal_4" acc then TPeekN 4 else if str_is "__internal_5" acc then TPeekN 5
  else if str_is "__internal_6" acc then TPeekN 6 else if str_is "__internal_7" acc then TPeekN 7
  else if str_is "__internal_8" acc then TPeekN 8 else if str_is "__internal_9" acc then TPeekN 9
  else if str_is "__internal_while" acc then TFix InternalWhile
  else if str_is "__internal_for" acc then TFix InternalFor
  else if str_is "__internal_call" acc then TFix InternalCall
  else if str_is "__internal_lambda" acc then TFix InternalLambda
  else TIdent acc.

Definition is_quote (c : N) : bool := isc "'" c || isc """" c.

Definition lex_ident (U : uclass) (c : N) (r : list N) : outcome (list token * list N) :=
  let init := if c =? c_dragon then cps "__internal_" else [c] in
  let blen := if c =? c_dragon then 11 else utf8_len c in
  let '(acc, r1) := ident_go U c blen (frev init) r in
  if str_is "B" acc then
    match r1 with
    | d :: r2 =>
      if is_quote d then
        x <- lex_string d r2 ;;
        let '(inv, s, rest) := x in Ok (inv_tok inv ++ [TBytes (utf8_encode s)], rest)
      else if isc "[" d then Ok ([TFix BLeftBracket], r2)
      else Ok ([TIdent acc], r1)
    | [] => Ok ([TIdent acc], [])
    end
  else if str_is "F" acc then
    match r1 with          (* self.next(): consumed whatever it is *)
    | d :: r2 =>
      if is_quote d then
        x <- lex_string d r2 ;;
        let '(inv, s, rest) := x in Ok (inv_tok inv ++ [TFmt s], rest)
      else Ok ([TInvalid IFmtNoQuote], r2)
    | [] => Ok ([TInvalid IFmtNoQuote], [])
    end
  else if str_is "R" acc then
    match r1 with
    | d :: r2 =>
      if is_quote d then
        let '(inv, s, rest) := lex_raw d r2 in Ok (inv_tok inv ++ [TStr s], rest)
      else Ok ([TInvalid IRawNoQuote], r2)
    | [] => Ok ([TInvalid IRawNoQuote], [])
    end
  else Ok ([keyword acc], r1).

(* ----- operators ----- *)
Fixpoint op_go (last : N) (racc : list N) (s : list N) : N * list N * list N :=
  match s with
  | cc :: r => if is_opsym cc then op_go cc (last :: racc) r else (last, frev racc, s)
  | [] => (last, frev racc, [])
  end.

Definition op_word (acc : list N) : token :=
  if str_is "!" acc then TFix Bang else if str_is "..." acc then TFix Ellipsis
  else if str_is "<-" acc then TFix LeftArrow else if str_is "->" acc then TFix RightArrow
  else if str_is "<<-" acc then TFix DoubleLeftArrow else TIdent acc.

Definition lex_operator (c : N) (r : list N) : list token * list N :=
  let '(last, acc, rest) := op_go c [] r in
  if isc "=" last then
    if str_is "!" acc || str_is "<" acc || str_is ">" acc || str_is "=" acc then ([TIdent (acc ++ [last])], rest)
    else match acc with
         | [] => ([TFix Assign], rest)
         | _ => ([TIdent acc; TFix Assign], rest)       (* emit_but_last *)
         end
  else ([op_word (acc ++ [last])], rest).

(* ----- one iteration of the main loop ----- *)
Definition lex_one (U : uclass) (c : N) (r : list N) : outcome (list token * list N) :=
  if isc "(" c then Ok ([TFix LeftParen], r)
  else if isc ")" c then Ok ([TFix RightParen], r)
  else if isc "[" c then Ok ([TFix LeftBracket], r)
  else if isc "]" c then Ok ([TFix RightBracket], r)
  else if isc "{" c then Ok ([TFix LeftBrace], r)
  else if isc "}" c then Ok ([TFix RightBrace], r)
  else if isc "`" c then Ok ([TFix Backtick], r)
  else if isc "\" c then
    match r with
    | c2 :: r2 => if isc "\" c2 then Ok ([TFix LambdaEnd], r2) else Ok ([TFix Lambda], r)
    | [] => Ok ([TFix Lambda], [])
    end
  else if isc "," c then Ok ([TFix Comma], r)
  else if isc ";" c then Ok ([TFix Semicolon], r)
  else if isc ":" c then
    match r with
    | c2 :: r2 => if isc ":" c2 then Ok ([TFix DoubleColon], r2) else Ok ([TFix Colon], r)
    | [] => Ok ([TFix Colon], [])
    end
  else if (c =? 32) || (c =? 10) then Ok ([], r)
  else if isc "#" c then lex_comment r
  else if is_quote c then
    x <- lex_string c r ;;
    let '(inv, s, rest) := x in Ok (inv_tok inv ++ [TStr s], rest)
  else if c =? c_wedge then Ok ([TFix And], r)
  else if c =? c_vee then Ok ([TFix Or], r)
  else if isc "?" c then Ok ([TFix QuestionMark], r)
  else if is_whitespace c then Ok ([], r)
  else if is_ascii_digit c then lex_number c r
  else if is_alphabetic U c || isc "_" c || (c =? c_dragon) then lex_ident U c r
  else if is_opsym c && negb (isc "?" c) then Ok (lex_operator c r)
  else Ok ([TInvalid IBadChar], r).

Fixpoint lex_loop (U : uclass) (fuel : nat) (s : list N) (racc : list token) : outcome (list token) :=
  match fuel with
  | O => OutOfFuel
  | S f =>
    match s with
    | [] => Ok (frev racc)
    | c :: r =>
      x <- lex_one U c r ;;
      let '(toks, rest) := x in lex_loop U f rest (rev toks ++ racc)
    end
  end.

(* noulith::lex *)
Definition lex (U : uclass) (s : list N) : outcome (list token) := lex_loop U (S (List.length s)) s [].

(* strip_comments, first component *)
Definition is_comment (t : token) : bool := match t with TComment _ => true | _ => false end.
Definition strip_comments (l : list token) : list token := filter (fun t => negb (is_comment t)) l.
Definition comments_of (l : list token) : list (list N) :=
  flat_map (fun t => match t with TComment s => [s] | _ => [] end) l.

(* Parser::atom on an integer token: i64 when it fits, BigInt otherwise; same value either way *)
Inductive int_expr := IntLit64 (z : Z) | IntLitBig (z : Z).
Definition atom_int (n : N) : int_expr :=
  if (Z.of_N n <=? 9223372036854775807)%Z then IntLit64 (Z.of_N n) else IntLitBig (Z.of_N n).
Definition int_expr_value (e : int_expr) : Z := match e with IntLit64 z => z | IntLitBig z => z end.

(* a U for Examples: no non-ASCII letters at all *)
Definition U_ascii : uclass := {| uc_alphabetic := fun _ => false; uc_numeric := fun _ => false; uc_uppercase := fun _ => false |}.

Example ex_lex1 : lex U_ascii (cps "x += 36rZz; f(0x1F)") =
  Ok [TIdent (cps "x"); TIdent (cps "+"); TFix Assign; TInt 1295; TFix Semicolon;
      TIdent (cps "f"); TFix LeftParen; TInt 31; TFix RightParen].
Proof. reflexivity. Qed.
Example ex_lex2 : lex U_ascii (cps "a<=b #(x(y)z) 1.5e-3 2q 7r") =
  Ok [TIdent (cps "a"); TIdent (cps "<="); TIdent (cps "b"); TComment (cps "x(y)z");
      TFloat (cps "1.5e-3"); TRat 2; TInt 0].
Proof. reflexivity. Qed.
Example ex_lex_exp_plus : lex U_ascii (cps "1e+21 2.5E+3 1e+ 1e+x") =
  Ok [TFloat (cps "1e+21"); TFloat (cps "2.5e+3"); TInvalid IBadFloat; TInvalid IBadFloat; TIdent (cps "x")].
Proof. reflexivity. Qed.
Example ex_lex3 : lex U_ascii (cps "B'\xff' F'{x}' R'\n' 1e") =
  Ok [TBytes [195; 191]; TFmt (cps "{x}"); TStr (cps "\n"); TInvalid IBadFloat].
Proof. reflexivity. Qed.
