(* C15 - parse_format_string's brace scanner is total: for every body it returns segments or
   one of its errors; the nesting-level arithmetic never overflows and never goes below zero,
   whatever the expression parser (parameter parse_expr) answers. *)
From Coq Require Import NArith ZArith List Bool Lia.
From NV Require Import Common.Outcome Text.Chars Text.Chars_proofs Text.LexLit Text.LexLit_proofs
  Text.Lexer Text.Lexer_proofs Text.FormatScan.
Import ListNotations.
Open Scope N_scope.

Lemma close_expr_ok U pe expr : (Z.of_nat (length expr) <= i32_max)%Z -> exists x, close_expr U pe expr = Ok x.
Proof.
  intros H. unfold close_expr. destruct (lex_total U expr H) as [toks ->]. cbn [bind].
  destruct (strip_comments toks); [eauto|].
  destruct (flags_all (comments_of toks) flags_new); [|eauto].
  destruct (pe (t :: l)) as [[|]|]; eauto.
Qed.

Lemma dec_level_ok l : (1 <= l <= i32_max)%Z -> dec_level l = Ok (l - 1)%Z.
Proof.
  intros H. unfold dec_level. destruct (Z.leb_spec l 0); [lia|].
  apply chk_i32_ok. unfold i32_min, i32_max in *. lia.
Qed.

Lemma fmt_scan_ok U pe : forall n s level rexpr rret, (length s <= n)%nat ->
  (0 <= level)%Z -> (level + Z.of_nat (length s) <= i32_max)%Z ->
  (Z.of_nat (length rexpr) + Z.of_nat (length s) <= i32_max)%Z ->
  exists r, fmt_scan U pe level s rexpr rret = Ok r.
Proof.
  induction n as [|n IH]; intros s level rexpr rret Hn H0 H1 H2.
  - destruct s; [|cbn in Hn; lia]. cbn. destruct (level =? 0)%Z; eauto.
  - destruct s as [|c r]; [cbn; destruct (level =? 0)%Z; eauto|].
    cbn [length] in *. rewrite Nat2Z.inj_succ in *. cbn [fmt_scan].
    assert (Hup : chk_i32 (level + 1) = Ok (level + 1)%Z) by (apply chk_i32_ok; unfold i32_min, i32_max in *; lia).
    destruct (Z.eqb_spec level 0) as [Hz|Hnz].
    + destruct (c =? 123).
      { destruct r as [|c2 r2].
        - rewrite Hup. cbn [bind]. apply IH; cbn [length] in *; lia.
        - destruct (c2 =? 123).
          + apply IH; cbn [length] in *; try rewrite Nat2Z.inj_succ in *; lia.
          + rewrite Hup. cbn [bind]. apply IH; cbn [length] in *; try rewrite Nat2Z.inj_succ in *; lia. }
      destruct (c =? 125).
      { destruct r as [|c2 r2]; [eauto|]. destruct (c2 =? 125); [|eauto].
        apply IH; cbn [length] in *; try rewrite Nat2Z.inj_succ in *; lia. }
      apply IH; lia.
    + destruct (c =? 123).
      { rewrite Hup. cbn [bind]. apply IH; cbn [length]; try rewrite Nat2Z.inj_succ; lia. }
      destruct (c =? 125).
      { rewrite dec_level_ok by (unfold i32_max in *; lia). cbn [bind].
        destruct (level =? 1)%Z.
        - destruct (close_expr_ok U pe (frev rexpr)) as [x ->].
          { rewrite frev_rev, rev_length. lia. }
          cbn [bind]. destruct x as [e|sg]; [eauto|]. apply IH; cbn [length]; lia.
        - apply IH; cbn [length]; try rewrite Nat2Z.inj_succ; lia. }
      apply IH; cbn [length]; try rewrite Nat2Z.inj_succ; lia.
Qed.

Theorem format_scanner_total U pe s : (Z.of_nat (length s) <= i32_max)%Z ->
  exists r, parse_format_string U pe s = Ok r.
Proof.
  intros H. unfold parse_format_string. apply (fmt_scan_ok U pe (length s)); cbn [length]; unfold i32_max in *; lia.
Qed.

(* the flag reader is a total function by construction (structural recursion, no outcome);
   a pad length is accepted exactly when it fits a usize *)
Lemma close_run_spec racc f : close_run racc f <> None <-> dec_value (frev racc) <= usize_max_n.
Proof.
  unfold close_run. destruct (N.leb_spec (dec_value (frev racc)) usize_max_n); split; intros; try discriminate; try lia; congruence.
Qed.
